/-
  Round trip of the TOML writer, part 2: documents.

  `parseStmts_tableP`   the specification reader (`RsjProofs/TomlRead.lean`) splits the
                        text `std.manifestTomlEx` writes for a table (`tableP`,
                        `RsjProofs/Toml.lean`) into exactly the statements `tableStmts`
                        (`RsjProofs/TomlSem.lean`), with the fuel `readToml` supplies;
  `readToml_manifest`   hence `readToml` of the written text is the table itself, fields
                        in the order `normT` (plain fields, then sub-tables), numbers
                        in the writer's spelling (`numsF`: `.0` after integer tokens of
                        magnitude ≥ 2^63).

  Hypotheses: the indent consists of TOML whitespace, numbers are number tokens and
  objects have pairwise distinct keys (`ValOK`), there is no `null` (the writer fails
  on `null`).

  Method: one lemma per loop of the writer (`plain_parse`, `subs_parse` / `arr_parse`,
  `table_parse`), each of the form "if the reader turns what follows (`outer`) into the
  statements `ss` with fuel `f`, it turns TEXT ++ outer into STMTS ++ ss with fuel
  `f` + number of statements", provided `f` covers the values and header paths in TEXT
  (`needPlain`, `needSubs`, `needArr`).  What follows a table is the end of the text or
  a newline (`NlStart`), and is read the same way whatever the current table is (it is
  empty or starts with a header).
-/
import RsjProofs.TomlRoundtripVal
import RsjProofs.TomlNums
namespace Rsj.Toml
open Rsj.Json

/-! ### lines -/

/-- the end of the text, or a newline -/
def NlStart (r : Str) : Prop := r = [] ∨ ∃ r', r = 10 :: r'

theorem NlStart.tdelim {r : Str} (h : NlStart r) : TDelim r := by
  rcases h with h | ⟨r', h⟩
  · exact Or.inl h
  · exact Or.inr ⟨10, r', h, by omega⟩

theorem parseStmts_nl (f : Nat) (p : List Str) (r : Str) : parseStmts f p (10 :: r) = parseStmts f p r := by
  cases f with
  | zero => simp only [parseStmts]
  | succ f => simp only [parseStmts, skipWsNl_nl]

theorem parseStmts_wsNl (f : Nat) (p : List Str) {w : Str} (hw : WsNl w) (r : Str) :
    parseStmts f p (w ++ r) = parseStmts f p r := by
  cases f with
  | zero => simp only [parseStmts]
  | succ f => simp only [parseStmts, skipWsNl_append hw]

theorem parseStmts_end (f : Nat) (p : List Str) : parseStmts (f + 1) p [] = some [] := by
  simp only [parseStmts, skipWsNl]

/-- the rest of a line that is already over -/
theorem endLine_nlStart {R : Str} (h : NlStart R) :
    ∃ R', endLine R = some R' ∧ ∀ g p, parseStmts g p R' = parseStmts g p R := by
  rcases h with rfl | ⟨r', rfl⟩
  · exact ⟨[], rfl, fun _ _ => rfl⟩
  · refine ⟨r', ?_, fun g p => (parseStmts_nl g p r').symm⟩
    rw [endLine, skipWs_cons _ (by decide)]
    rfl

/-! ### one statement -/

theorem parseStmts_kv {f : Nat} {cur : List Str} {s : Str} {c : Nat} {r k r0 r1 : Str} {v : JVal} {r2 r3 : Str}
    {ss : List Stmt}
    (h : skipWsNl s = c :: r) (hc : c ≠ 91)
    (hk : readKey (c :: r) = some (k, r0)) (h1 : skipWs r0 = 61 :: r1)
    (hv : readVal f (skipWs r1) = some (v, r2)) (he : endLine r2 = some r3)
    (hs : parseStmts f cur r3 = some ss) :
    parseStmts (f + 1) cur s = some (.kv cur k v :: ss) := by
  rw [parseStmts, h]
  split
  · next heq => cases heq
  · next heq => injection heq with h1 _; exact absurd h1 hc
  · next heq => injection heq with h1 _; exact absurd h1 hc
  · next c' r' _ _ heq =>
    injection heq with e1 e2; subst e1; subst e2
    simp only [hk, h1, hv, he, hs]

theorem parseStmts_table {f : Nat} {cur : List Str} {s : Str} {r r1 r2 r3 : Str} {p q : List Str} {k : Str}
    {ss : List Stmt}
    (h : skipWsNl s = 91 :: r) (hr : ∀ r', r ≠ 91 :: r')
    (hp : readPath f (skipWs r) = some (p, r1)) (h1 : skipWs r1 = 93 :: r2)
    (he : endLine r2 = some r3) (hl : splitLast p = some (q, k))
    (hs : parseStmts f p r3 = some ss) :
    parseStmts (f + 1) cur s = some (.table q k :: ss) := by
  rw [parseStmts, h]
  split
  · next heq => cases heq
  · next heq => injection heq with _ h2; exact absurd h2 (hr _)
  · next heq =>
    injection heq with _ e2; subst e2
    simp only [hp, h1, he, hl, hs]
  · next hx heq => injection heq with e1 _; exact absurd e1.symm hx

theorem parseStmts_arrTable {f : Nat} {cur : List Str} {s : Str} {r r1 r2 r3 : Str} {p q : List Str} {k : Str}
    {ss : List Stmt}
    (h : skipWsNl s = 91 :: 91 :: r)
    (hp : readPath f (skipWs r) = some (p, r1)) (h1 : skipWs r1 = 93 :: 93 :: r2)
    (he : endLine r2 = some r3) (hl : splitLast p = some (q, k))
    (hs : parseStmts f p r3 = some ss) :
    parseStmts (f + 1) cur s = some (.arrTable q k :: ss) := by
  rw [parseStmts, h]
  simp only [hp, h1, he, hl, hs]

/-! ### headers -/

theorem header_false (ind : Str) (path : List Str) (k R : Str) :
    header ind path k false ++ R
      = 10 :: (rep path.length ind ++ 91 :: (pathDots path ++ (escapeKeyToml k ++ 93 :: R))) := by
  simp only [header, Bool.false_eq_true, if_false, List.append_assoc, List.cons_append, List.nil_append]

theorem header_true (ind : Str) (path : List Str) (k R : Str) :
    header ind path k true ++ R
      = 10 :: (rep path.length ind ++ 91 :: 91 :: (pathDots path ++ (escapeKeyToml k ++ 93 :: 93 :: R))) := by
  simp only [header, if_true, List.append_assoc, List.cons_append, List.nil_append]

/-- `[path.k]` followed by the end of the line -/
theorem parse_table_header {ind : Str} (hi : IndOK ind) (path : List Str) (k : Str) {f : Nat} {R : Str}
    {ss : List Stmt} (hf : path.length + 1 ≤ f) (hR : NlStart R)
    (hs : parseStmts f (path ++ [k]) R = some ss) (cur : List Str) :
    parseStmts (f + 1) cur (header ind path k false ++ R) = some (.table path k :: ss) := by
  obtain ⟨R', he, hR'⟩ := endLine_nlStart hR
  obtain ⟨c, t, hX, hcb⟩ := pathKey_head path k (93 :: R)
  have hcf := keyHead_facts hcb
  have hsk : skipWsNl (header ind path k false ++ R)
      = 91 :: (pathDots path ++ (escapeKeyToml k ++ 93 :: R)) := by
    rw [header_false, skipWsNl_nl, skipWsNl_append (hi.rep _).wsNl]
    exact skipWsNl_cons _ (by decide) (by decide)
  refine parseStmts_table hsk ?_ ?_ (skipWs_cons _ (by decide)) he (splitLast_snoc k path) ?_
  · intro r' h; rw [hX] at h; injection h with h1 _; exact hcf.2 h1
  · rw [hX, skipWs_cons _ hcf.1.ws, ← hX]
    exact readPath_header k R path f hf
  · rw [hR']; exact hs

/-- `[[path.k]]` followed by the end of the line -/
theorem parse_arr_header {ind : Str} (hi : IndOK ind) (path : List Str) (k : Str) {f : Nat} {R : Str}
    {ss : List Stmt} (hf : path.length + 1 ≤ f) (hR : NlStart R)
    (hs : parseStmts f (path ++ [k]) R = some ss) (cur : List Str) :
    parseStmts (f + 1) cur (header ind path k true ++ R) = some (.arrTable path k :: ss) := by
  obtain ⟨R', he, hR'⟩ := endLine_nlStart hR
  obtain ⟨c, t, hX, hcb⟩ := pathKey_head path k (93 :: 93 :: R)
  have hcf := keyHead_facts hcb
  have hsk : skipWsNl (header ind path k true ++ R)
      = 91 :: 91 :: (pathDots path ++ (escapeKeyToml k ++ 93 :: 93 :: R)) := by
    rw [header_true, skipWsNl_nl, skipWsNl_append (hi.rep _).wsNl]
    exact skipWsNl_cons _ (by decide) (by decide)
  refine parseStmts_arrTable hsk ?_ (skipWs_cons _ (by decide)) he (splitLast_snoc k path) ?_
  · rw [hX, skipWs_cons _ hcf.1.ws, ← hX]
    exact readPath_header k (93 :: R) path f hf
  · rw [hR']; exact hs

/-! ### fuel for the statements -/

/-- fuel for the values of the plain fields -/
def needPlain : List (Str × JVal) → Nat
  | [] => 0
  | (_, v) :: rest => if isSubTable v then needPlain rest else needV v + needPlain rest

mutual
/-- fuel for the header paths and the values inside the sub-tables -/
def needSubs (path : List Str) : List (Str × JVal) → Nat
  | [] => 0
  | (k, v) :: rest =>
    if isSubTable v then
      (match v with
        | .obj sub => (path.length + 1) + (needPlain sub + needSubs (path ++ [k]) sub)
        | .arr items => needArr path k items
        | _ => 0) + needSubs path rest
    else needSubs path rest
def needArr (path : List Str) (k : Str) : List JVal → Nat
  | [] => 0
  | .obj sub :: rest =>
    (path.length + 1) + (needPlain sub + needSubs (path ++ [k]) sub) + needArr path k rest
  | _ :: rest => needArr path k rest
end

/-! ### the plain-field loop -/

theorem plainP_nil (ind : Str) (path : List Str) : ∀ (fs : List (Str × JVal)), anyPlain fs = false →
    plainP ind path fs = []
  | [], _ => rfl
  | (k, v) :: rest, h => by
    simp only [anyPlain, List.any_cons, Bool.or_eq_false_iff, Bool.not_eq_false'] at h
    rw [plainP, if_pos h.1]
    exact plainP_nil ind path rest h.2

/-- what follows the value of a plain field -/
theorem plain_follow (ind : Str) (path : List Str) (rest : List (Str × JVal)) {outer : Str} (ho : NlStart outer) :
    NlStart ((if anyPlain rest then [10] else []) ++ (plainP ind path rest ++ outer)) ∧
    ∀ g p, parseStmts g p ((if anyPlain rest then [10] else []) ++ (plainP ind path rest ++ outer))
      = parseStmts g p (plainP ind path rest ++ outer) := by
  cases h : anyPlain rest
  · rw [plainP_nil ind path rest h]
    exact ⟨ho, fun _ _ => rfl⟩
  · exact ⟨Or.inr ⟨_, rfl⟩, fun g p => parseStmts_nl g p _⟩

theorem plain_parse {ind : Str} (hi : IndOK ind) (path : List Str) :
    ∀ (fs : List (Str × JVal)) (f : Nat) (outer : Str) (ss : List Stmt),
      NlStart outer → FieldsOK fs → hasNullF fs = false → needPlain fs ≤ f →
      parseStmts f path outer = some ss →
      parseStmts (f + (plainStmts path fs).length) path (plainP ind path fs ++ outer)
        = some (plainStmts path fs ++ ss)
  | [], f, outer, ss, _, _, _, _, hs => by
    simpa only [plainStmts, plainP, List.length_nil, Nat.add_zero, List.nil_append] using hs
  | (k, v) :: rest, f, outer, ss, ho, hok, hnn, hf, hs => by
    rw [FieldsOK] at hok
    have hnn' := hasNullF_cons hnn
    cases hsub : isSubTable v
    · simp only [needPlain, hsub, Bool.false_eq_true, if_false] at hf
      have ih := plain_parse hi path rest f outer ss ho hok.2 hnn'.2 (by omega) hs
      obtain ⟨hR, hRp⟩ := plain_follow ind path rest ho
      obtain ⟨R', he, hR'⟩ := endLine_nlStart hR
      obtain ⟨c, t, hc, hcb⟩ := escapeKeyToml_head k
      have hcf := keyHead_facts hcb
      have e : plainP ind path ((k, v) :: rest) ++ outer
          = rep path.length ind ++ (escapeKeyToml k ++ 32 :: 61 :: 32 ::
              (valueP ind path.length false v ++
                ((if anyPlain rest then [10] else []) ++ (plainP ind path rest ++ outer)))) := by
        simp only [plainP, hsub, Bool.false_eq_true, if_false, List.append_assoc, List.cons_append,
          List.nil_append]
      have e2 : plainStmts path ((k, v) :: rest) = .kv path k v :: plainStmts path rest := by
        simp only [plainStmts, hsub, Bool.false_eq_true, if_false]
      have e3 : f + (plainStmts path ((k, v) :: rest)).length = (f + (plainStmts path rest).length) + 1 := by
        rw [e2, List.length_cons]; omega
      rw [e3, e, e2, List.cons_append]
      have hsk : skipWsNl (rep path.length ind ++ (escapeKeyToml k ++ 32 :: 61 :: 32 ::
              (valueP ind path.length false v ++
                ((if anyPlain rest then [10] else []) ++ (plainP ind path rest ++ outer)))))
          = c :: (t ++ 32 :: 61 :: 32 ::
              (valueP ind path.length false v ++
                ((if anyPlain rest then [10] else []) ++ (plainP ind path rest ++ outer)))) := by
        rw [skipWsNl_append (hi.rep _).wsNl, hc, List.cons_append]
        exact skipWsNl_cons _ hcf.1.ws hcf.1.nl
      refine parseStmts_kv
        (r0 := 32 :: 61 :: 32 :: (valueP ind path.length false v ++
                ((if anyPlain rest then [10] else []) ++ (plainP ind path rest ++ outer))))
        (r1 := 32 :: (valueP ind path.length false v ++
                ((if anyPlain rest then [10] else []) ++ (plainP ind path rest ++ outer))))
        hsk hcf.2 ?_ ?_ ?_ he ?_
      · rw [← List.cons_append, ← hc]
        exact readKey_escapeKeyToml k _ isBare_sp
      · rw [skipWs_sp]; exact skipWs_cons _ (by decide)
      · have hsv : skipWs (32 :: (valueP ind path.length false v ++
                ((if anyPlain rest then [10] else []) ++ (plainP ind path rest ++ outer))))
            = valueP ind path.length false v ++
                ((if anyPlain rest then [10] else []) ++ (plainP ind path rest ++ outer)) :=
          skipWs_value ind _ _ v hok.1 hnn'.1 (w := [32]) (by intro x hx; simp at hx; subst hx; decide) _
        rw [hsv]
        exact readVal_valueP hi v _ _ _ _ hok.1 hnn'.1 hR.tdelim (by omega)
      · rw [hR', hRp]; exact ih
    · simp only [needPlain, plainStmts, plainP, hsub, if_true] at hf ⊢
      exact plain_parse hi path rest f outer ss ho hok.2 hnn'.2 hf hs

/-! ### tables -/

/-- a field that is not a sub-table is invisible to the sub-table loop -/
theorem subs_skip_eqs (ind : Str) (path : List Str) (k : Str) : (v : JVal) → isSubTable v = false →
    ∀ rest : List (Str × JVal),
      subsP ind path ((k, v) :: rest) = subsP ind path rest ∧
      subStmts path ((k, v) :: rest) = subStmts path rest ∧
      needSubs path ((k, v) :: rest) = needSubs path rest
  | .obj _, h, _ => by simp [isSubTable] at h
  | .arr items, h, rest => by
    simp only [subsP, subStmts, needSubs, h, Bool.false_eq_true, if_false, and_self]
  | .null, _, rest => by
    simp only [subsP, subStmts, needSubs, isSubTable, Bool.false_eq_true, if_false, and_self]
  | .bool _, _, rest => by
    simp only [subsP, subStmts, needSubs, isSubTable, Bool.false_eq_true, if_false, and_self]
  | .num _, _, rest => by
    simp only [subsP, subStmts, needSubs, isSubTable, Bool.false_eq_true, if_false, and_self]
  | .str _, _, rest => by
    simp only [subsP, subStmts, needSubs, isSubTable, Bool.false_eq_true, if_false, and_self]

theorem subsP_nil (ind : Str) (path : List Str) : ∀ (fs : List (Str × JVal)), anySub fs = false →
    subsP ind path fs = []
  | [], _ => by simp only [subsP]
  | (k, v) :: rest, h => by
    simp only [anySub, List.any_cons, Bool.or_eq_false_iff] at h
    rw [(subs_skip_eqs ind path k v h.1 rest).1]
    exact subsP_nil ind path rest h.2

/-- what follows the plain fields of a table, or a sub-table -/
theorem subs_follow (ind : Str) (path : List Str) (rest : List (Str × JVal)) {outer : Str} (ho : NlStart outer) :
    NlStart ((if anySub rest then [10] else []) ++ (subsP ind path rest ++ outer)) ∧
    ∀ g p, parseStmts g p ((if anySub rest then [10] else []) ++ (subsP ind path rest ++ outer))
      = parseStmts g p (subsP ind path rest ++ outer) := by
  cases h : anySub rest
  · rw [subsP_nil ind path rest h]
    exact ⟨ho, fun _ _ => rfl⟩
  · exact ⟨Or.inr ⟨_, rfl⟩, fun g p => parseStmts_nl g p _⟩

/-- what follows an item of an array of tables -/
theorem arr_follow (ind : Str) (path : List Str) (k : Str) (rest : List JVal) {outer : Str} (ho : NlStart outer) :
    NlStart (nlAfter rest ++ (arrTablesP ind path k rest ++ outer)) ∧
    ∀ g p, parseStmts g p (nlAfter rest ++ (arrTablesP ind path k rest ++ outer))
      = parseStmts g p (arrTablesP ind path k rest ++ outer) := by
  cases rest with
  | nil =>
    exact ⟨by simpa only [nlAfter, arrTablesP, List.nil_append] using ho,
      fun g p => by simp only [nlAfter, List.nil_append]⟩
  | cons y ys => exact ⟨Or.inr ⟨_, rfl⟩, fun g p => parseStmts_nl g p _⟩

def SubsGoal (ind : Str) (fs : List (Str × JVal)) : Prop :=
  ∀ (path : List Str) (f : Nat) (outer : Str) (ss : List Stmt),
    NlStart outer → FieldsOK fs → hasNullF fs = false → needSubs path fs ≤ f →
    (∀ c, parseStmts f c outer = some ss) →
    ∀ c, parseStmts (f + (subStmts path fs).length) c (subsP ind path fs ++ outer)
      = some (subStmts path fs ++ ss)

def ArrGoal (ind : Str) (items : List JVal) : Prop :=
  ∀ (path : List Str) (k : Str) (f : Nat) (outer : Str) (ss : List Stmt),
    NlStart outer → ItemsOK items → hasNullL items = false → needArr path k items ≤ f →
    (∀ c, parseStmts f c outer = some ss) →
    ∀ c, parseStmts (f + (arrStmts path k items).length) c (arrTablesP ind path k items ++ outer)
      = some (arrStmts path k items ++ ss)

theorem tableText_nlStart (ind : Str) (path : List Str) (sub : List (Str × JVal)) {outer : Str}
    (ho : NlStart outer) :
    NlStart (tableTextP true sub (plainP ind path sub) (subsP ind path sub) ++ outer) := by
  cases sub with
  | nil =>
    simp only [tableTextP, plainP, subsP, anySub, List.any_nil, List.isEmpty_nil, Bool.not_true,
      Bool.and_false, Bool.false_eq_true, if_false, List.nil_append]
    exact ho
  | cons p ps =>
    simp only [tableTextP, List.isEmpty_cons, Bool.not_false, Bool.and_true, if_true, List.cons_append,
      List.nil_append]
    exact Or.inr ⟨_, rfl⟩

/-- the text of a table (after its header, or the root table) -/
theorem table_parse {ind : Str} (hi : IndOK ind) (fs : List (Str × JVal)) (hS : SubsGoal ind fs)
    (hh : Bool) (path : List Str) (f : Nat) (outer : Str) (ss : List Stmt)
    (ho : NlStart outer) (hok : FieldsOK fs) (hnn : hasNullF fs = false)
    (hf : needPlain fs + needSubs path fs ≤ f) (hs : ∀ c, parseStmts f c outer = some ss) :
    parseStmts (f + (tableStmts path fs).length) path
        (tableTextP hh fs (plainP ind path fs) (subsP ind path fs) ++ outer)
      = some (tableStmts path fs ++ ss) := by
  obtain ⟨hR, hRp⟩ := subs_follow ind path fs ho
  have hw : WsNl (if (hh && !fs.isEmpty) = true then [10] else []) := by
    cases (hh && !fs.isEmpty)
    · exact WsNl.nil
    · exact WsNl.cons (by decide) WsNl.nil
  have e : tableTextP hh fs (plainP ind path fs) (subsP ind path fs) ++ outer
      = (if (hh && !fs.isEmpty) = true then [10] else []) ++ (plainP ind path fs ++
          ((if anySub fs then [10] else []) ++ (subsP ind path fs ++ outer))) := by
    simp only [tableTextP, List.append_assoc]
  have e3 : f + (tableStmts path fs).length = (f + (subStmts path fs).length) + (plainStmts path fs).length := by
    rw [tableStmts, List.length_append]; omega
  rw [e, parseStmts_wsNl _ _ hw, e3, tableStmts, List.append_assoc]
  refine plain_parse hi path fs _ _ _ hR hok hnn (by omega) ?_
  rw [hRp]
  exact hS path f outer ss ho hok hnn (by omega) hs path

/-! ### the sub-table loop -/

theorem subs_skip {ind : Str} (k : Str) (v : JVal) (rest : List (Str × JVal)) (hsub : isSubTable v = false)
    (hrest : SubsGoal ind rest) : SubsGoal ind ((k, v) :: rest) := by
  intro path f outer ss ho hok hnn hf hs c
  rw [FieldsOK] at hok
  obtain ⟨h1, h2, h3⟩ := subs_skip_eqs ind path k v hsub rest
  rw [h1, h2]
  rw [h3] at hf
  exact hrest path f outer ss ho hok.2 (hasNullF_cons hnn).2 hf hs c

theorem subs_step_obj {ind : Str} (hi : IndOK ind) (k : Str) (sub rest : List (Str × JVal))
    (hsub : SubsGoal ind sub) (hrest : SubsGoal ind rest) : SubsGoal ind ((k, .obj sub) :: rest) := by
  intro path f outer ss ho hok hnn hf hs c
  rw [FieldsOK, ValOK] at hok
  have hnn' := hasNullF_cons hnn
  have hns : hasNullF sub = false := by have := hnn'.1; rwa [hasNull] at this
  have hf' : (path.length + 1) + (needPlain sub + needSubs (path ++ [k]) sub) + needSubs path rest ≤ f := by
    simpa only [needSubs, isSubTable, if_true] using hf
  have ih := hrest path f outer ss ho hok.2 hnn'.2 (by omega) hs
  obtain ⟨hR, hRp⟩ := subs_follow ind path rest ho
  have hs2 : ∀ c, parseStmts (f + (subStmts path rest).length) c
      ((if anySub rest then [10] else []) ++ (subsP ind path rest ++ outer))
        = some (subStmts path rest ++ ss) := by
    intro c; rw [hRp]; exact ih c
  have ht := table_parse hi sub hsub true (path ++ [k]) (f + (subStmts path rest).length) _ _ hR hok.1.1 hns
    (by omega) hs2
  have hR2 := tableText_nlStart ind (path ++ [k]) sub hR
  have hh := parse_table_header hi path k (by omega) hR2 ht c
  have e : subsP ind path ((k, .obj sub) :: rest) ++ outer
      = header ind path k false ++
          (tableTextP true sub (plainP ind (path ++ [k]) sub) (subsP ind (path ++ [k]) sub) ++
            ((if anySub rest then [10] else []) ++ (subsP ind path rest ++ outer))) := by
    rw [subsP]
    simp only [isSubTable, if_true, List.append_assoc]
  have e2 : subStmts path ((k, .obj sub) :: rest) ++ ss
      = .table path k :: (tableStmts (path ++ [k]) sub ++ (subStmts path rest ++ ss)) := by
    rw [subStmts]
    simp only [isSubTable, if_true, tableStmts, List.append_assoc, List.cons_append]
  have e3 : f + (subStmts path ((k, .obj sub) :: rest)).length
      = (f + (subStmts path rest).length + (tableStmts (path ++ [k]) sub).length) + 1 := by
    rw [subStmts]
    simp only [isSubTable, if_true, tableStmts, List.length_append, List.length_cons]
    omega
  rw [e, e2, e3]
  exact hh

theorem subs_step_arr {ind : Str} (k : Str) (items : List JVal) (rest : List (Str × JVal))
    (hst : isSubTable (.arr items) = true)
    (hitems : ArrGoal ind items) (hrest : SubsGoal ind rest) : SubsGoal ind ((k, .arr items) :: rest) := by
  intro path f outer ss ho hok hnn hf hs c
  rw [FieldsOK, ValOK] at hok
  have hnn' := hasNullF_cons hnn
  have hns : hasNullL items = false := by have := hnn'.1; rwa [hasNull] at this
  have hf' : needArr path k items + needSubs path rest ≤ f := by
    simpa only [needSubs, hst, if_true] using hf
  have ih := hrest path f outer ss ho hok.2 hnn'.2 (by omega) hs
  obtain ⟨hR, hRp⟩ := subs_follow ind path rest ho
  have hs2 : ∀ c, parseStmts (f + (subStmts path rest).length) c
      ((if anySub rest then [10] else []) ++ (subsP ind path rest ++ outer))
        = some (subStmts path rest ++ ss) := by
    intro c; rw [hRp]; exact ih c
  have ha := hitems path k (f + (subStmts path rest).length) _ _ hR hok.1 hns (by omega) hs2 c
  have e : subsP ind path ((k, .arr items) :: rest) ++ outer
      = arrTablesP ind path k items ++
            ((if anySub rest then [10] else []) ++ (subsP ind path rest ++ outer)) := by
    rw [subsP]
    simp only [hst, if_true, List.append_assoc]
  have e2 : subStmts path ((k, .arr items) :: rest) ++ ss
      = arrStmts path k items ++ (subStmts path rest ++ ss) := by
    rw [subStmts]
    simp only [hst, if_true, List.append_assoc]
  have e3 : f + (subStmts path ((k, .arr items) :: rest)).length
      = f + (subStmts path rest).length + (arrStmts path k items).length := by
    rw [subStmts]
    simp only [hst, if_true, List.length_append]
    omega
  rw [e, e2, e3]
  exact ha

theorem arr_skip {ind : Str} (x : JVal) (rest : List JVal) (hx : ∀ sub, x ≠ .obj sub)
    (hrest : ArrGoal ind rest) : ArrGoal ind (x :: rest) := by
  intro path k f outer ss ho hok hnn hf hs c
  rw [ItemsOK] at hok
  have h1 : arrTablesP ind path k (x :: rest) = arrTablesP ind path k rest := by
    cases x <;> first | exact absurd rfl (hx _) | simp only [arrTablesP]
  have h2 : arrStmts path k (x :: rest) = arrStmts path k rest := by
    cases x <;> first | exact absurd rfl (hx _) | simp only [arrStmts]
  have h3 : needArr path k (x :: rest) = needArr path k rest := by
    cases x <;> first | exact absurd rfl (hx _) | simp only [needArr]
  rw [h1, h2]
  rw [h3] at hf
  exact hrest path k f outer ss ho hok.2 (hasNullL_cons hnn).2 hf hs c

theorem arr_step_obj {ind : Str} (hi : IndOK ind) (sub : List (Str × JVal)) (rest : List JVal)
    (hsub : SubsGoal ind sub) (hrest : ArrGoal ind rest) : ArrGoal ind (.obj sub :: rest) := by
  intro path k f outer ss ho hok hnn hf hs c
  rw [ItemsOK, ValOK] at hok
  have hnn' := hasNullL_cons hnn
  have hns : hasNullF sub = false := by have := hnn'.1; rwa [hasNull] at this
  have hf' : (path.length + 1) + (needPlain sub + needSubs (path ++ [k]) sub) + needArr path k rest ≤ f := by
    simpa only [needArr] using hf
  have ih := hrest path k f outer ss ho hok.2 hnn'.2 (by omega) hs
  obtain ⟨hR, hRp⟩ := arr_follow ind path k rest ho
  have hs2 : ∀ c, parseStmts (f + (arrStmts path k rest).length) c
      (nlAfter rest ++ (arrTablesP ind path k rest ++ outer))
        = some (arrStmts path k rest ++ ss) := by
    intro c; rw [hRp]; exact ih c
  have ht := table_parse hi sub hsub true (path ++ [k]) (f + (arrStmts path k rest).length) _ _ hR hok.1.1 hns
    (by omega) hs2
  have hR2 := tableText_nlStart ind (path ++ [k]) sub hR
  have hh := parse_arr_header hi path k (by omega) hR2 ht c
  have e : arrTablesP ind path k (.obj sub :: rest) ++ outer
      = header ind path k true ++
          (tableTextP true sub (plainP ind (path ++ [k]) sub) (subsP ind (path ++ [k]) sub) ++
            (nlAfter rest ++ (arrTablesP ind path k rest ++ outer))) := by
    rw [arrTablesP]
    simp only [List.append_assoc]
  have e2 : arrStmts path k (.obj sub :: rest) ++ ss
      = .arrTable path k :: (tableStmts (path ++ [k]) sub ++ (arrStmts path k rest ++ ss)) := by
    rw [arrStmts]
    simp only [tableStmts, List.append_assoc, List.cons_append]
  have e3 : f + (arrStmts path k (.obj sub :: rest)).length
      = (f + (arrStmts path k rest).length + (tableStmts (path ++ [k]) sub).length) + 1 := by
    rw [arrStmts]
    simp only [tableStmts, List.length_append, List.length_cons]
    omega
  rw [e, e2, e3]
  exact hh

mutual
theorem subs_parse {ind : Str} (hi : IndOK ind) : (fs : List (Str × JVal)) → SubsGoal ind fs
  | [] => by
    intro path f outer ss _ _ _ _ hs c
    simpa only [subStmts, subsP, List.length_nil, Nat.add_zero, List.nil_append] using hs c
  | (k, .obj sub) :: rest => subs_step_obj hi k sub rest (subs_parse hi sub) (subs_parse hi rest)
  | (k, .arr items) :: rest => by
    cases hst : isSubTable (.arr items)
    · exact subs_skip k _ rest hst (subs_parse hi rest)
    · exact subs_step_arr k items rest hst (arr_parse hi items) (subs_parse hi rest)
  | (k, .null) :: rest => subs_skip k _ rest rfl (subs_parse hi rest)
  | (k, .bool _) :: rest => subs_skip k _ rest rfl (subs_parse hi rest)
  | (k, .num _) :: rest => subs_skip k _ rest rfl (subs_parse hi rest)
  | (k, .str _) :: rest => subs_skip k _ rest rfl (subs_parse hi rest)
theorem arr_parse {ind : Str} (hi : IndOK ind) : (items : List JVal) → ArrGoal ind items
  | [] => by
    intro path k f outer ss _ _ _ _ hs c
    simpa only [arrStmts, arrTablesP, List.length_nil, Nat.add_zero, List.nil_append] using hs c
  | .obj sub :: rest => arr_step_obj hi sub rest (subs_parse hi sub) (arr_parse hi rest)
  | .null :: rest => arr_skip _ rest (by intro s h; cases h) (arr_parse hi rest)
  | .bool _ :: rest => arr_skip _ rest (by intro s h; cases h) (arr_parse hi rest)
  | .num _ :: rest => arr_skip _ rest (by intro s h; cases h) (arr_parse hi rest)
  | .str _ :: rest => arr_skip _ rest (by intro s h; cases h) (arr_parse hi rest)
  | .arr _ :: rest => arr_skip _ rest (by intro s h; cases h) (arr_parse hi rest)
end

/-! ### the fuel is bounded by the length of the text -/

theorem len_plain (ind : Str) (path : List Str) : ∀ (fs : List (Str × JVal)), FieldsOK fs → hasNullF fs = false →
    (plainStmts path fs).length + needPlain fs ≤ (plainP ind path fs).length
  | [], _, _ => by simp only [plainStmts, needPlain, plainP, List.length_nil]; omega
  | (k, v) :: rest, hok, hnn => by
    rw [FieldsOK] at hok
    have hnn' := hasNullF_cons hnn
    have ih := len_plain ind path rest hok.2 hnn'.2
    cases hsub : isSubTable v
    · have hv := len_val ind v path.length false hok.1 hnn'.1
      simp only [plainStmts, needPlain, plainP, hsub, Bool.false_eq_true, if_false, List.length_append,
        List.length_cons, List.length_nil]
      omega
    · simp only [plainStmts, needPlain, plainP, hsub, if_true]
      exact ih

theorem header_length (ind : Str) (path : List Str) (k : Str) (dbl : Bool) :
    path.length + 3 ≤ (header ind path k dbl).length := by
  have := pathDots_length path
  cases dbl
  · simp only [header, Bool.false_eq_true, if_false, List.length_append, List.length_cons, List.length_nil]
    omega
  · simp only [header, if_true, List.length_append, List.length_cons, List.length_nil]
    omega

theorem tableText_length (hh : Bool) (fs : List (Str × JVal)) (P S : Str) :
    P.length + S.length ≤ (tableTextP hh fs P S).length := by
  simp only [tableTextP, List.length_append]
  omega

mutual
theorem len_subs (ind : Str) : (fs : List (Str × JVal)) → ∀ (path : List Str), FieldsOK fs → hasNullF fs = false →
    (subStmts path fs).length + needSubs path fs ≤ (subsP ind path fs).length
  | [], path, _, _ => by simp only [subStmts, needSubs, subsP, List.length_nil]; omega
  | (k, .obj sub) :: rest, path, hok, hnn => by
    rw [FieldsOK, ValOK] at hok
    have hnn' := hasNullF_cons hnn
    have hns : hasNullF sub = false := by have := hnn'.1; rwa [hasNull] at this
    have ih := len_subs ind rest path hok.2 hnn'.2
    have h1 := len_subs ind sub (path ++ [k]) hok.1.1 hns
    have h2 := len_plain ind (path ++ [k]) sub hok.1.1 hns
    have h3 := header_length ind path k false
    have h4 := tableText_length true sub (plainP ind (path ++ [k]) sub) (subsP ind (path ++ [k]) sub)
    rw [subStmts, needSubs, subsP]
    simp only [isSubTable, if_true, List.length_append, List.length_cons]
    omega
  | (k, .arr items) :: rest, path, hok, hnn => by
    rw [FieldsOK, ValOK] at hok
    have hnn' := hasNullF_cons hnn
    have hns : hasNullL items = false := by have := hnn'.1; rwa [hasNull] at this
    have ih := len_subs ind rest path hok.2 hnn'.2
    have h1 := len_arr ind items path k hok.1 hns
    rw [subStmts, needSubs, subsP]
    cases hst : isSubTable (.arr items)
    · simp only [Bool.false_eq_true, if_false]
      exact ih
    · simp only [if_true, List.length_append]
      omega
  | (k, .null) :: rest, path, hok, hnn => by
    rw [FieldsOK] at hok
    simp only [subStmts, needSubs, subsP, isSubTable, Bool.false_eq_true, if_false]
    exact len_subs ind rest path hok.2 (hasNullF_cons hnn).2
  | (k, .bool _) :: rest, path, hok, hnn => by
    rw [FieldsOK] at hok
    simp only [subStmts, needSubs, subsP, isSubTable, Bool.false_eq_true, if_false]
    exact len_subs ind rest path hok.2 (hasNullF_cons hnn).2
  | (k, .num _) :: rest, path, hok, hnn => by
    rw [FieldsOK] at hok
    simp only [subStmts, needSubs, subsP, isSubTable, Bool.false_eq_true, if_false]
    exact len_subs ind rest path hok.2 (hasNullF_cons hnn).2
  | (k, .str _) :: rest, path, hok, hnn => by
    rw [FieldsOK] at hok
    simp only [subStmts, needSubs, subsP, isSubTable, Bool.false_eq_true, if_false]
    exact len_subs ind rest path hok.2 (hasNullF_cons hnn).2
theorem len_arr (ind : Str) : (items : List JVal) → ∀ (path : List Str) (k : Str), ItemsOK items →
    hasNullL items = false →
    (arrStmts path k items).length + needArr path k items ≤ (arrTablesP ind path k items).length
  | [], path, k, _, _ => by simp only [arrStmts, needArr, arrTablesP, List.length_nil]; omega
  | .obj sub :: rest, path, k, hok, hnn => by
    rw [ItemsOK, ValOK] at hok
    have hnn' := hasNullL_cons hnn
    have hns : hasNullF sub = false := by have := hnn'.1; rwa [hasNull] at this
    have ih := len_arr ind rest path k hok.2 hnn'.2
    have h1 := len_subs ind sub (path ++ [k]) hok.1.1 hns
    have h2 := len_plain ind (path ++ [k]) sub hok.1.1 hns
    have h3 := header_length ind path k true
    have h4 := tableText_length true sub (plainP ind (path ++ [k]) sub) (subsP ind (path ++ [k]) sub)
    rw [arrStmts, needArr, arrTablesP]
    simp only [List.length_append, List.length_cons]
    omega
  | .null :: rest, path, k, hok, hnn => by
    rw [ItemsOK] at hok
    simp only [arrStmts, needArr, arrTablesP]
    exact len_arr ind rest path k hok.2 (hasNullL_cons hnn).2
  | .bool _ :: rest, path, k, hok, hnn => by
    rw [ItemsOK] at hok
    simp only [arrStmts, needArr, arrTablesP]
    exact len_arr ind rest path k hok.2 (hasNullL_cons hnn).2
  | .num _ :: rest, path, k, hok, hnn => by
    rw [ItemsOK] at hok
    simp only [arrStmts, needArr, arrTablesP]
    exact len_arr ind rest path k hok.2 (hasNullL_cons hnn).2
  | .str _ :: rest, path, k, hok, hnn => by
    rw [ItemsOK] at hok
    simp only [arrStmts, needArr, arrTablesP]
    exact len_arr ind rest path k hok.2 (hasNullL_cons hnn).2
  | .arr _ :: rest, path, k, hok, hnn => by
    rw [ItemsOK] at hok
    simp only [arrStmts, needArr, arrTablesP]
    exact len_arr ind rest path k hok.2 (hasNullL_cons hnn).2
end

/-! ### the document -/

/-- **The reader splits the written text into the statements of the table.** -/
theorem parseStmts_tableP (ind : Str) (hi : IndOK ind) (fs : List (Str × JVal))
    (hv : ValOK (.obj fs)) (hn : hasNullF fs = false) :
    parseStmts ((tableP ind false [] fs).length + 1) [] (tableP ind false [] fs) = some (tableStmts [] fs) := by
  rw [ValOK] at hv
  have h1 := len_plain ind [] fs hv.1 hn
  have h2 := len_subs ind fs [] hv.1 hn
  have h3 := tableText_length false fs (plainP ind [] fs) (subsP ind [] fs)
  have hlen : (tableStmts [] fs).length + (needPlain fs + needSubs [] fs) ≤ (tableP ind false [] fs).length := by
    rw [tableStmts, List.length_append, tableP]; omega
  obtain ⟨f, hf⟩ : ∃ f, (tableP ind false [] fs).length + 1 = (f + 1) + (tableStmts [] fs).length :=
    ⟨(tableP ind false [] fs).length - (tableStmts [] fs).length, by omega⟩
  have := table_parse hi fs (subs_parse hi fs) false [] (f + 1) [] [] (Or.inl rfl) hv.1 hn (by omega)
    (fun c => parseStmts_end f c)
  rw [List.append_nil, List.append_nil] at this
  rw [hf]
  exact this

mutual
theorem distinct_of_valOK : (v : JVal) → ValOK v → Distinct v
  | .null, _ => by simp only [Distinct]
  | .bool _, _ => by simp only [Distinct]
  | .num _, _ => by simp only [Distinct]
  | .str _, _ => by simp only [Distinct]
  | .arr xs, h => by
    rw [ValOK] at h
    rw [Distinct]; exact distinctL_of_itemsOK xs h
  | .obj fs, h => by
    rw [ValOK] at h
    rw [Distinct]; exact ⟨distinctF_of_fieldsOK fs h.1, h.2⟩
theorem distinctL_of_itemsOK : (xs : List JVal) → ItemsOK xs → DistinctL xs
  | [], _ => by simp only [DistinctL]
  | x :: xs, h => by
    rw [ItemsOK] at h
    rw [DistinctL]; exact ⟨distinct_of_valOK x h.1, distinctL_of_itemsOK xs h.2⟩
theorem distinctF_of_fieldsOK : (fs : List (Str × JVal)) → FieldsOK fs → DistinctF fs
  | [], _ => by simp only [DistinctF]
  | (_, x) :: xs, h => by
    rw [FieldsOK] at h
    rw [DistinctF]; exact ⟨distinct_of_valOK x h.1, distinctF_of_fieldsOK xs h.2⟩
end

/-- **Round trip of `std.manifestTomlEx`.**  For an indent made of TOML whitespace and
    a null-free table whose numbers are number tokens and whose objects have pairwise
    distinct keys, the writer succeeds and the specification reader maps its text back
    to the table, fields in the order of the document (`normT`: plain fields first,
    then sub-tables). -/
theorem readToml_manifest (ind : Str) (hi : IndOK ind) (fs : List (Str × JVal))
    (hv : ValOK (.obj fs)) (hn : hasNullF fs = false) :
    ∃ text, manifestTomlEx ind (.obj fs) = .ok text ∧ readToml text = some (.obj (normT (numsF fs))) := by
  have hv' : ValOK (.obj (numsF fs)) := by
    have := valOK_numsV (.obj fs) hv; rwa [numsV] at this
  have hn' : hasNullF (numsF fs) = false := by rw [hasNullF_numsF, hn]
  refine ⟨tableP ind false [] (numsF fs), ?_, ?_⟩
  · rw [manifestTomlEx_obj, hn]; rfl
  · rw [readToml, parseStmts_tableP ind hi (numsF fs) hv' hn']
    exact docValue_tableStmts (numsF fs) (distinct_of_valOK _ hv')

end Rsj.Toml

#print axioms Rsj.Toml.parseStmts_tableP
#print axioms Rsj.Toml.readToml_manifest
