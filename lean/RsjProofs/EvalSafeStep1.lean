import RsjProofs.EvalSafePure
/-!
  C01 on the evaluator model: `step` on expressions (the cases without a loop invariant of their own)
  keeps every identifier in range.
-/
open Std.Do
set_option mvcgen.warning false
namespace Rsj.Eval.Safe
open Rsj.Core Rsj.Eval Rsj.Eval.Scope

theorem mem_stepBy {α} {l : List α} {k : Nat} {x : α} (h : x ∈ stepBy l k) : x ∈ l := by
  unfold stepBy at h
  obtain ⟨p, hp, rfl⟩ := List.mem_map.1 h
  have := (List.mem_filter.1 hp).1
  exact (List.mem_zipIdx this).2.2 ▸ List.getElem_mem _

/-- a slice of an array of existing thunks -/
theorem slice_rng {nt : Nat} {items : List TId} (h : ∀ t ∈ items, t < nt) (a b c : Nat) :
    ∀ t ∈ stepBy ((items.drop a).take b) c, t < nt :=
  fun t ht => h t (List.mem_of_mem_drop (List.mem_of_mem_take (mem_stepBy ht)))

section
variable (cfg : Cfg) (rec : Task → M Value) (hrec : RecOk2 rec)
include hrec

set_option hygiene false in
macro "ecase2" : tactic => `(tactic|
  (unfold step
   mvcgen [g0, g1, g2, g3, g4, g5, g6, g7, g8, h2, h3, h4, h5, h7, h10, hr]
   all_goals clear g0 g1 g2 g3 g4 g5 g6 g7 g8 h2 h3 h4 h5 h7 h10 hr
   all_goals vcprep2
   all_goals first
     | s2close
     | exact ⟨by assumption, by s2close,
         slice_rng (ValOk.mono (v := .arr _) (by assumption) (by omega) (by omega) (by omega)) _ _ _⟩
     | (exfalso; exact compare_num (by assumption) (by assumption))
     | (exfalso; exact equals_bool (by assumption) (by assumption))
     | exact ⟨by omega, by assumption, CoreShapedParams_mem _ (by assumption)⟩))

set_option maxHeartbeats 4000000 in
theorem step_eval_simple2 (s : St) (e : Expr) (env : EId) (tail : Bool) (d : Nat) (hS : Safe s)
    (henv : env < s.envs.size) (hc : CoreShaped e)
    (hsimple : match e with
      | .object _ | .objectComp .. | .array _ | .arrayComp .. | .call .. | .local_ .. | .builtin .. => False
      | _ => True) :
    ⦃fun st => ⌜st = s⌝⦄ step cfg rec (.eval e env tail d)
      ⦃Q2 s (fun v st => ValOk st.thunks.size st.objs.size st.funcs.size v)⦄ := by
  have g0 := getObjRef_spec2
  have g1 := checkNum_spec2
  have g2 := checkDepth_spec2
  have g3 := getObj_spec2
  have g4 := sliceNum_spec2
  have g5 := sliceRange_spec2
  have g6 := safeInt_spec2
  have g7 := getVar_spec2
  have g8 := allocFunc_spec2
  have h2 := wantThunk_spec2 cfg rec hrec
  have h3 := wantField_spec2 cfg rec hrec
  have h4 := wantSuperField_spec2 cfg rec hrec
  have h5 := coerceToString_spec2 rec hrec
  have h7 := binaryOp_spec2 cfg rec hrec
  have h10 := sliceArg_spec2 rec hrec
  have h12 := binaryOp3_spec2 cfg rec hrec
  have hr := rec_spec2 rec hrec
  qstart2
  cases e with
  | null => ecase2
  | true_ => ecase2
  | false_ => ecase2
  | str => ecase2
  | num => ecase2
  | importLit => ecase2
  | importTextBlock => ecase2
  | importComputed => ecase2
  | self_ => ecase2
  | dollar => ecase2
  | paren => simp only [CoreShaped] at hc; ecase2
  | field => simp only [CoreShaped] at hc; ecase2
  | index => simp only [CoreShaped] at hc; ecase2
  | slice => simp only [CoreShaped] at hc; ecase2
  | superField => ecase2
  | superIndex => simp only [CoreShaped] at hc; ecase2
  | var => ecase2
  | if_ c t el => simp only [CoreShaped] at hc; ecase2
  | binary op a b =>
    simp only [CoreShaped] at hc
    unfold step
    mvcgen [g0, g1, g2, g3, g4, g5, g6, g7, g8, h2, h3, h4, h5, h7, h10, h12, hr]
    all_goals clear g0 g1 g2 g3 g4 g5 g6 g7 g8 h2 h3 h4 h5 h7 h10 h12 hr
    all_goals vcprep2
    all_goals first
      | s2close
      | (exfalso; exact compare_num (by assumption) (by assumption))
      | (exfalso; exact equals_bool (by assumption) (by assumption))
  | unary => simp only [CoreShaped] at hc; ecase2
  | func => simp only [CoreShaped] at hc; ecase2
  | assert_ => simp only [CoreShaped] at hc; ecase2
  | error_ => simp only [CoreShaped] at hc; ecase2
  | inSuper => simp only [CoreShaped] at hc; ecase2
  | objExt => simp only [CoreShaped] at hc; ecase2
  | object => exact hsimple.elim
  | objectComp => exact hsimple.elim
  | array => exact hsimple.elim
  | arrayComp => exact hsimple.elim
  | call => exact hsimple.elim
  | local_ => exact hsimple.elim
  | builtin => exact hsimple.elim

theorem step_eval_array2 (s : St) (items : Exprs) (env : EId) (tail : Bool) (d : Nat) (hS : Safe s)
    (henv : env < s.envs.size) (hc : CoreShaped (.array items)) :
    ⦃fun st => ⌜st = s⌝⦄ step cfg rec (.eval (.array items) env tail d)
      ⦃Q2 s (fun v st => ValOk st.thunks.size st.objs.size st.funcs.size v)⦄ := by
  have h1 := newThunk_spec2
  simp only [CoreShaped] at hc
  have hmem := CoreShapedExprs_mem items hc
  qstart2
  unfold step
  mvcgen [h1]
  assign_invs (outInv s ‹St›)
  all_goals clear h1
  all_goals vcprep2
  all_goals first
    | s2close
    | exact hmem _ (mem_of_split (by assumption))

theorem step_eval_arrayComp2 (s : St) (body : Expr) (spec : Specs) (env : EId) (tail : Bool) (d : Nat)
    (hS : Safe s) (henv : env < s.envs.size) (hc : CoreShaped (.arrayComp body spec)) :
    ⦃fun st => ⌜st = s⌝⦄ step cfg rec (.eval (.arrayComp body spec) env tail d)
      ⦃Q2 s (fun v st => ValOk st.thunks.size st.objs.size st.funcs.size v)⦄ := by
  have h1 := newThunk_spec2
  have h2 := newEnv_spec2
  have h3 := evalSpecs_spec2 rec hrec
  simp only [CoreShaped] at hc
  obtain ⟨hc1, hc2, hc3⟩ := hc
  have hsp := CoreShapedSpecs_mem spec hc3
  have hst := specsStartWithFor_list hc2
  qstart2
  unfold step
  mvcgen [h1, h2, h3]
  assign_invs (outInv s ‹St›)
  all_goals clear h1 h2 h3
  all_goals vcprep2
  all_goals first
    | s2close
    | (simp only [SetsRng] at *; s2close)

/-- invariant of the loop that builds the argument thunks of a builtin: they exist, one per
    argument -/
def outLenInv (s s1 : St) {α} {xs : List α} : PostCond (List.Cursor xs × List TId) PS :=
  ⟨fun (cur, out) st => ⌜Safe st ∧ Le s st ∧ SzLe s1 st ∧ (∀ t ∈ out, t < st.thunks.size) ∧
      out.length = cur.prefix.length⌝,
   fun e st => ⌜Safe st ∧ Good2 e ∧ SzLe s st⌝, fun _ => ⌜True⌝, ()⟩

theorem step_eval_builtin2 (s : St) (b : Builtin) (args : Exprs) (env : EId) (tail : Bool) (d : Nat)
    (hS : Safe s) (henv : env < s.envs.size) (hc : CoreShaped (.builtin b args)) :
    ⦃fun st => ⌜st = s⌝⦄ step cfg rec (.eval (.builtin b args) env tail d)
      ⦃Q2 s (fun v st => ValOk st.thunks.size st.objs.size st.funcs.size v)⦄ := by
  have h1 := newThunk_spec2
  have h2 := checkDepth_spec2
  have h3 := builtinCall3_spec2 cfg rec hrec
  simp only [CoreShaped] at hc
  obtain ⟨har, hc2⟩ := hc
  have hmem := CoreShapedExprs_mem args hc2
  rw [← exprsLength_eq] at har
  qstart2
  unfold step
  mvcgen [h1, h2, h3]
  assign_invs (outLenInv s ‹St›)
  all_goals clear h1 h2 h3
  all_goals (try simp only [outLenInv] at *)
  all_goals vcprep2
  all_goals first
    | s2close
    | exact hmem _ (mem_of_split (by assumption))
    | (simp only [List.length_append, List.length_cons, List.length_nil] at *; s2close)

end
end Rsj.Eval.Safe
