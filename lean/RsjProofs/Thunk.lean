/-
  Basic lemmas about the abstract thunk machine (`RsjModel/Thunk.lean`):
  equations, the state order (`Mono`), `Clean`, fuel/headroom monotonicity.
-/
import RsjModel.Thunk
namespace Rsj.Thunk

@[simp] theorem setState_states (s : St) (t x) : (s.setState t x).states = s.states.set t x := rfl
@[simp] theorem setState_runs (s : St) (t x) : (s.setState t x).runs = s.runs := rfl
@[simp] theorem setState_traces (s : St) (t x) : (s.setState t x).traces = s.traces := rfl
@[simp] theorem bump_states (s : St) (t) : (s.bump t).states = s.states := rfl
@[simp] theorem bump_runs (s : St) (t) : (s.bump t).runs = s.runs.modify t (· + 1) := rfl
@[simp] theorem bump_traces (s : St) (t) : (s.bump t).traces = s.traces := rfl
@[simp] theorem emit_states (s : St) (m) : (s.emit m).states = s.states := rfl
@[simp] theorem emit_runs (s : St) (m) : (s.emit m).runs = s.runs := rfl
@[simp] theorem emit_traces (s : St) (m) : (s.emit m).traces = s.traces ++ [m] := rfl
@[simp] theorem mark_states (s : St) (t) : (mark s t).states = s.states.set t .inProgress := rfl
@[simp] theorem mark_runs (s : St) (t) : (mark s t).runs = s.runs.modify t (· + 1) := rfl
@[simp] theorem mark_traces (s : St) (t) : (mark s t).traces = s.traces := rfl
@[simp] theorem restore_states (s : St) : (restore s).states = s.states.map unmark := rfl
@[simp] theorem restore_runs (s : St) : (restore s).runs = s.runs := rfl
@[simp] theorem restore_traces (s : St) : (restore s).traces = s.traces := rfl

@[simp] theorem finish_ok (t v s) : finish t (.ok v, s) = (.ok v, s.setState t (.done v)) := rfl
@[simp] theorem finish_error (t e s) : finish t (.error e, s) = (.error e, s) := rfl
@[simp] theorem settle_ok (v s) : settle (.ok v, s) = (.ok v, s) := rfl
@[simp] theorem settle_error (e s) : settle (.error e, s) = (.error e, restore s) := rfl

def St.st (s : St) (u : Nat) : Option TState := s.states[u]?
def St.rn (s : St) (u : Nat) : Option Nat := s.runs[u]?

theorem st_setState_self {s : St} {t : Nat} {x : TState} (h : s.st t ≠ none) :
    (s.setState t x).st t = some x := by
  unfold St.st at *
  have : t < s.states.length := by
    rcases Nat.lt_or_ge t s.states.length with h' | h'
    · exact h'
    · exact absurd (List.getElem?_eq_none h') h
  simp [this]
theorem st_setState_ne {s : St} {t u : Nat} {x : TState} (h : t ≠ u) :
    (s.setState t x).st u = s.st u := by
  unfold St.st; simp [h]
@[simp] theorem rn_setState (s : St) (t u x) : (s.setState t x).rn u = s.rn u := rfl
@[simp] theorem st_bump (s : St) (t u) : (s.bump t).st u = s.st u := rfl
theorem rn_bump_self (s : St) (t) : (s.bump t).rn t = (s.rn t).map (· + 1) := by
  unfold St.rn; simp
theorem rn_bump_ne {s : St} {t u : Nat} (h : t ≠ u) : (s.bump t).rn u = s.rn u := by
  unfold St.rn; simp [h]
@[simp] theorem st_emit (s : St) (m u) : (s.emit m).st u = s.st u := rfl
@[simp] theorem rn_emit (s : St) (m u) : (s.emit m).rn u = s.rn u := rfl
theorem st_mark_self {s : St} {t : Nat} (h : s.st t ≠ none) : (mark s t).st t = some .inProgress := by
  unfold mark; rw [st_bump]; exact st_setState_self h
theorem st_mark_ne {s : St} {t u : Nat} (h : t ≠ u) : (mark s t).st u = s.st u := by
  unfold mark; rw [st_bump]; exact st_setState_ne h
theorem rn_mark_self (s : St) (t) : (mark s t).rn t = (s.rn t).map (· + 1) := by
  unfold mark; rw [rn_bump_self, rn_setState]
theorem rn_mark_ne {s : St} {t u : Nat} (h : t ≠ u) : (mark s t).rn u = s.rn u := by
  unfold mark; rw [rn_bump_ne h, rn_setState]
@[simp] theorem st_restore (s : St) (u) : (restore s).st u = (s.st u).map unmark := by
  unfold St.st; simp
@[simp] theorem rn_restore (s : St) (u) : (restore s).rn u = s.rn u := rfl


theorem force_none {code : Code} {h t : Nat} {s : St} (hs : s.st t = none) :
    force code h t s = (.error .badThunk, s) := by
  unfold St.st at hs; cases h <;> simp [force, hs]

theorem force_done {code : Code} {h t : Nat} {s : St} {v : Val} (hs : s.st t = some (.done v)) :
    force code h t s = (.ok v, s) := by
  unfold St.st at hs; cases h <;> simp [force, hs]

theorem force_zero_pending {code : Code} {t : Nat} {s : St} (hs : s.st t = some .pending) :
    force code 0 t s = (.error .stackOverflow, s) := by
  unfold St.st at hs; simp [force, hs]

theorem force_zero_inProgress {code : Code} {t : Nat} {s : St} (hs : s.st t = some .inProgress) :
    force code 0 t s = (.error .stackOverflow, s) := by
  unfold St.st at hs; simp [force, hs]

theorem force_succ_inProgress {code : Code} {h t : Nat} {s : St} (hs : s.st t = some .inProgress) :
    force code (h + 1) t s = (.error .infiniteRecursion, s) := by
  unfold St.st at hs; simp [force, hs]

theorem force_succ_pending {code : Code} {h t : Nat} {s : St} (hs : s.st t = some .pending) :
    force code (h + 1) t s = finish t (runProg (force code h) (code t) (mark s t)) := by
  unfold St.st at hs; simp [force, hs]

@[simp] theorem runProg_ret (f : Nat → St → Res) (v s) : runProg f (.ret v) s = (.ok v, s) := rfl
@[simp] theorem runProg_fail (f : Nat → St → Res) (e s) : runProg f (.fail e) s = (.error (.user e), s) := rfl
@[simp] theorem runProg_trace (f : Nat → St → Res) (m k s) :
    runProg f (.trace m k) s = runProg f k (s.emit m) := rfl
theorem runProg_force_ok {f : Nat → St → Res} {t k s v s1} (h : f t s = (.ok v, s1)) :
    runProg f (.force t k) s = runProg f (k v) s1 := by
  simp [runProg, h]
theorem runProg_force_error {f : Nat → St → Res} {t k s e s1} (h : f t s = (.error e, s1)) :
    runProg f (.force t k) s = (.error e, s1) := by
  simp [runProg, h]

/-- No evaluation is under way (the store is observed between requests). -/
def Quiet (s : St) : Prop := ∀ u, s.st u ≠ some .inProgress

/-- Case analysis on a result. -/
theorem res_cases (r : Res) : (∃ v s, r = (.ok v, s)) ∨ (∃ e s, r = (.error e, s)) := by
  rcases r with ⟨_ | _, s⟩
  · exact .inr ⟨_, _, rfl⟩
  · exact .inl ⟨_, _, rfl⟩

/-! ### Monotonicity of a run: the state order `pending < inProgress < done` -/

/-- What one (nested) force or computation can do to the store. -/
structure Mono (s s' : St) : Prop where
  len : s'.states.length = s.states.length
  rlen : s'.runs.length = s.runs.length
  tr : ∃ d, s'.traces = s.traces ++ d
  /-- a thunk that is not pending is not touched: no state change, no run -/
  frozen : ∀ u, s.st u ≠ some .pending →
    s'.st u = s.st u ∧ s'.rn u = s.rn u
  /-- a pending thunk either stays pending and is not run, or leaves `pending`
      and its computation has been started exactly once -/
  pend : ∀ u, s.st u = some .pending →
    (s'.st u = some .pending ∧ s'.rn u = s.rn u) ∨
    ((s'.st u = some .inProgress ∨ ∃ v, s'.st u = some (.done v)) ∧
      s'.rn u = (s.rn u).map (· + 1))

theorem Mono.refl (s : St) : Mono s s :=
  ⟨rfl, rfl, ⟨[], by simp⟩, fun _ _ => ⟨rfl, rfl⟩, fun _ h => .inl ⟨h, rfl⟩⟩

theorem Mono.trans {a b c : St} (h1 : Mono a b) (h2 : Mono b c) : Mono a c := by
  refine ⟨h2.len.trans h1.len, h2.rlen.trans h1.rlen, ?_, ?_, ?_⟩
  · obtain ⟨d1, e1⟩ := h1.tr; obtain ⟨d2, e2⟩ := h2.tr
    exact ⟨d1 ++ d2, by rw [e2, e1, List.append_assoc]⟩
  · intro u hu
    obtain ⟨f1, g1⟩ := h1.frozen u hu
    obtain ⟨f2, g2⟩ := h2.frozen u (by rw [f1]; exact hu)
    exact ⟨f2.trans f1, g2.trans g1⟩
  · intro u hu
    rcases h1.pend u hu with ⟨p1, r1⟩ | ⟨p1, r1⟩
    · rcases h2.pend u p1 with ⟨p2, r2⟩ | ⟨p2, r2⟩
      · exact .inl ⟨p2, r2.trans r1⟩
      · exact .inr ⟨p2, by rw [r2, r1]⟩
    · have hnp : b.st u ≠ some .pending := by
        rcases p1 with p1 | ⟨v, p1⟩ <;> rw [p1] <;> simp
      obtain ⟨f2, g2⟩ := h2.frozen u hnp
      exact .inr ⟨by rw [f2]; exact p1, by rw [g2, r1]⟩

theorem Mono.emit (s : St) (m : Nat) : Mono s (s.emit m) :=
  ⟨rfl, rfl, ⟨[m], rfl⟩, fun _ _ => ⟨rfl, rfl⟩, fun _ h => .inl ⟨h, rfl⟩⟩

theorem runProg_mono {f : Nat → St → Res} (hf : ∀ t s, Mono s (f t s).2) :
    ∀ p s, Mono s (runProg f p s).2 := by
  intro p
  induction p with
  | ret v => intro s; exact Mono.refl s
  | fail e => intro s; exact Mono.refl s
  | trace m k ih => intro s; exact (Mono.emit s m).trans (ih _)
  | force t k ih =>
    intro s
    rcases res_cases (f t s) with ⟨v, s1, h⟩ | ⟨e, s1, h⟩
    · rw [runProg_force_ok h]
      have := hf t s; rw [h] at this
      exact this.trans (ih v s1)
    · rw [runProg_force_error h]
      have := hf t s; rw [h] at this
      exact this


theorem Mono.mark {s : St} {t : Nat} (ht : s.st t = some .pending) : Mono s (mark s t) := by
  refine ⟨by simp, by simp, ⟨[], by simp⟩, ?_, ?_⟩
  · intro u hu
    have hne : t ≠ u := by intro h; subst h; exact hu ht
    exact ⟨st_mark_ne hne, rn_mark_ne hne⟩
  · intro u hu
    by_cases hne : t = u
    · subst hne
      exact .inr ⟨.inl (st_mark_self (by rw [ht]; simp)), rn_mark_self s t⟩
    · exact .inl ⟨by rw [st_mark_ne hne]; exact hu, rn_mark_ne hne⟩

theorem Mono.setDone {s s2 : St} {t : Nat} {v : Val} (hm : Mono s s2)
    (ht : s.st t = some .pending) (h2 : s2.st t = some .inProgress) :
    Mono s (s2.setState t (.done v)) := by
  refine ⟨by simpa using hm.len, hm.rlen, hm.tr, ?_, ?_⟩
  · intro u hu
    have hne : t ≠ u := by intro h; subst h; exact hu ht
    rw [st_setState_ne hne]
    exact hm.frozen u hu
  · intro u hu
    by_cases hne : t = u
    · subst hne
      rcases hm.pend t hu with ⟨p, _⟩ | ⟨_, r⟩
      · rw [h2] at p; cases p
      · exact .inr ⟨.inr ⟨v, st_setState_self (by rw [h2]; simp)⟩, r⟩
    · rw [st_setState_ne hne]
      exact hm.pend u hu

theorem Mono.inProgress {s s' : St} (hm : Mono s s') {u : Nat} (hu : s.st u = some .inProgress) :
    s'.st u = some .inProgress := by
  rw [(hm.frozen u (by rw [hu]; simp)).1, hu]

theorem Mono.done {s s' : St} (hm : Mono s s') {u : Nat} {v : Val} (hu : s.st u = some (.done v)) :
    s'.st u = some (.done v) := by
  rw [(hm.frozen u (by rw [hu]; simp)).1, hu]

theorem st_some_lt {s : St} {u : Nat} {x : TState} (h : s.st u = some x) : u < s.states.length := by
  unfold St.st at h
  rcases Nat.lt_or_ge u s.states.length with h' | h'
  · exact h'
  · rw [List.getElem?_eq_none h'] at h; cases h

theorem st_none_ge {s : St} {u : Nat} (h : s.st u = none) : s.states.length ≤ u := by
  unfold St.st at h
  exact List.getElem?_eq_none_iff.mp h

theorem st_cases (s : St) (t : Nat) :
    s.st t = none ∨ s.st t = some .pending ∨ s.st t = some .inProgress ∨ ∃ v, s.st t = some (.done v) := by
  cases h : s.st t with
  | none => exact .inl rfl
  | some x =>
    cases x with
    | pending => exact .inr (.inl rfl)
    | inProgress => exact .inr (.inr (.inl rfl))
    | done v => exact .inr (.inr (.inr ⟨v, rfl⟩))

/-- Every force is monotone. -/
theorem force_mono_st (code : Code) : ∀ h t s, Mono s (force code h t s).2 := by
  intro h
  induction h with
  | zero =>
    intro t s
    rcases st_cases s t with h | h | h | ⟨v, h⟩
    · rw [force_none h]; exact Mono.refl s
    · rw [force_zero_pending h]; exact Mono.refl s
    · rw [force_zero_inProgress h]; exact Mono.refl s
    · rw [force_done h]; exact Mono.refl s
  | succ n ih =>
    intro t s
    rcases st_cases s t with h | h | h | ⟨v, h⟩
    · rw [force_none h]; exact Mono.refl s
    · rw [force_succ_pending h]
      have hm := (Mono.mark h).trans (runProg_mono ih (code t) (mark s t))
      have h2 : (runProg (force code n) (code t) (mark s t)).2.st t = some .inProgress :=
        (runProg_mono ih (code t) (mark s t)).inProgress (st_mark_self (by rw [h]; simp))
      rcases res_cases (runProg (force code n) (code t) (mark s t)) with ⟨v, s2, e⟩ | ⟨e', s2, e⟩
      · rw [e] at hm h2 ⊢
        exact hm.setDone h h2
      · rw [e] at hm ⊢
        exact hm
    · rw [force_succ_inProgress h]; exact Mono.refl s
    · rw [force_done h]; exact Mono.refl s


/-- A successful run leaves no thunk in progress that was not already so. -/
def Clean (s : St) (r : Res) : Prop :=
  ∀ v, r.1 = .ok v → ∀ u, r.2.st u = some .inProgress → s.st u = some .inProgress

theorem runProg_clean {f : Nat → St → Res} (hf : ∀ t s, Clean s (f t s)) :
    ∀ p s, Clean s (runProg f p s) := by
  intro p
  induction p with
  | ret v => intro s v' _ u hu; exact hu
  | fail e => intro s v' h; cases h
  | trace m k ih => intro s v' h u hu; exact ih (s.emit m) v' h u hu
  | force t k ih =>
    intro s
    rcases res_cases (f t s) with ⟨v, s1, h⟩ | ⟨e, s1, h⟩
    · rw [runProg_force_ok h]
      intro v' h' u hu
      have := hf t s; rw [h] at this
      exact this v rfl u (ih v s1 v' h' u hu)
    · rw [runProg_force_error h]
      intro v' h'; cases h'

theorem force_clean (code : Code) : ∀ h t s, Clean s (force code h t s) := by
  intro h
  induction h with
  | zero =>
    intro t s
    rcases st_cases s t with h | h | h | ⟨v, h⟩
    · rw [force_none h]; intro v h'; cases h'
    · rw [force_zero_pending h]; intro v h'; cases h'
    · rw [force_zero_inProgress h]; intro v h'; cases h'
    · rw [force_done h]; intro _ _ u hu; exact hu
  | succ n ih =>
    intro t s
    rcases st_cases s t with h | h | h | ⟨v, h⟩
    · rw [force_none h]; intro v h'; cases h'
    · rw [force_succ_pending h]
      have h2 : (runProg (force code n) (code t) (mark s t)).2.st t = some .inProgress :=
        (runProg_mono (force_mono_st code n) (code t) (mark s t)).inProgress
          (st_mark_self (by rw [h]; simp))
      have hc := runProg_clean ih (code t) (mark s t)
      rcases res_cases (runProg (force code n) (code t) (mark s t)) with ⟨v, s2, e⟩ | ⟨e', s2, e⟩
      · rw [e] at h2 hc ⊢
        intro v' _ u hu
        simp only [finish_ok] at hu
        have hne : t ≠ u := by
          intro he; subst he
          rw [st_setState_self (by rw [h2]; simp)] at hu; cases hu
        rw [st_setState_ne hne] at hu
        have := hc v rfl u hu
        rwa [st_mark_ne hne] at this
      · rw [e]; intro v h'; cases h'
    · rw [force_succ_inProgress h]; intro v h'; cases h'
    · rw [force_done h]; intro _ _ u hu; exact hu

/-- A thunk forced successfully is done with the value returned. -/
theorem force_ok_done {code : Code} {h t : Nat} {s s' : St} {v : Val}
    (hf : force code h t s = (.ok v, s')) : s'.st t = some (.done v) := by
  cases h with
  | zero =>
    rcases st_cases s t with h | h | h | ⟨w, h⟩
    · rw [force_none h] at hf; cases hf
    · rw [force_zero_pending h] at hf; cases hf
    · rw [force_zero_inProgress h] at hf; cases hf
    · rw [force_done h] at hf; cases hf; exact h
  | succ n =>
    rcases st_cases s t with h | h | h | ⟨w, h⟩
    · rw [force_none h] at hf; cases hf
    · rw [force_succ_pending h] at hf
      have h2 : (runProg (force code n) (code t) (mark s t)).2.st t = some .inProgress :=
        (runProg_mono (force_mono_st code n) (code t) (mark s t)).inProgress
          (st_mark_self (by rw [h]; simp))
      rcases res_cases (runProg (force code n) (code t) (mark s t)) with ⟨v', s2, e⟩ | ⟨e', s2, e⟩
      · rw [e] at hf h2; cases hf
        exact st_setState_self (by rw [h2]; simp)
      · rw [e] at hf; cases hf
    · rw [force_succ_inProgress h] at hf; cases hf
    · rw [force_done h] at hf; cases hf; exact h


/-- The two ways a force of a pending thunk with headroom can end. -/
theorem force_pending_cases {code : Code} {n t : Nat} {s : St} (h : s.st t = some .pending) :
    (∃ v s2, runProg (force code n) (code t) (mark s t) = (.ok v, s2) ∧
      s2.st t = some .inProgress ∧
      force code (n + 1) t s = (.ok v, s2.setState t (.done v))) ∨
    (∃ e s2, runProg (force code n) (code t) (mark s t) = (.error e, s2) ∧
      s2.st t = some .inProgress ∧
      force code (n + 1) t s = (.error e, s2)) := by
  have h2 : (runProg (force code n) (code t) (mark s t)).2.st t = some .inProgress :=
    (runProg_mono (force_mono_st code n) (code t) (mark s t)).inProgress
      (st_mark_self (by rw [h]; simp))
  rw [force_succ_pending h]
  rcases res_cases (runProg (force code n) (code t) (mark s t)) with ⟨v, s2, e⟩ | ⟨e', s2, e⟩
  · rw [e] at h2 ⊢; exact .inl ⟨v, s2, rfl, h2, rfl⟩
  · rw [e] at h2 ⊢; exact .inr ⟨e', s2, rfl, h2, rfl⟩

/-! ### Fuel (= headroom) monotonicity -/

theorem runProg_mono_fuel {f g : Nat → St → Res}
    (hfg : ∀ t s r s', f t s = (r, s') → r ≠ .error .stackOverflow → g t s = (r, s')) :
    ∀ p s r s', runProg f p s = (r, s') → r ≠ .error .stackOverflow → runProg g p s = (r, s') := by
  intro p
  induction p with
  | ret v => intro s r s' h _; exact h
  | fail e => intro s r s' h _; exact h
  | trace m k ih => intro s r s' h hr; exact ih _ r s' h hr
  | force t k ih =>
    intro s r s' h hr
    rcases res_cases (f t s) with ⟨v, s1, e⟩ | ⟨e', s1, e⟩
    · rw [runProg_force_ok e] at h
      rw [runProg_force_ok (hfg t s _ _ e (by simp))]
      exact ih v s1 r s' h hr
    · rw [runProg_force_error e] at h
      cases h
      rw [runProg_force_error (hfg t s _ _ e hr)]

/-- More headroom never changes an outcome other than StackOverflow
    (and never changes the resulting store either). -/
theorem force_mono_succ (code : Code) : ∀ h t s r s', force code h t s = (r, s') →
    r ≠ .error .stackOverflow → force code (h + 1) t s = (r, s') := by
  intro h
  induction h with
  | zero =>
    intro t s r s' hf hr
    rcases st_cases s t with h | h | h | ⟨v, h⟩
    · rw [force_none h] at hf ⊢; exact hf
    · rw [force_zero_pending h] at hf; cases hf; exact absurd rfl hr
    · rw [force_zero_inProgress h] at hf; cases hf; exact absurd rfl hr
    · rw [force_done h] at hf ⊢; exact hf
  | succ n ih =>
    intro t s r s' hf hr
    rcases st_cases s t with h | h | h | ⟨v, h⟩
    · rw [force_none h] at hf ⊢; exact hf
    · rcases force_pending_cases (code := code) (n := n) h with ⟨v, s2, e, _, e2⟩ | ⟨e', s2, e, _, e2⟩
      · rw [e2] at hf; cases hf
        rw [force_succ_pending h, runProg_mono_fuel ih _ _ _ _ e (by simp)]; rfl
      · rw [e2] at hf; cases hf
        rw [force_succ_pending h, runProg_mono_fuel ih _ _ _ _ e hr]; rfl
    · rw [force_succ_inProgress h] at hf ⊢; exact hf
    · rw [force_done h] at hf ⊢; exact hf

theorem force_mono_le {code : Code} {h h' t : Nat} {s s' : St} {r : Outcome}
    (hf : force code h t s = (r, s')) (hr : r ≠ .error .stackOverflow) (hle : h ≤ h') :
    force code h' t s = (r, s') := by
  induction hle with
  | refl => exact hf
  | step _ ih => exact force_mono_succ code _ t s r s' ih hr

theorem runProg_mono_le {code : Code} {h h' : Nat} {p : Prog} {s s' : St} {r : Outcome}
    (hf : runProg (force code h) p s = (r, s')) (hr : r ≠ .error .stackOverflow) (hle : h ≤ h') :
    runProg (force code h') p s = (r, s') :=
  runProg_mono_fuel (fun _ _ _ _ e hr' => force_mono_le e hr' hle) p s r s' hf hr

end Rsj.Thunk
