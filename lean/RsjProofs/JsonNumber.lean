/-
  RFC 8259 number grammar ⟹ `NumTok` (the token is read back whole by
  `lex_number` when a delimiter follows), provided the token does not
  overflow to ±inf.
-/
import RsjProofs.JsonParse
namespace Rsj.Json

theorem isDigit_iff {c : Nat} : isDigit c = true ↔ 48 ≤ c ∧ c ≤ 57 := by simp [isDigit]
theorem isDigit19_iff {c : Nat} : isDigit19 c = true ↔ 49 ≤ c ∧ c ≤ 57 := by simp [isDigit19]

def AllDigits (ds : Str) : Prop := ∀ c ∈ ds, isDigit c = true

/-- RFC 8259 §6: `exp = e [ minus / plus ] 1*DIGIT` (optional) -/
def ExpOK (e : Str) : Prop :=
  e = [] ∨ ∃ x sg d ds, e = x :: (sg ++ d :: ds) ∧ (x = 101 ∨ x = 69) ∧
    (sg = [] ∨ sg = [43] ∨ sg = [45]) ∧ isDigit d = true ∧ AllDigits ds
/-- `frac = decimal-point 1*DIGIT` (optional) -/
def FracOK (fr : Str) : Prop :=
  fr = [] ∨ ∃ d ds, fr = 46 :: d :: ds ∧ isDigit d = true ∧ AllDigits ds
/-- `int = zero / ( digit1-9 *DIGIT )` -/
def IntOK (i : Str) : Prop :=
  i = [48] ∨ ∃ d ds, i = d :: ds ∧ isDigit19 d = true ∧ AllDigits ds
/-- `number = [ minus ] int [ frac ] [ exp ]` -/
def JsonNumber (t : Str) : Prop :=
  ∃ sg i fr e, t = sg ++ (i ++ (fr ++ e)) ∧ (sg = [] ∨ sg = [45]) ∧ IntOK i ∧ FracOK fr ∧ ExpOK e

def prep (p : Str) : Except Err (Str × Str) → Except Err (Str × Str)
  | .ok (t, r) => .ok (p ++ t, r)
  | .error e => .error e

theorem consTok_prep (c : Nat) (p : Str) (x : Except Err (Str × Str)) :
    consTok c (prep p x) = prep (c :: p) x := by
  cases x with
  | error e => rfl
  | ok q => cases q; rfl

theorem consTok_ok (c : Nat) (t r : Str) : consTok c (.ok (t, r)) = .ok (c :: t, r) := rfl

theorem numScan_step {s s' : NState} {c : Nat} (r : Str) (h : numStep s (some c) = .next s') :
    numScan s (c :: r) = consTok c (numScan s' r) := by
  rw [numScan, h]

def Loop (s : NState) : Prop := s = .intPart ∨ s = .fracPart ∨ s = .eDigits

theorem step_loop_digit {s : NState} (hs : Loop s) {d : Nat} (h : isDigit d = true) :
    numStep s (some d) = .next s := by
  rcases hs with rfl | rfl | rfl <;> simp [numStep, h]

theorem numScan_digits {s : NState} (hs : Loop s) (ds r : Str) (hd : AllDigits ds) :
    numScan s (ds ++ r) = prep ds (numScan s r) := by
  induction ds with
  | nil =>
    rw [List.nil_append]
    cases numScan s r with
    | error e => rfl
    | ok q => cases q; rfl
  | cons c ds ih =>
    rw [List.cons_append, numScan_step _ (step_loop_digit hs (hd c List.mem_cons_self)),
        ih (fun x hx => hd x (List.mem_cons_of_mem _ hx)), consTok_prep]

def Stoppable (s : NState) : Prop := s = .zero ∨ s = .intPart ∨ s = .fracPart ∨ s = .eDigits

theorem isWs_iff {c : Nat} : isWs c = true ↔ c = 9 ∨ c = 10 ∨ c = 13 ∨ c = 32 := by
  simp [isWs, or_assoc]

theorem numScan_delim {s : NState} (hs : Stoppable s) {r : Str} (hr : Delim r) :
    numScan s r = .ok ([], r) := by
  rcases hr with rfl | ⟨c, r', rfl, hc⟩
  · rcases hs with rfl | rfl | rfl | rfl <;> rfl
  · have hstop : numStep s (some c) = .stop := by
      rw [isWs_iff] at hc
      rcases hc with (rfl | rfl | rfl | rfl) | rfl | rfl | rfl <;>
        rcases hs with rfl | rfl | rfl | rfl <;> decide
    rw [numScan, hstop]

theorem numScan_digits_delim {s : NState} (hs : Loop s) (ds : Str) {r : Str} (hd : AllDigits ds)
    (hr : Delim r) : numScan s (ds ++ r) = .ok (ds, r) := by
  have hst : Stoppable s := by
    rcases hs with rfl | rfl | rfl
    · exact Or.inr (Or.inl rfl)
    · exact Or.inr (Or.inr (Or.inl rfl))
    · exact Or.inr (Or.inr (Or.inr rfl))
  rw [numScan_digits hs ds r hd, numScan_delim hst hr]; simp [prep]

/-! exponent -/

def EState (s : NState) : Prop := s = .zero ∨ s = .intPart ∨ s = .fracPart

theorem step_E {s : NState} (hs : EState s) {x : Nat} (h : x = 101 ∨ x = 69) :
    numStep s (some x) = .next .e := by
  rcases h with rfl | rfl <;> rcases hs with rfl | rfl | rfl <;> decide

theorem step_e_digit {d : Nat} (h : isDigit d = true) : numStep .e (some d) = .next .eDigits := by
  have h' := isDigit_iff.mp h
  have a : ¬ d = 45 := by omega
  have b : ¬ d = 43 := by omega
  simp [numStep, h, a, b]

theorem step_eSign_digit {d : Nat} (h : isDigit d = true) : numStep .eSign (some d) = .next .eDigits := by
  simp [numStep, h]

theorem numScan_exp {s : NState} (hs : EState s) {e : Str} (he : ExpOK e) {r : Str} (hr : Delim r) :
    numScan s (e ++ r) = .ok (e, r) := by
  rcases he with rfl | ⟨x, sg, d, ds, rfl, hx, hsg, hd, hds⟩
  · have : Stoppable s := by
      rcases hs with rfl | rfl | rfl
      · exact Or.inl rfl
      · exact Or.inr (Or.inl rfl)
      · exact Or.inr (Or.inr (Or.inl rfl))
    exact numScan_delim this hr
  · have tail : numScan .eDigits (ds ++ r) = .ok (ds, r) :=
      numScan_digits_delim (Or.inr (Or.inr rfl)) ds hds hr
    rw [List.cons_append, numScan_step _ (step_E hs hx)]
    rcases hsg with rfl | rfl | rfl
    · rw [List.nil_append, List.cons_append, numScan_step _ (step_e_digit hd), tail]; rfl
    · rw [List.cons_append, List.nil_append, List.cons_append,
          numScan_step _ (by decide : numStep .e (some 43) = .next .eSign),
          List.cons_append, numScan_step _ (step_eSign_digit hd), tail]; rfl
    · rw [List.cons_append, List.nil_append, List.cons_append,
          numScan_step _ (by decide : numStep .e (some 45) = .next .eSign),
          List.cons_append, numScan_step _ (step_eSign_digit hd), tail]; rfl

/-! fraction -/

def FState (s : NState) : Prop := s = .zero ∨ s = .intPart

theorem step_dot {s : NState} (hs : FState s) : numStep s (some 46) = .next .dot := by
  rcases hs with rfl | rfl <;> decide

theorem step_dot_digit {d : Nat} (h : isDigit d = true) : numStep .dot (some d) = .next .fracPart := by
  simp [numStep, h]

theorem prep_ok (p t r : Str) : prep p (.ok (t, r)) = .ok (p ++ t, r) := rfl

theorem numScan_frac_exp {s : NState} (hs : FState s) {fr e : Str} (hf : FracOK fr) (he : ExpOK e)
    {r : Str} (hr : Delim r) : numScan s (fr ++ (e ++ r)) = .ok (fr ++ e, r) := by
  rcases hf with rfl | ⟨d, ds, rfl, hd, hds⟩
  · have : EState s := by
      rcases hs with rfl | rfl
      · exact Or.inl rfl
      · exact Or.inr (Or.inl rfl)
    rw [List.nil_append, List.nil_append]; exact numScan_exp this he hr
  · rw [List.cons_append, numScan_step _ (step_dot hs), List.cons_append,
        numScan_step _ (step_dot_digit hd),
        numScan_digits (Or.inr (Or.inl rfl)) ds (e ++ r) hds,
        numScan_exp (Or.inr (Or.inr rfl)) he hr]
    simp [prep, consTok]

/-! integer part and sign -/

theorem step_first_zero {s : NState} (hs : s = .start ∨ s = .minus) : numStep s (some 48) = .next .zero := by
  rcases hs with rfl | rfl <;> decide

theorem step_first_19 {s : NState} (hs : s = .start ∨ s = .minus) {d : Nat} (h : isDigit19 d = true) :
    numStep s (some d) = .next .intPart := by
  have h' := isDigit19_iff.mp h
  have a : ¬ d = 45 := by omega
  have b : ¬ d = 48 := by omega
  rcases hs with rfl | rfl <;> simp [numStep, h, a, b]

theorem numScan_int {s : NState} (hs : s = .start ∨ s = .minus) {i fr e : Str} (hi : IntOK i)
    (hf : FracOK fr) (he : ExpOK e) {r : Str} (hr : Delim r) :
    numScan s (i ++ (fr ++ (e ++ r))) = .ok (i ++ (fr ++ e), r) := by
  rcases hi with rfl | ⟨d, ds, rfl, hd, hds⟩
  · rw [List.cons_append, List.nil_append, numScan_step _ (step_first_zero hs),
        numScan_frac_exp (Or.inl rfl) hf he hr]; rfl
  · rw [List.cons_append, numScan_step _ (step_first_19 hs hd),
        numScan_digits (Or.inl rfl) ds _ hds, numScan_frac_exp (Or.inr rfl) hf he hr]
    simp [prep, consTok]

theorem numScan_number {t : Str} (ht : JsonNumber t) {r : Str} (hr : Delim r) :
    numScan .start (t ++ r) = .ok (t, r) := by
  obtain ⟨sg, i, fr, e, rfl, hsg, hi, hf, he⟩ := ht
  rcases hsg with rfl | rfl
  · simp only [List.nil_append, List.append_assoc]
    exact numScan_int (Or.inl rfl) hi hf he hr
  · simp only [List.cons_append, List.nil_append, List.append_assoc]
    rw [numScan_step _ (by decide : numStep .start (some 45) = .next .minus),
        numScan_int (Or.inr rfl) hi hf he hr]; rfl

theorem jsonNumber_head {t : Str} (ht : JsonNumber t) :
    ∃ c t', t = c :: t' ∧ (isDigit c = true ∨ c = 45) := by
  obtain ⟨sg, i, fr, e, rfl, hsg, hi, _, _⟩ := ht
  rcases hsg with rfl | rfl
  · rcases hi with rfl | ⟨d, ds, rfl, hd, _⟩
    · exact ⟨48, _, rfl, Or.inl (by decide)⟩
    · refine ⟨d, _, rfl, Or.inl ?_⟩
      have := isDigit19_iff.mp hd
      exact isDigit_iff.mpr (by omega)
  · exact ⟨45, _, rfl, Or.inr rfl⟩

/-- An RFC 8259 number whose magnitude does not round to infinity is a number
    token of `parse_json.rs`. -/
theorem numTok_of_jsonNumber {t : Str} (ht : JsonNumber t) (hfin : overflows t = false) : NumTok t := by
  refine ⟨jsonNumber_head ht, fun r hr => ?_⟩
  obtain ⟨c, t', rfl, _⟩ := jsonNumber_head ht
  unfold lexNumber
  rw [numScan_number ht hr]
  simp [hfin]

end Rsj.Json
