import RsjProofs.EvalEmbRun
import RsjProofs.EvalEmbId
import RsjProofs.EvalEmbCompact
/-!
  Consequences of the fundamental lemma (`run_rel`): observable parts of outcomes, the fresh store of a
  program, whole histories.
-/
set_option linter.unusedVariables false
namespace Rsj.Eval
open Rsj.Core
attribute [local instance] Mode.exact

/-- the `std.trace` output of a run: what it put in front of the log `old` (oldest first) -/
def newTraces (old : List String) (st : St) : List String := (st.traces.take (st.traces.length - old.length)).reverse

theorem newTraces_append (new old : List String) (st : St) (h : st.traces = new ++ old) :
    newTraces old st = new.reverse := by
  simp [newTraces, h]

/-- what can be observed of an outcome of the evaluator: out of fuel, or the error, or "a value" — and
    the trace output -/
def observe {α : Type} (old : List String) : Option (Except Err α × St) → Option (Option Err × List String)
  | none => none
  | some (.ok _, st) => some (none, newTraces old st)
  | some (.error e, st) => some (some e, newTraces old st)

theorem ORel.observe_eq {α β : Type} {ρ : Emb} {ta tb : List String} {Q : Emb → α → β → Prop}
    {r : Option (Except Err α × St)} {r' : Option (Except Err β × St)} (h : ORel ρ ta tb Q r r') :
    observe ta r = observe tb r' := by
  rcases h.exact_cases with ⟨h1, h2⟩ | ⟨v, a', w, b', h1, h2, ρ', _, h4, _⟩ | ⟨e, a', b', h1, h2, ρ', _, h4⟩
  · rw [h1, h2]; rfl
  · obtain ⟨new, e1, e2⟩ := h4.traces
    rw [h1, h2]
    simp only [observe, newTraces_append new _ _ e1, newTraces_append new _ _ e2]
  · obtain ⟨new, e1, e2⟩ := h4.traces
    rw [h1, h2]
    simp only [observe, newTraces_append new _ _ e1, newTraces_append new _ _ e2]

/-- the store a program starts on: the `std` thunk (0), the root environment (0), the program's thunk (1) -/
def freshStore (e : Expr) : St :=
  { thunks := #[.done .null, .pending (.expr e 0)]
    envs := #[{ parent := none, vars := [("std", 0)], obj := none }]
    runs := #[0, 0] }

theorem programProg_eq (cfg : Cfg) (fuel : Nat) (e : Expr) :
    (programProg cfg fuel e) {} = requestProg cfg fuel 1 (freshStore e) := rfl

theorem evalProgram_eq (cfg : Cfg) (fuel : Nat) (e : Expr) :
    evalProgram cfg fuel e = match requestProg cfg fuel 1 (freshStore e) with
      | none => ("gas", {})
      | some (.ok s, st) => ("ok " ++ s, st)
      | some (.error er, st) => (showErr er, restoreInProgress st) := rfl

theorem evalProgram_eq_runRequest (cfg : Cfg) (fuel : Nat) (e : Expr) :
    (evalProgram cfg fuel e).1 = (runRequest cfg fuel 1 (freshStore e)).1 ∧
    (evalProgram cfg fuel e).2.traces = (runRequest cfg fuel 1 (freshStore e)).2.traces := by
  rw [runRequest_eq, evalProgram_eq]
  cases requestProg cfg fuel 1 (freshStore e) with
  | none => exact ⟨rfl, rfl⟩
  | some p =>
    obtain ⟨r, st⟩ := p
    cases r <;> exact ⟨rfl, rfl⟩

/-- The hypothesis of `C11_eval_unrelated_history` made concrete: `st` holds SOMEWHERE a `std` thunk, a root
    environment binding only `std`, and a still pending thunk for the program `e` in that environment;
    everything else in `st` is arbitrary. -/
theorem sim_fresh_of_cells (e : Expr) (st : St) (s0 r0 t' : Nat) (hne : s0 ≠ t')
    (h1 : st.thunks[s0]? = some (.done .null))
    (h2 : st.envs[r0]? = some { parent := none, vars := [("std", s0)], obj := none })
    (h3 : st.thunks[t']? = some (.pending (.expr e r0))) :
    Sim { tm := fun i => if i = 0 then some s0 else if i = 1 then some t' else none
          em := fun i => if i = 0 then some r0 else none
          om := fun _ => none
          fm := fun _ => none } [] st.traces (freshStore e) st where
  thunks := ⟨fun i j k hi hj => by
      dsimp only at hi hj
      split at hi <;> split at hj <;> (try split at hi) <;> (try split at hj) <;> simp_all <;> omega,
    fun i k hik => by
      dsimp only at hik
      split at hik
      · cases hik; subst_vars
        exact ⟨_, _, rfl, h1, .done .null⟩
      · split at hik
        · cases hik; subst_vars
          exact ⟨_, _, rfl, h3, .pending (.expr e (by simp [RE]))⟩
        · cases hik⟩
  envs := ⟨fun i j k hi hj => by
      dsimp only at hi hj
      split at hi <;> split at hj <;> simp_all,
    fun i k hik => by
      dsimp only at hik
      split at hik
      · cases hik; subst_vars
        exact ⟨_, _, rfl, h2, .inl ⟨.none, .cons ⟨rfl, by simp [RT]⟩ .nil, .none⟩⟩
      · cases hik⟩
  objs := ⟨fun i j k hi _ => (by cases hi), fun i k hik => (by cases hik)⟩
  funcs := ⟨fun i j k hi _ => (by cases hi), fun i k hik => (by cases hik)⟩
  traces := ⟨[], rfl, rfl⟩
  wkcell := fun w hw => by cases hw
  rsvok := fun t ht => by cases ht


/-! ### Histories -/

theorem runHistory_go_nil (fuel : Nat) (ts : List TId) (ms : Nat) (st : St) (acc : List String) :
    runHistory.go fuel ts [] ms st acc = acc.reverse := by
  simp [runHistory.go]

theorem runHistory_go_cons (fuel : Nat) (ts : List TId) (r : Req) (rest : List Req) (ms : Nat) (st : St)
    (acc : List String) :
    runHistory.go fuel ts (r :: rest) ms st acc = match r with
      | .maxStack n => runHistory.go fuel ts rest n st ("ms" :: acc)
      | .gc => runHistory.go fuel ts rest ms st ("gc" :: acc)
      | .eval k =>
        match ts[k]? with
        | none => runHistory.go fuel ts rest ms st ("skip" :: acc)
        | some t =>
          runHistory.go fuel ts rest ms (runRequest { maxStack := ms } fuel t st).2
            ((runRequest { maxStack := ms } fuel t st).1.replace " " "_" :: acc) := by
  cases r <;> simp [runHistory.go]
  split <;> simp_all

/-- a whole history of requests gives the same answers on related stores -/
theorem runHistory_go_rel (fuel : Nat) (reqs : List Req) :
    ∀ {ρ : Emb} {ta tb : List String} {st st' : St} {ts ts' : List TId} (ms : Nat) (acc : List String),
      Sim ρ ta tb st st' → RList RT ρ ts ts' →
      runHistory.go fuel ts reqs ms st acc = runHistory.go fuel ts' reqs ms st' acc := by
  induction reqs with
  | nil => intro ρ ta tb st st' ts ts' ms acc _ _; rw [runHistory_go_nil, runHistory_go_nil]
  | cons r rest ih =>
    intro ρ ta tb st st' ts ts' ms acc hs hts
    rw [runHistory_go_cons, runHistory_go_cons]
    cases r with
    | maxStack n => exact ih _ _ hs hts
    | gc => exact ih _ _ hs hts
    | eval k =>
      simp only []
      gcases (hts.getElem? k)
      · exact ih _ _ hs hts
      · rename_i t t' ht
        obtain ⟨h1, ρ', hle, h2⟩ := runRequest_rel { maxStack := ms } fuel hs ht
        simp only []
        rw [h1]
        exact ih _ _ h2 (Mono.mono hle hts)

/-! ### The compacting collector -/

theorem RList.compact_ids {D : Region} {ts : List TId} (h : ∀ t ∈ ts, D.t t = true) :
    RList RT D.compactEmb ts (ts.map (rank D.t)) := by
  induction ts with
  | nil => exact .nil
  | cons t ts ih =>
    refine .cons ?_ (ih (fun u hu => h u (List.mem_cons_of_mem _ hu)))
    simp [RT, Region.compactEmb, h t (List.mem_cons_self ..)]

end Rsj.Eval
