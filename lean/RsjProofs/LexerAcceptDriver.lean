/-
  The driver op `lex` only ever hands byte lists to the model: the result of
  `Rsj.hexDecode` satisfies `IsBytes`.  This discharges the byte hypothesis of
  the token-driven theorems for every input that goes through the
  correspondence check.
-/
import RsjProofs.Utf8Spec
namespace Rsj.Lexer
open Rsj.Utf8

theorem hexVal_lt {c : Char} {n : Nat} (h : Rsj.hexVal c = some n) : n < 16 := by
  unfold Rsj.hexVal at h
  simp only at h
  repeat' split at h
  all_goals first | (cases h; omega) | cases h

theorem hexDecodeChars_isBytes : ∀ (cs : List Char) (bs : List Nat),
    Rsj.hexDecodeChars cs = some bs → IsBytes bs
  | [], bs, h => by
    simp only [Rsj.hexDecodeChars, Option.some.injEq] at h
    subst h
    intro b hb
    cases hb
  | [_], bs, h => by simp [Rsj.hexDecodeChars] at h
  | a :: b :: rest, bs, h => by
    unfold Rsj.hexDecodeChars at h
    split at h
    · next x y r hx hy hr =>
      cases h
      have := hexVal_lt hx
      have := hexVal_lt hy
      have ih := hexDecodeChars_isBytes rest r hr
      intro z hz
      rcases List.mem_cons.mp hz with rfl | hz
      · omega
      · exact ih z hz
    · cases h

/-- Every request the driver decodes is a list of bytes. -/
theorem hexDecode_isBytes {s : String} {bs : List Nat} (h : Rsj.hexDecode s = some bs) : IsBytes bs := by
  unfold Rsj.hexDecode at h
  split at h
  · cases h
    intro b hb
    cases hb
  · exact hexDecodeChars_isBytes _ _ h

end Rsj.Lexer
