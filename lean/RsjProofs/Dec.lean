/-
  Helper lemmas for property C06: `lex_number` versus the literal specification.
-/
import RsjModel.Dec
namespace Rsj.Dec

end Rsj.Dec
