/-
  Helper lemmas for property C06: `lex_number` versus the literal specification.
-/
import RsjModel.Dec
namespace Rsj.Dec

/-! ### characters -/

theorem isDigit_ne {c d : Char} (h : isDigit c = true) (hd : isDigit d = false) :
    (c == d) = false := by
  cases hcd : c == d with
  | false => rfl
  | true =>
    have : c = d := by simpa using hcd
    subst this; rw [h] at hd; cases hd

theorem isDigit_not_isE {c : Char} (h : isDigit c = true) : isE c = false := by
  unfold isE; rw [isDigit_ne h (by decide), isDigit_ne h (by decide)]; rfl

/-- underscore-free text -/
def F (cs : List Char) : List Char := cs.filter (· != '_')

theorem F_nil : F [] = [] := rfl
theorem F_cons_us (cs : List Char) : F ('_' :: cs) = F cs := by simp [F]
theorem F_cons_ne {c : Char} (cs : List Char) (h : (c == '_') = false) :
    F (c :: cs) = c :: F cs := by
  simp [F, bne, h]

theorem splitAtFirst_cons_false {p : Char → Bool} {c : Char} (cs : List Char) (h : p c = false) :
    splitAtFirst p (c :: cs) = (c :: (splitAtFirst p cs).1, (splitAtFirst p cs).2) := by
  simp [splitAtFirst, h]

theorem splitAtFirst_cons_true {p : Char → Bool} {c : Char} (cs : List Char) (h : p c = true) :
    splitAtFirst p (c :: cs) = ([], some cs) := by
  simp [splitAtFirst, h]

theorem ofDigits_foldl (ds : List Nat) (a : Nat) :
    ds.foldl (fun a d => a * 10 + d) a = a * 10 ^ ds.length + ofDigits ds := by
  induction ds generalizing a with
  | nil => simp [ofDigits]
  | cons d ds ih =>
    simp only [List.foldl_cons, List.length_cons, ofDigits]
    rw [ih, ih (0 * 10 + d)]
    simp [Nat.pow_succ, Nat.add_mul, Nat.mul_assoc, Nat.mul_comm, Nat.add_assoc]

theorem ofDigits_cons (d : Nat) (ds : List Nat) :
    ofDigits (d :: ds) = d * 10 ^ ds.length + ofDigits ds := by
  show (d :: ds).foldl (fun a d => a * 10 + d) 0 = _
  simp only [List.foldl_cons]
  rw [ofDigits_foldl]; simp

/-- a successful chain of `checked_mul(10)` / `checked_add(d)` computes the plain value -/
theorem checkedMulAdd_foldl (ds : List Nat) : ∀ (e0 : Option Nat) (E : Nat),
    ds.foldl checkedMulAdd e0 = some E →
    ∃ a, e0 = some a ∧ E = ds.foldl (fun a d => a * 10 + d) a := by
  induction ds with
  | nil => intro e0 E h; exact ⟨E, h, rfl⟩
  | cons d ds ih =>
    intro e0 E h
    simp only [List.foldl_cons] at h
    obtain ⟨a, ha, hE⟩ := ih _ _ h
    cases e0 with
    | none => simp [checkedMulAdd] at ha
    | some b =>
      refine ⟨b, rfl, ?_⟩
      simp only [checkedMulAdd] at ha
      split at ha
      · cases ha
      · split at ha
        · cases ha
        · cases ha; simpa using hE

/-! ### the state machine, state by state -/

theorem expDigits_spec (cs : List Char) : ∀ (us : Bool) (acc acc' : Acc),
    go (.expDigits us) acc cs = .ok (acc', []) →
    acc'.digits = acc.digits ∧ acc'.implicitExp = acc.implicitExp ∧ acc'.expNeg = acc.expNeg ∧
    acc'.explicitExp = (digitsOf (F cs)).foldl checkedMulAdd acc.explicitExp := by
  induction cs with
  | nil =>
    intro us acc acc' h
    simp only [go, atEnd] at h
    split at h
    · cases h
    · cases h; simp [F, digitsOf]
  | cons c cs ih =>
    intro us acc acc' h
    simp only [go, next] at h
    by_cases hd : isDigit c = true
    · simp only [hd, if_true] at h
      have := ih false _ acc' h
      rw [F_cons_ne cs (isDigit_ne hd (by decide))]
      simp only [digitsOf, List.map_cons, List.foldl_cons]
      exact this
    · by_cases hu : (!us && c == '_') = true
      · simp only [hd, hu, if_true] at h
        simp only [Bool.false_eq_true, if_false] at h
        have hc : c = '_' := by
          simp only [Bool.and_eq_true, beq_iff_eq] at hu; exact hu.2
        subst hc
        rw [F_cons_us]
        exact ih true acc acc' h
      · simp only [hd, hu] at h
        simp only [Bool.false_eq_true, if_false] at h
        cases us <;> simp at h

theorem ofDigits_cons_foldl (d : Nat) (ds : List Nat) :
    ds.foldl (fun a d => a * 10 + d) d = ofDigits (d :: ds) := by
  simp [ofDigits]

theorem expSign_spec {cs : List Char} {acc acc' : Acc}
    (h : go .expSign acc cs = .ok (acc', [])) :
    acc'.digits = acc.digits ∧ acc'.implicitExp = acc.implicitExp ∧ acc'.expNeg = acc.expNeg ∧
    (∃ c t, F cs = c :: t ∧ isDigit c = true) ∧
    ∀ E, acc'.explicitExp = some E → E = ofDigits (digitsOf (F cs)) := by
  cases cs with
  | nil => simp [go, atEnd] at h
  | cons c rest =>
    simp only [go, next] at h
    by_cases hd : isDigit c = true
    · simp only [hd, if_true] at h
      obtain ⟨h1, h2, h3, h4⟩ := expDigits_spec rest false _ acc' h
      have hF := F_cons_ne rest (isDigit_ne hd (by decide))
      refine ⟨h1, h2, h3, ⟨c, F rest, hF, hd⟩, ?_⟩
      intro E hE
      rw [h4] at hE
      obtain ⟨a, ha, hEa⟩ := checkedMulAdd_foldl _ _ _ hE
      cases ha
      rw [hF, hEa]
      simp only [digitsOf, List.map_cons]
      exact ofDigits_cons_foldl _ _
    · simp [hd] at h

theorem expPartValue_digit {c : Char} (t : List Char) (hd : isDigit c = true) :
    expPartValue (c :: t) = ((ofDigits (digitsOf (c :: t)) : Nat) : Int) := by
  have h1 : c ≠ '-' := by
    intro e; subst e; revert hd; decide
  have h2 : c ≠ '+' := by
    intro e; subst e; revert hd; decide
  unfold expPartValue
  split
  · next heq => cases heq; exact absurd rfl h1
  · next heq => cases heq; exact absurd rfl h2
  · rfl

theorem exp_spec {cs : List Char} {acc acc' : Acc}
    (h : go .exp acc cs = .ok (acc', [])) (hneg : acc.expNeg = false) :
    acc'.digits = acc.digits ∧ acc'.implicitExp = acc.implicitExp ∧
    ∀ E : Nat, acc'.explicitExp = some E →
      expPartValue (F cs) = (if acc'.expNeg then -(E : Int) else (E : Int)) := by
  cases cs with
  | nil => simp [go, atEnd] at h
  | cons c rest =>
    simp only [go, next] at h
    by_cases hp : (c == '+') = true
    · simp only [hp, if_true] at h
      have hc : c = '+' := by simpa using hp
      subst hc
      obtain ⟨h1, h2, h3, ⟨d, t, hF, hd⟩, h5⟩ := expSign_spec h
      refine ⟨h1, h2, ?_⟩
      intro E hE
      rw [F_cons_ne rest (by decide), h3, hneg]
      simp only [expPartValue, Bool.false_eq_true, if_false]
      rw [h5 E hE]
    · by_cases hm : (c == '-') = true
      · simp only [hp, hm, if_true] at h
        simp only [Bool.false_eq_true, if_false] at h
        have hc : c = '-' := by simpa using hm
        subst hc
        obtain ⟨h1, h2, h3, ⟨d, t, hF, hd⟩, h5⟩ := expSign_spec h
        refine ⟨h1, h2, ?_⟩
        intro E hE
        rw [F_cons_ne rest (by decide), h3]
        simp only [expPartValue, if_true]
        rw [h5 E hE]
      · by_cases hd : isDigit c = true
        · simp only [hp, hm, hd, if_true] at h
          simp only [Bool.false_eq_true, if_false] at h
          obtain ⟨h1, h2, h3, h4⟩ := expDigits_spec rest false _ acc' h
          have hF := F_cons_ne rest (isDigit_ne hd (by decide))
          refine ⟨h1, h2, ?_⟩
          intro E hE
          rw [h4] at hE
          obtain ⟨a, ha, hEa⟩ := checkedMulAdd_foldl _ _ _ hE
          cases ha
          rw [hF, expPartValue_digit _ hd, h3]
          simp only [hneg, Bool.false_eq_true, if_false]
          rw [hEa]
          simp only [digitsOf, List.map_cons]
          rw [ofDigits_cons_foldl]
        · simp [hp, hm, hd] at h

/-- the `e` of `plainValue` -/
def expOf (ep : Option (List Char)) : Int :=
  match ep with
  | none => 0
  | some ep => expPartValue ep

theorem isE_not_us {c : Char} (h : isE c = true) : (c == '_') = false := by
  cases hcd : c == '_' with
  | false => rfl
  | true =>
    have : c = '_' := by simpa using hcd
    subst this; revert h; decide

/-- what the fraction states establish about the underscore-free rest `t` of the text -/
def FracPost (acc acc' : Acc) (t : List Char) : Prop :=
  acc'.digits = acc.digits ++ digitsOf (splitAtFirst isE t).1 ∧
  acc'.implicitExp = acc.implicitExp - ((splitAtFirst isE t).1.length : Int) ∧
  ∀ E : Nat, acc'.explicitExp = some E →
    expOf (splitAtFirst isE t).2 = (if acc'.expNeg then -(E : Int) else (E : Int))

theorem fracPost_digit {c : Char} {t : List Char} {acc acc' : Acc} (hd : isDigit c = true)
    (h : FracPost { acc with digits := acc.digits ++ [digitVal c],
                             implicitExp := acc.implicitExp - 1 } acc' t) :
    FracPost acc acc' (c :: t) := by
  obtain ⟨h1, h2, h3⟩ := h
  unfold FracPost
  rw [splitAtFirst_cons_false t (isDigit_not_isE hd)]
  refine ⟨?_, ?_, h3⟩
  · rw [h1]; simp [digitsOf]
  · rw [h2]; simp only [List.length_cons]; omega

theorem fracPost_exp {c : Char} {rest : List Char} {acc acc' : Acc} (he : isE c = true)
    (h : go .exp acc rest = .ok (acc', [])) (hneg : acc.expNeg = false) :
    FracPost acc acc' (c :: F rest) := by
  obtain ⟨h1, h2, h3⟩ := exp_spec h hneg
  unfold FracPost
  rw [splitAtFirst_cons_true _ he]
  refine ⟨?_, ?_, ?_⟩
  · rw [h1]; simp [digitsOf]
  · rw [h2]; simp
  · intro E hE; exact h3 E hE

theorem fracDigits_spec (cs : List Char) : ∀ (us : Bool) (acc acc' : Acc),
    go (.fracDigits us) acc cs = .ok (acc', []) → acc.expNeg = false →
    acc.explicitExp = some 0 → FracPost acc acc' (F cs) := by
  induction cs with
  | nil =>
    intro us acc acc' h hneg hexp
    simp only [go, atEnd] at h
    split at h
    · cases h
    · cases h
      refine ⟨by simp [F, splitAtFirst, digitsOf], by simp [F, splitAtFirst], ?_⟩
      intro E hE
      rw [hexp] at hE; cases hE
      simp [F, splitAtFirst, expOf, hneg]
  | cons c cs ih =>
    intro us acc acc' h hneg hexp
    simp only [go, next] at h
    by_cases hd : isDigit c = true
    · simp only [hd, if_true] at h
      rw [F_cons_ne cs (isDigit_ne hd (by decide))]
      exact fracPost_digit hd (ih false _ acc' h hneg hexp)
    · have hd' : isDigit c = false := by simpa using hd
      by_cases hc : c = '_'
      · subst hc
        cases us with
        | true => simp [hd'] at h
        | false =>
          simp [hd'] at h
          rw [F_cons_us]
          exact ih true acc acc' h hneg hexp
      · have hc' : (c == '_') = false := by simpa using hc
        cases us with
        | true => simp [hd', hc'] at h
        | false =>
          by_cases he : (c == 'e' || c == 'E') = true
          · simp only [hd', hc', he, if_true] at h
            simp only [Bool.false_eq_true, Bool.not_false, Bool.and_false, if_false] at h
            have he' : isE c = true := he
            rw [F_cons_ne cs hc']
            exact fracPost_exp he' h hneg
          · have he' : (c == 'e' || c == 'E') = false := by simpa using he
            simp only [hd', hc', he'] at h
            simp at h

theorem dot_spec {cs : List Char} {acc acc' : Acc}
    (h : go .dot acc cs = .ok (acc', [])) (hneg : acc.expNeg = false)
    (hexp : acc.explicitExp = some 0) : FracPost acc acc' (F cs) := by
  cases cs with
  | nil => simp [go, atEnd] at h
  | cons c rest =>
    simp only [go, next] at h
    by_cases hd : isDigit c = true
    · simp only [hd, if_true] at h
      rw [F_cons_ne rest (isDigit_ne hd (by decide))]
      exact fracPost_digit hd (fracDigits_spec rest false _ acc' h hneg hexp)
    · simp [hd] at h

def isDot (c : Char) : Bool := c == '.'

/-- what the integer states establish about the underscore-free rest `t` of the text -/
def IntPost (acc acc' : Acc) (t : List Char) : Prop :=
  acc'.digits = acc.digits ++
      digitsOf ((splitAtFirst isDot (splitAtFirst isE t).1).1 ++
                (splitAtFirst isDot (splitAtFirst isE t).1).2.getD []) ∧
  acc'.implicitExp = acc.implicitExp -
      (((splitAtFirst isDot (splitAtFirst isE t).1).2.getD []).length : Int) ∧
  ∀ E : Nat, acc'.explicitExp = some E →
    expOf (splitAtFirst isE t).2 = (if acc'.expNeg then -(E : Int) else (E : Int))

theorem intDigits_spec (cs : List Char) : ∀ (us : Bool) (acc acc' : Acc),
    go (.intDigits us) acc cs = .ok (acc', []) → acc.expNeg = false →
    acc.explicitExp = some 0 → IntPost acc acc' (F cs) := by
  induction cs with
  | nil =>
    intro us acc acc' h hneg hexp
    simp only [go, atEnd] at h
    split at h
    · cases h
    · cases h
      refine ⟨by simp [F, splitAtFirst, digitsOf], by simp [F, splitAtFirst], ?_⟩
      intro E hE
      rw [hexp] at hE; cases hE
      simp [F, splitAtFirst, expOf, hneg]
  | cons c cs ih =>
    intro us acc acc' h hneg hexp
    simp only [go, next] at h
    by_cases hd : isDigit c = true
    · simp only [hd, if_true] at h
      by_cases hlz : (acc.digits.length == 1 && acc.leadingZero) = true
      · simp [hlz] at h
      · simp only [hlz, Bool.false_eq_true, if_false] at h
        rw [F_cons_ne cs (isDigit_ne hd (by decide))]
        obtain ⟨h1, h2, h3⟩ := ih false _ acc' h hneg hexp
        unfold IntPost
        rw [splitAtFirst_cons_false _ (isDigit_not_isE hd)]
        have hnd : isDot c = false := isDigit_ne hd (by decide)
        simp only [splitAtFirst_cons_false _ hnd]
        refine ⟨?_, h2, h3⟩
        rw [h1]; simp [digitsOf]
    · have hd' : isDigit c = false := by simpa using hd
      by_cases hc : c = '_'
      · subst hc
        cases us with
        | true => simp [hd'] at h
        | false =>
          simp [hd'] at h
          rw [F_cons_us]
          exact ih true acc acc' h hneg hexp
      · have hc' : (c == '_') = false := by simpa using hc
        cases us with
        | true => simp [hd', hc'] at h
        | false =>
          by_cases hdot : (c == '.') = true
          · simp only [hd', hc', hdot, if_true] at h
            simp only [Bool.false_eq_true, Bool.not_false, Bool.and_false, if_false] at h
            have hc2 : c = '.' := by simpa using hdot
            subst hc2
            rw [F_cons_ne cs hc']
            obtain ⟨h1, h2, h3⟩ := dot_spec h hneg hexp
            unfold IntPost
            rw [splitAtFirst_cons_false (p := isE) _ (by decide)]
            simp only [splitAtFirst_cons_true (p := isDot) _ (show isDot '.' = true by decide)]
            refine ⟨?_, ?_, h3⟩
            · rw [h1]; simp
            · rw [h2]; simp
          · have hdot' : (c == '.') = false := by simpa using hdot
            by_cases he : (c == 'e' || c == 'E') = true
            · simp only [hd', hc', hdot', he, if_true] at h
              simp only [Bool.false_eq_true, Bool.not_false, Bool.and_false, if_false] at h
              have he' : isE c = true := he
              rw [F_cons_ne cs hc']
              obtain ⟨h1, h2, h3⟩ := exp_spec h hneg
              unfold IntPost
              rw [splitAtFirst_cons_true _ he']
              refine ⟨?_, ?_, ?_⟩
              · rw [h1]; simp [splitAtFirst, digitsOf]
              · rw [h2]; simp [splitAtFirst]
              · intro E hE; exact h3 E hE
            · have he' : (c == 'e' || c == 'E') = false := by simpa using he
              simp only [hd', hc', hdot', he'] at h
              simp at h

/-- `plainValue` in terms of the two splits. -/
theorem plainValue_eq (t : List Char) :
    plainValue t =
      (ofDigits (digitsOf ((splitAtFirst isDot (splitAtFirst isE t).1).1 ++
                           (splitAtFirst isDot (splitAtFirst isE t).1).2.getD [])),
       expOf (splitAtFirst isE t).2 -
         (((splitAtFirst isDot (splitAtFirst isE t).1).2.getD []).length : Int)) := by
  unfold plainValue expOf
  cases h1 : splitAtFirst isE t with
  | mk mant ep =>
    have : splitAtFirst (fun x => x == '.') mant = splitAtFirst isDot mant := rfl
    simp only [this]
    cases h2 : splitAtFirst isDot mant with
    | mk ip fpo => cases ep <;> rfl

theorem finish_ok {acc : Acc} {e : Int} (h : finish acc = .ok e) :
    ∃ E : Nat, acc.explicitExp = some E ∧
      e = acc.implicitExp + (if acc.expNeg then -(E : Int) else (E : Int)) := by
  unfold finish at h
  split at h
  · cases h
  · next E hE =>
    by_cases hgt : E > I64_MAX
    · simp [hgt] at h
    · simp only [hgt, if_false] at h
      refine ⟨E, hE, ?_⟩
      cases hn : acc.expNeg
      · simp only [hn, Bool.false_eq_true, if_false] at h ⊢
        split at h
        · cases h
        · cases h; rfl
      · simp only [hn, if_true] at h ⊢
        split at h
        · cases h
        · cases h; omega

/-- **lex_number_value**: when `lex_number` consumes the whole text, its `(digits, exp)`
    is exactly the pair of the specification `literalValue`. -/
theorem lexNumber_value {text : List Char} {ds : List Nat} {e : Int}
    (h : lexNumber text = .ok (ds, e, [])) : (ofDigits ds, e) = literalValue text := by
  cases text with
  | nil => simp [lexNumber] at h
  | cons c0 rest =>
    simp only [lexNumber] at h
    by_cases hd : isDigit c0 = true
    · simp only [hd, Bool.not_true, Bool.false_eq_true, if_false] at h
      split at h
      · cases h
      · next acc rest' hgo =>
        split at h
        · cases h
        · next e' hfin =>
          cases h
          obtain ⟨h1, h2, h3⟩ := intDigits_spec rest false _ acc hgo rfl rfl
          obtain ⟨E, hE, he⟩ := finish_ok hfin
          have hF : (c0 :: rest).filter (· != '_') = c0 :: F rest :=
            F_cons_ne rest (isDigit_ne hd (by decide))
          unfold literalValue
          rw [hF, plainValue_eq, splitAtFirst_cons_false _ (isDigit_not_isE hd)]
          have hnd : isDot c0 = false := isDigit_ne hd (by decide)
          simp only [splitAtFirst_cons_false _ hnd]
          rw [h1, he, h2, h3 E hE]
          simp only [digitsOf, List.map_cons, List.cons_append]
          congr 1
          omega
    · simp [hd] at h

/-! ### the analyzer's re-assembly `"{digits}e{exp}"` -/

theorem digit_rt : ∀ d : Fin 10, digitVal (digitChar d.val) = d.val ∧ isDigit (digitChar d.val) = true := by
  decide

theorem digitVal_digitChar {d : Nat} (h : d < 10) : digitVal (digitChar d) = d :=
  (digit_rt ⟨d, h⟩).1

theorem isDigit_digitChar {d : Nat} (h : d < 10) : isDigit (digitChar d) = true :=
  (digit_rt ⟨d, h⟩).2

theorem natDigitsAux_spec : ∀ (fuel n : Nat) (acc : List Nat), n < fuel → (∀ d ∈ acc, d < 10) →
    (∀ d ∈ natDigitsAux fuel n acc, d < 10) ∧ natDigitsAux fuel n acc ≠ [] ∧
    ofDigits (natDigitsAux fuel n acc) = n * 10 ^ acc.length + ofDigits acc := by
  intro fuel
  induction fuel with
  | zero => intro n acc h; omega
  | succ fuel ih =>
    intro n acc hn hacc
    unfold natDigitsAux
    by_cases h10 : n < 10
    · simp only [h10, if_true]
      refine ⟨?_, by simp, ofDigits_cons n acc⟩
      intro d hd
      rcases List.mem_cons.mp hd with rfl | hd
      · exact h10
      · exact hacc d hd
    · simp only [h10, if_false]
      have hacc' : ∀ d ∈ n % 10 :: acc, d < 10 := by
        intro d hd
        rcases List.mem_cons.mp hd with rfl | hd
        · omega
        · exact hacc d hd
      obtain ⟨h1, h2, h3⟩ := ih (n / 10) (n % 10 :: acc) (by omega) hacc'
      refine ⟨h1, h2, ?_⟩
      rw [h3, ofDigits_cons, List.length_cons, Nat.pow_succ]
      have : n = 10 * (n / 10) + n % 10 := (Nat.div_add_mod n 10).symm
      generalize 10 ^ acc.length = P at *
      generalize ofDigits acc = Q
      generalize n / 10 = a at *
      generalize n % 10 = b at *
      subst this
      have e1 : a * (P * 10) = 10 * a * P := by
        rw [Nat.mul_comm P 10, ← Nat.mul_assoc, Nat.mul_comm a 10]
      rw [e1, Nat.add_mul, Nat.add_assoc]

theorem natDigits_spec (n : Nat) :
    (∀ d ∈ natDigits n, d < 10) ∧ natDigits n ≠ [] ∧ ofDigits (natDigits n) = n := by
  obtain ⟨h1, h2, h3⟩ := natDigitsAux_spec (n + 1) n [] (by omega) (by simp)
  refine ⟨h1, h2, ?_⟩
  unfold natDigits
  rw [h3]; simp [ofDigits]

theorem splitAtFirst_none {p : Char → Bool} : ∀ (l : List Char), (∀ c ∈ l, p c = false) →
    splitAtFirst p l = (l, none) := by
  intro l
  induction l with
  | nil => intro _; rfl
  | cons c l ih =>
    intro h
    rw [splitAtFirst_cons_false l (h c (by simp)), ih (fun x hx => h x (by simp [hx]))]

theorem splitAtFirst_append {p : Char → Bool} : ∀ (l : List Char) (c : Char) (r : List Char),
    (∀ x ∈ l, p x = false) → p c = true → splitAtFirst p (l ++ c :: r) = (l, some r) := by
  intro l
  induction l with
  | nil => intro c r _ hc; exact splitAtFirst_cons_true r hc
  | cons x l ih =>
    intro c r h hc
    rw [List.cons_append, splitAtFirst_cons_false _ (h x (by simp)),
      ih c r (fun y hy => h y (by simp [hy])) hc]

theorem digitsOf_map_digitChar : ∀ (ds : List Nat), (∀ d ∈ ds, d < 10) →
    digitsOf (ds.map digitChar) = ds := by
  intro ds
  induction ds with
  | nil => intro _; rfl
  | cons d ds ih =>
    intro h
    simp only [digitsOf, List.map_cons]
    rw [digitVal_digitChar (h d (by simp))]
    congr 1
    exact ih (fun x hx => h x (by simp [hx]))

theorem allDigits_map_digitChar (ds : List Nat) (h : ∀ d ∈ ds, d < 10) :
    allDigits (ds.map digitChar) = true := by
  unfold allDigits
  rw [List.all_eq_true]
  intro c hc
  obtain ⟨d, hd, rfl⟩ := List.mem_map.mp hc
  exact isDigit_digitChar (h d hd)

theorem map_digitChar_prop (ds : List Nat) (h : ∀ d ∈ ds, d < 10) :
    ∀ c ∈ ds.map digitChar, isDigit c = true := by
  intro c hc
  obtain ⟨d, hd, rfl⟩ := List.mem_map.mp hc
  exact isDigit_digitChar (h d hd)

theorem sciValue_digit {c : Char} (t : List Char) (hd : isDigit c = true) :
    sciValue (c :: t) =
      if sciShapeOk (c :: t) then some (false, (plainValue (c :: t)).1, (plainValue (c :: t)).2)
      else none := by
  have h1 : c ≠ '-' := by intro e; subst e; revert hd; decide
  have h2 : c ≠ '+' := by intro e; subst e; revert hd; decide
  have hs : stripSign (c :: t) = (false, c :: t) := by
    unfold stripSign
    split
    · next heq => cases heq; exact absurd rfl h1
    · next heq => cases heq; exact absurd rfl h2
    · rfl
  unfold sciValue
  rw [hs]

/-- The exponent part printed by `format!("{}", exp)` for an `i64`. -/
def expText (e : Int) : List Char :=
  (if e < 0 then ['-'] else []) ++ (natDigits e.natAbs).map digitChar

theorem expText_value (e : Int) : expPartValue (expText e) = e := by
  obtain ⟨h1, h2, h3⟩ := natDigits_spec e.natAbs
  unfold expText
  by_cases hneg : e < 0
  · simp only [hneg, if_true, List.cons_append, List.nil_append, expPartValue]
    rw [digitsOf_map_digitChar _ h1, h3]; omega
  · simp only [hneg, if_false, List.nil_append]
    cases hN : natDigits e.natAbs with
    | nil => exact absurd hN h2
    | cons n ns =>
      rw [List.map_cons, expPartValue_digit _ (isDigit_digitChar (h1 n (by simp [hN]))),
        ← List.map_cons, ← hN, digitsOf_map_digitChar _ h1, h3]
      omega

theorem expShapeOk_digit {c : Char} (t : List Char) (hd : isDigit c = true) :
    expShapeOk (c :: t) = (!(c :: t).isEmpty && allDigits (c :: t)) := by
  have h1 : c ≠ '-' := by intro e; subst e; revert hd; decide
  have h2 : c ≠ '+' := by intro e; subst e; revert hd; decide
  unfold expShapeOk
  split
  · next heq => cases heq; exact absurd rfl h1
  · next heq => cases heq; exact absurd rfl h2
  · rfl

theorem expText_shape (e : Int) : expShapeOk (expText e) = true := by
  obtain ⟨h1, h2, h3⟩ := natDigits_spec e.natAbs
  have hall := allDigits_map_digitChar _ h1
  have hne : ((natDigits e.natAbs).map digitChar).isEmpty = false := by
    cases hN : natDigits e.natAbs with
    | nil => exact absurd hN h2
    | cons n ns => rfl
  unfold expText
  by_cases hneg : e < 0
  · simp only [hneg, if_true, List.cons_append, List.nil_append, expShapeOk]
    rw [hne, hall]; rfl
  · simp only [hneg, if_false, List.nil_append]
    cases hN : natDigits e.natAbs with
    | nil => exact absurd hN h2
    | cons n ns =>
      have hd : isDigit (digitChar n) = true := isDigit_digitChar (h1 n (by simp [hN]))
      rw [hN] at hall
      simp only [List.map_cons] at hall ⊢
      rw [expShapeOk_digit _ hd, hall]; rfl

theorem reassemble_eq (ds : List Nat) (e : Int) :
    reassemble ds e = ds.map digitChar ++ 'e' :: expText e := by
  unfold reassemble expText
  simp [List.append_assoc]

/-- **re-assembly**: the text `"{digits}e{exp}"` that the analyzer hands to
    `str::parse::<f64>` denotes the same `(n, e)` as the token. -/
theorem reassemble_value (ds : List Nat) (e : Int) (hne : ds ≠ []) (hds : ∀ d ∈ ds, d < 10) :
    sciValue (reassemble ds e) = some (false, ofDigits ds, e) := by
  rw [reassemble_eq]
  have hL := map_digitChar_prop ds hds
  have hsplitE : splitAtFirst isE (ds.map digitChar ++ 'e' :: expText e)
      = (ds.map digitChar, some (expText e)) :=
    splitAtFirst_append _ _ _ (fun x hx => isDigit_not_isE (hL x hx)) (by decide)
  have hsplitD : splitAtFirst (fun x => x == '.') (ds.map digitChar) = (ds.map digitChar, none) :=
    splitAtFirst_none _ (fun x hx => isDigit_ne (hL x hx) (by decide))
  have hshape : sciShapeOk (ds.map digitChar ++ 'e' :: expText e) = true := by
    unfold sciShapeOk
    simp only [hsplitE, hsplitD]
    have hne' : (ds.map digitChar).isEmpty = false := by
      cases ds with
      | nil => exact absurd rfl hne
      | cons d ds => rfl
    rw [hne', allDigits_map_digitChar _ hds, expText_shape]; rfl
  have hval : plainValue (ds.map digitChar ++ 'e' :: expText e) = (ofDigits ds, e) := by
    unfold plainValue
    simp only [hsplitE, hsplitD, Option.getD_none, List.append_nil, List.length_nil]
    rw [digitsOf_map_digitChar _ hds, expText_value]; simp
  cases ds with
  | nil => exact absurd rfl hne
  | cons d ds' =>
    simp only [List.map_cons, List.cons_append] at hshape hval ⊢
    rw [sciValue_digit _ (isDigit_digitChar (hds d (by simp))), hshape, hval]
    rfl

/-- The digits produced by `lex_number` are decimal digits and there is at least one. -/
theorem go_digits (cs : List Char) : ∀ (st : St) (acc acc' : Acc) (rest : List Char),
    go st acc cs = .ok (acc', rest) → (∀ d ∈ acc.digits, d < 10) → acc.digits ≠ [] →
    (∀ d ∈ acc'.digits, d < 10) ∧ acc'.digits ≠ [] := by
  induction cs with
  | nil =>
    intro st acc acc' rest h h1 h2
    simp only [go] at h
    split at h
    · cases h
    · cases h; exact ⟨h1, h2⟩
  | cons c cs ih =>
    intro st acc acc' rest h h1 h2
    simp only [go] at h
    split at h
    · next st' acc1 hn =>
      have key : (∀ d ∈ acc1.digits, d < 10) ∧ acc1.digits ≠ [] := by
        have hdv : isDigit c = true → digitVal c < 10 := by
          intro hd
          unfold isDigit at hd; unfold digitVal
          simp only [Bool.and_eq_true, decide_eq_true_eq] at hd; omega
        have happ : isDigit c = true →
            (∀ d ∈ acc.digits ++ [digitVal c], d < 10) ∧ acc.digits ++ [digitVal c] ≠ [] := by
          intro hd
          refine ⟨?_, by simp⟩
          intro d hmem
          rcases List.mem_append.mp hmem with hm | hm
          · exact h1 d hm
          · simp only [List.mem_singleton] at hm; subst hm; exact hdv hd
        unfold next at hn
        cases st <;> simp only at hn <;>
          (repeat' split at hn) <;>
          first
            | (cases hn; exact ⟨h1, h2⟩)
            | (cases hn; rename_i hd; exact happ hd)
            | (cases hn; rename_i hd _; exact happ hd)
            | cases hn
      exact ih st' acc1 acc' rest h key.1 key.2
    · cases h; exact ⟨h1, h2⟩
    · cases h

theorem lexNumber_digits {text : List Char} {ds : List Nat} {e : Int} {rest : List Char}
    (h : lexNumber text = .ok (ds, e, rest)) : (∀ d ∈ ds, d < 10) ∧ ds ≠ [] := by
  cases text with
  | nil => simp [lexNumber] at h
  | cons c0 cs =>
    simp only [lexNumber] at h
    by_cases hd : isDigit c0 = true
    · simp only [hd, Bool.not_true, Bool.false_eq_true, if_false] at h
      split at h
      · cases h
      · next acc rest' hgo =>
        split at h
        · cases h
        · cases h
          refine go_digits cs _ _ acc _ hgo ?_ (by simp)
          intro d hmem
          simp only [List.mem_singleton] at hmem; subst hmem
          unfold isDigit at hd; unfold digitVal
          simp only [Bool.and_eq_true, decide_eq_true_eq] at hd; omega
    · simp [hd] at h

/-! ### `eff_exp` -/

theorem finish_expOverflow_iff (acc : Acc) :
    finish acc = .error .expOverflow ↔
      (acc.explicitExp = none ∨ ∃ E : Nat, acc.explicitExp = some E ∧
        (E > 2 ^ 63 - 1 ∨
         (if acc.expNeg then acc.implicitExp - (E : Int) else acc.implicitExp + (E : Int)) < -(2 ^ 63) ∨
         (if acc.expNeg then acc.implicitExp - (E : Int) else acc.implicitExp + (E : Int)) > 2 ^ 63 - 1)) := by
  unfold finish I64_MAX
  cases hE : acc.explicitExp with
  | none => simp
  | some E =>
    simp only [Option.some.injEq, exists_eq_left', false_or, reduceCtorEq]
    by_cases h1 : E > 2 ^ 63 - 1
    · simp [h1]
    · simp only [h1, if_false, false_or]
      cases hn : acc.expNeg
      · simp only [Bool.false_eq_true, if_false]
        by_cases hP : acc.implicitExp + (E : Int) < -(2 ^ 63) ∨ acc.implicitExp + (E : Int) > 2 ^ 63 - 1
        · rw [if_pos hP]; exact ⟨fun _ => hP, fun _ => rfl⟩
        · rw [if_neg hP]; exact ⟨fun h => (by cases h), fun h => absurd h hP⟩
      · simp only [if_true]
        by_cases hP : acc.implicitExp - (E : Int) < -(2 ^ 63) ∨ acc.implicitExp - (E : Int) > 2 ^ 63 - 1
        · rw [if_pos hP]; exact ⟨fun _ => hP, fun _ => rfl⟩
        · rw [if_neg hP]; exact ⟨fun h => (by cases h), fun h => absurd h hP⟩


theorem finish_errors (acc : Acc) (e : LexErr) (h : finish acc = .error e) : e = .expOverflow := by
  unfold finish at h
  split at h
  · cases h; rfl
  · next E hE =>
    by_cases hgt : E > I64_MAX
    · simp only [hgt, if_true] at h; cases h; rfl
    · simp only [hgt, if_false] at h
      cases hn : acc.expNeg
      · simp only [hn, Bool.false_eq_true, if_false] at h
        split at h
        · cases h; rfl
        · cases h
      · simp only [hn, if_true] at h
        split at h
        · cases h; rfl
        · cases h


end Rsj.Dec
