/-
  Helper lemmas for property C06: `lex_number` versus the literal specification.
-/
import RsjModel.Dec
namespace Rsj.Dec

/-! ### characters -/

theorem isDigit_ne {c d : Char} (h : isDigit c = true) (hd : isDigit d = false) :
    (c == d) = false := by
  cases hcd : c == d with
  | false => rfl
  | true =>
    have : c = d := by simpa using hcd
    subst this; rw [h] at hd; cases hd

theorem isDigit_not_isE {c : Char} (h : isDigit c = true) : isE c = false := by
  unfold isE; rw [isDigit_ne h (by decide), isDigit_ne h (by decide)]; rfl

/-- underscore-free text -/
def F (cs : List Char) : List Char := cs.filter (· != '_')

theorem F_nil : F [] = [] := rfl
theorem F_cons_us (cs : List Char) : F ('_' :: cs) = F cs := by simp [F]
theorem F_cons_ne {c : Char} (cs : List Char) (h : (c == '_') = false) :
    F (c :: cs) = c :: F cs := by
  simp [F, bne, h]

theorem splitAtFirst_cons_false {p : Char → Bool} {c : Char} (cs : List Char) (h : p c = false) :
    splitAtFirst p (c :: cs) = (c :: (splitAtFirst p cs).1, (splitAtFirst p cs).2) := by
  simp [splitAtFirst, h]

theorem splitAtFirst_cons_true {p : Char → Bool} {c : Char} (cs : List Char) (h : p c = true) :
    splitAtFirst p (c :: cs) = ([], some cs) := by
  simp [splitAtFirst, h]

theorem ofDigits_foldl (ds : List Nat) (a : Nat) :
    ds.foldl (fun a d => a * 10 + d) a = a * 10 ^ ds.length + ofDigits ds := by
  induction ds generalizing a with
  | nil => simp [ofDigits]
  | cons d ds ih =>
    simp only [List.foldl_cons, List.length_cons, ofDigits]
    rw [ih, ih (0 * 10 + d)]
    simp [Nat.pow_succ, Nat.add_mul, Nat.mul_assoc, Nat.mul_comm, Nat.add_assoc]

theorem ofDigits_cons (d : Nat) (ds : List Nat) :
    ofDigits (d :: ds) = d * 10 ^ ds.length + ofDigits ds := by
  show (d :: ds).foldl (fun a d => a * 10 + d) 0 = _
  simp only [List.foldl_cons]
  rw [ofDigits_foldl]; simp

/-- a successful chain of `checked_mul(10)` / `checked_add(d)` computes the plain value -/
theorem checkedMulAdd_foldl (ds : List Nat) : ∀ (e0 : Option Nat) (E : Nat),
    ds.foldl checkedMulAdd e0 = some E →
    ∃ a, e0 = some a ∧ E = ds.foldl (fun a d => a * 10 + d) a := by
  induction ds with
  | nil => intro e0 E h; exact ⟨E, h, rfl⟩
  | cons d ds ih =>
    intro e0 E h
    simp only [List.foldl_cons] at h
    obtain ⟨a, ha, hE⟩ := ih _ _ h
    cases e0 with
    | none => simp [checkedMulAdd] at ha
    | some b =>
      refine ⟨b, rfl, ?_⟩
      simp only [checkedMulAdd] at ha
      split at ha
      · cases ha
      · split at ha
        · cases ha
        · cases ha; simpa using hE

/-! ### the state machine, state by state -/

theorem expDigits_spec (cs : List Char) : ∀ (us : Bool) (acc acc' : Acc),
    go (.expDigits us) acc cs = .ok (acc', []) →
    acc'.digits = acc.digits ∧ acc'.implicitExp = acc.implicitExp ∧ acc'.expNeg = acc.expNeg ∧
    acc'.explicitExp = (digitsOf (F cs)).foldl checkedMulAdd acc.explicitExp := by
  induction cs with
  | nil =>
    intro us acc acc' h
    simp only [go, atEnd] at h
    split at h
    · cases h
    · cases h; simp [F, digitsOf]
  | cons c cs ih =>
    intro us acc acc' h
    simp only [go, next] at h
    by_cases hd : isDigit c = true
    · simp only [hd, if_true] at h
      have := ih false _ acc' h
      rw [F_cons_ne cs (isDigit_ne hd (by decide))]
      simp only [digitsOf, List.map_cons, List.foldl_cons]
      exact this
    · by_cases hu : (!us && c == '_') = true
      · simp only [hd, hu, if_true] at h
        simp only [Bool.false_eq_true, if_false] at h
        have hc : c = '_' := by
          simp only [Bool.and_eq_true, beq_iff_eq] at hu; exact hu.2
        subst hc
        rw [F_cons_us]
        exact ih true acc acc' h
      · simp only [hd, hu] at h
        simp only [Bool.false_eq_true, if_false] at h
        cases us <;> simp at h

theorem ofDigits_cons_foldl (d : Nat) (ds : List Nat) :
    ds.foldl (fun a d => a * 10 + d) d = ofDigits (d :: ds) := by
  simp [ofDigits]

theorem expSign_spec {cs : List Char} {acc acc' : Acc}
    (h : go .expSign acc cs = .ok (acc', [])) :
    acc'.digits = acc.digits ∧ acc'.implicitExp = acc.implicitExp ∧ acc'.expNeg = acc.expNeg ∧
    (∃ c t, F cs = c :: t ∧ isDigit c = true) ∧
    ∀ E, acc'.explicitExp = some E → E = ofDigits (digitsOf (F cs)) := by
  cases cs with
  | nil => simp [go, atEnd] at h
  | cons c rest =>
    simp only [go, next] at h
    by_cases hd : isDigit c = true
    · simp only [hd, if_true] at h
      obtain ⟨h1, h2, h3, h4⟩ := expDigits_spec rest false _ acc' h
      have hF := F_cons_ne rest (isDigit_ne hd (by decide))
      refine ⟨h1, h2, h3, ⟨c, F rest, hF, hd⟩, ?_⟩
      intro E hE
      rw [h4] at hE
      obtain ⟨a, ha, hEa⟩ := checkedMulAdd_foldl _ _ _ hE
      cases ha
      rw [hF, hEa]
      simp only [digitsOf, List.map_cons]
      exact ofDigits_cons_foldl _ _
    · simp [hd] at h

theorem expPartValue_digit {c : Char} (t : List Char) (hd : isDigit c = true) :
    expPartValue (c :: t) = ((ofDigits (digitsOf (c :: t)) : Nat) : Int) := by
  have h1 : c ≠ '-' := by
    intro e; subst e; revert hd; decide
  have h2 : c ≠ '+' := by
    intro e; subst e; revert hd; decide
  unfold expPartValue
  split
  · next heq => cases heq; exact absurd rfl h1
  · next heq => cases heq; exact absurd rfl h2
  · rfl

theorem exp_spec {cs : List Char} {acc acc' : Acc}
    (h : go .exp acc cs = .ok (acc', [])) (hneg : acc.expNeg = false) :
    acc'.digits = acc.digits ∧ acc'.implicitExp = acc.implicitExp ∧
    ∀ E : Nat, acc'.explicitExp = some E →
      expPartValue (F cs) = (if acc'.expNeg then -(E : Int) else (E : Int)) := by
  cases cs with
  | nil => simp [go, atEnd] at h
  | cons c rest =>
    simp only [go, next] at h
    by_cases hp : (c == '+') = true
    · simp only [hp, if_true] at h
      have hc : c = '+' := by simpa using hp
      subst hc
      obtain ⟨h1, h2, h3, ⟨d, t, hF, hd⟩, h5⟩ := expSign_spec h
      refine ⟨h1, h2, ?_⟩
      intro E hE
      rw [F_cons_ne rest (by decide), h3, hneg]
      simp only [expPartValue, Bool.false_eq_true, if_false]
      rw [h5 E hE]
    · by_cases hm : (c == '-') = true
      · simp only [hp, hm, if_true] at h
        simp only [Bool.false_eq_true, if_false] at h
        have hc : c = '-' := by simpa using hm
        subst hc
        obtain ⟨h1, h2, h3, ⟨d, t, hF, hd⟩, h5⟩ := expSign_spec h
        refine ⟨h1, h2, ?_⟩
        intro E hE
        rw [F_cons_ne rest (by decide), h3]
        simp only [expPartValue, if_true]
        rw [h5 E hE]
      · by_cases hd : isDigit c = true
        · simp only [hp, hm, hd, if_true] at h
          simp only [Bool.false_eq_true, if_false] at h
          obtain ⟨h1, h2, h3, h4⟩ := expDigits_spec rest false _ acc' h
          have hF := F_cons_ne rest (isDigit_ne hd (by decide))
          refine ⟨h1, h2, ?_⟩
          intro E hE
          rw [h4] at hE
          obtain ⟨a, ha, hEa⟩ := checkedMulAdd_foldl _ _ _ hE
          cases ha
          rw [hF, expPartValue_digit _ hd, h3]
          simp only [hneg, Bool.false_eq_true, if_false]
          rw [hEa]
          simp only [digitsOf, List.map_cons]
          rw [ofDigits_cons_foldl]
        · simp [hp, hm, hd] at h

/-- the `e` of `plainValue` -/
def expOf (ep : Option (List Char)) : Int :=
  match ep with
  | none => 0
  | some ep => expPartValue ep

theorem isE_not_us {c : Char} (h : isE c = true) : (c == '_') = false := by
  cases hcd : c == '_' with
  | false => rfl
  | true =>
    have : c = '_' := by simpa using hcd
    subst this; revert h; decide

/-- what the fraction states establish about the underscore-free rest `t` of the text -/
def FracPost (acc acc' : Acc) (t : List Char) : Prop :=
  acc'.digits = acc.digits ++ digitsOf (splitAtFirst isE t).1 ∧
  acc'.implicitExp = acc.implicitExp - ((splitAtFirst isE t).1.length : Int) ∧
  ∀ E : Nat, acc'.explicitExp = some E →
    expOf (splitAtFirst isE t).2 = (if acc'.expNeg then -(E : Int) else (E : Int))

theorem fracPost_digit {c : Char} {t : List Char} {acc acc' : Acc} (hd : isDigit c = true)
    (h : FracPost { acc with digits := acc.digits ++ [digitVal c],
                             implicitExp := acc.implicitExp - 1 } acc' t) :
    FracPost acc acc' (c :: t) := by
  obtain ⟨h1, h2, h3⟩ := h
  unfold FracPost
  rw [splitAtFirst_cons_false t (isDigit_not_isE hd)]
  refine ⟨?_, ?_, h3⟩
  · rw [h1]; simp [digitsOf]
  · rw [h2]; simp only [List.length_cons]; omega

theorem fracPost_exp {c : Char} {rest : List Char} {acc acc' : Acc} (he : isE c = true)
    (h : go .exp acc rest = .ok (acc', [])) (hneg : acc.expNeg = false) :
    FracPost acc acc' (c :: F rest) := by
  obtain ⟨h1, h2, h3⟩ := exp_spec h hneg
  unfold FracPost
  rw [splitAtFirst_cons_true _ he]
  refine ⟨?_, ?_, ?_⟩
  · rw [h1]; simp [digitsOf]
  · rw [h2]; simp
  · intro E hE; exact h3 E hE

theorem fracDigits_spec (cs : List Char) : ∀ (us : Bool) (acc acc' : Acc),
    go (.fracDigits us) acc cs = .ok (acc', []) → acc.expNeg = false →
    acc.explicitExp = some 0 → FracPost acc acc' (F cs) := by
  induction cs with
  | nil =>
    intro us acc acc' h hneg hexp
    simp only [go, atEnd] at h
    split at h
    · cases h
    · cases h
      refine ⟨by simp [F, splitAtFirst, digitsOf], by simp [F, splitAtFirst], ?_⟩
      intro E hE
      rw [hexp] at hE; cases hE
      simp [F, splitAtFirst, expOf, hneg]
  | cons c cs ih =>
    intro us acc acc' h hneg hexp
    simp only [go, next] at h
    by_cases hd : isDigit c = true
    · simp only [hd, if_true] at h
      rw [F_cons_ne cs (isDigit_ne hd (by decide))]
      exact fracPost_digit hd (ih false _ acc' h hneg hexp)
    · have hd' : isDigit c = false := by simpa using hd
      by_cases hc : c = '_'
      · subst hc
        cases us with
        | true => simp [hd'] at h
        | false =>
          simp [hd'] at h
          rw [F_cons_us]
          exact ih true acc acc' h hneg hexp
      · have hc' : (c == '_') = false := by simpa using hc
        cases us with
        | true => simp [hd', hc'] at h
        | false =>
          by_cases he : (c == 'e' || c == 'E') = true
          · simp only [hd', hc', he, if_true] at h
            simp only [Bool.false_eq_true, Bool.not_false, Bool.and_false, if_false] at h
            have he' : isE c = true := he
            rw [F_cons_ne cs hc']
            exact fracPost_exp he' h hneg
          · have he' : (c == 'e' || c == 'E') = false := by simpa using he
            simp only [hd', hc', he'] at h
            simp at h

theorem dot_spec {cs : List Char} {acc acc' : Acc}
    (h : go .dot acc cs = .ok (acc', [])) (hneg : acc.expNeg = false)
    (hexp : acc.explicitExp = some 0) : FracPost acc acc' (F cs) := by
  cases cs with
  | nil => simp [go, atEnd] at h
  | cons c rest =>
    simp only [go, next] at h
    by_cases hd : isDigit c = true
    · simp only [hd, if_true] at h
      rw [F_cons_ne rest (isDigit_ne hd (by decide))]
      exact fracPost_digit hd (fracDigits_spec rest false _ acc' h hneg hexp)
    · simp [hd] at h

end Rsj.Dec
