/-
  Helper lemmas for C17 (part 2): `uniq`, `set`, and the law-free facts about
  `quick` / `sortSlice` (permutation, hence length) that `set = uniq ∘ sort` needs.
-/
import RsjProofs.Sort
namespace Rsj.Sort

variable {α κ : Type} {O : KeyOrd κ} {key : α → κ}

/-! ### `quick` / `sortSlice` return permutations (no order laws needed) -/

theorem quick_perm : ∀ (fuel : Nat) (l r : List α), quick O key fuel l = .ok r → r.Perm l := by
  intro fuel
  induction fuel with
  | zero => intro l r hq; simp [quick] at hq
  | succ fuel ih =>
    intro l r hq
    match l with
    | [] => simp [quick] at hq
    | [_] => simp [quick] at hq
    | pivot :: y :: rest' =>
      simp only [quick] at hq
      generalize y :: rest' = rest at hq ⊢
      have hopt : ∀ (l' r' : List α),
          (if l'.length > 1 then quick O key fuel l' else .ok l') = .ok r' → r'.Perm l' := by
        intro l' r' hh
        split at hh
        · exact ih _ _ hh
        · cases hh; exact .refl _
      split at hq
      · cases hq
      · next lt' e1 =>
        split at hq
        · cases hq
        · next ge' e2 =>
          cases hq
          have p1 := hopt _ _ e1
          have p2 := hopt _ _ e2
          have : (lt' ++ pivot :: ge').Perm (pivot :: (lt' ++ ge')) := List.perm_middle
          refine this.trans (List.Perm.cons _ ?_)
          exact (List.Perm.append p1 p2).trans (List.filter_append_perm _ _)

theorem sortSlice_perm {thr : Nat} : ∀ (fuel : Nat) (l r : List α),
    sortSlice O key thr fuel l = .ok r → r.Perm l := by
  intro fuel
  induction fuel with
  | zero => intro l r hq; simp [sortSlice] at hq
  | succ fuel ih =>
    intro l r hq
    simp only [sortSlice] at hq
    split at hq
    · split at hq
      · cases hq
      · next left e1 =>
        split at hq
        · cases hq
        · next right e2 =>
          cases hq
          refine (List.merge_perm_append _).trans ?_
          have := List.Perm.append (ih _ _ e1) (ih _ _ e2)
          rwa [List.take_append_drop] at this
    · split at hq
      · exact quick_perm _ _ _ hq
      · cases hq; exact .refl _

theorem sort_perm' {thr : Nat} {l r : List α} (hs : sort O key thr l = .ok r) : r.Perm l := by
  unfold sort at hs
  split at hs
  · cases hs; exact .refl _
  · exact sortSlice_perm _ _ _ hs

/-! ### std.uniq -/

/-- The pairs (predecessor, element) whose keys differ. -/
def keepPair (O : KeyOrd κ) (key : α → κ) (pc : α × α) : Bool := !O.eqv (key pc.1) (key pc.2)

theorem uniqLoop_zip : ∀ (l : List α) (p : α),
    uniqLoop O key (key p) l = (((p :: l).zip l).filter (keepPair O key)).map Prod.snd := by
  intro l
  induction l with
  | nil => intro p; rfl
  | cons c l ih =>
    intro p
    simp only [uniqLoop, List.zip_cons_cons, List.filter_cons, keepPair]
    by_cases hc : O.eqv (key p) (key c) = true
    · simp only [hc, ↓reduceIte, Bool.not_true, Bool.false_eq_true, ih c]
    · have hc' : O.eqv (key p) (key c) = false := by simpa using hc
      simp only [hc', Bool.false_eq_true, ↓reduceIte, Bool.not_false, List.map_cons, ih c]

/-- `std.uniq` keeps the first element and exactly those elements whose key differs
    (under `EqualsValue`) from the key of their predecessor in the input. -/
theorem uniq_zip (arr : List α) :
    uniq O key arr =
      match arr with
      | [] => []
      | x :: rest => x :: ((arr.zip rest).filter (keepPair O key)).map Prod.snd := by
  match arr with
  | [] => rfl
  | [x] => rfl
  | x :: y :: rest => simp only [uniq, uniqLoop_zip]

theorem uniq_of_length_le_one {arr : List α} (hl : arr.length ≤ 1) : uniq O key arr = arr := by
  match arr, hl with
  | [], _ => rfl
  | [_], _ => rfl

theorem uniq_cons (x : α) (rest : List α) :
    uniq O key (x :: rest) = x :: uniqLoop O key (key x) rest := by
  cases rest <;> rfl

theorem uniqLoop_sublist : ∀ (l : List α) (k : κ), (uniqLoop O key k l).Sublist l := by
  intro l
  induction l with
  | nil => intro k; exact .slnil
  | cons c l ih =>
    intro k
    simp only [uniqLoop]
    split
    · exact (ih _).cons _
    · exact (ih _).cons_cons _

theorem uniq_sublist (arr : List α) : (uniq O key arr).Sublist arr := by
  cases arr with
  | nil => exact .slnil
  | cons x rest => rw [uniq_cons]; exact (uniqLoop_sublist _ _).cons_cons _

/-- Sorted input ⇒ strictly sorted output. -/
theorem uniqLoop_strict (h : Lawful O) : ∀ (l : List α) (k : κ),
    l.Pairwise (fun x y => O.cmp (key x) (key y) ≠ .gt) →
    (∀ x ∈ l, O.cmp k (key x) ≠ .gt) →
    (uniqLoop O key k l).Pairwise (fun x y => O.cmp (key x) (key y) = .lt) ∧
      ∀ x ∈ uniqLoop O key k l, O.cmp k (key x) = .lt := by
  intro l
  induction l with
  | nil => intro k _ _; exact ⟨.nil, fun x hx => by cases hx⟩
  | cons c l ih =>
    intro k hs hk
    obtain ⟨hc, hs'⟩ := List.pairwise_cons.mp hs
    obtain ⟨pw, hall⟩ := ih (key c) hs' hc
    simp only [uniqLoop]
    by_cases he : O.eqv k (key c) = true
    · rw [if_pos he]
      have hkc := (h.eqv_iff _ _).mp he
      exact ⟨pw, fun x hx => h.lt_of_eq_of_lt hkc (hall x hx)⟩
    · rw [if_neg he]
      have hkc : O.cmp k (key c) = .lt := by
        have h1 := hk c List.mem_cons_self
        have h2 : O.cmp k (key c) ≠ .eq := fun e => he ((h.eqv_iff _ _).mpr e)
        cases hc' : O.cmp k (key c) <;> simp_all
      refine ⟨List.pairwise_cons.mpr ⟨hall, pw⟩, ?_⟩
      intro x hx
      rcases List.mem_cons.mp hx with rfl | hx
      · exact hkc
      · exact h.lt_trans hkc (hall x hx)

theorem uniq_strict (h : Lawful O) (arr : List α)
    (hs : arr.Pairwise (fun x y => O.cmp (key x) (key y) ≠ .gt)) :
    (uniq O key arr).Pairwise (fun x y => O.cmp (key x) (key y) = .lt) := by
  cases arr with
  | nil => exact .nil
  | cons x rest =>
    rw [uniq_cons]
    obtain ⟨hx, hs'⟩ := List.pairwise_cons.mp hs
    obtain ⟨pw, hall⟩ := uniqLoop_strict h rest (key x) hs' hx
    exact List.pairwise_cons.mpr ⟨hall, pw⟩

/-- Every input element is represented in the output by an element with an equal key
    that is the element itself or stands before it (for any relation `R` the input is
    pairwise related by). -/
theorem uniqLoop_cover (h : Lawful O) {R : α → α → Prop} : ∀ (l : List α) (k : κ),
    l.Pairwise R → ∀ x ∈ l, O.cmp k (key x) = .eq ∨
      ∃ y ∈ uniqLoop O key k l, O.cmp (key y) (key x) = .eq ∧ (y = x ∨ R y x) := by
  intro l
  induction l with
  | nil => intro k _ x hx; cases hx
  | cons c l ih =>
    intro k hs x hx
    obtain ⟨hc, hs'⟩ := List.pairwise_cons.mp hs
    simp only [uniqLoop]
    by_cases he : O.eqv k (key c) = true
    · rw [if_pos he]
      have hkc := (h.eqv_iff _ _).mp he
      rcases List.mem_cons.mp hx with rfl | hx
      · exact .inl hkc
      · rcases ih (key c) hs' x hx with e | ⟨y, hy, e, r⟩
        · exact .inl (h.eq_trans hkc e)
        · exact .inr ⟨y, hy, e, r⟩
    · rw [if_neg he]
      rcases List.mem_cons.mp hx with rfl | hx
      · exact .inr ⟨x, List.mem_cons_self, h.cmp_self _, .inl rfl⟩
      · rcases ih (key c) hs' x hx with e | ⟨y, hy, e, r⟩
        · exact .inr ⟨c, List.mem_cons_self, e, .inr (hc x hx)⟩
        · exact .inr ⟨y, List.mem_cons_of_mem _ hy, e, r⟩

theorem uniq_cover (h : Lawful O) {R : α → α → Prop} (arr : List α) (hs : arr.Pairwise R) :
    ∀ x ∈ arr, ∃ y ∈ uniq O key arr, O.cmp (key y) (key x) = .eq ∧ (y = x ∨ R y x) := by
  cases arr with
  | nil => intro x hx; cases hx
  | cons a rest =>
    intro x hx
    rw [uniq_cons]
    obtain ⟨ha, hs'⟩ := List.pairwise_cons.mp hs
    rcases List.mem_cons.mp hx with rfl | hx
    · exact ⟨x, List.mem_cons_self, h.cmp_self _, .inl rfl⟩
    · rcases uniqLoop_cover h rest (key a) hs' x hx with e | ⟨y, hy, e, r⟩
      · exact ⟨a, List.mem_cons_self, e, .inr (ha x hx)⟩
      · exact ⟨y, List.mem_cons_of_mem _ hy, e, r⟩

/-! ### the other reading of "adjacent duplicates": compare with the last *kept* element -/

/-- Keeps an element iff its key differs from the key of the last kept element. -/
def uniqKept (O : KeyOrd κ) (key : α → κ) (lastKept : κ) : List α → List α
  | [] => []
  | item :: rest =>
    if O.eqv lastKept (key item) then uniqKept O key lastKept rest
    else item :: uniqKept O key (key item) rest

theorem uniqLoop_congr (h : Lawful O) {k k' : κ} (e : O.cmp k k' = .eq) (l : List α) :
    uniqLoop O key k l = uniqLoop O key k' l := by
  cases l with
  | nil => rfl
  | cons c l =>
    have : O.eqv k (key c) = O.eqv k' (key c) := by
      rw [Bool.eq_iff_iff, h.eqv_iff, h.eqv_iff]
      exact ⟨fun e1 => h.eq_trans (h.eq_symm e) e1, fun e1 => h.eq_trans e e1⟩
    simp only [uniqLoop, this]

theorem uniqLoop_eq_kept (h : Lawful O) : ∀ (l : List α) (k : κ),
    uniqLoop O key k l = uniqKept O key k l := by
  intro l
  induction l with
  | nil => intro k; rfl
  | cons c l ih =>
    intro k
    simp only [uniqLoop, uniqKept]
    split
    · next he =>
      rw [← ih k]
      exact uniqLoop_congr h (h.eq_symm ((h.eqv_iff _ _).mp he)) l
    · rw [ih]

theorem uniq_eq_kept (h : Lawful O) (arr : List α) :
    uniq O key arr =
      match arr with
      | [] => []
      | x :: rest => x :: uniqKept O key (key x) rest := by
  cases arr with
  | nil => rfl
  | cons x rest => rw [uniq_cons, uniqLoop_eq_kept h]

/-! ### std.set = std.uniq ∘ std.sort -/

theorem setUniqLoop_eq (sorted : List α) : ∀ (todo index : Nat) (acc : List α) (p : α),
    index + todo = sorted.length → 1 ≤ index → sorted[index - 1]? = some p →
    setUniqLoop O key sorted todo index acc =
      .ok (acc ++ uniqLoop O key (key p) (sorted.drop index)) := by
  intro todo
  induction todo with
  | zero =>
    intro index acc p hlen _ _
    simp only [setUniqLoop]
    rw [List.drop_of_length_le (by omega)]
    simp [uniqLoop]
  | succ todo ih =>
    intro index acc p hlen h1 hp
    have hi : index < sorted.length := by omega
    simp only [setUniqLoop, hp, List.getElem?_eq_getElem hi]
    rw [ih (index + 1) _ sorted[index] (by omega) (by omega)
      (by simp [List.getElem?_eq_getElem hi])]
    rw [List.drop_eq_getElem_cons hi]
    simp only [uniqLoop]
    split <;> simp

theorem set_def (thr : Nat) (arr : List α) :
    set O key thr arr = (sort O key thr arr).map (uniq O key) := by
  unfold set sort
  by_cases h1 : arr.length ≤ 1
  · simp only [if_pos h1, Except.map, uniq_of_length_le_one h1]
  · simp only [if_neg h1]
    cases hs : sortSlice O key thr (arr.length + 1) arr with
    | error e => rfl
    | ok sorted =>
      have hlen : sorted.length = arr.length := (sortSlice_perm _ _ _ hs).length_eq
      simp only [Except.map]
      match sorted, hlen with
      | first :: rest, hlen =>
        simp only [List.length_cons] at hlen
        simp only [List.getElem?_cons_zero]
        rw [setUniqLoop_eq (first :: rest) (arr.length - 1) 1 [first] first
          (by simp only [List.length_cons]; omega) (by omega) (by simp)]
        rw [uniq_cons]
        simp
      | [], hlen => simp only [List.length_nil] at hlen; omega

end Rsj.Sort
