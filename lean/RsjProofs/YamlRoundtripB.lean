/-
  YAML round trip, part B: the block reader (`readBlock` / `readSeq` / `readEntry` /
  `readMap` / `readField`) on the lines written by the emitter, by mutual
  structural induction over the value; fuel needs.
-/
import RsjProofs.YamlRoundtripS
namespace Rsj.Yaml
open Rsj.Json

/-! ### fuel needs (additive upper bounds of the recursion depth) -/

mutual
def needE : JVal → Nat
  | .arr xs => 2 + needS xs
  | .obj fs => 2 + needM fs
  | _ => 1
def needS : List JVal → Nat
  | [] => 1
  | x :: xs => 1 + needE x + needS xs
def needM : List (Str × JVal) → Nat
  | [] => 1
  | (_, x) :: fs => 1 + needE x + needM fs
end

theorem needE_pos (v : JVal) : 1 ≤ needE v := by
  cases v <;> simp [needE] <;> omega

theorem needS_pos (xs : List JVal) : 1 ≤ needS xs := by
  cases xs <;> simp [needS] <;> omega

theorem needM_pos (fs : List (Str × JVal)) : 1 ≤ needM fs := by
  cases fs with
  | nil => simp [needM]
  | cons p fs => obtain ⟨k, x⟩ := p; simp [needM]; omega

/-! ### what may follow a collection / an entry -/

/-- after a block sequence at indentation `i` -/
def StopSeq (i : Nat) : List Str → Prop
  | [] => True
  | l :: _ => dropSp l = [] ∨ countSp l < i ∨ (countSp l = i ∧ isSeqLine (dropSp l) = false)

/-- after a block mapping at indentation `i` -/
def StopMap (i : Nat) : List Str → Prop
  | [] => True
  | l :: _ => dropSp l = [] ∨ countSp l < i

/-- after an entry of a sequence at indentation `i` -/
def TailE (i : Nat) : List Str → Prop
  | [] => True
  | l :: _ => dropSp l = [] ∨ countSp l ≤ i

/-- the lines after a node: nothing, or a line that is not blank, or exactly one
    empty line (the text ends with a line break) -/
def RestOK : List Str → Prop
  | [] => True
  | l :: ls => dropSp l ≠ [] ∨ (l = [] ∧ ls = [])

theorem readSeq_stop {f i : Nat} {rest : List Str} (hf : 1 ≤ f) (h : StopSeq i rest) :
    readSeq f i rest = some ([], rest) := by
  obtain ⟨f', rfl⟩ : ∃ f', f = f' + 1 := ⟨f - 1, by omega⟩
  cases rest with
  | nil => rw [readSeq]
  | cons l ls =>
    rw [readSeq, if_neg]
    rintro ⟨h1, h2⟩
    simp only [StopSeq] at h
    rcases h with h | h | h
    · rw [h] at h2; simp [isSeqLine] at h2
    · omega
    · rw [h.2] at h2; cases h2

theorem readMap_stop {f i : Nat} {rest : List Str} (hf : 1 ≤ f) (h : StopMap i rest) :
    readMap f i rest = some ([], rest) := by
  obtain ⟨f', rfl⟩ : ∃ f', f = f' + 1 := ⟨f - 1, by omega⟩
  cases rest with
  | nil => rw [readMap]
  | cons l ls =>
    rw [readMap]
    split
    · rfl
    · next hnb =>
      rw [if_neg]
      intro h1
      simp only [StopMap] at h
      rcases h with h | h
      · exact hnb h
      · omega

theorem StopSeq.tailE {i : Nat} {rest : List Str} (h : StopSeq i rest) : TailE i rest := by
  cases rest with
  | nil => trivial
  | cons l ls =>
    simp only [StopSeq] at h
    simp only [TailE]
    rcases h with h | h | h
    · exact Or.inl h
    · exact Or.inr (by omega)
    · exact Or.inr (by omega)

theorem StopMap.stopSeq {i : Nat} {rest : List Str} (h : StopMap i rest) : StopSeq i rest := by
  cases rest with
  | nil => trivial
  | cons l ls =>
    simp only [StopMap] at h
    simp only [StopSeq]
    rcases h with h | h
    · exact Or.inl h
    · exact Or.inr (Or.inl h)

theorem TailE.stopSeq {i j : Nat} {rest : List Str} (h : TailE i rest) (hij : i < j) : StopSeq j rest := by
  cases rest with
  | nil => trivial
  | cons l ls =>
    simp only [TailE] at h
    simp only [StopSeq]
    rcases h with h | h
    · exact Or.inl h
    · exact Or.inr (Or.inl (by omega))

theorem TailE.stopMap {i j : Nat} {rest : List Str} (h : TailE i rest) (hij : i < j) : StopMap j rest := by
  cases rest with
  | nil => trivial
  | cons l ls =>
    simp only [TailE] at h
    simp only [StopMap]
    rcases h with h | h
    · exact Or.inl h
    · exact Or.inr (by omega)

theorem StopSeq.mono {i j : Nat} {rest : List Str} (h : StopSeq i rest) (hij : i < j) : StopSeq j rest :=
  h.tailE.stopSeq hij

theorem StopSeq.stopMap {i j : Nat} {rest : List Str} (h : StopSeq i rest) (hij : i < j) : StopMap j rest :=
  h.tailE.stopMap hij

/-- what follows a `|` scalar with content indentation `m` -/
theorem blockRest {i m : Nat} {R : List Str} (ht : TailE i R) (hr : RestOK R) (hne : R ≠ []) (him : i < m) :
    R = [[]] ∨ ∃ l ls, R = l :: ls ∧ dropSp l ≠ [] ∧ countSp l < m := by
  cases R with
  | nil => exact absurd rfl hne
  | cons l ls =>
    simp only [RestOK] at hr
    simp only [TailE] at ht
    rcases hr with hnb | ⟨rfl, rfl⟩
    · rcases ht with h | h
      · exact absurd h hnb
      · exact Or.inr ⟨l, ls, rfl, hnb, by omega⟩
    · exact Or.inl rfl

/-! ### indentation of a line that starts with a non-space -/

theorem countSp_line {r : Str} (d : Nat) (h : ∃ c t, r = c :: t ∧ c ≠ 32) :
    countSp (rep d indent ++ r) = 2 * d := by
  obtain ⟨c, t, rfl, hc⟩ := h
  exact countSp_ind d c t hc

theorem dropSp_line {r : Str} (d : Nat) (h : ∃ c t, r = c :: t ∧ c ≠ 32) :
    dropSp (rep d indent ++ r) = r := by
  obtain ⟨c, t, rfl, hc⟩ := h
  exact dropSp_ind d c t hc

theorem keyline_ne_nil (qk : Bool) (k s : Str) : yamlKey qk k ++ 58 :: s ≠ [] := by
  obtain ⟨c, t, h, _⟩ := keyline_head qk k s
  rw [h]; simp

theorem dash_head (s : Str) : ∃ c t, 45 :: s = c :: t ∧ c ≠ 32 := ⟨45, s, rfl, by decide⟩

/-! ### the goals of the mutual induction

  `rest ≠ [] ∨ NoBlock …`: a `|` scalar must be followed by a line (a text that ends
  with a line break has an empty last line); the lines returned are `rest`, or `[]`
  when `rest` was that empty last line and a `|` scalar took it (`Rel`). -/

def SeqGoal (iaio qk : Bool) (xs : List JVal) : Prop :=
  ∀ (d f : Nat) (rest : List Str), ItemsOK xs → BlockOKL xs → KeysOKL qk xs → needS xs ≤ f →
    StopSeq (2 * d) rest → RestOK rest → (rest ≠ [] ∨ NoBlockL xs) →
    ∃ R', readSeq f (2 * d) (seqL iaio qk d xs ++ rest) = some (xs, R') ∧ Rel rest R'

def MapGoal (iaio qk : Bool) (fs : List (Str × JVal)) : Prop :=
  ∀ (d f : Nat) (rest : List Str), FieldsOK fs → (keysOf fs).Nodup → BlockOKF fs → KeysOKF qk fs →
    needM fs ≤ f → StopMap (2 * d) rest → RestOK rest → (rest ≠ [] ∨ NoBlockF fs) →
    ∃ R', readMap f (2 * d) (fieldsL iaio qk d (rep d indent) fs ++ rest) = some (fs, R') ∧ Rel rest R'

def EntryGoal (iaio qk : Bool) (x : JVal) : Prop :=
  ∀ (d f : Nat) (rest : List Str) (s : Str) (more : List Str), ValOK x → BlockOK x → KeysOK qk x →
    needE x ≤ f → TailE (2 * d) rest → RestOK rest → (rest ≠ [] ∨ NoBlock x) →
    valL iaio qk (d + 1) true false x = s :: more →
    ∃ R', readEntry f (2 * d) s (more ++ rest) = some (x, R') ∧ Rel rest R'

def FieldGoal (iaio qk : Bool) (x : JVal) : Prop :=
  ∀ (d f : Nat) (rest : List Str) (s : Str) (more : List Str), ValOK x → BlockOK x → KeysOK qk x →
    needE x ≤ f → StopSeq (2 * d) rest → RestOK rest → (rest ≠ [] ∨ NoBlock x) →
    valL iaio qk (d + 1) false true x = s :: more →
    ∃ R', readField f (2 * d) s (more ++ rest) = some (x, R') ∧ Rel rest R'

def ValGoal (iaio qk : Bool) (x : JVal) : Prop := EntryGoal iaio qk x ∧ FieldGoal iaio qk x

/-! ### a block collection read by `readBlock` -/

theorem readBlock_seq {iaio qk : Bool} {y : JVal} {ys : List JVal} (hS : SeqGoal iaio qk (y :: ys))
    (d f sm mm : Nat) (rest : List Str) (hok : ItemsOK (y :: ys)) (hnb : BlockOKL (y :: ys))
    (hko : KeysOKL qk (y :: ys)) (hf : 1 + needS (y :: ys) ≤ f) (hsm : sm ≤ 2 * d)
    (hstop : StopSeq (2 * d) rest) (hr : RestOK rest) (hne : rest ≠ [] ∨ NoBlockL (y :: ys)) :
    ∃ R', readBlock f sm mm (seqL iaio qk d (y :: ys) ++ rest) = some (.arr (y :: ys), R') ∧ Rel rest R' := by
  obtain ⟨f', rfl⟩ : ∃ f', f = f' + 1 := ⟨f - 1, by omega⟩
  obtain ⟨s, more, hv⟩ := valL_ne_nil iaio qk (d + 1) true false y
  have had := itemHead hv
  obtain ⟨R', this, hrel⟩ := hS d f' rest hok hnb hko (by omega) hstop hr hne
  refine ⟨R', ?_, hrel⟩
  rw [seqL_cons ys hv, List.cons_append] at this ⊢
  rw [readBlock, dropSp_line d (dash_head s), if_neg (by simp), isSeqLine_dash had]
  simp only [if_true]
  rw [countSp_line d (dash_head s), if_pos hsm, this]

theorem readBlock_map {iaio qk : Bool} {k : Str} {y : JVal} {fs : List (Str × JVal)}
    (hM : MapGoal iaio qk ((k, y) :: fs))
    (d f sm mm : Nat) (rest : List Str) (hok : FieldsOK ((k, y) :: fs)) (hnd : (keysOf ((k, y) :: fs)).Nodup)
    (hnb : BlockOKF ((k, y) :: fs)) (hko : KeysOKF qk ((k, y) :: fs)) (hf : 1 + needM ((k, y) :: fs) ≤ f)
    (hmm : mm ≤ 2 * d) (hstop : StopMap (2 * d) rest) (hr : RestOK rest)
    (hne : rest ≠ [] ∨ NoBlockF ((k, y) :: fs)) :
    ∃ R', readBlock f sm mm (fieldsL iaio qk d (rep d indent) ((k, y) :: fs) ++ rest)
      = some (.obj ((k, y) :: fs), R') ∧ Rel rest R' := by
  obtain ⟨f', rfl⟩ : ∃ f', f = f' + 1 := ⟨f - 1, by omega⟩
  obtain ⟨s, more, hv⟩ := valL_ne_nil iaio qk (d + 1) false true y
  have hkey : KeyOK qk k := by rw [KeysOKF] at hko; exact hko.1
  obtain ⟨R', this, hrel⟩ := hM d f' rest hok hnd hnb hko (by omega) hstop hr hne
  refine ⟨R', ?_, hrel⟩
  rw [fieldsL_cons _ fs hv, List.cons_append] at this ⊢
  rw [readBlock, dropSp_line d (keyline_head qk k s), if_neg (keyline_ne_nil qk k s), isSeqLine_keyline hkey]
  simp only [Bool.false_eq_true, if_false]
  rw [countSp_line d (keyline_head qk k s), if_pos hmm, this]

/-! ### step lemmas -/

theorem tailE_seqL (iaio qk : Bool) (d : Nat) (xs : List JVal) (rest : List Str)
    (h : StopSeq (2 * d) rest) : TailE (2 * d) (seqL iaio qk d xs ++ rest) := by
  cases xs with
  | nil => rw [seqL, List.nil_append]; exact h.tailE
  | cons x xs =>
    obtain ⟨s, more, hv⟩ := valL_ne_nil iaio qk (d + 1) true false x
    rw [seqL_cons xs hv, List.cons_append]
    simp only [TailE]
    rw [countSp_line d (dash_head s)]
    exact Or.inr (Nat.le_refl _)

theorem restOK_seqL (iaio qk : Bool) (d : Nat) (xs : List JVal) (rest : List Str)
    (h : RestOK rest) : RestOK (seqL iaio qk d xs ++ rest) := by
  cases xs with
  | nil => rw [seqL, List.nil_append]; exact h
  | cons x xs =>
    obtain ⟨s, more, hv⟩ := valL_ne_nil iaio qk (d + 1) true false x
    rw [seqL_cons xs hv, List.cons_append]
    simp only [RestOK]
    rw [dropSp_line d (dash_head s)]
    exact Or.inl (by simp)

/-- the lines after an item are the final empty line only if it is the last item -/
theorem seqL_blank {iaio qk : Bool} {d : Nat} {xs : List JVal} {rest : List Str}
    (h : seqL iaio qk d xs ++ rest = [[]]) : xs = [] ∧ rest = [[]] := by
  cases xs with
  | nil => rw [seqL, List.nil_append] at h; exact ⟨rfl, h⟩
  | cons x xs =>
    obtain ⟨s, more, hv⟩ := valL_ne_nil iaio qk (d + 1) true false x
    rw [seqL_cons xs hv, List.cons_append] at h
    injection h with h1 _
    simp at h1

theorem stopSeq_fieldsL (iaio qk : Bool) (d : Nat) (fs : List (Str × JVal)) (rest : List Str)
    (hko : KeysOKF qk fs) (h : StopMap (2 * d) rest) :
    StopSeq (2 * d) (fieldsL iaio qk d (rep d indent) fs ++ rest) := by
  cases fs with
  | nil => rw [fieldsL, List.nil_append]; exact h.stopSeq
  | cons p fs =>
    obtain ⟨k, x⟩ := p
    rw [KeysOKF] at hko
    obtain ⟨s, more, hv⟩ := valL_ne_nil iaio qk (d + 1) false true x
    rw [fieldsL_cons _ fs hv, List.cons_append]
    simp only [StopSeq]
    rw [countSp_line d (keyline_head qk k s), dropSp_line d (keyline_head qk k s)]
    exact Or.inr (Or.inr ⟨rfl, isSeqLine_keyline hko.1 s⟩)

theorem restOK_fieldsL (iaio qk : Bool) (d : Nat) (fs : List (Str × JVal)) (rest : List Str)
    (h : RestOK rest) : RestOK (fieldsL iaio qk d (rep d indent) fs ++ rest) := by
  cases fs with
  | nil => rw [fieldsL, List.nil_append]; exact h
  | cons p fs =>
    obtain ⟨k, x⟩ := p
    obtain ⟨s, more, hv⟩ := valL_ne_nil iaio qk (d + 1) false true x
    rw [fieldsL_cons _ fs hv, List.cons_append]
    simp only [RestOK]
    rw [dropSp_line d (keyline_head qk k s)]
    exact Or.inl (keyline_ne_nil qk k s)

theorem fieldsL_blank {iaio qk : Bool} {d : Nat} {fs : List (Str × JVal)} {rest : List Str}
    (h : fieldsL iaio qk d (rep d indent) fs ++ rest = [[]]) : fs = [] ∧ rest = [[]] := by
  cases fs with
  | nil => rw [fieldsL, List.nil_append] at h; exact ⟨rfl, h⟩
  | cons p fs =>
    obtain ⟨k, x⟩ := p
    obtain ⟨s, more, hv⟩ := valL_ne_nil iaio qk (d + 1) false true x
    rw [fieldsL_cons _ fs hv, List.cons_append] at h
    injection h with h1 _
    simp at h1

theorem ne_nil_append_right {α : Type} {A B : List α} (h : B ≠ []) : A ++ B ≠ [] := by
  intro e; exact h (List.append_eq_nil_iff.mp e).2

theorem seq_step {iaio qk : Bool} (x : JVal) (xs : List JVal)
    (hx : ValGoal iaio qk x) (hxs : SeqGoal iaio qk xs) : SeqGoal iaio qk (x :: xs) := by
  intro d f rest hok hnb hko hf hstop hr hne
  rw [ItemsOK] at hok; rw [BlockOKL] at hnb; rw [KeysOKL] at hko; rw [needS] at hf
  have hne1 : seqL iaio qk d xs ++ rest ≠ [] ∨ NoBlock x :=
    hne.imp ne_nil_append_right (fun h => by rw [NoBlockL] at h; exact h.1)
  have hne2 : rest ≠ [] ∨ NoBlockL xs := hne.imp id (fun h => by rw [NoBlockL] at h; exact h.2)
  obtain ⟨f', rfl⟩ : ∃ f', f = f' + 1 := ⟨f - 1, by omega⟩
  obtain ⟨s, more, hv⟩ := valL_ne_nil iaio qk (d + 1) true false x
  have had := itemHead hv
  rw [seqL_cons xs hv, List.cons_append, readSeq, countSp_line d (dash_head s), dropSp_line d (dash_head s),
    if_pos ⟨rfl, isSeqLine_dash had⟩]
  have e : (45 :: s).drop 1 = s := rfl
  obtain ⟨R1, h1, hrel1⟩ := hx.1 d f' (seqL iaio qk d xs ++ rest) s more hok.1 hnb.1 hko.1 (by omega)
    (tailE_seqL iaio qk d xs rest hstop) (restOK_seqL iaio qk d xs rest hr) hne1 hv
  rw [e, List.append_assoc, h1]
  simp only []
  rcases hrel1 with rfl | ⟨hb, rfl⟩
  · obtain ⟨R', h2, hrel2⟩ := hxs d f' rest hok.2 hnb.2 hko.2 (by omega) hstop hr hne2
    rw [h2]
    exact ⟨R', rfl, hrel2⟩
  · obtain ⟨rfl, rfl⟩ := seqL_blank hb
    have := needS_pos ([] : List JVal)
    obtain ⟨f'', rfl⟩ : ∃ f'', f' = f'' + 1 := ⟨f' - 1, by omega⟩
    rw [readSeq]
    exact ⟨[], rfl, Or.inr ⟨rfl, rfl⟩⟩

theorem map_step {iaio qk : Bool} (k : Str) (x : JVal) (fs : List (Str × JVal))
    (hx : ValGoal iaio qk x) (hfs : MapGoal iaio qk fs) : MapGoal iaio qk ((k, x) :: fs) := by
  intro d f rest hok hnd hnb hko hf hstop hr hne
  rw [FieldsOK] at hok; rw [BlockOKF] at hnb; rw [KeysOKF] at hko; rw [needM] at hf
  have hne1 : fieldsL iaio qk d (rep d indent) fs ++ rest ≠ [] ∨ NoBlock x :=
    hne.imp ne_nil_append_right (fun h => by rw [NoBlockF] at h; exact h.1)
  have hne2 : rest ≠ [] ∨ NoBlockF fs := hne.imp id (fun h => by rw [NoBlockF] at h; exact h.2)
  obtain ⟨f', rfl⟩ : ∃ f', f = f' + 1 := ⟨f - 1, by omega⟩
  obtain ⟨s, more, hv⟩ := valL_ne_nil iaio qk (d + 1) false true x
  have hnd' : k ∉ keysOf fs ∧ (keysOf fs).Nodup := by
    simpa [keysOf] using hnd
  have hhk : hasKey k fs = false := hasKey_eq_false.mpr hnd'.1
  rw [fieldsL_cons _ fs hv, List.cons_append, readMap, countSp_line d (keyline_head qk k s),
    dropSp_line d (keyline_head qk k s), if_neg (keyline_ne_nil qk k s), if_pos rfl, readKey_yamlKey hko.1]
  simp only []
  obtain ⟨R1, h1, hrel1⟩ := hx.2 d f' (fieldsL iaio qk d (rep d indent) fs ++ rest) s more hok.1 hnb.1
    hko.2.1 (by omega) (stopSeq_fieldsL iaio qk d fs rest hko.2.2 hstop) (restOK_fieldsL iaio qk d fs rest hr)
    hne1 hv
  rw [List.append_assoc, h1]
  simp only []
  rcases hrel1 with rfl | ⟨hb, rfl⟩
  · obtain ⟨R', h2, hrel2⟩ := hfs d f' rest hok.2 hnd'.2 hnb.2 hko.2.2 (by omega) hstop hr hne2
    rw [h2]
    simp only [hhk, Bool.false_eq_true, if_false]
    exact ⟨R', rfl, hrel2⟩
  · obtain ⟨rfl, rfl⟩ := fieldsL_blank hb
    have := needM_pos ([] : List (Str × JVal))
    obtain ⟨f'', rfl⟩ : ∃ f'', f' = f'' + 1 := ⟨f' - 1, by omega⟩
    rw [readMap]
    exact ⟨[], rfl, Or.inr ⟨rfl, rfl⟩⟩

theorem seq_nil (iaio qk : Bool) : SeqGoal iaio qk [] := by
  intro d f rest _ _ _ hf hstop _ _
  rw [needS] at hf
  rw [seqL, List.nil_append]
  exact ⟨rest, readSeq_stop hf hstop, Rel.refl _⟩

theorem map_nil (iaio qk : Bool) : MapGoal iaio qk [] := by
  intro d f rest _ _ _ _ hf hstop _ _
  rw [needM] at hf
  rw [fieldsL, List.nil_append]
  exact ⟨rest, readMap_stop hf hstop, Rel.refl _⟩

theorem block_ne_nil {rest : List Str} {s body : Str} (hbody : stripSuffixNl s = some body)
    (hne : rest ≠ [] ∨ NoBlock (.str s)) : rest ≠ [] := by
  rcases hne with h | h
  · exact h
  · rw [NoBlock, hbody] at h; cases h

theorem val_goal {iaio qk : Bool} (x : JVal) (hS : ∀ l, x = .arr l → SeqGoal iaio qk l)
    (hM : ∀ l, x = .obj l → MapGoal iaio qk l) : ValGoal iaio qk x := by
  refine ⟨?_, ?_⟩
  · intro d f rest s more hv hb hk hf ht hr hne hval
    rcases val_cases x hv with ⟨t, hrs, hl⟩ | ⟨y, ys, rfl⟩ | ⟨k, y, fs, rfl⟩ | ⟨s0, body, rfl, hbody⟩
    · have := needE_pos x
      obtain ⟨f', rfl⟩ : ∃ f', f = f' + 1 := ⟨f - 1, by omega⟩
      rw [hl, lead_item] at hval
      injection hval with e1 e2
      subst e1 e2
      rw [List.nil_append]
      show ∃ R', readEntry (f' + 1) (2 * d) (32 :: t) rest = _ ∧ _
      rw [readEntry, if_neg (fun h => h rfl), hrs]
      exact ⟨rest, rfl, Rel.refl _⟩
    · rw [ValOK] at hv; rw [BlockOK] at hb; rw [KeysOK] at hk; rw [needE] at hf
      rw [NoBlock] at hne
      obtain ⟨f', rfl⟩ : ∃ f', f = f' + 1 := ⟨f - 1, by omega⟩
      rw [valL] at hval
      simp at hval
      obtain ⟨e1, e2⟩ := hval
      subst e1 e2
      rw [readEntry]
      exact readBlock_seq (hS _ rfl) (d + 1) f' (2 * d + 1) (2 * d + 1) rest hv hb hk (by omega) (by omega)
        (ht.stopSeq (by omega)) hr hne
    · rw [ValOK] at hv; rw [BlockOK] at hb; rw [KeysOK] at hk; rw [needE] at hf
      rw [NoBlock] at hne
      obtain ⟨f', rfl⟩ : ∃ f', f = f' + 1 := ⟨f - 1, by omega⟩
      obtain ⟨s', more', hy⟩ := valL_ne_nil iaio qk (d + 1 + 1) false true y
      have hkey : KeyOK qk k := by rw [KeysOKF] at hk; exact hk.1
      rw [valL] at hval
      simp only [if_true] at hval
      rw [fieldsL_cons _ fs hy] at hval
      injection hval with e1 e2
      subst e1 e2
      show ∃ R', readEntry (f' + 1) (2 * d) (32 :: (yamlKey qk k ++ 58 :: s')) _ = _ ∧ _
      rw [readEntry, if_neg (fun h => h rfl), readScalar_keyline hkey]
      simp only []
      rw [if_neg (keyline_ne_bar qk k s'), spaces_ind d]
      have := readBlock_map (hM _ rfl) (d + 1) f' (2 * d + 2) (2 * d + 2) rest hv.1 hv.2 hb hk (by omega)
        (by omega) (ht.stopMap (by omega)) hr hne
      rw [fieldsL_cons _ fs hy, List.cons_append] at this
      exact this
    · rw [BlockOK] at hb
      have := needE_pos (JVal.str s0)
      obtain ⟨f', rfl⟩ : ∃ f', f = f' + 1 := ⟨f - 1, by omega⟩
      rw [valL_block hbody] at hval
      simp only [lead_item, Bool.true_or, if_true] at hval
      injection hval with e1 e2
      subst e1 e2
      obtain ⟨R', h, hrel⟩ := readBlockScalar_block (hb body hbody) (2 * d + 2) (2 * d + 1) (by omega) rest
        (blockRest ht hr (block_ne_nil hbody hne) (by omega))
      rw [spaces_ind d] at h
      show ∃ R', readEntry (f' + 1) (2 * d) (32 :: [124]) _ = _ ∧ _
      rw [readEntry, if_neg (fun h => h rfl), readScalar_bar]
      simp only [if_true]
      rw [h]
      exact ⟨R', by rw [stripSuffixNl_some s0 body hbody], hrel⟩
  · intro d f rest s more hv hb hk hf ht hr hne hval
    rcases val_cases x hv with ⟨t, hrs, hl⟩ | ⟨y, ys, rfl⟩ | ⟨k, y, fs, rfl⟩ | ⟨s0, body, rfl, hbody⟩
    · have := needE_pos x
      obtain ⟨f', rfl⟩ : ∃ f', f = f' + 1 := ⟨f - 1, by omega⟩
      rw [hl, lead_field] at hval
      injection hval with e1 e2
      subst e1 e2
      rw [List.nil_append]
      show ∃ R', readField (f' + 1) (2 * d) (32 :: t) rest = _ ∧ _
      rw [readField, if_neg (fun h => h rfl), hrs]
      exact ⟨rest, rfl, Rel.refl _⟩
    · rw [ValOK] at hv; rw [BlockOK] at hb; rw [KeysOK] at hk; rw [needE] at hf
      rw [NoBlock] at hne
      obtain ⟨f', rfl⟩ : ∃ f', f = f' + 1 := ⟨f - 1, by omega⟩
      rw [valL] at hval
      cases iaio
      · simp at hval
        obtain ⟨e1, e2⟩ := hval
        subst e1 e2
        rw [readField]
        exact readBlock_seq (hS _ rfl) d f' (2 * d) (2 * d + 1) rest hv hb hk (by omega) (by omega) ht hr hne
      · simp at hval
        obtain ⟨e1, e2⟩ := hval
        subst e1 e2
        rw [readField]
        exact readBlock_seq (hS _ rfl) (d + 1) f' (2 * d) (2 * d + 1) rest hv hb hk (by omega) (by omega)
          (ht.mono (by omega)) hr hne
    · rw [ValOK] at hv; rw [BlockOK] at hb; rw [KeysOK] at hk; rw [needE] at hf
      rw [NoBlock] at hne
      obtain ⟨f', rfl⟩ : ∃ f', f = f' + 1 := ⟨f - 1, by omega⟩
      rw [valL] at hval
      simp only [Bool.false_eq_true, if_false, if_true] at hval
      injection hval with e1 e2
      subst e1 e2
      rw [readField]
      exact readBlock_map (hM _ rfl) (d + 1) f' (2 * d) (2 * d + 1) rest hv.1 hv.2 hb hk (by omega)
        (by omega) (ht.stopMap (by omega)) hr hne
    · rw [BlockOK] at hb
      have := needE_pos (JVal.str s0)
      obtain ⟨f', rfl⟩ : ∃ f', f = f' + 1 := ⟨f - 1, by omega⟩
      rw [valL_block hbody] at hval
      simp only [lead_field, Bool.or_true, if_true] at hval
      injection hval with e1 e2
      subst e1 e2
      obtain ⟨R', h, hrel⟩ := readBlockScalar_block (hb body hbody) (2 * d + 2) (2 * d + 1) (by omega) rest
        (blockRest ht.tailE hr (block_ne_nil hbody hne) (by omega))
      rw [spaces_ind d] at h
      show ∃ R', readField (f' + 1) (2 * d) (32 :: [124]) _ = _ ∧ _
      rw [readField, if_neg (fun h => h rfl), readScalar_bar]
      simp only [if_true]
      rw [h]
      exact ⟨R', by rw [stripSuffixNl_some s0 body hbody], hrel⟩

theorem val_scalar {iaio qk : Bool} (x : JVal) (h1 : ∀ l, x ≠ .arr l) (h2 : ∀ l, x ≠ .obj l) :
    ValGoal iaio qk x :=
  val_goal x (fun l e => absurd e (h1 l)) (fun l e => absurd e (h2 l))

theorem val_arr {iaio qk : Bool} (l : List JVal) (h : SeqGoal iaio qk l) : ValGoal iaio qk (.arr l) :=
  val_goal _ (fun l' e => by cases e; exact h) (fun l' e => by cases e)

theorem val_obj {iaio qk : Bool} (l : List (Str × JVal)) (h : MapGoal iaio qk l) : ValGoal iaio qk (.obj l) :=
  val_goal _ (fun l' e => by cases e) (fun l' e => by cases e; exact h)

mutual
theorem rt_val (iaio qk : Bool) : (v : JVal) → ValGoal iaio qk v
  | .null => val_scalar _ (fun _ e => by cases e) (fun _ e => by cases e)
  | .bool _ => val_scalar _ (fun _ e => by cases e) (fun _ e => by cases e)
  | .num _ => val_scalar _ (fun _ e => by cases e) (fun _ e => by cases e)
  | .str _ => val_scalar _ (fun _ e => by cases e) (fun _ e => by cases e)
  | .arr l => val_arr l (rt_seq iaio qk l)
  | .obj l => val_obj l (rt_map iaio qk l)
theorem rt_seq (iaio qk : Bool) : (l : List JVal) → SeqGoal iaio qk l
  | [] => seq_nil iaio qk
  | x :: xs => seq_step x xs (rt_val iaio qk x) (rt_seq iaio qk xs)
theorem rt_map (iaio qk : Bool) : (l : List (Str × JVal)) → MapGoal iaio qk l
  | [] => map_nil iaio qk
  | (k, x) :: xs => map_step k x xs (rt_val iaio qk x) (rt_map iaio qk xs)
end

/-! ### the fuel needs are bounded by the length of the text -/

mutual
theorem needE_le (iaio qk : Bool) (d : Nat) (pA pO : Bool) :
    (v : JVal) → needE v ≤ 4 * (manifestYaml iaio qk d pA pO v).length + 3
  | .null => by simp [needE]
  | .bool _ => by simp [needE]
  | .num _ => by simp [needE]
  | .str _ => by simp [needE]
  | .arr [] => by simp [needE, needS]
  | .arr (x :: xs) => by
    have := needS_le iaio qk (if pO && !iaio then d - 1 else d) (x :: xs)
    rw [needE, manifestYaml]
    simp only [List.length_append]
    omega
  | .obj [] => by simp [needE, needM]
  | .obj (kx :: xs) => by
    have := needM_le iaio qk d pA (kx :: xs)
    rw [needE, manifestYaml]
    simp only [List.length_append]
    omega
theorem needS_le (iaio qk : Bool) (d : Nat) :
    (xs : List JVal) → needS xs ≤ 4 * (yamlItems iaio qk d xs).length + 1
  | [] => by simp [needS]
  | x :: xs => by
    have h1 := needE_le iaio qk (d + 1) true false x
    have h2 := needS_le iaio qk d xs
    rw [needS, yamlItems]
    simp only [List.length_append, List.length_cons]
    omega
theorem needM_le (iaio qk : Bool) (d : Nat) (skip : Bool) :
    (fs : List (Str × JVal)) → needM fs ≤ 4 * (yamlFields iaio qk d skip fs).length + 1
  | [] => by simp [needM]
  | (k, x) :: xs => by
    have h1 := needE_le iaio qk (d + 1) false true x
    have h2 := needM_le iaio qk d false xs
    rw [needM, yamlFields]
    simp only [List.length_append, List.length_cons]
    omega
end

end Rsj.Yaml
