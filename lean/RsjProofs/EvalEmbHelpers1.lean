import RsjProofs.EvalEmbTac
/-! Store-embedding invariance of the evaluator helpers that do not call the evaluator recursively. -/
set_option linter.unusedVariables false
namespace Rsj.Eval
open Rsj.Core
set_option linter.unusedSectionVars false
variable [Mode]

theorem newEnv_rel {ρ : Emb} {p p' : Option EId} {vars vars' : List (String × TId)}
    (hp : ROpt RE ρ p p') (hv : RVars ρ vars vars') : MRel ρ RE (newEnv p vars) (newEnv p' vars') := by
  unfold newEnv
  cases hp with
  | none => mnorm; exact allocEnv_rel ⟨.none, hv, .none⟩
  | some hp =>
    mnorm
    mbind (getEnv_rel hp) with s s' hs
    exact allocEnv_rel (by rel_side)

theorem getObjRef_rel {ρ : Emb} {e e' : EId} (h : RE ρ e e') : MRel ρ RObjRef (getObjRef e) (getObjRef e') := by
  unfold getObjRef
  mbind (getEnv_rel h) with s s' hs
  gcases hs.obj
  · exact MRel_throw rfl
  · exact MRel_pure ‹_›

theorem literalValue_rel {ρ : Emb} {e : Expr} {v : Value} (h : literalValue e = some v) : RVal ρ v v := by
  unfold literalValue at h
  split at h <;> first | cases h | skip
  · exact .null
  · exact .bool _
  · exact .bool _
  · split at h <;> cases h; exact .num _
  · exact .str _
  · exact .arr .nil

theorem newThunk_rel {ρ : Emb} (e : Expr) {env env' : EId} (h : RE ρ env env') :
    MRel ρ RT (newThunk e env) (newThunk e env') := by
  unfold newThunk
  split
  · mbind (allocFunc_rel ⟨rfl, rfl, h⟩) with f f' hf
    exact allocThunk_rel (.done (.func hf))
  · split
    · exact allocThunk_rel (.done (literalValue_rel ‹_›))
    · exact allocThunk_rel (.pending (.expr _ h))

theorem initObjectEnv_rel {ρ : Emb} {o o' : OId} (li : Nat) {b b' : EId} (ho : RO ρ o o') (hb : RE ρ b b') :
    MRel ρ RE (initObjectEnv o li b) (initObjectEnv o' li b') := by
  unfold initObjectEnv
  mbind (getObj_rel ho) with ob ob' hob
  gcases (hob.layers.getElem? li)
  · exact MRel_throw rfl
  · rename_i l l' hl
    mnorm
    mbind (getEnv_rel hb) with base base' hbase
    mbind (allocEnv_rel ⟨.some hb, .nil, hbase.obj⟩) with env env' henv
    rw [hl.locals]
    refine MRel_bind (Q₁ := RVars) ?_ ?_
    · mfor RVars with acc acc' hacc x hx
      · exact .nil
      · mbind (newThunk_rel _ henv) with t t' ht
        exact MRel_pure (.yield (hacc.snoc ⟨rfl, ht⟩))
    · mcont vars vars' hvars
      rw [hl.isTop]
      split
      · mbind (setEnv_rel henv ⟨.some hb, hvars, .some ⟨ho, rfl, ho⟩⟩) with u u' hu
        exact MRel_pure henv
      · gcases hbase.obj
        · exact MRel_throw rfl
        · rename_i r r' hr
          mnorm
          mbind (setEnv_rel henv ⟨.some hb, hvars, .some ⟨ho, rfl, hr.top⟩⟩) with u u' hu
          exact MRel_pure henv


theorem RList.set {α β : Type} {R : Emb → α → β → Prop} {ρ : Emb} {l : List α} {l' : List β}
    (h : RList R ρ l l') (i : Nat) {a : α} {b : β} (hab : R ρ a b) : RList R ρ (l.set i a) (l'.set i b) := by
  induction h generalizing i with
  | nil => exact .nil
  | cons h1 h2 ih =>
    cases i with
    | zero => exact .cons hab h2
    | succ i => exact .cons h1 (ih i)

theorem fieldFind_rel {ρ : Emb} {fs fs' : List Field} (h : RList RField ρ fs fs') (n : String) :
    ROpt RField ρ (fs.find? (fun f => f.name == n)) (fs'.find? (fun f => f.name == n)) := by
  induction h with
  | nil => exact .none
  | @cons a b as bs h1 _ ih =>
    simp only [List.find?_cons, h1.name]
    split
    · exact .some h1
    · exact ih

theorem findField_go_rel {ρ : Emb} {ls ls' : List Layer} (h : RList RLayer ρ ls ls') (n : String) (i : Nat) :
    ROpt (RProd REq RField) ρ (findField.go n ls i) (findField.go n ls' i) := by
  induction h generalizing i with
  | nil => exact .none
  | cons h1 _ ih =>
    simp only [findField.go]
    gcases (fieldFind_rel h1.fields n)
    · exact ih _
    · exact .some ⟨rfl, ‹_›⟩

theorem findField_rel {ρ : Emb} {o o' : Obj} (h : RObj ρ o o') (start : Nat) (n : String) :
    ROpt (RProd REq RField) ρ (findField o start n) (findField o' start n) :=
  findField_go_rel (h.layers.drop start) n start

theorem layerEnv_rel {ρ : Emb} {o o' : OId} (li : Nat) (ho : RO ρ o o') :
    MRel ρ RE (layerEnv o li) (layerEnv o' li) := by
  unfold layerEnv
  mbind (getObj_rel ho) with ob ob' hob
  gcases (hob.layers.getElem? li)
  · exact MRel_throw rfl
  · rename_i l l' hl
    mnorm
    gcases hl.env
    · mnorm
      gcases hl.baseEnv
      · exact MRel_throw rfl
      · rename_i b b' hb
        mnorm
        mbind (initObjectEnv_rel li ho hb) with e e' he
        mbind (getObj_rel ho) with ob2 ob2' hob2
        mbind (setObj_rel ho ⟨hob2.layers.set li ⟨hl.isTop, hl.locals, .some hb, .some he, hl.fields, hl.asserts⟩,
          hob2.assertsChecked, hob2.assertsInProgress⟩) with u u' hu
        exact MRel_pure he
    · exact MRel_pure ‹_›

theorem fieldThunk_rel {ρ : Emb} {o o' : OId} (start : Nat) (name : String) (ho : RO ρ o o') :
    MRel ρ (ROpt RT) (fieldThunk o start name) (fieldThunk o' start name) := by
  unfold fieldThunk
  mbind (getObj_rel ho) with ob ob' hob
  gcases (findField_rel hob start name)
  · exact MRel_pure .none
  · rename_i p p' hp
    obtain ⟨li, f⟩ := p
    obtain ⟨li', f'⟩ := p'
    obtain ⟨hli, hf⟩ := hp
    cases hli
    have hf : RField _ f f' := hf
    simp only []
    have tail : ∀ {ρ : Emb} {t t' : TId}, RT ρ t t' → RO ρ o o' → MRel ρ (ROpt RT)
        (do let ob ← getObj o
            let some layer := ob.layers[li]? | throw (.internal "bad layer index")
            let fields := layer.fields.map (fun g => if g.name == name then { g with thunk := some t } else g)
            setObj o { ob with layers := ob.layers.set li { layer with fields := fields } }
            pure (some t))
        (do let ob ← getObj o'
            let some layer := ob.layers[li]? | throw (.internal "bad layer index")
            let fields := layer.fields.map (fun g => if g.name == name then { g with thunk := some t' } else g)
            setObj o' { ob with layers := ob.layers.set li { layer with fields := fields } }
            pure (some t')) := by
      intro ρ t t' ht ho
      mbind (getObj_rel ho) with ob ob' hob
      gcases (hob.layers.getElem? li)
      · exact MRel_throw rfl
      · rename_i l l' hl
        mnorm
        refine MRel_bind (setObj_rel ho ⟨hob.layers.set li ⟨hl.isTop, hl.locals, hl.baseEnv, hl.env, ?_, hl.asserts⟩,
          hob.assertsChecked, hob.assertsInProgress⟩) ?_
        · refine hl.fields.map (fun a b hab => ?_)
          rw [hab.name]
          split
          · exact ⟨rfl, hab.vis, hab.baseEnv, hab.expr, .some ht⟩
          · exact hab
        · mcont u u' hu
          exact MRel_pure (.some ht)
    gcases hf.thunk
    · simp only []
      rw [hf.expr]
      cases f'.expr with
      | none => exact MRel_throw rfl
      | some p =>
        obtain ⟨e, plus⟩ := p
        simp only []
        gcases hf.baseEnv
        · mbind (layerEnv_rel li ho) with env env' henv
          split
          · mbind (allocThunk_rel (.pending (.plus _ _ henv))) with t t' ht
            exact tail ht ho
          · mbind (allocThunk_rel (.pending (.expr _ henv))) with t t' ht
            exact tail ht ho
        · mbind (initObjectEnv_rel li ho ‹_›) with env env' henv
          split
          · mbind (allocThunk_rel (.pending (.plus _ _ henv))) with t t' ht
            exact tail ht ho
          · mbind (allocThunk_rel (.pending (.expr _ henv))) with t t' ht
            exact tail ht ho
    · exact MRel_pure (.some ‹_›)


theorem fieldAny_rel {ρ : Emb} {fs fs' : List Field} (h : RList RField ρ fs fs') (n : String) :
    fs.any (fun f => f.name == n) = fs'.any (fun f => f.name == n) := by
  induction h with
  | nil => rfl
  | cons h1 _ ih => simp only [List.any_cons, h1.name, ih]

theorem addField_rel {ρ : Emb} {l l' : Layer} (name : String) (plus : Bool) (vis : Vis) (value : Expr)
    {b b' : Option EId} (hl : RLayer ρ l l') (hb : ROpt RE ρ b b') :
    MRel ρ RLayer (addField l name plus vis value b) (addField l' name plus vis value b') := by
  unfold addField
  rw [fieldAny_rel hl.fields name]
  mnorm
  split
  · exact MRel_throw rfl
  · split
    · exact MRel_pure ⟨hl.isTop, hl.locals, hl.baseEnv, hl.env,
        hl.fields.snoc ⟨rfl, rfl, hb, rfl, .none⟩, hl.asserts⟩
    · split
      · mbind (allocThunk_rel (.done (literalValue_rel ‹_›))) with t t' ht
        exact MRel_pure ⟨hl.isTop, hl.locals, hl.baseEnv, hl.env,
          hl.fields.snoc ⟨rfl, rfl, hb, rfl, .some ht⟩, hl.asserts⟩
      · exact MRel_pure ⟨hl.isTop, hl.locals, hl.baseEnv, hl.env,
          hl.fields.snoc ⟨rfl, rfl, hb, rfl, .none⟩, hl.asserts⟩

theorem bindThunkArgs_rel {ρ : Emb} {fn fn' : Func} {pos pos' : List TId} (hfn : RFunc ρ fn fn')
    (hpos : RList RT ρ pos pos') : MRel ρ (RList RT) (bindThunkArgs fn pos) (bindThunkArgs fn' pos') := by
  unfold bindThunkArgs
  rw [← hfn.params, ← hpos.length_eq]
  cases Bind.bindPlan (fn.params.map (fun p => (p.1, hasDefault p.2))) pos.length [] with
  | error e => mnorm; exact MRel_throw rfl
  | ok slots =>
    mnorm
    mjp (RArrow (RImp (slots.any (· == .dflt) = true) RE) (RM (RList RT)))
    · mcont argsEnv argsEnv' henv
      show MRel _ _ _ _
      refine MRel_bind (Q₁ := RList RT) ?_ ?_
      · mfor (RList RT) with acc acc' hacc x hx
        · exact .nil
        · obtain ⟨slot, n, pd⟩ := x
          simp only []
          cases slot with
          | pos i =>
            simp only []
            gcases (hpos.getElem? i)
            · exact MRel_throw rfl
            · exact MRel_pure (.yield (hacc.snoc ‹_›))
          | named j => exact MRel_throw rfl
          | dflt =>
            simp only []
            cases pd with
            | none => exact MRel_throw rfl
            | some de =>
              simp only []
              have hne : slots.any (· == .dflt) = true :=
                List.any_eq_true.2 ⟨_, (List.of_mem_zip hx).1, rfl⟩
              mbind (newThunk_rel de (henv hne)) with t t' ht
              exact MRel_pure (.yield (hacc.snoc ht))
      · mcont ts ts' hts
        split
        · rename_i hne
          mbind (getEnv_rel hfn.env) with fe fe' hfe
          mbind (setEnv_rel (henv hne) ⟨.some hfn.env, RVars.zip_names _ hts, hfe.obj⟩) with u u' hu
          exact MRel_pure hts
        · exact MRel_pure hts
    · intro jp jp' hjp
      split
      · mbind (allocEnv_rel ⟨.none, .nil, .none⟩) with e e' he
        exact hjp.app (fun _ => he)
      · exact hjp.app (fun h => absurd h ‹_›)
end Rsj.Eval
