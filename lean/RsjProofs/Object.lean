/-
  Helper lemmas for C07 (object layer algebra).  Everything is phrased through
  the canonical walker `visList`: the visibilities of the `Normal` entries of a
  name that a walk from the top examines.  `find_field`, `has_visible_field`
  and the `get_fields_order` fold are each shown to be a function of that walk.
-/
import RsjModel.Object
set_option linter.unusedSimpArgs false
namespace Rsj.Object

/-- The visibilities of the `Normal` entries of name `n` that a walk from the
    top actually examines (layers stepped over by `Removed` markers excluded). -/
def visList : List Layer → Nat → Name → List Vis
  | [], _, _ => []
  | _ :: ls, s + 1, n => visList ls s n
  | l :: ls, 0, n =>
    match l.get n with
    | none => visList ls 0 n
    | some (.normal v _ _) => v :: visList ls 0 n
    | some (.removed d) => visList ls d n

def firstNonDefault : List Vis → Option Vis
  | [] => none
  | .default :: r => firstNonDefault r
  | v :: _ => some v

/-- visibility rule: absent if nothing is met, else the first non-default
    visibility met, else default -/
def resolve (w : List Vis) : Option Vis :=
  match w with
  | [] => none
  | _ => some ((firstNonDefault w).getD .default)

theorem findFrom_isSome (ls : List Layer) (s i : Nat) (n : Name) :
    (findFrom ls s i n).isSome = !(visList ls s n).isEmpty := by
  induction ls generalizing s i with
  | nil => simp [findFrom, visList]
  | cons l ls ih =>
    cases s with
    | succ s => simp only [findFrom, visList]; exact ih s (i + 1)
    | zero =>
      simp only [findFrom, visList]
      cases h : l.get n with
      | none => simp only; exact ih 0 (i + 1)
      | some f =>
        cases f with
        | normal v p e => simp
        | removed d => simp only; exact ih d (i + 1)

def visOutcome (w : List Vis) (found : Bool) : Bool :=
  match firstNonDefault w with
  | some .hidden => false
  | some _ => true
  | none => found || !w.isEmpty

theorem visFrom_eq (ls : List Layer) (s : Nat) (found : Bool) (n : Name) :
    visFrom ls s found n = visOutcome (visList ls s n) found := by
  induction ls generalizing s found with
  | nil => simp [visFrom, visList, visOutcome, firstNonDefault]
  | cons l ls ih =>
    cases s with
    | succ s => simp only [visFrom, visList]; exact ih s found
    | zero =>
      simp only [visFrom, visList]
      cases h : l.get n with
      | none => simp only; exact ih 0 found
      | some f =>
        cases f with
        | removed d => simp only; exact ih d found
        | normal v p e =>
          cases v with
          | default =>
            simp only [ih 0 true, visOutcome, firstNonDefault]
            cases firstNonDefault (visList ls 0 n) <;> simp
          | hidden => simp [visOutcome, firstNonDefault]
          | forceVisible => simp [visOutcome, firstNonDefault]

def skipOf : FState → Nat → Nat
  | .absent, _ => 0
  | .normal _ s, i => s + 1 - i
  | .removed r, i => r + 1 - i

def combine (st : FState) (w : List Vis) : Option Vis :=
  match st with
  | .absent => resolve w
  | .removed _ => resolve w
  | .normal .default _ => some ((firstNonDefault w).getD .default)
  | .normal v _ => some v

theorem resolve_cons (v : Vis) (w : List Vis) :
    resolve (v :: w) = some (if v = .default then (firstNonDefault w).getD .default else v) := by
  cases v <;> simp [resolve, firstNonDefault]

theorem foldName_vis (ls : List Layer) (i : Nat) (st : FState) (n : Name) :
    (foldName ls i st n).vis = combine st (visList ls (skipOf st i) n) := by
  induction ls generalizing i st with
  | nil =>
    cases st with
    | absent => simp [foldName, visList, combine, resolve, FState.vis]
    | removed r => simp [foldName, visList, combine, resolve, FState.vis]
    | normal v s => cases v <;> simp [foldName, visList, combine, firstNonDefault, FState.vis]
  | cons l ls ih =>
    simp only [foldName]
    rw [ih]
    cases st with
    | absent =>
      simp only [skipOf, visList]
      cases h : l.get n with
      | none => simp [foldStep, skipOf]
      | some f =>
        cases f with
        | normal v p e =>
          have : 0 + 1 - (i + 1) = 0 := by omega
          cases v <;> simp [foldStep, fieldToState, skipOf, combine, resolve, firstNonDefault, this]
        | removed d =>
          have : i + d + 1 - (i + 1) = d := by omega
          simp [foldStep, fieldToState, skipOf, combine, this]
    | removed r =>
      by_cases hir : i > r
      · have h0 : r + 1 - i = 0 := by omega
        simp only [skipOf, h0, visList]
        cases h : l.get n with
        | none =>
          have : r + 1 - (i + 1) = 0 := by omega
          simp [foldStep, skipOf, this]
        | some f =>
          cases f with
          | normal v p e =>
            have : 0 + 1 - (i + 1) = 0 := by omega
            cases v <;> simp [foldStep, hir, fieldToState, skipOf, combine, resolve, firstNonDefault, this]
          | removed d =>
            have : i + d + 1 - (i + 1) = d := by omega
            simp [foldStep, hir, fieldToState, skipOf, combine, this]
      · have h0 : r + 1 - i = (r + 1 - (i + 1)) + 1 := by omega
        have hst : foldStep (.removed r) i (l.get n) = .removed r := by
          cases l.get n <;> simp [foldStep, hir]
        rw [hst]
        simp only [skipOf]
        rw [h0]
        simp [visList, combine]
    | normal v s =>
      cases v with
      | hidden =>
        have hst : foldStep (.normal .hidden s) i (l.get n) = .normal .hidden s := by
          cases l.get n <;> simp [foldStep]
        rw [hst]; simp [combine]
      | forceVisible =>
        have hst : foldStep (.normal .forceVisible s) i (l.get n) = .normal .forceVisible s := by
          cases l.get n <;> simp [foldStep]
        rw [hst]; simp [combine]
      | default =>
        by_cases his : i > s
        · have h0 : s + 1 - i = 0 := by omega
          simp only [skipOf, h0, visList]
          cases h : l.get n with
          | none =>
            have : s + 1 - (i + 1) = 0 := by omega
            simp [foldStep, skipOf, this]
          | some f =>
            cases f with
            | normal v p e =>
              have : 0 + 1 - (i + 1) = 0 := by omega
              cases v <;> simp [foldStep, his, skipOf, combine, firstNonDefault, this]
            | removed d =>
              have : i + d + 1 - (i + 1) = d := by omega
              simp [foldStep, his, skipOf, combine, this]
        · have h0 : s + 1 - i = (s + 1 - (i + 1)) + 1 := by omega
          have hst : foldStep (.normal .default s) i (l.get n) = .normal .default s := by
            cases l.get n <;> simp [foldStep, his]
          rw [hst]
          simp only [skipOf]
          rw [h0]
          simp [visList, combine]

theorem finalVis_eq (o : Obj) (n : Name) : finalVis o n = resolve (visList o 0 n) := by
  unfold finalVis
  rw [foldName_vis]
  simp [skipOf, combine]

/-- skip count left over after walking all of `ls` (0 when no marker reaches past the end) -/
def residual : List Layer → Nat → Name → Nat
  | [], s, _ => s
  | _ :: ls, s + 1, n => residual ls s n
  | l :: ls, 0, n =>
    match l.get n with
    | some (.removed d) => residual ls d n
    | _ => residual ls 0 n

theorem visList_append (a b : List Layer) (s : Nat) (n : Name) :
    visList (a ++ b) s n = visList a s n ++ visList b (residual a s n) n := by
  induction a generalizing s with
  | nil => simp [visList, residual]
  | cons l ls ih =>
    cases s with
    | succ s => simp only [List.cons_append, visList, residual]; exact ih s
    | zero =>
      simp only [List.cons_append, visList, residual]
      cases h : l.get n with
      | none => simp only; exact ih 0
      | some f =>
        cases f with
        | normal v p e => simp only [List.cons_append]; rw [ih 0]
        | removed d => simp only; exact ih d

def shiftRes (k : Nat) : Option (Nat × Vis × Bool × FExpr) → Option (Nat × Vis × Bool × FExpr)
  | none => none
  | some (i, r) => some (i + k, r)

theorem findFrom_append (a b : List Layer) (s i : Nat) (n : Name) :
    findFrom (a ++ b) s i n =
      (findFrom a s i n).orElse (fun _ => findFrom b (residual a s n) (i + a.length) n) := by
  induction a generalizing s i with
  | nil => simp [findFrom, residual]
  | cons l ls ih =>
    have hl : i + (l :: ls).length = i + 1 + ls.length := by simp; omega
    cases s with
    | succ s => simp only [List.cons_append, findFrom, residual]; rw [ih s (i+1), hl]
    | zero =>
      simp only [List.cons_append, findFrom, residual]
      cases h : l.get n with
      | none => simp only; rw [ih 0 (i+1), hl]
      | some f =>
        cases f with
        | normal v p e => simp
        | removed d => simp only; rw [ih d (i+1), hl]

/-- the start index only offsets the reported layer -/
theorem findFrom_shift (ls : List Layer) (s i k : Nat) (n : Name) :
    findFrom ls s (i + k) n = shiftRes k (findFrom ls s i n) := by
  induction ls generalizing s i with
  | nil => simp [findFrom, shiftRes]
  | cons l ls ih =>
    have : i + k + 1 = i + 1 + k := by omega
    cases s with
    | succ s => simp only [findFrom]; rw [this, ih]
    | zero =>
      simp only [findFrom]
      cases h : l.get n with
      | none => simp only; rw [this, ih]
      | some f =>
        cases f with
        | normal v p e => simp [shiftRes]
        | removed d => simp only; rw [this, ih]

theorem visList_skip_all (ls : List Layer) (s : Nat) (n : Name) (h : ls.length ≤ s) :
    visList ls s n = [] := by
  induction ls generalizing s with
  | nil => simp [visList]
  | cons l ls ih =>
    cases s with
    | zero => simp at h
    | succ s => simp only [visList]; exact ih s (by simp at h; omega)

theorem residual_skip_all (ls : List Layer) (s : Nat) (n : Name) (h : ls.length ≤ s) :
    residual ls s n = s - ls.length := by
  induction ls generalizing s with
  | nil => simp [residual]
  | cons l ls ih =>
    cases s with
    | zero => simp at h
    | succ s => simp only [residual]; rw [ih s (by simp at h; omega)]; simp

theorem findFrom_skip_all (ls : List Layer) (s i : Nat) (n : Name) (h : ls.length ≤ s) :
    findFrom ls s i n = none := by
  induction ls generalizing s i with
  | nil => simp [findFrom]
  | cons l ls ih =>
    cases s with
    | zero => simp at h
    | succ s => simp only [findFrom]; exact ih s (i+1) (by simp at h; omega)

/-! names -/
theorem mem_sortedInsert (k x : Name) (l : List Name) : x ∈ sortedInsert k l ↔ x = k ∨ x ∈ l := by
  induction l with
  | nil => simp [sortedInsert]
  | cons h t ih =>
    simp only [sortedInsert]
    split
    · simp
    · split
      · next heq => subst heq; simp
      · simp [ih]; constructor
        · rintro (h | h | h) <;> simp [h]
        · rintro (h | h | h) <;> simp [h]

theorem mem_foldr_sortedInsert (x : Name) (l : List Name) : x ∈ l.foldr sortedInsert [] ↔ x ∈ l := by
  induction l with
  | nil => simp
  | cons h t ih => simp [mem_sortedInsert, ih]

theorem mem_names (o : Obj) (x : Name) : x ∈ names o ↔ x ∈ rawNames o := mem_foldr_sortedInsert x _

theorem lookup_some_mem {n : Name} {l : Layer} {f : Field} (h : l.get n = some f) : n ∈ l.map Prod.fst := by
  unfold Layer.get at h
  induction l with
  | nil => simp [List.lookup] at h
  | cons p t ih =>
    obtain ⟨a, b⟩ := p
    simp only [List.lookup] at h
    split at h
    · next heq => simp at heq; simp [heq]
    · simp [ih h]

theorem visList_ne_nil_mem (ls : List Layer) (s : Nat) (n : Name) (h : visList ls s n ≠ []) :
    n ∈ rawNames ls := by
  induction ls generalizing s with
  | nil => simp [visList] at h
  | cons l ls ih =>
    simp only [rawNames, List.flatMap_cons, List.mem_append]
    cases s with
    | succ s => simp only [visList] at h; exact Or.inr (ih s h)
    | zero =>
      simp only [visList] at h
      cases hg : l.get n with
      | none => rw [hg] at h; exact Or.inr (ih 0 h)
      | some f => exact Or.inl (lookup_some_mem hg)



theorem firstNonDefault_ne_default (w : List Vis) : firstNonDefault w ≠ some .default := by
  induction w with
  | nil => simp [firstNonDefault]
  | cons v w ih => cases v <;> simp [firstNonDefault, ih]

theorem resolve_eq_none (w : List Vis) : resolve w = none ↔ w = [] := by
  cases w <;> simp [resolve]

theorem finalVis_some_mem_names {o : Obj} {n : Name} {v : Vis} (h : finalVis o n = some v) :
    n ∈ names o := by
  rw [finalVis_eq] at h
  rw [mem_names]
  apply visList_ne_nil_mem o 0 n
  intro h0; rw [h0] at h; simp [resolve] at h

theorem mem_fieldsOrder (o : Obj) (n : Name) (v : Vis) :
    (n, v) ∈ fieldsOrder o ↔ finalVis o n = some v := by
  unfold fieldsOrder
  rw [List.mem_filterMap]
  constructor
  · rintro ⟨a, _, ha⟩
    cases hf : finalVis o a with
    | none => rw [hf] at ha; simp at ha
    | some w =>
      rw [hf] at ha; simp at ha
      obtain ⟨rfl, rfl⟩ := ha; exact hf
  · intro h
    exact ⟨n, finalVis_some_mem_names h, by rw [h]; rfl⟩

theorem visOutcome_false_iff (w : List Vis) :
    visOutcome w false = true ↔ ∃ v, resolve w = some v ∧ v ≠ Vis.hidden := by
  cases w with
  | nil => simp [visOutcome, firstNonDefault, resolve]
  | cons x w =>
    have hnd := firstNonDefault_ne_default (x :: w)
    simp only [visOutcome, resolve]
    cases hf : firstNonDefault (x :: w) with
    | none => simp
    | some y =>
      cases y with
      | default => rw [hf] at hnd; exact absurd rfl hnd
      | hidden => simp
      | forceVisible => simp

theorem hasVisibleField_iff (o : Obj) (n : Name) :
    hasVisibleField o n = true ↔ ∃ v, (n, v) ∈ fieldsOrder o ∧ v ≠ Vis.hidden := by
  unfold hasVisibleField
  rw [visFrom_eq, visOutcome_false_iff]
  simp only [mem_fieldsOrder, finalVis_eq]

theorem hasField_zero_iff (o : Obj) (n : Name) :
    hasField o 0 n = true ↔ n ∈ (fieldsOrder o).map Prod.fst := by
  unfold hasField findField
  rw [List.drop_zero, findFrom_isSome]
  simp only [List.mem_map, Prod.exists, exists_and_right, exists_eq_right, mem_fieldsOrder, finalVis_eq]
  cases h : visList o 0 n with
  | nil => simp [resolve]
  | cons x w => simp [resolve]

theorem visibleFields_eq (o : Obj) :
    visibleFields o = ((fieldsOrder o).filter (fun p => p.2 ≠ Vis.hidden)).map Prod.fst := by
  unfold visibleFields
  induction fieldsOrder o with
  | nil => simp
  | cons p t ih =>
    by_cases h : p.2 = Vis.hidden
    · simp only [List.filterMap_cons, List.filter_cons, h, ne_eq, not_true_eq_false, if_false, decide_false]
      exact ih
    · simp only [List.filterMap_cons, List.filter_cons, h, ne_eq, not_false_eq_true, if_true, decide_true,
        List.map_cons]
      rw [ih]

/-! removeKey -/

theorem names_removeKey (o : Obj) (k : Name) : names (removeKey o k) = sortedInsert k (names o) := by
  simp [names, rawNames, removeKey]

theorem get_single (k n : Name) (f : Field) :
    Layer.get [(k, f)] n = if n = k then some f else none := by
  unfold Layer.get
  simp only [List.lookup]
  by_cases h : n = k
  · subst h; simp
  · have : (n == k) = false := by simp [h]
    simp [this, h]

theorem visList_removeKey (o : Obj) (k n : Name) :
    visList (removeKey o k) 0 n = if n = k then [] else visList o 0 n := by
  unfold removeKey
  simp only [visList, get_single]
  by_cases h : n = k
  · subst h; simp only [if_true]; exact visList_skip_all o _ _ (Nat.le_refl _)
  · simp [h]

theorem finalVis_removeKey (o : Obj) (k n : Name) :
    finalVis (removeKey o k) n = if n = k then none else finalVis o n := by
  rw [finalVis_eq, finalVis_eq, visList_removeKey]
  by_cases h : n = k <;> simp [h, resolve]

theorem filterMap_sortedInsert {β : Type} (g : Name → Option β) (k : Name) (l : List Name)
    (hk : g k = none) : (sortedInsert k l).filterMap g = l.filterMap g := by
  induction l with
  | nil => simp [sortedInsert, hk]
  | cons h t ih =>
    simp only [sortedInsert]
    split
    · simp [hk]
    · split
      · rfl
      · rw [List.filterMap_cons, List.filterMap_cons, ih]

theorem fieldsOrder_removeKey (o : Obj) (k : Name) :
    fieldsOrder (removeKey o k) = (fieldsOrder o).filter (fun p => p.1 ≠ k) := by
  unfold fieldsOrder
  rw [names_removeKey, filterMap_sortedInsert _ _ _ (by simp [finalVis_removeKey])]
  have hg : (fun n => (finalVis (removeKey o k) n).map (fun v => (n, v))) =
      (fun n => (if n = k then none else finalVis o n).map (fun v => (n, v))) := by
    funext n; rw [finalVis_removeKey]
  rw [hg]
  induction names o with
  | nil => simp
  | cons h t ih =>
    simp only [List.filterMap_cons]
    by_cases hk : h = k
    · subst hk
      cases hf : finalVis o h with
      | none => simpa [hf] using ih
      | some v => simpa [hf] using ih
    · cases hf : finalVis o h with
      | none => simpa [hk, hf] using ih
      | some v => simp only [hk, hf, if_false, Option.map_some, List.filter_cons, ne_eq, not_false_eq_true, decide_true, if_true]; rw [ih]

theorem findField_removeKey_succ (o : Obj) (k n : Name) (i : Nat) :
    findField (removeKey o k) (i + 1) n = shiftRes 1 (findField o i n) := by
  unfold findField removeKey
  simp only [List.drop_succ_cons]
  exact findFrom_shift _ 0 i 1 n

theorem findField_removeKey_zero (o : Obj) (k n : Name) :
    findField (removeKey o k) 0 n = if n = k then none else shiftRes 1 (findField o 0 n) := by
  unfold findField removeKey
  simp only [List.drop_zero, findFrom, get_single]
  by_cases h : n = k
  · subst h; simp only [if_true]; exact findFrom_skip_all o _ _ _ (Nat.le_refl _)
  · simp only [h, if_false]
    exact findFrom_shift o 0 0 1 n



theorem residual_append (a b : List Layer) (s : Nat) (n : Name) :
    residual (a ++ b) s n = residual b (residual a s n) n := by
  induction a generalizing s with
  | nil => simp [residual]
  | cons l ls ih =>
    cases s with
    | succ s => simp only [List.cons_append, residual]; exact ih s
    | zero =>
      simp only [List.cons_append, residual]
      cases h : l.get n with
      | none => simp only; exact ih 0
      | some f =>
        cases f with
        | normal v p e => simp only; exact ih 0
        | removed d => simp only; exact ih d

/-- No `Removed` marker of `o` reaches below `o`'s own bottom layer.  Every
    object the implementation can build satisfies this (`closed_eval`). -/
def Closed (o : Obj) : Prop := ∀ n, residual o 0 n = 0

theorem closed_extend {a b : Obj} (ha : Closed a) (hb : Closed b) : Closed (extend a b) := by
  intro n; unfold extend; rw [residual_append, hb n, ha n]

theorem closed_removeKey {o : Obj} (ho : Closed o) (k : Name) : Closed (removeKey o k) := by
  intro n
  unfold removeKey
  simp only [residual, get_single]
  by_cases h : n = k
  · subst h; simp only [if_true]; rw [residual_skip_all _ _ _ (Nat.le_refl _)]; simp
  · simp only [h, if_false]; exact ho n

/-- a literal layer: no removal markers -/
def Layer.Plain (l : Layer) : Prop := ∀ n d, l.get n ≠ some (.removed d)

theorem closed_single {l : Layer} (hl : l.Plain) : Closed [l] := by
  intro n
  simp only [residual]
  cases h : l.get n with
  | none => rfl
  | some f =>
    cases f with
    | normal v p e => rfl
    | removed d => exact absurd h (hl n d)

def OExpr.Plain : OExpr → Prop
  | .layer l => l.Plain
  | .plus a b => a.Plain ∧ b.Plain
  | .rm _ a => a.Plain

theorem closed_eval (e : OExpr) (h : e.Plain) : Closed e.eval := by
  induction e with
  | layer l => exact closed_single h
  | plus a b iha ihb => exact closed_extend (iha h.1) (ihb h.2)
  | rm k a ih => exact closed_removeKey (ih h) k

theorem closed_empty : Closed empty := closed_single (by intro n d; simp [Layer.get, List.lookup])

/-! extension and the walker -/

theorem visList_extend (a b : Obj) (hb : Closed b) (n : Name) :
    visList (extend a b) 0 n = visList b 0 n ++ visList a 0 n := by
  unfold extend; rw [visList_append, hb n]

theorem findField_extend_zero (a b : Obj) (hb : Closed b) (n : Name) :
    findField (extend a b) 0 n =
      (findField b 0 n).orElse (fun _ => shiftRes b.length (findField a 0 n)) := by
  unfold findField extend
  simp only [List.drop_zero]
  rw [findFrom_append, hb n]
  have := findFrom_shift a 0 0 b.length n
  rw [this]

/-- `A + removeKey o k` -/
theorem visList_extend_removeKey_right (a o : Obj) (k n : Name) :
    visList (extend a (removeKey o k)) 0 n =
      if n = k then visList a 0 k else visList (extend a o) 0 n := by
  unfold extend removeKey
  simp only [List.cons_append, visList, get_single]
  by_cases h : n = k
  · subst h
    simp only [if_true]
    rw [visList_append, visList_skip_all _ _ _ (Nat.le_refl _), residual_skip_all _ _ _ (Nat.le_refl _)]
    simp
  · simp [h]

/-- `removeKey o k + B` -/
theorem visList_extend_removeKey_left (o b : Obj) (hb : Closed b) (k n : Name) :
    visList (extend (removeKey o k) b) 0 n =
      if n = k then visList b 0 k else visList (extend o b) 0 n := by
  rw [visList_extend _ _ hb, visList_extend _ _ hb, visList_removeKey]
  by_cases h : n = k
  · subst h; simp
  · simp [h]

theorem finalVis_extend_removeKey_right (a o : Obj) (k n : Name) :
    finalVis (extend a (removeKey o k)) n =
      if n = k then finalVis a k else finalVis (extend a o) n := by
  rw [finalVis_eq, visList_extend_removeKey_right]
  by_cases h : n = k <;> simp [h, finalVis_eq]

theorem finalVis_extend_removeKey_left (o b : Obj) (hb : Closed b) (k n : Name) :
    finalVis (extend (removeKey o k) b) n =
      if n = k then finalVis b k else finalVis (extend o b) n := by
  rw [finalVis_eq, visList_extend_removeKey_left _ _ hb]
  by_cases h : n = k <;> simp [h, finalVis_eq]

/-! identity -/
theorem visList_extend_empty_right (a : Obj) (n : Name) :
    visList (extend a empty) 0 n = visList a 0 n := by
  simp [extend, empty, visList, Layer.get, List.lookup]

theorem visList_extend_empty_left (a : Obj) (n : Name) :
    visList (extend empty a) 0 n = visList a 0 n := by
  unfold extend empty
  rw [visList_append]
  cases residual a 0 n <;> simp [visList, Layer.get, List.lookup]

theorem findField_extend_empty_right (a : Obj) (i : Nat) (n : Name) :
    findField (extend a empty) (i + 1) n = shiftRes 1 (findField a i n) := by
  unfold findField extend empty
  simp only [List.cons_append, List.nil_append, List.drop_succ_cons]
  exact findFrom_shift _ 0 i 1 n

theorem findField_extend_empty_right_zero (a : Obj) (n : Name) :
    findField (extend a empty) 0 n = shiftRes 1 (findField a 0 n) := by
  unfold findField extend empty
  simp only [List.cons_append, List.nil_append, List.drop_zero, findFrom, Layer.get, List.lookup]
  exact findFrom_shift _ 0 0 1 n

theorem findFrom_append_empty (a : List Layer) (s i : Nat) (n : Name) :
    findFrom (a ++ [[]]) s i n = findFrom a s i n := by
  rw [findFrom_append]
  have : findFrom [[]] (residual a s n) (i + a.length) n = none := by
    cases residual a s n <;> simp [findFrom, Layer.get, List.lookup]
  rw [this]
  cases findFrom a s i n <;> rfl

theorem findField_extend_empty_left (a : Obj) (i : Nat) (n : Name) :
    findField (extend empty a) i n = findField a i n := by
  unfold findField extend empty
  by_cases h : i ≤ a.length
  · rw [List.drop_append_of_le_length h, findFrom_append_empty]
  · have h1 : a.length ≤ i := by omega
    rw [List.drop_of_length_le h1]
    have : (a ++ [[]]).drop i = [[]].drop (i - a.length) := by
      rw [List.drop_append]; rw [List.drop_of_length_le h1]; simp
    rw [this]
    cases hh : i - a.length with
    | zero => omega
    | succ j => simp [findFrom]

end Rsj.Object
