/-
  String bodies without escapes: the quoted / verbatim string scanners produce
  the lossy decoding (`Utf8.Lossy`) of the body bytes.
-/
import RsjProofs.Lexer
import RsjProofs.Utf8Lossy
namespace Rsj.Lexer
open Rsj.Utf8

/-- What `eat_any_char` does in front of an ASCII terminator `x`: one
    specification step on `b :: t`, independent of what follows. -/
theorem eatAnyChar_plain {p b x : Nat} {t tail : List Nat} (hb : IsBytes (b :: t)) (hx : x < 128) :
    ∃ n r, n ≤ t.length ∧ DecodeStep (b :: t) (n + 1) r ∧
      ∃ cr, cr.orRepl = r.getD 0xFFFD ∧
      eatAnyChar ⟨p, (b :: t) ++ x :: tail⟩ = .some cr ⟨p + 1 + n, t.drop n ++ x :: tail⟩ := by
  have hs := decodeCont_spec hb
  unfold eatAnyChar Cur.eatAnyByte eatContAnyChar
  simp only [List.cons_append, decodeCont_append_ascii b t hx tail]
  cases hd : decodeCont b t with
  | chr n c =>
    rw [hd] at hs
    have hn := decodeCont_chr_le hd
    exact ⟨n, some c, hn, hs, .ok c, rfl, by simp [List.drop_append_of_le_length hn]⟩
  | bad n =>
    rw [hd] at hs
    have hn := decodeCont_bad_le hd
    exact ⟨n, none, hn, hs, .bad (n + 1), rfl, by simp [List.drop_append_of_le_length hn]⟩
  | panic => rw [hd] at hs; exact absurd hs (by simp)

theorem quotedLoop_plain (start delim : Nat) (hd : delim < 128) (tail : List Nat) :
    ∀ (f : Nat) (body : List Nat) (p : Nat) (str : List Nat), IsBytes body →
      (∀ b ∈ body, b ≠ delim ∧ b ≠ 92) → body.length < f →
      ∃ out, Lossy body out ∧
        quotedLoop start delim f ⟨p, body ++ delim :: tail⟩ str =
          .tok (.string (str.reverse ++ out)) ⟨p + body.length + 1, tail⟩ := by
  intro f
  induction f with
  | zero => intro body p str _ _ h; omega
  | succ f ih =>
    intro body p str hb hne hf
    cases body with
    | nil =>
      refine ⟨[], Lossy.nil, ?_⟩
      simp [quotedLoop, Cur.eatByte]
    | cons b t =>
      have hb1 := (hne b (by simp)).1
      have hb2 := (hne b (by simp)).2
      obtain ⟨n, r, hn, hstep, cr, hcr, hea⟩ := eatAnyChar_plain (p := p) (tail := tail) hb hd
      obtain ⟨out, hl, hq⟩ := ih (t.drop n) (p + 1 + n) (cr.orRepl :: str) (hb.tail.drop n)
        (fun x hx => hne x (List.mem_cons_of_mem _ (List.mem_of_mem_drop hx)))
        (by simp only [List.length_drop, List.length_cons] at hf ⊢; omega)
      refine ⟨r.getD 0xFFFD :: out, Lossy.step (by simp) hstep (by simpa using hl), ?_⟩
      unfold quotedLoop
      have e1 : Cur.eatByte ⟨p, (b :: t) ++ delim :: tail⟩ delim = none := by
        simp [Cur.eatByte, hb1]
      have e2 : Cur.eatByte ⟨p, (b :: t) ++ delim :: tail⟩ 92 = none := by
        simp [Cur.eatByte, hb2]
      simp only [e1, e2, hea]
      rw [hq, hcr]
      simp only [List.reverse_cons, List.append_assoc, List.singleton_append, List.length_drop,
        List.length_cons]
      congr 2
      omega

theorem verbatimLoop_plain (start delim : Nat) (hd : delim < 128) (tail : List Nat)
    (htl : ∀ t', tail ≠ delim :: t') :
    ∀ (f : Nat) (body : List Nat) (p : Nat) (str : List Nat), IsBytes body →
      (∀ b ∈ body, b ≠ delim) → body.length < f →
      ∃ out, Lossy body out ∧
        verbatimLoop start delim f ⟨p, body ++ delim :: tail⟩ str =
          .tok (.string (str.reverse ++ out)) ⟨p + body.length + 1, tail⟩ := by
  intro f
  induction f with
  | zero => intro body p str _ _ h; omega
  | succ f ih =>
    intro body p str hb hne hf
    cases body with
    | nil =>
      refine ⟨[], Lossy.nil, ?_⟩
      have : Cur.eatByte ⟨p + 1, tail⟩ delim = none := by
        unfold Cur.eatByte
        split
        · next x t hr =>
          split
          · next hx => simp only at hr; subst hx; exact absurd hr (htl t)
          · rfl
        · rfl
      have e1 : Cur.eatByte ⟨p, [] ++ delim :: tail⟩ delim = some ⟨p + 1, tail⟩ := by
        simp [Cur.eatByte]
      unfold verbatimLoop
      simp only [e1, this]
      simp
    | cons b t =>
      have hb1 := hne b (by simp)
      obtain ⟨n, r, hn, hstep, cr, hcr, hea⟩ := eatAnyChar_plain (p := p) (tail := tail) hb hd
      obtain ⟨out, hl, hq⟩ := ih (t.drop n) (p + 1 + n) (cr.orRepl :: str) (hb.tail.drop n)
        (fun x hx => hne x (List.mem_cons_of_mem _ (List.mem_of_mem_drop hx)))
        (by simp only [List.length_drop, List.length_cons] at hf ⊢; omega)
      refine ⟨r.getD 0xFFFD :: out, Lossy.step (by simp) hstep (by simpa using hl), ?_⟩
      unfold verbatimLoop
      have e1 : Cur.eatByte ⟨p, (b :: t) ++ delim :: tail⟩ delim = none := by
        simp [Cur.eatByte, hb1]
      simp only [e1, hea]
      rw [hq, hcr]
      simp only [List.reverse_cons, List.append_assoc, List.singleton_append, List.length_drop,
        List.length_cons]
      congr 2
      omega

theorem nextToken_quote (p : Nat) (rest : List Nat) (delim : Nat) (hd : delim = 34 ∨ delim = 39) :
    nextToken ⟨p, delim :: rest⟩ = lexQuotedString ⟨p, delim :: rest⟩ ⟨p + 1, rest⟩ delim := by
  rcases hd with rfl | rfl <;>
    simp [nextToken, simpleByte, List.lookup, isOpStart, isWs, isDigit]

theorem nextToken_at (p : Nat) (rest : List Nat) (delim : Nat) (hd : delim = 34 ∨ delim = 39) :
    nextToken ⟨p, 64 :: delim :: rest⟩ =
      lexVerbatimString ⟨p, 64 :: delim :: rest⟩ ⟨p + 2, rest⟩ delim := by
  rcases hd with rfl | rfl <;>
    simp [nextToken, simpleByte, List.lookup, isOpStart, isWs, isDigit, Cur.eatByte]

/-- A quoted string whose body has no escapes lexes to the lossy decoding of the body. -/
theorem nextToken_quoted_plain (p delim : Nat) (hd : delim = 34 ∨ delim = 39) (body tail : List Nat)
    (hb : IsBytes body) (hne : ∀ b ∈ body, b ≠ delim ∧ b ≠ 92) :
    ∃ out, Lossy body out ∧
      nextToken ⟨p, delim :: (body ++ delim :: tail)⟩ =
        .tok (.string out) ⟨p + body.length + 2, tail⟩ := by
  obtain ⟨out, hl, hq⟩ := quotedLoop_plain p delim (by omega) tail
    ((body ++ delim :: tail).length + 1) body (p + 1) [] hb hne (by simp; omega)
  refine ⟨out, hl, ?_⟩
  simp only [List.reverse_nil, List.nil_append] at hq
  rw [nextToken_quote p _ delim hd]
  unfold lexQuotedString
  simp only
  rw [hq]
  congr 2
  omega

/-- A verbatim string lexes to the lossy decoding of its body (no doubled delimiters). -/
theorem nextToken_verbatim_plain (p delim : Nat) (hd : delim = 34 ∨ delim = 39)
    (body tail : List Nat) (htl : ∀ t', tail ≠ delim :: t')
    (hb : IsBytes body) (hne : ∀ b ∈ body, b ≠ delim) :
    ∃ out, Lossy body out ∧
      nextToken ⟨p, 64 :: delim :: (body ++ delim :: tail)⟩ =
        .tok (.string out) ⟨p + body.length + 3, tail⟩ := by
  obtain ⟨out, hl, hq⟩ := verbatimLoop_plain p delim (by omega) tail htl
    ((body ++ delim :: tail).length + 1) body (p + 2) [] hb hne (by simp; omega)
  refine ⟨out, hl, ?_⟩
  simp only [List.reverse_nil, List.nil_append] at hq
  rw [nextToken_at p _ delim hd]
  unfold lexVerbatimString
  simp only
  rw [hq]
  congr 2
  omega

end Rsj.Lexer
