/-
  Re-evaluating a request immediately after it ran (C11): the second run follows
  the path of the first one and finds memoised what the first run completed.
-/
import RsjProofs.Thunk
namespace Rsj.Thunk

/-- `b` is `a` in which every thunk that is pending in `a` and done in `F`
    is already memoised with `F`'s value. -/
def SupRel (a b F : St) : Prop :=
  ∀ x, (a.st x = some .pending ∧ ∃ v, F.st x = some (.done v) ∧ b.st x = some (.done v)) ∨
       ((a.st x ≠ some .pending ∨ ∀ v, F.st x ≠ some (.done v)) ∧ b.st x = a.st x)

/-- every value memoised in `a` is memoised in `F` -/
def DoneSub (a F : St) : Prop := ∀ x v, a.st x = some (.done v) → F.st x = some (.done v)

/-- if the run failed, `F` is (state-wise) its final store -/
def ErrFinal (r : Outcome) (a' F : St) : Prop := ∀ e, r = .error e → ∀ x, F.st x = a'.st x

theorem SupRel.emit {a b F : St} (h : SupRel a b F) (m m' : Nat) : SupRel (a.emit m) (b.emit m') F := h

theorem runProg_reeval {f : Nat → St → Res} {F : St}
    (hm : ∀ u s, Mono s (f u s).2)
    (hf : ∀ u a b r a', f u a = (r, a') → SupRel a b F → DoneSub a' F → ErrFinal r a' F →
      ∃ b', f u b = (r, b') ∧ SupRel a' b' F) :
    ∀ p a b r a', runProg f p a = (r, a') → SupRel a b F → DoneSub a' F → ErrFinal r a' F →
      ∃ b', runProg f p b = (r, b') ∧ SupRel a' b' F := by
  intro p
  induction p with
  | ret v => intro a b r a' e hs _ _; cases e; exact ⟨b, rfl, hs⟩
  | fail e => intro a b r a' e hs _ _; cases e; exact ⟨b, rfl, hs⟩
  | trace m k ih => intro a b r a' e hs hd he; exact ih _ _ r a' e (hs.emit m m) hd he
  | force w k ih =>
    intro a b r a' e hs hd he
    rcases res_cases (f w a) with ⟨vw, a1, e1⟩ | ⟨e', a1, e1⟩
    · rw [runProg_force_ok e1] at e
      have m2 : Mono a1 a' := by have := runProg_mono hm (k vw) a1; rwa [e] at this
      obtain ⟨b1, f1, hs1⟩ := hf w a b _ a1 e1 hs (fun x v hx => hd x v (m2.done hx))
        (fun _ h => by cases h)
      obtain ⟨b', f2, hs2⟩ := ih vw a1 b1 r a' e hs1 hd he
      exact ⟨b', by rw [runProg_force_ok f1]; exact f2, hs2⟩
    · rw [runProg_force_error e1] at e
      cases e
      obtain ⟨b1, f1, hs1⟩ := hf w a b _ _ e1 hs hd he
      exact ⟨b1, by rw [runProg_force_error f1], hs1⟩

/-- **Replaying a run on its own results.** If `b` is `a` plus some of the values
    the run `force c h u a` is going to memoise, the run on `b` has the same
    outcome (StackOverflow included) — it follows the same path and finds
    memoised what the first run computed. -/
theorem force_reeval (c : Code) {F : St} : ∀ h u a b r a', force c h u a = (r, a') → SupRel a b F →
    DoneSub a' F → ErrFinal r a' F → ∃ b', force c h u b = (r, b') ∧ SupRel a' b' F := by
  have same : ∀ {a b : St} {u : Nat}, SupRel a b F → a.st u ≠ some .pending → b.st u = a.st u := by
    intro a b u hs hne
    rcases hs u with ⟨p, _⟩ | ⟨_, e⟩
    · exact absurd p hne
    · exact e
  -- the case "pending in `a`, already memoised in `b`"
  have memo : ∀ {h : Nat} {u : Nat} {a b a' : St} {r : Outcome} {v : Val},
      force c h u a = (r, a') → a.st u = some .pending → SupRel a b F → DoneSub a' F → ErrFinal r a' F →
      F.st u = some (.done v) → b.st u = some (.done v) →
      ∃ b', force c h u b = (r, b') ∧ SupRel a' b' F := by
    intro h u a b a' r v hf hp hs hd he hF hb
    have hm : Mono a a' := by have := force_mono_st c h u a; rwa [hf] at this
    have hc : Clean a (r, a') := by have := force_clean c h u a; rwa [hf] at this
    rcases hm.pend u hp with ⟨p', _⟩ | ⟨p', _⟩
    · -- still pending: the run was a StackOverflow at `u` itself (h = 0); then F = a'
      have : ∃ e, r = .error e := by
        rcases r with e | v'
        · exact ⟨e, rfl⟩
        · have := force_ok_done hf; rw [p'] at this; cases this
      obtain ⟨e, rfl⟩ := this
      rw [he e rfl u, p'] at hF; cases hF
    · rcases r with e | v'
      · -- failed: `u` is in progress in `a' = F`, not done
        have h2 : a'.st u = some .inProgress := by
          rcases p' with p' | ⟨w, p'⟩
          · exact p'
          · have := he e rfl u; rw [hF, p'] at this
            -- done in a': impossible after an error at `u`
            cases h with
            | zero => rw [force_zero_pending hp] at hf; cases hf; rw [hp] at p'; cases p'
            | succ n =>
              rcases force_pending_cases (code := c) (n := n) hp with ⟨_, _, _, _, e2⟩ | ⟨_, s2, _, h3, e2⟩
              · rw [e2] at hf; cases hf
              · rw [e2] at hf; cases hf; exact h3
        rw [he e rfl u, h2] at hF; cases hF
      · have hd' := force_ok_done hf
        have := hd u v' hd'
        rw [hF] at this; cases this
        refine ⟨b, force_done hb, fun x => ?_⟩
        rcases hs x with ⟨pa, w, hFw, hbw⟩ | ⟨hor, hbx⟩
        · rcases hm.pend x pa with ⟨q, _⟩ | ⟨q | ⟨w', q⟩, _⟩
          · exact .inl ⟨q, w, hFw, hbw⟩
          · exact absurd (hc _ rfl x q) (by rw [pa]; simp)
          · have := hd x w' q
            rw [hFw] at this; cases this
            exact .inr ⟨.inl (by rw [q]; simp), by rw [hbw, q]⟩
        · by_cases pa : a.st x = some .pending
          · have hnF : ∀ w, F.st x ≠ some (.done w) := by
              rcases hor with h1 | h1
              · exact absurd pa h1
              · exact h1
            rcases hm.pend x pa with ⟨q, _⟩ | ⟨q | ⟨w', q⟩, _⟩
            · exact .inr ⟨.inr hnF, by rw [hbx, pa, q]⟩
            · exact absurd (hc _ rfl x q) (by rw [pa]; simp)
            · exact absurd (hd x w' q) (hnF w')
          · have := (hm.frozen x pa).1
            exact .inr ⟨.inl (by rw [this]; exact pa), by rw [hbx, this]⟩
  intro h
  induction h with
  | zero =>
    intro u a b r a' hf hs hd he
    rcases st_cases a u with h | h | h | ⟨v, h⟩
    · have hb := same hs (u := u) (by rw [h]; simp)
      rw [force_none h] at hf; cases hf
      exact ⟨b, force_none (by rw [hb, h]), hs⟩
    · rcases hs u with ⟨_, v, hF, hb⟩ | ⟨_, hb⟩
      · exact memo hf h hs hd he hF hb
      · rw [force_zero_pending h] at hf; cases hf
        exact ⟨b, force_zero_pending (by rw [hb, h]), hs⟩
    · have hb := same hs (u := u) (by rw [h]; simp)
      rw [force_zero_inProgress h] at hf; cases hf
      exact ⟨b, force_zero_inProgress (by rw [hb, h]), hs⟩
    · have hb := same hs (u := u) (by rw [h]; simp)
      rw [force_done h] at hf; cases hf
      exact ⟨b, force_done (by rw [hb, h]), hs⟩
  | succ n ih =>
    intro u a b r a' hf hs hd he
    rcases st_cases a u with h | h | h | ⟨v, h⟩
    · have hb := same hs (u := u) (by rw [h]; simp)
      rw [force_none h] at hf; cases hf
      exact ⟨b, force_none (by rw [hb, h]), hs⟩
    · rcases hs u with ⟨_, v, hF, hb⟩ | ⟨hor, hb⟩
      · exact memo hf h hs hd he hF hb
      · have hnF : ∀ w, F.st u ≠ some (.done w) := by
          rcases hor with h1 | h1
          · exact absurd h h1
          · exact h1
        have hbp : b.st u = some .pending := by rw [hb, h]
        have hsm : SupRel (mark a u) (mark b u) F := by
          intro x
          by_cases hx : u = x
          · subst hx
            have e1 : (mark a u).st u = some .inProgress := st_mark_self (by rw [h]; simp)
            have e2 : (mark b u).st u = some .inProgress := st_mark_self (by rw [hbp]; simp)
            exact .inr ⟨.inl (by rw [e1]; simp), by rw [e1, e2]⟩
          · rw [st_mark_ne hx, st_mark_ne hx]; exact hs x
        rcases force_pending_cases (code := c) (n := n) h with ⟨v, a2, e, h2, e2⟩ | ⟨e', a2, e, h2, e2⟩
        · rw [e2] at hf; cases hf
          exact absurd (hd u v (st_setState_self (by rw [h2]; simp))) (hnF v)
        · rw [e2] at hf; cases hf
          obtain ⟨b2, f2, hs2⟩ := runProg_reeval (force_mono_st c n) ih (c u) _ _ _ _ e hsm hd he
          exact ⟨b2, by rw [force_succ_pending hbp, f2]; rfl, hs2⟩
    · have hb := same hs (u := u) (by rw [h]; simp)
      rw [force_succ_inProgress h] at hf; cases hf
      exact ⟨b, force_succ_inProgress (by rw [hb, h]), hs⟩
    · have hb := same hs (u := u) (by rw [h]; simp)
      rw [force_done h] at hf; cases hf
      exact ⟨b, force_done (by rw [hb, h]), hs⟩


/-- Evaluating the same thunk again right away gives the same outcome as the
    first time — a value by memoisation, and every error (StackOverflow
    included) because the failed run is repeated on the restored store. -/
theorem evalReq_reeval {c : Code} {limit t : Nat} {s : St} (hq : Quiet s) :
    (evalReq c limit t (evalReq c limit t s).2).1 = (evalReq c limit t s).1 := by
  unfold evalReq
  rcases res_cases (force c limit t s) with ⟨v, s1, e⟩ | ⟨e', a', e⟩
  · rw [e]
    simp only [settle_ok]
    rw [force_done (force_ok_done e)]; rfl
  · rw [e]
    simp only [settle_error]
    have hm : Mono s a' := by have := force_mono_st c limit t s; rwa [e] at this
    have hs : SupRel s (restore a') a' := by
      intro x
      rw [st_restore]
      by_cases hx : s.st x = some .pending
      · rcases hm.pend x hx with ⟨p, _⟩ | ⟨p | ⟨v, p⟩, _⟩
        · exact .inr ⟨.inr (fun v => by rw [p]; simp), by rw [p, hx]; rfl⟩
        · exact .inr ⟨.inr (fun v => by rw [p]; simp), by rw [p, hx]; rfl⟩
        · exact .inl ⟨hx, v, p, by rw [p]; rfl⟩
      · refine .inr ⟨.inl hx, ?_⟩
        rw [(hm.frozen x hx).1]
        rcases st_cases s x with h | h | h | ⟨v, h⟩
        · rw [h]; rfl
        · exact absurd h hx
        · exact absurd h (hq x)
        · rw [h]; rfl
    obtain ⟨b', f, _⟩ := force_reeval c limit t s (restore a') _ a' e hs (fun _ _ h => h)
      (fun _ _ _ => rfl)
    rw [f]; rfl

end Rsj.Thunk
