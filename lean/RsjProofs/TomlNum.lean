/-
  TOML writer, numbers (`tomlNum`): what the writer emits for a number token is
  again a number token, and when the emitted text is a TOML integer literal
  (no `.`, `e`, `E`) it is `-`? digits with magnitude < 2^63 (64-bit signed range).

  Ingredients: a number token is an RFC 8259 number that does not overflow
  (`lexNumber_sound`); an integer literal has neither fraction nor exponent; the
  overflow test on `t ++ ".0"` computes the same answer as on `t` (mantissa and
  threshold both scaled by 10, one more digit, decimal exponent -1).
-/
import RsjModel.Toml
import RsjProofs.JsonExactLex
import RsjProofs.NumChars
namespace Rsj.Toml
open Rsj.Json

theorem i64Limit_eq : i64Limit = 2 ^ 63 := rfl

theorem digitsVal_append (a b : Str) (acc : Nat) :
    digitsVal (a ++ b) acc = digitsVal b (digitsVal a acc) := by
  induction a generalizing acc with
  | nil => rfl
  | cons c a ih => simp only [List.cons_append, digitsVal]; exact ih _

theorem takeDrop_digits {k : Str} (hk : AllDigits k) (rest : Str)
    (hr : ∀ c r', rest = c :: r' → isDigit c = false) :
    (k ++ rest).takeWhile isDigit = k ∧ (k ++ rest).dropWhile isDigit = rest := by
  induction k with
  | nil =>
    cases rest with
    | nil => exact ⟨rfl, rfl⟩
    | cons c r' =>
      have := hr c r' rfl
      simp [this]
  | cons c k ih =>
    have hc : isDigit c = true := hk c List.mem_cons_self
    have := ih (fun x hx => hk x (List.mem_cons_of_mem _ hx))
    simp [hc, this.1, this.2]

theorem intOK_digits {i : Str} (h : IntOK i) :
    ∃ d ds, i = d :: ds ∧ isDigit d = true ∧ AllDigits ds := by
  rcases h with rfl | ⟨d, ds, rfl, hd, hds⟩
  · exact ⟨48, [], rfl, by decide, AllDigits.nil⟩
  · refine ⟨d, ds, rfl, ?_, hds⟩
    have := isDigit19_iff.mp hd
    exact isDigit_iff.mpr (by omega)

def strip (t : Str) : Str := match t with | 45 :: r => r | _ => t

def splitCore (t : Str) : Str × Str × Bool × Str :=
  let ip := t.takeWhile isDigit
  let r := t.dropWhile isDigit
  let (fp, r) := match r with
    | 46 :: r' => (r'.takeWhile isDigit, r'.dropWhile isDigit)
    | _ => ([], r)
  match r with
  | _ :: 45 :: ex => (ip, fp, true, ex)
  | _ :: 43 :: ex => (ip, fp, false, ex)
  | _ :: ex => (ip, fp, false, ex)
  | [] => (ip, fp, false, [])

theorem splitNumber_eq (t : Str) : splitNumber t = splitCore (strip t) := rfl

theorem strip_digit {d : Nat} (hd : isDigit d = true) (r : Str) : strip (d :: r) = d :: r := by
  have := isDigit_iff.mp hd
  unfold strip
  split
  · next h => simp only [List.cons.injEq] at h; omega
  · rfl

theorem strip_sign {sg : Str} (hsg : sg = [] ∨ sg = [45]) {d : Nat} (hd : isDigit d = true) (r : Str) :
    strip (sg ++ d :: r) = d :: r := by
  rcases hsg with rfl | rfl
  · exact strip_digit hd r
  · rfl

theorem splitCore_int {i : Str} (hi : AllDigits i) : splitCore i = (i, [], false, []) := by
  have h := takeDrop_digits hi [] (by intro c r h; cases h)
  rw [List.append_nil] at h
  unfold splitCore
  rw [h.1, h.2]

theorem splitCore_int_dot0 {i : Str} (hi : AllDigits i) :
    splitCore (i ++ [46, 48]) = (i, [48], false, []) := by
  have h := takeDrop_digits hi [46, 48] (by intro c r h; cases h; decide)
  unfold splitCore
  rw [h.1, h.2]
  rfl

theorem numDigits_mul10 (fuel m : Nat) (hm : m ≠ 0) :
    numDigits (fuel + 1) (m * 10) = 1 + numDigits fuel m := by
  rw [numDigits]
  have h1 : ¬ (m * 10 = 0) := by omega
  have h2 : (m * 10) / 10 = m := by omega
  rw [if_neg h1, h2]

theorem overflows_of_split {t ip fp ex : Str} {eneg : Bool} (h : splitNumber t = (ip, fp, eneg, ex)) :
    overflows t =
      (if digitsVal (ip ++ fp) 0 = 0 then false
       else if ((numDigits (ip.length + fp.length + 1) (digitsVal (ip ++ fp) 0) : Nat) : Int)
            + ((if eneg then - (digitsVal ex 0 : Int) else (digitsVal ex 0 : Int)) - (fp.length : Int)) > 310 then true
       else if ((numDigits (ip.length + fp.length + 1) (digitsVal (ip ++ fp) 0) : Nat) : Int)
            + ((if eneg then - (digitsVal ex 0 : Int) else (digitsVal ex 0 : Int)) - (fp.length : Int)) < 300 then false
       else if ((if eneg then - (digitsVal ex 0 : Int) else (digitsVal ex 0 : Int)) - (fp.length : Int)) ≥ 0 then
         decide (digitsVal (ip ++ fp) 0 *
           10 ^ ((if eneg then - (digitsVal ex 0 : Int) else (digitsVal ex 0 : Int)) - (fp.length : Int)).toNat ≥ overflowThreshold)
       else decide (digitsVal (ip ++ fp) 0 ≥ overflowThreshold *
           10 ^ (-((if eneg then - (digitsVal ex 0 : Int) else (digitsVal ex 0 : Int)) - (fp.length : Int))).toNat)) := by
  unfold overflows
  rw [h]

theorem overflows_dot0 {sg : Str} (hsg : sg = [] ∨ sg = [45]) {d : Nat} (hd : isDigit d = true)
    {ds : Str} (hds : AllDigits ds) :
    overflows (sg ++ d :: ds ++ [46, 48]) = overflows (sg ++ d :: ds) := by
  have had : AllDigits (d :: ds) := AllDigits.cons hd hds
  have h1 : splitNumber (sg ++ d :: ds) = (d :: ds, [], false, []) := by
    rw [splitNumber_eq, strip_sign hsg hd, splitCore_int had]
  have h2 : splitNumber (sg ++ d :: ds ++ [46, 48]) = (d :: ds, [48], false, []) := by
    rw [splitNumber_eq, List.append_assoc, List.cons_append, strip_sign hsg hd, ← List.cons_append,
      splitCore_int_dot0 had]
  rw [overflows_of_split h1, overflows_of_split h2]
  generalize overflowThreshold = T
  generalize d :: ds = i
  rw [digitsVal_append, List.append_nil]
  generalize digitsVal i 0 = m
  rw [show digitsVal [48] m = m * 10 from rfl]
  by_cases hm : m = 0
  · subst hm; simp
  · have h0 : ¬ (m * 10 = 0) := by omega
    rw [if_neg hm, if_neg h0]
    have hnd : numDigits (i.length + [48].length + 1) (m * 10) =
        1 + numDigits (i.length + ([] : Str).length + 1) m := numDigits_mul10 _ m hm
    rw [hnd]
    generalize numDigits (i.length + ([] : Str).length + 1) m = n
    rw [show digitsVal [] 0 = 0 from rfl]
    simp
    have e1 : (1 + (n : Int) + -1) = n := by omega
    have e2 : (T * 10 ≤ m * 10) ↔ (T ≤ m) := by omega
    rw [e1, decide_eq_decide.mpr e2]

/-! ## number tokens and integer literals -/

theorem jsonNumber_of_numTok {t : Str} (ht : NumTok t) : JsonNumber t ∧ overflows t = false := by
  have h := lexNumber_sound (numTok_lex ht)
  exact ⟨jsonNumber_iff.mpr h.2.1, h.2.2⟩

theorem isIntLit_chars {t : Str} (hi : isIntLit t = true) : ∀ c ∈ t, c = 45 ∨ isDigit c = true := by
  unfold isIntLit at hi
  rw [Bool.and_eq_true, List.all_eq_true] at hi
  have hall := hi.2
  cases t with
  | nil => intro c hc; cases hc
  | cons c0 r =>
    intro c hc
    by_cases h45 : c0 = 45
    · rw [intBody, if_pos h45] at hall
      rcases List.mem_cons.mp hc with rfl | hc
      · exact Or.inl h45
      · exact Or.inr (hall c hc)
    · rw [intBody, if_neg h45] at hall
      exact Or.inr (hall c hc)

theorem intBody_shape {sg : Str} (hsg : sg = [] ∨ sg = [45]) {d : Nat} (hd : isDigit d = true) (r : Str) :
    intBody (sg ++ d :: r) = d :: r := by
  rcases hsg with rfl | rfl
  · have := isDigit_iff.mp hd
    have h45 : ¬ d = 45 := by omega
    rw [List.nil_append, intBody, if_neg h45]
  · rfl

/-- a JSON number without '.', 'e', 'E' is `-`? int -/
theorem intShape {t : Str} (hj : JsonNumber t) (h : ∀ c ∈ t, c ≠ 46 ∧ c ≠ 101 ∧ c ≠ 69) :
    ∃ sg d ds, t = sg ++ d :: ds ∧ (sg = [] ∨ sg = [45]) ∧ IntOK (d :: ds) ∧
      isDigit d = true ∧ AllDigits ds := by
  obtain ⟨sg, i, fr, e, rfl, hsg, hi, hf, he⟩ := hj
  have hfr : fr = [] := by
    rcases hf with rfl | ⟨d, ds, rfl, _, _⟩
    · rfl
    · exact absurd rfl (h 46 (by simp)).1
  have he' : e = [] := by
    rcases he with rfl | ⟨x, sg', d, ds, rfl, hx, _, _, _⟩
    · rfl
    · have := h x (by simp)
      rcases hx with rfl | rfl
      · exact absurd rfl this.2.1
      · exact absurd rfl this.2.2
  subst hfr; subst he'
  obtain ⟨d, ds, rfl, hd, hds⟩ := intOK_digits hi
  exact ⟨sg, d, ds, by simp, hsg, hi, hd, hds⟩

theorem isIntLit_shape {sg : Str} (hsg : sg = [] ∨ sg = [45]) {d : Nat} (hd : isDigit d = true)
    {ds : Str} (hds : AllDigits ds) : isIntLit (sg ++ d :: ds) = true := by
  unfold isIntLit
  rw [intBody_shape hsg hd, Bool.and_eq_true, List.all_eq_true]
  exact ⟨rfl, AllDigits.cons hd hds⟩

theorem noFrac_of_isIntLit {t : Str} (hi : isIntLit t = true) :
    ∀ c ∈ t, c ≠ 46 ∧ c ≠ 101 ∧ c ≠ 69 := by
  intro c hc
  rcases isIntLit_chars hi c hc with rfl | hd
  · decide
  · have := isDigit_iff.mp hd
    omega

/-! ## the four statements -/

/-- an integer-literal number token followed by ".0" is a number token again -/
theorem numTok_dot0 {t : Str} (ht : NumTok t) (hi : isIntLit t = true) : NumTok (t ++ [46, 48]) := by
  obtain ⟨hj, hov⟩ := jsonNumber_of_numTok ht
  obtain ⟨sg, d, ds, rfl, hsg, hint, hd, hds⟩ := intShape hj (noFrac_of_isIntLit hi)
  refine numTok_of_jsonNumber ?_ ?_
  · exact ⟨sg, d :: ds, [46, 48], [], by simp, hsg, hint,
      Or.inr ⟨48, [], rfl, by decide, AllDigits.nil⟩, Or.inl rfl⟩
  · rw [overflows_dot0 hsg hd hds]; exact hov

theorem isIntLit_of_bigInt {t : Str} (h : bigInt t = true) : isIntLit t = true := by
  unfold bigInt at h
  rw [Bool.and_eq_true] at h
  exact h.1

theorem numTok_tomlNum {t : Str} (ht : NumTok t) : NumTok (tomlNum t) := by
  unfold tomlNum
  split
  · next hb => exact numTok_dot0 ht (isIntLit_of_bigInt hb)
  · exact ht

/-- a number token without '.', 'e', 'E' is an integer literal -/
theorem isIntLit_of_noFrac {t : Str} (ht : NumTok t) (h : ∀ c ∈ t, c ≠ 46 ∧ c ≠ 101 ∧ c ≠ 69) :
    isIntLit t = true := by
  obtain ⟨sg, d, ds, rfl, hsg, _, hd, hds⟩ := intShape (jsonNumber_of_numTok ht).1 h
  exact isIntLit_shape hsg hd hds

/-- **token-level range statement**: if what the writer emits for a number token has no '.', 'e', 'E'
    (i.e. is a TOML integer literal) then it is `-`? digits with magnitude < 2^63 -/
theorem tomlNum_int_in_range {t : Str} (ht : NumTok t) (h : ∀ c ∈ tomlNum t, c ≠ 46 ∧ c ≠ 101 ∧ c ≠ 69) :
    tomlNum t = t ∧ isIntLit t = true ∧ digitsVal (intBody t) 0 < 2 ^ 63 := by
  by_cases hb : bigInt t = true
  · have : tomlNum t = t ++ [46, 48] := by unfold tomlNum; rw [if_pos hb]
    rw [this] at h
    exact absurd rfl (h 46 (by simp)).1
  · have heq : tomlNum t = t := by unfold tomlNum; rw [if_neg hb]
    rw [heq] at h
    have hi := isIntLit_of_noFrac ht h
    refine ⟨heq, hi, ?_⟩
    have hlt : ¬ (i64Limit ≤ digitsVal (intBody t) 0) := by
      intro hle
      apply hb
      unfold bigInt
      rw [hi, Bool.true_and]
      exact decide_eq_true hle
    rw [← i64Limit_eq]
    exact Nat.lt_of_not_le hlt

end Rsj.Toml

#print axioms Rsj.Toml.numTok_dot0
#print axioms Rsj.Toml.numTok_tomlNum
#print axioms Rsj.Toml.isIntLit_of_noFrac
#print axioms Rsj.Toml.tomlNum_int_in_range
