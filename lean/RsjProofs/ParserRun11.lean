/-
  C15 print/parse, part 11 (second fragment `Frag2`): the machine statements as a schema over a
  *token function* `W lvl openRight elseNext` (the printed form of one position, as a function of
  the printer's three position parameters) and the erased target tree `te`.  The same schema is
  instantiated with `pr full t` (a node) and `sub full t` (a subexpression position), for both
  printing modes.  This file: definitions and the generic derivations between the statements.
-/
import RsjProofs.ParserRun9
import RsjProofs.ParserSlice
namespace Rsj.Parser

/-- printed form of a position as a function of `lvl`, `openRight`, `elseNext` -/
abbrev TokFn := Nat → Bool → Bool → Toks

/-- What the printer's position flags promise about the token `tk` that follows the position:
    `openRight = false`: no postfix form, binary operator or `in` follows;
    `elseNext = false`: the next token is not `else`. -/
def FollowOK (o el : Bool) (tk : TokKind) : Prop :=
  (o = false → StopTok tk) ∧ (tk = sim .Else → el = true)

theorem FollowOK.of_open {tk : TokKind} (h : tk ≠ sim .Else) : FollowOK true false tk :=
  ⟨fun h0 => Bool.noConfusion h0, fun h' => absurd h' h⟩

theorem FollowOK.of_stop {tk : TokKind} (el : Bool) (h : StopTok tk) (h2 : tk ≠ sim .Else) (o : Bool) :
    FollowOK o el tk := ⟨fun _ => h, fun h' => absurd h' h2⟩

section
variable {toks : List Token} (pe : PState toks → Except (Err toks) (Expr × PState toks)) (R : Nat)

/-- `pe` parses the tokens `X` (a bracketed subexpression printed with `openRight = false`) when
    fewer than `R` tokens remain and the following token satisfies `C` -/
def HandlesT (X : Toks) (xe : Expr) (C : TokKind → Prop) : Prop :=
  ∀ (st : PState toks) (tk : TokKind) (T : List TokKind), st.kinds = X ++ tk :: T →
    st.kinds.length < R → StopTok tk → C tk →
    ∃ i' st', pe st = .ok (i', st') ∧ i'.erase = xe ∧ st'.kinds = tk :: T

/-- head parse: `State::Primary` on the head tokens `H` -/
def HDtok (H : Toks) (he : Expr) (C : TokKind → Prop) : Prop :=
  ∀ (S : List StackItem) (st : PState toks) (y : TokKind) (Y : List TokKind),
    st.kinds = H ++ y :: Y → st.kinds.length ≤ R → C y →
    ∃ h' st1 n, h'.erase = he ∧ st1.kinds = y :: Y ∧ n + 38 ≤ 40 * H.length ∧
      Reach pe (R + 2) (.suffix :: S) .primary st n (.suffix :: S) (.parsed h') st1

/-- the postfix loop on the postfix tokens `Sf` -/
def SLtok (Sf : Toks) (he te : Expr) : Prop :=
  ∀ (lhs : Expr) (st : PState toks) (y : TokKind) (Y : List TokKind), lhs.erase = he →
    st.kinds = Sf ++ y :: Y → st.kinds.length ≤ R → y ≠ sim .Tailstrict →
    ∃ t' st2, t'.erase = te ∧ st2.kinds = y :: Y ∧
      ∀ f, st.kinds.length + 1 ≤ f →
        ∃ f', st2.kinds.length + 1 ≤ f' ∧ parseSuffixExpr pe f lhs st = parseSuffixExpr pe f' t' st2

/-- the position printed at postfix level splits into a head and postfix forms -/
def SufForm (W : TokFn) (te : Expr) (o el : Bool) : Prop :=
  ∃ (H Sf : Toks) (he : Expr) (C : TokKind → Prop), W suffixPrec o el = H ++ Sf ∧
    HDtok pe R H he C ∧ SLtok pe R Sf he te ∧
    (∀ tk T y Y, Sf ++ tk :: T = y :: Y → FollowOK o el tk → C y)

/-- printed at postfix level, from `State::Primary` (with the `Suffix` item on the stack) -/
def L11W (W : TokFn) (te : Expr) (o el : Bool) : Prop :=
  ∀ (S : List StackItem) (st : PState toks) (tk : TokKind) (T : List TokKind),
    st.kinds = W suffixPrec o el ++ tk :: T → st.kinds.length ≤ R → NotSuffixStart tk → FollowOK o el tk →
    ∃ t' st' n, t'.erase = te ∧ st'.kinds = tk :: T ∧ n + 37 ≤ 40 * (W suffixPrec o el).length ∧
      Reach pe (R + 2) (.suffix :: S) .primary st n S (.parsed t') st'

/-- printed at unary level, from `State::Unary` -/
def L10W (W : TokFn) (te : Expr) (o el : Bool) : Prop :=
  ∀ (S : List StackItem) (st : PState toks) (tk : TokKind) (T : List TokKind),
    st.kinds = W unaryPrec o el ++ tk :: T → st.kinds.length ≤ R → NotSuffixStart tk → FollowOK o el tk →
    ∃ t' st' n, t'.erase = te ∧ st'.kinds = tk :: T ∧ n + 36 ≤ 40 * (W unaryPrec o el).length ∧
      Reach pe (R + 2) S .unary st n S (.parsed t') st'

/-- printed at the level of kind `p`, from `State::Binary(c)`: the machine arrives at
    `State::BinaryRhs(p, t')` -/
def LQW (W : TokFn) (te : Expr) (p : BinKind) (o el : Bool) : Prop :=
  ∀ (c : BinKind) (S : List StackItem) (st : PState toks) (tk : TokKind) (T : List TokKind),
    c.prec ≤ p.prec → st.kinds = W p.prec o el ++ tk :: T → st.kinds.length ≤ R → NotSuffixStart tk →
    NoOpAbove p.prec tk → FollowOK o el tk →
    ∃ S' t' st' n, Below c p S S' ∧ t'.erase = te ∧ st'.kinds = tk :: T ∧
      n + 7 ≤ 40 * (W p.prec o el).length ∧
      Reach pe (R + 2) S (.binary c) st n S' (.binaryRhs p t') st'

/-- all machine statements for one printed position -/
structure AllW (W : TokFn) (te : Expr) : Prop where
  suf : ∀ o el, SufForm pe R W te o el
  l10 : ∀ o el, L10W pe R W te o el
  lq : ∀ p o el, LQW pe R W te p o el

/-- the first token is no unary operator -/
def NotUnaryTok (tk : TokKind) : Prop :=
  tk ≠ sim .Plus ∧ tk ≠ sim .Minus ∧ tk ≠ sim .Tilde ∧ tk ≠ sim .Exclam

omit pe R in
theorem unaryStep_miss2 {st : PState toks} (S : List StackItem) (h : NotUnaryTok st.cur.kind) :
    ∃ st', unaryStep S st = .ok ((.suffix :: S, .primary), st') ∧ st'.kinds = st.kinds := by
  obtain ⟨st', he, hk, _, _⟩ := eatFirst_miss false unaryOps st (by
    intro x hx
    simp only [unaryOps, List.mem_cons, List.mem_nil_iff, or_false] at hx
    obtain ⟨h1, h2, h3, h4⟩ := h
    simp only [sim] at h1 h2 h3 h4
    rcases hx with rfl | rfl | rfl | rfl <;> assumption)
  refine ⟨st', ?_, hk⟩
  unfold unaryStep
  rw [he]; rfl

/-- postfix level = head, then the postfix loop -/
theorem L11W_of {W : TokFn} {te : Expr} {o el : Bool} (h : SufForm pe R W te o el) : L11W pe R W te o el := by
  obtain ⟨H, Sf, he, C, hW, hd, sl, hC⟩ := h
  intro S st tk T hk hR hns hfo
  rw [hW, List.append_assoc] at hk
  obtain ⟨y, Y, hy⟩ : ∃ y Y, Sf ++ tk :: T = y :: Y := by
    cases hs : Sf with
    | nil => exact ⟨tk, T, rfl⟩
    | cons a l => exact ⟨a, l ++ tk :: T, rfl⟩
  rw [hy] at hk
  obtain ⟨h', st1, n, hhe, hk1, hn, hr⟩ := hd S st y Y hk hR (hC tk T y Y hy hfo)
  rw [← hy] at hk1
  have hR1 : st1.kinds.length ≤ R := by
    have : st1.kinds.length ≤ st.kinds.length := by rw [hk1, hk, hy]; simp
    omega
  obtain ⟨t', st2, het, hk2, hsl⟩ := sl h' st1 tk T hhe hk1 hR1 hns.2.2.2.2
  obtain ⟨st3, hk3, hdone⟩ := suffix_done pe t' (st := st2) (by rw [cur_kind_of_kinds hk2]; exact hns)
  refine ⟨t', st3, n + 1, het, by rw [hk3, hk2], ?_, ?_⟩
  · rw [hW, List.length_append]; omega
  · refine Reach.trans pe hr (Reach.parsed pe ?_)
    intro fuel hf
    obtain ⟨f', hf', heq⟩ := hsl fuel (by omega)
    obtain ⟨f'', rfl⟩ : ∃ f'', f' = f'' + 1 := ⟨f' - 1, by omega⟩
    unfold parsedStep
    rw [heq, hdone f'']
    rfl

/-- unary level for a position printed there as at postfix level, not starting with a unary
    operator -/
theorem L10W_of_L11W {W : TokFn} {te : Expr} {o el : Bool}
    (hP : W unaryPrec o el = W suffixPrec o el)
    (hhead : ∃ a l, W suffixPrec o el = a :: l ∧ NotUnaryTok a)
    (h11 : L11W pe R W te o el) : L10W pe R W te o el := by
  intro S st tk T hk hR hns hfo
  rw [hP] at hk ⊢
  obtain ⟨a, l, hal, hnu⟩ := hhead
  have hprim : NotUnaryTok st.cur.kind := by
    rw [hal] at hk
    rw [cur_kind_of_kinds hk]
    exact hnu
  obtain ⟨st1, hstep, hk1⟩ := unaryStep_miss2 S hprim
  obtain ⟨t', st', n, het, hk', hn, hr⟩ := h11 S st1 tk T (by rw [hk1]; exact hk) (by rw [hk1]; exact hR) hns hfo
  exact ⟨t', st', 1 + n, het, hk', by omega, Reach.trans pe (Reach.unary pe hstep) hr⟩

/-- binary level `p` for a position printed there exactly as at unary level -/
theorem LQW_of_L10W {W : TokFn} {te : Expr} {o el : Bool} (p : BinKind)
    (hP : W p.prec o el = W unaryPrec o el) (h10 : L10W pe R W te o el) : LQW pe R W te p o el := by
  intro c S st tk T hcp hk hR hns hno hfo
  rw [hP] at hk ⊢
  obtain ⟨top, S9, htop, hchain, hr1⟩ := reach_unary pe (R + 2) c S st (9 - c.prec) c S
    (by have := prec_lt c; omega) (Or.inl ⟨rfl, rfl⟩)
  obtain ⟨t', st1, n, het, hk1, hn, hr2⟩ := h10 S9 st tk T hk hR hns hfo
  obtain ⟨S8, rfl, hb8⟩ := hchain.pop
  have hr3 : Reach pe (R + 2) (.binaryLhs top :: S8) (.parsed t') st1 1 S8 (.binaryRhs top t') st1 :=
    Reach.parsed pe (fun _ _ => rfl)
  obtain ⟨S', st2, hb, hk2, hr4⟩ := reach_down pe (R + 2) c p S t' (9 - p.prec) top S8 st1
    (by have := prec_last htop; have := prec_lt p; omega) hb8 hcp
    (by rw [cur_kind_of_kinds hk1]; exact hno)
  refine ⟨S', t', st2, (9 - c.prec + 1) + n + 1 + 2 * (9 - p.prec), hb, het, by rw [hk2, hk1], ?_, ?_⟩
  · have := prec_lt c; have := prec_lt p; omega
  · exact Reach.trans pe (Reach.trans pe (Reach.trans pe hr1 hr2) hr3) hr4

/-- no postfix part -/
theorem SLtok_nil (he : Expr) : SLtok pe R [] he he := by
  intro lhs st y Y hl hk _ _
  exact ⟨lhs, st, hl, hk, fun f hf => ⟨f, hf, rfl⟩⟩

/-- composition of postfix parts (the second part is not empty and does not begin with `tailstrict`) -/
theorem SLtok.comp {Sf : Toks} {z : TokKind} {Z' : Toks} {he xe te : Expr} (hz : z ≠ sim .Tailstrict)
    (h1 : SLtok pe R Sf he xe) (h2 : SLtok pe R (z :: Z') xe te) :
    SLtok pe R (Sf ++ z :: Z') he te := by
  intro lhs st y Y hl hk hR hy
  have hk0 : st.kinds = Sf ++ z :: (Z' ++ y :: Y) := by rw [hk, List.append_assoc]; rfl
  obtain ⟨x', st1, hx', hk1, hsl⟩ := h1 lhs st z (Z' ++ y :: Y) hl hk0 hR hz
  have hR1 : st1.kinds.length ≤ R := by
    have : st1.kinds.length ≤ st.kinds.length := by rw [hk1, hk0]; simp
    omega
  obtain ⟨t', st2, ht', hk2, hsl2⟩ := h2 x' st1 y Y hx' (by rw [hk1]; rfl) hR1 hy
  refine ⟨t', st2, ht', hk2, fun f hf => ?_⟩
  obtain ⟨f1, hf1, heq1⟩ := hsl f hf
  obtain ⟨f2, hf2, heq2⟩ := hsl2 f1 hf1
  exact ⟨f2, hf2, by rw [heq1, heq2]⟩

end
end Rsj.Parser
