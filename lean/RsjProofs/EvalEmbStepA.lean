import RsjProofs.EvalEmbBuiltins2c
/-!
  Store-embedding invariance of the evaluator, one theorem per branch of `step` (part A):
  the branches `force`, `asserts`, `deep` and `manifest`.
-/
set_option linter.unusedVariables false
namespace Rsj.Eval
open Rsj.Core
set_option linter.unusedSectionVars false
variable [Mode]

/-- the indexed layer list `(index, layer)` of two related objects -/
private theorem RList.zipIdxSwap {α β : Type} {R : Emb → α → β → Prop} {ρ : Emb} {l : List α} {l' : List β}
    (h : RList R ρ l l') (n : Nat) :
    RList (RProd REq R) ρ ((l.zipIdx n).map (fun p => (p.2, p.1))) ((l'.zipIdx n).map (fun p => (p.2, p.1))) := by
  induction h generalizing n with
  | nil => exact .nil
  | cons h1 _ ih => exact .cons ⟨rfl, h1⟩ (ih (n + 1))

private theorem layersAnyAsserts_rel {ρ : Emb} {ls ls' : List Layer} (h : RList RLayer ρ ls ls') :
    ls.any (fun l => !l.asserts.isEmpty) = ls'.any (fun l => !l.asserts.isEmpty) := by
  induction h with
  | nil => rfl
  | cons h1 _ ih => simp only [List.any_cons, h1.asserts, ih]

private theorem RList.isEmpty_eq' {α β : Type} {R : Emb → α → β → Prop} {ρ : Emb} {l : List α} {l' : List β}
    (h : RList R ρ l l') : l.isEmpty = l'.isEmpty := by
  cases h <;> rfl

section
variable {cfg cfg' : Cfg} [RCfg cfg cfg'] {rec rec' : Task → M Value} (hrec : RecRel rec rec')
include hrec

/-- `force`: run the pending body once, store the value -/
theorem step_force_rel {ρ : Emb} {t t' : TId} (d : Nat) {d' : Nat} (ht : RT ρ t t') (hd : RDep d d' := by rdep) :
    MRel ρ RVal (step cfg rec (.force t d)) (step cfg' rec' (.force t' d')) := by
  unfold step
  mnorm
  mbind (switchState_rel ht) with s s' hs
  cases hs <;> simp only []
  · rename_i p p' hp
    mbind (thunkBody_rel hrec d hp) with v v' hv
    mbind (finishThunk_rel ht hv) with u u' hu
    exact MRel_pure hv
  · exact MRel_throw rfl
  · exact MRel_throw rfl
  · exact MRel_pure ‹_›

/-- `asserts`: the object assertions, self layer first -/
theorem step_asserts_rel {ρ : Emb} {o o' : OId} (d : Nat) {d' : Nat} (ho : RO ρ o o') (hd : RDep d d' := by rdep) :
    MRel ρ RVal (step cfg rec (.asserts o d)) (step cfg' rec' (.asserts o' d')) := by
  unfold step
  mnorm
  mbind (getObj_rel ho) with ob ob' hob
  rw [← hob.assertsChecked]
  split
  · exact MRel_pure .null
  · mbind (setObj_rel ho ⟨hob.layers, rfl, layersAnyAsserts_rel hob.layers⟩) with u u' hu
    have hl := hob.layers.zipIdxSwap 0
    refine MRel_bind (Q₁ := RTrue) ?_ ?_
    · refine MRel_forIn (RProd REq RLayer) RTrue hl trivial ?_
      intro ρ'' hle x x' acc acc' hx hx' hxx hacc
      lift_hyps hle
      clear hle
      obtain ⟨li, layer⟩ := x
      obtain ⟨li', layer'⟩ := x'
      obtain ⟨hli, hlayer⟩ := hxx
      cases hli
      have hlayer : RLayer _ layer layer' := hlayer
      simp only []
      rw [← hlayer.asserts]
      refine MRel_bind (Q₁ := RTrue) ?_ ?_
      · mfor RTrue with a a' ha x hx
        · trivial
        · mbind (layerEnv_rel li ho) with env env' henv
          mbind (hrec _ _ _ (.eval x.fst false d henv)) with cv cv' hcv
          cases hcv <;> (try simp only []) <;> try (exact MRel_throw rfl)
          · rename_i b
            cases b <;> simp only []
            · cases x.snd with
              | none => exact MRel_throw rfl
              | some me =>
                simp only []
                mbind (hrec _ _ _ (.eval me false d henv)) with mv mv' hmv
                mbind (coerceToString_rel hrec d hmv) with s s' hs
                cases hs
                exact MRel_throw rfl
            · exact MRel_pure (.yield trivial)
      · mcont a a' ha
        exact MRel_pure (.yield trivial)
    · mcont a a' ha
      mbind (getObj_rel ho) with ob2 ob2' hob2
      mbind (setObj_rel ho ⟨hob2.layers, hob2.assertsChecked, rfl⟩) with u2 u2' hu2
      exact MRel_pure .null

private theorem deep_go_rel {ρ : Emb} {t t' : TId} (d : Nat) {d' : Nat} (ht : RT ρ t t') (hd : RDep d d' := by rdep) :
    MRel ρ (RStep (@RTrue PUnit PUnit))
      (do checkDepth cfg (d + 1)
          let iv ← rec (Task.force t (d + 1))
          let _ ← rec (Task.deep iv (d + 1))
          pure (ForInStep.yield PUnit.unit))
      (do checkDepth cfg' (d' + 1)
          let iv ← rec' (Task.force t' (d' + 1))
          let _ ← rec' (Task.deep iv (d' + 1))
          pure (ForInStep.yield PUnit.unit)) := by
  mbind (checkDepth_rel _ _) with u u' hu
  mbind (hrec _ _ _ (.force _ ht)) with iv iv' hiv
  mbind (hrec _ _ _ (.deep _ hiv)) with w w' hw
  exact MRel_pure (.yield trivial)

/-- the loop body of `deep`: inspect the cell, force and descend when needed -/
local syntax "deep_item " ident ident : tactic
local macro_rules
  | `(tactic| deep_item $hrec $ht) => `(tactic| (
      mbind (getThunk_rel $ht) with s s' hs
      cases hs
      · simp only [if_true]; exact deep_go_rel $hrec _ $ht
      · simp only [if_true]; exact deep_go_rel $hrec _ $ht
      · simp only [if_true]; exact deep_go_rel $hrec _ $ht
      · rename_i hdv
        cases hdv <;> simp only [if_true, Bool.false_eq_true, if_false] <;>
          first
          | exact deep_go_rel $hrec _ $ht
          | exact MRel_pure (.yield trivial)))

/-- `deep`: force an array / object value completely (`std.trace` argument, top level of manifestation) -/
theorem step_deep_rel {ρ : Emb} {v v' : Value} (d : Nat) {d' : Nat} (hv : RVal ρ v v') (hd : RDep d d' := by rdep) :
    MRel ρ RVal (step cfg rec (.deep v d)) (step cfg' rec' (.deep v' d')) := by
  unfold step
  mnorm
  cases hv <;> simp only []
  case arr xs ys hxs =>
    refine MRel_bind (Q₁ := RTrue) ?_ ?_
    · refine MRel_forIn RT RTrue hxs trivial ?_
      intro ρ' hle t t' acc acc' _ _ ht hacc
      lift_hyps hle
      clear hle
      deep_item hrec ht
    · mcont a a' ha
      exact MRel_pure (.arr hxs)
  case obj o o' ho =>
    mbind (hrec _ _ _ (.asserts d ho)) with w w' hw
    mbind (getObj_rel ho) with ob ob' hob
    rw [visibleFields_rel hob]
    refine MRel_bind (Q₁ := RTrue) ?_ ?_
    · mfor RTrue with acc acc' hacc name hname
      · trivial
      · mbind (fieldThunk_rel 0 name ho) with ot ot' hot
        cases hot
        · exact MRel_throw rfl
        · rename_i t t' ht
          simp only []
          deep_item hrec ht
    · mcont a a' ha
      exact MRel_pure (.obj ho)
  · exact MRel_pure .null
  · exact MRel_pure (.bool _)
  · exact MRel_pure (.num _)
  · exact MRel_pure (.str _)
  · exact MRel_pure (.func ‹_›)

/-- `manifest`: JSON text (or canonical key) of a value -/
theorem step_manifest_rel {ρ : Emb} {v v' : Value} (d : Nat) {d' : Nat} (canon : Bool) (hv : RVal ρ v v') (hd : RDep d d' := by rdep) :
    MRel ρ RVal (step cfg rec (.manifest v d canon)) (step cfg' rec' (.manifest v' d' canon)) := by
  unfold step
  mnorm
  cases hv <;> simp only []
  case arr xs ys hxs =>
    rw [← hxs.isEmpty_eq']
    split
    · exact MRel_pure (.str _)
    · refine MRel_bind (Q₁ := REq) ?_ ?_
      · refine MRel_forIn RT REq hxs rfl ?_
        intro ρ' hle t t' acc acc' _ _ ht hacc
        lift_hyps hle
        clear hle
        cases hacc
        mbind (checkDepth_rel _ _) with u u' hu
        mbind (hrec _ _ _ (.force _ ht)) with iv iv' hiv
        mbind (recStr_rel hrec (.manifest _ canon hiv)) with s s' hs
        cases hs
        exact MRel_pure (.yield rfl)
      · mcont parts parts' hparts
        cases hparts
        exact MRel_pure (.str _)
  case obj o o' ho =>
    mbind (hrec _ _ _ (.asserts d ho)) with w w' hw
    mbind (getObj_rel ho) with ob ob' hob
    rw [visibleFields_rel hob]
    split
    · exact MRel_pure (.str _)
    · refine MRel_bind (Q₁ := REq) ?_ ?_
      · mfor REq with acc acc' hacc name hname
        · rfl
        · cases hacc
          mbind (fieldThunk_rel 0 name ho) with ot ot' hot
          cases hot
          · exact MRel_throw rfl
          · rename_i t t' ht
            simp only []
            mbind (checkDepth_rel _ _) with u u' hu
            mbind (hrec _ _ _ (.force _ ht)) with fv fv' hfv
            mbind (recStr_rel hrec (.manifest _ canon hfv)) with s s' hs
            cases hs
            exact MRel_pure (.yield rfl)
      · mcont parts parts' hparts
        cases hparts
        exact MRel_pure (.str _)
  · exact MRel_pure (.str _)
  · exact MRel_pure (.str _)
  · rename_i f
    split
    · exact MRel_pure (.str _)
    · mbind (numText_rel f) with s s' hs
      cases hs
      exact MRel_pure (.str _)
  · split
    · exact MRel_pure (.str _)
    · exact MRel_pure (.str _)
  · exact MRel_throw rfl
end

end Rsj.Eval
