/-
  `get_visible_fields_order` of a single-layer object (model `visibleSorted`):
  names come out strictly increasing in `str::cmp` order, exactly the
  non-hidden fields.
-/
import RsjModel.Json
namespace Rsj.Json

theorem strLt_irrefl : ∀ a : Str, strLt a a = false
  | [] => rfl
  | c :: a => by rw [strLt]; simp [strLt_irrefl a]

theorem strLt_trans : ∀ {a b c : Str}, strLt a b = true → strLt b c = true → strLt a c = true
  | [], [], _, h, _ => by simp [strLt] at h
  | [], _ :: _, [], _, h => by simp [strLt] at h
  | [], _ :: _, _ :: _, _, _ => by simp [strLt]
  | _ :: _, [], _, h, _ => by simp [strLt] at h
  | _ :: _, _ :: _, [], _, h => by simp [strLt] at h
  | x :: a, y :: b, z :: c, h1, h2 => by
    rw [strLt] at h1 h2 ⊢
    by_cases hxy : x < y
    · by_cases hyz : y < z
      · have : x < z := by omega
        simp [this]
      · by_cases hzy : z < y
        · simp [hyz, hzy] at h2
        · have : y = z := by omega
          subst this; simp [hxy]
    · by_cases hyx : y < x
      · simp [hxy, hyx] at h1
      · have : x = y := by omega
        subst this
        simp only [hxy, if_false] at h1
        by_cases hxz : x < z
        · simp [hxz]
        · by_cases hzx : z < x
          · simp [hxz, hzx] at h2
          · simp only [hxz, hzx, if_false] at h2 ⊢
            exact strLt_trans h1 h2

theorem strLt_total : ∀ {a b : Str}, strLt a b = false → strLt b a = false → a = b
  | [], [], _, _ => rfl
  | [], _ :: _, h, _ => by simp [strLt] at h
  | _ :: _, [], _, h => by simp [strLt] at h
  | x :: a, y :: b, h1, h2 => by
    rw [strLt] at h1 h2
    by_cases hxy : x < y
    · simp [hxy] at h1
    · by_cases hyx : y < x
      · simp [hyx] at h2
      · have : x = y := by omega
        subst this
        simp only [hxy, if_false] at h1 h2
        rw [strLt_total h1 h2]

theorem strLt_ne {a b : Str} (h : strLt a b = true) : a ≠ b := by
  intro e; subst e; rw [strLt_irrefl] at h; cases h

section
variable {α : Type}

def Sorted (l : List (Str × α)) : Prop := l.Pairwise (fun x y => strLt x.1 y.1 = true)

theorem mem_btInsert {k : Str} {v : α} {l : List (Str × α)} {p : Str × α}
    (h : p ∈ btInsert k v l) : p = (k, v) ∨ p ∈ l := by
  induction l with
  | nil => simp [btInsert] at h; exact Or.inl h
  | cons q l ih =>
    obtain ⟨k', v'⟩ := q
    rw [btInsert] at h
    split at h
    · rcases List.mem_cons.mp h with h | h
      · exact Or.inl h
      · exact Or.inr h
    · split at h
      · rcases List.mem_cons.mp h with h | h
        · exact Or.inr (h ▸ List.mem_cons_self)
        · rcases ih h with h | h
          · exact Or.inl h
          · exact Or.inr (List.mem_cons_of_mem _ h)
      · rcases List.mem_cons.mp h with h | h
        · exact Or.inl h
        · exact Or.inr (List.mem_cons_of_mem _ h)

theorem btInsert_sorted (k : Str) (v : α) {l : List (Str × α)} (hl : Sorted l) :
    Sorted (btInsert k v l) := by
  induction l with
  | nil => simp [btInsert, Sorted]
  | cons q l ih =>
    obtain ⟨k', v'⟩ := q
    have hl' := List.pairwise_cons.mp hl
    rw [btInsert]
    split
    · next hlt =>
      refine List.pairwise_cons.mpr ⟨?_, hl⟩
      intro y hy
      rcases List.mem_cons.mp hy with rfl | hy
      · exact hlt
      · exact strLt_trans hlt (hl'.1 y hy)
    · split
      · next _ hgt =>
        refine List.pairwise_cons.mpr ⟨?_, ih hl'.2⟩
        intro y hy
        rcases mem_btInsert hy with rfl | hy
        · exact hgt
        · exact hl'.1 y hy
      · next h1 h2 =>
        have : k = k' := strLt_total (by simpa using h1) (by simpa using h2)
        subst this
        exact List.pairwise_cons.mpr ⟨hl'.1, hl'.2⟩

/-- exact content of the map after an insertion -/
theorem mem_btInsert_iff {k : Str} {v : α} {l : List (Str × α)} (hl : Sorted l) {p : Str × α} :
    p ∈ btInsert k v l ↔ p = (k, v) ∨ (p ∈ l ∧ p.1 ≠ k) := by
  induction l with
  | nil => simp [btInsert]
  | cons q l ih =>
    obtain ⟨k', v'⟩ := q
    have hl' := List.pairwise_cons.mp hl
    rw [btInsert]
    split
    · next hlt =>
      constructor
      · intro h
        rcases List.mem_cons.mp h with h | h
        · exact Or.inl h
        · refine Or.inr ⟨h, ?_⟩
          rcases List.mem_cons.mp h with rfl | h'
          · exact (strLt_ne hlt).symm
          · exact (strLt_ne (strLt_trans hlt (hl'.1 p h'))).symm
      · rintro (h | ⟨h, _⟩)
        · exact h ▸ List.mem_cons_self
        · exact List.mem_cons_of_mem _ h
    · split
      · next _ hgt =>
        constructor
        · intro h
          rcases List.mem_cons.mp h with h | h
          · subst h; exact Or.inr ⟨List.mem_cons_self, strLt_ne hgt⟩
          · rcases (ih hl'.2).mp h with h | ⟨h, hne⟩
            · exact Or.inl h
            · exact Or.inr ⟨List.mem_cons_of_mem _ h, hne⟩
        · rintro (h | ⟨h, hne⟩)
          · exact List.mem_cons_of_mem _ ((ih hl'.2).mpr (Or.inl h))
          · rcases List.mem_cons.mp h with h | h
            · exact h ▸ List.mem_cons_self
            · exact List.mem_cons_of_mem _ ((ih hl'.2).mpr (Or.inr ⟨h, hne⟩))
      · next h1 h2 =>
        have : k = k' := strLt_total (by simpa using h1) (by simpa using h2)
        subst this
        constructor
        · intro h
          rcases List.mem_cons.mp h with h | h
          · exact Or.inl h
          · exact Or.inr ⟨List.mem_cons_of_mem _ h, (strLt_ne (hl'.1 p h)).symm⟩
        · rintro (h | ⟨h, hne⟩)
          · exact h ▸ List.mem_cons_self
          · rcases List.mem_cons.mp h with h | h
            · subst h; exact absurd rfl hne
            · exact List.mem_cons_of_mem _ h

theorem btOfList_sorted : ∀ (fs acc : List (Str × α)), Sorted acc → Sorted (btOfList acc fs)
  | [], acc, h => by rw [btOfList]; exact h
  | (k, v) :: fs, acc, h => by rw [btOfList]; exact btOfList_sorted fs _ (btInsert_sorted k v h)

theorem mem_btOfList : ∀ (fs acc : List (Str × α)), Sorted acc → (fs.map Prod.fst).Nodup →
    ∀ p, p ∈ btOfList acc fs ↔ p ∈ fs ∨ (p ∈ acc ∧ p.1 ∉ fs.map Prod.fst)
  | [], acc, _, _, p => by simp [btOfList]
  | (k, v) :: fs, acc, h, hnd, p => by
    rw [btOfList]
    have hnd' := List.nodup_cons.mp hnd
    rw [mem_btOfList fs _ (btInsert_sorted k v h) hnd'.2, mem_btInsert_iff h]
    simp only [List.map_cons, List.mem_cons, not_or]
    constructor
    · rintro (h1 | ⟨h1 | ⟨h1, h2⟩, h3⟩)
      · exact Or.inl (Or.inr h1)
      · exact Or.inl (Or.inl h1)
      · exact Or.inr ⟨h1, h2, h3⟩
    · rintro ((h1 | h1) | ⟨h1, h2, h3⟩)
      · subst h1; exact Or.inr ⟨Or.inl rfl, hnd'.1⟩
      · exact Or.inl h1
      · exact Or.inr ⟨Or.inr ⟨h1, h2⟩, h3⟩

/-- the names handed to the manifester are strictly increasing -/
theorem visibleSorted_sorted (fs : List (Str × Bool × α)) :
    ((visibleSorted fs).map Prod.fst).Pairwise (fun a b => strLt a b = true) := by
  unfold visibleSorted
  have h := btOfList_sorted fs [] List.Pairwise.nil
  rw [List.pairwise_map]
  refine List.Pairwise.filterMap _ ?_ h
  intro a a' hlt b hb b' hb'
  obtain ⟨k, hid, v⟩ := a
  obtain ⟨k', hid', v'⟩ := a'
  cases hid <;> cases hid' <;> simp at hb hb'
  subst hb; subst hb'; exact hlt

/-- exactly the non-hidden fields are handed to the manifester -/
theorem mem_visibleSorted (fs : List (Str × Bool × α)) (hnd : (fs.map Prod.fst).Nodup) (k : Str) (v : α) :
    (k, v) ∈ visibleSorted fs ↔ (k, false, v) ∈ fs := by
  unfold visibleSorted
  rw [List.mem_filterMap]
  constructor
  · rintro ⟨⟨k', hid, v'⟩, hm, he⟩
    rw [mem_btOfList fs [] List.Pairwise.nil hnd] at hm
    cases hid <;> simp at he
    obtain ⟨rfl, rfl⟩ := he
    simpa using hm
  · intro h
    exact ⟨(k, false, v), (mem_btOfList fs [] List.Pairwise.nil hnd _).mpr (Or.inl h), by simp⟩

end
end Rsj.Json
