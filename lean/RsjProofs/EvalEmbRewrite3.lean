import RsjProofs.EvalEmbRewrite2
/-!
  C04 on the evaluator model, rewrites at the root of a program, part 3: the rewrite `ident`
  (`e ↦ (function(x) x)(e)`).  Same structure as the rewrite `name` of RsjProofs/EvalEmbRewrite2.lean: the
  administrative steps of the rewritten program (callee, binding plan, argument thunk, call frame, the
  variable) are computed on literal stores; then `e` runs in the ROOT environment of both programs (no
  weakened frame), two trace items deeper on the right (`Call`, then the argument thunk).
-/
set_option linter.unusedVariables false
set_option linter.unusedSectionVars false
namespace Rsj.Eval
open Rsj.Core

/-- `(function(x) x)(e)` -/
def wrapId (x : String) (e : Expr) : Expr :=
  .call (.func (.cons x .none .nil) (.var x)) (.pos e .nil) false

/-! ### administrative steps -/
section
variable [Mode]

/-- a function expression is evaluated in one step: the closure is allocated -/
theorem run_eval_func (cfg : Cfg) (m : Nat) (ps : Params) (body : Expr) (env : EId) (tail : Bool) (d : Nat)
    (st : St) :
    run cfg (m + 1) (.eval (.func ps body) env tail d) st =
      some (.ok (.func st.funcs.size),
        { st with deepest := max st.deepest d,
                  funcs := st.funcs.push { params := paramsList ps, body := body, env := env } }) := by
  show stepN cfg (run cfg m) _ st = _
  unfold stepN step
  simp only [Task.depth]
  rw [M_bind_app, noteDepth_apply]
  simp only []
  rw [M_bind_app, allocFunc_apply]
  rfl

/-- `(function(x) x)(e)` where `e` is not quick: the store after the administrative steps of the call -/
theorem run_eval_wrapId_pending (cfg : Cfg) (m : Nat) (x : String) (e : Expr) (hq : NotQuick e) (env : EId)
    (d : Nat) (st : St) (cell : Env) (h : st.envs[env]? = some cell) (hd : ¬ d + 1 > cfg.maxStack) :
    run cfg (m + 2) (.eval (wrapId x e) env false d) st =
      run cfg (m + 1) (.eval (.var x) st.envs.size true (d + 1))
        { st with
          deepest := max (max st.deepest d) d
          funcs := st.funcs.push { params := [(x, .none)], body := .var x, env := env }
          envs := st.envs.push { parent := some env, vars := [(x, st.thunks.size)], obj := cell.obj }
          thunks := st.thunks.push (.pending (.expr e env))
          runs := st.runs.push 0 } := by
  show stepN cfg (run cfg (m + 1)) _ st = _
  unfold stepN wrapId step
  simp only [Task.depth]
  rw [M_bind_app, noteDepth_apply]
  simp only []
  rw [M_bind_app, run_eval_func]
  simp only []
  rw [M_bind_app, getFunc_apply]
  simp only [Array.getElem?_push_size, paramsList, List.map, hasDefault, argsSplit, List.filterMap, Option.isNone,
    if_true, Option.map, List.length]
  have hb : Bind.bindPlan [(x, false)] 1 [] = .ok [.pos 0] := by
    simp [Bind.bindPlan, Bind.assignNamed, Bind.fillRest]
  simp only [hb]
  simp only [pure_bind, List.any, Bool.or_false, Bool.and_self, Bool.false_eq_true, if_false,
    show (Bind.Slot.pos 0 == Bind.Slot.dflt) = false from rfl, List.zip_cons_cons, List.zip_nil_left]
  rw [M_bind_app, List.forIn_cons, M_bind_app, M_bind_app, newThunk_pending hq, allocThunk_apply]
  simp only [pure_app, List.forIn_nil, List.nil_append]
  simp only [pure_bind, List.forIn_cons, List.forIn_nil, List.getElem?_cons_zero, List.nil_append,
    List.zip_cons_cons, List.zip_nil_left]
  rw [M_bind_app, checkDepth_ok cfg (d + 1) hd]
  simp only []
  unfold newEnv
  simp only [bind_assoc, pure_bind]
  rw [M_bind_app, getEnv_apply]
  simp only [h]
  rw [M_bind_app, allocEnv_apply]

end

/-! ### C04: the identity function applied to the root expression (`e ↦ (function(x) x)(e)`) -/

@[reducible] def Mode.c042 : Mode := Mode.c04s 2

section Ident
attribute [local instance] Mode.c042

/-- the embedding after the administrative steps: root environment to root environment, the two initial
    thunks to themselves; the argument thunk (2) of the right program is reserved -/
def embIdent : Emb where
  tm := fun i => if i = 0 then some 0 else if i = 1 then some 1 else none
  em := fun i => if i = 0 then some 0 else none
  om := fun _ => none
  fm := fun _ => none
  rsv := [2]

theorem force_root_ident (cfg cfg' : Cfg) [RCfg cfg cfg'] (k k' : Nat) (hk : k ≤ k') (x : String) (e : Expr)
    (hq : NotQuick e) :
    ORel embIdent [] [] RVal (run cfg (k + 1) (.force 1 0) (freshStore e))
      (run cfg' (k' + 4) (.force 1 0) (freshStore (wrapId x e))) := by
  have hle : cfg.maxStack + 2 ≤ cfg'.maxStack := (inferInstance : RCfg cfg cfg').le
  have hms1 : ¬ 0 + 1 > cfg'.maxStack := by omega
  have hms2 : ¬ 1 + 1 > cfg'.maxStack := by omega
  rw [run_force_pending cfg k 1 0 (freshStore e) (.expr e 0) rfl,
    run_force_pending cfg' (k' + 3) 1 0 (freshStore (wrapId x e)) (.expr (wrapId x e) 0) rfl]
  simp only [thunkBody_expr]
  -- the stores of the right program during the administrative steps
  let e' := wrapId x e
  let B1 : St := { thunks := #[.done .null, .inProgress (.expr e' 0)], envs := #[rootCell], runs := #[0, 1] }
  let B2 : St := { thunks := #[.done .null, .inProgress (.expr e' 0), .pending (.expr e 0)]
                   envs := #[rootCell, { parent := some 0, vars := [(x, 2)], obj := none }], runs := #[0, 1, 0]
                   funcs := #[{ params := [(x, .none)], body := .var x, env := 0 }] }
  let B3 : St := { thunks := #[.done .null, .inProgress (.expr e' 0), .inProgress (.expr e 0)]
                   envs := #[rootCell, { parent := some 0, vars := [(x, 2)], obj := none }], runs := #[0, 1, 1]
                   funcs := #[{ params := [(x, .none)], body := .var x, env := 0 }]
                   deepest := 2 }
  have e1 : ({ freshStore e' with
      deepest := max (freshStore e').deepest 0,
      thunks := (freshStore e').thunks.setIfInBounds 1 (.inProgress (.expr e' 0)),
      runs := (freshStore e').runs.modify 1 (· + 1) } : St) = B1 := rfl
  have e2 : run cfg' (k' + 3) (.eval e' 0 false 0) B1 = run cfg' (k' + 2) (.eval (.var x) 1 true 1) B2 := by
    rw [run_eval_wrapId_pending cfg' (k' + 1) x e hq 0 0 B1 rootCell rfl hms1]
    rfl
  have e3 : run cfg' (k' + 2) (.eval (.var x) 1 true 1) B2 =
      (run cfg' k' (.eval e 0 false 2) >>= fun v => finishThunk 2 v >>= fun _ => pure v) B3 := by
    rw [run_eval_var_pending cfg' k' x 1 true 1 B2 2 (.expr e 0) (by simp [lookupVar, B2]) rfl hms2]
    rfl
  have hright : ∀ G : Value → M Value,
      (run cfg' (k' + 3) (.eval e' 0 false 0) >>= G) B1 =
      (run cfg' k' (.eval e 0 false 2) >>= fun v => (finishThunk 2 v >>= fun _ => pure v) >>= G) B3 := by
    intro G
    rw [M_bind_app, e2, e3, ← M_bind_app, bind_assoc]
  rw [e1, hright]
  have he00 : RE embIdent 0 0 := rfl
  refine ORel.bind' (run_rel_le cfg cfg' k k' hk (.inr trivial) embIdent _ _
    (.eval e false 0 he00) [] [] _ B3 ?_) ?_
  · -- the stores after the administrative steps are related
    refine {
      thunks := ⟨fun i j k hi hj => ?_, fun i k hik => ?_⟩
      envs := ⟨fun i j k hi hj => ?_, fun i k hik => ?_⟩
      objs := ⟨fun i j k hi _ => (by cases hi), fun i k hik => (by cases hik)⟩
      funcs := ⟨fun i j k hi _ => (by cases hi), fun i k hik => (by cases hik)⟩
      traces := ⟨[], rfl, rfl⟩
      wkcell := fun w hw => (by cases hw)
      rsvok := fun t ht => ?_ }
    · simp only [embIdent] at hi hj
      split at hi <;> split at hj <;> (try split at hi) <;> (try split at hj) <;> simp_all <;> omega
    · simp only [embIdent] at hik
      split at hik
      · cases hik; subst_vars
        exact ⟨.done .null, .done .null, rfl, rfl, .done .null⟩
      · split at hik
        · cases hik; subst_vars
          exact ⟨.inProgress (.expr e 0), .inProgress (.expr e' 0), rfl, rfl, .inProgressLoose trivial⟩
        · cases hik
    · simp only [embIdent] at hi hj
      split at hi <;> split at hj <;> simp_all
    · simp only [embIdent] at hik
      split at hik
      · cases hik; subst_vars
        exact ⟨_, _, rfl, rfl, .inl ⟨.none, .cons ⟨rfl, rfl⟩ .nil, .none⟩⟩
      · cases hik
    · simp only [embIdent, List.mem_singleton] at ht
      subst ht
      refine ⟨by show 2 < 3; omega, fun j => ?_⟩
      simp only [embIdent]
      split
      · simp
      · split <;> simp
  · -- after the value of `e`: the argument thunk and then the root thunk are finished
    intro ρ' v w a' b' hle hl hr hs hvw
    have h2 : b'.thunks[2]? = some (.inProgress (.expr e 0)) :=
      run_keeps_inProgress cfg' k' _ B3 b' _ hr 2 _ rfl
    have hrsv : 2 ∈ ρ'.rsv := by rw [hle.rsv]; simp [embIdent]
    have ht : RT ρ' 1 1 := hle.t 1 1 rfl
    rw [bind_assoc, M_bind_app (finishThunk 2 w), finishThunk_app, h2]
    simp only [pure_bind]
    exact (MRel_bind (finishThunk_rel ht hvw) (fun ρ'' hle' _ _ _ => MRel_pure (Mono.mono hle' hvw)))
      [] [] a' _ (hs.set_rsv hrsv (.done w))

theorem requestProg_root_ident (cfg cfg' : Cfg) [RCfg cfg cfg'] (k k' : Nat) (hk : k ≤ k') (x : String) (e : Expr)
    (hq : NotQuick e) :
    ORel embIdent [] [] REq (requestProg cfg (k + 1) 1 (freshStore e))
      (requestProg cfg' (k' + 4) 1 (freshStore (wrapId x e))) := by
  unfold requestProg
  refine ORel.bind' (force_root_ident cfg cfg' k k' hk x e hq) ?_
  intro ρ' v w a' b' hle _ _ hs hvw
  have hms : cfg.maxStack ≤ cfg'.maxStack := by
    have h1 : cfg.maxStack + 2 ≤ cfg'.maxStack := (inferInstance : RCfg cfg cfg').le
    omega
  exact ORel.c04s (request_tail_rel cfg cfg' hms (k + 1) (k' + 4) (by omega) hvw [] [] a' b' (Sim.c04s hs))

end Ident

/-- **C04, the identity function applied to the root expression** (`e ↦ (function(x) x)(e)`), for an `e` that
    is not a parenthesised literal or function; any parameter name `x` (also `std`: `e` is evaluated in the
    root environment, not in the frame of the call) -/
theorem ident_root_notQuick (x : String) (e : Expr) (hq : NotQuick e) (ms fuel : Nat)
    (h1 : (evalP ms fuel e).1 ≠ "gas") (h2 : (evalP ms fuel e).1 ≠ showErr .stackOverflow)
    (h3 : (evalP ms fuel e).1 ≠ showErr (.internal "variable not found")) :
    ∀ ms' fuel', ms + 2 ≤ ms' → fuel + 3 ≤ fuel' → evalP ms' fuel' (wrapId x e) = evalP ms fuel e := by
  intro ms' fuel' hms hf
  cases fuel with
  | zero => exact absurd (by rw [evalP_eq]; rfl) h1
  | succ k =>
    obtain ⟨k', rfl⟩ : ∃ k', fuel' = k' + 4 := ⟨fuel' - 4, by omega⟩
    letI : Mode := Mode.c042
    haveI : RCfg ⟨ms⟩ ⟨ms'⟩ := ⟨hms, fun h => absurd (.inl rfl) h⟩
    exact evalP_eq_of_ORel (c := 2) (requestProg_root_ident ⟨ms⟩ ⟨ms'⟩ k k' (by omega) x e hq) h1 h2 h3

/-- the hypotheses are satisfiable and the rewritten program is a different one -/
example : evalP 12 13 (wrapId "std" (.unary .lnot .true_)) = evalP 10 10 (.unary .lnot .true_) :=
  ident_root_notQuick "std" _ ⟨fun _ _ h => (by cases h), rfl⟩ 10 10 (by decide) (by decide) (by decide) 12 13
    (by omega) (by omega)

end Rsj.Eval
