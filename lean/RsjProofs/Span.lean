import RsjModel.Span

namespace Rsj.Span

/-! ## Bit-level facts about the inline encoding -/

theorem and_two_pow_of_lt {x n : Nat} (h : x < 2^n) : x &&& 2^n = 0 := by
  apply Nat.eq_of_testBit_eq; intro i
  simp only [Nat.testBit_and, Nat.testBit_two_pow, Nat.zero_testBit]
  by_cases hi : n = i
  · subst hi; simp [Nat.testBit_lt_two_pow h]
  · simp [hi]

theorem or_two_pow_of_lt {x n : Nat} (h : x < 2^n) : x ||| 2^n = x + 2^n := by
  have := Nat.shiftLeft_add_eq_or_of_lt h 1
  rw [Nat.shiftLeft_eq, Nat.one_mul] at this
  rw [Nat.or_comm, ← this, Nat.add_comm]

theorem and_two_pow_of_ge {x n : Nat} (h : x < 2^n) : (x + 2^n) &&& 2^n ≠ 0 := by
  intro hc
  have : ((x + 2^n) &&& 2^n).testBit n = false := by rw [hc]; simp
  rw [Nat.testBit_and, Nat.testBit_two_pow_self, Bool.and_true] at this
  have h2 : (x + 2^n).testBit n = true := by
    rw [Nat.add_comm, Nat.testBit_two_pow_add_eq]; simp [Nat.testBit_lt_two_pow h]
  rw [h2] at this; cases this

theorem expand_def (x : Nat) : expand x =
    if x &&& TOP = 0 then .inline ((x &&& OFFSET_MASK) - 1) (x >>> OFFSET_BITS)
    else .interned (x - TOP) := rfl

theorem TOP_eq : TOP = 2^63 := rfl
theorem OFFSET_BITS_eq : OFFSET_BITS = 38 := rfl
theorem OFFSET_MASK_eq : OFFSET_MASK = 2^38 - 1 := rfl
theorem LEN_MAX_eq : LEN_MAX = 2^25 - 1 := rfl

theorem expand_inline (a l : Nat) (ha : a < OFFSET_MASK) (hl : l ≤ LEN_MAX) :
    expand ((a + 1) ||| (l <<< OFFSET_BITS)) = .inline a l := by
  rw [OFFSET_MASK_eq] at ha; rw [LEN_MAX_eq] at hl
  have ha' : a + 1 < 2^38 := by omega
  have hx : (a + 1) ||| (l <<< 38) = l * 2^38 + (a + 1) := by
    rw [Nat.or_comm, ← Nat.shiftLeft_add_eq_or_of_lt ha', Nat.shiftLeft_eq]
  have hlt : (a + 1) ||| (l <<< 38) < 2^63 := by omega
  have h0 : ((a + 1) ||| (l <<< 38)) &&& 2^63 = 0 := and_two_pow_of_lt hlt
  have h1 : (((a + 1) ||| (l <<< 38)) &&& (2^38 - 1)) - 1 = a := by
    rw [Nat.and_two_pow_sub_one_eq_mod, hx]; omega
  have h2 : ((a + 1) ||| (l <<< 38)) >>> 38 = l := by
    rw [Nat.shiftRight_eq_div_pow, hx]; omega
  rw [expand_def, TOP_eq, OFFSET_BITS_eq, OFFSET_MASK_eq, if_pos h0, h1, h2]

theorem expand_interned (i : Nat) (hi : i < TOP) : expand (i ||| TOP) = .interned i := by
  rw [TOP_eq] at hi
  have hor : i ||| 2^63 = i + 2^63 := or_two_pow_of_lt hi
  have h0 : (i + 2^63) &&& 2^63 ≠ 0 := and_two_pow_of_ge hi
  rw [expand_def, TOP_eq, hor, if_neg h0, Nat.add_sub_cancel]

/-! ## Well-formedness and the context lookup -/

/-- Cumulative ends are strictly increasing. -/
def Mgr.WF (m : Mgr) : Prop := m.ends.Pairwise (· < ·)

def cfo (es : List Nat) (off k : Nat) : Nat :=
  match binSearch es off k with
  | .ok i => i + 1
  | .error i => i

theorem cfo_spec (es : List Nat) (off k i hi : Nat)
    (hs : es.Pairwise (· < ·)) (hget : es[i]? = some hi) (hlt : off < hi)
    (hprev : ∀ j e, j < i → es[j]? = some e → e ≤ off) :
    cfo es off k = k + i := by
  induction es generalizing k i with
  | nil => simp at hget
  | cons e es ih =>
    cases i with
    | zero =>
      simp at hget; subst hget
      unfold cfo binSearch
      have h1 : ¬ e = off := by omega
      simp [h1, hlt]
    | succ i =>
      have he : e ≤ off := hprev 0 e (by omega) (by simp)
      have hs' := List.pairwise_cons.mp hs
      by_cases heq : e = off
      · -- then i must be 0
        have hi0 : i = 0 := by
          cases i with
          | zero => rfl
          | succ i' =>
            have h0 : ∃ e0, es[0]? = some e0 := by
              cases es with
              | nil => simp at hget
              | cons a as => exact ⟨a, by simp⟩
            obtain ⟨e0, he0⟩ := h0
            have := hprev 1 e0 (by omega) (by simpa using he0)
            have hmem : e0 ∈ es := List.mem_of_getElem? he0
            have := hs'.1 e0 hmem
            omega
        subst hi0
        unfold cfo binSearch
        simp [heq]
      · have hlt' : e < off := by omega
        have := ih (k + 1) i hs'.2 (by simpa using hget)
          (fun j e' hj hg => hprev (j + 1) e' (by omega) (by simpa using hg))
        unfold cfo binSearch
        have h2 : ¬ off < e := by omega
        simp only [heq, h2, if_false]
        unfold cfo at this
        rw [this]; omega

theorem contextFromOffset_eq (m : Mgr) (off : Nat) :
    m.contextFromOffset off = cfo m.ends off 0 := by
  unfold Mgr.contextFromOffset cfo; rfl

theorem contextOffsets_some {m : Mgr} {c lo hi : Nat}
    (h : m.contextOffsets c = some (lo, hi)) :
    m.ends[c]? = some hi ∧
    ((c = 0 ∧ lo = 0) ∨ (∃ c', c = c' + 1 ∧ m.ends[c']? = some lo)) := by
  unfold Mgr.contextOffsets at h
  cases c with
  | zero =>
    simp only [Option.map_eq_some_iff] at h
    obtain ⟨e, he, heq⟩ := h
    cases heq
    exact ⟨he, Or.inl ⟨rfl, rfl⟩⟩
  | succ c' =>
    simp only at h
    split at h
    · next a b ha hb =>
      cases h
      exact ⟨hb, Or.inr ⟨c', rfl, ha⟩⟩
    · cases h

theorem sorted_le_of_lt_index {es : List Nat} (hs : es.Pairwise (· < ·))
    {i j a b : Nat} (hij : i ≤ j) (ha : es[i]? = some a) (hb : es[j]? = some b) : a ≤ b := by
  rcases Nat.lt_or_eq_of_le hij with h | h
  · have hi : i < es.length := by
      rcases List.getElem?_eq_some_iff.mp ha with ⟨w, _⟩; exact w
    have hj : j < es.length := by
      rcases List.getElem?_eq_some_iff.mp hb with ⟨w, _⟩; exact w
    have := List.pairwise_iff_getElem.mp hs i j hi hj h
    rw [List.getElem?_eq_getElem hi] at ha
    rw [List.getElem?_eq_getElem hj] at hb
    cases ha; cases hb
    omega
  · subst h; rw [ha] at hb; cases hb; exact Nat.le_refl _

/-- Looking up an offset that lies inside context `c` returns `c`. -/
theorem contextFromOffset_spec {m : Mgr} (hwf : m.WF) {c lo hi off : Nat}
    (hc : m.contextOffsets c = some (lo, hi)) (h1 : lo ≤ off) (h2 : off < hi) :
    m.contextFromOffset off = c := by
  rw [contextFromOffset_eq]
  obtain ⟨hhi, hlo⟩ := contextOffsets_some hc
  have := cfo_spec m.ends off 0 c hi hwf hhi h2 (by
    intro j e hj hg
    rcases hlo with ⟨hc0, _⟩ | ⟨c', hc', hlo'⟩
    · omega
    · have : e ≤ lo := sorted_le_of_lt_index hwf (by omega) hg hlo'
      omega)
  omega

/-! ## Round trip -/

theorem findIdx_some {l : List (Nat × Nat × Nat)} {x : Nat × Nat × Nat} {k i : Nat}
    (h : findIdx l x k = some i) : ∃ j, i = k + j ∧ l[j]? = some x := by
  induction l generalizing k with
  | nil => simp [findIdx] at h
  | cons y ys ih =>
    unfold findIdx at h
    split at h
    · next heq => cases h; exact ⟨0, by omega, by simp [heq]⟩
    · obtain ⟨j, hj, hg⟩ := ih h
      exact ⟨j + 1, by omega, by simpa using hg⟩

theorem findIdx_append_self {l : List (Nat × Nat × Nat)} {x : Nat × Nat × Nat} {k : Nat}
    (h : findIdx l x k = none) : findIdx (l ++ [x]) x k = some (k + l.length) := by
  induction l generalizing k with
  | nil => simp [findIdx]
  | cons y ys ih =>
    unfold findIdx at h
    split at h
    · cases h
    · next hne =>
      have := ih h
      simp only [List.cons_append, List.length_cons]
      unfold findIdx
      rw [if_neg hne, this]; congr 1; omega

/-- Capacity assumption: the interner never holds 2^63 spans. -/
def Mgr.Cap (m : Mgr) : Prop := m.interned.length < TOP

/-- **Round trip**: a registered `(ctx, start, end)` is returned unchanged. -/
theorem intern_getSpan {m m' : Mgr} {c s e id : Nat} (hwf : m.WF) (hcap : m.Cap)
    (h : m.internSpan c s e = .ok (m', id)) :
    m'.getSpan id = .ok (c, s, e) ∧ m'.ends = m.ends := by
  unfold Mgr.internSpan at h
  split at h
  · cases h
  · next lo hi hc =>
    split at h; · cases h
    split at h; · cases h
    split at h; · cases h
    next hse hs1 hs2 =>
    have hse : s ≤ e := by omega
    dsimp only at h
    split at h
    · -- interned path
      split at h
      · next i hf =>
        cases h
        obtain ⟨j, hj, hg⟩ := findIdx_some hf
        have hij : i = j := by omega
        subst hij
        have hlt : i < m.interned.length := by
          rcases List.getElem?_eq_some_iff.mp hg with ⟨w, _⟩; exact w
        have : i < TOP := Nat.lt_trans hlt hcap
        refine ⟨?_, rfl⟩
        unfold Mgr.getSpan
        rw [expand_interned i this]
        simp [hg]
      · cases h
        refine ⟨?_, rfl⟩
        unfold Mgr.getSpan
        rw [expand_interned _ hcap]
        simp
    · next hcond =>
      cases h
      have hcond' : e - s ≤ LEN_MAX ∧ lo + s < OFFSET_MASK := by
        constructor <;> omega
      refine ⟨?_, rfl⟩
      unfold Mgr.getSpan
      rw [expand_inline _ _ hcond'.2 hcond'.1]
      have hctx : m.contextFromOffset (lo + s) = c :=
        contextFromOffset_spec hwf hc (by omega) (by omega)
      simp only [hctx, hc]
      have e1 : lo + s - lo = s := by omega
      have e2 : s + (e - s) = e := by omega
      rw [e1, e2]

theorem intern_getSpan_ends {m m' : Mgr} {c s e id : Nat}
    (h : m.internSpan c s e = .ok (m', id)) : m'.ends = m.ends := by
  unfold Mgr.internSpan at h
  split at h
  · cases h
  · split at h; · cases h
    split at h; · cases h
    split at h; · cases h
    dsimp only at h
    split at h
    · split at h <;> (cases h; rfl)
    · cases h; rfl

/-- An accepted registration satisfies `start ≤ end` and lies inside its context. -/
theorem internSpan_ok_range {m m' : Mgr} {c s e id : Nat}
    (h : m.internSpan c s e = .ok (m', id)) :
    ∃ lo hi, m.contextOffsets c = some (lo, hi) ∧ s ≤ e ∧ lo + e < hi := by
  unfold Mgr.internSpan at h
  split at h
  · cases h
  · next lo hi hc =>
    split at h; · cases h
    split at h; · cases h
    split at h; · cases h
    exact ⟨lo, hi, hc, by omega, by omega⟩

/-- Conversely, every in-range registration is accepted (no assertion fires). -/
theorem internSpan_total {m : Mgr} {c s e lo hi : Nat}
    (hc : m.contextOffsets c = some (lo, hi)) (hse : s ≤ e) (he : lo + e < hi) :
    ∃ m' id, m.internSpan c s e = .ok (m', id) := by
  unfold Mgr.internSpan
  rw [hc]
  simp only
  have h1 : ¬ ¬ s ≤ e := by omega
  have h2 : ¬ ¬ lo + s < hi := by omega
  have h3 : ¬ ¬ lo + e < hi := by omega
  rw [if_neg h1, if_neg h2, if_neg h3]
  split
  · split
    · exact ⟨_, _, rfl⟩
    · exact ⟨_, _, rfl⟩
  · exact ⟨_, _, rfl⟩

/-! ## Stability -/

theorem cfo_append (es : List Nat) (x off k : Nat)
    (hlast : ∀ e ∈ es, e < x) :
    cfo (es ++ [x]) off k = cfo es off k ∨ (cfo es off k = k + es.length ∧ ∀ e ∈ es, e < off) := by
  induction es generalizing k with
  | nil =>
    right; simp [cfo, binSearch]
  | cons e es ih =>
    by_cases heq : e = off
    · left; simp [cfo, binSearch, heq]
    · by_cases hlt : off < e
      · left; simp [cfo, binSearch, heq, hlt]
      · have := ih (k + 1) (fun e' he' => hlast e' (List.mem_cons_of_mem _ he'))
        simp only [cfo, binSearch, heq, hlt, List.cons_append, if_false] at this ⊢
        rcases this with h | ⟨h1, h2⟩
        · left; exact h
        · right
          refine ⟨by rw [h1]; simp; omega, ?_⟩
          intro e' he'
          rcases List.mem_cons.mp he' with rfl | hm
          · omega
          · exact h2 e' hm


theorem le_getLast_of_sorted {es : List Nat} (hs : es.Pairwise (· < ·)) :
    ∀ e ∈ es, e ≤ es.getLast?.getD 0 := by
  induction es with
  | nil => intro e he; cases he
  | cons a as ih =>
    intro e he
    have hs' := List.pairwise_cons.mp hs
    cases as with
    | nil =>
      rcases List.mem_cons.mp he with rfl | h
      · simp
      · cases h
    | cons b bs =>
      have hl : (a :: b :: bs).getLast?.getD 0 = (b :: bs).getLast?.getD 0 := by
        simp [List.getLast?_cons_cons]
      rw [hl]
      rcases List.mem_cons.mp he with rfl | h
      · have h1 := hs'.1 b (by simp)
        have h2 := ih hs'.2 b (by simp)
        omega
      · exact ih hs'.2 e h

theorem insertContext_wf {m : Mgr} (hwf : m.WF) (n : Nat) : (m.insertContext n).1.WF := by
  unfold Mgr.insertContext Mgr.WF
  simp only
  rw [List.pairwise_append]
  refine ⟨hwf, by simp, ?_⟩
  intro a ha b hb
  have := le_getLast_of_sorted hwf a ha
  simp at hb; omega

theorem contextOffsets_append {m : Mgr} {c : Nat} {p : Nat × Nat} (x : Nat)
    (h : m.contextOffsets c = some p) :
    ({ m with ends := m.ends ++ [x] } : Mgr).contextOffsets c = some p := by
  obtain ⟨lo, hi⟩ := p
  obtain ⟨hhi, hlo⟩ := contextOffsets_some h
  have hclt : c < m.ends.length := by
    rcases List.getElem?_eq_some_iff.mp hhi with ⟨w, _⟩; exact w
  unfold Mgr.contextOffsets
  rcases hlo with ⟨rfl, rfl⟩ | ⟨c', rfl, hlo'⟩
  · simp only
    rw [List.getElem?_append_left hclt, hhi]; rfl
  · simp only
    rw [List.getElem?_append_left hclt, List.getElem?_append_left (by omega), hhi, hlo']

theorem contextOffsets_length_none (m : Mgr) : m.contextOffsets m.ends.length = none := by
  unfold Mgr.contextOffsets
  cases h : m.ends.length with
  | zero => simp [List.length_eq_zero_iff.mp h]
  | succ n =>
    simp only
    have : m.ends[n + 1]? = none := by
      rw [List.getElem?_eq_none_iff]; omega
    rw [this]
    split <;> simp_all

/-- Registering a further context never changes how an existing id decodes. -/
theorem getSpan_insertContext {m : Mgr} (hwf : m.WF) {id : Nat} {r : Nat × Nat × Nat} (n : Nat)
    (h : m.getSpan id = .ok r) : (m.insertContext n).1.getSpan id = .ok r := by
  unfold Mgr.getSpan at h ⊢
  cases hex : expand id with
  | interned i =>
    rw [hex] at h
    simpa [Mgr.insertContext] using h
  | inline off len =>
    rw [hex] at h
    simp only at h ⊢
    rw [contextFromOffset_eq] at h
    rw [contextFromOffset_eq]
    have hlast : ∀ e ∈ m.ends, e < m.ends.getLast?.getD 0 + n + 1 := by
      intro e he; have := le_getLast_of_sorted hwf e he; omega
    have happ := cfo_append m.ends (m.ends.getLast?.getD 0 + n + 1) off 0 hlast
    unfold Mgr.insertContext
    simp only
    rcases happ with heq | ⟨hlen, _⟩
    · rw [heq]
      split at h
      · cases h
      · next lo hi hc =>
        rw [contextOffsets_append _ hc]
        exact h
    · rw [hlen, Nat.zero_add, contextOffsets_length_none] at h
      cases h

/-- Interning a further span never changes how an existing id decodes. -/
theorem getSpan_internSpan {m m' : Mgr} {c s e id' : Nat} {id : Nat} {r : Nat × Nat × Nat}
    (hi : m.internSpan c s e = .ok (m', id'))
    (h : m.getSpan id = .ok r) : m'.getSpan id = .ok r := by
  have hm : m'.ends = m.ends ∧ (m'.interned = m.interned ∨ m'.interned = m.interned ++ [(c, s, e)]) := by
    unfold Mgr.internSpan at hi
    split at hi
    · cases hi
    · split at hi; · cases hi
      split at hi; · cases hi
      split at hi; · cases hi
      dsimp only at hi
      split at hi
      · split at hi
        · cases hi; exact ⟨rfl, Or.inl rfl⟩
        · cases hi; exact ⟨rfl, Or.inr rfl⟩
      · cases hi; exact ⟨rfl, Or.inl rfl⟩
  obtain ⟨hends, hint⟩ := hm
  unfold Mgr.getSpan at h ⊢
  cases hex : expand id with
  | inline off len =>
    rw [hex] at h
    simp only at h ⊢
    have e1 : m'.contextFromOffset off = m.contextFromOffset off := by
      unfold Mgr.contextFromOffset; rw [hends]
    have e2 : ∀ k, m'.contextOffsets k = m.contextOffsets k := by
      intro k; unfold Mgr.contextOffsets; rw [hends]
    rw [e1, e2]; exact h
  | interned i =>
    rw [hex] at h
    simp only at h ⊢
    rcases hint with h1 | h1
    · rw [h1]; exact h
    · rw [h1]
      split at h
      · next sp hsp =>
        have hlt : i < m.interned.length := by
          rcases List.getElem?_eq_some_iff.mp hsp with ⟨w, _⟩; exact w
        rw [List.getElem?_append_left hlt, hsp]; exact h
      · cases h

theorem internSpan_wf {m m' : Mgr} {c s e id : Nat} (hwf : m.WF)
    (h : m.internSpan c s e = .ok (m', id)) : m'.WF := by
  have := (intern_getSpan_ends h)
  unfold Mgr.WF; rw [this]; exact hwf

end Rsj.Span
