/-
  Escape sequences of quoted strings in arithmetic form: the nine
  single-character escapes, `\uXXXX` for non-surrogate code units, and
  surrogate pairs `\uHHHH\uLLLL`.
-/
import RsjProofs.LexerStrings
namespace Rsj.Lexer
open Rsj.Utf8

/-! ### Escape sequences in quoted strings, in arithmetic form -/

theorem hexFromDigit_lt {b d : Nat} (h : hexFromDigit b = some d) : d < 16 := by
  unfold hexFromDigit at h
  repeat' split at h
  all_goals first | (cases h; omega) | cases h

theorem shl4 (x : Nat) : x <<< 4 = x * 16 := by have := Nat.shiftLeft_eq x 4; omega
theorem shl8 (x : Nat) : x <<< 8 = x * 256 := by have := Nat.shiftLeft_eq x 8; omega
theorem shl10 (x : Nat) : x <<< 10 = x * 1024 := by have := Nat.shiftLeft_eq x 10; omega

theorem pack8 (x y : Nat) : x * 2 ^ 12 + y * 256 = (x * 16 + y) <<< 8 := by rw [shl8]; omega
theorem pack4 (x y : Nat) : x * 2 ^ 8 + y * 16 = (x * 16 + y) <<< 4 := by rw [shl4]; omega

/-- The code unit assembled by `eat_codeunit`. -/
theorem codeunit_eq {d0 d1 d2 d3 : Nat} (h1 : d1 < 16) (h2 : d2 < 16) (h3 : d3 < 16) :
    (d0 <<< 12) ||| (d1 <<< 8) ||| (d2 <<< 4) ||| d3 = d0 * 4096 + d1 * 256 + d2 * 16 + d3 := by
  rw [shl8 d1, shl4 d2, Utf8.or_shift _ _ 12 (by omega), pack8, Utf8.or_shift _ _ 8 (by omega),
    pack4, Utf8.or_shift _ _ 4 (by omega)]
  omega

/-- Four hexadecimal digits with values `d0..d3`. -/
def Hex4 (bs : List Nat) (v : Nat) : Prop :=
  ∃ b0 b1 b2 b3 d0 d1 d2 d3, bs = [b0, b1, b2, b3] ∧ hexFromDigit b0 = some d0 ∧
    hexFromDigit b1 = some d1 ∧ hexFromDigit b2 = some d2 ∧ hexFromDigit b3 = some d3 ∧
    v = d0 * 4096 + d1 * 256 + d2 * 16 + d3

theorem eatCodeunit_hex4 {p : Nat} {bs tail : List Nat} {v : Nat} (h : Hex4 bs v) :
    eatCodeunit ⟨p, bs ++ tail⟩ = (some v, ⟨p + 4, tail⟩) := by
  obtain ⟨b0, b1, b2, b3, d0, d1, d2, d3, rfl, h0, h1, h2, h3, rfl⟩ := h
  have := codeunit_eq (d0 := d0) (hexFromDigit_lt h1) (hexFromDigit_lt h2) (hexFromDigit_lt h3)
  simp [eatCodeunit, Cur.eatMapByte, h0, h1, h2, h3, this]

theorem Hex4.lt {bs : List Nat} {v : Nat} (h : Hex4 bs v) : v < 65536 := by
  obtain ⟨b0, b1, b2, b3, d0, d1, d2, d3, _, h0, h1, h2, h3, rfl⟩ := h
  have := hexFromDigit_lt h0; have := hexFromDigit_lt h1
  have := hexFromDigit_lt h2; have := hexFromDigit_lt h3
  omega

/-- `\uXXXX` with a non-surrogate code unit denotes that code point. -/
theorem lexEscape_unicode_bmp (start p : Nat) (hex tail : List Nat) (cu : Nat) (hh : Hex4 hex cu)
    (hns : ¬ (0xD800 ≤ cu ∧ cu ≤ 0xDFFF)) :
    lexEscape start ⟨p, 117 :: (hex ++ tail)⟩ = .push cu ⟨p + 5, tail⟩ := by
  have hlt := hh.lt
  have hsur : isSurrogate cu = false := by simp [isSurrogate]; omega
  have hsc : isScalar cu = true := by rw [isScalar_iff]; omega
  simp [lexEscape, Cur.eatMapByte, simpleEscapes, List.lookup, Cur.eatByte, lexUnicodeEscape,
    eatCodeunit_hex4 hh, hsur, hsc]

/-- `\uHHHH\uLLLL` with a high and a low surrogate denotes the supplementary code
    point `0x10000 + (H − 0xD800)·0x400 + (L − 0xDC00)`. -/
theorem lexEscape_unicode_pair (start p : Nat) (hex1 hex2 tail : List Nat) (hi lo : Nat)
    (h1 : Hex4 hex1 hi) (h2 : Hex4 hex2 lo) (hhi : 0xD800 ≤ hi ∧ hi ≤ 0xDBFF)
    (hlo : 0xDC00 ≤ lo ∧ lo ≤ 0xDFFF) :
    lexEscape start ⟨p, 117 :: (hex1 ++ 92 :: 117 :: (hex2 ++ tail))⟩ =
      .push (0x10000 + (hi - 0xD800) * 0x400 + (lo - 0xDC00)) ⟨p + 11, tail⟩ := by
  have hsur : isSurrogate hi = true := by simp [isSurrogate]; omega
  have hpair : decodeUtf16Pair hi lo = some (0x10000 + (hi - 0xD800) * 0x400 + (lo - 0xDC00)) := by
    unfold decodeUtf16Pair
    rw [if_neg (by omega), if_neg (by omega)]
    have a1 : hi &&& 0x3FF = hi % 1024 := Nat.and_two_pow_sub_one_eq_mod hi 10
    have a2 : lo &&& 0x3FF = lo % 1024 := Nat.and_two_pow_sub_one_eq_mod lo 10
    rw [a1, a2, Utf8.or_shift _ _ 10 (by omega)]
    clear a1 a2
    apply congrArg some
    omega
  simp [lexEscape, Cur.eatMapByte, simpleEscapes, List.lookup, Cur.eatByte, lexUnicodeEscape,
    eatCodeunit_hex4 h1, hsur, Cur.eatSlice, eatCodeunit_hex4 h2, hpair]

/-- The nine single-character escapes. -/
theorem lexEscape_simple (start p : Nat) (x chr : Nat) (tail : List Nat)
    (h : (x, chr) ∈ simpleEscapes) :
    lexEscape start ⟨p, x :: tail⟩ = .push chr ⟨p + 1, tail⟩ := by
  simp only [simpleEscapes, List.mem_cons, Prod.mk.injEq, List.mem_nil_iff, or_false] at h
  rcases h with ⟨rfl, rfl⟩ | ⟨rfl, rfl⟩ | ⟨rfl, rfl⟩ | ⟨rfl, rfl⟩ | ⟨rfl, rfl⟩ | ⟨rfl, rfl⟩ |
      ⟨rfl, rfl⟩ | ⟨rfl, rfl⟩ | ⟨rfl, rfl⟩ <;>
    simp [lexEscape, Cur.eatMapByte, simpleEscapes, List.lookup]

end Rsj.Lexer
