/-
  Lemmas about the TOML writer model (`RsjModel/Toml.lean`).

  SPECIFICATIONS defined here (they are not models of Rust code): `tomlStrBody` /
  `readBasicString` — a reader of TOML v1.0.0 basic strings (ABNF `basic-string`),
  `readKey` — `simple-key = quoted-key / unquoted-key`.

  * `escape_string_toml` / `escape_key_toml` are inverted by those readers and never
    emit a raw control character;
  * the writer's outcome: an error exactly for non-objects (`notObject`) and for
    values containing `null` (`nullValue`); never `unreachable`; otherwise the text
    given by the pure functions `valueP`, `tableP` … used by the round-trip proof.
-/
import RsjModel.Toml
import RsjProofs.JsonEscape
import RsjProofs.JsonKeys
namespace Rsj.Toml
open Rsj.Json

/-! ## TOML basic strings (specification) -/

/-- TOML v1.0.0: `basic-unescaped = wschar / %x21 / %x23-5B / %x5D-7E / non-ascii`
    (`wschar` = space / tab; `non-ascii = %x80-D7FF / %xE000-10FFFF` — strings of the
    model are lists of code points, Rust `char`s are scalar values, so `non-ascii` is
    read as "≥ U+0080" here). -/
def basicUnescaped (c : Nat) : Bool :=
  c == 32 || c == 9 || c == 33 || (0x23 ≤ c && c ≤ 0x5B) || (0x5D ≤ c && c ≤ 0x7E) || 0x80 ≤ c

def isScalarValue (c : Nat) : Bool := (c < 0xD800 || 0xE000 ≤ c) && c ≤ 0x10FFFF

def consO (c : Nat) : Option (Str × Str) → Option (Str × Str)
  | some (s, r) => some (c :: s, r)
  | none => none

/-- `*basic-char quotation-mark`: the decoded string and what follows the closing
    quote.  `escaped = "\" ( %x22 / %x5C / b / f / n / r / t / uXXXX / UXXXXXXXX )`,
    the `u`/`U` forms must denote Unicode scalar values. -/
def tomlStrBody : Str → Option (Str × Str)
  | [] => none
  | c :: r =>
    if c = 34 then some ([], r)
    else if c = 92 then
      match r with
      | [] => none
      | x :: r1 =>
        if x = 34 then consO 34 (tomlStrBody r1)
        else if x = 92 then consO 92 (tomlStrBody r1)
        else if x = 98 then consO 8 (tomlStrBody r1)
        else if x = 102 then consO 12 (tomlStrBody r1)
        else if x = 110 then consO 10 (tomlStrBody r1)
        else if x = 114 then consO 13 (tomlStrBody r1)
        else if x = 116 then consO 9 (tomlStrBody r1)
        else if x = 117 then
          match r1 with
          | h0 :: h1 :: h2 :: h3 :: r2 =>
            match cu4 h0 h1 h2 h3 with
            | some cp => if isScalarValue cp then consO cp (tomlStrBody r2) else none
            | none => none
          | _ => none
        else if x = 85 then
          match r1 with
          | h0 :: h1 :: h2 :: h3 :: h4 :: h5 :: h6 :: h7 :: r2 =>
            match cu4 h0 h1 h2 h3, cu4 h4 h5 h6 h7 with
            | some hi, some lo =>
              if isScalarValue (hi * 65536 + lo) then consO (hi * 65536 + lo) (tomlStrBody r2) else none
            | _, _ => none
          | _ => none
        else none
    else if basicUnescaped c then consO c (tomlStrBody r)
    else none

/-- `basic-string = quotation-mark *basic-char quotation-mark` at the start of the
    input -/
def readBasicString : Str → Option (Str × Str)
  | 34 :: r => tomlStrBody r
  | _ => none

theorem tomlStrBody_escapeChar (c : Nat) (t : Str) :
    tomlStrBody (escapeChar c ++ t) = consO c (tomlStrBody t) := by
  unfold escapeChar
  split; · next h => subst h; rw [tomlStrBody.eq_def]; simp
  split; · next h => subst h; rw [tomlStrBody.eq_def]; simp
  split; · next h => subst h; rw [tomlStrBody.eq_def]; simp
  split; · next h => subst h; rw [tomlStrBody.eq_def]; simp
  split; · next h => subst h; rw [tomlStrBody.eq_def]; simp
  split; · next h => subst h; rw [tomlStrBody.eq_def]; simp
  split; · next h => subst h; rw [tomlStrBody.eq_def]; simp
  split
  · next h =>
    rw [tomlStrBody.eq_def]
    have hc : c < 0x10000 := by omega
    have hs : isScalarValue c = true := by
      unfold isScalarValue; simp only [Bool.and_eq_true, Bool.or_eq_true, decide_eq_true_eq]; omega
    simp [hex4, cu4_hex4 c hc, hs]
  · next h1 h2 h3 h4 h5 h6 h7 h8 =>
    rw [tomlStrBody.eq_def]
    have hb : basicUnescaped c = true := by
      unfold basicUnescaped
      simp only [Bool.or_eq_true, Bool.and_eq_true, decide_eq_true_eq, beq_iff_eq]
      omega
    simp [h6, h7, hb]

theorem tomlStrBody_escapeBody (s rest : Str) :
    tomlStrBody (escapeBody s ++ 34 :: rest) = some (s, rest) := by
  induction s with
  | nil => rw [tomlStrBody.eq_def]; simp [escapeBody]
  | cons c s ih =>
    rw [escapeBody, List.append_assoc, tomlStrBody_escapeChar, ih]; rfl

/-- the TOML basic-string reader inverts `escape_string_toml`, for every string and
    every continuation -/
theorem readBasicString_escape (s rest : Str) :
    readBasicString (escape s ++ rest) = some (s, rest) := by
  unfold escape
  rw [List.cons_append, List.append_assoc]
  unfold readBasicString
  simp only [List.cons_append, List.nil_append]
  exact tomlStrBody_escapeBody s rest

/-! ### no raw control characters -/

/-- not a control character: none of U+0000..U+001F, U+007F..U+009F -/
def notControl (c : Nat) : Prop := 0x20 ≤ c ∧ ¬ (0x7F ≤ c ∧ c ≤ 0x9F)

theorem hexLower_notControl : ∀ n, n < 16 → 0x20 ≤ hexLower n ∧ ¬ (0x7F ≤ hexLower n ∧ hexLower n ≤ 0x9F) := by decide

theorem escapeChar_notControl (c : Nat) : ∀ x ∈ escapeChar c, notControl x := by
  unfold escapeChar notControl
  split; · simp
  split; · simp
  split; · simp
  split; · simp
  split; · simp
  split; · simp
  split; · simp
  split
  · intro x hx
    simp only [hex4, List.mem_cons, List.not_mem_nil, or_false] at hx
    rcases hx with rfl | rfl | rfl | rfl | rfl | rfl
    · omega
    · omega
    all_goals exact hexLower_notControl _ (Nat.mod_lt _ (by omega : 0 < 16))
  · intro x hx
    simp only [List.mem_cons, List.not_mem_nil, or_false] at hx
    omega

theorem escape_notControl (s : Str) : ∀ x ∈ escape s, notControl x := by
  have hb : ∀ s : Str, ∀ x ∈ escapeBody s, notControl x := by
    intro s
    induction s with
    | nil => intro x hx; cases hx
    | cons c s ih =>
      intro x hx
      rw [escapeBody, List.mem_append] at hx
      rcases hx with h | h
      · exact escapeChar_notControl c x h
      · exact ih x h
  intro x hx
  unfold escape at hx
  simp only [List.mem_cons, List.mem_append, List.not_mem_nil, or_false] at hx
  rcases hx with rfl | h | rfl
  · unfold notControl; omega
  · exact hb s x h
  · unfold notControl; omega

/-! ### keys -/

def isBare (c : Nat) : Bool := isAlnum c || c == 95 || c == 45

/-- TOML `simple-key = quoted-key / unquoted-key` at the start of the input
    (`unquoted-key = 1*( ALPHA / DIGIT / %x2D / %x5F )`; literal-string keys are not
    part of the writer's sub-language): the key and what follows it -/
def readKey : Str → Option (Str × Str)
  | 34 :: r => tomlStrBody r
  | s =>
    match s.takeWhile isBare with
    | [] => none
    | k => some (k, s.dropWhile isBare)

theorem isSafeTomlPlain_iff {s : Str} : isSafeTomlPlain s = true ↔ s ≠ [] ∧ ∀ c ∈ s, isBare c = true := by
  unfold isSafeTomlPlain isBare
  cases s with
  | nil => simp
  | cons c s => simp [List.all_eq_true]

/-- every emitted key is a bare key or a quoted basic string -/
theorem escapeKeyToml_forms (k : Str) :
    (escapeKeyToml k = k ∧ k ≠ [] ∧ ∀ c ∈ k, isBare c = true) ∨
    (escapeKeyToml k = escape k ∧ isSafeTomlPlain k = false) := by
  unfold escapeKeyToml
  cases h : isSafeTomlPlain k
  · exact Or.inr ⟨by simp, rfl⟩
  · exact Or.inl ⟨by simp, (isSafeTomlPlain_iff.mp h).1, (isSafeTomlPlain_iff.mp h).2⟩

theorem takeWhile_all_append {p : Nat → Bool} {k : Str} (hk : ∀ c ∈ k, p c = true) (rest : Str)
    (hr : ∀ c r', rest = c :: r' → p c = false) :
    (k ++ rest).takeWhile p = k ∧ (k ++ rest).dropWhile p = rest := by
  induction k with
  | nil =>
    cases rest with
    | nil => exact ⟨rfl, rfl⟩
    | cons c r' =>
      have := hr c r' rfl
      simp [this]
  | cons c k ih =>
    have hc : p c = true := hk c List.mem_cons_self
    have := ih (fun x hx => hk x (List.mem_cons_of_mem _ hx))
    simp [hc, this.1, this.2]

/-- `readKey` inverts `escape_key_toml` whenever the key is followed by something
    that is not a bare-key character (the writer follows keys by ` `, `.` or `]`) -/
theorem readKey_escapeKeyToml (k rest : Str) (hr : ∀ c r', rest = c :: r' → isBare c = false) :
    readKey (escapeKeyToml k ++ rest) = some (k, rest) := by
  rcases escapeKeyToml_forms k with ⟨he, hne, hall⟩ | ⟨he, _⟩
  · rw [he]
    obtain ⟨c, k', rfl⟩ := List.exists_cons_of_ne_nil hne
    have hc : isBare c = true := hall c List.mem_cons_self
    have hc34 : c ≠ 34 := by
      intro h; subst h; exact absurd hc (by decide)
    have htd := takeWhile_all_append hall rest hr
    unfold readKey
    split
    · next h => simp only [List.cons_append, List.cons.injEq] at h; exact absurd h.1 hc34
    · rw [htd.1, htd.2]
  · rw [he]
    unfold escape
    rw [List.cons_append, List.append_assoc]
    unfold readKey
    simp only [List.cons_append, List.nil_append]
    exact tomlStrBody_escapeBody k rest

/-! ## outcomes of the writer; pure text functions for null-free values -/

mutual
def hasNull : JVal → Bool
  | .null => true
  | .arr xs => hasNullL xs
  | .obj fs => hasNullF fs
  | _ => false
def hasNullL : List JVal → Bool
  | [] => false
  | x :: xs => hasNull x || hasNullL xs
def hasNullF : List (Str × JVal) → Bool
  | [] => false
  | (_, x) :: xs => hasNull x || hasNullF xs
end

mutual
/-- the text of `tomlValue` (meaningful for null-free values) -/
def valueP (ind : Str) (depth : Nat) (single : Bool) : JVal → Str
  | .null => []
  | .bool true => sTrue
  | .bool false => sFalse
  | .num t => t
  | .str s => escape s
  | .arr [] => [91, 93]
  | .arr (x :: xs) =>
    if single then [91, 32] ++ (itemsP ind depth single (x :: xs) ++ [32, 93])
    else [91, 10] ++ (itemsP ind depth single (x :: xs) ++ (10 :: (rep depth ind ++ [93])))
  | .obj [] => [123, 32, 32, 125]
  | .obj (kx :: xs) => [123, 32] ++ (inlineP ind depth (kx :: xs) ++ [32, 125])
def itemsP (ind : Str) (depth : Nat) (single : Bool) : List JVal → Str
  | [] => []
  | x :: xs =>
    (if single then [] else rep (depth + 1) ind) ++
      (valueP ind (depth + 1) true x ++ (itemSep single xs ++ itemsP ind depth single xs))
def inlineP (ind : Str) (depth : Nat) : List (Str × JVal) → Str
  | [] => []
  | (k, x) :: xs =>
    (escapeKeyToml k ++ [32, 61, 32]) ++
      (valueP ind (depth + 1) true x ++ (fieldSep xs ++ inlineP ind depth xs))
end

/-! ### the value as the writer spells it: integer tokens of magnitude ≥ 2^63 as floats -/

mutual
/-- every number token `t` replaced by `tomlNum t` (`t ++ ".0"` for an integer
    literal of magnitude ≥ 2^63, else `t`): the same numbers, in the spelling the
    TOML text uses -/
def numsV : JVal → JVal
  | .null => .null
  | .bool b => .bool b
  | .num t => .num (tomlNum t)
  | .str s => .str s
  | .arr xs => .arr (numsL xs)
  | .obj fs => .obj (numsF fs)
def numsL : List JVal → List JVal
  | [] => []
  | x :: xs => numsV x :: numsL xs
def numsF : List (Str × JVal) → List (Str × JVal)
  | [] => []
  | (k, x) :: xs => (k, numsV x) :: numsF xs
end

theorem isObj_numsV (v : JVal) : isObj (numsV v) = isObj v := by
  cases v <;> simp [numsV, isObj]

theorem all_isObj_numsL : (xs : List JVal) → (numsL xs).all isObj = xs.all isObj
  | [] => by simp [numsL]
  | x :: xs => by simp [numsL, isObj_numsV, all_isObj_numsL xs]

theorem numsL_isEmpty (xs : List JVal) : (numsL xs).isEmpty = xs.isEmpty := by
  cases xs <;> simp [numsL]

theorem numsF_isEmpty (fs : List (Str × JVal)) : (numsF fs).isEmpty = fs.isEmpty := by
  cases fs with
  | nil => simp [numsF]
  | cons kx xs => obtain ⟨k, x⟩ := kx; simp [numsF]

theorem isSubTable_numsV (v : JVal) : isSubTable (numsV v) = isSubTable v := by
  cases v <;> simp [numsV, isSubTable, all_isObj_numsL, numsL_isEmpty]

theorem anySub_numsF : (fs : List (Str × JVal)) → anySub (numsF fs) = anySub fs
  | [] => by simp [numsF]
  | (k, x) :: xs => by
    have := anySub_numsF xs
    simp only [anySub] at this ⊢
    simp [numsF, isSubTable_numsV, this]

theorem anyPlain_numsF : (fs : List (Str × JVal)) → anyPlain (numsF fs) = anyPlain fs
  | [] => by simp [numsF]
  | (k, x) :: xs => by
    have := anyPlain_numsF xs
    simp only [anyPlain] at this ⊢
    simp [numsF, isSubTable_numsV, this]

theorem itemSep_numsL (sg : Bool) (xs : List JVal) : itemSep sg (numsL xs) = itemSep sg xs := by
  cases xs <;> simp [numsL, itemSep]

theorem nlAfter_numsL (xs : List JVal) : nlAfter (numsL xs) = nlAfter xs := by
  cases xs <;> simp [numsL, nlAfter]

theorem fieldSep_numsF (fs : List (Str × JVal)) : fieldSep (numsF fs) = fieldSep fs := by
  cases fs with
  | nil => simp [numsF]
  | cons kx xs => obtain ⟨k, x⟩ := kx; simp [numsF, fieldSep]

theorem pre_ok (s x : Str) : pre s (.ok x) = .ok (s ++ x) := rfl
theorem cat_ok (x y : Str) : cat (.ok x) (.ok y) = .ok (x ++ y) := rfl
theorem post_ok (x s : Str) : post (.ok x) s = .ok (x ++ s) := rfl
theorem pre_err (s : Str) (e : Err) : pre s (.error e) = .error e := rfl
theorem cat_err_left (e : Err) (b : R) : cat (.error e) b = .error e := by cases b <;> rfl
theorem cat_ok_err (x : Str) (e : Err) : cat (.ok x) (.error e) = .error e := rfl
theorem post_err (e : Err) (s : Str) : post (.error e) s = .error e := rfl

/-- outcome of a writer function: the text `t` if `n = false`, the null error otherwise -/
def outcome (n : Bool) (t : Str) : R := if n then .error .nullValue else .ok t

theorem outcome_pre (s : Str) (n : Bool) (t : Str) : pre s (outcome n t) = outcome n (s ++ t) := by
  cases n <;> rfl
theorem outcome_post (n : Bool) (t s : Str) : post (outcome n t) s = outcome n (t ++ s) := by
  cases n <;> rfl
theorem outcome_cat (n m : Bool) (t u : Str) : cat (outcome n t) (outcome m u) = outcome (n || m) (t ++ u) := by
  cases n <;> cases m <;> rfl

mutual
theorem tomlValue_outcome (ind : Str) (d : Nat) (sg : Bool) :
    (v : JVal) → tomlValue ind d sg v = outcome (hasNull v) (valueP ind d sg (numsV v))
  | .null => rfl
  | .bool true => rfl
  | .bool false => rfl
  | .num _ => rfl
  | .str _ => rfl
  | .arr [] => rfl
  | .arr (x :: xs) => by
    have h := tomlItems_outcome ind d sg (x :: xs)
    rw [tomlValue, h, numsV, numsL, valueP, hasNull]
    cases sg
    · simp only [Bool.false_eq_true, if_false, outcome_post, outcome_pre]
    · simp only [if_true, outcome_post, outcome_pre]
  | .obj [] => rfl
  | .obj ((k, x) :: xs) => by
    have h := tomlInline_outcome ind d ((k, x) :: xs)
    rw [tomlValue, h, numsV, numsF, valueP, hasNull, outcome_post, outcome_pre]
theorem tomlItems_outcome (ind : Str) (d : Nat) (sg : Bool) :
    (l : List JVal) → tomlItems ind d sg l = outcome (hasNullL l) (itemsP ind d sg (numsL l))
  | [] => rfl
  | x :: xs => by
    rw [tomlItems, tomlValue_outcome ind (d + 1) true x, tomlItems_outcome ind d sg xs,
      outcome_pre, outcome_cat, outcome_pre, numsL, itemsP, hasNullL, itemSep_numsL]
theorem tomlInline_outcome (ind : Str) (d : Nat) :
    (l : List (Str × JVal)) → tomlInline ind d l = outcome (hasNullF l) (inlineP ind d (numsF l))
  | [] => rfl
  | (k, x) :: xs => by
    rw [tomlInline, tomlValue_outcome ind (d + 1) true x, tomlInline_outcome ind d xs,
      outcome_pre, outcome_cat, outcome_pre, numsF, inlineP, hasNullF, fieldSep_numsF]
end

/-! ### tables -/

/-- text of the plain-field loop -/
def plainP (ind : Str) (path : List Str) : List (Str × JVal) → Str
  | [] => []
  | (k, v) :: rest =>
    if isSubTable v then plainP ind path rest
    else
      (rep path.length ind ++ (escapeKeyToml k ++ [32, 61, 32])) ++
        (valueP ind path.length false v ++ ((if anyPlain rest then [10] else []) ++ plainP ind path rest))

/-- nulls among the fields written by the plain-field loop -/
def plainNull : List (Str × JVal) → Bool
  | [] => false
  | (_, v) :: rest => if isSubTable v then plainNull rest else hasNull v || plainNull rest

theorem tomlPlain_outcome (ind : Str) (path : List Str) :
    (fs : List (Str × JVal)) → tomlPlain ind path fs = outcome (plainNull fs) (plainP ind path (numsF fs))
  | [] => rfl
  | (k, v) :: rest => by
    rw [tomlPlain, numsF, plainP, plainNull, isSubTable_numsV]
    cases isSubTable v
    · simp only [Bool.false_eq_true, if_false]
      rw [tomlValue_outcome, tomlPlain_outcome ind path rest, outcome_pre, outcome_cat, outcome_pre,
        anyPlain_numsF]
    · simp only [if_true]
      exact tomlPlain_outcome ind path rest

def tableTextP (hasHeader : Bool) (fs : List (Str × JVal)) (plain subs : Str) : Str :=
  (if hasHeader && !fs.isEmpty then [10] else []) ++ (plain ++ ((if anySub fs then [10] else []) ++ subs))

theorem tableOf_outcome (hh : Bool) (fs : List (Str × JVal)) (n m : Bool) (p s : Str) :
    tableOf hh fs (outcome n p) (outcome m s) = outcome (n || m) (tableTextP hh fs p s) := by
  unfold tableOf tableTextP
  rw [outcome_pre, outcome_cat, outcome_pre]

theorem tableTextP_nums (hh : Bool) (fs : List (Str × JVal)) (p q : Str) :
    tableTextP hh (numsF fs) p q = tableTextP hh fs p q := by
  unfold tableTextP
  rw [numsF_isEmpty, anySub_numsF]

mutual
/-- text of the sub-table loop -/
def subsP (ind : Str) (path : List Str) : List (Str × JVal) → Str
  | [] => []
  | (k, v) :: rest =>
    if isSubTable v then
      (match v with
        | .obj sub =>
          header ind path k false ++
            tableTextP true sub (plainP ind (path ++ [k]) sub) (subsP ind (path ++ [k]) sub)
        | .arr items => arrTablesP ind path k items
        | _ => []) ++
      ((if anySub rest then [10] else []) ++ subsP ind path rest)
    else subsP ind path rest
def arrTablesP (ind : Str) (path : List Str) (k : Str) : List JVal → Str
  | [] => []
  | .obj sub :: rest =>
    header ind path k true ++
      (tableTextP true sub (plainP ind (path ++ [k]) sub) (subsP ind (path ++ [k]) sub) ++
        (nlAfter rest ++ arrTablesP ind path k rest))
  | _ :: rest => arrTablesP ind path k rest
end

mutual
/-- nulls among the fields written by the sub-table loop -/
def subsNull : List (Str × JVal) → Bool
  | [] => false
  | (_, v) :: rest =>
    if isSubTable v then
      (match v with
        | .obj sub => plainNull sub || subsNull sub
        | .arr items => arrNull items
        | _ => false) || subsNull rest
    else subsNull rest
def arrNull : List JVal → Bool
  | [] => false
  | .obj sub :: rest => (plainNull sub || subsNull sub) || arrNull rest
  | _ :: rest => arrNull rest
end

theorem all_isObj_cons {x : JVal} {xs : List JVal} (h : (x :: xs).all isObj = true) :
    (∃ sub, x = .obj sub) ∧ xs.all isObj = true := by
  simp only [List.all_cons, Bool.and_eq_true] at h
  refine ⟨?_, h.2⟩
  cases x <;> first | exact ⟨_, rfl⟩ | exact absurd h.1 (by simp [isObj])

theorem isSubTable_arr {items : List JVal} (h : isSubTable (.arr items) = true) : items.all isObj = true := by
  simp only [isSubTable, Bool.and_eq_true] at h; exact h.2

mutual
theorem tomlSubs_outcome (ind : Str) (path : List Str) :
    (fs : List (Str × JVal)) → tomlSubs ind path fs = outcome (subsNull fs) (subsP ind path (numsF fs))
  | [] => by simp only [tomlSubs, numsF, subsP, subsNull]; rfl
  | (k, .obj sub) :: rest => by
    rw [tomlSubs, numsF, numsV, subsP, subsNull]
    simp only [isSubTable, if_true, tomlSubField]
    rw [tomlSubs_outcome ind path rest, outcome_pre, tomlPlain_outcome, tomlSubs_outcome ind (path ++ [k]) sub,
      tableOf_outcome, outcome_pre, outcome_cat, anySub_numsF, tableTextP_nums]
  | (k, .arr items) :: rest => by
    rw [tomlSubs, numsF, numsV, subsP, subsNull]
    have hst : isSubTable (.arr (numsL items)) = isSubTable (.arr items) := by
      have := isSubTable_numsV (.arr items); rwa [numsV] at this
    rw [hst]
    cases hs : isSubTable (.arr items)
    · simp only [Bool.false_eq_true, if_false]
      exact tomlSubs_outcome ind path rest
    · simp only [if_true, tomlSubField]
      rw [tomlSubs_outcome ind path rest, outcome_pre,
        tomlArrTables_outcome ind path k items (isSubTable_arr hs), outcome_cat, anySub_numsF]
  | (k, .null) :: rest => by
    simp only [tomlSubs, numsF, numsV, subsP, subsNull, isSubTable, Bool.false_eq_true, if_false]
    exact tomlSubs_outcome ind path rest
  | (k, .bool _) :: rest => by
    simp only [tomlSubs, numsF, numsV, subsP, subsNull, isSubTable, Bool.false_eq_true, if_false]
    exact tomlSubs_outcome ind path rest
  | (k, .num _) :: rest => by
    simp only [tomlSubs, numsF, numsV, subsP, subsNull, isSubTable, Bool.false_eq_true, if_false]
    exact tomlSubs_outcome ind path rest
  | (k, .str _) :: rest => by
    simp only [tomlSubs, numsF, numsV, subsP, subsNull, isSubTable, Bool.false_eq_true, if_false]
    exact tomlSubs_outcome ind path rest
theorem tomlArrTables_outcome (ind : Str) (path : List Str) (k : Str) :
    (items : List JVal) → items.all isObj = true →
      tomlArrTables ind path k items = outcome (arrNull items) (arrTablesP ind path k (numsL items))
  | [], _ => by simp only [tomlArrTables, numsL, arrTablesP, arrNull]; rfl
  | .obj sub :: rest, h => by
    have hr : rest.all isObj = true := (all_isObj_cons h).2
    rw [tomlArrTables, tomlArrItem, numsL, numsV, arrTablesP, arrNull, tomlPlain_outcome,
      tomlSubs_outcome ind (path ++ [k]) sub, tableOf_outcome, tomlArrTables_outcome ind path k rest hr,
      outcome_pre, outcome_cat, outcome_pre, nlAfter_numsL, tableTextP_nums]
  | .null :: _, h => absurd (all_isObj_cons h).1 (by simp)
  | .bool _ :: _, h => absurd (all_isObj_cons h).1 (by simp)
  | .num _ :: _, h => absurd (all_isObj_cons h).1 (by simp)
  | .str _ :: _, h => absurd (all_isObj_cons h).1 (by simp)
  | .arr _ :: _, h => absurd (all_isObj_cons h).1 (by simp)
end

/-- text of `do_manifest_toml_table` -/
def tableP (ind : Str) (hasHeader : Bool) (path : List Str) (fs : List (Str × JVal)) : Str :=
  tableTextP hasHeader fs (plainP ind path fs) (subsP ind path fs)

theorem tomlTable_outcome (ind : Str) (hh : Bool) (path : List Str) (fs : List (Str × JVal)) :
    tomlTable ind hh path fs = outcome (plainNull fs || subsNull fs) (tableP ind hh path (numsF fs)) := by
  unfold tomlTable tableP
  rw [tomlPlain_outcome, tomlSubs_outcome, tableOf_outcome, tableTextP_nums]

/-! ### the loops together see every field: `plainNull || subsNull = hasNullF` -/

mutual
theorem tableNull_eq : (fs : List (Str × JVal)) → (plainNull fs || subsNull fs) = hasNullF fs
  | [] => by simp only [plainNull, subsNull, hasNullF]; rfl
  | (k, .obj sub) :: rest => by
    have ih := tableNull_eq rest
    rw [plainNull, subsNull, hasNullF, ← ih]
    simp only [isSubTable, if_true, hasNull]
    rw [← tableNull_eq sub]
    cases plainNull sub <;> cases subsNull sub <;> cases plainNull rest <;> cases subsNull rest <;> rfl
  | (k, .arr items) :: rest => by
    have ih := tableNull_eq rest
    rw [plainNull, subsNull, hasNullF, ← ih]
    cases hs : isSubTable (.arr items)
    · simp only [Bool.false_eq_true, if_false]
      cases hasNull (.arr items) <;> simp
    · simp only [if_true, hasNull]
      rw [arrNull_eq items (isSubTable_arr hs)]
      cases hasNullL items <;> cases plainNull rest <;> cases subsNull rest <;> rfl
  | (k, .null) :: rest => by
    simp only [plainNull, subsNull, hasNullF, isSubTable, hasNull, Bool.false_eq_true, if_false, Bool.true_or]
  | (k, .bool _) :: rest => by
    simp only [plainNull, subsNull, hasNullF, isSubTable, hasNull, Bool.false_eq_true, if_false, Bool.false_or]
    exact tableNull_eq rest
  | (k, .num _) :: rest => by
    simp only [plainNull, subsNull, hasNullF, isSubTable, hasNull, Bool.false_eq_true, if_false, Bool.false_or]
    exact tableNull_eq rest
  | (k, .str _) :: rest => by
    simp only [plainNull, subsNull, hasNullF, isSubTable, hasNull, Bool.false_eq_true, if_false, Bool.false_or]
    exact tableNull_eq rest
theorem arrNull_eq : (items : List JVal) → items.all isObj = true → arrNull items = hasNullL items
  | [], _ => by simp only [arrNull, hasNullL]
  | .obj sub :: rest, h => by
    rw [arrNull, hasNullL, hasNull, arrNull_eq rest (all_isObj_cons h).2, tableNull_eq sub]
  | .null :: _, h => absurd (all_isObj_cons h).1 (by simp)
  | .bool _ :: _, h => absurd (all_isObj_cons h).1 (by simp)
  | .num _ :: _, h => absurd (all_isObj_cons h).1 (by simp)
  | .str _ :: _, h => absurd (all_isObj_cons h).1 (by simp)
  | .arr _ :: _, h => absurd (all_isObj_cons h).1 (by simp)
end

/-- **Outcome of `std.manifestTomlEx`**: `notObject` for a non-object, `nullValue`
    for an object containing `null` anywhere, else the text `tableP ind false []`
    of the fields with the numbers as the writer spells them (`numsF`). -/
theorem manifestTomlEx_obj (ind : Str) (fs : List (Str × JVal)) :
    manifestTomlEx ind (.obj fs) = outcome (hasNullF fs) (tableP ind false [] (numsF fs)) := by
  rw [manifestTomlEx, tomlTable_outcome, tableNull_eq]

theorem manifestTomlEx_ne_unreachable (ind : Str) (v : JVal) :
    manifestTomlEx ind v ≠ .error .unreachable := by
  cases v with
  | obj fs =>
    rw [manifestTomlEx_obj]; unfold outcome
    cases hasNullF fs <;> simp
  | _ => simp [manifestTomlEx]

end Rsj.Toml
