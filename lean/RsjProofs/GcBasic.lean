/-
  Basic vocabulary (well-formed heaps, reachability) and list-level lemmas about the
  primitive heap operations of `RsjModel/Gc.lean`.
-/
import RsjProofs.GcMark
namespace Rsj.Gc

def ids (H : Heap) : List Nat := H.map (·.id)

/-- Object ids are pairwise distinct (every `GcBox` is a distinct allocation). -/
def WF (H : Heap) : Prop := (ids H).Nodup

/-- Between collections every `GcBox` has `visits = 0`, `mark = false`. -/
def Clean (H : Heap) : Prop := ∀ o ∈ H, o.visits = 0 ∧ o.mark = false

/-- Held from outside the heap: by a `GcView` or by a `Gc` handle. -/
def IsRoot (o : Obj) : Prop := o.views > 0 ∨ o.ext > 0

/-- Reachability from the outside handles along in-heap handles whose target is alive. -/
inductive Reach (H : Heap) : Nat → Prop
  | root {o : Obj} : o ∈ H → IsRoot o → Reach H o.id
  | step {o : Obj} {j : Nat} : o ∈ H → Reach H o.id → j ∈ o.edges → j ∈ ids H → Reach H j

theorem mem_ids {H : Heap} {j : Nat} : j ∈ ids H ↔ ∃ o ∈ H, o.id = j := by
  unfold ids; simp [List.mem_map]

theorem mem_ids_of_mem {H : Heap} {o : Obj} (h : o ∈ H) : o.id ∈ ids H := mem_ids.mpr ⟨o, h, rfl⟩

theorem ids_append (A B : Heap) : ids (A ++ B) = ids A ++ ids B := by simp [ids]

theorem ids_cons (a : Obj) (B : Heap) : ids (a :: B) = a.id :: ids B := rfl

theorem WF.eq_of_id {H : Heap} (hw : WF H) {a b : Obj} (ha : a ∈ H) (hb : b ∈ H)
    (h : a.id = b.id) : a = b := by
  induction H with
  | nil => cases ha
  | cons x xs ih =>
    unfold WF at hw; rw [ids_cons, List.nodup_cons] at hw
    rcases List.mem_cons.mp ha with ha | ha <;> rcases List.mem_cons.mp hb with hb | hb
    · rw [ha, hb]
    · rw [ha] at h; exact absurd (h ▸ mem_ids_of_mem hb) hw.1
    · rw [hb] at h; exact absurd (h ▸ mem_ids_of_mem ha) hw.1
    · exact ih hw.2 ha hb

theorem WF.perm {A B : Heap} (h : A.Perm B) (hw : WF A) : WF B := by
  unfold WF ids at *; exact (h.map _).nodup_iff.mp hw

theorem WF.sublist {A B : Heap} (h : A.Sublist B) (hw : WF B) : WF A := by
  unfold WF ids at *; exact (h.map _).nodup hw

/-! ### `find`, `edgesOf`, `isUnmarked` -/

theorem find_some {H : Heap} {j : Nat} {o : Obj} (h : find H j = some o) : o ∈ H ∧ o.id = j := by
  unfold find at h
  exact ⟨List.mem_of_find?_eq_some h, by simpa using List.find?_some h⟩

theorem find_of_mem {H : Heap} (hw : WF H) {o : Obj} (h : o ∈ H) : find H o.id = some o := by
  cases hf : find H o.id with
  | none =>
    unfold find at hf
    have := List.find?_eq_none.mp hf o h
    simp at this
  | some o' =>
    obtain ⟨h1, h2⟩ := find_some hf
    rw [hw.eq_of_id h1 h h2]

theorem find_none {H : Heap} {j : Nat} : find H j = none ↔ j ∉ ids H := by
  unfold find
  rw [List.find?_eq_none, mem_ids]
  constructor
  · intro h ⟨o, ho, hj⟩; exact h o ho (by simp [hj])
  · intro h o ho hj; exact h ⟨o, ho, by simpa using hj⟩

theorem find_isSome {H : Heap} {j : Nat} : (find H j).isSome = true ↔ j ∈ ids H := by
  cases hf : find H j with
  | none => simp [find_none.mp hf]
  | some o => simp; exact mem_ids.mpr ⟨o, (find_some hf).1, (find_some hf).2⟩

theorem edgesOf_of_mem {H : Heap} (hw : WF H) {o : Obj} (h : o ∈ H) : edgesOf H o.id = o.edges := by
  unfold edgesOf; rw [find_of_mem hw h]

theorem edgesOf_mem {H : Heap} {m t : Nat} (h : t ∈ edgesOf H m) :
    ∃ o ∈ H, o.id = m ∧ t ∈ o.edges := by
  unfold edgesOf at h
  cases hf : find H m with
  | none => rw [hf] at h; cases h
  | some o => rw [hf] at h; exact ⟨o, (find_some hf).1, (find_some hf).2, h⟩

theorem isUnmarked_of_mem {H : Heap} (hw : WF H) {o : Obj} (h : o ∈ H) :
    isUnmarked H o.id = !o.mark := by
  unfold isUnmarked; rw [find_of_mem hw h]

theorem isUnmarked_true {H : Heap} {t : Nat} (h : isUnmarked H t = true) :
    ∃ o ∈ H, o.id = t ∧ o.mark = false := by
  unfold isUnmarked at h
  cases hf : find H t with
  | none => rw [hf] at h; cases h
  | some o => rw [hf] at h; exact ⟨o, (find_some hf).1, (find_some hf).2, by simpa using h⟩

/-! ### `inDeg` -/

theorem inDeg_append (A B : Heap) (j : Nat) : inDeg (A ++ B) j = inDeg A j + inDeg B j := by
  induction A with
  | nil => simp [inDeg]
  | cons a as ih => simp only [List.cons_append, inDeg, ih]; omega

theorem inDeg_perm {A B : Heap} (h : A.Perm B) (j : Nat) : inDeg A j = inDeg B j := by
  induction h with
  | nil => rfl
  | cons x _ ih => simp only [inDeg, ih]
  | swap x y l => simp only [inDeg]; omega
  | trans _ _ ih1 ih2 => rw [ih1, ih2]

theorem inDeg_pos_of_mem {H : Heap} {p : Obj} {j : Nat} (hp : p ∈ H) (hj : j ∈ p.edges) :
    0 < inDeg H j := by
  induction H with
  | nil => cases hp
  | cons x xs ih =>
    simp only [inDeg]
    rcases List.mem_cons.mp hp with h | h
    · subst h; have := List.count_pos_iff.mpr hj; omega
    · have := ih h; omega

theorem inDeg_eq_zero {D : Heap} {j : Nat} (h : ∀ m ∈ D, j ∉ m.edges) : inDeg D j = 0 := by
  induction D with
  | nil => rfl
  | cons x xs ih =>
    simp only [inDeg]
    have h1 : List.count j x.edges = 0 := List.count_eq_zero.mpr (h x List.mem_cons_self)
    rw [h1, ih (fun m hm => h m (List.mem_cons_of_mem _ hm))]

theorem inDeg_filter_split (H : Heap) (p : Obj → Bool) (j : Nat) :
    inDeg H j = inDeg (H.filter p) j + inDeg (H.filter (fun o => !p o)) j := by
  induction H with
  | nil => rfl
  | cons x xs ih =>
    simp only [List.filter_cons]
    cases hp : p x <;> simp [inDeg, ih] <;> omega

theorem inDeg_map_of_edges {f : Obj → Obj} (hf : ∀ o, (f o).edges = o.edges) (H : Heap) (j : Nat) :
    inDeg (H.map f) j = inDeg H j := by
  induction H with
  | nil => rfl
  | cons x xs ih => simp only [List.map_cons, inDeg, hf, ih]

theorem inDeg_le_of_sublist {A B : Heap} (h : A.Sublist B) (j : Nat) : inDeg A j ≤ inDeg B j := by
  induction h with
  | slnil => exact Nat.le_refl _
  | cons x _ ih => simp only [inDeg]; omega
  | cons_cons x _ ih => simp only [inDeg]; omega

/-- In-heap handles to `j` held by objects of `D` that are not marked. -/
def unmarkedIn (D : Heap) (j : Nat) : Nat := inDeg (D.filter (fun x => !x.mark)) j

theorem unmarkedIn_append (A B : Heap) (j : Nat) :
    unmarkedIn (A ++ B) j = unmarkedIn A j + unmarkedIn B j := by
  unfold unmarkedIn; rw [List.filter_append, inDeg_append]

theorem unmarkedIn_perm {A B : Heap} (h : A.Perm B) (j : Nat) : unmarkedIn A j = unmarkedIn B j := by
  unfold unmarkedIn; exact inDeg_perm (h.filter _) j

theorem unmarkedIn_le_inDeg (D : Heap) (j : Nat) : unmarkedIn D j ≤ inDeg D j :=
  inDeg_le_of_sublist List.filter_sublist j

theorem unmarkedIn_single (o : Obj) (j : Nat) :
    unmarkedIn [o] j = if o.mark then 0 else o.edges.count j := by
  unfold unmarkedIn
  cases h : o.mark <;> simp [h, inDeg]

/-! ### field lemmas for the object updates -/

@[simp] theorem markObj_id (ms : List Nat) (o : Obj) : (markObj ms o).id = o.id := by
  unfold markObj; split <;> rfl
@[simp] theorem markObj_edges (ms : List Nat) (o : Obj) : (markObj ms o).edges = o.edges := by
  unfold markObj; split <;> rfl
@[simp] theorem markObj_views (ms : List Nat) (o : Obj) : (markObj ms o).views = o.views := by
  unfold markObj; split <;> rfl
@[simp] theorem markObj_ext (ms : List Nat) (o : Obj) : (markObj ms o).ext = o.ext := by
  unfold markObj; split <;> rfl
@[simp] theorem markObj_visits (ms : List Nat) (o : Obj) : (markObj ms o).visits = o.visits := by
  unfold markObj; split <;> rfl
theorem markObj_mark (ms : List Nat) (o : Obj) :
    (markObj ms o).mark = true ↔ (o.mark = true ∨ o.id ∈ ms) := by
  unfold markObj
  by_cases h : o.id ∈ ms
  · simp [h]
  · simp [h]
theorem markObj_nil (o : Obj) : markObj [] o = o := by simp [markObj]

@[simp] theorem bumpObj_id (ts : List Nat) (o : Obj) : (bumpObj ts o).id = o.id := rfl
@[simp] theorem bumpObj_edges (ts : List Nat) (o : Obj) : (bumpObj ts o).edges = o.edges := rfl
@[simp] theorem bumpObj_views (ts : List Nat) (o : Obj) : (bumpObj ts o).views = o.views := rfl
@[simp] theorem bumpObj_ext (ts : List Nat) (o : Obj) : (bumpObj ts o).ext = o.ext := rfl
@[simp] theorem bumpObj_mark (ts : List Nat) (o : Obj) : (bumpObj ts o).mark = o.mark := rfl
@[simp] theorem bumpObj_visits (ts : List Nat) (o : Obj) :
    (bumpObj ts o).visits = o.visits + ts.count o.id := rfl

@[simp] theorem resetObj_id (o : Obj) : (resetObj o).id = o.id := rfl
@[simp] theorem resetObj_edges (o : Obj) : (resetObj o).edges = o.edges := rfl
@[simp] theorem resetObj_views (o : Obj) : (resetObj o).views = o.views := rfl
@[simp] theorem resetObj_ext (o : Obj) : (resetObj o).ext = o.ext := rfl
@[simp] theorem resetObj_visits (o : Obj) : (resetObj o).visits = 0 := rfl
@[simp] theorem resetObj_mark (o : Obj) : (resetObj o).mark = false := rfl

theorem resetObj_markObj (ms : List Nat) (o : Obj) : resetObj (markObj ms o) = resetObj o := by
  unfold markObj; split <;> rfl
theorem resetObj_bumpObj (ts : List Nat) (o : Obj) : resetObj (bumpObj ts o) = resetObj o := rfl
theorem resetObj_of_clean {o : Obj} (h1 : o.visits = 0) (h2 : o.mark = false) : resetObj o = o := by
  cases o; simp only [resetObj] at *; simp_all

theorem setMarks_nil (H : Heap) : setMarks [] H = H := by
  unfold setMarks
  induction H with
  | nil => rfl
  | cons x xs ih => simp only [List.map_cons, markObj_nil, ih]

theorem ids_setMarks (ms : List Nat) (H : Heap) : ids (setMarks ms H) = ids H := by
  unfold ids setMarks; simp [List.map_map, Function.comp_def]

theorem ids_bump (ts : List Nat) (H : Heap) : ids (bump ts H) = ids H := by
  unfold ids bump; simp [List.map_map, Function.comp_def]

theorem mem_setMarks {ms : List Nat} {H : Heap} {o' : Obj} :
    o' ∈ setMarks ms H ↔ ∃ o ∈ H, markObj ms o = o' := by
  unfold setMarks; exact List.mem_map

theorem mem_bump {ts : List Nat} {H : Heap} {o' : Obj} :
    o' ∈ bump ts H ↔ ∃ o ∈ H, bumpObj ts o = o' := by
  unfold bump; exact List.mem_map

theorem setMarks_append (ms : List Nat) (A B : Heap) :
    setMarks ms (A ++ B) = setMarks ms A ++ setMarks ms B := by simp [setMarks]

theorem bump_append (ts : List Nat) (A B : Heap) : bump ts (A ++ B) = bump ts A ++ bump ts B := by
  simp [bump]

theorem inDeg_setMarks (ms : List Nat) (H : Heap) (j : Nat) : inDeg (setMarks ms H) j = inDeg H j :=
  inDeg_map_of_edges (markObj_edges ms) H j

theorem inDeg_bump (ts : List Nat) (H : Heap) (j : Nat) : inDeg (bump ts H) j = inDeg H j :=
  inDeg_map_of_edges (bumpObj_edges ts) H j

theorem unmarkedIn_setMarks_le (ms : List Nat) (D : Heap) (j : Nat) :
    unmarkedIn (setMarks ms D) j ≤ unmarkedIn D j := by
  unfold unmarkedIn setMarks
  induction D with
  | nil => exact Nat.le_refl _
  | cons x xs ih =>
    simp only [List.map_cons, List.filter_cons]
    cases hx : x.mark
    · -- x unmarked before
      by_cases hm : (markObj ms x).mark = true
      · simp only [hm, Bool.not_true, Bool.false_eq_true, if_false, Bool.not_false, if_true, inDeg]
        omega
      · have hm' : (markObj ms x).mark = false := by simpa using hm
        simp only [hm', Bool.not_false, if_true, inDeg, markObj_edges]
        omega
    · have hm : (markObj ms x).mark = true := (markObj_mark ms x).mpr (Or.inl hx)
      simp only [hm, Bool.not_true, Bool.false_eq_true, if_false]
      exact ih

theorem unmarkedIn_bump (ts : List Nat) (D : Heap) (j : Nat) :
    unmarkedIn (bump ts D) j = unmarkedIn D j := by
  unfold unmarkedIn bump
  induction D with
  | nil => rfl
  | cons x xs ih =>
    simp only [List.map_cons, List.filter_cons, bumpObj_mark]
    by_cases hx : x.mark = true
    · simp only [hx, Bool.not_true, Bool.false_eq_true, if_false]; exact ih
    · have hx' : x.mark = false := by simpa using hx
      simp only [hx', Bool.not_false, if_true, inDeg, bumpObj_edges, ih]

/-! ### the `Vec` bookkeeping only permutes -/

theorem rotate_perm (rest : List Obj) : (rotate rest).Perm rest := by
  unfold rotate
  cases h : rest.reverse with
  | nil =>
    have : rest = [] := by simpa using h
    subst this; exact List.Perm.refl _
  | cons l r =>
    have h2 : rest = r.reverse ++ [l] := by
      have := congrArg List.reverse h
      simpa using this
    rw [h2]
    exact (List.perm_append_comm (l₁ := r.reverse) (l₂ := [l])).symm

theorem swap_perm {l : List Obj} {k : Nat} {a b : Obj} (h : l[k]? = some a) :
    (l.set k b ++ [a]).Perm (l ++ [b]) := by
  induction l generalizing k with
  | nil => simp at h
  | cons x xs ih =>
    cases k with
    | zero =>
      simp at h; subst h
      simp only [List.set_cons_zero, List.cons_append]
      -- b :: xs ++ [x] ~ x :: xs ++ [b]
      have h1 : (b :: (xs ++ [x])).Perm (x :: (xs ++ [b])) := by
        have : (xs ++ [x]).Perm (x :: xs) := List.perm_append_comm (l₁ := xs) (l₂ := [x])
        have h2 : (b :: (xs ++ [x])).Perm (b :: x :: xs) := this.cons b
        have h3 : (b :: x :: xs).Perm (x :: b :: xs) := List.Perm.swap x b xs
        have h4 : (xs ++ [b]).Perm (b :: xs) := List.perm_append_comm (l₁ := xs) (l₂ := [b])
        exact h2.trans (h3.trans (h4.symm.cons x))
      exact h1
    | succ k =>
      simp only [List.getElem?_cons_succ] at h
      simp only [List.set_cons_succ, List.cons_append]
      exact (ih h).cons x

end Rsj.Gc
