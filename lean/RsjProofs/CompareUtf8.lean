/-
  C08, string order: Rust compares `str` bytewise (`lhs.cmp(&rhs)` on UTF-8);
  the model compares code point lists.  Both orders coincide.
-/
import RsjProofs.CompareOrd
namespace Rsj.Compare

/-- UTF-8 encoding of one scalar value (local copy; bytes as `Nat`). -/
def utf8 (c : Nat) : List Nat :=
  if c < 0x80 then [c]
  else if c < 0x800 then [0xC0 + c / 64, 0x80 + c % 64]
  else if c < 0x10000 then [0xE0 + c / 4096, 0x80 + c / 64 % 64, 0x80 + c % 64]
  else [0xF0 + c / 262144, 0x80 + c / 4096 % 64, 0x80 + c / 64 % 64, 0x80 + c % 64]

/-- UTF-8 encoding of a string given by its code points. -/
def utf8s : List Nat → List Nat
  | [] => []
  | c :: cs => utf8 c ++ utf8s cs

theorem cmpCps_append_left : ∀ (l r1 r2 : List Nat), cmpCps (l ++ r1) (l ++ r2) = cmpCps r1 r2
  | [], _, _ => rfl
  | x :: l, r1, r2 => by
    simp only [List.cons_append, cmpCps, Nat.lt_irrefl, if_false]
    exact cmpCps_append_left l r1 r2

/-- A smaller code point has a bytewise smaller encoding, whatever follows. -/
theorem utf8_lt {a b : Nat} (hb : b < 0x110000) (h : a < b) (r1 r2 : List Nat) :
    cmpCps (utf8 a ++ r1) (utf8 b ++ r2) = .lt := by
  unfold utf8
  split <;> split <;> (try split) <;> (try split) <;> (try split) <;> (try split) <;>
    simp only [List.cons_append, List.nil_append, cmpCps] <;>
    (repeat' split) <;> first | rfl | (exfalso; omega)

theorem utf8_ne_nil (c : Nat) : ∃ x xs, utf8 c = x :: xs := by
  unfold utf8
  split
  · exact ⟨_, _, rfl⟩
  · split
    · exact ⟨_, _, rfl⟩
    · split <;> exact ⟨_, _, rfl⟩

/-- **UTF-8 encoding is order preserving**: bytewise lexicographic comparison of the
    encodings equals code point lexicographic comparison. -/
theorem utf8_encode_monotone : ∀ (as bs : List Nat), (∀ c ∈ as, c < 0x110000) →
    (∀ c ∈ bs, c < 0x110000) → cmpCps (utf8s as) (utf8s bs) = cmpCps as bs
  | [], [], _, _ => rfl
  | [], b :: bs, _, _ => by
    obtain ⟨x, xs, hx⟩ := utf8_ne_nil b
    simp [utf8s, hx, cmpCps]
  | a :: as, [], _, _ => by
    obtain ⟨x, xs, hx⟩ := utf8_ne_nil a
    simp [utf8s, hx, cmpCps]
  | a :: as, b :: bs, ha, hb => by
    simp only [utf8s, cmpCps]
    by_cases h1 : a < b
    · rw [if_pos h1]
      exact utf8_lt (hb b (List.mem_cons_self ..)) h1 _ _
    · rw [if_neg h1]
      by_cases h2 : b < a
      · rw [if_pos h2, cmpCps_swap, utf8_lt (ha a (List.mem_cons_self ..)) h2]; rfl
      · rw [if_neg h2]
        have : a = b := by omega
        subst this
        rw [cmpCps_append_left]
        exact utf8_encode_monotone as bs (fun c hc => ha c (List.mem_cons_of_mem _ hc))
          (fun c hc => hb c (List.mem_cons_of_mem _ hc))

end Rsj.Compare
