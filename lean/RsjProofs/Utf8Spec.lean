/-
  Specification of one step of lossy UTF-8 decoding (maximal valid prefix →
  scalar value, otherwise U+FFFD for the maximal subpart of the ill-formed
  sequence, as `String::from_utf8_lossy` does), stated against the encoder
  `Rsj.utf8EncodeChar`, and the proof that the model of `decode_cont_char`
  implements exactly this step on byte input.
-/
import RsjProofs.Utf8
namespace Rsj.Utf8

/-- The UTF-8 encoder (`RsjModel/Util.lean`), the reference for the specification. -/
abbrev enc (c : Nat) : List Nat := Rsj.utf8EncodeChar c

def IsBytes (l : List Nat) : Prop := ∀ b ∈ l, b < 256

/-- `bs` begins with the encoding of the scalar value `c`. -/
def StartsWithScalar (bs : List Nat) (c : Nat) : Prop := isScalar c = true ∧ enc c <+: bs

/-- `p` is an initial part of the encoding of some scalar value. -/
def IsEncPrefix (p : List Nat) : Prop := ∃ c, isScalar c = true ∧ p <+: enc c

/-- `n` is the length of the *maximal subpart* of the ill-formed sequence at the
    start of `bs`: the longest initial part of `bs` that also begins a
    well-formed sequence, or one byte if there is none. -/
def MaximalSubpart (bs : List Nat) (n : Nat) : Prop :=
  1 ≤ n ∧ n ≤ bs.length ∧ (n = 1 ∨ IsEncPrefix (bs.take n)) ∧
  ∀ m, n < m → m ≤ bs.length → ¬ IsEncPrefix (bs.take m)

/-- One step of lossy decoding (`String::from_utf8_lossy`, Unicode "substitution
    of maximal subparts"): `DecodeStep bs n r` = at the start of the non-empty
    `bs`, `n` bytes are consumed and yield the scalar `r = some c`, or
    U+FFFD (`r = none`). -/
inductive DecodeStep (bs : List Nat) : Nat → Option Nat → Prop
  | scalar (c : Nat) : StartsWithScalar bs c → DecodeStep bs (enc c).length (some c)
  | replace (n : Nat) : (∀ c, ¬ StartsWithScalar bs c) → MaximalSubpart bs n → DecodeStep bs n none

def IsCont (b : Nat) : Prop := 128 ≤ b ∧ b < 192

set_option maxRecDepth 4000 in
theorem cont_iff_aux : ∀ b, b < 256 → ((b &&& 192 = 128) ↔ (128 ≤ b ∧ b < 192)) := by decide

theorem cont_iff {b : Nat} (hb : b < 256) : b &&& 192 = 128 ↔ IsCont b := cont_iff_aux b hb

theorem enc_1 {c : Nat} (h : c < 128) : enc c = [c] := by
  simp [enc, Rsj.utf8EncodeChar, h]
theorem enc_2 {c : Nat} (h1 : 128 ≤ c) (h2 : c < 2048) : enc c = [192 + c / 64, 128 + c % 64] := by
  simp [enc, Rsj.utf8EncodeChar, show ¬ c < 128 by omega, h2]
theorem enc_3 {c : Nat} (h1 : 2048 ≤ c) (h2 : c < 65536) :
    enc c = [224 + c / 4096, 128 + c / 64 % 64, 128 + c % 64] := by
  simp [enc, Rsj.utf8EncodeChar, show ¬ c < 128 by omega, show ¬ c < 2048 by omega, h2]
theorem enc_4 {c : Nat} (h1 : 65536 ≤ c) :
    enc c = [240 + c / 262144, 128 + c / 4096 % 64, 128 + c / 64 % 64, 128 + c % 64] := by
  simp [enc, Rsj.utf8EncodeChar, show ¬ c < 128 by omega, show ¬ c < 2048 by omega,
    show ¬ c < 65536 by omega]

/-- Every initial part of an encoding, by length. -/
theorem encPrefix_inv {c : Nat} (hs : isScalar c = true) {b0 : Nat} {p : List Nat}
    (hp : b0 :: p <+: enc c) :
    (b0 < 128 ∨ (0xC2 ≤ b0 ∧ b0 ≤ 0xDF) ∨ (0xE0 ≤ b0 ∧ b0 ≤ 0xEF) ∨ (0xF0 ≤ b0 ∧ b0 ≤ 0xF4)) ∧
    (∀ b1 p1, p = b1 :: p1 →
      ((0xC2 ≤ b0 ∧ b0 ≤ 0xDF ∧ IsCont b1 ∧ p1 = []) ∨ ok3 b0 b1 = true ∨ ok4 b0 b1 = true) ∧
      (∀ b2 p2, p1 = b2 :: p2 →
        IsCont b2 ∧ ((ok3 b0 b1 = true ∧ p2 = []) ∨ ok4 b0 b1 = true) ∧
        (∀ b3 p3, p2 = b3 :: p3 → IsCont b3 ∧ ok4 b0 b1 = true ∧ p3 = []))) := by
  rw [isScalar_iff] at hs
  by_cases h1 : c < 128
  · rw [enc_1 h1] at hp
    simp only [List.cons_prefix_cons, List.prefix_nil] at hp
    obtain ⟨rfl, rfl⟩ := hp
    exact ⟨Or.inl h1, by intro b1 p1 h; cases h⟩
  by_cases h2 : c < 2048
  · rw [enc_2 (by omega) h2] at hp
    simp only [List.cons_prefix_cons] at hp
    obtain ⟨rfl, hp⟩ := hp
    refine ⟨Or.inr (Or.inl (by omega)), ?_⟩
    intro b1 p1 h; subst h
    simp only [List.cons_prefix_cons, List.prefix_nil] at hp
    obtain ⟨rfl, rfl⟩ := hp
    refine ⟨Or.inl ⟨by omega, by omega, ⟨by omega, by omega⟩, rfl⟩, by intro b2 p2 h; cases h⟩
  by_cases h3 : c < 65536
  · rw [enc_3 (by omega) h3] at hp
    simp only [List.cons_prefix_cons] at hp
    obtain ⟨rfl, hp⟩ := hp
    refine ⟨Or.inr (Or.inr (Or.inl (by omega))), ?_⟩
    intro b1 p1 h; subst h
    simp only [List.cons_prefix_cons] at hp
    obtain ⟨rfl, hp⟩ := hp
    have hok : ok3 (224 + c / 4096) (128 + c / 64 % 64) = true := by rw [ok3_iff]; omega
    refine ⟨Or.inr (Or.inl hok), ?_⟩
    intro b2 p2 h; subst h
    simp only [List.cons_prefix_cons, List.prefix_nil] at hp
    obtain ⟨rfl, rfl⟩ := hp
    refine ⟨⟨by omega, by omega⟩, Or.inl ⟨hok, rfl⟩, by intro b3 p3 h; cases h⟩
  · rw [enc_4 (by omega)] at hp
    simp only [List.cons_prefix_cons] at hp
    obtain ⟨rfl, hp⟩ := hp
    refine ⟨Or.inr (Or.inr (Or.inr (by omega))), ?_⟩
    intro b1 p1 h; subst h
    simp only [List.cons_prefix_cons] at hp
    obtain ⟨rfl, hp⟩ := hp
    have hok : ok4 (240 + c / 262144) (128 + c / 4096 % 64) = true := by rw [ok4_iff]; omega
    refine ⟨Or.inr (Or.inr hok), ?_⟩
    intro b2 p2 h; subst h
    simp only [List.cons_prefix_cons] at hp
    obtain ⟨rfl, hp⟩ := hp
    refine ⟨⟨by omega, by omega⟩, Or.inr hok, ?_⟩
    intro b3 p3 h; subst h
    simp only [List.cons_prefix_cons, List.prefix_nil] at hp
    obtain ⟨rfl, rfl⟩ := hp
    exact ⟨⟨by omega, by omega⟩, hok, rfl⟩

theorem shape1 {rest : List Nat} (h : 0 < rest.length) : ∃ r, rest = safeGet rest 0 :: r := by
  cases rest with
  | nil => simp at h
  | cons a r => exact ⟨r, by simp [safeGet]⟩

theorem shape2 {rest : List Nat} (h : 1 < rest.length) :
    ∃ r, rest = safeGet rest 0 :: safeGet rest 1 :: r := by
  rcases rest with _ | ⟨a, _ | ⟨b, r⟩⟩
  · simp at h
  · simp at h
  · exact ⟨r, by simp [safeGet]⟩

theorem shape3 {rest : List Nat} (h : 2 < rest.length) :
    ∃ r, rest = safeGet rest 0 :: safeGet rest 1 :: safeGet rest 2 :: r := by
  rcases rest with _ | ⟨a, _ | ⟨b, _ | ⟨c, r⟩⟩⟩
  · simp at h
  · simp at h
  · simp at h
  · exact ⟨r, by simp [safeGet]⟩

theorem two_enc {b0 b1 : Nat} (h0 : 0xC2 ≤ b0 ∧ b0 ≤ 0xDF) (h1 : IsCont b1) :
    isScalar (b0 % 32 * 64 + b1 % 64) = true ∧ enc (b0 % 32 * 64 + b1 % 64) = [b0, b1] := by
  unfold IsCont at h1
  refine ⟨by rw [isScalar_iff]; omega, ?_⟩
  rw [enc_2 (by omega) (by omega)]
  congr 1
  · omega
  · congr 1; omega

theorem three_enc {b0 b1 b2 : Nat} (hok : ok3 b0 b1 = true) (h2 : IsCont b2) :
    isScalar (b0 % 16 * 4096 + b1 % 64 * 64 + b2 % 64) = true ∧
    enc (b0 % 16 * 4096 + b1 % 64 * 64 + b2 % 64) = [b0, b1, b2] := by
  unfold IsCont at h2
  rw [ok3_iff] at hok
  refine ⟨by rw [isScalar_iff]; omega, ?_⟩
  rw [enc_3 (by omega) (by omega)]
  congr 1
  · omega
  · congr 1
    · omega
    · congr 1; omega

theorem four_enc {b0 b1 b2 b3 : Nat} (hok : ok4 b0 b1 = true) (h2 : IsCont b2) (h3 : IsCont b3) :
    isScalar (b0 % 8 * 262144 + b1 % 64 * 4096 + b2 % 64 * 64 + b3 % 64) = true ∧
    enc (b0 % 8 * 262144 + b1 % 64 * 4096 + b2 % 64 * 64 + b3 % 64) = [b0, b1, b2, b3] := by
  unfold IsCont at h2 h3
  rw [ok4_iff] at hok
  refine ⟨by rw [isScalar_iff]; omega, ?_⟩
  rw [enc_4 (by omega)]
  congr 1
  · omega
  · congr 1
    · omega
    · congr 1
      · omega
      · congr 1; omega

/-- The `Some(chr)` results of `decode_cont_char` are exactly scalar values whose
    encoding starts the input. -/
theorem decode_chr_spec {b0 : Nat} {rest : List Nat} {n c : Nat} (hb : IsBytes (b0 :: rest))
    (h : decodeCont b0 rest = .chr n c) :
    StartsWithScalar (b0 :: rest) c ∧ (enc c).length = n + 1 := by
  unfold decodeCont fromU32 at h
  dsimp only at h
  rw [cp2_eq, cp3_eq, cp4_eq] at h
  repeat' split at h
  all_goals first
    | (cases h; done)
    | skip
  · next h0 =>
    cases h
    refine ⟨⟨by rw [isScalar_iff]; omega, ?_⟩, by rw [enc_1 (by omega)]; rfl⟩
    rw [enc_1 (by omega)]; simp
  · next _ h0 hc _ =>
    cases h
    have hc := Decidable.not_not.mp hc
    obtain ⟨r, hr⟩ := shape1 (safeGet_cont hc)
    generalize safeGet rest 0 = b1 at *
    subst hr
    have hc' := (cont_iff (hb b1 (by simp))).mp hc
    obtain ⟨hs, he⟩ := two_enc h0 hc'
    exact ⟨⟨hs, by rw [he]; simp⟩, by rw [he]; rfl⟩
  · next _ _ h0 hok hc _ =>
    cases h
    have hc := Decidable.not_not.mp hc
    have hok : ok3 b0 (safeGet rest 0) = true := by simpa using hok
    obtain ⟨r, hr⟩ := shape2 (safeGet_cont hc)
    generalize safeGet rest 0 = b1 at *
    generalize safeGet rest 1 = b2 at *
    subst hr
    have hc' := (cont_iff (hb b2 (by simp))).mp hc
    obtain ⟨hs, he⟩ := three_enc hok hc'
    exact ⟨⟨hs, by rw [he]; simp⟩, by rw [he]; rfl⟩
  · next _ _ _ h0 hok hc2 hc3 _ =>
    cases h
    have hc2 := Decidable.not_not.mp hc2
    have hc3 := Decidable.not_not.mp hc3
    have hok : ok4 b0 (safeGet rest 0) = true := by simpa using hok
    obtain ⟨r, hr⟩ := shape3 (safeGet_cont hc3)
    generalize safeGet rest 0 = b1 at *
    generalize safeGet rest 1 = b2 at *
    generalize safeGet rest 2 = b3 at *
    subst hr
    have hc2' := (cont_iff (hb b2 (by simp))).mp hc2
    have hc3' := (cont_iff (hb b3 (by simp))).mp hc3
    obtain ⟨hs, he⟩ := four_enc hok hc2' hc3'
    exact ⟨⟨hs, by rw [he]; simp⟩, by rw [he]; rfl⟩

theorem pre1 {a : Nat} {rest : List Nat} (h : [a] <+: rest) : safeGet rest 0 = a := by
  obtain ⟨t, rfl⟩ := h; simp [safeGet]
theorem pre2 {a b : Nat} {rest : List Nat} (h : [a, b] <+: rest) :
    safeGet rest 0 = a ∧ safeGet rest 1 = b := by
  obtain ⟨t, rfl⟩ := h; simp [safeGet]
theorem pre3 {a b c : Nat} {rest : List Nat} (h : [a, b, c] <+: rest) :
    safeGet rest 0 = a ∧ safeGet rest 1 = b ∧ safeGet rest 2 = c := by
  obtain ⟨t, rfl⟩ := h; simp [safeGet]

theorem enc_shape {c : Nat} (hs : isScalar c = true) :
    (c < 128 ∧ enc c = [c]) ∨
    (∃ b0 b1, enc c = [b0, b1] ∧ 0xC2 ≤ b0 ∧ b0 ≤ 0xDF ∧ IsCont b1) ∨
    (∃ b0 b1 b2, enc c = [b0, b1, b2] ∧ ok3 b0 b1 = true ∧ IsCont b2) ∨
    (∃ b0 b1 b2 b3, enc c = [b0, b1, b2, b3] ∧ ok4 b0 b1 = true ∧ IsCont b2 ∧ IsCont b3) := by
  rw [isScalar_iff] at hs
  unfold IsCont
  by_cases h1 : c < 128
  · exact Or.inl ⟨h1, enc_1 h1⟩
  by_cases h2 : c < 2048
  · exact Or.inr (Or.inl ⟨_, _, enc_2 (by omega) h2, by omega, by omega, by omega, by omega⟩)
  by_cases h3 : c < 65536
  · exact Or.inr (Or.inr (Or.inl ⟨_, _, _, enc_3 (by omega) h3, by rw [ok3_iff]; omega,
      by omega, by omega⟩))
  · exact Or.inr (Or.inr (Or.inr ⟨_, _, _, _, enc_4 (by omega), by rw [ok4_iff]; omega,
      ⟨by omega, by omega⟩, by omega, by omega⟩))

/-- If the encoding of a scalar starts `b0 :: rest`, the decoder's acceptance
    conditions hold (completeness of the decoder's tables). -/
theorem starts_inv {b0 c : Nat} {rest : List Nat} (h : StartsWithScalar (b0 :: rest) c) :
    b0 < 128 ∨ (0xC2 ≤ b0 ∧ b0 ≤ 0xDF ∧ IsCont (safeGet rest 0)) ∨
    (ok3 b0 (safeGet rest 0) = true ∧ IsCont (safeGet rest 1)) ∨
    (ok4 b0 (safeGet rest 0) = true ∧ IsCont (safeGet rest 1) ∧ IsCont (safeGet rest 2)) := by
  obtain ⟨hs, hp⟩ := h
  rcases enc_shape hs with ⟨h1, he⟩ | ⟨a0, a1, he, h0, h0', h1⟩ | ⟨a0, a1, a2, he, hok, h2⟩ |
      ⟨a0, a1, a2, a3, he, hok, h2, h3⟩
  · rw [he] at hp
    simp only [List.cons_prefix_cons] at hp
    exact Or.inl (by omega)
  · rw [he] at hp
    simp only [List.cons_prefix_cons] at hp
    obtain ⟨rfl, hp⟩ := hp
    rw [pre1 hp]
    exact Or.inr (Or.inl ⟨h0, h0', h1⟩)
  · rw [he] at hp
    simp only [List.cons_prefix_cons] at hp
    obtain ⟨rfl, hp⟩ := hp
    obtain ⟨e1, e2⟩ := pre2 hp
    rw [e1, e2]
    exact Or.inr (Or.inr (Or.inl ⟨hok, h2⟩))
  · rw [he] at hp
    simp only [List.cons_prefix_cons] at hp
    obtain ⟨rfl, hp⟩ := hp
    obtain ⟨e1, e2, e3⟩ := pre3 hp
    rw [e1, e2, e3]
    exact Or.inr (Or.inr (Or.inr ⟨hok, h2, h3⟩))

/-- What an initial part of length `m ≥ 2` of `b0 :: rest` must satisfy to begin an encoding. -/
theorem encPrefix_take_inv {b0 m : Nat} {rest : List Nat} (hm : 2 ≤ m) (hlen : m ≤ rest.length + 1)
    (h : IsEncPrefix ((b0 :: rest).take m)) :
    ((0xC2 ≤ b0 ∧ b0 ≤ 0xDF ∧ IsCont (safeGet rest 0)) ∨ ok3 b0 (safeGet rest 0) = true ∨
        ok4 b0 (safeGet rest 0) = true) ∧
    (3 ≤ m → IsCont (safeGet rest 1) ∧
        (ok3 b0 (safeGet rest 0) = true ∨ ok4 b0 (safeGet rest 0) = true)) ∧
    (4 ≤ m → IsCont (safeGet rest 2) ∧ ok4 b0 (safeGet rest 0) = true) := by
  obtain ⟨c, hs, hp⟩ := h
  obtain ⟨m', rfl⟩ : ∃ m', m = m' + 2 := ⟨m - 2, by omega⟩
  obtain ⟨r, hr⟩ := shape1 (show 0 < rest.length by omega)
  generalize safeGet rest 0 = b1 at *
  subst hr
  simp only [List.take_succ_cons] at hp
  have k := (encPrefix_inv hs hp).2 b1 _ rfl
  refine ⟨?_, ?_, ?_⟩
  · rcases k.1 with ⟨a, b, c, _⟩ | h | h
    · exact Or.inl ⟨a, b, c⟩
    · exact Or.inr (Or.inl h)
    · exact Or.inr (Or.inr h)
  · intro h3
    obtain ⟨m'', rfl⟩ : ∃ m'', m' = m'' + 1 := ⟨m' - 1, by omega⟩
    simp only [List.length_cons] at hlen
    obtain ⟨r2, hr2⟩ := shape1 (show 0 < r.length by omega)
    have e1 : safeGet (b1 :: r) 1 = safeGet r 0 := by simp [safeGet]
    rw [e1]
    generalize safeGet r 0 = b2 at *
    subst hr2
    simp only [List.take_succ_cons] at k
    have k2 := k.2 b2 _ rfl
    refine ⟨k2.1, ?_⟩
    rcases k2.2.1 with ⟨h, _⟩ | h
    · exact Or.inl h
    · exact Or.inr h
  · intro h4
    obtain ⟨m'', rfl⟩ : ∃ m'', m' = m'' + 2 := ⟨m' - 2, by omega⟩
    simp only [List.length_cons] at hlen
    obtain ⟨r2, hr2⟩ := shape2 (show 1 < r.length by omega)
    have e1 : safeGet (b1 :: r) 2 = safeGet r 1 := by simp [safeGet]
    rw [e1]
    generalize safeGet r 0 = b2 at *
    generalize safeGet r 1 = b3 at *
    subst hr2
    simp only [List.take_succ_cons] at k
    have k3 := (k.2 b2 _ rfl).2.2 b3 _ rfl
    exact ⟨k3.1, k3.2.1⟩

theorem safeGet_byte {rest : List Nat} (i : Nat) (hb : IsBytes rest) : safeGet rest i < 256 := by
  unfold safeGet
  cases h : rest[i]? with
  | none => simp
  | some v => exact hb v (List.mem_of_getElem? h)

theorem not_cont {b : Nat} (hb : b < 256) (h : b &&& 192 ≠ 128) : ¬ IsCont b :=
  fun hc => h ((cont_iff hb).mpr hc)

theorem isEncPrefix_two3 {b0 b1 : Nat} (hok : ok3 b0 b1 = true) : IsEncPrefix [b0, b1] := by
  obtain ⟨hs, he⟩ := three_enc (b2 := 128) hok ⟨by omega, by omega⟩
  exact ⟨_, hs, by rw [he]; simp⟩

theorem isEncPrefix_two4 {b0 b1 : Nat} (hok : ok4 b0 b1 = true) : IsEncPrefix [b0, b1] := by
  obtain ⟨hs, he⟩ := four_enc (b2 := 128) (b3 := 128) hok ⟨by omega, by omega⟩ ⟨by omega, by omega⟩
  exact ⟨_, hs, by rw [he]; simp⟩

theorem isEncPrefix_three4 {b0 b1 b2 : Nat} (hok : ok4 b0 b1 = true) (h2 : IsCont b2) :
    IsEncPrefix [b0, b1, b2] := by
  obtain ⟨hs, he⟩ := four_enc (b3 := 128) hok h2 ⟨by omega, by omega⟩
  exact ⟨_, hs, by rw [he]; simp⟩

/-- The `None` results of `decode_cont_char`: no scalar's encoding starts the
    input, and the bytes consumed are exactly the maximal subpart. -/
theorem decode_bad_spec {b0 : Nat} {rest : List Nat} {n : Nat} (hb : IsBytes (b0 :: rest))
    (h : decodeCont b0 rest = .bad n) :
    (∀ c, ¬ StartsWithScalar (b0 :: rest) c) ∧ MaximalSubpart (b0 :: rest) (n + 1) := by
  have hle := decodeCont_bad_le h
  have hbr : IsBytes rest := fun b hm => hb b (List.mem_cons_of_mem _ hm)
  have hB1 := safeGet_byte 0 hbr
  have hB2 := safeGet_byte 1 hbr
  have hB3 := safeGet_byte 2 hbr
  unfold decodeCont fromU32 at h
  dsimp only at h
  repeat' split at h
  all_goals first
    | (cases h; done)
    | skip
  · -- two-byte lead, no continuation byte
    next _ h0 hc =>
    cases h
    have hc := not_cont hB1 hc
    refine ⟨fun c hs => ?_, by omega, by simp, Or.inl rfl, fun m hm hlen hp => ?_⟩
    · have := starts_inv hs
      simp only [ok3_iff, ok4_iff, IsCont] at *; omega
    · have := (encPrefix_take_inv (by omega) (by simpa using hlen) hp).1
      simp only [ok3_iff, ok4_iff, IsCont] at *; omega
  · -- three-byte lead, second byte outside the table
    next _ _ h0 hok =>
    cases h
    have hok : ¬ ok3 b0 (safeGet rest 0) = true := by simpa using hok
    refine ⟨fun c hs => ?_, by omega, by simp, Or.inl rfl, fun m hm hlen hp => ?_⟩
    · have := starts_inv hs
      simp only [ok3_iff, ok4_iff, IsCont] at *; omega
    · have := (encPrefix_take_inv (by omega) (by simpa using hlen) hp).1
      simp only [ok3_iff, ok4_iff, IsCont] at *; omega
  · -- three-byte lead, third byte not a continuation
    next _ _ h0 hok hc =>
    cases h
    have hok : ok3 b0 (safeGet rest 0) = true := by simpa using hok
    have hc := not_cont hB2 hc
    refine ⟨fun c hs => ?_, by omega, by simp; omega, Or.inr ?_, fun m hm hlen hp => ?_⟩
    · have := starts_inv hs
      simp only [ok3_iff, ok4_iff, IsCont] at *; omega
    · obtain ⟨r, hr⟩ := shape1 (show 0 < rest.length by omega)
      rw [hr]; exact isEncPrefix_two3 hok
    · have := (encPrefix_take_inv (by omega) (by simpa using hlen) hp).2.1 (by omega)
      exact hc this.1
  · -- four-byte lead, second byte outside the table
    next _ _ _ h0 hok =>
    cases h
    have hok : ¬ ok4 b0 (safeGet rest 0) = true := by simpa using hok
    refine ⟨fun c hs => ?_, by omega, by simp, Or.inl rfl, fun m hm hlen hp => ?_⟩
    · have := starts_inv hs
      simp only [ok3_iff, ok4_iff, IsCont] at *; omega
    · have := (encPrefix_take_inv (by omega) (by simpa using hlen) hp).1
      simp only [ok3_iff, ok4_iff, IsCont] at *; omega
  · -- four-byte lead, third byte not a continuation
    next _ _ _ h0 hok hc =>
    cases h
    have hok : ok4 b0 (safeGet rest 0) = true := by simpa using hok
    have hc := not_cont hB2 hc
    refine ⟨fun c hs => ?_, by omega, by simp; omega, Or.inr ?_, fun m hm hlen hp => ?_⟩
    · have := starts_inv hs
      simp only [ok3_iff, ok4_iff, IsCont] at *; omega
    · obtain ⟨r, hr⟩ := shape1 (show 0 < rest.length by omega)
      rw [hr]; exact isEncPrefix_two4 hok
    · have := (encPrefix_take_inv (by omega) (by simpa using hlen) hp).2.1 (by omega)
      exact hc this.1
  · -- four-byte lead, fourth byte not a continuation
    next _ _ _ h0 hok hc2 hc =>
    cases h
    have hok : ok4 b0 (safeGet rest 0) = true := by simpa using hok
    have hc2 := (cont_iff hB2).mp (Decidable.not_not.mp hc2)
    have hc := not_cont hB3 hc
    refine ⟨fun c hs => ?_, by omega, by simp; omega, Or.inr ?_, fun m hm hlen hp => ?_⟩
    · have := starts_inv hs
      simp only [ok3_iff, ok4_iff, IsCont] at *; omega
    · obtain ⟨r, hr⟩ := shape2 (show 1 < rest.length by omega)
      rw [hr]; exact isEncPrefix_three4 hok hc2
    · have := (encPrefix_take_inv (by omega) (by simpa using hlen) hp).2.2 (by omega)
      exact hc this.1
  · -- not a lead byte at all
    next h1 h2 h3 h4 =>
    cases h
    refine ⟨fun c hs => ?_, by omega, by simp, Or.inl rfl, fun m hm hlen hp => ?_⟩
    · have := starts_inv hs
      simp only [ok3_iff, ok4_iff, IsCont] at *; omega
    · have := (encPrefix_take_inv (by omega) (by simpa using hlen) hp).1
      simp only [ok3_iff, ok4_iff, IsCont] at *; omega

set_option linter.unusedVariables false in
/-- UTF-8 is prefix-free and injective on scalar values. -/
theorem enc_prefix_eq {c c' : Nat} (hs : isScalar c = true) (hs' : isScalar c' = true)
    (h : enc c <+: enc c') : c = c' := by
  rw [isScalar_iff] at hs hs'
  by_cases h1 : c < 128 <;> by_cases h1' : c' < 128
  · rw [enc_1 h1, enc_1 h1'] at h; simpa using h
  · by_cases h2' : c' < 2048
    · rw [enc_1 h1, enc_2 (by omega) h2'] at h
      simp only [List.cons_prefix_cons] at h; omega
    by_cases h3' : c' < 65536
    · rw [enc_1 h1, enc_3 (by omega) h3'] at h
      simp only [List.cons_prefix_cons] at h; omega
    · rw [enc_1 h1, enc_4 (by omega)] at h
      simp only [List.cons_prefix_cons] at h; omega
  · by_cases h2 : c < 2048
    · rw [enc_2 (by omega) h2, enc_1 h1'] at h
      simp only [List.cons_prefix_cons] at h; omega
    by_cases h3 : c < 65536
    · rw [enc_3 (by omega) h3, enc_1 h1'] at h
      simp only [List.cons_prefix_cons] at h; omega
    · rw [enc_4 (by omega), enc_1 h1'] at h
      simp only [List.cons_prefix_cons] at h; omega
  · by_cases h2 : c < 2048 <;> by_cases h2' : c' < 2048
    · rw [enc_2 (by omega) h2, enc_2 (by omega) h2'] at h
      simp only [List.cons_prefix_cons] at h; omega
    · by_cases h3' : c' < 65536
      · rw [enc_2 (by omega) h2, enc_3 (by omega) h3'] at h
        simp only [List.cons_prefix_cons] at h; omega
      · rw [enc_2 (by omega) h2, enc_4 (by omega)] at h
        simp only [List.cons_prefix_cons] at h; omega
    · by_cases h3 : c < 65536
      · rw [enc_3 (by omega) h3, enc_2 (by omega) h2'] at h
        simp only [List.cons_prefix_cons] at h; omega
      · rw [enc_4 (by omega), enc_2 (by omega) h2'] at h
        simp only [List.cons_prefix_cons] at h; omega
    · by_cases h3 : c < 65536 <;> by_cases h3' : c' < 65536
      · rw [enc_3 (by omega) h3, enc_3 (by omega) h3'] at h
        simp only [List.cons_prefix_cons] at h; omega
      · rw [enc_3 (by omega) h3, enc_4 (by omega)] at h
        simp only [List.cons_prefix_cons] at h; omega
      · rw [enc_4 (by omega), enc_3 (by omega) h3'] at h
        simp only [List.cons_prefix_cons] at h; omega
      · rw [enc_4 (by omega), enc_4 (by omega)] at h
        simp only [List.cons_prefix_cons] at h; omega

theorem startsWithScalar_unique {bs : List Nat} {c c' : Nat} (h : StartsWithScalar bs c)
    (h' : StartsWithScalar bs c') : c = c' := by
  rcases Nat.le_total (enc c).length (enc c').length with hl | hl
  · exact enc_prefix_eq h.1 h'.1 (List.prefix_of_prefix_length_le h.2 h'.2 hl)
  · exact (enc_prefix_eq h'.1 h.1 (List.prefix_of_prefix_length_le h'.2 h.2 hl)).symm

theorem maximalSubpart_unique {bs : List Nat} {n n' : Nat} (h : MaximalSubpart bs n)
    (h' : MaximalSubpart bs n') : n = n' := by
  obtain ⟨h1, h2, h3, h4⟩ := h
  obtain ⟨h1', h2', h3', h4'⟩ := h'
  rcases Nat.lt_trichotomy n n' with hlt | heq | hgt
  · rcases h3' with h | h
    · omega
    · exact absurd h (h4 n' hlt h2')
  · exact heq
  · rcases h3 with h | h
    · omega
    · exact absurd h (h4' n hgt h2)

/-- The specification is functional: a lossy-decoding step is determined by the input. -/
theorem DecodeStep.unique {bs : List Nat} {n n' : Nat} {r r' : Option Nat}
    (h : DecodeStep bs n r) (h' : DecodeStep bs n' r') : n = n' ∧ r = r' := by
  cases h with
  | scalar c hc =>
    cases h' with
    | scalar c' hc' => have := startsWithScalar_unique hc hc'; subst this; exact ⟨rfl, rfl⟩
    | replace n' hno _ => exact absurd hc (hno c)
  | replace n hno hm =>
    cases h' with
    | scalar c' hc' => exact absurd hc' (hno c')
    | replace n' _ hm' => exact ⟨maximalSubpart_unique hm hm', rfl⟩

/-- The model of `decode_cont_char` performs exactly one specification step. -/
theorem decodeCont_spec {b0 : Nat} {rest : List Nat} (hb : IsBytes (b0 :: rest)) :
    match decodeCont b0 rest with
    | .chr n c => DecodeStep (b0 :: rest) (n + 1) (some c)
    | .bad n => DecodeStep (b0 :: rest) (n + 1) none
    | .panic => False := by
  cases h : decodeCont b0 rest with
  | chr n c =>
    obtain ⟨hs, hl⟩ := decode_chr_spec hb h
    simp only
    rw [← hl]
    exact DecodeStep.scalar c hs
  | bad n =>
    obtain ⟨hno, hm⟩ := decode_bad_spec hb h
    exact DecodeStep.replace (n + 1) hno hm
  | panic => exact absurd h (decodeCont_no_panic b0 rest)

end Rsj.Utf8
