/-
  Helper lemmas for C20 (UTF-8): `String::from_utf8_lossy` against the Unicode
  "maximal subpart" replacement practice.
-/
import RsjProofs.CodecUtf8
namespace Rsj.Codec

/-- `l` is an initial part of some well-formed UTF-8 sequence. -/
def ValidPrefix (l : List Nat) : Prop := ∃ x, Scalar x ∧ l <+: encodeScalar x

/-- The invalid chunk `pre` (followed by `rest`) is a *maximal subpart*: a single
    byte or an initial part of a well-formed sequence, which the next byte does not
    continue. -/
def MaxSubpart (pre rest : List Nat) : Prop :=
  (pre.length = 1 ∨ ValidPrefix pre) ∧ ∀ y ys, rest = y :: ys → ¬ ValidPrefix (pre ++ [y])

def Lead2 (b : Nat) : Prop := 0xC2 ≤ b ∧ b ≤ 0xDF
def Lead3 (b : Nat) : Prop := 0xE0 ≤ b ∧ b ≤ 0xEF
def Lead4 (b : Nat) : Prop := 0xF0 ≤ b ∧ b ≤ 0xF4

/-- The four shapes of a well-formed sequence (Unicode Table 3-7). -/
theorem encode_shape {x : Nat} (hx : Scalar x) :
    (x < 0x80 ∧ encodeScalar x = [x]) ∨
    (∃ b c1, encodeScalar x = [b, c1] ∧ Lead2 b ∧ isCont c1 = true) ∨
    (∃ b c1 c2, encodeScalar x = [b, c1, c2] ∧ Lead3 b ∧ second3 b c1 = true ∧ isCont c2 = true) ∨
    (∃ b c1 c2 c3, encodeScalar x = [b, c1, c2, c3] ∧ Lead4 b ∧ second4 b c1 = true ∧ isCont c2 = true ∧
      isCont c3 = true) := by
  unfold Scalar at hx
  by_cases h1 : x < 0x80
  · exact .inl ⟨h1, enc1 h1⟩
  · by_cases h2 : x < 0x800
    · refine .inr (.inl ⟨_, _, enc2 h1 h2, ?_, (isCont_iff _).mpr (by omega)⟩)
      unfold Lead2; omega
    · by_cases h3 : x < 0x10000
      · refine .inr (.inr (.inl ⟨_, _, _, enc3 h2 h3, ?_, ?_, (isCont_iff _).mpr (by omega)⟩))
        · unfold Lead3; omega
        · rw [second3_iff]; split
          · omega
          · split <;> omega
      · refine .inr (.inr (.inr ⟨_, _, _, _, enc4 h3, ?_, ?_, (isCont_iff _).mpr (by omega),
          (isCont_iff _).mpr (by omega)⟩))
        · unfold Lead4; omega
        · rw [second4_iff]; split
          · omega
          · split <;> omega

/-- Conversely, bytes of these shapes are the encoding of the scalar `lossyStep` computes. -/
theorem decode2_encode {b c1 : Nat} (hb : Lead2 b) (h1 : isCont c1 = true) :
    Scalar ((b - 0xC0) * 64 + (c1 - 0x80)) ∧ encodeScalar ((b - 0xC0) * 64 + (c1 - 0x80)) = [b, c1] := by
  unfold Lead2 at hb
  rw [isCont_iff] at h1
  constructor
  · unfold Scalar; omega
  · rw [enc2 (by omega) (by omega)]
    simp only [List.cons.injEq, and_true]
    omega

theorem decode3_encode {b c1 c2 : Nat} (hb : Lead3 b) (h1 : second3 b c1 = true) (h2 : isCont c2 = true) :
    Scalar ((b - 0xE0) * 4096 + (c1 - 0x80) * 64 + (c2 - 0x80)) ∧
    encodeScalar ((b - 0xE0) * 4096 + (c1 - 0x80) * 64 + (c2 - 0x80)) = [b, c1, c2] := by
  unfold Lead3 at hb
  rw [isCont_iff] at h2
  rw [second3_iff] at h1
  have hc1 : 0x80 ≤ c1 ∧ c1 ≤ 0xBF ∧ (b = 0xE0 → 0xA0 ≤ c1) ∧ (b = 0xED → c1 ≤ 0x9F) := by
    split at h1
    · omega
    · split at h1 <;> omega
  constructor
  · unfold Scalar; omega
  · rw [enc3 (by omega) (by omega)]
    simp only [List.cons.injEq, and_true]
    omega

theorem decode4_encode {b c1 c2 c3 : Nat} (hb : Lead4 b) (h1 : second4 b c1 = true) (h2 : isCont c2 = true)
    (h3 : isCont c3 = true) :
    Scalar ((b - 0xF0) * 262144 + (c1 - 0x80) * 4096 + (c2 - 0x80) * 64 + (c3 - 0x80)) ∧
    encodeScalar ((b - 0xF0) * 262144 + (c1 - 0x80) * 4096 + (c2 - 0x80) * 64 + (c3 - 0x80)) =
      [b, c1, c2, c3] := by
  unfold Lead4 at hb
  rw [isCont_iff] at h2 h3
  rw [second4_iff] at h1
  have hc1 : 0x80 ≤ c1 ∧ c1 ≤ 0xBF ∧ (b = 0xF0 → 0x90 ≤ c1) ∧ (b = 0xF4 → c1 ≤ 0x8F) := by
    split at h1
    · omega
    · split at h1 <;> omega
  constructor
  · unfold Scalar; omega
  · rw [enc4 (by omega)]
    simp only [List.cons.injEq, and_true]
    omega

/-! ### Inversion: which byte lists are initial parts of well-formed sequences -/

theorem inv2 {b c1 : Nat} (h : ValidPrefix [b, c1]) :
    (Lead2 b ∧ isCont c1 = true) ∨ (Lead3 b ∧ second3 b c1 = true) ∨ (Lead4 b ∧ second4 b c1 = true) := by
  obtain ⟨x, hx, hp⟩ := h
  rcases encode_shape hx with ⟨_, e⟩ | ⟨b', c1', e, hl, hc⟩ | ⟨b', c1', c2', e, hl, hs, hc⟩ |
    ⟨b', c1', c2', c3', e, hl, hs, hc2, hc3⟩ <;> rw [e] at hp <;>
    simp only [List.cons_prefix_cons, List.prefix_nil, List.nil_prefix, and_true, List.cons_ne_nil,
      and_false] at hp
  · obtain ⟨rfl, rfl⟩ := hp; exact .inl ⟨hl, hc⟩
  · obtain ⟨rfl, rfl⟩ := hp; exact .inr (.inl ⟨hl, hs⟩)
  · obtain ⟨rfl, rfl⟩ := hp; exact .inr (.inr ⟨hl, hs⟩)

theorem inv3 {b c1 c2 : Nat} (h : ValidPrefix [b, c1, c2]) :
    (Lead3 b ∧ second3 b c1 = true ∧ isCont c2 = true) ∨ (Lead4 b ∧ second4 b c1 = true ∧ isCont c2 = true) := by
  obtain ⟨x, hx, hp⟩ := h
  rcases encode_shape hx with ⟨_, e⟩ | ⟨b', c1', e, hl, hc⟩ | ⟨b', c1', c2', e, hl, hs, hc⟩ |
    ⟨b', c1', c2', c3', e, hl, hs, hc2, hc3⟩ <;> rw [e] at hp <;>
    simp only [List.cons_prefix_cons, List.prefix_nil, List.nil_prefix, and_true, List.cons_ne_nil,
      and_false] at hp
  · obtain ⟨rfl, rfl, rfl⟩ := hp; exact .inl ⟨hl, hs, hc⟩
  · obtain ⟨rfl, rfl, rfl⟩ := hp; exact .inr ⟨hl, hs, hc2⟩

theorem inv4 {b c1 c2 c3 : Nat} (h : ValidPrefix [b, c1, c2, c3]) :
    Lead4 b ∧ second4 b c1 = true ∧ isCont c2 = true ∧ isCont c3 = true := by
  obtain ⟨x, hx, hp⟩ := h
  rcases encode_shape hx with ⟨_, e⟩ | ⟨b', c1', e, hl, hc⟩ | ⟨b', c1', c2', e, hl, hs, hc⟩ |
    ⟨b', c1', c2', c3', e, hl, hs, hc2, hc3⟩ <;> rw [e] at hp <;>
    simp only [List.cons_prefix_cons, List.prefix_nil, and_true, List.cons_ne_nil,
      and_false] at hp
  obtain ⟨rfl, rfl, rfl, rfl⟩ := hp; exact ⟨hl, hs, hc2, hc3⟩

/-- A well-formed sequence at the head of `b :: rest`. -/
theorem start_inv {x b : Nat} {rest : List Nat} (hx : Scalar x) (h : encodeScalar x <+: b :: rest) :
    b < 0x80 ∨ (Lead2 b ∧ ∃ c1 r, rest = c1 :: r ∧ isCont c1 = true) ∨
    (Lead3 b ∧ ∃ c1 c2 r, rest = c1 :: c2 :: r ∧ second3 b c1 = true ∧ isCont c2 = true) ∨
    (Lead4 b ∧ ∃ c1 c2 c3 r, rest = c1 :: c2 :: c3 :: r ∧ second4 b c1 = true ∧ isCont c2 = true ∧
      isCont c3 = true) := by
  obtain ⟨t, ht⟩ := h
  rcases encode_shape hx with ⟨hlt, e⟩ | ⟨b', c1', e, hl, hc⟩ | ⟨b', c1', c2', e, hl, hs, hc⟩ |
    ⟨b', c1', c2', c3', e, hl, hs, hc2, hc3⟩ <;> rw [e] at ht <;>
    simp only [List.cons_append, List.nil_append, List.cons.injEq] at ht
  · obtain ⟨rfl, _⟩ := ht; exact .inl hlt
  · obtain ⟨rfl, rfl⟩ := ht; exact .inr (.inl ⟨hl, _, _, rfl, hc⟩)
  · obtain ⟨rfl, rfl⟩ := ht; exact .inr (.inr (.inl ⟨hl, _, _, _, rfl, hs, hc⟩))
  · obtain ⟨rfl, rfl⟩ := ht; exact .inr (.inr (.inr ⟨hl, _, _, _, _, rfl, hs, hc2, hc3⟩))

theorem isCont_80 : isCont 0x80 = true := by decide

theorem wit2_3 {b c1 : Nat} (hb : Lead3 b) (h1 : second3 b c1 = true) : ValidPrefix [b, c1] := by
  obtain ⟨hs, he⟩ := decode3_encode hb h1 isCont_80
  exact ⟨_, hs, by rw [he]; exact ⟨[0x80], rfl⟩⟩

theorem wit2_4 {b c1 : Nat} (hb : Lead4 b) (h1 : second4 b c1 = true) : ValidPrefix [b, c1] := by
  obtain ⟨hs, he⟩ := decode4_encode hb h1 isCont_80 isCont_80
  exact ⟨_, hs, by rw [he]; exact ⟨[0x80, 0x80], rfl⟩⟩

theorem wit3_4 {b c1 c2 : Nat} (hb : Lead4 b) (h1 : second4 b c1 = true) (h2 : isCont c2 = true) :
    ValidPrefix [b, c1, c2] := by
  obtain ⟨hs, he⟩ := decode4_encode hb h1 h2 isCont_80
  exact ⟨_, hs, by rw [he]; exact ⟨[0x80], rfl⟩⟩

/-! ### One step of `Utf8Chunks` against the specification -/

/-- Outcome of a step that finds no well-formed sequence. -/
def StepInvalid (b : Nat) (rest : List Nat) (n : Nat) : Prop :=
  lossyStep b rest = (REPL, n) ∧ 1 ≤ n ∧ n ≤ rest.length + 1 ∧
  (∀ x, Scalar x → ¬ encodeScalar x <+: b :: rest) ∧
  MaxSubpart ((b :: rest).take n) ((b :: rest).drop n)

/-- Outcome of a step that consumes a well-formed sequence. -/
def StepValid (b : Nat) (rest : List Nat) : Prop :=
  ∃ c t, lossyStep b rest = (c, (encodeScalar c).length) ∧ Scalar c ∧ b :: rest = encodeScalar c ++ t

theorem not_lead_cases {b : Nat} (h1 : ¬ b < 0x80) (h2 : ¬ Lead2 b) (h3 : ¬ Lead3 b) (h4 : ¬ Lead4 b)
    (rest : List Nat) : StepInvalid b rest 1 := by
  unfold Lead2 at h2; unfold Lead3 at h3; unfold Lead4 at h4
  refine ⟨?_, by omega, by omega, ?_, ⟨.inl rfl, ?_⟩⟩
  · unfold lossyStep
    rw [if_neg h1, if_neg h2, if_neg h3, if_neg h4]
  · intro x hx hp
    rcases start_inv hx hp with h | ⟨h, _⟩ | ⟨h, _⟩ | ⟨h, _⟩
    · exact h1 h
    · exact h2 h
    · exact h3 h
    · exact h4 h
  · intro y ys _ hv
    rcases inv2 hv with ⟨h, _⟩ | ⟨h, _⟩ | ⟨h, _⟩
    · exact h2 h
    · exact h3 h
    · exact h4 h

theorem lead2_cases {b : Nat} (hb : Lead2 b) (rest : List Nat) : StepValid b rest ∨ StepInvalid b rest 1 := by
  have hb' := hb
  unfold Lead2 at hb'
  cases rest with
  | nil =>
    right
    refine ⟨?_, by omega, by simp, ?_, ⟨.inl rfl, ?_⟩⟩
    · unfold lossyStep; rw [if_neg (by omega), if_pos hb']
    · intro x hx hp
      rcases start_inv hx hp with h | ⟨_, c1, r, e, _⟩ | ⟨h, _⟩ | ⟨h, _⟩
      · omega
      · cases e
      · unfold Lead3 at h; omega
      · unfold Lead4 at h; omega
    · intro y ys e; cases e
  | cons c1 r =>
    by_cases hc : isCont c1 = true
    · left
      obtain ⟨hs, he⟩ := decode2_encode hb hc
      exact ⟨_, r, by rw [step2 _ _ _ hb' hc, he]; rfl, hs, by rw [he]; rfl⟩
    · right
      refine ⟨?_, by omega, by simp, ?_, ⟨.inl rfl, ?_⟩⟩
      · unfold lossyStep; rw [if_neg (by omega), if_pos hb']; simp only [hc]; rfl
      · intro x hx hp
        rcases start_inv hx hp with h | ⟨_, c1', r', e, h⟩ | ⟨h, _⟩ | ⟨h, _⟩
        · omega
        · cases e; exact hc h
        · unfold Lead3 at h; omega
        · unfold Lead4 at h; omega
      · intro y ys e hv
        cases e
        rcases inv2 hv with ⟨_, h⟩ | ⟨h, _⟩ | ⟨h, _⟩
        · exact hc h
        · unfold Lead3 at h; omega
        · unfold Lead4 at h; omega

theorem lead3_cases {b : Nat} (hb : Lead3 b) (rest : List Nat) :
    StepValid b rest ∨ StepInvalid b rest 1 ∨ StepInvalid b rest 2 := by
  have hb' := hb
  unfold Lead3 at hb'
  have hstep : ∀ l, lossyStep b l =
      (match l with
      | c1 :: rest1 =>
        if second3 b c1 then
          match rest1 with
          | c2 :: _ =>
            if isCont c2 then ((b - 0xE0) * 4096 + (c1 - 0x80) * 64 + (c2 - 0x80), 3) else (REPL, 2)
          | [] => (REPL, 2)
        else (REPL, 1)
      | [] => (REPL, 1)) := by
    intro l; unfold lossyStep; rw [if_neg (by omega), if_neg (by omega), if_pos hb']
    rcases l with _ | ⟨c1, _ | ⟨c2, r2⟩⟩ <;> rfl
  cases rest with
  | nil =>
    right; left
    refine ⟨by rw [hstep], by omega, by simp, ?_, ⟨.inl rfl, ?_⟩⟩
    · intro x hx hp
      rcases start_inv hx hp with h | ⟨h, _⟩ | ⟨_, c1, c2, r, e, _⟩ | ⟨h, _⟩
      · omega
      · unfold Lead2 at h; omega
      · cases e
      · unfold Lead4 at h; omega
    · intro y ys e; cases e
  | cons c1 r1 =>
    by_cases hs : second3 b c1 = true
    · cases r1 with
      | nil =>
        right; right
        refine ⟨by rw [hstep]; simp only [hs, if_true], by omega, by simp, ?_, ⟨.inr (wit2_3 hb hs), ?_⟩⟩
        · intro x hx hp
          rcases start_inv hx hp with h | ⟨h, _⟩ | ⟨_, c1', c2', r', e, _⟩ | ⟨h, _⟩
          · omega
          · unfold Lead2 at h; omega
          · cases e
          · unfold Lead4 at h; omega
        · intro y ys e; cases e
      | cons c2 r2 =>
        by_cases hc : isCont c2 = true
        · left
          obtain ⟨hsc, he⟩ := decode3_encode hb hs hc
          exact ⟨_, r2, by rw [step3 _ _ _ _ hb' hs hc, he]; rfl, hsc, by rw [he]; rfl⟩
        · right; right
          refine ⟨by rw [hstep]; simp only [hs, hc, if_true]; rfl, by omega, by simp, ?_,
            ⟨.inr (wit2_3 hb hs), ?_⟩⟩
          · intro x hx hp
            rcases start_inv hx hp with h | ⟨h, _⟩ | ⟨_, c1', c2', r', e, _, h⟩ | ⟨h, _⟩
            · omega
            · unfold Lead2 at h; omega
            · cases e; exact hc h
            · unfold Lead4 at h; omega
          · intro y ys e hv
            cases e
            rcases inv3 hv with ⟨_, _, h⟩ | ⟨h, _⟩
            · exact hc h
            · unfold Lead4 at h; omega
    · right; left
      refine ⟨by rw [hstep]; simp only [hs]; rfl, by omega, by simp, ?_, ⟨.inl rfl, ?_⟩⟩
      · intro x hx hp
        rcases start_inv hx hp with h | ⟨h, _⟩ | ⟨_, c1', c2', r', e, h, _⟩ | ⟨h, _⟩
        · omega
        · unfold Lead2 at h; omega
        · cases e; exact hs h
        · unfold Lead4 at h; omega
      · intro y ys e hv
        cases e
        rcases inv2 hv with ⟨h, _⟩ | ⟨_, h⟩ | ⟨h, _⟩
        · unfold Lead2 at h; omega
        · exact hs h
        · unfold Lead4 at h; omega

theorem lead4_cases {b : Nat} (hb : Lead4 b) (rest : List Nat) :
    StepValid b rest ∨ StepInvalid b rest 1 ∨ StepInvalid b rest 2 ∨ StepInvalid b rest 3 := by
  have hb' := hb
  unfold Lead4 at hb'
  have hstep : ∀ l, lossyStep b l =
      (match l with
      | c1 :: rest1 =>
        if second4 b c1 then
          match rest1 with
          | c2 :: rest2 =>
            if isCont c2 then
              match rest2 with
              | c3 :: _ =>
                if isCont c3 then
                  ((b - 0xF0) * 262144 + (c1 - 0x80) * 4096 + (c2 - 0x80) * 64 + (c3 - 0x80), 4)
                else (REPL, 3)
              | [] => (REPL, 3)
            else (REPL, 2)
          | [] => (REPL, 2)
        else (REPL, 1)
      | [] => (REPL, 1)) := by
    intro l; unfold lossyStep
    rw [if_neg (by omega), if_neg (by omega), if_neg (by omega), if_pos hb']
    rcases l with _ | ⟨c1, _ | ⟨c2, _ | ⟨c3, r3⟩⟩⟩ <;> rfl
  have nostart : ∀ (l : List Nat),
      (∀ c1 c2 c3 r, l = c1 :: c2 :: c3 :: r → second4 b c1 = true → isCont c2 = true → isCont c3 = true → False) →
      ∀ x, Scalar x → ¬ encodeScalar x <+: b :: l := by
    intro l hl x hx hp
    rcases start_inv hx hp with h | ⟨h, _⟩ | ⟨h, _⟩ | ⟨_, c1, c2, c3, r, e, h1, h2, h3⟩
    · omega
    · unfold Lead2 at h; omega
    · unfold Lead3 at h; omega
    · exact hl c1 c2 c3 r e h1 h2 h3
  cases rest with
  | nil =>
    right; left
    refine ⟨by rw [hstep], by omega, by simp, nostart _ (by intro _ _ _ _ e; cases e), ⟨.inl rfl, ?_⟩⟩
    intro y ys e; cases e
  | cons c1 r1 =>
    by_cases hs : second4 b c1 = true
    · cases r1 with
      | nil =>
        right; right; left
        refine ⟨by rw [hstep]; simp only [hs, if_true], by omega, by simp,
          nostart _ (by intro _ _ _ _ e; cases e), ⟨.inr (wit2_4 hb hs), ?_⟩⟩
        intro y ys e; cases e
      | cons c2 r2 =>
        by_cases hc2 : isCont c2 = true
        · cases r2 with
          | nil =>
            right; right; right
            refine ⟨by rw [hstep]; simp only [hs, hc2, if_true], by omega, by simp,
              nostart _ (by intro _ _ _ _ e; cases e), ⟨.inr (wit3_4 hb hs hc2), ?_⟩⟩
            intro y ys e; cases e
          | cons c3 r3 =>
            by_cases hc3 : isCont c3 = true
            · left
              obtain ⟨hsc, he⟩ := decode4_encode hb hs hc2 hc3
              exact ⟨_, r3, by rw [step4 _ _ _ _ _ hb' hs hc2 hc3, he]; rfl, hsc, by rw [he]; rfl⟩
            · right; right; right
              refine ⟨by rw [hstep]; simp only [hs, hc2, hc3, if_true]; rfl, by omega, by simp,
                nostart _ (by intro _ _ _ _ e _ _ h; cases e; exact hc3 h), ⟨.inr (wit3_4 hb hs hc2), ?_⟩⟩
              intro y ys e hv
              cases e
              exact hc3 (inv4 hv).2.2.2
        · right; right; left
          refine ⟨by rw [hstep]; simp only [hs, hc2, if_true]; rfl, by omega, by simp,
            nostart _ (by intro _ _ _ _ e _ h _; cases e; exact hc2 h), ⟨.inr (wit2_4 hb hs), ?_⟩⟩
          intro y ys e hv
          cases e
          rcases inv3 hv with ⟨h, _⟩ | ⟨_, _, h⟩
          · unfold Lead3 at h; omega
          · exact hc2 h
    · right; left
      refine ⟨by rw [hstep]; simp only [hs]; rfl, by omega, by simp,
        nostart _ (by intro _ _ _ _ e h _ _; cases e; exact hs h), ⟨.inl rfl, ?_⟩⟩
      intro y ys e hv
      cases e
      rcases inv2 hv with ⟨h, _⟩ | ⟨h, _⟩ | ⟨_, h⟩
      · unfold Lead2 at h; omega
      · unfold Lead3 at h; omega
      · exact hs h

/-- **Every step** either consumes the well-formed sequence that starts here and
    yields its scalar, or (no well-formed sequence starts here) yields U+FFFD for a
    maximal subpart of 1..3 bytes. -/
theorem lossyStep_spec (b : Nat) (rest : List Nat) :
    StepValid b rest ∨ ∃ n, StepInvalid b rest n := by
  by_cases h1 : b < 0x80
  · left
    exact ⟨b, rest, by rw [step1 _ _ h1, enc1 h1]; rfl, by unfold Scalar; omega, by rw [enc1 h1]; rfl⟩
  · by_cases h2 : Lead2 b
    · rcases lead2_cases h2 rest with h | h
      · exact .inl h
      · exact .inr ⟨1, h⟩
    · by_cases h3 : Lead3 b
      · rcases lead3_cases h3 rest with h | h | h
        · exact .inl h
        · exact .inr ⟨1, h⟩
        · exact .inr ⟨2, h⟩
      · by_cases h4 : Lead4 b
        · rcases lead4_cases h4 rest with h | h | h | h
          · exact .inl h
          · exact .inr ⟨1, h⟩
          · exact .inr ⟨2, h⟩
          · exact .inr ⟨3, h⟩
        · exact .inr ⟨1, not_lead_cases h1 h2 h3 h4 rest⟩

/-- Specification of lossy decoding (Unicode 3.9, "U+FFFD substitution of maximal
    subparts"; what `String::from_utf8_lossy` documents). -/
inductive LossySpec : List Nat → List Nat → Prop
  | nil : LossySpec [] []
  | valid {c : Nat} {rest out : List Nat} : Scalar c → LossySpec rest out →
      LossySpec (encodeScalar c ++ rest) (c :: out)
  | invalid {pre rest out : List Nat} : pre ≠ [] →
      (∀ x, Scalar x → ¬ encodeScalar x <+: pre ++ rest) → MaxSubpart pre rest →
      LossySpec rest out → LossySpec (pre ++ rest) (REPL :: out)

theorem decodeLossyFuel_spec : ∀ (fuel : Nat) (bs : List Nat), bs.length ≤ fuel →
    LossySpec bs (decodeLossyFuel fuel bs) := by
  intro fuel
  induction fuel with
  | zero =>
    intro bs h
    have : bs = [] := List.length_eq_zero_iff.mp (by omega)
    subst this; exact .nil
  | succ f ih =>
    intro bs h
    cases bs with
    | nil => exact .nil
    | cons b rest =>
      simp only [List.length_cons] at h
      rcases lossyStep_spec b rest with ⟨c, t, hs, hsc, he⟩ | ⟨n, hs, h1, h2, hno, hmax⟩
      · simp only [decodeLossyFuel, hs]
        rw [he, List.drop_left]
        have hl : t.length ≤ f := by
          have := congrArg List.length he
          simp only [List.length_cons, List.length_append] at this
          have := encodeScalar_length_pos c
          omega
        exact .valid hsc (ih t hl)
      · simp only [decodeLossyFuel, hs]
        have hl : ((b :: rest).drop n).length ≤ f := by
          rw [List.length_drop]; simp only [List.length_cons]; omega
        have hsplit : (b :: rest).take n ++ (b :: rest).drop n = b :: rest := List.take_append_drop _ _
        have hne : (b :: rest).take n ≠ [] := by
          obtain ⟨m, rfl⟩ : ∃ m, n = m + 1 := ⟨n - 1, by omega⟩
          simp
        have := LossySpec.invalid hne (by rw [hsplit]; exact hno) hmax (ih _ hl)
        rw [hsplit] at this
        exact this

theorem lossyStep_scalar (b : Nat) (rest : List Nat) : Scalar (lossyStep b rest).1 := by
  rcases lossyStep_spec b rest with ⟨c, t, hs, hsc, _⟩ | ⟨n, hs, _⟩
  · rw [hs]; exact hsc
  · rw [hs]; unfold Scalar REPL; omega

theorem decodeLossyFuel_scalar : ∀ (fuel : Nat) (bs : List Nat), ∀ c ∈ decodeLossyFuel fuel bs, Scalar c := by
  intro fuel
  induction fuel with
  | zero => intro bs c hc; simp [decodeLossyFuel] at hc
  | succ f ih =>
    intro bs c hc
    cases bs with
    | nil => simp [decodeLossyFuel] at hc
    | cons b rest =>
      simp only [decodeLossyFuel, List.mem_cons] at hc
      rcases hc with rfl | hc
      · exact lossyStep_scalar b rest
      · exact ih _ c hc

/-! ### The specification determines the answer -/

theorem validPrefix_of_prefix {l1 l2 : List Nat} (h : l1 <+: l2) (hv : ValidPrefix l2) : ValidPrefix l1 := by
  obtain ⟨x, hx, hp⟩ := hv
  exact ⟨x, hx, h.trans hp⟩

/-- Two maximal subparts at the same position have the same extent. -/
theorem maxSubpart_unique {A B pre rest : List Nat} (hA : A ≠ []) (hpre : pre ≠ [])
    (he : A ++ B = pre ++ rest) (hm1 : MaxSubpart A B) (hm2 : MaxSubpart pre rest) : B = rest := by
  rcases List.append_eq_append_iff.mp he with ⟨a', hp, hb⟩ | ⟨c', ha, hr⟩
  · cases a' with
    | nil => simpa using hb
    | cons y a'' =>
      exfalso
      have hlen : pre.length ≠ 1 := by
        rw [hp, List.length_append, List.length_cons]
        have : 0 < A.length := List.length_pos_iff.mpr hA
        omega
      have hvp : ValidPrefix pre := by
        rcases hm2.1 with h | h
        · exact absurd h hlen
        · exact h
      have : A ++ [y] <+: pre := by
        rw [hp]; exact ⟨a'', by simp⟩
      exact hm1.2 y (a'' ++ rest) hb (validPrefix_of_prefix this hvp)
  · cases c' with
    | nil => simpa using hr.symm
    | cons y c'' =>
      exfalso
      have hlen : A.length ≠ 1 := by
        rw [ha, List.length_append, List.length_cons]
        have : 0 < pre.length := List.length_pos_iff.mpr hpre
        omega
      have hvp : ValidPrefix A := by
        rcases hm1.1 with h | h
        · exact absurd h hlen
        · exact h
      have : pre ++ [y] <+: A := by
        rw [ha]; exact ⟨c'', by simp⟩
      exact hm2.2 y (c'' ++ B) hr (validPrefix_of_prefix this hvp)

/-- `LossySpec` is functional and the decoder computes it. -/
theorem lossySpec_unique {bs out : List Nat} (h : LossySpec bs out) :
    ∀ fuel, bs.length ≤ fuel → decodeLossyFuel fuel bs = out := by
  induction h with
  | nil => intro fuel _; cases fuel <;> rfl
  | @valid c rest out hc _ ih =>
    intro fuel hf
    have hpos := encodeScalar_length_pos c
    rw [List.length_append] at hf
    obtain ⟨f, rfl⟩ : ∃ f, fuel = f + 1 := ⟨fuel - 1, by omega⟩
    rw [decodeLossyFuel_encode hc, ih f (by omega)]
  | @invalid pre rest out hne hno hmax _ ih =>
    intro fuel hf
    rw [List.length_append] at hf
    have hpl : 0 < pre.length := List.length_pos_iff.mpr hne
    obtain ⟨f, rfl⟩ : ∃ f, fuel = f + 1 := ⟨fuel - 1, by omega⟩
    cases hbs : pre ++ rest with
    | nil =>
      have := congrArg List.length hbs
      simp only [List.length_append, List.length_nil] at this
      omega
    | cons b tl =>
      rcases lossyStep_spec b tl with ⟨c', t, _, hsc, het⟩ | ⟨n, hs, h1, h2, _, hm⟩
      · exfalso
        exact hno c' hsc (by rw [hbs, het]; exact List.prefix_append _ _)
      · simp only [decodeLossyFuel, hs]
        have hsplit : (b :: tl).take n ++ (b :: tl).drop n = pre ++ rest := by
          rw [List.take_append_drop, hbs]
        have hA : (b :: tl).take n ≠ [] := by
          obtain ⟨m, rfl⟩ : ∃ m, n = m + 1 := ⟨n - 1, by omega⟩
          simp
        have hdrop := maxSubpart_unique hA hne hsplit hm hmax
        rw [hdrop, ih f (by omega)]

end Rsj.Codec
