import RsjProofs.EvalEmbRewrite3
/-!
  C04 on the evaluator model, rewrites at the root of a program, part 4: the rewrites `array`
  (`e ↦ [e][0]`) and `deadItem` (`e ↦ [e, d][0]`, `d` ARBITRARY).  Same structure as the rewrites `name` and
  `ident` of RsjProofs/EvalEmbRewrite2.lean / EvalEmbRewrite3.lean: the administrative steps of the rewritten
  program (the array literal allocates the element thunks, the index `0` is checked and converted, the
  element thunk is forced one trace item deeper) are computed; then `e` runs in the ROOT environment of both
  programs (no weakened frame), one trace item deeper on the right.  The element thunk (2) of the right
  program is a reserved bookkeeping thunk.  For `deadItem` the store after the array literal is described by
  properties (`newThunk_frame`): what `d` adds (thunk 3, possibly a function cell) is garbage that nothing
  refers to.
-/
set_option linter.unusedVariables false
set_option linter.unusedSectionVars false
namespace Rsj.Eval
open Rsj.Core

/-- `[e][0]` -/
def wrapArr (e : Expr) : Expr := .index (.array (.cons e .nil)) (.num 0)

/-- `[e, d][0]` -/
def wrapArr2 (d e : Expr) : Expr := .index (.array (.cons e (.cons d .nil))) (.num 0)

/-- closed computations on the opaque type `Float` that the kernel cannot evaluate; the executable model runs
    them: `#eval (0 : Float).isNaN`, `#eval (0 : Float).isInf`, `#eval toIndex (0 : Float)` give
    `false`, `false`, `some 0`.  The `0` here and the `0` of `.num 0` in `wrapArr` / `wrapArr2` are the same
    term `@OfNat.ofNat Float 0 instOfNatFloat`. -/
structure FloatZeroFacts : Prop where
  nan : (0 : Float).isNaN = false
  inf : (0 : Float).isInf = false
  idx : toIndex (0 : Float) = some 0

/-! ### administrative steps -/
section
variable [Mode]

/-- the number literal `0` is evaluated in one step -/
theorem run_eval_num0 (hF : FloatZeroFacts) (cfg : Cfg) (m : Nat) (env : EId) (tail : Bool) (d : Nat) (st : St) :
    run cfg (m + 1) (.eval (.num 0) env tail d) st = some (.ok (.num 0), { st with deepest := max st.deepest d }) := by
  show stepN cfg (run cfg m) _ st = _
  unfold stepN step
  simp only [Task.depth]
  rw [M_bind_app, noteDepth_apply]
  simp only []
  unfold checkNum
  rw [hF.nan, hF.inf]
  rfl

/-- an array literal of one element that is not quick -/
theorem run_eval_array1_pending (cfg : Cfg) (m : Nat) (e : Expr) (hq : NotQuick e) (env : EId) (tail : Bool)
    (d : Nat) (st : St) :
    run cfg (m + 1) (.eval (.array (.cons e .nil)) env tail d) st =
      some (.ok (.arr [st.thunks.size]),
        { st with deepest := max st.deepest d, thunks := st.thunks.push (.pending (.expr e env)),
                  runs := st.runs.push 0 }) := by
  show stepN cfg (run cfg m) _ st = _
  unfold stepN step
  simp only [Task.depth, exprsList]
  rw [M_bind_app, noteDepth_apply]
  simp only []
  rw [M_bind_app, List.forIn_cons, M_bind_app, M_bind_app, newThunk_pending hq, allocThunk_apply]
  simp only [pure_app, List.forIn_nil, List.nil_append]

/-- indexing an array value at a position that holds a pending thunk: the thunk is forced one level deeper -/
theorem run_eval_index_arr_pending (cfg : Cfg) (m : Nat) (oe ie : Expr) (env : EId) (tail : Bool) (d : Nat)
    (st st1 st2 : St) (items : List TId) (f : Float) (i : Nat) (t : TId) (p : Pending)
    (h1 : run cfg (m + 1) (.eval oe env false d) { st with deepest := max st.deepest d } = some (.ok (.arr items), st1))
    (h2 : run cfg (m + 1) (.eval ie env false d) st1 = some (.ok (.num f), st2))
    (hi : toIndex f = some i) (hit : items[i]? = some t) (ht : st2.thunks[t]? = some (.pending p))
    (hd : ¬ d + 1 > cfg.maxStack) :
    run cfg (m + 2) (.eval (.index oe ie) env tail d) st =
      (thunkBody cfg (run cfg m) p (d + 1) >>= fun v => finishThunk t v >>= fun _ => pure v)
        { st2 with deepest := max st2.deepest (d + 1),
                   thunks := st2.thunks.setIfInBounds t (.inProgress p),
                   runs := st2.runs.modify t (· + 1) } := by
  show stepN cfg (run cfg (m + 1)) _ st = _
  unfold stepN step
  simp only [Task.depth]
  rw [M_bind_app, noteDepth_apply]
  simp only []
  rw [M_bind_app, h1]
  simp only []
  rw [M_bind_app, h2]
  simp only [hi, hit]
  unfold wantThunk
  rw [M_bind_app, getThunk_apply]
  simp only [ht]
  rw [M_bind_app, checkDepth_ok cfg (d + 1) hd]
  simp only []
  rw [run_force_pending cfg m t (d + 1) st2 p ht]

end

/-! ### C04: a one-element array around the root expression, indexed at 0 (`e ↦ [e][0]`) -/

section Arr
attribute [local instance] Mode.c041

/-- the embedding after the administrative steps: root environment to root environment, the two initial
    thunks to themselves; the element thunk (2) of the right program is reserved -/
def embArr : Emb where
  tm := fun i => if i = 0 then some 0 else if i = 1 then some 1 else none
  em := fun i => if i = 0 then some 0 else none
  om := fun _ => none
  fm := fun _ => none
  rsv := [2]

theorem force_root_array (hF : FloatZeroFacts) (cfg cfg' : Cfg) [RCfg cfg cfg'] (k k' : Nat) (hk : k ≤ k') (e : Expr)
    (hq : NotQuick e) :
    ORel embArr [] [] RVal (run cfg (k + 1) (.force 1 0) (freshStore e))
      (run cfg' (k' + 3) (.force 1 0) (freshStore (wrapArr e))) := by
  have hle : cfg.maxStack + 1 ≤ cfg'.maxStack := (inferInstance : RCfg cfg cfg').le
  have hms : ¬ 0 + 1 > cfg'.maxStack := by omega
  rw [run_force_pending cfg k 1 0 (freshStore e) (.expr e 0) rfl,
    run_force_pending cfg' (k' + 2) 1 0 (freshStore (wrapArr e)) (.expr (wrapArr e) 0) rfl]
  simp only [thunkBody_expr]
  let e' := wrapArr e
  let B1 : St := { thunks := #[.done .null, .inProgress (.expr e' 0)], envs := #[rootCell], runs := #[0, 1] }
  let B2 : St := { thunks := #[.done .null, .inProgress (.expr e' 0), .pending (.expr e 0)]
                   envs := #[rootCell], runs := #[0, 1, 0] }
  let B3 : St := { thunks := #[.done .null, .inProgress (.expr e' 0), .inProgress (.expr e 0)]
                   envs := #[rootCell], runs := #[0, 1, 1], deepest := 1 }
  have e1 : ({ freshStore e' with
      deepest := max (freshStore e').deepest 0,
      thunks := (freshStore e').thunks.setIfInBounds 1 (.inProgress (.expr e' 0)),
      runs := (freshStore e').runs.modify 1 (· + 1) } : St) = B1 := rfl
  have e2 : run cfg' (k' + 2) (.eval e' 0 false 0) B1 =
      (run cfg' k' (.eval e 0 false 1) >>= fun v => finishThunk 2 v >>= fun _ => pure v) B3 := by
    show run cfg' (k' + 2) (.eval (.index (.array (.cons e .nil)) (.num 0)) 0 false 0) B1 = _
    rw [run_eval_index_arr_pending cfg' k' _ _ 0 false 0 B1 B2 B2 [2] 0 0 2 (.expr e 0)
      (by rw [run_eval_array1_pending cfg' k' e hq]; rfl) (by rw [run_eval_num0 hF]; rfl) hF.idx rfl rfl hms]
    rfl
  have hright : ∀ G : Value → M Value,
      (run cfg' (k' + 2) (.eval e' 0 false 0) >>= G) B1 =
      (run cfg' k' (.eval e 0 false 1) >>= fun v => (finishThunk 2 v >>= fun _ => pure v) >>= G) B3 := by
    intro G
    rw [M_bind_app, e2, ← M_bind_app, bind_assoc]
  rw [e1, hright]
  have he00 : RE embArr 0 0 := rfl
  refine ORel.bind' (run_rel_le cfg cfg' k k' hk (.inr trivial) embArr _ _
    (.eval e false 0 he00) [] [] _ B3 ?_) ?_
  · refine {
      thunks := ⟨fun i j k hi hj => ?_, fun i k hik => ?_⟩
      envs := ⟨fun i j k hi hj => ?_, fun i k hik => ?_⟩
      objs := ⟨fun i j k hi _ => (by cases hi), fun i k hik => (by cases hik)⟩
      funcs := ⟨fun i j k hi _ => (by cases hi), fun i k hik => (by cases hik)⟩
      traces := ⟨[], rfl, rfl⟩
      wkcell := fun w hw => (by cases hw)
      rsvok := fun t ht => ?_ }
    · simp only [embArr] at hi hj
      split at hi <;> split at hj <;> (try split at hi) <;> (try split at hj) <;> simp_all <;> omega
    · simp only [embArr] at hik
      split at hik
      · cases hik; subst_vars
        exact ⟨.done .null, .done .null, rfl, rfl, .done .null⟩
      · split at hik
        · cases hik; subst_vars
          exact ⟨.inProgress (.expr e 0), .inProgress (.expr e' 0), rfl, rfl, .inProgressLoose trivial⟩
        · cases hik
    · simp only [embArr] at hi hj
      split at hi <;> split at hj <;> simp_all
    · simp only [embArr] at hik
      split at hik
      · cases hik; subst_vars
        exact ⟨_, _, rfl, rfl, .inl ⟨.none, .cons ⟨rfl, rfl⟩ .nil, .none⟩⟩
      · cases hik
    · simp only [embArr, List.mem_singleton] at ht
      subst ht
      refine ⟨by show 2 < 3; omega, fun j => ?_⟩
      simp only [embArr]
      split
      · simp
      · split <;> simp
  · intro ρ' v w a' b' hle hl hr hs hvw
    have h2 : b'.thunks[2]? = some (.inProgress (.expr e 0)) :=
      run_keeps_inProgress cfg' k' _ B3 b' _ hr 2 _ rfl
    have hrsv : 2 ∈ ρ'.rsv := by rw [hle.rsv]; simp [embArr]
    have ht : RT ρ' 1 1 := hle.t 1 1 rfl
    rw [bind_assoc, M_bind_app (finishThunk 2 w), finishThunk_app, h2]
    simp only [pure_bind]
    exact (MRel_bind (finishThunk_rel ht hvw) (fun ρ'' hle' _ _ _ => MRel_pure (Mono.mono hle' hvw)))
      [] [] a' _ (hs.set_rsv hrsv (.done w))

theorem requestProg_root_array (hF : FloatZeroFacts) (cfg cfg' : Cfg) [RCfg cfg cfg'] (k k' : Nat) (hk : k ≤ k')
    (e : Expr) (hq : NotQuick e) :
    ORel embArr [] [] REq (requestProg cfg (k + 1) 1 (freshStore e))
      (requestProg cfg' (k' + 3) 1 (freshStore (wrapArr e))) := by
  unfold requestProg
  refine ORel.bind' (force_root_array hF cfg cfg' k k' hk e hq) ?_
  intro ρ' v w a' b' hle _ _ hs hvw
  have hms : cfg.maxStack ≤ cfg'.maxStack := by
    have h1 : cfg.maxStack + 1 ≤ cfg'.maxStack := (inferInstance : RCfg cfg cfg').le
    omega
  exact ORel.c04s (request_tail_rel cfg cfg' hms (k + 1) (k' + 3) (by omega) hvw [] [] a' b' (Sim.c04s hs))

end Arr

/-- **C04, a one-element array indexed at 0 around the root expression** (`e ↦ [e][0]`), for an `e` that is
    not a parenthesised literal or function.  The constants are sharp (`evalP 0 12 (!true)` is `ok false` and
    `evalP 0 12 [!true][0]` is a StackOverflow; `!true` needs fuel 3 and `[!true][0]` fuel 5). -/
theorem array_root_notQuick (hF : FloatZeroFacts) (e : Expr) (hq : NotQuick e) (ms fuel : Nat)
    (h1 : (evalP ms fuel e).1 ≠ "gas") (h2 : (evalP ms fuel e).1 ≠ showErr .stackOverflow)
    (h3 : (evalP ms fuel e).1 ≠ showErr (.internal "variable not found")) :
    ∀ ms' fuel', ms + 1 ≤ ms' → fuel + 2 ≤ fuel' → evalP ms' fuel' (wrapArr e) = evalP ms fuel e := by
  intro ms' fuel' hms hf
  cases fuel with
  | zero => exact absurd (by rw [evalP_eq]; rfl) h1
  | succ k =>
    obtain ⟨k', rfl⟩ : ∃ k', fuel' = k' + 3 := ⟨fuel' - 3, by omega⟩
    letI : Mode := Mode.c041
    haveI : RCfg ⟨ms⟩ ⟨ms'⟩ := ⟨hms, fun h => absurd (.inl rfl) h⟩
    exact evalP_eq_of_ORel (c := 1) (requestProg_root_array hF ⟨ms⟩ ⟨ms'⟩ k k' (by omega) e hq) h1 h2 h3

/-! ### C04: a dead second array element (`e ↦ [e, d][0]`, `d` arbitrary) -/

section
variable [Mode]
/-- an array literal of two elements, the first one not quick, the second one arbitrary: the store afterwards,
    described by properties (the second element appends a thunk and possibly a function cell) -/
theorem run_eval_array2 (cfg : Cfg) (m : Nat) (e dd : Expr) (hq : NotQuick e) (env : EId) (tail : Bool)
    (d : Nat) (st : St) :
    ∃ t3 st2, run cfg (m + 1) (.eval (.array (.cons e (.cons dd .nil))) env tail d) st =
        some (.ok (.arr [st.thunks.size, t3]), st2) ∧
      st2.envs = st.envs ∧ st2.traces = st.traces ∧ st2.objs = st.objs ∧
      (∀ i, i < st.thunks.size → st2.thunks[i]? = st.thunks[i]?) ∧
      st2.thunks[st.thunks.size]? = some (.pending (.expr e env)) ∧
      (∀ i, i < st.funcs.size → st2.funcs[i]? = st.funcs[i]?) := by
  show ∃ t3 st2, stepN cfg (run cfg m) _ st = _ ∧ _
  unfold stepN step
  simp only [Task.depth, exprsList]
  rw [M_bind_app, noteDepth_apply]
  simp only []
  rw [M_bind_app, List.forIn_cons, M_bind_app, M_bind_app, newThunk_pending hq, allocThunk_apply]
  simp only [pure_app, List.nil_append]
  rw [List.forIn_cons, M_bind_app, M_bind_app]
  obtain ⟨t3, st2, hn, he, htr, ho, hth, hf⟩ := newThunk_frame dd env
    { thunks := st.thunks.push (.pending (.expr e env)), envs := st.envs,
      objs := st.objs, funcs := st.funcs, traces := st.traces, runs := st.runs.push 0,
      deepest := max st.deepest d, tripped := st.tripped }
  rw [hn]
  simp only [pure_app, List.forIn_nil, List.cons_append, List.nil_append]
  simp only [Array.size_push] at hth
  refine ⟨t3, st2, rfl, he, htr, ho, fun i hi => ?_, ?_, hf⟩
  · rw [hth i (by omega)]
    simp [Array.getElem?_push, Nat.ne_of_lt hi]
  · rw [hth _ (by omega)]
    simp
end

section Arr2
attribute [local instance] Mode.c041

theorem force_root_deadItem (hF : FloatZeroFacts) (cfg cfg' : Cfg) [RCfg cfg cfg'] (k k' : Nat) (hk : k ≤ k')
    (dd e : Expr) (hq : NotQuick e) :
    ORel embArr [] [] RVal (run cfg (k + 1) (.force 1 0) (freshStore e))
      (run cfg' (k' + 3) (.force 1 0) (freshStore (wrapArr2 dd e))) := by
  have hle : cfg.maxStack + 1 ≤ cfg'.maxStack := (inferInstance : RCfg cfg cfg').le
  have hms : ¬ 0 + 1 > cfg'.maxStack := by omega
  rw [run_force_pending cfg k 1 0 (freshStore e) (.expr e 0) rfl,
    run_force_pending cfg' (k' + 2) 1 0 (freshStore (wrapArr2 dd e)) (.expr (wrapArr2 dd e) 0) rfl]
  simp only [thunkBody_expr]
  let e' := wrapArr2 dd e
  let B1 : St := { thunks := #[.done .null, .inProgress (.expr e' 0)], envs := #[rootCell], runs := #[0, 1] }
  have e1 : ({ freshStore e' with
      deepest := max (freshStore e').deepest 0,
      thunks := (freshStore e').thunks.setIfInBounds 1 (.inProgress (.expr e' 0)),
      runs := (freshStore e').runs.modify 1 (· + 1) } : St) = B1 := rfl
  -- the store after the array literal: thunk 2 is the thunk of `e`; what `dd` adds is garbage
  obtain ⟨t3, B2, hrun, henv, htr, hobj, hth, h2p, hfn⟩ :=
    run_eval_array2 cfg' k' e dd hq 0 false 0 B1
  have h2p' : B2.thunks[2]? = some (.pending (.expr e 0)) := h2p
  have hlt : 2 < B2.thunks.size := by
    rcases Nat.lt_or_ge 2 B2.thunks.size with h | h
    · exact h
    · rw [Array.getElem?_eq_none h] at h2p'; cases h2p'
  let B3 : St := { B2 with deepest := max (max B2.deepest 0) (0 + 1),
                           thunks := B2.thunks.setIfInBounds 2 (.inProgress (.expr e 0)),
                           runs := B2.runs.modify 2 (· + 1) }
  have e2 : run cfg' (k' + 2) (.eval e' 0 false 0) B1 =
      (run cfg' k' (.eval e 0 false 1) >>= fun v => finishThunk 2 v >>= fun _ => pure v) B3 := by
    show run cfg' (k' + 2) (.eval (.index (.array (.cons e (.cons dd .nil))) (.num 0)) 0 false 0) B1 = _
    rw [run_eval_index_arr_pending cfg' k' _ _ 0 false 0 B1 B2 { B2 with deepest := max B2.deepest 0 } [2, t3] 0 0 2
      (.expr e 0) hrun (run_eval_num0 hF cfg' k' 0 false 0 B2) hF.idx rfl h2p' hms]
    rfl
  have hright : ∀ G : Value → M Value,
      (run cfg' (k' + 2) (.eval e' 0 false 0) >>= G) B1 =
      (run cfg' k' (.eval e 0 false 1) >>= fun v => (finishThunk 2 v >>= fun _ => pure v) >>= G) B3 := by
    intro G
    rw [M_bind_app, e2, ← M_bind_app, bind_assoc]
  rw [e1, hright]
  have he00 : RE embArr 0 0 := rfl
  have h3ip : B3.thunks[2]? = some (.inProgress (.expr e 0)) := by
    show (B2.thunks.setIfInBounds 2 _)[2]? = _
    simp [hlt]
  refine ORel.bind' (run_rel_le cfg cfg' k k' hk (.inr trivial) embArr _ _
    (.eval e false 0 he00) [] [] _ B3 ?_) ?_
  · refine {
      thunks := ⟨fun i j k hi hj => ?_, fun i k hik => ?_⟩
      envs := ⟨fun i j k hi hj => ?_, fun i k hik => ?_⟩
      objs := ⟨fun i j k hi _ => (by cases hi), fun i k hik => (by cases hik)⟩
      funcs := ⟨fun i j k hi _ => (by cases hi), fun i k hik => (by cases hik)⟩
      traces := ⟨[], rfl, htr⟩
      wkcell := fun w hw => (by cases hw)
      rsvok := fun t ht => ?_ }
    · simp only [embArr] at hi hj
      split at hi <;> split at hj <;> (try split at hi) <;> (try split at hj) <;> simp_all <;> omega
    · simp only [embArr] at hik
      split at hik
      · cases hik; subst_vars
        refine ⟨.done .null, .done .null, rfl, ?_, .done .null⟩
        show (B2.thunks.setIfInBounds 2 _)[0]? = _
        rw [Array.getElem?_setIfInBounds_ne (by omega), hth 0 (by show 0 < 2; omega)]; rfl
      · split at hik
        · cases hik; subst_vars
          refine ⟨.inProgress (.expr e 0), .inProgress (.expr e' 0), rfl, ?_, .inProgressLoose trivial⟩
          show (B2.thunks.setIfInBounds 2 _)[1]? = _
          rw [Array.getElem?_setIfInBounds_ne (by omega), hth 1 (by show 1 < 2; omega)]; rfl
        · cases hik
    · simp only [embArr] at hi hj
      split at hi <;> split at hj <;> simp_all
    · simp only [embArr] at hik
      split at hik
      · cases hik; subst_vars
        refine ⟨rootCell, rootCell, rfl, ?_, .inl ⟨.none, .cons ⟨rfl, rfl⟩ .nil, .none⟩⟩
        show B2.envs[0]? = _
        rw [henv]; rfl
      · cases hik
    · simp only [embArr, List.mem_singleton] at ht
      subst ht
      refine ⟨by show 2 < (B2.thunks.setIfInBounds 2 _).size; simpa using hlt, fun j => ?_⟩
      simp only [embArr]
      split
      · simp
      · split <;> simp
  · intro ρ' v w a' b' hle hl hr hs hvw
    have h2 : b'.thunks[2]? = some (.inProgress (.expr e 0)) :=
      run_keeps_inProgress cfg' k' _ B3 b' _ hr 2 _ h3ip
    have hrsv : 2 ∈ ρ'.rsv := by rw [hle.rsv]; simp [embArr]
    have ht : RT ρ' 1 1 := hle.t 1 1 rfl
    rw [bind_assoc, M_bind_app (finishThunk 2 w), finishThunk_app, h2]
    simp only [pure_bind]
    exact (MRel_bind (finishThunk_rel ht hvw) (fun ρ'' hle' _ _ _ => MRel_pure (Mono.mono hle' hvw)))
      [] [] a' _ (hs.set_rsv hrsv (.done w))

theorem requestProg_root_deadItem (hF : FloatZeroFacts) (cfg cfg' : Cfg) [RCfg cfg cfg'] (k k' : Nat) (hk : k ≤ k')
    (dd e : Expr) (hq : NotQuick e) :
    ORel embArr [] [] REq (requestProg cfg (k + 1) 1 (freshStore e))
      (requestProg cfg' (k' + 3) 1 (freshStore (wrapArr2 dd e))) := by
  unfold requestProg
  refine ORel.bind' (force_root_deadItem hF cfg cfg' k k' hk dd e hq) ?_
  intro ρ' v w a' b' hle _ _ hs hvw
  have hms : cfg.maxStack ≤ cfg'.maxStack := by
    have h1 : cfg.maxStack + 1 ≤ cfg'.maxStack := (inferInstance : RCfg cfg cfg').le
    omega
  exact ORel.c04s (request_tail_rel cfg cfg' hms (k + 1) (k' + 3) (by omega) hvw [] [] a' b' (Sim.c04s hs))

end Arr2

/-- **C04, a dead array element** (`e ↦ [e, d][0]`) for ANY `d` (literal, function or pending: it is never
    forced), and an `e` that is not a parenthesised literal or function -/
theorem deadItem_root_notQuick (hF : FloatZeroFacts) (dd e : Expr) (hq : NotQuick e) (ms fuel : Nat)
    (h1 : (evalP ms fuel e).1 ≠ "gas") (h2 : (evalP ms fuel e).1 ≠ showErr .stackOverflow)
    (h3 : (evalP ms fuel e).1 ≠ showErr (.internal "variable not found")) :
    ∀ ms' fuel', ms + 1 ≤ ms' → fuel + 2 ≤ fuel' → evalP ms' fuel' (wrapArr2 dd e) = evalP ms fuel e := by
  intro ms' fuel' hms hf
  cases fuel with
  | zero => exact absurd (by rw [evalP_eq]; rfl) h1
  | succ k =>
    obtain ⟨k', rfl⟩ : ∃ k', fuel' = k' + 3 := ⟨fuel' - 3, by omega⟩
    letI : Mode := Mode.c041
    haveI : RCfg ⟨ms⟩ ⟨ms'⟩ := ⟨hms, fun h => absurd (.inl rfl) h⟩
    exact evalP_eq_of_ORel (c := 1) (requestProg_root_deadItem hF ⟨ms⟩ ⟨ms'⟩ k k' (by omega) dd e hq) h1 h2 h3

/-- the hypotheses are satisfiable and the rewritten programs are different ones -/
example (hF : FloatZeroFacts) :
    evalP 11 12 (wrapArr (.unary .lnot .true_)) = evalP 10 10 (.unary .lnot .true_) :=
  array_root_notQuick hF _ ⟨fun _ _ h => (by cases h), rfl⟩ 10 10 (by decide) (by decide) (by decide) 11 12
    (by omega) (by omega)

example (hF : FloatZeroFacts) (d : Expr) :
    evalP 11 12 (wrapArr2 d (.unary .lnot .true_)) = evalP 10 10 (.unary .lnot .true_) :=
  deadItem_root_notQuick hF d _ ⟨fun _ _ h => (by cases h), rfl⟩ 10 10 (by decide) (by decide) (by decide) 11 12
    (by omega) (by omega)

end Rsj.Eval
