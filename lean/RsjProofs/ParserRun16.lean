/-
  C15 print/parse, part 16: comprehension specs, object comprehensions, `parse_obj_inside` on a
  printed object body, the object literal as a head and object extension as a postfix form.
-/
import RsjProofs.ParserRun15
namespace Rsj.Parser

section
variable {toks : List Token} (pe : PState toks → Except (Err toks) (Expr × PState toks)) (R : Nat)

/-! ### comprehension specs -/

def CompSpec.expr : CompSpec → Expr
  | .for_ _ e => e
  | .if_ e => e

omit pe R in
theorem prSpec_for (full : Bool) (v : Ident) (e : Expr) :
    prSpec full (.for_ v e) = sim .For :: .ident v.value :: sim .In :: sub full e 0 false false := by
  simp [prSpec]
omit pe R in
theorem prSpec_if (full : Bool) (e : Expr) : prSpec full (.if_ e) = sim .If :: sub full e 0 false false := by
  simp [prSpec]

omit pe R in
theorem prSpecs_cons (full : Bool) (s : CompSpec) (ss : List CompSpec) :
    prSpecs full (s :: ss) = prSpec full s ++ prSpecs full ss := by simp [prSpecs]

omit pe R in
theorem prSpec_head (full : Bool) (s : CompSpec) :
    ∃ a Z, prSpec full s = a :: Z ∧ (a = sim .For ∨ a = sim .If) := by
  cases s with
  | for_ v e => exact ⟨_, _, prSpec_for full v e, Or.inl rfl⟩
  | if_ e => exact ⟨_, _, prSpec_if full e, Or.inr rfl⟩

omit pe R in
theorem prSpecs_length (full : Bool) : ∀ ss : List CompSpec, ss.length ≤ (prSpecs full ss).length
  | [] => by simp
  | s :: ss => by
    obtain ⟨a, Z, hz, _⟩ := prSpec_head full s
    have := prSpecs_length full ss
    rw [prSpecs_cons, hz]; simp; omega

omit pe R in
/-- the token after a spec: the next spec's `for` / `if` or the closing token -/
theorem specs_follow (full : Bool) (ss : List CompSpec) {tk : TokKind} (T : Toks) (h1 : StopTok tk)
    (h2 : tk ≠ sim .Else) :
    ∃ y Y, prSpecs full ss ++ tk :: T = y :: Y ∧ StopTok y ∧ y ≠ sim .Else := by
  cases ss with
  | nil => exact ⟨tk, T, by simp [prSpecs], h1, h2⟩
  | cons s ss =>
    obtain ⟨a, Z, hz, ha⟩ := prSpec_head full s
    refine ⟨a, Z ++ (prSpecs full ss ++ tk :: T), by rw [prSpecs_cons, hz]; simp, ?_⟩
    rcases ha with rfl | rfl
    · exact ⟨stopTok_for, by simp [sim]⟩
    · exact ⟨stopTok_if, by simp [sim]⟩

theorem forSpec_step {full : Bool} {v : Ident} {e : Expr} (he : PCh pe R full e) {st : PState toks}
    {tk : TokKind} {T : Toks} (hk : st.kinds = prSpec full (.for_ v e) ++ tk :: T) (hlen : st.kinds.length ≤ R)
    (hstop : StopTok tk) (hne : tk ≠ sim .Else) :
    ∃ s' st', maybeParseForSpec pe st = .ok (some s', st') ∧ s'.erase = (CompSpec.for_ v e).erase ∧
      st'.kinds = tk :: T := by
  obtain ⟨x, X, hx, _, _⟩ := (he.2 false).cons
  have hk0 : st.kinds = sim .For :: .ident v.value :: sim .In :: x :: (X ++ tk :: T) := by
    rw [hk, prSpec_for, hx]; rfl
  obtain ⟨st1, he1, hk1⟩ := eatSimple_hit true hk0
  obtain ⟨st2, he2, hk2⟩ := expectIdent_hit true hk1
  obtain ⟨st3, he3, hk3⟩ := expectSimple_hit true hk2
  obtain ⟨e', st4, hpe', hee, hk4⟩ := he.run pe R (st := st3) (tk := tk) (T := T) (by rw [hk3, hx]; rfl)
    (by rw [hk3]; rw [hk0] at hlen; simp at hlen ⊢; omega) hstop hne
  refine ⟨.for_ ⟨v.value, st1.cur.span⟩ e', st4, ?_, by simp [CompSpec.erase, Ident.erase, hee], hk4⟩
  unfold maybeParseForSpec
  rw [he1]; simp only [bind, Except.bind]
  rw [he2]; simp only []
  rw [he3]; simp only []
  rw [hpe']; rfl

theorem ifSpec_step {full : Bool} {e : Expr} (he : PCh pe R full e) {st : PState toks}
    {tk : TokKind} {T : Toks} (hk : st.kinds = prSpec full (.if_ e) ++ tk :: T) (hlen : st.kinds.length ≤ R)
    (hstop : StopTok tk) (hne : tk ≠ sim .Else) :
    ∃ s' st', maybeParseIfSpec pe st = .ok (some s', st') ∧ s'.erase = (CompSpec.if_ e).erase ∧
      st'.kinds = tk :: T := by
  obtain ⟨x, X, hx, _, _⟩ := (he.2 false).cons
  have hk0 : st.kinds = sim .If :: x :: (X ++ tk :: T) := by
    rw [hk, prSpec_if, hx]; rfl
  obtain ⟨st1, he1, hk1⟩ := eatSimple_hit true hk0
  obtain ⟨e', st2, hpe', hee, hk2⟩ := he.run pe R (st := st1) (tk := tk) (T := T) (by rw [hk1, hx]; rfl)
    (by rw [hk1]; rw [hk0] at hlen; simp at hlen ⊢; omega) hstop hne
  refine ⟨.if_ e', st2, ?_, by simp [CompSpec.erase, hee], hk2⟩
  unfold maybeParseIfSpec
  rw [he1]; simp only [bind, Except.bind]
  rw [hpe']; rfl

/-- the loop of `maybe_parse_comp_spec` on printed specs, followed by the closing `]` / `}` -/
theorem specs_loop {full : Bool} : ∀ (ss : List CompSpec), (∀ s ∈ ss, PCh pe R full s.expr) →
    ∀ (acc : List CompSpec) (st : PState toks) (tk : TokKind) (T : Toks),
    st.kinds = prSpecs full ss ++ tk :: T → st.kinds.length ≤ R → StopTok tk → tk ≠ sim .For → tk ≠ sim .If →
    tk ≠ sim .Else →
    ∃ ss' st', eraseSpecs ss' = eraseSpecs ss ∧ st'.kinds = tk :: T ∧
      ∀ fuel, ss.length + 1 ≤ fuel → compSpecLoop pe fuel acc st = .ok (acc ++ ss', st')
  | [], _, acc, st, tk, T, hk, _, _, h1, h2, _ => by
    have hk0 : st.kinds = tk :: T := by simpa [prSpecs] using hk
    have hc := cur_kind_of_kinds hk0
    have hm1 : eatSimple .For true st = .ok (none, st.pushIf true (.simple .For)) :=
      eatSimple_miss true (by rw [hc]; simpa [sim] using h1)
    have hm2 : eatSimple .If true (st.pushIf true (.simple .For)) =
        .ok (none, (st.pushIf true (.simple .For)).pushIf true (.simple .If)) :=
      eatSimple_miss true (by rw [cur_pushIf, hc]; simpa [sim] using h2)
    refine ⟨[], (st.pushIf true (.simple .For)).pushIf true (.simple .If), rfl,
      by rw [kinds_pushIf, kinds_pushIf, hk0], fun fuel hf => ?_⟩
    obtain ⟨f, rfl⟩ : ∃ f, fuel = f + 1 := ⟨fuel - 1, by omega⟩
    rw [compSpecLoop]
    unfold maybeParseForSpec maybeParseIfSpec
    rw [hm1]; simp only [bind, Except.bind, pure, Except.pure]
    rw [hm2]; simp
  | s :: ss, hall, acc, st, tk, T, hk, hlen, hstop, h1, h2, h3 => by
    obtain ⟨y, Y, hy, hys, hyn⟩ := specs_follow full ss T hstop h3
    have hk0 : st.kinds = prSpec full s ++ y :: Y := by rw [hk, prSpecs_cons, List.append_assoc, hy]
    have hs := hall s (by simp)
    have hlen1 : ∀ st1 : PState toks, st1.kinds = y :: Y → st1.kinds.length ≤ R := by
      intro st1 hk1
      have : st1.kinds.length ≤ st.kinds.length := by rw [hk1, hk0]; simp
      omega
    cases s with
    | for_ v e =>
      simp only [CompSpec.expr] at hs
      obtain ⟨s', st1, hp, hse, hk1⟩ := forSpec_step pe R hs hk0 hlen hys hyn
      obtain ⟨ss', st2, hsse, hk2, hloop⟩ := specs_loop ss (fun x hx => hall x (by simp [hx])) (acc ++ [s']) st1 tk T
        (by rw [hk1, hy]) (hlen1 st1 hk1) hstop h1 h2 h3
      refine ⟨s' :: ss', st2, by simp [eraseSpecs, hse, hsse], hk2, fun fuel hf => ?_⟩
      obtain ⟨f, rfl⟩ : ∃ f, fuel = f + 1 := ⟨fuel - 1, by omega⟩
      rw [compSpecLoop, hp]; simp only [bind, Except.bind]
      rw [hloop f (by simp at hf ⊢; omega)]; simp
    | if_ e =>
      simp only [CompSpec.expr] at hs
      obtain ⟨s', st1, hp, hse, hk1⟩ := ifSpec_step pe R (st := st.pushIf true (.simple .For)) hs
        (by rw [kinds_pushIf]; exact hk0) (by rw [kinds_pushIf]; exact hlen) hys hyn
      have hc : st.cur.kind = sim .If := by
        apply cur_kind_of_kinds (T := sub full e 0 false false ++ y :: Y)
        rw [hk0, prSpec_if]; rfl
      have hm1 : eatSimple .For true st = .ok (none, st.pushIf true (.simple .For)) :=
        eatSimple_miss true (by rw [hc]; simp [sim])
      obtain ⟨ss', st2, hsse, hk2, hloop⟩ := specs_loop ss (fun x hx => hall x (by simp [hx])) (acc ++ [s']) st1 tk T
        (by rw [hk1, hy]) (hlen1 st1 hk1) hstop h1 h2 h3
      refine ⟨s' :: ss', st2, by simp [eraseSpecs, hse, hsse], hk2, fun fuel hf => ?_⟩
      obtain ⟨f, rfl⟩ : ∃ f, fuel = f + 1 := ⟨fuel - 1, by omega⟩
      rw [compSpecLoop]
      unfold maybeParseForSpec
      rw [hm1]; simp only [bind, Except.bind, pure, Except.pure]
      rw [hp]; simp only []
      rw [hloop f (by simp at hf ⊢; omega)]; simp

/-- a comprehension spec list: begins with a `for` -/
structure SpecsOK (full : Bool) (spec : List CompSpec) : Prop where
  first : ∃ v inner rest, spec = .for_ v inner :: rest
  exprs : ∀ s ∈ spec, PCh pe R full s.expr

/-- `maybe_parse_comp_spec` on printed specs -/
theorem compSpec_hit {full : Bool} {spec : List CompSpec} (hs : SpecsOK pe R full spec) {st : PState toks}
    {tk : TokKind} {T : Toks} (hk : st.kinds = prSpecs full spec ++ tk :: T) (hlen : st.kinds.length ≤ R)
    (hstop : StopTok tk) (h1 : tk ≠ sim .For) (h2 : tk ≠ sim .If) (h3 : tk ≠ sim .Else) :
    ∃ spec' st', eraseSpecs spec' = eraseSpecs spec ∧ st'.kinds = tk :: T ∧
      ∀ fuel, spec.length ≤ fuel → maybeParseCompSpec pe fuel st = .ok (some spec', st') := by
  obtain ⟨⟨v, inner, rest, rfl⟩, hall⟩ := hs
  obtain ⟨y, Y, hy, hys, hyn⟩ := specs_follow full rest T hstop h3
  have hk0 : st.kinds = prSpec full (.for_ v inner) ++ y :: Y := by rw [hk, prSpecs_cons, List.append_assoc, hy]
  obtain ⟨s', st1, hp, hse, hk1⟩ := forSpec_step pe R (e := inner) (hall (.for_ v inner) (by simp)) hk0 hlen hys hyn
  obtain ⟨ss', st2, hsse, hk2, hloop⟩ := specs_loop pe R rest (fun x hx => hall x (by simp [hx])) [s'] st1 tk T
    (by rw [hk1, hy])
    (by have : st1.kinds.length ≤ st.kinds.length := by rw [hk1, hk0]; simp
        omega) hstop h1 h2 h3
  refine ⟨s' :: ss', st2, by simp [eraseSpecs, hse, hsse], hk2, fun fuel hf => ?_⟩
  unfold maybeParseCompSpec
  rw [hp]; simp only [bind, Except.bind]
  rw [hloop fuel (by simp at hf ⊢; omega)]; rfl

/-! ### object comprehensions -/

omit pe R in
theorem makeCompLoop_locals_none : ∀ (bs : List Bind) (rest : List Member) (l1 l2 : List Bind),
    makeCompLoop (bs.map .local_ ++ rest) l1 none l2 = makeCompLoop rest (l1 ++ bs) none l2
  | [], rest, l1, l2 => by simp
  | b :: bs, rest, l1, l2 => by
    simp only [List.map_cons, List.cons_append, makeCompLoop, Option.isNone_none, if_true]
    rw [makeCompLoop_locals_none bs rest (l1 ++ [b]) l2]; simp

omit pe R in
theorem makeCompLoop_locals_some : ∀ (bs : List Bind) (l1 : List Bind) (x : Expr × Bool × Expr) (l2 : List Bind),
    makeCompLoop (bs.map .local_) l1 (some x) l2 = .ok (l1, some x, l2 ++ bs)
  | [], l1, x, l2 => by simp [makeCompLoop]
  | b :: bs, l1, x, l2 => by
    simp only [List.map_cons, makeCompLoop, Option.isNone_some, Bool.false_eq_true, if_false]
    rw [makeCompLoop_locals_some bs l1 x (l2 ++ [b])]; simp

omit pe R in
theorem makeComp_shape (l1 l2 : List Bind) (n : Expr) (sp : Span) (plus : Bool) (body : Expr)
    (spec : List CompSpec) :
    makeComp (l1.map .local_ ++ Member.field (.value (.expr n sp) plus .Default body) :: l2.map .local_) spec =
      .ok (.comp l1 n plus body l2 spec) := by
  unfold makeComp
  rw [makeCompLoop_locals_none]
  simp only [makeCompLoop, Option.isNone_none, if_true]
  rw [makeCompLoop_locals_some]
  simp

omit pe R in
theorem prObjLocals_cons (full : Bool) (b : Bind) (bs : List Bind) :
    prObjLocals full (b :: bs) = prMember full (.local_ b) ++ sim .Comma :: prObjLocals full bs := by
  simp [prObjLocals, prMember]

omit pe R in
theorem prObjLocalsAfter_cons (full : Bool) (b : Bind) (bs : List Bind) :
    prObjLocalsAfter full (b :: bs) = sim .Comma :: (prMember full (.local_ b) ++ prObjLocalsAfter full bs) := by
  simp [prObjLocalsAfter, prMember]

omit pe R in
theorem prMember_local_cons (full : Bool) (b : Bind) : ∃ Z, prMember full (.local_ b) = sim .Local :: Z :=
  ⟨prBind full b, by simp [prMember]⟩

/-- the object locals before the field of an object comprehension -/
theorem comp_locals_before {full : Bool} : ∀ (l1 : List Bind), (∀ b ∈ l1, BindOK pe R full b) →
    ∀ (acc : List Member) (st : PState toks) (z : TokKind) (Z : Toks), z ≠ sim .RightBrace →
    st.kinds = prObjLocals full l1 ++ z :: Z → st.kinds.length ≤ R →
    ∃ l1' st', eraseBinds l1' = eraseBinds l1 ∧ st'.kinds = z :: Z ∧
      ∀ fuel, st.kinds.length ≤ fuel → ∃ fuel', st'.kinds.length ≤ fuel' ∧
        objLoop pe fuel acc true false st = objLoop pe fuel' (acc ++ l1'.map .local_) true false st'
  | [], _, acc, st, z, Z, _, hk, _ =>
    ⟨[], st, rfl, by simpa [prObjLocals] using hk, fun fuel hf => ⟨fuel, hf, by simp⟩⟩
  | b :: bs, hall, acc, st, z, Z, hz, hk, hlen => by
    have hk0 : st.kinds = prMember full (.local_ b) ++ sim .Comma :: (prObjLocals full bs ++ z :: Z) := by
      rw [hk, prObjLocals_cons]; simp
    obtain ⟨m', st1, hme, hk1, hshape, hpm⟩ := member_step pe R (m := .local_ b) (hall b (by simp)) acc true false hk0 hlen
      stopTok_comma (by simp [sim]) (by simp [sim])
    obtain ⟨b', rfl⟩ := hshape b rfl
    have hc1 := cur_kind_of_kinds hk1
    have hm1 : eatSimple .RightBrace true st1 = .ok (none, st1.pushIf true (.simple .RightBrace)) :=
      eatSimple_miss true (by rw [hc1]; simp [sim])
    obtain ⟨w, Wt, hw, hwne⟩ : ∃ w Wt, prObjLocals full bs ++ z :: Z = w :: Wt ∧ w ≠ sim .RightBrace := by
      cases bs with
      | nil => exact ⟨z, Z, by simp [prObjLocals], hz⟩
      | cons b2 bs2 =>
        obtain ⟨Z2, hz2⟩ := prMember_local_cons full b2
        exact ⟨sim .Local, Z2 ++ sim .Comma :: prObjLocals full bs2 ++ z :: Z,
          by rw [prObjLocals_cons, hz2]; simp, by simp [sim]⟩
    obtain ⟨st2, he2, hk2⟩ := eatSimple_hit (k := .Comma) (b := w) (ks := Wt)
      (st := st1.pushIf true (.simple .RightBrace)) true (by rw [kinds_pushIf, hk1, hw]; rfl)
    have hm2 : eatSimple .RightBrace true st2 = .ok (none, st2.pushIf true (.simple .RightBrace)) :=
      eatSimple_miss true (by rw [cur_kind_of_kinds hk2]; simpa [sim] using hwne)
    have hlen1 : st1.kinds.length < st.kinds.length := by
      obtain ⟨Z', hz'⟩ := prMember_local_cons full b
      rw [hk1, hk0, hz']; simp <;> omega
    have hk3 : (st2.pushIf true (.simple .RightBrace)).kinds = prObjLocals full bs ++ z :: Z := by
      rw [kinds_pushIf, hk2, hw]
    have hlen3 : (st2.pushIf true (.simple .RightBrace)).kinds.length + 1 ≤ st1.kinds.length := by
      rw [kinds_pushIf, hk2, hk1, hw]; simp
    obtain ⟨l1', st4, hle, hk4, hloop⟩ := comp_locals_before bs (fun x hx => hall x (by simp [hx]))
      (acc ++ [.local_ b']) (st2.pushIf true (.simple .RightBrace)) z Z hz hk3 (by omega)
    have hbe : b'.erase = b.erase := by simpa [Member.erase] using hme
    refine ⟨b' :: l1', st4, by simp [eraseBinds, hbe, hle], hk4, fun fuel hfuel => ?_⟩
    have hl := prMember_length pe R (m := .local_ b) (hall b (by simp))
    obtain ⟨f, rfl⟩ : ∃ f, fuel = f + 1 := ⟨fuel - 1, by rw [hk0] at hfuel; simp at hfuel; omega⟩
    obtain ⟨f', hf', heq⟩ := hloop f (by omega)
    refine ⟨f', hf', ?_⟩
    rw [objLoop_eq, hpm f (by rw [hk0] at hfuel; simp at hfuel; omega)]
    simp only [memberFlags]
    unfold objTail
    rw [hm1]; simp only [bind, Except.bind]
    rw [he2]; simp only []
    rw [hm2]; simp only []
    rw [if_neg (by decide), heq]
    simp

omit pe R in
theorem specs_first {full : Bool} {spec : List CompSpec} (h : ∃ v inner rest, spec = .for_ v inner :: rest)
    (Z : Toks) : ∃ Z', prSpecs full spec ++ Z = sim .For :: Z' := by
  obtain ⟨v, inner, rest, rfl⟩ := h
  exact ⟨_, by rw [prSpecs_cons, prSpec_for]; rfl⟩

/-- after the field of an object comprehension: `, local b` …, then the specs and `}` -/
theorem comp_tail {full : Bool} {spec : List CompSpec} (hspec : SpecsOK pe R full spec) :
    ∀ (l2 : List Bind), (∀ b ∈ l2, BindOK pe R full b) →
    ∀ (acc : List Member) (st : PState toks) (y : TokKind) (Y : Toks),
    st.kinds = prObjLocalsAfter full l2 ++ (prSpecs full spec ++ sim .RightBrace :: y :: Y) →
    st.kinds.length ≤ R →
    ∃ l2' spec' sp st', eraseBinds l2' = eraseBinds l2 ∧ eraseSpecs spec' = eraseSpecs spec ∧
      st'.kinds = y :: Y ∧
      ∀ fuel, st.kinds.length ≤ fuel → objTail pe fuel acc true true st =
        (match makeComp (acc ++ l2'.map .local_) spec' with
         | .ok o => .ok ((o, sp), st')
         | .error f => .error (.fault f))
  | [], _, acc, st, y, Y, hk, hlen => by
    have hk0 : st.kinds = prSpecs full spec ++ sim .RightBrace :: y :: Y := by simpa [prObjLocalsAfter] using hk
    obtain ⟨Z', hz'⟩ := specs_first (full := full) hspec.first (sim .RightBrace :: y :: Y)
    have hc : st.cur.kind = sim .For := by
      apply cur_kind_of_kinds (T := Z'); rw [hk0, hz']
    have hm1 : eatSimple .RightBrace true st = .ok (none, st.pushIf true (.simple .RightBrace)) :=
      eatSimple_miss true (by rw [hc]; simp [sim])
    have hm2 : eatSimple .Comma true (st.pushIf true (.simple .RightBrace)) =
        .ok (none, (st.pushIf true (.simple .RightBrace)).pushIf true (.simple .Comma)) :=
      eatSimple_miss true (by rw [cur_pushIf, hc]; simp [sim])
    obtain ⟨spec', st1, hse, hk1, hcs⟩ := compSpec_hit pe R hspec
      (st := (st.pushIf true (.simple .RightBrace)).pushIf true (.simple .Comma)) (tk := sim .RightBrace)
      (T := y :: Y) (by rw [kinds_pushIf, kinds_pushIf]; exact hk0) (by rw [kinds_pushIf, kinds_pushIf]; exact hlen)
      stopTok_rbrace (by simp [sim]) (by simp [sim]) (by simp [sim])
    obtain ⟨st2, he2, hk2⟩ := expectSimple_hit true hk1
    refine ⟨[], spec', st1.cur.span, st2, rfl, hse, hk2, fun fuel hf => ?_⟩
    have hsl := prSpecs_length full spec
    unfold objTail
    rw [hm1]; simp only [bind, Except.bind]
    rw [hm2]; simp only []
    rw [if_pos (by decide), hcs fuel (by rw [hk0] at hf; simp at hf; omega)]; simp only []
    rw [he2]; simp only [List.map_nil, List.append_nil]
    unfold liftFault
    cases makeComp acc spec' <;> rfl
  | b :: bs, hall, acc, st, y, Y, hk, hlen => by
    obtain ⟨Zb, hzb⟩ := prMember_local_cons full b
    have hk0 : st.kinds = sim .Comma :: sim .Local :: (Zb ++ (prObjLocalsAfter full bs ++
        (prSpecs full spec ++ sim .RightBrace :: y :: Y))) := by
      rw [hk, prObjLocalsAfter_cons, hzb]; simp
    have hc := cur_kind_of_kinds hk0
    have hm1 : eatSimple .RightBrace true st = .ok (none, st.pushIf true (.simple .RightBrace)) :=
      eatSimple_miss true (by rw [hc]; simp [sim])
    obtain ⟨st1, he1, hk1⟩ := eatSimple_hit (st := st.pushIf true (.simple .RightBrace)) true
      (by rw [kinds_pushIf]; exact hk0)
    have hc1 := cur_kind_of_kinds hk1
    have hm2 : eatSimple .RightBrace true st1 = .ok (none, st1.pushIf true (.simple .RightBrace)) :=
      eatSimple_miss true (by rw [hc1]; simp [sim])
    obtain ⟨st2, hcs, hk2⟩ := compSpec_miss pe (st := st1.pushIf true (.simple .RightBrace))
      (by rw [cur_pushIf, hc1]; simp [sim])
    rw [kinds_pushIf] at hk2
    -- the follower of the local: `,` (next local) or `for`
    obtain ⟨w, Wt, hw, hws, hwn1, hwn2⟩ : ∃ w Wt, prObjLocalsAfter full bs ++
        (prSpecs full spec ++ sim .RightBrace :: y :: Y) = w :: Wt ∧ StopTok w ∧ w ≠ sim .Colon ∧ w ≠ sim .Else := by
      cases bs with
      | nil =>
        obtain ⟨Z', hz'⟩ := specs_first (full := full) hspec.first (sim .RightBrace :: y :: Y)
        exact ⟨sim .For, Z', by simpa [prObjLocalsAfter] using hz', stopTok_for, by simp [sim], by simp [sim]⟩
      | cons b2 bs2 =>
        exact ⟨sim .Comma, _, by rw [prObjLocalsAfter_cons]; rfl, stopTok_comma, by simp [sim], by simp [sim]⟩
    have hk2' : st2.kinds = prMember full (.local_ b) ++ w :: Wt := by
      rw [hk2, hk1, hzb, ← hw]; simp
    have hlen2 : st2.kinds.length + 1 ≤ st.kinds.length := by rw [hk2, hk1, hk0]; simp
    obtain ⟨m', st3, hme, hk3, hshape, hpm⟩ := member_step pe R (m := .local_ b) (hall b (by simp)) acc true true hk2'
      (by omega) hws hwn1 hwn2
    obtain ⟨b', rfl⟩ := hshape b rfl
    have hlen3 : st3.kinds.length < st2.kinds.length := by
      rw [hk3, hk2', hzb]; simp <;> omega
    obtain ⟨l2', spec', sp, st4, hle, hse, hk4, htail⟩ := comp_tail hspec bs (fun x hx => hall x (by simp [hx]))
      (acc ++ [.local_ b']) st3 y Y (by rw [hk3, hw]) (by omega)
    have hbe : b'.erase = b.erase := by simpa [Member.erase] using hme
    refine ⟨b' :: l2', spec', sp, st4, by simp [eraseBinds, hbe, hle], hse, hk4, fun fuel hf => ?_⟩
    have hl := prMember_length pe R (m := .local_ b) (hall b (by simp))
    obtain ⟨f, rfl⟩ : ∃ f, fuel = f + 1 := ⟨fuel - 1, by rw [hk0] at hf; simp at hf; omega⟩
    unfold objTail
    rw [hm1]; simp only [bind, Except.bind]
    rw [he1]; simp only []
    rw [hm2]; simp only []
    rw [if_pos (by decide), hcs (f + 1)]; simp only []
    rw [objLoop_eq, hpm f (by
      have : (prMember full (Member.local_ b)).length + 1 ≤ st2.kinds.length := by rw [hk2']; simp
      omega)]
    simp only [memberFlags]
    rw [htail f (by omega)]
    simp

omit pe R in
theorem erase_dynfield {m' : Member} {n : Expr} {sp : Span} {plus : Bool} {body : Expr}
    (h : m'.erase = (Member.field (.value (.expr n sp) plus .Default body)).erase) :
    ∃ n' sp' body', m' = .field (.value (.expr n' sp') plus .Default body') ∧ n'.erase = n.erase ∧
      body'.erase = body.erase := by
  cases m' with
  | local_ b => simp [Member.erase] at h
  | assert_ a => simp [Member.erase] at h
  | field f =>
    cases f with
    | func n' ps psp vis e => simp [Member.erase, Field.erase] at h
    | value n' plus' vis e =>
      cases n' with
      | ident i => simp [Member.erase, Field.erase, FieldName.erase] at h
      | str s sp2 => simp [Member.erase, Field.erase, FieldName.erase] at h
      | expr e2 sp2 =>
        simp only [Member.erase, Field.erase, FieldName.erase, Member.field.injEq, Field.value.injEq,
          FieldName.expr.injEq, and_true] at h
        obtain ⟨h1, h2, h3, h4⟩ := h
        subst h2; subst h3
        exact ⟨e2, sp2, e, rfl, h1, h4⟩

/-! ### `parse_obj_inside` -/

/-- what the machine lemmas need of an object body -/
def ObjOK (full : Bool) : ObjInside → Prop
  | .members ms => ∀ m ∈ ms, MemberOK pe R full m
  | .comp l1 name _ body l2 spec =>
    (∀ b ∈ l1, BindOK pe R full b) ∧ PCh pe R full name ∧ PCh pe R full body ∧
      (∀ b ∈ l2, BindOK pe R full b) ∧ SpecsOK pe R full spec

/-- `parse_obj_inside` (after the `{`) on a printed object body and its `}` -/
theorem objInside_fwd {full : Bool} {o : ObjInside} (ho : ObjOK pe R full o) {st : PState toks}
    {y : TokKind} {Y : Toks} (hk : st.kinds = prObjInside full o ++ sim .RightBrace :: y :: Y)
    (hlen : st.kinds.length ≤ R) :
    ∃ o' sp st', o'.erase = o.erase ∧ st'.kinds = y :: Y ∧
      ∀ fuel, st.kinds.length ≤ fuel → parseObjInside pe fuel st = .ok ((o', sp), st') := by
  cases o with
  | members ms =>
    cases ms with
    | nil =>
      obtain ⟨st1, he1, hk1⟩ := eatSimple_hit (k := .RightBrace) (st := st) (b := y) (ks := Y) true
        (by rw [hk]; simp [prObjInside, prMembers, sim])
      refine ⟨.members [], st.cur.span, st1, rfl, hk1, fun fuel _ => ?_⟩
      unfold parseObjInside
      rw [he1]; rfl
    | cons m rest =>
      have hk0 : st.kinds = prMembers full (m :: rest) ++ sim .RightBrace :: y :: Y := by
        rw [hk]; simp [prObjInside]
      obtain ⟨a, Z, hz, hzs⟩ : ∃ a Z, prMembers full (m :: rest) = a :: Z ∧ MemberStartTok a := by
        obtain ⟨a, Z, hz, ha⟩ := prMember_cons full m
        cases rest with
        | nil => exact ⟨a, Z, by simp [prMembers, hz], ha⟩
        | cons m3 rest' => exact ⟨a, Z ++ sim .Comma :: prMembers full (m3 :: rest'), by simp [prMembers, hz], ha⟩
      have hc : st.cur.kind = a := by
        apply cur_kind_of_kinds (T := Z ++ sim .RightBrace :: y :: Y); rw [hk0, hz]; rfl
      have hm : eatSimple .RightBrace true st = .ok (none, st.pushIf true (.simple .RightBrace)) :=
        eatSimple_miss true (by
          rw [hc]; simpa [sim] using hzs.ne (k := .RightBrace) (by decide) (by decide) (by decide))
      obtain ⟨ms', sp, st1, hmse, hk1, hloop⟩ := members_loop pe R (m :: rest) (by simp) ho [] true false
        (st.pushIf true (.simple .RightBrace)) y Y (by rw [kinds_pushIf]; exact hk0) (by rw [kinds_pushIf]; exact hlen)
      refine ⟨.members ms', sp, st1, by simp [ObjInside.erase, hmse], hk1, fun fuel hf => ?_⟩
      unfold parseObjInside
      rw [hm]; simp only [bind, Except.bind]
      rw [hloop fuel (by rw [kinds_pushIf]; exact hf)]; simp
  | comp l1 name plus body l2 spec =>
    obtain ⟨h1, hname, hbody, h2, hspec⟩ := ho
    -- the field as a member
    have hfield : MemberOK pe R full (.field (.value (.expr name .zero) plus .Default body)) := by
      refine ⟨?_, hbody⟩
      intro e sp h
      cases h
      exact hname
    have hprf : prMember full (.field (.value (.expr name .zero) plus .Default body)) =
        sim .LeftBracket :: (sub full name 0 false false ++ sim .RightBracket ::
          sim (visTok plus .Default) :: sub full body 0 false false) := by
      simp [prMember, prField, prFieldName]
    have hk0 : st.kinds = prObjLocals full l1 ++ sim .LeftBracket :: ((sub full name 0 false false ++
        sim .RightBracket :: sim (visTok plus .Default) :: sub full body 0 false false) ++
        (prObjLocalsAfter full l2 ++ (prSpecs full spec ++ sim .RightBrace :: y :: Y))) := by
      rw [hk]; simp [prObjInside]
    have hc : st.cur.kind ≠ sim .RightBrace := by
      cases l1 with
      | nil =>
        have : st.kinds = sim .LeftBracket :: ((sub full name 0 false false ++
            sim .RightBracket :: sim (visTok plus .Default) :: sub full body 0 false false) ++
            (prObjLocalsAfter full l2 ++ (prSpecs full spec ++ sim .RightBrace :: y :: Y))) := by
          rw [hk0]; simp [prObjLocals]
        rw [cur_kind_of_kinds this]; simp [sim]
      | cons b bs =>
        obtain ⟨Zb, hzb⟩ := prMember_local_cons full b
        have : st.kinds = sim .Local :: (Zb ++ sim .Comma :: prObjLocals full bs ++ sim .LeftBracket ::
            ((sub full name 0 false false ++
            sim .RightBracket :: sim (visTok plus .Default) :: sub full body 0 false false) ++
            (prObjLocalsAfter full l2 ++ (prSpecs full spec ++ sim .RightBrace :: y :: Y)))) := by
          rw [hk0, prObjLocals_cons, hzb]; simp
        rw [cur_kind_of_kinds this]; simp [sim]
    have hm : eatSimple .RightBrace true st = .ok (none, st.pushIf true (.simple .RightBrace)) :=
      eatSimple_miss true (by simpa [sim] using hc)
    obtain ⟨l1', st1, hl1e, hk1, hloop1⟩ := comp_locals_before pe R l1 h1 [] (st.pushIf true (.simple .RightBrace))
      (sim .LeftBracket) _ (by simp [sim]) (by rw [kinds_pushIf]; exact hk0) (by rw [kinds_pushIf]; exact hlen)
    have hlen1 : st1.kinds.length ≤ st.kinds.length := by rw [hk1, hk0]; simp
    -- follower of the field
    obtain ⟨w, Wt, hw, hws, hwn1, hwn2⟩ : ∃ w Wt, prObjLocalsAfter full l2 ++
        (prSpecs full spec ++ sim .RightBrace :: y :: Y) = w :: Wt ∧ StopTok w ∧ w ≠ sim .Colon ∧ w ≠ sim .Else := by
      cases l2 with
      | nil =>
        obtain ⟨Z', hz'⟩ := specs_first (full := full) hspec.first (sim .RightBrace :: y :: Y)
        exact ⟨sim .For, Z', by simpa [prObjLocalsAfter] using hz', stopTok_for, by simp [sim], by simp [sim]⟩
      | cons b2 bs2 =>
        exact ⟨sim .Comma, _, by rw [prObjLocalsAfter_cons]; rfl, stopTok_comma, by simp [sim], by simp [sim]⟩
    have hk1' : st1.kinds = prMember full (.field (.value (.expr name .zero) plus .Default body)) ++ w :: Wt := by
      rw [hk1, hprf, ← hw]; simp
    obtain ⟨m', st2, hme, hk2, _, hpm⟩ := member_step pe R hfield (([] : List Member) ++ l1'.map .local_) true false hk1'
      (by omega) hws hwn1 hwn2
    obtain ⟨n', sp', body', rfl, hne, hbe⟩ := erase_dynfield hme
    have hlen2 : st2.kinds.length < st1.kinds.length := by
      rw [hk2, hk1', hprf]; simp <;> omega
    obtain ⟨l2', spec', sp, st3, hl2e, hse, hk3, htail⟩ := comp_tail pe R hspec l2 h2
      (([] : List Member) ++ l1'.map .local_ ++ [.field (.value (.expr n' sp') plus .Default body')]) st2 y Y
      (by rw [hk2, hw]) (by omega)
    refine ⟨.comp l1' n' plus body' l2' spec', sp, st3, by simp [ObjInside.erase, hl1e, hne, hbe, hl2e, hse],
      hk3, fun fuel hf => ?_⟩
    unfold parseObjInside
    rw [hm]; simp only [bind, Except.bind]
    obtain ⟨f1, hf1, heq1⟩ := hloop1 fuel (by rw [kinds_pushIf]; exact hf)
    rw [heq1]
    have hl := prMember_length pe R hfield
    obtain ⟨f, rfl⟩ : ∃ f, f1 = f + 1 := ⟨f1 - 1, by rw [hk1'] at hf1; simp at hf1; omega⟩
    rw [objLoop_eq, hpm f (by rw [hk1'] at hf1; simp at hf1; omega)]
    have hfl : memberFlags (.field (.value (.expr name .zero) plus .Default body)) true false = (true, true) := rfl
    rw [hfl]
    simp only []
    rw [htail f (by omega)]
    have hshape := makeComp_shape l1' l2' n' sp' plus body' spec'
    simp only [List.nil_append, List.append_assoc, List.cons_append] at hshape ⊢
    rw [hshape]

/-! ### the object literal and object extension -/

/-- tokens of `{ … }` -/
def objToks (full : Bool) (o : ObjInside) : Toks := sim .LeftBrace :: (prObjInside full o ++ [sim .RightBrace])

/-- the head `{ … }` -/
theorem object_head {full : Bool} {o : ObjInside} (ho : ObjOK pe R full o) :
    HDtok pe R (objToks full o) (.object o.erase .zero) (fun _ => True) := by
  intro S st y Y hk hR _
  obtain ⟨b, ks, hb⟩ := cons_of_append_cons (prObjInside full o) (sim .RightBrace) (y :: Y)
  have hk0 : st.kinds = sim .LeftBrace :: b :: ks := by rw [hk, ← hb]; simp [objToks]
  have hc := cur_kind_of_kinds hk0
  obtain ⟨st1, he1, hk1⟩ := eatSimple_hit false hk0
  obtain ⟨o', sp, st2, hoe, hk2, hpo⟩ := objInside_fwd pe R ho (st := st1) (y := y) (Y := Y) (by rw [hk1, hb])
    (by rw [hk1]; rw [hk0] at hR; simp at hR ⊢; omega)
  refine ⟨.object o' (surround st.cur.span sp), st2, 1, by simp [Expr.erase, hoe], hk2, by simp [objToks]; omega,
    Reach.primary pe (fun fuel hf => ?_)⟩
  unfold primaryStep
  rw [pms_miss (by rw [hc]; simp [NotAtom, sim])]; simp only [bind, Except.bind]
  rw [he1]; simp only []
  rw [hpo fuel (by rw [hk1]; rw [hk0] at hR; simp at hR ⊢; omega)]
  rfl

/-- the postfix form `{ … }` (object extension) -/
theorem objExt_step {full : Bool} {o : ObjInside} (ho : ObjOK pe R full o) (xe : Expr) :
    SLtok pe R (objToks full o) xe (.objExt xe o.erase .zero .zero) := by
  intro lhs st y Y hl hk hR _
  obtain ⟨b, ks, hb⟩ := cons_of_append_cons (prObjInside full o) (sim .RightBrace) (y :: Y)
  have hk0 : st.kinds = sim .LeftBrace :: b :: ks := by rw [hk, ← hb]; simp [objToks]
  have hc := cur_kind_of_kinds hk0
  have hm0 : eatSimple .Dot true st = .ok (none, st.pushIf true (.simple .Dot)) :=
    eatSimple_miss true (by rw [hc]; simp [sim])
  have hm1 : eatSimple .LeftBracket true (st.pushIf true (.simple .Dot)) =
      .ok (none, (st.pushIf true (.simple .Dot)).pushIf true (.simple .LeftBracket)) :=
    eatSimple_miss true (by rw [cur_pushIf, hc]; simp [sim])
  have hm2 : eatSimple .LeftParen true ((st.pushIf true (.simple .Dot)).pushIf true (.simple .LeftBracket)) =
      .ok (none, ((st.pushIf true (.simple .Dot)).pushIf true (.simple .LeftBracket)).pushIf true (.simple .LeftParen)) :=
    eatSimple_miss true (by rw [cur_pushIf, cur_pushIf, hc]; simp [sim])
  obtain ⟨st1, he1, hk1⟩ := eatSimple_hit
    (st := ((st.pushIf true (.simple .Dot)).pushIf true (.simple .LeftBracket)).pushIf true (.simple .LeftParen)) true
    (by rw [kinds_pushIf, kinds_pushIf, kinds_pushIf]; exact hk0)
  obtain ⟨o', sp, st2, hoe, hk2, hpo⟩ := objInside_fwd pe R ho (st := st1) (y := y) (Y := Y) (by rw [hk1, hb])
    (by rw [hk1]; rw [hk0] at hR; simp at hR ⊢; omega)
  refine ⟨.objExt lhs o' (surround
    (((st.pushIf true (.simple .Dot)).pushIf true (.simple .LeftBracket)).pushIf true (.simple .LeftParen)).cur.span sp)
    (surround lhs.span sp), st2, by simp [Expr.erase, hl, hoe], hk2, fun f hf => ?_⟩
  obtain ⟨f', rfl⟩ : ∃ f', f = f' + 1 := ⟨f - 1, by omega⟩
  have hlen2 : st2.kinds.length + 1 ≤ st1.kinds.length := by
    have := congrArg List.length hb
    rw [hk2, hk1]; simp at this ⊢; omega
  refine ⟨f', by rw [hk1] at hlen2; rw [hk0] at hf; simp at hlen2 hf ⊢; omega, ?_⟩
  rw [parseSuffixExpr, hm0]; simp only [bind, Except.bind]
  rw [hm1]; simp only []
  rw [hm2]; simp only []
  rw [he1]; simp only []
  rw [hpo f' (by rw [hk1]; rw [hk0] at hf; simp at hf ⊢; omega)]

end
end Rsj.Parser
