/-
  C17 on the evaluator model, part 3: the keys (`std_sortKeys`).  The loops restated as `forIn` over
  explicit bodies; the number of keys equals the number of elements whatever the evaluator does;
  the keys of an array of evaluated elements without `keyF` (store unchanged); and the general case
  (elements still to be evaluated, `keyF`) as a sequence of evaluator tasks run one after the other
  (`SeqRun`).
-/
import RsjProofs.EvalSortLoop
set_option linter.unusedVariables false
namespace Rsj.Eval.SortRef
open Rsj.Core Rsj.Eval Rsj.Eval.Cmp Rsj.Sort

/-- one iteration of the key loop without `keyF`: the element is forced -/
def keysNoneBody (rec : Task → M Value) (d1 n : Nat) (p : TId × Nat) (keys : List Value) :
    M (ForInStep (List Value)) := do
  pure (.yield (keys ++ [← rec (.force p.1 (d1 + n - p.2))]))

theorem std_sortKeys_none (cfg : Cfg) (rec : Task → M Value) (items : List TId) (d1 : Nat) :
    std_sortKeys cfg rec none items d1 =
      (checkDepth cfg (d1 + items.length) >>= fun _ =>
        forIn items.zipIdx ([] : List Value) (keysNoneBody rec d1 items.length) >>= fun r => pure r) := by
  rfl

/-- one iteration of the call-preparation loop with `keyF` -/
def callsBody (f : FId) (it : TId) (calls : List (Expr × EId)) : M (ForInStep (List (Expr × EId))) := do
  pure (.yield ((← std_bindCall f [it]) :: calls))

/-- one iteration of the key loop with `keyF`: the prepared application is evaluated -/
def keysSomeBody (rec : Task → M Value) (d1 n : Nat) (p : (Expr × EId) × Nat) (keys : List Value) :
    M (ForInStep (List Value)) := do
  pure (.yield (keys ++ [← rec (.eval p.1.1 p.1.2 true (d1 + n - p.2))]))

theorem std_sortKeys_some (cfg : Cfg) (rec : Task → M Value) (f : FId) (items : List TId) (d1 : Nat) :
    std_sortKeys cfg rec (some f) items d1 =
      (forIn items.reverse ([] : List (Expr × EId)) (callsBody f) >>= fun calls =>
        checkDepth cfg (d1 + items.length) >>= fun _ =>
        forIn calls.zipIdx ([] : List Value) (keysSomeBody rec d1 items.length) >>= fun r => pure r) := by
  rfl

/-! ### the number of keys -/

theorem bind_eq_ok {α β} {m : M α} {f : α → M β} {st s1 : St} {a : α}
    (h : m st = some (.ok a, s1)) : (m >>= f) st = f a s1 := by
  rw [bind_apply, h]

theorem checkDepth_ok {cfg : Cfg} {d : Nat} (h : d ≤ cfg.maxStack) (st : St) :
    checkDepth cfg d st = some (.ok (), st) := by
  unfold checkDepth
  rw [if_neg (by omega)]; rfl

/-- a loop whose every iteration grows the state's measure by one -/
theorem forIn_length {α β : Type} (len : β → Nat) (body : α → β → M (ForInStep β))
    (hb : ∀ a b st r st', body a b st = some (.ok r, st') → ∃ b', r = .yield b' ∧ len b' = len b + 1) :
    ∀ (l : List α) (b : β) (st : St) (r : β) (st' : St),
      forIn l b body st = some (.ok r, st') → len r = len b + l.length := by
  intro l
  induction l with
  | nil =>
    intro b st r st' h
    rw [List.forIn_nil, pure_apply] at h
    injection h with h; injection h with h1 _; injection h1 with h1
    rw [← h1]; rfl
  | cons a l ih =>
    intro b st r st' h
    rw [List.forIn_cons, bind_apply] at h
    cases hx : body a b st with
    | none => rw [hx] at h; cases h
    | some p =>
      obtain ⟨r1, s1⟩ := p
      cases r1 with
      | error e => rw [hx] at h; simp at h
      | ok r1 =>
        rw [hx] at h
        obtain ⟨b', rfl, hl⟩ := hb a b st r1 s1 hx
        have := ih b' s1 r st' h
        rw [this, hl, List.length_cons]; omega

theorem bind_ok_inv {α β : Type} {m : M α} {f : α → M β} {st st' : St} {r : β}
    (h : (m >>= f) st = some (.ok r, st')) : ∃ a s1, m st = some (.ok a, s1) ∧ f a s1 = some (.ok r, st') := by
  rw [bind_apply] at h
  cases hx : m st with
  | none => rw [hx] at h; cases h
  | some p =>
    obtain ⟨r1, s1⟩ := p
    cases r1 with
    | error e => rw [hx] at h; simp at h
    | ok a => rw [hx] at h; exact ⟨a, s1, rfl, h⟩

theorem bind_pure_ok_inv {α β : Type} {m : M α} {g : α → β} {st st' : St} {r : β}
    (h : (m >>= fun a => pure (g a)) st = some (.ok r, st')) : ∃ a, m st = some (.ok a, st') ∧ r = g a := by
  obtain ⟨a, s1, h1, h2⟩ := bind_ok_inv h
  rw [pure_apply] at h2
  injection h2 with h2; injection h2 with h2 h3; injection h2 with h2
  exact ⟨a, by rw [h1, h3], h2.symm⟩

/-- **as many keys as elements**, whatever the evaluator does (any `rec`, any `keyF`) -/
theorem std_sortKeys_length (cfg : Cfg) (rec : Task → M Value) (kf : Option FId) (items : List TId)
    (d1 : Nat) (st st' : St) (keys : List Value)
    (h : std_sortKeys cfg rec kf items d1 st = some (.ok keys, st')) : keys.length = items.length := by
  cases kf with
  | none =>
    rw [std_sortKeys_none] at h
    obtain ⟨_, s1, _, h⟩ := bind_ok_inv h
    obtain ⟨r, h, rfl⟩ := bind_pure_ok_inv (g := fun r => r) h
    have := forIn_length List.length (keysNoneBody rec d1 items.length) ?_ _ _ _ _ _ h
    · simpa using this
    · intro a b st r st' hb
      obtain ⟨v, _, rfl⟩ := bind_pure_ok_inv hb
      exact ⟨_, rfl, by simp⟩
  | some f =>
    rw [std_sortKeys_some] at h
    obtain ⟨calls, s1, hc, h⟩ := bind_ok_inv h
    obtain ⟨_, s2, _, h⟩ := bind_ok_inv h
    obtain ⟨r, h, rfl⟩ := bind_pure_ok_inv (g := fun r => r) h
    have h1 := forIn_length List.length (callsBody f) ?_ _ _ _ _ _ hc
    have h2 := forIn_length List.length (keysSomeBody rec d1 items.length) ?_ _ _ _ _ _ h
    · simp at h1 h2; omega
    · intro a b st r st' hb
      obtain ⟨v, _, rfl⟩ := bind_pure_ok_inv hb
      exact ⟨_, rfl, by simp⟩
    · intro a b st r st' hb
      obtain ⟨v, _, rfl⟩ := bind_pure_ok_inv hb
      exact ⟨_, rfl, by simp⟩

/-! ### the keys of evaluated elements (no `keyF`): nothing changes -/

/-- forcing an element at any depth returns `val t` and leaves the store unchanged -/
def ForceOracle (rec : Task → M Value) (st : St) (items : List TId) (val : TId → Value) : Prop :=
  ∀ t ∈ items, ∀ d, Ret (rec (.force t d)) st (.ok (val t))

theorem keysNoneLoop_ret {rec : Task → M Value} {st : St} {val : TId → Value} (d1 n : Nat) :
    ∀ (l : List (TId × Nat)) (acc : List Value),
    (∀ p ∈ l, ∀ d, Ret (rec (.force p.1 d)) st (.ok (val p.1))) →
    Ret (forIn l acc (keysNoneBody rec d1 n)) st (.ok (acc ++ l.map (fun p => val p.1))) := by
  intro l
  induction l with
  | nil => intro acc _; simp only [List.forIn_nil, List.map_nil, List.append_nil]; exact Ret.pure _ _
  | cons p l ih =>
    intro acc h
    rw [List.forIn_cons]
    have hb : Ret (keysNoneBody rec d1 n p acc) st (.ok (.yield (acc ++ [val p.1]))) := by
      unfold keysNoneBody
      exact Ret.bind_ok (h p List.mem_cons_self _) (Ret.pure _ _)
    refine Ret.bind_ok hb ?_
    have := ih (acc ++ [val p.1]) (fun q hq => h q (List.mem_cons_of_mem _ hq))
    rw [List.append_assoc] at this
    exact this

/-- without `keyF`, on evaluated elements and with `d1 + n` frames available: the keys are the
    element values, in order; the store is unchanged -/
theorem std_sortKeys_none_ret {cfg : Cfg} {rec : Task → M Value} {st : St} {items : List TId}
    {val : TId → Value} (d1 : Nat) (F : ForceOracle rec st items val)
    (hd : d1 + items.length ≤ cfg.maxStack) :
    Ret (std_sortKeys cfg rec none items d1) st (.ok (items.map val)) := by
  rw [std_sortKeys_none]
  refine Ret.bind_ok (Ret_checkDepth hd) ?_
  have := keysNoneLoop_ret (rec := rec) (st := st) (val := val) d1 items.length items.zipIdx []
    (fun p hp d => F p.1 (by
      have := List.mem_zipIdx hp
      rw [this.2.2]; exact List.getElem_mem _) d)
  rw [List.nil_append] at this
  refine Ret.bind_ok this ?_
  have e : items.zipIdx.map (fun p => val p.1) = items.map val := by
    rw [show (fun p : TId × Nat => val p.1) = val ∘ Prod.fst from rfl, ← List.map_map,
      List.zipIdx_map_fst]
  rw [e]
  exact Ret.pure _ _

/-- without a frame for every element: `StackOverflow`, before any key is computed -/
theorem std_sortKeys_overflow {cfg : Cfg} {rec : Task → M Value} {st : St} {items : List TId}
    (d1 : Nat) (hd : cfg.maxStack < d1 + items.length) :
    Ret (std_sortKeys cfg rec none items d1) st (.error .stackOverflow) := by
  rw [std_sortKeys_none]
  exact Ret.bind_err (Ret_checkDepth_over hd)

/-! ### the general case: tasks run one after the other -/

/-- `tasks` run in sequence from `s` return `ks` and end in `s'` (each may change the store) -/
inductive SeqRun (rec : Task → M Value) : List Task → St → List Value → St → Prop
  | nil (s : St) : SeqRun rec [] s [] s
  | cons {t : Task} {ts : List Task} {s s1 s2 : St} {k : Value} {ks : List Value} :
      rec t s = some (.ok k, s1) → SeqRun rec ts s1 ks s2 → SeqRun rec (t :: ts) s (k :: ks) s2

/-- the tasks of the key loop without `keyF`: element `i` is forced with `n - i` frames above `d1` -/
def forceTasks (d1 n : Nat) (l : List (TId × Nat)) : List Task :=
  l.map (fun p => Task.force p.1 (d1 + n - p.2))

/-- the tasks of the key loop with `keyF`: the prepared applications -/
def evalTasks (d1 n : Nat) (l : List ((Expr × EId) × Nat)) : List Task :=
  l.map (fun p => Task.eval p.1.1 p.1.2 true (d1 + n - p.2))

theorem keysNoneLoop_run {rec : Task → M Value} (d1 n : Nat) : ∀ (l : List (TId × Nat)) (acc : List Value)
    (s s' : St) (ks : List Value), SeqRun rec (forceTasks d1 n l) s ks s' →
    forIn l acc (keysNoneBody rec d1 n) s = some (.ok (acc ++ ks), s') := by
  intro l
  induction l with
  | nil =>
    intro acc s s' ks h
    cases h
    simp only [List.forIn_nil, List.append_nil]; rfl
  | cons p l ih =>
    intro acc s s' ks h
    cases h with
    | @cons _ _ _ s1 _ k ks h1 h2 =>
      rw [List.forIn_cons]
      have hb : keysNoneBody rec d1 n p acc s = some (.ok (.yield (acc ++ [k])), s1) := by
        unfold keysNoneBody
        rw [bind_eq_ok h1]; rfl
      rw [bind_eq_ok hb]
      have := ih (acc ++ [k]) _ _ _ h2
      rw [List.append_assoc] at this
      exact this

theorem keysSomeLoop_run {rec : Task → M Value} (d1 n : Nat) : ∀ (l : List ((Expr × EId) × Nat))
    (acc : List Value) (s s' : St) (ks : List Value), SeqRun rec (evalTasks d1 n l) s ks s' →
    forIn l acc (keysSomeBody rec d1 n) s = some (.ok (acc ++ ks), s') := by
  intro l
  induction l with
  | nil =>
    intro acc s s' ks h
    cases h
    simp only [List.forIn_nil, List.append_nil]; rfl
  | cons p l ih =>
    intro acc s s' ks h
    cases h with
    | @cons _ _ _ s1 _ k ks h1 h2 =>
      rw [List.forIn_cons]
      have hb : keysSomeBody rec d1 n p acc s = some (.ok (.yield (acc ++ [k])), s1) := by
        unfold keysSomeBody
        rw [bind_eq_ok h1]; rfl
      rw [bind_eq_ok hb]
      have := ih (acc ++ [k]) _ _ _ h2
      rw [List.append_assoc] at this
      exact this

/-- without `keyF`, elements in any state: if forcing them one after the other (element `i` at depth
    `d1 + n - i`) returns `keys` and ends in `s'`, so does `std_sortKeys` -/
theorem std_sortKeys_none_run {cfg : Cfg} {rec : Task → M Value} {items : List TId} {d1 : Nat}
    {s s' : St} {keys : List Value} (hd : d1 + items.length ≤ cfg.maxStack)
    (h : SeqRun rec (forceTasks d1 items.length items.zipIdx) s keys s') :
    std_sortKeys cfg rec none items d1 s = some (.ok keys, s') := by
  rw [std_sortKeys_none, bind_eq_ok (checkDepth_ok hd _),
    bind_eq_ok (keysNoneLoop_run d1 items.length _ [] _ _ _ h)]
  rfl

/-- with `keyF`: the applications are prepared for every element first (`callsBody`, from the last
    element to the first; this allocates environments), then evaluated in element order -/
theorem std_sortKeys_some_run {cfg : Cfg} {rec : Task → M Value} {f : FId} {items : List TId} {d1 : Nat}
    {s sc s' : St} {calls : List (Expr × EId)} {keys : List Value}
    (hc : forIn items.reverse ([] : List (Expr × EId)) (callsBody f) s = some (.ok calls, sc))
    (hd : d1 + items.length ≤ cfg.maxStack)
    (h : SeqRun rec (evalTasks d1 items.length calls.zipIdx) sc keys s') :
    std_sortKeys cfg rec (some f) items d1 s = some (.ok keys, s') := by
  rw [std_sortKeys_some, bind_eq_ok hc, bind_eq_ok (checkDepth_ok hd _),
    bind_eq_ok (keysSomeLoop_run d1 items.length _ [] _ _ _ h)]
  rfl

end Rsj.Eval.SortRef
