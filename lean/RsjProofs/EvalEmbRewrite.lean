import RsjProofs.EvalEmbCorollaries
/-!
  C04 on the evaluator model: rewrites at the ROOT of a program.  The right program first takes a few
  administrative steps (computed here by unfolding the evaluator), after which both programs evaluate
  the same expression on stores related by an embedding — the fundamental lemma `run_rel_le` does the rest.
-/
set_option linter.unusedVariables false
namespace Rsj.Eval
open Rsj.Core
set_option linter.unusedSectionVars false
variable [Mode]

/-- `local x = d; e` -/
def wrapDL (x : String) (d e : Expr) : Expr := .local_ (.cons x .none d .nil) e

/-- a computation that succeeds and only appends thunk / function cells -/
def Appends {α : Type} (x : M α) : Prop :=
  ∀ st, ∃ t st', x st = some (.ok t, st') ∧ st'.envs = st.envs ∧ st'.traces = st.traces ∧
      st'.objs = st.objs ∧ (∀ i, i < st.thunks.size → st'.thunks[i]? = st.thunks[i]?) ∧
      (∀ i, i < st.funcs.size → st'.funcs[i]? = st.funcs[i]?)

theorem allocThunk_appends (s : TState) : Appends (allocThunk s) := by
  intro st
  rw [allocThunk_apply]
  exact ⟨_, _, rfl, rfl, rfl, rfl, fun i hi => by simp [Array.getElem?_push, Nat.ne_of_lt hi], fun i hi => rfl⟩

/-- allocating the thunk of a binding only appends cells -/
theorem newThunk_frame (d : Expr) (env : EId) : Appends (newThunk d env) := by
  unfold newThunk
  split
  · intro st
    rw [M_bind_app, allocFunc_apply]
    simp only []
    rw [allocThunk_apply]
    refine ⟨_, _, rfl, rfl, rfl, rfl, fun i hi => ?_, fun i hi => ?_⟩
    · simp [Array.getElem?_push, Nat.ne_of_lt hi]
    · simp [Array.getElem?_push, Nat.ne_of_lt hi]
  · split
    · exact allocThunk_appends _
    · exact allocThunk_appends _

/-- forcing a pending thunk: mark it, run its computation, store the value -/
theorem run_force_pending (cfg : Cfg) (n : Nat) (t : TId) (d : Nat) (st : St) (p : Pending)
    (h : st.thunks[t]? = some (.pending p)) :
    run cfg (n + 1) (.force t d) st =
      (thunkBody cfg (run cfg n) p d >>= fun v => finishThunk t v >>= fun _ => pure v)
        { st with deepest := max st.deepest d, thunks := st.thunks.setIfInBounds t (.inProgress p),
                  runs := st.runs.modify t (· + 1) } := by
  show stepN cfg (run cfg n) (.force t d) st = _
  unfold stepN step
  rw [M_bind_app, noteDepth_apply]
  simp only [Task.depth]
  rw [M_bind_app, switchState_app]
  simp only [h]

theorem run_eval_deadLocal (cfg : Cfg) (m : Nat) (x : String) (dd e : Expr) (env : EId) (d : Nat) (st : St)
    (cell : Env) (h : st.envs[env]? = some cell) :
    ∃ t2 st2, run cfg (m + 1) (.eval (wrapDL x dd e) env false d) st =
        run cfg m (.eval e st.envs.size false d) st2 ∧
      st2.envs = (st.envs.push { parent := some env, vars := [], obj := cell.obj }).setIfInBounds st.envs.size
        { parent := some env, vars := [(x, t2)], obj := cell.obj } ∧
      st2.traces = st.traces ∧ st2.objs = st.objs ∧
      (∀ i, i < st.thunks.size → st2.thunks[i]? = st.thunks[i]?) ∧
      (∀ i, i < st.funcs.size → st2.funcs[i]? = st.funcs[i]?) := by
  show ∃ t2 st2, stepN cfg (run cfg m) _ st = _ ∧ _
  unfold stepN wrapDL step
  simp only [Task.depth, bindsList, bindExpr]
  rw [M_bind_app, noteDepth_apply]
  simp only []
  rw [M_bind_app, getEnv_apply]
  simp only [h]
  rw [M_bind_app, allocEnv_apply]
  simp only []
  rw [M_bind_app, List.forIn_cons, M_bind_app, M_bind_app]
  obtain ⟨t2, st1, hn, he, htr, ho, hth, hf⟩ := newThunk_frame dd st.envs.size
    { thunks := st.thunks, envs := st.envs.push { parent := some env, vars := [], obj := cell.obj },
      objs := st.objs, funcs := st.funcs, traces := st.traces, runs := st.runs,
      deepest := max st.deepest d, tripped := st.tripped }
  rw [hn]
  simp only [pure_app, List.forIn_nil, List.filter_nil, List.nil_append]
  have hlt : env < st.envs.size := by
    rcases Nat.lt_or_ge env st.envs.size with h' | h'
    · exact h'
    · simp [Array.getElem?_eq_none h'] at h
  rw [M_bind_app, getEnv_apply, he]
  simp only [Array.getElem?_push, Nat.ne_of_lt hlt, if_false, h]
  rw [M_bind_app, setEnv_apply]
  simp only []
  exact ⟨t2, _, rfl, by rw [he], htr, ho, hth, hf⟩


theorem thunkBody_expr (cfg : Cfg) (rec : Task → M Value) (e : Expr) (env : EId) (d : Nat) :
    thunkBody cfg rec (.expr e env) d = rec (.eval e env false d) := rfl

/-- `MRel_bind` for single outcomes -/
theorem ORel.bind {α β γ δ : Type} {ρ : Emb} {ta tb : List String} {Q₁ : Emb → α → β → Prop}
    {Q : Emb → γ → δ → Prop} {x : M α} {y : M β} {f : α → M γ} {g : β → M δ} {a b : St}
    (h : ORel ρ ta tb Q₁ (x a) (y b))
    (h₂ : ∀ ρ', ρ ≤ ρ' → ∀ v w, Q₁ ρ' v w → MRel ρ' Q (f v) (g w)) :
    ORel ρ ta tb Q ((x >>= f) a) ((y >>= g) b) := by
  rw [M_bind_app, M_bind_app]
  match hx : x a, h with
  | none, h =>
    rcases h with h | h
    · exact .inl h
    · rw [h]; exact .inr rfl
  | some (.ok v, a'), ⟨w, b', e, ρ', h1, h2, h3⟩ =>
    rw [e]
    exact ORel.weaken h1 (h₂ ρ' h1 v w h3 ta tb a' b' h2)
  | some (.error e, a'), h =>
    rcases h with h | ⟨b', e', ρ', h1, h2⟩
    · exact .inl h
    · rw [e']; exact .inr ⟨b', rfl, ρ', h1, h2⟩

end Rsj.Eval

/-! ### C04: a dead local binding at the root of a program -/
namespace Rsj.Eval
open Rsj.Core

/-- the comparison used for C04: the right program runs with at least as much fuel; a stack overflow and the
    panic "variable not found" of the LEFT program are not compared -/
@[reducible] def Mode.c04 : Mode :=
  ⟨fun e => e = .stackOverflow ∨ e = .internal "variable not found", True, 0, True⟩

attribute [local instance] Mode.c04

def rootCell : Env := { parent := none, vars := [("std", 0)], obj := none }

/-- the embedding after the administrative steps of `local x = d; e` at the root: the root environment of
    the left program corresponds to the new frame (environment 1) of the right program -/
def embDL (x : String) : Emb where
  tm := fun i => if i = 0 then some 0 else if i = 1 then some 1 else none
  em := fun i => if i = 0 then some 1 else none
  om := fun _ => none
  fm := fun _ => none
  wk := some ⟨x, 0, rootCell⟩

theorem force_root_deadLocal (cfg cfg' : Cfg) [RCfg cfg cfg'] (k k' : Nat) (hk : k ≤ k') (x : String) (dd e : Expr)
    (hx : x ≠ "std") :
    ORel (embDL x) [] [] RVal (run cfg (k + 1) (.force 1 0) (freshStore e))
      (run cfg' (k' + 2) (.force 1 0) (freshStore (wrapDL x dd e))) := by
  rw [run_force_pending cfg k 1 0 (freshStore e) (.expr e 0) rfl,
    run_force_pending cfg' (k' + 1) 1 0 (freshStore (wrapDL x dd e)) (.expr (wrapDL x dd e) 0) rfl]
  simp only [thunkBody_expr]
  generalize hB1 : ({ freshStore (wrapDL x dd e) with
      deepest := max (freshStore (wrapDL x dd e)).deepest 0,
      thunks := (freshStore (wrapDL x dd e)).thunks.setIfInBounds 1 (.inProgress (.expr (wrapDL x dd e) 0)),
      runs := (freshStore (wrapDL x dd e)).runs.modify 1 (· + 1) } : St) = B1
  obtain ⟨t2, B2, hrun, henv, htr, hobj, hth, hfn⟩ :=
    run_eval_deadLocal cfg' k' x dd e 0 0 B1 rootCell (by subst hB1; rfl)
  have hsz : B1.envs.size = 1 := by subst hB1; rfl
  rw [hsz] at hrun henv
  -- the right side continues from the store after the administrative steps
  have hright : ∀ g : Value → M Value,
      (run cfg' (k' + 1) (.eval (wrapDL x dd e) 0 false 0) >>= g) B1 =
      (run cfg' k' (.eval e 1 false 0) >>= g) B2 := by
    intro g; rw [M_bind_app, M_bind_app, hrun]
  rw [hright]
  refine ORel.bind (run_rel_le cfg cfg' k k' hk (.inr trivial) (embDL x) _ _
    (.eval e false 0 (show RE (embDL x) 0 1 from rfl)) [] [] _ B2 ?_) ?_
  · -- the stores after the administrative steps are related
    have hB1t : ∀ i : Nat, B1.thunks[i]? =
        (#[TState.done .null, TState.inProgress (.expr (wrapDL x dd e) 0)] : Array TState)[i]? := by
      intro i; subst hB1; rfl
    have hB1sz : B1.thunks.size = 2 := by subst hB1; rfl
    have hB1tr : B1.traces = [] := by subst hB1; rfl
    have hB2e1 : B2.envs[1]? = some { parent := some 0, vars := [(x, t2)], obj := none } := by
      rw [henv]; subst hB1; simp [rootCell, freshStore]
    have hB2e0 : B2.envs[0]? = some rootCell := by
      rw [henv]; subst hB1; simp [freshStore, rootCell]
    refine {
      thunks := ⟨fun i j k hi hj => ?_, fun i k hik => ?_⟩
      envs := ⟨fun i j k hi hj => ?_, fun i k hik => ?_⟩
      objs := ⟨fun i j k hi _ => (by cases hi), fun i k hik => (by cases hik)⟩
      funcs := ⟨fun i j k hi _ => (by cases hi), fun i k hik => (by cases hik)⟩
      traces := ⟨[], rfl, by rw [htr, hB1tr]; rfl⟩
      wkcell := fun w hw => ?_
      rsvok := fun t ht => by cases ht }
    · simp only [embDL] at hi hj
      split at hi <;> split at hj <;> (try split at hi) <;> (try split at hj) <;> simp_all <;> omega
    · simp only [embDL] at hik
      split at hik
      · cases hik; subst_vars
        refine ⟨.done .null, .done .null, rfl, ?_, .done .null⟩
        rw [hth 0 (by omega), hB1t]; rfl
      · split at hik
        · cases hik; subst_vars
          refine ⟨.inProgress (.expr e 0), .inProgress (.expr (wrapDL x dd e) 0), rfl, ?_, .inProgressLoose trivial⟩
          rw [hth 1 (by omega), hB1t]; rfl
        · cases hik
    · simp only [embDL] at hi hj
      split at hi <;> split at hj <;> simp_all
    · simp only [embDL] at hik
      split at hik
      · cases hik; subst_vars
        refine ⟨_, _, rfl, hB2e1, .inr ⟨⟨x, 0, rootCell⟩, t2, rfl, rfl, rfl, .none, ?_, rfl, ?_⟩⟩
        · exact ⟨.none, .cons ⟨rfl, rfl⟩ .nil, .none⟩
        · intro p hp
          simp [freshStore] at hp
          subst hp
          exact fun h => hx h.symm
      · cases hik
    · cases hw
      refine ⟨hB2e0, fun j => ?_, .inr rfl⟩
      simp only [embDL]
      split <;> simp
  · intro ρ' hle v w hvw
    have ht : RT ρ' 1 1 := hle.t 1 1 rfl
    mbind (finishThunk_rel ht hvw) with u u' hu
    exact MRel_pure hvw

theorem requestProg_root_deadLocal (cfg cfg' : Cfg) [RCfg cfg cfg'] (k k' : Nat) (hk : k ≤ k') (x : String)
    (dd e : Expr) (hx : x ≠ "std") :
    ORel (embDL x) [] [] REq (requestProg cfg (k + 1) 1 (freshStore e))
      (requestProg cfg' (k' + 2) 1 (freshStore (wrapDL x dd e))) := by
  unfold requestProg
  refine ORel.bind (force_root_deadLocal cfg cfg' k k' hk x dd e hx) ?_
  intro ρ' hle v w hvw
  have hf : k + 1 ≤ k' + 2 := by omega
  mbind (run_rel_le cfg cfg' (k + 1) (k' + 2) hf (.inr trivial) _ _ _ (.deep 0 hvw)) with u u' hu
  mbind (run_rel_le cfg cfg' (k + 1) (k' + 2) hf (.inr trivial) _ _ _ (.manifest 0 true hvw)) with s s' hs
  cases hs <;> first | exact MRel_throw rfl | exact MRel_pure rfl

/-- the evaluator of whole programs as `C04_rewrite_invariance_full` wants it: answer text and trace output -/
def evalP (ms fuel : Nat) (e : Expr) : String × List String :=
  let r := evalProgram ⟨ms⟩ fuel e
  (r.1, r.2.traces.reverse)

theorem evalP_eq (ms fuel : Nat) (e : Expr) :
    evalP ms fuel e = match requestProg ⟨ms⟩ fuel 1 (freshStore e) with
      | none => ("gas", [])
      | some (.ok s, st) => ("ok " ++ s, st.traces.reverse)
      | some (.error er, st) => (showErr er, st.traces.reverse) := by
  unfold evalP
  rw [evalProgram_eq]
  cases requestProg ⟨ms⟩ fuel 1 (freshStore e) with
  | none => rfl
  | some p =>
    obtain ⟨r, st⟩ := p
    cases r <;> rfl

/-- **C04, dead local binding at the root.**  `e ↦ local x = d; e` for ANY `d` and any `x ≠ "std"`: if the
    original program has an outcome other than out-of-fuel, StackOverflow and the panic "variable not
    found" (which a program that does not mention `x` cannot produce by looking up `x`), the rewritten
    program has exactly the same answer text and the same `std.trace` output, with any stack limit that
    is at least as large and any fuel that is at least one larger. -/
theorem deadLocal_root (x : String) (dd e : Expr) (hx : x ≠ "std") (ms fuel : Nat)
    (h1 : (evalP ms fuel e).1 ≠ "gas") (h2 : (evalP ms fuel e).1 ≠ showErr .stackOverflow)
    (h3 : (evalP ms fuel e).1 ≠ showErr (.internal "variable not found")) :
    ∀ ms' fuel', ms ≤ ms' → fuel + 1 ≤ fuel' → evalP ms' fuel' (wrapDL x dd e) = evalP ms fuel e := by
  intro ms' fuel' hms hf
  haveI : RCfg ⟨ms⟩ ⟨ms'⟩ := ⟨by show ms + 0 ≤ ms'; omega, fun h => absurd (.inl rfl) h⟩
  cases fuel with
  | zero => exact absurd (by rw [evalP_eq]; rfl) h1
  | succ k =>
    obtain ⟨k', rfl⟩ : ∃ k', fuel' = k' + 2 := ⟨fuel' - 2, by omega⟩
    have h := requestProg_root_deadLocal ⟨ms⟩ ⟨ms'⟩ k k' (by omega) x dd e hx
    rw [evalP_eq] at h1 h2 h3 ⊢
    rw [evalP_eq]
    match hl : requestProg ⟨ms⟩ (k + 1) 1 (freshStore e), h with
    | none, _ => rw [hl] at h1; exact absurd rfl h1
    | some (.ok s, a'), ⟨w, b', e1, ρ', _, h5, h6⟩ =>
      obtain ⟨new, t1, t2⟩ := h5.traces
      cases h6
      rw [e1]
      simp only [t1, t2]
    | some (.error er, a'), h =>
      rw [hl] at h2 h3
      rcases h with h | ⟨b', e1, ρ', _, h5⟩
      · rcases h with h | h
        · subst h; exact absurd rfl h2
        · subst h; exact absurd rfl h3
      · obtain ⟨new, t1, t2⟩ := h5.traces
        rw [e1]
        simp only [t1, t2]

end Rsj.Eval
