import RsjProofs.EvalEmbBuiltins
/-!
  Store-embedding invariance of the builtins that apply a user function eagerly
  (`std_bindCall`, `std_filter`, `std_foldl`, `std_foldr`, `std_flatMap`, `std_filterMap`).

  Helpers: `RList.reverse`, `mem_zipIdx_snd_lt`, `RListLen` (related lists of a known length) and
  `MRel_forIn_push` (a loop that conses one related result per element: the length of the result is
  known, which is what the depths `d1 + n - i` of the second loops need).
-/
set_option linter.unusedVariables false
namespace Rsj.Eval
open Rsj.Core
set_option linter.unusedSectionVars false
variable [Mode]

/-- reversal of related lists -/
theorem RList.reverse {α β : Type} {R : Emb → α → β → Prop} {ρ : Emb} {l : List α} {l' : List β}
    (h : RList R ρ l l') : RList R ρ l.reverse l'.reverse := by
  induction h with
  | nil => exact .nil
  | cons h1 _ ih => simpa using ih.snoc h1

/-- the indices of `zipIdx` are below `k + length` -/
theorem mem_zipIdx_snd_lt {α : Type} {l : List α} {k : Nat} {p : α × Nat} (h : p ∈ l.zipIdx k) :
    p.2 < k + l.length := by
  obtain ⟨a, i⟩ := p
  have := List.mem_zipIdx h
  omega

/-- the preparation of a call of related functions on related argument thunks: the SAME body, related
    parameter environments (the `.call` case of `thunkBody_rel` without the evaluation of the body) -/
theorem std_bindCall_rel {ρ : Emb} {f f' : FId} {args args' : List TId} (hf : RF ρ f f') (ha : RList RT ρ args args') :
    MRel ρ (RProd REq RE) (std_bindCall f args) (std_bindCall f' args') := by
  unfold std_bindCall
  mnorm
  mbind (getFunc_rel hf) with fn fn' hfn
  mbind (bindThunkArgs_rel hfn ha) with ats ats' hats
  rw [hfn.params, hfn.body]
  mbind (newEnv_rel (.some hfn.env) (RVars.zip_names _ hats)) with inner inner' hinner
  exact MRel_pure ⟨rfl, hinner⟩

/-- related lists of a known length (the left one; the right one has the same length) -/
def RListLen {α β : Type} (R : Emb → α → β → Prop) (n : Nat) : Emb → List α → List β → Prop :=
  fun ρ l l' => RList R ρ l l' ∧ l.length = n

instance {α β : Type} (R : Emb → α → β → Prop) [Mono R] (n : Nat) : Mono (RListLen R n) :=
  ⟨fun h r => ⟨Mono.mono h r.1, r.2⟩⟩

/-- a loop over related lists that pushes one related result per element in front of the accumulator:
    related results, one per element -/
theorem MRel_forIn_push {α α' γ γ' : Type} {ρ : Emb} (G : Emb → α → α' → Prop) [Mono G]
    (R : Emb → γ → γ' → Prop) [Mono R] {l : List α} {l' : List α'} {g : α → M γ} {g' : α' → M γ'}
    {acc : List γ} {acc' : List γ'} (hl : RList G ρ l l') (hacc : RList R ρ acc acc')
    (hg : ∀ ρ', ρ ≤ ρ' → ∀ x x', G ρ' x x' → MRel ρ' R (g x) (g' x')) :
    MRel ρ (RListLen R (acc.length + l.length))
      (forIn l acc fun it s => do
        let x ← g it
        pure (ForInStep.yield (x :: s)))
      (forIn l' acc' fun it s => do
        let x ← g' it
        pure (ForInStep.yield (x :: s))) := by
  induction l generalizing ρ l' acc acc' with
  | nil => cases hl; simpa using MRel_pure ⟨hacc, rfl⟩
  | cons x xs ih =>
    cases hl with
    | @cons _ x' _ xs' hx hxs =>
      rw [List.forIn_cons, List.forIn_cons]
      simp only [bind_assoc, pure_bind]
      refine MRel_bind (hg ρ (Emb.le_refl ρ) x x' hx) ?_
      intro ρ' hle v w hvw
      have := ih (acc := v :: acc) (acc' := w :: acc') (Mono.mono hle hxs) (.cons hvw (Mono.mono hle hacc))
        (fun ρ'' hle' y y' hy => hg ρ'' (Emb.le_trans hle hle') y y' hy)
      rw [show acc.length + (x :: xs).length = (v :: acc).length + xs.length by simp only [List.length_cons]; omega]
      exact this
/-- the loop that prepares one call per element (last element first) -/
theorem std_bindCalls_loop_rel {ρ : Emb} {f f' : FId} {l l' : List TId} (hf : RF ρ f f') (hl : RList RT ρ l l') :
    MRel ρ (RListLen (RProd REq RE) l.length)
      (forIn l ([] : List (Expr × EId)) fun it s => do
        let x ← std_bindCall f [it]
        pure (ForInStep.yield (x :: s)))
      (forIn l' ([] : List (Expr × EId)) fun it s => do
        let x ← std_bindCall f' [it]
        pure (ForInStep.yield (x :: s))) := by
  have h := MRel_forIn_push RT (RProd REq RE) (g := fun it => std_bindCall f [it])
    (g' := fun it => std_bindCall f' [it]) hl .nil (fun ρ2 hle2 x x' hx => by
      lift_hyps hle2
      exact std_bindCall_rel hf (.cons hx .nil))
  simp only [List.length_nil, Nat.zero_add] at h
  exact h

/-- the same for the characters of a string -/
theorem std_bindCallsStr_loop_rel {ρ : Emb} {f f' : FId} (l : List Char) (hf : RF ρ f f') :
    MRel ρ (RListLen (RProd REq RE) l.length)
      (forIn l ([] : List (Expr × EId)) fun c s => do
        let a ← allocThunk (TState.done (Value.str (String.singleton c)))
        let x ← std_bindCall f [a]
        pure (ForInStep.yield (x :: s)))
      (forIn l ([] : List (Expr × EId)) fun c s => do
        let a ← allocThunk (TState.done (Value.str (String.singleton c)))
        let x ← std_bindCall f' [a]
        pure (ForInStep.yield (x :: s))) := by
  have h := MRel_forIn_push (ρ := ρ) REq (RProd REq RE)
    (g := fun c => do
      let a ← allocThunk (TState.done (Value.str (String.singleton c)))
      std_bindCall f [a])
    (g' := fun c => do
      let a ← allocThunk (TState.done (Value.str (String.singleton c)))
      std_bindCall f' [a]) (RList.refl_eq l) .nil (fun ρ2 hle2 x x' hx => by
      lift_hyps hle2
      cases hx
      mbind (allocThunk_rel (.done (.str (String.singleton x)))) with a a' ha
      exact std_bindCall_rel hf (.cons ha .nil))
  simp only [List.length_nil, Nat.zero_add, bind_assoc] at h
  exact h

section
variable {cfg cfg' : Cfg} [RCfg cfg cfg'] {rec rec' : Task → M Value} (hrec : RecRel rec rec')
include hrec

/-- `std.foldl` on related thunks -/
theorem std_foldl_rel {ρ : Emb} {t0 t0' t1 t1' t2 t2' : TId} (d1 : Nat) {d1' : Nat} (ht0 : RT ρ t0 t0')
    (ht1 : RT ρ t1 t1') (ht2 : RT ρ t2 t2') (hd : RDep d1 d1' := by rdep) :
    MRel ρ RVal (std_foldl cfg rec t0 t1 t2 d1) (std_foldl cfg' rec' t0' t1' t2' d1') := by
  unfold std_foldl
  mbind (hrec _ _ _ (.force d1 ht0)) with fv fv' hfv
  mbind (hrec _ _ _ (.force d1 ht1)) with av av' hav
  cases hfv <;> simp only [] <;> try exact MRel_throw rfl
  rename_i f f' hf
  cases hav <;> simp only [] <;> try exact MRel_throw rfl
  rename_i xs ys hitems
  cases hitems with
  | nil => exact hrec _ _ _ (.force d1 ht2)
  | cons hit0 hrest =>
    simp only []
    mnorm
    mbind (std_bindCall_rel hf (.cons ht2 (.cons hit0 .nil))) with x x' hx
    obtain ⟨body, env⟩ := x
    obtain ⟨body', env'⟩ := x'
    obtain ⟨hb, henv⟩ := hx
    have hb : body = body' := hb
    have henv : RE _ env env' := henv
    subst hb
    mbind (checkDepth_rel _ _) with u u' hu
    mbind (hrec _ _ _ (.eval body true (d1 + 1) henv)) with acc0 acc0' hacc0
    refine MRel_bind (Q₁ := RVal) ?_ ?_
    · refine MRel_forIn RT RVal hrest hacc0 ?_
      intro ρ2 hle2 it it' acc acc' _ _ hit hacc
      lift_hyps hle2
      mbind (allocThunk_rel (.done hacc)) with a a' ha
      mbind (std_bindCall_rel hf (.cons ha (.cons hit .nil))) with x x' hx
      obtain ⟨bd, en⟩ := x
      obtain ⟨bd', en'⟩ := x'
      obtain ⟨hb2, hen⟩ := hx
      have hb2 : bd = bd' := hb2
      have hen : RE _ en en' := hen
      subst hb2
      mbind (checkDepth_rel _ _) with u u' hu
      mbind (hrec _ _ _ (.eval bd true (d1 + 1) hen)) with r r' hr
      exact MRel_pure (.yield hr)
    · mcont r r' hr
      exact MRel_pure hr

/-- `std.foldr` on related thunks -/
theorem std_foldr_rel {ρ : Emb} {t0 t0' t1 t1' t2 t2' : TId} (d1 : Nat) {d1' : Nat} (ht0 : RT ρ t0 t0')
    (ht1 : RT ρ t1 t1') (ht2 : RT ρ t2 t2') (hd : RDep d1 d1' := by rdep) :
    MRel ρ RVal (std_foldr cfg rec t0 t1 t2 d1) (std_foldr cfg' rec' t0' t1' t2' d1') := by
  unfold std_foldr
  mbind (hrec _ _ _ (.force d1 ht0)) with fv fv' hfv
  mbind (hrec _ _ _ (.force d1 ht1)) with av av' hav
  cases hfv <;> simp only [] <;> try exact MRel_throw rfl
  rename_i f f' hf
  cases hav <;> simp only [] <;> try exact MRel_throw rfl
  rename_i xs ys hitems
  gcases hitems.reverse
  · exact hrec _ _ _ (.force d1 ht2)
  · rename_i hit0 hrest
    simp only []
    mnorm
    mbind (std_bindCall_rel hf (.cons hit0 (.cons ht2 .nil))) with x x' hx
    obtain ⟨body, env⟩ := x
    obtain ⟨body', env'⟩ := x'
    obtain ⟨hb, henv⟩ := hx
    have hb : body = body' := hb
    have henv : RE _ env env' := henv
    subst hb
    mbind (checkDepth_rel _ _) with u u' hu
    mbind (hrec _ _ _ (.eval body true (d1 + 1) henv)) with acc0 acc0' hacc0
    refine MRel_bind (Q₁ := RVal) ?_ ?_
    · refine MRel_forIn RT RVal hrest hacc0 ?_
      intro ρ2 hle2 it it' acc acc' _ _ hit hacc
      lift_hyps hle2
      mbind (allocThunk_rel (.done hacc)) with a a' ha
      mbind (std_bindCall_rel hf (.cons hit (.cons ha .nil))) with x x' hx
      obtain ⟨bd, en⟩ := x
      obtain ⟨bd', en'⟩ := x'
      obtain ⟨hb2, hen⟩ := hx
      have hb2 : bd = bd' := hb2
      have hen : RE _ en en' := hen
      subst hb2
      mbind (checkDepth_rel _ _) with u u' hu
      mbind (hrec _ _ _ (.eval bd true (d1 + 1) hen)) with r r' hr
      exact MRel_pure (.yield hr)
    · mcont r r' hr
      exact MRel_pure hr

/-- `std.filter` on related thunks: the kept elements are related thunks -/
theorem std_filter_rel {ρ : Emb} {t0 t0' t1 t1' : TId} (d1 : Nat) {d1' : Nat} (ht0 : RT ρ t0 t0')
    (ht1 : RT ρ t1 t1') (hd : RDep d1 d1' := by rdep) :
    MRel ρ RVal (std_filter cfg rec t0 t1 d1) (std_filter cfg' rec' t0' t1' d1') := by
  unfold std_filter
  mbind (hrec _ _ _ (.force d1 ht0)) with fv fv' hfv
  mbind (hrec _ _ _ (.force d1 ht1)) with av av' hav
  cases hfv <;> simp only [] <;> try exact MRel_throw rfl
  rename_i f f' hf
  cases hav <;> simp only [] <;> try exact MRel_throw rfl
  rename_i xs ys hitems
  mnorm
  mbind (std_bindCalls_loop_rel hf hitems.reverse) with calls calls' hcl
  have hcalls : RList (RProd REq RE) _ calls calls' := hcl.1
  have hlen : calls.length = xs.length := by rw [hcl.2, List.length_reverse]
  rw [← hitems.length_eq]
  mbind (checkDepth_rel _ _ (hd := by show _ = _ + _; have h : d1' = d1 + Mode.shift := hd; omega)) with u u' hu
  refine MRel_bind (Q₁ := RList RT) ?_ ?_
  · refine MRel_forIn (RProd (RProd RT (RProd REq RE)) REq) (RList RT) ((hitems.zip hcalls).zipIdx 0) .nil ?_
    intro ρ2 hle2 x x' acc acc' hm _ hx hacc
    lift_hyps hle2
    have hi := mem_zipIdx_snd_lt hm
    obtain ⟨⟨it, body, env⟩, i⟩ := x
    obtain ⟨⟨it', body', env'⟩, i'⟩ := x'
    have hit : RT _ it it' := hx.1.1
    have hb : body = body' := hx.1.2.1
    have henv : RE _ env env' := hx.1.2.2
    have hii : i = i' := hx.2
    subst hb hii
    simp only [] at hi
    have hi2 : i ≤ xs.length := by
      have := List.length_zip (l₁ := xs) (l₂ := calls); omega
    mbind (hrec _ _ _ (.eval body true (d1 + xs.length - i) henv
      (hd := by show _ = _ + _; have h : d1' = d1 + Mode.shift := hd; omega))) with v v' hv
    cases hv <;> simp only []
    case bool b =>
      cases b <;> simp only []
      · exact MRel_pure (.yield hacc)
      · exact MRel_pure (.yield (hacc.snoc hit))
    all_goals exact MRel_throw rfl
  · mcont out out' hout
    exact MRel_pure (.arr hout)

/-- `std.filterMap` on related thunks: related deferred calls of the map function on the kept elements -/
theorem std_filterMap_rel {ρ : Emb} {t0 t0' t1 t1' t2 t2' : TId} (d1 : Nat) {d1' : Nat} (ht0 : RT ρ t0 t0')
    (ht1 : RT ρ t1 t1') (ht2 : RT ρ t2 t2') (hd : RDep d1 d1' := by rdep) :
    MRel ρ RVal (std_filterMap cfg rec t0 t1 t2 d1) (std_filterMap cfg' rec' t0' t1' t2' d1') := by
  unfold std_filterMap
  mbind (hrec _ _ _ (.force d1 ht0)) with fv fv' hfv
  mbind (hrec _ _ _ (.force d1 ht1)) with mv mv' hmv
  mbind (hrec _ _ _ (.force d1 ht2)) with av av' hav
  cases hfv <;> simp only [] <;> try exact MRel_throw rfl
  rename_i f f' hf
  cases hmv <;> simp only [] <;> try exact MRel_throw rfl
  rename_i mf mf' hmf
  cases hav <;> simp only [] <;> try exact MRel_throw rfl
  rename_i xs ys hitems
  mnorm
  mbind (std_bindCalls_loop_rel hf hitems.reverse) with calls calls' hcl
  have hcalls : RList (RProd REq RE) _ calls calls' := hcl.1
  have hlen : calls.length = xs.length := by rw [hcl.2, List.length_reverse]
  rw [← hitems.length_eq]
  mbind (checkDepth_rel _ _ (hd := by show _ = _ + _; have h : d1' = d1 + Mode.shift := hd; omega)) with u u' hu
  refine MRel_bind (Q₁ := RList RT) ?_ ?_
  · refine MRel_forIn (RProd (RProd RT (RProd REq RE)) REq) (RList RT) ((hitems.zip hcalls).zipIdx 0) .nil ?_
    intro ρ2 hle2 x x' acc acc' hm _ hx hacc
    lift_hyps hle2
    have hi := mem_zipIdx_snd_lt hm
    obtain ⟨⟨it, body, env⟩, i⟩ := x
    obtain ⟨⟨it', body', env'⟩, i'⟩ := x'
    have hit : RT _ it it' := hx.1.1
    have hb : body = body' := hx.1.2.1
    have henv : RE _ env env' := hx.1.2.2
    have hii : i = i' := hx.2
    subst hb hii
    simp only [] at hi
    have hi2 : i ≤ xs.length := by
      have := List.length_zip (l₁ := xs) (l₂ := calls); omega
    mbind (hrec _ _ _ (.eval body true (d1 + xs.length - i) henv
      (hd := by show _ = _ + _; have h : d1' = d1 + Mode.shift := hd; omega))) with v v' hv
    cases hv <;> simp only []
    case bool b =>
      cases b <;> simp only []
      · exact MRel_pure (.yield hacc)
      · mnorm
        mbind (allocThunk_rel (.pending (.call hmf (.cons hit .nil)))) with t t' ht
        exact MRel_pure (.yield (hacc.snoc ht))
    all_goals exact MRel_throw rfl
  · mcont out out' hout
    exact MRel_pure (.arr hout)

/-- `std.flatMap` on related thunks (array: concatenation of related arrays; string: the same string) -/
theorem std_flatMap_rel {ρ : Emb} {t0 t0' t1 t1' : TId} (d1 : Nat) {d1' : Nat} (ht0 : RT ρ t0 t0')
    (ht1 : RT ρ t1 t1') (hd : RDep d1 d1' := by rdep) :
    MRel ρ RVal (std_flatMap cfg rec t0 t1 d1) (std_flatMap cfg' rec' t0' t1' d1') := by
  unfold std_flatMap
  mbind (hrec _ _ _ (.force d1 ht0)) with fv fv' hfv
  mbind (hrec _ _ _ (.force d1 ht1)) with av av' hav
  cases hfv <;> simp only [] <;> try exact MRel_throw rfl
  rename_i f f' hf
  cases hav <;> simp only [] <;> try exact MRel_throw rfl
  · rename_i s
    mnorm
    mbind (std_bindCallsStr_loop_rel _ hf) with calls calls' hcl
    have hcalls : RList (RProd REq RE) _ calls calls' := hcl.1
    have hlen : calls.length = s.toList.length := by rw [hcl.2, List.length_reverse]
    mbind (checkDepth_rel _ _ (hd := by show _ = _ + _; have h : d1' = d1 + Mode.shift := hd; omega)) with u u' hu
    refine MRel_bind (Q₁ := REq) ?_ ?_
    · refine MRel_forIn (RProd (RProd REq RE) REq) REq (hcalls.zipIdx 0) rfl ?_
      intro ρ2 hle2 x x' acc acc' hm _ hx hacc
      lift_hyps hle2
      have hi := mem_zipIdx_snd_lt hm
      obtain ⟨⟨body, env⟩, i⟩ := x
      obtain ⟨⟨body', env'⟩, i'⟩ := x'
      have hb : body = body' := hx.1.1
      have henv : RE _ env env' := hx.1.2
      have hii : i = i' := hx.2
      cases hacc
      subst hb hii
      simp only [] at hi
      mbind (hrec _ _ _ (.eval body true (d1 + s.toList.length - i) henv
        (hd := by show _ = _ + _; have h : d1' = d1 + Mode.shift := hd; omega))) with v v' hv
      cases hv <;> simp only []
      case null => exact MRel_pure (.yield rfl)
      case str part => exact MRel_pure (.yield rfl)
      all_goals exact MRel_throw rfl
    · mcont out out' hout
      cases hout
      exact MRel_pure (.str _)
  · rename_i xs ys hitems
    mnorm
    mbind (std_bindCalls_loop_rel hf hitems.reverse) with calls calls' hcl
    have hcalls : RList (RProd REq RE) _ calls calls' := hcl.1
    have hlen : calls.length = xs.length := by rw [hcl.2, List.length_reverse]
    rw [← hitems.length_eq]
    mbind (checkDepth_rel _ _ (hd := by show _ = _ + _; have h : d1' = d1 + Mode.shift := hd; omega)) with u u' hu
    refine MRel_bind (Q₁ := RList RT) ?_ ?_
    · refine MRel_forIn (RProd (RProd REq RE) REq) (RList RT) (hcalls.zipIdx 0) .nil ?_
      intro ρ2 hle2 x x' acc acc' hm _ hx hacc
      lift_hyps hle2
      have hi := mem_zipIdx_snd_lt hm
      obtain ⟨⟨body, env⟩, i⟩ := x
      obtain ⟨⟨body', env'⟩, i'⟩ := x'
      have hb : body = body' := hx.1.1
      have henv : RE _ env env' := hx.1.2
      have hii : i = i' := hx.2
      subst hb hii
      simp only [] at hi
      mbind (hrec _ _ _ (.eval body true (d1 + xs.length - i) henv
        (hd := by show _ = _ + _; have h : d1' = d1 + Mode.shift := hd; omega))) with v v' hv
      cases hv <;> simp only []
      case arr sub sub' hsub => exact MRel_pure (.yield (hacc.append hsub))
      all_goals exact MRel_throw rfl
    · mcont out out' hout
      exact MRel_pure (.arr hout)
end
end Rsj.Eval
