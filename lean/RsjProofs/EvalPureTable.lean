import RsjModel.Eval
import RsjProofs.StrFind
import RsjProofs.StrSplit
import RsjProofs.CodecBase64
import RsjProofs.CodecRadix
import RsjProofs.FormatParse
import RsjProofs.FormatHost
/-!
  The table of the pure builtins (`pureSpec`, RsjModel/Eval.lean + RsjModel/EvalPure.lean): no entry ever
  answers with a panic of its pure core (`PErr.panic`).  The panic sites of the component models are
  unreachable by the lemmas of C18 (`findSubstr`, the strip loops) and C20 (`parse_num_radix`, base64); the
  bytes handed to `encode_base64` by `std.base64` on an array are below 256 because the per-item check
  says so.

  Also: the conversions between `String` and the lists of scalar values of the component models are
  inverse to each other.
-/
namespace Rsj.Eval
open Rsj.Core

/-! ### Conversions -/

/-- a string is the list of its scalar values -/
theorem ofScalars_scalars (s : String) : ofScalars (scalars s) = s := by
  unfold ofScalars scalars
  rw [List.map_map]
  have : (Char.ofNat ∘ Char.toNat) = id := by
    funext c; simp [Char.ofNat_toNat]
  rw [this, List.map_id, String.ofList_toList]

/-- ... and a list of scalar values is the string it spells -/
theorem scalars_ofScalars (l : List Nat) (h : ∀ c ∈ l, c.isValidChar) : scalars (ofScalars l) = l := by
  unfold ofScalars scalars
  rw [String.toList_ofList, List.map_map]
  induction l with
  | nil => rfl
  | cons c l ih =>
    simp only [List.map_cons, Function.comp]
    rw [ih (fun x hx => h x (List.mem_cons_of_mem _ hx))]
    congr 1
    have hc := h c (List.mem_cons_self ..)
    simp [Char.ofNat, hc, Char.ofNatAux]

/-- the arities of the table are those of `Core.pureArity` -/
theorem pureSpec_arity (p : PureB) : (pureSpec p).arity = pureArity p := by
  cases p <;> rfl

/-! ### No panic -/

def PErr.NoPanic : PErr → Prop
  | .panic _ => False
  | _ => True

/-- the per-item check of an element-wise builtin: no panic, and what it accepts is a byte -/
def ItemSafe (item : PArg → Except PErr Nat) : Prop :=
  ∀ a, (∀ e, item a = .error e → e.NoPanic) ∧ (∀ b, item a = .ok b → b < 256)

def FinishSafe (finish : List Nat → Except PErr PureOut) : Prop :=
  ∀ bs, (∀ b ∈ bs, b < 256) → ∀ e, finish bs = .error e → e.NoPanic

def StepSafe : Except PErr PureStep → Prop
  | .error e => e.NoPanic
  | .ok (.done _) => True
  | .ok (.elems _ item finish) => ItemSafe item ∧ FinishSafe finish
  | .ok (.fmt _) => True

/-- a pure builtin never answers with a panic of its pure core -/
def SpecSafe (spec : PureSpec) : Prop := ∀ vs, StepSafe (spec.run vs)

theorem StepSafe.bind {α} {x : Except PErr α} {f : α → Except PErr PureStep}
    (hx : ∀ e, x = .error e → e.NoPanic) (hf : ∀ a, x = .ok a → StepSafe (f a)) : StepSafe (x >>= f) := by
  cases x with
  | error e => exact hx e rfl
  | ok a => exact hf a rfl

theorem argStr_noPanic (name : String) (i : Nat) (a : PArg) : ∀ e, argStr name i a = .error e → e.NoPanic := by
  intro e h; cases a <;> simp [argStr, badArg] at h <;> (subst h; trivial)

theorem argNum_noPanic (name : String) (i : Nat) (a : PArg) : ∀ e, argNum name i a = .error e → e.NoPanic := by
  intro e h; cases a <;> simp [argNum, badArg] at h <;> (subst h; trivial)

theorem argArr_noPanic (name : String) (i : Nat) (a : PArg) : ∀ e, argArr name i a = .error e → e.NoPanic := by
  intro e h; cases a <;> simp [argArr, badArg] at h <;> (subst h; trivial)

theorem pCheckNum_noPanic (f : Float) : ∀ e, pCheckNum f = .error e → e.NoPanic := by
  intro e h
  unfold pCheckNum at h
  split at h
  · cases h; trivial
  · split at h
    · cases h; trivial
    · cases h

theorem run1_safe {f : PArg → Except PErr PureStep} (h : ∀ a, StepSafe (f a)) : ∀ vs, StepSafe (run1 f vs) := by
  intro vs
  rcases vs with _ | ⟨a, _ | ⟨b, r⟩⟩ <;> simp only [run1] <;> first | exact h _ | trivial

theorem run2_safe {f : PArg → PArg → Except PErr PureStep} (h : ∀ a b, StepSafe (f a b)) :
    ∀ vs, StepSafe (run2 f vs) := by
  intro vs
  rcases vs with _ | ⟨a, _ | ⟨b, _ | ⟨c, r⟩⟩⟩ <;> simp only [run2] <;> first | exact h _ _ | trivial

theorem run3_safe {f : PArg → PArg → PArg → Except PErr PureStep} (h : ∀ a b c, StepSafe (f a b c)) :
    ∀ vs, StepSafe (run3 f vs) := by
  intro vs
  rcases vs with _ | ⟨a, _ | ⟨b, _ | ⟨c, _ | ⟨d, r⟩⟩⟩⟩ <;> simp only [run3] <;> first | exact h _ _ _ | trivial

/-- an outcome of the string model that is not one of its panic sites -/
def StrOk {α} : Except Str.Err α → Prop
  | .error (.panic _) => False
  | .error .fuel => False
  | _ => True

theorem liftStr_safe {α} (f : α → PureStep) (hf : ∀ a, StepSafe (.ok (f a))) (x : Except Str.Err α) (hx : StrOk x) :
    StepSafe (liftStr f x) := by
  cases x with
  | ok a => exact hf a
  | error e => cases e <;> first | exact hx.elim | trivial

theorem strOk_ok {α} (a : α) : StrOk (.ok a : Except Str.Err α) := trivial

theorem substr_ok (s : Str.Str) (a b : Str.Num) : StrOk (Str.substr s a b) := by
  unfold Str.substr; split
  · trivial
  · split <;> trivial

theorem findSubstr_ok (p s : Str.Str) : StrOk (Str.findSubstr p s) := by
  cases p with
  | nil => trivial
  | cons c p' => rw [Str.findSubstr_eq _ s (by simp)]; trivial

theorem lstripChars_ok (s cs : Str.Str) : StrOk (Str.lstripChars s cs) := by
  unfold Str.lstripChars; rw [Str.lstripLoop_eq cs _ s (by omega)]; trivial

theorem rstripChars_ok (s cs : Str.Str) : StrOk (Str.rstripChars s cs) := by
  unfold Str.rstripChars; rw [Str.rstripLoop_eq' cs _ s (by omega)]; trivial

theorem stripChars_ok (s cs : Str.Str) : StrOk (Str.stripChars s cs) := by
  unfold Str.stripChars
  rw [Str.lstripLoop_eq cs _ s (by omega)]
  simp only []
  rw [Str.rstripLoop_eq' cs _ _ (by omega)]; trivial

theorem stdSplit_ok (s c : Str.Str) : StrOk (Str.stdSplit s c) := by
  unfold Str.stdSplit; split <;> trivial

theorem decodeMaxsplits_ok (n : Str.Num) : StrOk (Str.decodeMaxsplits n) := by
  unfold Str.decodeMaxsplits
  repeat' split
  all_goals trivial

theorem decodeMaxsplitsR_ok (n : Str.Num) : StrOk (Str.decodeMaxsplitsR n) := by
  unfold Str.decodeMaxsplitsR
  repeat' split
  all_goals trivial

theorem splitLimit_ok (s c : Str.Str) (n : Str.Num) : StrOk (Str.splitLimit s c n) := by
  unfold Str.splitLimit
  split
  · trivial
  · have := decodeMaxsplits_ok n
    cases h : Str.decodeMaxsplits n with
    | error e => rw [h] at this; cases e <;> first | exact this.elim | trivial
    | ok o => cases o <;> trivial

theorem splitLimitR_ok (s c : Str.Str) (n : Str.Num) : StrOk (Str.splitLimitR s c n) := by
  unfold Str.splitLimitR
  split
  · trivial
  · have := decodeMaxsplitsR_ok n
    cases h : Str.decodeMaxsplitsR n with
    | error e => rw [h] at this; cases e <;> first | exact this.elim | trivial
    | ok o => cases o <;> trivial

theorem codepoint_ok (s : Str.Str) : StrOk (Str.codepoint s) := by
  unfold Str.codepoint; split <;> trivial

theorem char_ok (n : Str.Num) : StrOk (Str.char n) := by
  unfold Str.char; split
  · split <;> trivial
  · trivial

/-- `parse_num_radix` never reaches its panic outcome (as `C20_radix_no_panic`) -/
theorem parseNumRadix_noPanic (r : Codec.Radix) (s : List Nat) : Codec.parseNumRadix r s ≠ .error .panic := by
  cases s with
  | nil => intro h; cases h
  | cons c s =>
    cases hb : Codec.firstBad r (c :: s) with
    | some x => rw [Codec.parse_invalid r _ hb]; intro h; cases h
    | none =>
      rw [Codec.parse_valid r _ (by simp) hb]
      split <;> (intro h; cases h)

theorem parseInt_noPanic (s : List Nat) : Codec.parseInt s ≠ .error .panic := by
  unfold Codec.parseInt
  intro h
  simp only [] at h
  repeat' split at h
  all_goals cases h

theorem chrToIndex_err (c : Nat) (e : Codec.B64Err) (h : Codec.chrToIndex c = .error e) : ∃ c', e = .badChar c' := by
  unfold Codec.chrToIndex at h
  repeat' split at h
  all_goals first | (cases h; exact ⟨_, rfl⟩) | cases h

/-- what `decode_base64` rejects, it rejects for its length or for a character -/
def DecErr (e : Codec.B64Err) : Prop := e = .length ∨ ∃ c, e = .badChar c

theorem bind_decErr {α β} {x : Except Codec.B64Err α} {f : α → Except Codec.B64Err β} {e : Codec.B64Err}
    (h : (x >>= f) = .error e) (hx : ∀ e, x = .error e → DecErr e) (hf : ∀ a e, f a = .error e → DecErr e) : DecErr e := by
  cases x with
  | error e' => cases h; exact hx _ rfl
  | ok a => exact hf a e h

theorem chrToIndex_decErr (c : Nat) : ∀ e, Codec.chrToIndex c = .error e → DecErr e :=
  fun e h => .inr (chrToIndex_err c e h)

theorem decodeFull_decErr (c0 c1 c2 c3 : Nat) : ∀ e, Codec.decodeFull c0 c1 c2 c3 = .error e → DecErr e := by
  intro e h
  unfold Codec.decodeFull at h
  refine bind_decErr h (chrToIndex_decErr _) (fun i0 e h => ?_)
  refine bind_decErr h (chrToIndex_decErr _) (fun i1 e h => ?_)
  refine bind_decErr h (chrToIndex_decErr _) (fun i2 e h => ?_)
  refine bind_decErr h (chrToIndex_decErr _) (fun i3 e h => ?_)
  cases h

theorem decodeLast_decErr (c0 c1 c2 c3 : Nat) : ∀ e, Codec.decodeLast c0 c1 c2 c3 = .error e → DecErr e := by
  intro e h
  unfold Codec.decodeLast at h
  refine bind_decErr h (chrToIndex_decErr _) (fun i0 e h => ?_)
  refine bind_decErr h (chrToIndex_decErr _) (fun i1 e h => ?_)
  split at h
  · cases h
  · split at h
    · refine bind_decErr h (chrToIndex_decErr _) (fun i2 e h => ?_)
      cases h
    · refine bind_decErr h (chrToIndex_decErr _) (fun i2 e h => ?_)
      refine bind_decErr h (chrToIndex_decErr _) (fun i3 e h => ?_)
      cases h

theorem decodeChunks_decErr (cs : List Nat) : ∀ e, Codec.decodeChunks cs = .error e → DecErr e := by
  fun_induction Codec.decodeChunks cs with
  | case1 => intro e h; cases h
  | case2 c0 c1 c2 c3 => exact decodeLast_decErr c0 c1 c2 c3
  | case3 c0 c1 c2 c3 rest _ ih =>
    intro e h
    refine bind_decErr h (decodeFull_decErr _ _ _ _) (fun a e h => ?_)
    refine bind_decErr h ih (fun b e h => ?_)
    cases h
  | case4 => intro e h; cases h; exact .inl rfl

theorem decode_decErr (cs : List Nat) : ∀ e, Codec.decode cs = .error e → DecErr e := by
  intro e h
  unfold Codec.decode at h
  split at h
  · cases h; exact .inl rfl
  · exact decodeChunks_decErr cs e h

theorem b64Err_noPanic {e : Codec.B64Err} (h : DecErr e) : (b64Err e).NoPanic := by
  rcases h with rfl | ⟨c, rfl⟩ <;> trivial

theorem u8Exact_lt (f : Float) (b : Nat) (h : u8Exact f = some b) : b < 256 := by
  unfold u8Exact at h
  simp only [] at h
  repeat' split at h
  all_goals first | (cases h; omega) | cases h

theorem base64Byte_lt (f : Float) (b : Nat) (h : base64Byte f = some b) : b < 256 := by
  unfold base64Byte at h
  simp only [] at h
  repeat' split at h
  all_goals first | (cases h; omega) | cases h

theorem decodeUTF8Item_safe : ItemSafe decodeUTF8Item := by
  intro a
  cases a <;> simp only [decodeUTF8Item]
  case num f =>
    cases h : u8Exact f with
    | none =>
      refine ⟨fun e he => ?_, fun b hb => ?_⟩
      · cases he; exact True.intro
      · cases hb
    | some b =>
      refine ⟨fun e he => ?_, fun b' hb => ?_⟩
      · cases he
      · cases hb; exact u8Exact_lt f b h
  all_goals
    refine ⟨fun e he => ?_, fun b hb => ?_⟩
    · cases he; exact True.intro
    · cases hb

theorem base64Item_safe : ItemSafe base64Item := by
  intro a
  cases a <;> simp only [base64Item]
  case num f =>
    cases h : base64Byte f with
    | none =>
      refine ⟨fun e he => ?_, fun b hb => ?_⟩
      · cases he; exact True.intro
      · cases hb
    | some b =>
      refine ⟨fun e he => ?_, fun b' hb => ?_⟩
      · cases he
      · cases hb; exact base64Byte_lt f b h
  all_goals
    refine ⟨fun e he => ?_, fun b hb => ?_⟩
    · cases he; exact True.intro
    · cases hb

theorem base64Finish_safe : FinishSafe base64Finish := by
  intro bs hbs e h
  unfold base64Finish at h
  rw [Codec.encode_eq_spec bs hbs] at h
  cases h

/-- every argument check of a table entry, then its core -/
macro "spec_safe" : tactic => `(tactic|
  (first | apply run1_safe | apply run2_safe | apply run3_safe) <;> intros <;>
    repeat' (first
      | (refine StepSafe.bind (argStr_noPanic _ _ _) (fun _ _ => ?_))
      | (refine StepSafe.bind (argNum_noPanic _ _ _) (fun _ _ => ?_))
      | (refine StepSafe.bind (argArr_noPanic _ _ _) (fun _ _ => ?_))
      | (refine StepSafe.bind (pCheckNum_noPanic _) (fun _ _ => ?_))))

theorem spec_strip_safe (name : String) (f : Str.Str → Str.Str → Except Str.Err Str.Str)
    (hf : ∀ s cs, StrOk (f s cs)) : SpecSafe (spec_strip name f) := by
  unfold SpecSafe spec_strip; simp only []
  spec_safe
  refine liftStr_safe _ ?_ _ (hf _ _) <;> (intro _; exact True.intro)

theorem spec_splitLimit_safe (name : String) (f : Str.Str → Str.Str → Str.Num → Except Str.Err (List Str.Str))
    (hf : ∀ s c n, StrOk (f s c n)) : SpecSafe (spec_splitLimit name f) := by
  unfold SpecSafe spec_splitLimit; simp only []
  spec_safe
  refine liftStr_safe _ ?_ _ (hf _ _ _) <;> (intro _; exact True.intro)

theorem spec_strMap_safe (name : String) (f : Str.Str → Str.Str) : SpecSafe (spec_strMap name f) := by
  unfold SpecSafe spec_strMap; simp only []
  spec_safe
  exact True.intro

theorem spec_escape_safe (name : String) (f : List Nat → List Nat) : SpecSafe (spec_escape name f) := by
  unfold SpecSafe spec_escape; simp only []
  spec_safe
  exact True.intro

theorem spec_num1_safe (name : String) (f : Float → Except PErr PureStep) (hf : ∀ x, StepSafe (f x)) :
    SpecSafe (spec_num1 name f) := by
  unfold SpecSafe spec_num1; simp only []
  spec_safe
  exact hf _

theorem spec_libm1_safe (name : String) : SpecSafe (spec_libm1 name) :=
  spec_num1_safe _ _ (fun _ => True.intro)

theorem spec_libm2_safe (name : String) : SpecSafe (spec_libm2 name) := by
  unfold SpecSafe spec_libm2; simp only []
  spec_safe
  exact True.intro

theorem spec_parseRadix_safe (name : String) (r : Codec.Radix) (m1 m2 : String) :
    SpecSafe (spec_parseRadix name r m1 m2) := by
  unfold SpecSafe spec_parseRadix; simp only []
  spec_safe
  rename_i s _
  have := parseNumRadix_noPanic r (scalars s)
  cases h : Codec.parseNumRadix r (scalars s) with
  | ok v => trivial
  | error e => cases e <;> first | trivial | exact (this h).elim

/-! ### `std.format`: the parser never runs out of fuel, the host formatter of the evaluator never panics -/

theorem evalHost_expWF : Format.HostExpWF evalHost := by
  intro ab p s hs
  cases hs

/-- rendering one directive (not `%%`) never reaches a panic of format.rs -/
theorem fmtRender_noPanic {c : Format.Code} {fw prec : Nat} {v : Format.Val} {e : PErr} (hc : c.conv ≠ .pct)
    (h : fmtRender c fw prec v = .error e) : e.NoPanic := by
  unfold fmtRender at h
  cases hr : Format.renderCode evalHost c fw prec v with
  | ok s => rw [hr] at h; cases h
  | error re =>
    rw [hr] at h
    cases h
    cases re <;> try exact True.intro
    rename_i k
    rcases Format.renderCode_panic hr with ⟨_, hp⟩ | ⟨_, hn⟩
    · exact absurd hp hc
    · exact absurd evalHost_expWF hn

theorem evalPrec_err (w : Format.WT) (e : Format.Err) (h : Format.evalPrec w = .error e) :
    e = .precInvalid ∨ ∃ ty, e = .precNotNumber ty := by
  unfold Format.evalPrec at h
  repeat' split at h
  all_goals first | (cases h; exact .inl rfl) | (cases h; exact .inr ⟨_, rfl⟩) | cases h

theorem evalWidth_err (w : Format.WT) (e : Format.Err) (h : Format.evalWidth w = .error e) :
    e = .widthInvalid ∨ ∃ ty, e = .widthNotNumber ty := by
  unfold Format.evalWidth at h
  repeat' split at h
  all_goals first | (cases h; exact .inl rfl) | (cases h; exact .inr ⟨_, rfl⟩) | cases h

theorem fmtPrecWidth_noPanic {c : Format.Code} {fwV precV : Option PArg} {e : PErr}
    (h : fmtPrecWidth c fwV precV = .error e) : e.NoPanic := by
  unfold fmtPrecWidth at h
  cases hp : (if (c.prec.isSome && Format.usesPrec c.conv) = true then Format.evalPrec (fmtWT c.prec precV) else .ok 0) with
  | error pe =>
    rw [hp] at h
    cases h
    split at hp
    · rcases evalPrec_err _ _ hp with rfl | ⟨ty, rfl⟩ <;> exact True.intro
    · cases hp
  | ok prec =>
    rw [hp] at h
    cases hw : (if c.fw.isSome = true then Format.evalWidth (fmtWT c.fw fwV) else .ok 0) with
    | error we =>
      rw [hw] at h
      cases h
      split at hw
      · rcases evalWidth_err _ _ hw with rfl | ⟨ty, rfl⟩ <;> exact True.intro
      · cases hw
    | ok fw =>
      rw [hw] at h
      cases h

theorem objWidth_noPanic {spec : Option Format.FW} {star e : Format.Err} (hs : (fmtErr star).NoPanic)
    (h : Format.objWidth spec star = .error e) : (fmtErr e).NoPanic := by
  unfold Format.objWidth at h
  repeat' split at h
  all_goals first | (cases h; exact hs) | cases h

theorem objWidthW_noPanic {spec : Option Format.FW} {e : Format.Err}
    (h : Format.objWidth spec .objStarWidth = .error e) : (fmtErr e).NoPanic :=
  objWidth_noPanic (star := .objStarWidth) (by exact True.intro) h

theorem objWidthP_noPanic {spec : Option Format.FW} {e : Format.Err}
    (h : Format.objWidth spec .objStarPrec = .error e) : (fmtErr e).NoPanic :=
  objWidth_noPanic (star := .objStarPrec) (by exact True.intro) h

theorem spec_format_safe : SpecSafe spec_format := by
  unfold SpecSafe spec_format; simp only []
  apply run2_safe
  intro a b
  refine StepSafe.bind (argStr_noPanic _ _ _) (fun s _ => ?_)
  cases h : Format.parseFormat s.toList with
  | ok parts => exact True.intro
  | error e =>
    cases e <;> try exact True.intro
    exact absurd h (Format.parseParts_ne_fuel _ _ (Nat.lt_succ_self _))

/-- **the table**: no pure builtin of the evaluator model answers with a panic of its core -/
theorem pureSpec_safe (p : PureB) : SpecSafe (pureSpec p) := by
  cases p <;> simp only [pureSpec]
  case substr =>
    unfold SpecSafe spec_substr; simp only []; spec_safe
    refine liftStr_safe _ ?_ _ (substr_ok _ _ _) <;> (intro _; exact True.intro)
  case findSubstr =>
    unfold SpecSafe spec_findSubstr; simp only []; spec_safe
    refine liftStr_safe _ ?_ _ (findSubstr_ok _ _) <;> (intro _; exact True.intro)
  case startsWith => unfold SpecSafe spec_startsWith; simp only []; spec_safe; exact True.intro
  case endsWith => unfold SpecSafe spec_endsWith; simp only []; spec_safe; exact True.intro
  case split =>
    unfold SpecSafe spec_split; simp only []; spec_safe
    refine liftStr_safe _ ?_ _ (stdSplit_ok _ _) <;> (intro _; exact True.intro)
  case splitLimit => exact spec_splitLimit_safe _ _ splitLimit_ok
  case splitLimitR => exact spec_splitLimit_safe _ _ splitLimitR_ok
  case strReplace => unfold SpecSafe spec_strReplace; simp only []; spec_safe; exact True.intro
  case stripChars => exact spec_strip_safe _ _ stripChars_ok
  case lstripChars => exact spec_strip_safe _ _ lstripChars_ok
  case rstripChars => exact spec_strip_safe _ _ rstripChars_ok
  case trim => exact spec_strMap_safe _ _
  case asciiUpper => exact spec_strMap_safe _ _
  case asciiLower => exact spec_strMap_safe _ _
  case stringChars => unfold SpecSafe spec_stringChars; simp only []; spec_safe; exact True.intro
  case codepoint =>
    unfold SpecSafe spec_codepoint; simp only []; spec_safe
    refine liftStr_safe _ ?_ _ (codepoint_ok _) <;> (intro _; exact True.intro)
  case char =>
    unfold SpecSafe spec_char; simp only []; spec_safe
    refine liftStr_safe _ ?_ _ (char_ok _) <;> (intro _; exact True.intro)
  case equalsIgnoreCase => unfold SpecSafe spec_equalsIgnoreCase; simp only []; spec_safe; exact True.intro
  case floor => exact spec_num1_safe _ _ (fun _ => True.intro)
  case ceil => exact spec_num1_safe _ _ (fun _ => True.intro)
  case sqrt => exact spec_num1_safe _ _ (fun _ => StepSafe.bind (pCheckNum_noPanic _) (fun _ _ => True.intro))
  case isEven => exact spec_num1_safe _ _ (fun _ => True.intro)
  case isOdd => exact spec_num1_safe _ _ (fun _ => True.intro)
  case isInteger => exact spec_num1_safe _ _ (fun _ => True.intro)
  case isDecimal => exact spec_num1_safe _ _ (fun _ => True.intro)
  case modulo =>
    unfold SpecSafe spec_modulo; simp only []; spec_safe
    split
    · trivial
    · exact StepSafe.bind (pCheckNum_noPanic _) (fun _ _ => True.intro)
  case exponent => exact spec_num1_safe _ _ (fun _ => True.intro)
  case mantissa => exact spec_num1_safe _ _ (fun _ => True.intro)
  case pow => exact spec_libm2_safe _
  case exp => exact spec_libm1_safe _
  case log => exact spec_libm1_safe _
  case log2 => exact spec_libm1_safe _
  case log10 => exact spec_libm1_safe _
  case sin => exact spec_libm1_safe _
  case cos => exact spec_libm1_safe _
  case tan => exact spec_libm1_safe _
  case asin => exact spec_libm1_safe _
  case acos => exact spec_libm1_safe _
  case atan => exact spec_libm1_safe _
  case atan2 => exact spec_libm2_safe _
  case hypot => exact spec_libm2_safe _
  case deg2rad => exact spec_num1_safe _ _ (fun _ => StepSafe.bind (pCheckNum_noPanic _) (fun _ _ => True.intro))
  case rad2deg => exact spec_num1_safe _ _ (fun _ => StepSafe.bind (pCheckNum_noPanic _) (fun _ _ => True.intro))
  case parseInt =>
    unfold SpecSafe spec_parseInt; simp only []; spec_safe
    rename_i s _
    have := parseInt_noPanic (scalars s)
    cases h : Codec.parseInt (scalars s) with
    | ok v => trivial
    | error e => cases e <;> first | trivial | exact (this h).elim
  case parseOctal => exact spec_parseRadix_safe _ _ _ _
  case parseHex => exact spec_parseRadix_safe _ _ _ _
  case base64 =>
    unfold SpecSafe spec_base64; simp only []
    apply run1_safe
    intro a
    cases a <;> try trivial
    case str s =>
      simp only []
      have key : ∀ e, Codec.encodeStr (scalars s) = .error e → e = .codepoint := by
        intro e h
        unfold Codec.encodeStr at h
        split at h
        · rename_i hall
          rw [Codec.encode_eq_spec _ (by simpa using hall)] at h
          cases h
        · cases h; rfl
      cases h : Codec.encodeStr (scalars s) with
      | ok r => exact True.intro
      | error e => cases key e h; exact True.intro
    case arr n => exact ⟨base64Item_safe, base64Finish_safe⟩
  case base64Decode =>
    unfold SpecSafe spec_base64Decode; simp only []; spec_safe
    rename_i s _
    cases h : Codec.decode (scalars s) with
    | ok bs => trivial
    | error e => exact b64Err_noPanic (decode_decErr _ e h)
  case base64DecodeBytes =>
    unfold SpecSafe spec_base64DecodeBytes; simp only []; spec_safe
    rename_i s _
    cases h : Codec.decode (scalars s) with
    | ok bs => trivial
    | error e => exact b64Err_noPanic (decode_decErr _ e h)
  case encodeUTF8 => unfold SpecSafe spec_encodeUTF8; simp only []; spec_safe; exact True.intro
  case decodeUTF8 =>
    unfold SpecSafe spec_decodeUTF8; simp only []; spec_safe
    exact ⟨decodeUTF8Item_safe, fun bs _ e h => by cases h⟩
  case escapeStringJson => exact spec_escape_safe _ _
  case escapeStringPython => exact spec_escape_safe _ _
  case escapeStringBash => exact spec_escape_safe _ _
  case escapeStringDollars => exact spec_escape_safe _ _
  case escapeStringXML => exact spec_escape_safe _ _
  case format => exact spec_format_safe

end Rsj.Eval
