import Lean
import Std.Do
import Std.Tactic.Do
import RsjProofs.EvalScopeBase
/-!
  C09, run-time half: Hoare triples for the store primitives of the evaluator model.

  Every specification has the form `⦃fun st => ⌜st = s⌝⦄ x ⦃Q s p⦄`: from the store `s`
  (with pure hypotheses about `s`), `x` ends in a later store (`S s st'`) that satisfies the
  invariant, with `p result st'`; a failure is never one of the three scoping panics (`Good`).
  `mvcgen` instantiates `s` with the current store at every call, so the verification conditions
  carry a chain `S s₀ s₁`, `S s₁ s₂`, … (closed by `schain`).
-/
open Std.Do

set_option mvcgen.warning false

namespace Rsj.Eval.Scope
open Rsj.Core Rsj.Eval Rsj.Analyze

abbrev PS : PostShape := .except Err (.arg St (.except PUnit .pure))

/-- later store, invariant, `p`; failures are not scoping panics; out of fuel promises nothing -/
def Q (s : St) {α} (p : α → St → Prop) : PostCond α PS :=
  ⟨fun a st => ⌜S s st ∧ Inv st ∧ p a st⌝, fun e st => ⌜Good e ∧ (NonPanic e → Inv st)⌝,
   fun _ => ⌜True⌝, ()⟩

/-- the same as `Q`, conjuncts in another order: the form of the *goal* while `mvcgen` runs (a goal
    `Q s p` would be unified with the postcondition `Q ?s' p'` of the specification of a call in tail
    position, which instantiates `?s'` wrongly) -/
def Qg (s : St) {α} (p : α → St → Prop) : PostCond α PS :=
  ⟨fun a st => ⌜Inv st ∧ S s st ∧ p a st⌝, fun e st => ⌜(NonPanic e → Inv st) ∧ Good e⌝,
   fun _ => ⌜True⌝, ()⟩

/-- a deferred application prepared by `std_bindCall`: body and environment, well scoped -/
def CallOk (envs : Array Env) (c : Expr × EId) : Prop := ∃ Γ, EnvOk envs c.2 Γ ∧ WS c.1 Γ

/-- invariant of a loop without typed state of its own (`s1`: the store at loop entry) -/
def loopInv1 (s s1 : St) {β} : PostCond β PS :=
  ⟨fun _ st => ⌜Inv st ∧ S s st ∧ S s1 st⌝, fun e st => ⌜(NonPanic e → Inv st) ∧ Good e⌝,
   fun _ => ⌜True⌝, ()⟩

/-- invariant of a loop that collects prepared applications -/
def callsInv (s s1 : St) {β} : PostCond (β × List (Expr × EId)) PS :=
  ⟨fun (_, calls) st => ⌜Inv st ∧ S s st ∧ S s1 st ∧ ∀ c ∈ calls, CallOk st.envs c⌝,
   fun e st => ⌜(NonPanic e → Inv st) ∧ Good e⌝, fun _ => ⌜True⌝, ()⟩

/-- read-only operations: the store is unchanged -/
def Qro (s : St) {α} (p : α → Prop) : PostCond α PS :=
  ⟨fun a st => ⌜st = s ∧ p a⌝, fun e st => ⌜st = s ∧ Good e⌝, fun _ => ⌜True⌝, ()⟩

/-- inside the block that builds environment `h`: the store is extended (`Ext`), every failure is
    a (modelled) panic other than the three scoping panics -/
def Qx (h : EId) (PL : Expr → Prop) (s : St) {α} (p : α → Prop) : PostCond α PS :=
  ⟨fun a st => ⌜Ext h PL s st ∧ p a⌝, fun e _ => ⌜Good e ∧ ¬ NonPanic e⌝, fun _ => ⌜True⌝, ()⟩

/-! ### Tactics -/

open Lean Elab Tactic Meta in
/-- split every conjunction / existential hypothesis -/
elab "destruct_hyps" : tactic => do
  let mut fuel := 400
  let mut progress := true
  while progress && fuel > 0 do
    fuel := fuel - 1
    progress := false
    if (← getGoals).isEmpty then break
    let g ← getMainGoal
    let found ← g.withContext do
      let mut r : Option FVarId := none
      for d in ← getLCtx do
        if d.isImplementationDetail then continue
        if r.isSome then break
        let ty ← instantiateMVars d.type
        if ty.isAppOfArity ``And 2 || ty.isAppOfArity ``Exists 2 then
          r := some d.fvarId
      pure r
    if let some fv := found then
      let subgoals ← g.cases fv
      replaceMainGoal (subgoals.toList.map (·.mvarId))
      progress := true

open Lean Elab Tactic Meta in
/-- close a goal `Rel x.. a c` from the chain of `Rel x.. _ _` facts in the context
    (`Rel` reflexive and transitive in its last two arguments) -/
def chainTac (rel refl trans : Name) (arity : Nat) : TacticM Unit := withMainContext do
  let g ← getMainGoal
  let tgt ← whnfR (← instantiateMVars (← g.getType))
  unless tgt.isAppOfArity rel arity do
    throwError "chain: goal is not a {rel} fact: {tgt}"
  let args := tgt.getAppArgs
  let lead := args.extract 0 (arity - 2)
  let a := args[arity - 2]!
  let c := args[arity - 1]!
  let mut edges : Array (Lean.Expr × Lean.Expr × Lean.Expr) := #[]
  for d in ← getLCtx do
    if d.isImplementationDetail then continue
    let ty ← instantiateMVars d.type
    if ty.isAppOfArity rel arity then
      let as := ty.getAppArgs
      edges := edges.push (as[arity - 2]!, as[arity - 1]!, d.toExpr)
  let mut frontier : Array (Lean.Expr × Lean.Expr) := #[(a, ← mkAppM refl (lead.push a))]
  let mut seen : Array Lean.Expr := #[a]
  let mut fuel := 64
  while fuel > 0 do
    fuel := fuel - 1
    let mut next : Array (Lean.Expr × Lean.Expr) := #[]
    for (x, px) in frontier do
      if ← withReducible (isDefEq x c) then
        if ← isDefEq (← inferType px) tgt then
          g.assign px; return
      for (u, v, h) in edges do
        if (← withReducible (isDefEq u x)) && !(← seen.anyM (fun w => withReducible (isDefEq w v))) then
          try
            let pf ← mkAppM trans #[px, h]
            seen := seen.push v
            next := next.push (v, pf)
          catch _ => pure ()
    if next.isEmpty then break
    frontier := next
  throwError "chain: no chain from {a} to {c}"

elab "schain" : tactic => chainTac ``Rsj.Eval.Scope.S ``Rsj.Eval.Scope.S.refl ``Rsj.Eval.Scope.S.trans 2
elab "xchain" : tactic => chainTac ``Rsj.Eval.Scope.Ext ``Rsj.Eval.Scope.Ext.refl ``Rsj.Eval.Scope.Ext.trans 4

open Lean Elab Tactic in
/-- give every loop-invariant goal (`inv<N>`) the same invariant -/
elab "assign_invs " t:term : tactic => do
  let gs ← getGoals
  let mut rest : Array MVarId := #[]
  for g in gs do
    if ← g.isAssigned then continue
    let tag ← g.getTag
    if tag.components.any (fun c => c.toString.startsWith "inv") then
      setGoals [g]
      evalTactic (← `(tactic| exact $t))
    else
      rest := rest.push g
  setGoals rest.toList

open Lean Elab Tactic in
/-- run a tactic on every loop-invariant goal (`inv<N>`) -/
elab "on_invs " t:tacticSeq : tactic => do
  let gs ← getGoals
  let mut rest : Array MVarId := #[]
  for g in gs do
    if ← g.isAssigned then continue
    let tag ← g.getTag
    if tag.components.any (fun c => c.toString.startsWith "inv") then
      setGoals [g]
      evalTactic t
    else
      rest := rest.push g
  setGoals rest.toList

/-- normal form of a verification condition: postconditions unfolded, hypotheses split -/
macro "vcprep" : tactic => `(tactic|
  ((try intros);
   (try simp only [Q, Qg, Qro, Qx, loopInv1, callsInv, SPred.down_pure] at *);
   destruct_hyps;
   (try subst_vars)))

/-- entailment of the exceptional postconditions `a ⊢ₑ b`: the goal becomes the implication for
    an arbitrary error and store -/
macro "econds" : tactic => `(tactic|
  (refine ⟨?_, ExceptConds.entails.refl _⟩; intro e st h; vcprep))

/-! ### From triples to plain statements about outcomes -/

def outcome {α} (Qok : α → St → Prop) (Qerr : Err → St → Prop) : Option (Except Err α × St) → Prop
  | none => True
  | some (.ok a, s') => Qok a s'
  | some (.error e, s') => Qerr e s'

theorem wp_M {α} (x : M α) (Qok : α → St → Prop) (Qerr : Err → St → Prop) (st : St) :
    (wp⟦x⟧ (⟨fun a st => ⌜Qok a st⌝, fun e st => ⌜Qerr e st⌝, fun _ => ⌜True⌝, ()⟩ : PostCond α PS) st).down ↔
      outcome Qok Qerr (x st) := by
  cases h : x st with
  | none =>
    simp only [outcome, iff_true]
    simp only [wp, PredTrans.apply, PredTrans.pushExcept, PredTrans.pushArg, ExceptT.run, StateT.run, h]
    exact True.intro
  | some p =>
    obtain ⟨r, s'⟩ := p
    simp only [outcome]
    simp only [wp, PredTrans.apply, PredTrans.pushExcept, PredTrans.pushArg, ExceptT.run, StateT.run, h]
    cases r <;> exact Iff.rfl

theorem sem_of_triple {α} {x : M α} {P : St → Prop} {Qok : α → St → Prop} {Qerr : Err → St → Prop}
    (h : ⦃fun st => ⌜P st⌝⦄ x ⦃(⟨fun a st => ⌜Qok a st⌝, fun e st => ⌜Qerr e st⌝, fun _ => ⌜True⌝, ()⟩ : PostCond α PS)⦄)
    (st : St) (hp : P st) : outcome Qok Qerr (x st) :=
  (wp_M x Qok Qerr st).1 (h st hp)

theorem triple_of_sem {α} {x : M α} {P : St → Prop} {Qok : α → St → Prop} {Qerr : Err → St → Prop}
    (h : ∀ st, P st → outcome Qok Qerr (x st)) :
    ⦃fun st => ⌜P st⌝⦄ x ⦃(⟨fun a st => ⌜Qok a st⌝, fun e st => ⌜Qerr e st⌝, fun _ => ⌜True⌝, ()⟩ : PostCond α PS)⦄ :=
  fun st hp => (wp_M x Qok Qerr st).2 (h st hp)

/-- prove a `Q` triple in the `Qg` form -/
theorem triple_of_Qg {α} {x : M α} {P : St → Prop} {s : St} {p : α → St → Prop}
    (h : ⦃fun st => ⌜P st⌝⦄ x ⦃Qg s p⦄) : ⦃fun st => ⌜P st⌝⦄ x ⦃Q s p⦄ := by
  have := sem_of_triple (Qok := fun a st => Inv st ∧ S s st ∧ p a st)
    (Qerr := fun e st => (NonPanic e → Inv st) ∧ Good e) h
  refine triple_of_sem (Qok := fun a st => S s st ∧ Inv st ∧ p a st)
    (Qerr := fun e st => Good e ∧ (NonPanic e → Inv st)) ?_
  intro st hp
  have h1 := this st hp
  cases hx : x st with
  | none => trivial
  | some r =>
    obtain ⟨r, s'⟩ := r
    rw [hx] at h1
    cases r with
    | ok a => exact ⟨h1.2.1, h1.1, h1.2.2⟩
    | error e => exact ⟨h1.2, h1.1⟩

theorem bottom_spec {α} (P : St → Prop) (Qok : α → St → Prop) (Qerr : Err → St → Prop) :
    ⦃fun st => ⌜P st⌝⦄ (bottom : M α)
      ⦃(⟨fun a st => ⌜Qok a st⌝, fun e st => ⌜Qerr e st⌝, fun _ => ⌜True⌝, ()⟩ : PostCond α PS)⦄ :=
  triple_of_sem (fun st _ => by simp [bottom, outcome, ExceptT.mk])

/-! ### The invariant under store updates -/

theorem Inv.of_eq {a b : St} (h : Inv a) (he : b.envs = a.envs)
    (ht : b.thunks = a.thunks) (hf : b.funcs = a.funcs) (ho : b.objs = a.objs) : Inv b :=
  ⟨by rw [he]; exact h.wf,
   ⟨fun t x hx => by rw [he]; rw [ht] at hx; exact h.g.thunks t x hx,
    fun f fn hx => by rw [he]; rw [hf] at hx; exact h.g.funcs f fn hx,
    fun o ob hx => by rw [he]; rw [ho] at hx; exact h.g.objs o ob hx⟩,
   fun o ob hx => by rw [ho] at hx; exact h.shape o ob hx⟩

theorem getElem?_push_cases {α} {a : Array α} {x y : α} {i : Nat} (h : (a.push x)[i]? = some y) :
    a[i]? = some y ∨ (i = a.size ∧ y = x) := by
  rw [Array.getElem?_push] at h
  split at h
  · right; exact ⟨‹_›, by cases h; rfl⟩
  · left; exact h

theorem getElem?_set_cases {α} {a : Array α} {x y : α} {i j : Nat} (h : (a.setIfInBounds j x)[i]? = some y) :
    a[i]? = some y ∨ (i = j ∧ y = x) := by
  rw [Array.getElem?_setIfInBounds] at h
  split at h
  · split at h
    · right; exact ⟨by omega, by cases h; rfl⟩
    · cases h
  · left; exact h

theorem Inv.pushThunk {s : St} (h : Inv s) {x : TState}
    (hx : TStateOk (EnvOk s.envs) x) :
    Inv { s with thunks := s.thunks.push x, runs := s.runs.push 0 } :=
  ⟨h.wf,
   ⟨fun t y hy => by
      rcases getElem?_push_cases hy with hy | ⟨_, rfl⟩
      · exact h.g.thunks t y hy
      · exact hx,
    h.g.funcs, h.g.objs⟩, h.shape⟩

theorem Inv.setThunk {s : St} (h : Inv s) {x : TState} (t : Nat)
    (hx : TStateOk (EnvOk s.envs) x) (runs : Array Nat) :
    Inv { s with thunks := s.thunks.setIfInBounds t x, runs := runs } :=
  ⟨h.wf,
   ⟨fun u y hy => by
      rcases getElem?_set_cases hy with hy | ⟨_, rfl⟩
      · exact h.g.thunks u y hy
      · exact hx,
    h.g.funcs, h.g.objs⟩, h.shape⟩

theorem Inv.pushFunc {s : St} (h : Inv s) {fn : Func}
    (hx : FuncOk (EnvOk s.envs) fn) :
    Inv { s with funcs := s.funcs.push fn } :=
  ⟨h.wf,
   ⟨h.g.thunks,
    fun t y hy => by
      rcases getElem?_push_cases hy with hy | ⟨_, rfl⟩
      · exact h.g.funcs t y hy
      · exact hx,
    h.g.objs⟩, h.shape⟩

theorem S.pushFunc (s : St) (fn : Func) : S s { s with funcs := s.funcs.push fn } :=
  ⟨fun _ _ h => h,
   fun f x hx => by
    have := lt_size_of_getElem? hx
    simpa [Array.getElem?_push, Nat.ne_of_lt this] using hx,
   fun _ ob h => ⟨ob, h, rfl⟩⟩

theorem Inv.pushObj {s : St} (h : Inv s) {ob : Obj}
    (hx : ∀ layer ∈ ob.layers, LayerOk (EnvOk s.envs) layer ∧ LayerShape layer) :
    Inv { s with objs := s.objs.push ob } :=
  ⟨h.wf,
   ⟨h.g.thunks, h.g.funcs,
    fun t y hy => by
      rcases getElem?_push_cases hy with hy | ⟨_, rfl⟩
      · exact h.g.objs t y hy
      · exact fun l hl => (hx l hl).1⟩,
   fun t y hy => by
      rcases getElem?_push_cases hy with hy | ⟨_, rfl⟩
      · exact h.shape t y hy
      · exact fun l hl => (hx l hl).2⟩

theorem S.pushObj (s : St) (ob : Obj) : S s { s with objs := s.objs.push ob } :=
  ⟨fun _ _ h => h, fun _ _ h => h,
   fun o x hx => by
    have := lt_size_of_getElem? hx
    exact ⟨x, by simpa [Array.getElem?_push, Nat.ne_of_lt this] using hx, rfl⟩⟩

theorem Inv.setObj {s : St} (h : Inv s) {ob : Obj} (o : Nat)
    (hx : ∀ layer ∈ ob.layers, LayerOk (EnvOk s.envs) layer ∧ LayerShape layer) :
    Inv { s with objs := s.objs.setIfInBounds o ob } :=
  ⟨h.wf,
   ⟨h.g.thunks, h.g.funcs,
    fun t y hy => by
      rcases getElem?_set_cases hy with hy | ⟨_, rfl⟩
      · exact h.g.objs t y hy
      · exact fun l hl => (hx l hl).1⟩,
   fun t y hy => by
      rcases getElem?_set_cases hy with hy | ⟨_, rfl⟩
      · exact h.shape t y hy
      · exact fun l hl => (hx l hl).2⟩

theorem S.setObj (s : St) (o : Nat) (ob : Obj)
    (hst : ∀ old, s.objs[o]? = some old → ob.layers.map staticLayer = old.layers.map staticLayer) :
    S s { s with objs := s.objs.setIfInBounds o ob } :=
  ⟨fun _ _ h => h, fun _ _ h => h,
   fun i x hx => by
    have hlt := lt_size_of_getElem? hx
    by_cases hi : i = o
    · subst hi
      exact ⟨ob, by simp [hlt], hst x hx⟩
    · exact ⟨x, by simpa [Array.getElem?_setIfInBounds, Ne.symm hi] using hx, rfl⟩⟩

/-- a new environment whose parent exists -/
theorem Inv.pushEnv {s : St} (h : Inv s) (env : Env)
    (hp : ∀ p, env.parent = some p → p < s.envs.size) :
    Inv { s with envs := s.envs.push env } :=
  ⟨fun e x p hx hpar => by
      rcases getElem?_push_cases hx with hx | ⟨rfl, rfl⟩
      · exact h.wf e x p hx hpar
      · exact hp p hpar,
   ⟨fun t x hx => (h.g.thunks t x hx).mono (fun e Γ hk => EnvOk.push hk env),
    fun t x hx => (h.g.funcs t x hx).mono (fun e Γ hk => EnvOk.push hk env),
    fun t x hx l hl => (h.g.objs t x hx l hl).mono (fun e Γ hk => EnvOk.push hk env)⟩,
   h.shape⟩

theorem S.pushEnv (s : St) (env : Env) : S s { s with envs := s.envs.push env } :=
  ⟨fun _ _ h => h.push env, fun _ _ h => h, fun _ ob h => ⟨ob, h, rfl⟩⟩

/-! ### Primitives -/

theorem getThunk_spec (s : St) (t : TId) :
    ⦃fun st => ⌜st = s⌝⦄ getThunk t ⦃Qro s (fun r => s.thunks[t]? = some r)⦄ := by
  unfold getThunk; mvcgen
  all_goals (vcprep; simp_all)

/-- reading an environment that exists -/
theorem getEnv_spec (s : St) (e : EId) (h : e < s.envs.size) :
    ⦃fun st => ⌜st = s⌝⦄ getEnv e ⦃Qro s (fun r => s.envs[e]? = some r)⦄ := by
  unfold getEnv; mvcgen
  all_goals vcprep
  all_goals first
    | (simp_all; done)
    | (rename_i hn; simp [Array.getElem?_eq_getElem h] at hn)

theorem getObj_spec (s : St) (o : OId) :
    ⦃fun st => ⌜st = s⌝⦄ getObj o ⦃Qro s (fun r => s.objs[o]? = some r)⦄ := by
  unfold getObj; mvcgen
  all_goals (vcprep; simp_all)

theorem getFunc_spec (s : St) (f : FId) :
    ⦃fun st => ⌜st = s⌝⦄ getFunc f ⦃Qro s (fun r => s.funcs[f]? = some r)⦄ := by
  unfold getFunc; mvcgen
  all_goals (vcprep; simp_all)

theorem checkDepth_spec (s : St) (cfg : Cfg) (d : Nat) :
    ⦃fun st => ⌜st = s⌝⦄ checkDepth cfg d ⦃Qro s (fun _ => True)⦄ := by
  unfold checkDepth; mvcgen
  all_goals (vcprep; simp_all)

theorem checkNum_spec (s : St) (f : Float) :
    ⦃fun st => ⌜st = s⌝⦄ checkNum f ⦃Qro s (fun _ => True)⦄ := by
  unfold checkNum; mvcgen
  all_goals (vcprep; simp_all)

theorem safeInt_spec (s : St) (f : Float) :
    ⦃fun st => ⌜st = s⌝⦄ safeInt f ⦃Qro s (fun _ => True)⦄ := by
  unfold safeInt; mvcgen
  all_goals (vcprep; simp_all)

theorem numText_spec (s : St) (f : Float) :
    ⦃fun st => ⌜st = s⌝⦄ numText f ⦃Qro s (fun _ => True)⦄ := by
  unfold numText; mvcgen
  all_goals (vcprep; simp_all)

theorem sliceNum_spec (s : St) (v : Value) :
    ⦃fun st => ⌜st = s⌝⦄ sliceNum v ⦃Qro s (fun _ => True)⦄ := by
  unfold sliceNum; mvcgen
  all_goals (vcprep; simp_all)

theorem sliceRange_spec (s : St) (len : Nat) (a b c : Option Float) :
    ⦃fun st => ⌜st = s⌝⦄ sliceRange len a b c ⦃Qro s (fun _ => True)⦄ := by
  unfold sliceRange; mvcgen
  all_goals (vcprep; simp_all)

/-- the variable is found when it is bound in the static sense -/
theorem getVar_spec (s : St) (e : EId) (n : String) (wf : EnvsWf s.envs) (hb : Bound s.envs e n) :
    ⦃fun st => ⌜st = s⌝⦄ getVar e n ⦃Qro s (fun _ => True)⦄ := by
  unfold getVar; mvcgen
  all_goals vcprep
  all_goals first
    | (simp; done)
    | (rename_i hnone
       obtain ⟨t, ht⟩ := lookupVar_of_bound wf hb (_ + 1) (Nat.lt_succ_of_lt hb.lt_size)
       rw [ht] at hnone; cases hnone)

/-- the object reference is there when the static view says "inside an object" -/
theorem getObjRef_spec (s : St) (e : EId) (ho : IsObjEnv s.envs e) :
    ⦃fun st => ⌜st = s⌝⦄ getObjRef e ⦃Qro s (fun _ => True)⦄ := by
  have h1 := getEnv_spec
  unfold getObjRef; mvcgen [h1]
  all_goals clear h1
  all_goals vcprep
  all_goals first
    | (obtain ⟨env, g1, g2⟩ := ho; exact lt_size_of_getElem? g1)
    | (simp; done)
    | (obtain ⟨env, g1, g2⟩ := ho; simp_all; done)
    | (simp_all; done)

theorem allocThunk_spec (s : St) (x : TState) (hI : Inv s)
    (hx : TStateOk (EnvOk s.envs) x) :
    ⦃fun st => ⌜st = s⌝⦄ allocThunk x
      ⦃Q s (fun _ st => st.envs = s.envs ∧ st.objs = s.objs ∧ st.funcs = s.funcs)⦄ := by
  unfold allocThunk; mvcgen
  vcprep
  exact ⟨S.of_eq rfl rfl rfl, hI.pushThunk hx, rfl, rfl, rfl⟩

theorem allocFunc_spec (s : St) (fn : Func) (hI : Inv s)
    (hx : FuncOk (EnvOk s.envs) fn) :
    ⦃fun st => ⌜st = s⌝⦄ allocFunc fn
      ⦃Q s (fun _ st => st.envs = s.envs ∧ st.objs = s.objs)⦄ := by
  unfold allocFunc; mvcgen
  vcprep
  exact ⟨S.pushFunc _ _, hI.pushFunc hx, rfl, rfl⟩

theorem allocObj_spec (s : St) (ob : Obj) (hI : Inv s)
    (hx : ∀ layer ∈ ob.layers, LayerOk (EnvOk s.envs) layer ∧ LayerShape layer) :
    ⦃fun st => ⌜st = s⌝⦄ allocObj ob ⦃Q s (fun _ _ => True)⦄ := by
  unfold allocObj; mvcgen
  vcprep
  exact ⟨S.pushObj _ _, hI.pushObj hx, trivial⟩

theorem setObj_spec (s : St) (o : OId) (ob : Obj) (hI : Inv s)
    (hx : ∀ layer ∈ ob.layers, LayerOk (EnvOk s.envs) layer ∧ LayerShape layer)
    (hst : ∀ old, s.objs[o]? = some old → ob.layers.map staticLayer = old.layers.map staticLayer) :
    ⦃fun st => ⌜st = s⌝⦄ setObj o ob
      ⦃Q s (fun _ st => ∀ old, s.objs[o]? = some old → st.objs[o]? = some ob)⦄ := by
  unfold setObj; mvcgen
  vcprep
  refine ⟨S.setObj _ _ _ hst, hI.setObj o hx, ?_⟩
  intro old hold
  have := lt_size_of_getElem? hold
  show (Array.setIfInBounds _ o ob)[o]? = some ob
  simp [this]

theorem pushTrace_spec (s : St) (m : String) (hI : Inv s) :
    ⦃fun st => ⌜st = s⌝⦄ pushTrace m ⦃Q s (fun _ _ => True)⦄ := by
  unfold pushTrace; mvcgen
  vcprep
  exact ⟨S.of_eq rfl rfl rfl, hI.of_eq rfl rfl rfl rfl, trivial⟩

theorem noteDepth_spec (s : St) (d : Nat) (hI : Inv s) :
    ⦃fun st => ⌜st = s⌝⦄ noteDepth d ⦃Q s (fun _ _ => True)⦄ := by
  unfold noteDepth; mvcgen
  vcprep
  exact ⟨S.of_eq rfl rfl rfl, hI.of_eq rfl rfl rfl rfl, trivial⟩

/-- `switch_state`: the computation handed out is well scoped -/
theorem switchState_spec (s : St) (t : TId) (hI : Inv s) :
    ⦃fun st => ⌜st = s⌝⦄ switchState t
      ⦃Q s (fun r st => ∀ p, r = .pending p → PendOk (EnvOk st.envs) p)⦄ := by
  unfold switchState; mvcgen
  all_goals vcprep
  · rename_i p hp
    refine ⟨S.of_eq rfl rfl rfl, hI.setThunk (x := .inProgress p) t (hI.g.thunks t (.pending p) hp) _, ?_⟩
    intro q hq; cases hq
    exact hI.g.thunks t _ hp
  · rename_i hne hx
    exact ⟨S.refl _, hI, fun q hq => (hne q hq).elim⟩
  · simp [Good, NonPanic]

theorem finishThunk_spec (s : St) (t : TId) (v : Value) (hI : Inv s) :
    ⦃fun st => ⌜st = s⌝⦄ finishThunk t v ⦃Q s (fun _ _ => True)⦄ := by
  unfold finishThunk; mvcgen
  all_goals vcprep
  · exact ⟨S.of_eq rfl rfl rfl, hI.setThunk (x := .done v) t trivial _, trivial⟩
  · simp [Good, NonPanic]

/-! ### New thunks and environments -/

/-- exact effect of an environment allocation -/
theorem allocEnv_exact (s : St) (x : Env) :
    ⦃fun st => ⌜st = s⌝⦄ allocEnv x
      ⦃(⟨fun r st => ⌜st = { s with envs := s.envs.push x } ∧ r = s.envs.size⌝, fun _ _ => ⌜False⌝,
         fun _ => ⌜True⌝, ()⟩ : PostCond EId PS)⦄ := by
  unfold allocEnv; mvcgen
  all_goals vcprep
  all_goals exact ⟨rfl, rfl⟩

theorem setEnv_exact (s : St) (e : EId) (v : Env) :
    ⦃fun st => ⌜st = s⌝⦄ setEnv e v
      ⦃(⟨fun _ st => ⌜st = { s with envs := s.envs.setIfInBounds e v }⌝, fun _ _ => ⌜False⌝,
         fun _ => ⌜True⌝, ()⟩ : PostCond Unit PS)⦄ := by
  unfold setEnv; mvcgen
  vcprep
  rfl

theorem Ext.pushThunk (h : EId) (PL : Expr → Prop) (s : St) (x : TState)
    (hx : (∃ v, x = .done v) ∨ (∃ e, PL e ∧ x = .pending (.expr e h))) :
    Ext h PL s { s with thunks := s.thunks.push x, runs := s.runs.push 0 } :=
  ⟨rfl, rfl,
   fun t y hy => by
    rcases getElem?_push_cases hy with hy | ⟨_, rfl⟩
    · exact .inl hy
    · exact .inr hx,
   fun _ _ hf => .inl hf, fun _ _ hf => hf⟩

theorem Ext.pushFunc (h : EId) (PL : Expr → Prop) (s : St) (e : Expr) (ps : Params) (body : Expr)
    (he : PL e) (hs : stripParen e = .func ps body) :
    Ext h PL s { s with funcs := s.funcs.push { params := paramsList ps, body := body, env := h } } :=
  ⟨rfl, rfl, fun _ _ hx => .inl hx,
   fun f fn hf => by
    rcases getElem?_push_cases hf with hf | ⟨_, rfl⟩
    · exact .inl hf
    · exact .inr ⟨e, ps, body, he, hs, rfl⟩,
   fun f fn hf => by
    have := lt_size_of_getElem? hf
    simpa [Array.getElem?_push, Nat.ne_of_lt this] using hf⟩

/-- `new_pending_expr_thunk` inside a block: a finished thunk, a thunk suspended in `env`, or a
    closure over `env` -/
theorem newThunk_ext (PL : Expr → Prop) (s : St) (e : Expr) (env : EId) (he : PL e) :
    ⦃fun st => ⌜st = s⌝⦄ newThunk e env ⦃Qx env PL s (fun _ => True)⦄ := by
  unfold newThunk allocFunc allocThunk
  mvcgen
  all_goals vcprep
  · exact ⟨(Ext.pushFunc env PL _ e _ _ he (by assumption)).trans (Ext.pushThunk env PL _ _ (.inl ⟨_, rfl⟩)), trivial⟩
  · exact ⟨Ext.pushThunk env PL _ _ (.inl ⟨_, rfl⟩), trivial⟩
  · exact ⟨Ext.pushThunk env PL _ _ (.inr ⟨e, he, rfl⟩), trivial⟩

/-- `new_pending_expr_thunk` of a well-scoped expression -/
theorem newThunk_spec (s : St) (e : Expr) (env : EId) (hI : Inv s)
    (hk : ∃ Γ, EnvOk s.envs env Γ ∧ WS e Γ) :
    ⦃fun st => ⌜st = s⌝⦄ newThunk e env ⦃Q s (fun _ _ => True)⦄ := by
  obtain ⟨Γ, hΓ, hw⟩ := hk
  have h1 := allocFunc_spec
  have h2 := allocThunk_spec
  unfold newThunk
  mvcgen [h1, h2]
  all_goals clear h1 h2
  all_goals vcprep
  all_goals first
    | assumption
    | trivial
    | (have hw' := WS_stripParen e Γ hw
       rw [show stripParen e = Expr.func _ _ by assumption] at hw'
       exact ⟨Γ, hΓ, WS_func hw'⟩)
    | exact ⟨Γ, hΓ, hw⟩
    | (refine ⟨by schain, by assumption, trivial⟩)
    | (refine ⟨by assumption, fun _ => by assumption⟩)

/-- `ThunkEnvData::new(parent)` with variables: the static view of the child from the static view
    of the parent -/
theorem newEnv_spec (s : St) (p : EId) (vars : List (String × TId)) (hI : Inv s)
    (hp : p < s.envs.size) :
    ⦃fun st => ⌜st = s⌝⦄ newEnv (some p) vars
      ⦃Q s (fun r st => ∀ Γ Γ', EnvOk st.envs p Γ → (Γ'.isObj = true → Γ.isObj = true) →
          (∀ n, Γ'.has n = true → n ∈ vars.map Prod.fst ∨ Γ.has n = true) → EnvOk st.envs r Γ')⦄ := by
  have h1 := getEnv_spec
  unfold newEnv allocEnv
  mvcgen [h1]
  all_goals clear h1
  all_goals vcprep
  all_goals first
    | exact hp
    | (rename_i penv _ hp'
       have hlt := lt_size_of_getElem? hp'
       refine ⟨S.pushEnv _ _, hI.pushEnv _ (by intro q hq; cases hq; exact hlt), ?_⟩
       intro Γ Γ' hΓ hio hv
       exact envOk_child (env := { parent := some p, vars := vars, obj := penv.obj }) (penv := penv)
         (by simp) rfl (by simp [Array.getElem?_push, Nat.ne_of_lt hlt, hp']) (fun h => h) hΓ hio hv)
    | exact ⟨by assumption, fun _ => hI⟩

/-! ### The recursive calls -/

/-- an expression is evaluated in an environment in whose static view it is well scoped -/
def TaskOk (envs : Array Env) : Task → Prop
  | .eval e env _ _ => ∃ Γ, EnvOk envs env Γ ∧ WS e Γ
  | _ => True

theorem taskOk_eval {a b : St} {env : EId} {Γ : AEnv} {e : Expr} {tail : Bool} {d : Nat}
    (hk : EnvOk a.envs env Γ) (hs : S a b) (hw : WS e Γ) : TaskOk b.envs (.eval e env tail d) :=
  ⟨Γ, hs.env _ _ hk, hw⟩

theorem inRange_of {a b : St} {e : EId} {Γ : AEnv} (hk : EnvOk a.envs e Γ) (hS : S a b) :
    e < b.envs.size := (hS.env _ _ hk).inRange

/-- the environment of a stored closure exists -/
theorem func_env_lt {s0 st : St} {f : Nat} {fn : Func} (hf0 : s0.funcs[f]? = some fn) (hS : S s0 st)
    (hI : Inv st) : fn.env < st.envs.size := by
  obtain ⟨Γ, h1, _⟩ := hI.g.funcs f fn (hS.funcs _ _ hf0)
  exact h1.inRange

/-- what is assumed of the recursive-call function, and proved of `step` -/
abbrev RecOk (rec : Task → M Value) : Prop :=
  ∀ (t : Task) (s : St), Inv s → TaskOk s.envs t → ⦃fun st => ⌜st = s⌝⦄ rec t ⦃Q s (fun _ _ => True)⦄

syntax "sclose" : tactic
macro_rules
  | `(tactic| sclose) => `(tactic| first
    | rfl
    | assumption
    | trivial
    | schain
    | contradiction
    | (simp [Good, NonPanic]; done)
    | (apply taskOk_eval <;> first | assumption | schain)
    | (apply inRange_of <;> first | assumption | schain)
    | (intro _; sclose)
    | (refine ⟨?_, ?_⟩ <;> sclose))

/-- fail (with an exception, not a logged error) unless all goals are closed -/
macro "fin" : tactic => `(tactic| first | done | fail)

/-- start of a proof by `mvcgen`: the goal in `Qg` form -/
macro "qstart" : tactic => `(tactic| apply triple_of_Qg)

end Rsj.Eval.Scope
