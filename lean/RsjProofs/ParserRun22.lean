/-
  C15 print/parse, part 22: every tree the parser produces is in the second fragment —
  part 1: parameter lists, arguments, binds, assertions, comprehension specs, fields and object
  bodies.  (`Ok m Q`: if `m` succeeds, `Q` holds of its value.)
-/
import RsjProofs.ParserRun21
import RsjProofs.ParserSpans2
namespace Rsj.Parser
variable {toks : List Token}

theorem Ok.triv {α : Type} (m : Except (Err toks) (α × PState toks)) : Ok m (fun _ _ => True) :=
  fun _ _ _ => trivial

/-! ### "all expressions inside are in the fragment" for the auxiliary syntactic classes -/

def GOpt (o : Option Expr) : Prop := ∀ x ∈ optL o, Frag2 x
def GParams (ps : List Param) : Prop := ∀ x ∈ paramsExprs ps, Frag2 x
def GBind (b : Bind) : Prop := BindWF b ∧ ∀ x ∈ b.exprs, Frag2 x
def GBinds (bs : List Bind) : Prop := ∀ b ∈ bs, GBind b
def GAssert (a : Assert) : Prop := ∀ x ∈ a.exprs, Frag2 x
def GFieldName (n : FieldName) : Prop := ∀ x ∈ n.exprs, Frag2 x
def GField (f : Field) : Prop := ∀ x ∈ f.exprs, Frag2 x
def GMember (m : Member) : Prop := MemberWF m ∧ ∀ x ∈ m.exprs, Frag2 x
def GMembers (ms : List Member) : Prop := ∀ m ∈ ms, GMember m
def GObj (o : ObjInside) : Prop := ObjWF o ∧ ∀ x ∈ o.exprs, Frag2 x
def GArgs (args : List Arg) : Prop := ∀ a ∈ args, Frag2 a.expr
def GSpecs (ss : List CompSpec) : Prop := ∀ s ∈ ss, Frag2 s.expr
def GExprs (es : List Expr) : Prop := ∀ x ∈ es, Frag2 x

/-- `pe` only returns trees of the fragment -/
def PeG (pe : PState toks → Except (Err toks) (Expr × PState toks)) : Prop :=
  ∀ st, Ok (pe st) (fun e _ => Frag2 e)

theorem Frag2.mk' (e : Expr) (hwf : NodeWF e) (hs : ∀ x ∈ skids e, Frag2 x) (hp : ∀ x ∈ pkids e, Frag2 x) :
    Frag2 e := Br2.mk e hwf hs hp (fun _ _ => trivial)

theorem GParams.append {acc : List Param} (h : GParams acc) {name : Ident} {d : Option Expr} (hd : GOpt d) :
    GParams (acc ++ [Param.mk name d]) := by
  intro x hx
  simp only [paramsExprs, List.flatMap_append, List.mem_append, List.flatMap_cons, List.flatMap_nil,
    List.append_nil, Param.dflt] at hx
  rcases hx with hx | hx
  · exact h x hx
  · exact hd x hx

theorem GBinds.append {acc : List Bind} (h : GBinds acc) {b : Bind} (hb : GBind b) : GBinds (acc ++ [b]) := by
  intro x hx
  simp only [List.mem_append, List.mem_singleton] at hx
  rcases hx with hx | rfl
  · exact h x hx
  · exact hb

theorem GMembers.append {acc : List Member} (h : GMembers acc) {m : Member} (hm : GMember m) :
    GMembers (acc ++ [m]) := by
  intro x hx
  simp only [List.mem_append, List.mem_singleton] at hx
  rcases hx with hx | rfl
  · exact h x hx
  · exact hm

theorem GArgs.append {acc : List Arg} (h : GArgs acc) {a : Arg} (ha : Frag2 a.expr) : GArgs (acc ++ [a]) := by
  intro x hx
  simp only [List.mem_append, List.mem_singleton] at hx
  rcases hx with hx | rfl
  · exact h x hx
  · exact ha

theorem GSpecs.append {acc : List CompSpec} (h : GSpecs acc) {s : CompSpec} (hs : Frag2 s.expr) :
    GSpecs (acc ++ [s]) := by
  intro x hx
  simp only [List.mem_append, List.mem_singleton] at hx
  rcases hx with hx | rfl
  · exact h x hx
  · exact hs

theorem GExprs.append {acc : List Expr} (h : GExprs acc) {e : Expr} (he : Frag2 e) : GExprs (acc ++ [e]) := by
  intro x hx
  simp only [List.mem_append, List.mem_singleton] at hx
  rcases hx with hx | rfl
  · exact h x hx
  · exact he

theorem GOpt.none : GOpt none := by intro x hx; simp [optL] at hx
theorem GOpt.some {e : Expr} (h : Frag2 e) : GOpt (some e) := by
  intro x hx; simp only [optL, List.mem_singleton] at hx; rw [hx]; exact h

section
variable {pe : PState toks → Except (Err toks) (Expr × PState toks)} (hpe : PeG pe)
include hpe

theorem g_paramsLoop : ∀ (fuel : Nat) (acc : List Param) (st : PState toks), GParams acc →
    Ok (paramsLoop pe fuel acc st) (fun r _ => GParams r.1) := by
  intro fuel
  induction fuel with
  | zero => intro acc st _; exact Ok.error
  | succ fuel ih =>
    intro acc st hacc
    unfold paramsLoop
    refine Ok.bind (Ok.triv _) ?_
    intro name st1 _
    dsimp only
    refine Ok.bind (Ok.triv _) ?_
    intro eq st2 _
    dsimp only
    refine Ok.bind (P := fun d _ => GOpt d) ?_ ?_
    · cases eq with
      | some sp =>
        dsimp only
        refine Ok.bind (hpe st2) ?_
        intro d st3 h3
        exact Ok.pure (GOpt.some h3)
      | none => exact Ok.pure GOpt.none
    · intro dflt st3 hd
      dsimp only
      have hacc' : GParams (acc ++ [Param.mk name dflt]) := hacc.append hd
      refine Ok.bind (Ok.triv _) ?_
      intro r st4 _
      cases r with
      | some endSp => exact Ok.pure hacc'
      | none =>
        dsimp only
        refine Ok.bind (Ok.triv _) ?_
        intro c st5 _
        cases c with
        | none => exact Ok.error
        | some _ =>
          dsimp only
          refine Ok.bind (Ok.triv _) ?_
          intro r2 st6 _
          cases r2 with
          | some endSp => exact Ok.pure hacc'
          | none => exact ih _ st6 hacc'

theorem g_parseParams (fuel : Nat) (st : PState toks) :
    Ok (parseParams pe fuel st) (fun r _ => GParams r.1) := by
  unfold parseParams
  refine Ok.bind (Ok.triv _) ?_
  intro r st1 _
  cases r with
  | some endSp => exact Ok.pure (by intro x hx; simp [paramsExprs] at hx)
  | none => exact g_paramsLoop hpe fuel [] st1 (by intro x hx; simp [paramsExprs] at hx)

theorem g_parseArg (st : PState toks) : Ok (parseArg pe st) (fun a _ => Frag2 a.expr) := by
  unfold parseArg
  split
  · refine Ok.bind (Ok.triv _) ?_
    intro name st1 _
    cases name with
    | none => exact Ok.error
    | some name =>
      dsimp only
      refine Ok.bind (Ok.triv _) ?_
      intro eq st2 _
      cases eq with
      | none => exact Ok.error
      | some _ =>
        dsimp only
        refine Ok.bind (hpe st2) ?_
        intro v st3 h3
        exact Ok.pure h3
  · refine Ok.bind (hpe st) ?_
    intro v st1 h1
    exact Ok.pure h1

theorem g_argsLoop : ∀ (fuel : Nat) (acc : List Arg) (st : PState toks), GArgs acc →
    Ok (argsLoop pe fuel acc st) (fun r _ => GArgs r.1) := by
  intro fuel
  induction fuel with
  | zero => intro acc st _; exact Ok.error
  | succ fuel ih =>
    intro acc st hacc
    unfold argsLoop
    refine Ok.bind (g_parseArg hpe st) ?_
    intro a st1 ha
    dsimp only
    have hacc' : GArgs (acc ++ [a]) := hacc.append ha
    refine Ok.bind (Ok.triv _) ?_
    intro r st2 _
    cases r with
    | some endSp => exact Ok.pure hacc'
    | none =>
      dsimp only
      refine Ok.bind (Ok.triv _) ?_
      intro c st3 _
      cases c with
      | none => exact Ok.error
      | some _ =>
        dsimp only
        refine Ok.bind (Ok.triv _) ?_
        intro r2 st4 _
        cases r2 with
        | some endSp => exact Ok.pure hacc'
        | none => exact ih _ st4 hacc'

theorem g_parseArgs (fuel : Nat) (st : PState toks) : Ok (parseArgs pe fuel st) (fun r _ => GArgs r.1) := by
  unfold parseArgs
  refine Ok.bind (Ok.triv _) ?_
  intro r st1 _
  cases r with
  | some endSp => exact Ok.pure (by intro x hx; cases hx)
  | none => exact g_argsLoop hpe fuel [] st1 (by intro x hx; cases hx)

theorem g_maybeParseAssert (add : Bool) (st : PState toks) :
    Ok (maybeParseAssert pe add st) (fun r _ => ∀ p, r = some p → GAssert p.2) := by
  unfold maybeParseAssert
  refine Ok.bind (Ok.triv _) ?_
  intro r st1 _
  cases r with
  | none => exact Ok.pure (fun p h => by cases h)
  | some startSp =>
    dsimp only
    refine Ok.bind (hpe st1) ?_
    intro cond st2 h2
    dsimp only
    refine Ok.bind (Ok.triv _) ?_
    intro c st3 _
    cases c with
    | some _ =>
      dsimp only
      refine Ok.bind (hpe st3) ?_
      intro msg st4 h4
      refine Ok.pure (fun p h => ?_)
      cases h
      intro x hx
      simp only [Assert.exprs, Assert.cond, Assert.msg, optL, List.mem_cons, List.mem_nil_iff, or_false] at hx
      rcases hx with rfl | rfl
      · exact h2
      · exact h4
    | none =>
      refine Ok.pure (fun p h => ?_)
      cases h
      intro x hx
      simp only [Assert.exprs, Assert.cond, Assert.msg, optL, List.mem_cons, List.mem_nil_iff, or_false] at hx
      rw [hx]; exact h2

theorem g_parseBind (fuel : Nat) (st : PState toks) : Ok (parseBind pe fuel st) (fun b _ => GBind b) := by
  unfold parseBind
  refine Ok.bind (Ok.triv _) ?_
  intro name st1 _
  dsimp only
  refine Ok.bind (Ok.triv _) ?_
  intro lp st2 _
  cases lp with
  | some startSp =>
    dsimp only
    refine Ok.bind (g_parseParams hpe fuel st2) ?_
    intro r st3 h3
    obtain ⟨params, endSp⟩ := r
    dsimp only
    refine Ok.bind (Ok.triv _) ?_
    intro _ st4 _
    dsimp only
    refine Ok.bind (hpe st4) ?_
    intro v st5 h5
    refine Ok.pure (And.intro ?_ ?_)
    · intro hh; cases hh
    intro x hx
    simp only [Bind.exprs, Bind.params, Bind.value, List.mem_append, List.mem_singleton] at hx
    rcases hx with hx | rfl
    · exact h3 x hx
    · exact h5
  | none =>
    dsimp only
    refine Ok.bind (Ok.triv _) ?_
    intro _ st3 _
    dsimp only
    refine Ok.bind (hpe st3) ?_
    intro v st4 h4
    refine Ok.pure (And.intro ?_ ?_)
    · intro _; rfl
    intro x hx
    simp only [Bind.exprs, Bind.params, Bind.value, paramsExprs, List.flatMap_nil, List.nil_append,
      List.mem_singleton] at hx
    rw [hx]; exact h4

theorem g_maybeParseObjLocal (fuel : Nat) (st : PState toks) :
    Ok (maybeParseObjLocal pe fuel st) (fun r _ => ∀ b, r = some b → GBind b) := by
  unfold maybeParseObjLocal
  refine Ok.bind (Ok.triv _) ?_
  intro r st1 _
  cases r with
  | none => exact Ok.pure (fun b h => by cases h)
  | some _ =>
    dsimp only
    refine Ok.bind (g_parseBind hpe fuel st1) ?_
    intro b st2 h2
    exact Ok.pure (fun b' h => by cases h; exact h2)

theorem g_maybeParseForSpec (st : PState toks) :
    Ok (maybeParseForSpec pe st) (fun r _ => ∀ s, r = some s → Frag2 s.expr ∧ ∃ v inner, s = .for_ v inner) := by
  unfold maybeParseForSpec
  refine Ok.bind (Ok.triv _) ?_
  intro r st1 _
  cases r with
  | none => exact Ok.pure (fun s h => by cases h)
  | some _ =>
    dsimp only
    refine Ok.bind (Ok.triv _) ?_
    intro v st2 _
    dsimp only
    refine Ok.bind (Ok.triv _) ?_
    intro _ st3 _
    dsimp only
    refine Ok.bind (hpe st3) ?_
    intro inner st4 h4
    exact Ok.pure (fun s h => by cases h; exact ⟨h4, _, _, rfl⟩)

theorem g_maybeParseIfSpec (st : PState toks) :
    Ok (maybeParseIfSpec pe st) (fun r _ => ∀ s, r = some s → Frag2 s.expr) := by
  unfold maybeParseIfSpec
  refine Ok.bind (Ok.triv _) ?_
  intro r st1 _
  cases r with
  | none => exact Ok.pure (fun s h => by cases h)
  | some _ =>
    dsimp only
    refine Ok.bind (hpe st1) ?_
    intro c st2 h2
    exact Ok.pure (fun s h => by cases h; exact h2)

theorem g_compSpecLoop : ∀ (fuel : Nat) (acc : List CompSpec) (st : PState toks), GSpecs acc →
    Ok (compSpecLoop pe fuel acc st) (fun r _ => GSpecs r ∧ ∃ rest, r = acc ++ rest) := by
  intro fuel
  induction fuel with
  | zero => intro acc st _; exact Ok.error
  | succ fuel ih =>
    intro acc st hacc
    unfold compSpecLoop
    refine Ok.bind (g_maybeParseForSpec hpe st) ?_
    intro f st1 h1
    cases f with
    | some s =>
      dsimp only
      refine Ok.mono (ih (acc ++ [s]) st1 (hacc.append (h1 s rfl).1)) ?_
      intro r _ hr
      obtain ⟨h, rest, hrest⟩ := hr
      exact ⟨h, s :: rest, by rw [hrest]; simp⟩
    | none =>
      dsimp only
      refine Ok.bind (g_maybeParseIfSpec hpe st1) ?_
      intro i st2 h2
      cases i with
      | some s =>
        dsimp only
        refine Ok.mono (ih (acc ++ [s]) st2 (hacc.append (h2 s rfl))) ?_
        intro r _ hr
        obtain ⟨h, rest, hrest⟩ := hr
        exact ⟨h, s :: rest, by rw [hrest]; simp⟩
      | none => exact Ok.pure ⟨hacc, [], by simp⟩

theorem g_maybeParseCompSpec (fuel : Nat) (st : PState toks) :
    Ok (maybeParseCompSpec pe fuel st) (fun r _ => ∀ spec, r = some spec → SpecWF spec ∧ GSpecs spec) := by
  unfold maybeParseCompSpec
  refine Ok.bind (g_maybeParseForSpec hpe st) ?_
  intro f st1 h1
  cases f with
  | none => exact Ok.pure (fun s h => by cases h)
  | some s =>
    dsimp only
    obtain ⟨hs, v, inner, rfl⟩ := h1 s rfl
    refine Ok.bind (g_compSpecLoop hpe fuel [.for_ v inner] st1 (by
      intro x hx; simp only [List.mem_singleton] at hx; rw [hx]; exact hs)) ?_
    intro parts st2 h2
    obtain ⟨hg, rest, hrest⟩ := h2
    exact Ok.pure (fun spec h => by cases h; exact ⟨⟨v, inner, rest, by rw [hrest]; rfl⟩, hg⟩)

theorem g_maybeParseFieldName (st : PState toks) :
    Ok (maybeParseFieldName pe st) (fun r _ => ∀ n, r = some n → GFieldName n) := by
  unfold maybeParseFieldName
  refine Ok.bind (Ok.triv _) ?_
  intro r st1 _
  cases r with
  | some i => exact Ok.pure (fun n h => by cases h; intro x hx; simp [FieldName.exprs] at hx)
  | none =>
  dsimp only
  refine Ok.bind (Ok.triv _) ?_
  intro r st2 _
  cases r with
  | some p => obtain ⟨s, sp⟩ := p; exact Ok.pure (fun n h => by cases h; intro x hx; simp [FieldName.exprs] at hx)
  | none =>
  dsimp only
  refine Ok.bind (Ok.triv _) ?_
  intro r st3 _
  cases r with
  | some p => obtain ⟨s, sp⟩ := p; exact Ok.pure (fun n h => by cases h; intro x hx; simp [FieldName.exprs] at hx)
  | none =>
  dsimp only
  refine Ok.bind (Ok.triv _) ?_
  intro r st4 _
  cases r with
  | none => exact Ok.pure (fun n h => by cases h)
  | some startSp =>
    dsimp only
    refine Ok.bind (hpe st4) ?_
    intro e st5 h5
    dsimp only
    refine Ok.bind (Ok.triv _) ?_
    intro endSp st6 _
    refine Ok.pure (fun n h => ?_)
    cases h
    intro x hx
    simp only [FieldName.exprs, List.mem_singleton] at hx
    rw [hx]; exact h5

theorem g_maybeParseField (fuel : Nat) (st : PState toks) :
    Ok (maybeParseField pe fuel st) (fun r _ => ∀ f, r = some f → GField f) := by
  unfold maybeParseField
  refine Ok.bind (g_maybeParseFieldName hpe st) ?_
  intro n st1 h1
  cases n with
  | none => exact Ok.pure (fun f h => by cases h)
  | some name =>
    have hn := h1 name rfl
    dsimp only
    refine Ok.bind (Ok.triv _) ?_
    intro lp st2 _
    cases lp with
    | some startSp =>
      dsimp only
      refine Ok.bind (g_parseParams hpe fuel st2) ?_
      intro r st3 h3
      obtain ⟨params, endSp⟩ := r
      dsimp only
      refine Ok.bind (Ok.triv _) ?_
      intro vis st4 _
      cases vis with
      | none => exact Ok.error
      | some vis =>
        dsimp only
        refine Ok.bind (hpe st4) ?_
        intro v st5 h5
        refine Ok.pure (fun f h => ?_)
        cases h
        intro x hx
        simp only [Field.exprs, List.mem_append, List.mem_singleton] at hx
        rcases hx with (hx | hx) | rfl
        · exact hn x hx
        · exact h3 x hx
        · exact h5
    | none =>
      dsimp only
      refine Ok.bind (Ok.triv _) ?_
      intro pv st3 _
      cases pv with
      | none => exact Ok.error
      | some p =>
        obtain ⟨plus, vis⟩ := p
        dsimp only
        refine Ok.bind (hpe st3) ?_
        intro v st4 h4
        refine Ok.pure (fun f h => ?_)
        cases h
        intro x hx
        simp only [Field.exprs, List.mem_append, List.mem_singleton] at hx
        rcases hx with hx | rfl
        · exact hn x hx
        · exact h4

omit hpe in
theorem g_makeCompLoop : ∀ (ms : List Member) (l1 : List Bind) (f : Option (Expr × Bool × Expr)) (l2 : List Bind)
    (r : List Bind × Option (Expr × Bool × Expr) × List Bind), GMembers ms → GBinds l1 →
    (∀ p, f = some p → Frag2 p.1 ∧ Frag2 p.2.2) → GBinds l2 → makeCompLoop ms l1 f l2 = .ok r →
    GBinds r.1 ∧ (∀ p, r.2.1 = some p → Frag2 p.1 ∧ Frag2 p.2.2) ∧ GBinds r.2.2
  | [], l1, f, l2, r, _, h1, hf, h2, h => by
    simp only [makeCompLoop] at h
    cases h
    exact ⟨h1, hf, h2⟩
  | .local_ b :: ms, l1, f, l2, r, hms, h1, hf, h2, h => by
    have hb : GBind b := hms (.local_ b) (by simp)
    have hms' : GMembers ms := fun m hm => hms m (by simp [hm])
    simp only [makeCompLoop] at h
    split at h
    · exact g_makeCompLoop ms _ f l2 r hms' (h1.append hb) hf h2 h
    · exact g_makeCompLoop ms l1 f _ r hms' h1 hf (h2.append hb) h
  | .assert_ _ :: _, _, _, _, _, _, _, _, _, h => by simp [makeCompLoop] at h
  | .field fd :: ms, l1, f, l2, r, hms, h1, hf, h2, h => by
    have hfd : GMember (.field fd) := hms _ (by simp)
    have hms' : GMembers ms := fun m hm => hms m (by simp [hm])
    cases fd with
    | func n ps psp vis e => simp [makeCompLoop] at h
    | value n plus vis body =>
      cases n with
      | ident i => simp [makeCompLoop] at h
      | str s sp => simp [makeCompLoop] at h
      | expr name nsp =>
        cases vis with
        | Hidden => simp [makeCompLoop] at h
        | ForceVisible => simp [makeCompLoop] at h
        | Default =>
          simp only [makeCompLoop] at h
          split at h
          · refine g_makeCompLoop ms l1 _ l2 r hms' h1 ?_ h2 h
            intro p hp
            cases hp
            exact ⟨hfd.2 name (by simp [Member.exprs, Field.exprs, FieldName.exprs]),
              hfd.2 body (by simp [Member.exprs, Field.exprs, FieldName.exprs])⟩
          · cases h

omit hpe in
theorem g_makeComp (ms : List Member) (spec : List CompSpec) (o : ObjInside) (hms : GMembers ms)
    (hw : SpecWF spec) (hs : GSpecs spec) (h : makeComp ms spec = .ok o) : GObj o := by
  unfold makeComp at h
  split at h
  · next l1 name plus body l2 heq =>
    cases h
    obtain ⟨g1, gf, g2⟩ := g_makeCompLoop ms [] none [] _ hms (fun b hb => by cases hb) (fun p hp => by cases hp)
      (fun b hb => by cases hb) heq
    obtain ⟨gn, gb⟩ := gf (name, plus, body) rfl
    refine ⟨⟨fun b hb => (g1 b hb).1, fun b hb => (g2 b hb).1, hw⟩, ?_⟩
    intro x hx
    simp only [ObjInside.exprs, bindsExprs, List.mem_append, List.mem_flatMap, List.mem_cons, List.mem_nil_iff,
      or_false, List.mem_map] at hx
    rcases hx with ((⟨b, hb, hxb⟩ | rfl | rfl) | ⟨b, hb, hxb⟩) | ⟨s, hs', rfl⟩
    · exact (g1 b hb).2 x hxb
    · exact gn
    · exact gb
    · exact (g2 b hb).2 x hxb
    · exact hs s hs'
  · cases h
  · cases h

theorem g_objLoop : ∀ (fuel : Nat) (members : List Member) (c h : Bool) (st : PState toks), GMembers members →
    Ok (objLoop pe fuel members c h st) (fun r _ => GObj r.1) := by
  intro fuel
  induction fuel with
  | zero => intro members c h st _; exact Ok.error
  | succ fuel ih =>
    intro members c h st hms
    have done : ∀ ms : List Member, GMembers ms → GObj (.members ms) := by
      intro ms hg
      refine ⟨fun m hm => (hg m hm).1, ?_⟩
      intro x hx
      simp only [ObjInside.exprs, List.mem_flatMap] at hx
      obtain ⟨m, hm, hxm⟩ := hx
      exact (hg m hm).2 x hxm
    unfold objLoop
    refine Ok.bind (g_maybeParseObjLocal hpe fuel st) ?_
    intro ol st1 h1
    dsimp only
    refine Ok.bind (P := fun r _ => GMembers r.1) ?_ ?_
    · cases ol with
      | some b => exact Ok.pure (hms.append (h1 b rfl))
      | none =>
        dsimp only
        refine Ok.bind (g_maybeParseField hpe fuel st1) ?_
        intro fl st2 h2
        cases fl with
        | some f => exact Ok.pure (hms.append ⟨trivial, h2 f rfl⟩)
        | none =>
          dsimp only
          refine Ok.bind (g_maybeParseAssert hpe true st2) ?_
          intro a st3 h3
          cases a with
          | none => exact Ok.error
          | some p =>
            obtain ⟨sp, a⟩ := p
            exact Ok.pure (hms.append ⟨trivial, h3 (sp, a) rfl⟩)
    · intro r st3 hms'
      obtain ⟨members', c', h'⟩ := r
      dsimp only at hms' ⊢
      refine Ok.bind (Ok.triv _) ?_
      intro rb st4 _
      cases rb with
      | some endSp => exact Ok.pure (done _ hms')
      | none =>
        dsimp only
        refine Ok.bind (Ok.triv _) ?_
        intro cm st5 _
        have comp : ∀ (st6 : PState toks) spec, SpecWF spec → GSpecs spec →
            Ok (do
              let (endSp, st) ← expectSimple .RightBrace true st6
              let (o, st) ← liftFault (makeComp members' spec) st
              pure ((o, endSp), st))
              (fun r _ => GObj r.1) := by
          intro st6 spec hw hspec
          refine Ok.bind (Ok.triv _) ?_
          intro endSp st7 _
          dsimp only
          refine Ok.bind (spec_liftFault _ st7) ?_
          intro o st8 h8
          obtain ⟨hmk, rfl⟩ := h8
          exact Ok.pure (g_makeComp members' spec o hms' hw hspec hmk)
        cases cm with
        | some _ =>
          dsimp only
          refine Ok.bind (Ok.triv _) ?_
          intro rb2 st6 _
          cases rb2 with
          | some endSp => exact Ok.pure (done _ hms')
          | none =>
            dsimp only
            split
            · refine Ok.bind (g_maybeParseCompSpec hpe fuel st6) ?_
              intro cs st7 h7
              cases cs with
              | some spec => exact comp st7 spec (h7 spec rfl).1 (h7 spec rfl).2
              | none => exact ih members' c' h' st7 hms'
            · exact ih members' c' h' st6 hms'
        | none =>
          dsimp only
          split
          · refine Ok.bind (g_maybeParseCompSpec hpe fuel st5) ?_
            intro cs st6 h6
            cases cs with
            | some spec => exact comp st6 spec (h6 spec rfl).1 (h6 spec rfl).2
            | none => exact Ok.error
          · exact Ok.error

theorem g_parseObjInside (fuel : Nat) (st : PState toks) :
    Ok (parseObjInside pe fuel st) (fun r _ => GObj r.1) := by
  unfold parseObjInside
  refine Ok.bind (Ok.triv _) ?_
  intro rb st1 _
  cases rb with
  | some endSp =>
    refine Ok.pure (And.intro ?_ ?_)
    · intro m hm; cases hm
    · intro x hx; simp [ObjInside.exprs] at hx
  | none => exact g_objLoop hpe fuel [] true false st1 (fun m hm => by cases hm)

end
end Rsj.Parser
