/-
  Object algebra of the evaluator model, part 2: `cloneField` / `cloneLayer` /
  `extendObject` and `findField`, still without reference to any other model.
-/
import RsjProofs.EvalObjectOrder
set_option linter.unusedSimpArgs false
namespace Rsj.Eval
open Rsj.Core

/-! ### cloning -/

@[simp] theorem cloneField_name (f : Field) : (cloneField f).name = f.name := rfl
@[simp] theorem cloneField_vis (f : Field) : (cloneField f).vis = f.vis := rfl
@[simp] theorem cloneField_baseEnv (f : Field) : (cloneField f).baseEnv = f.baseEnv := rfl
@[simp] theorem cloneField_expr (f : Field) : (cloneField f).expr = f.expr := rfl

theorem cloneField_thunk_of_expr (f : Field) (h : f.expr.isSome) : (cloneField f).thunk = none := by
  cases f with
  | mk n v b e t => cases e with
    | none => simp at h
    | some x => rfl

theorem cloneField_thunk_of_no_expr (f : Field) (h : f.expr = none) : (cloneField f).thunk = f.thunk := by
  cases f with
  | mk n v b e t => simp only at h; subst h; rfl

theorem cloneField_idem (f : Field) : cloneField (cloneField f) = cloneField f := by
  cases f with
  | mk n v b e t => cases e <;> rfl

@[simp] theorem cloneLayer_env (l : Layer) : (cloneLayer l).env = none := rfl
@[simp] theorem cloneLayer_fields (l : Layer) : (cloneLayer l).fields = l.fields.map cloneField := rfl
@[simp] theorem cloneLayer_isTop (l : Layer) : (cloneLayer l).isTop = l.isTop := rfl
@[simp] theorem cloneLayer_locals (l : Layer) : (cloneLayer l).locals = l.locals := rfl
@[simp] theorem cloneLayer_baseEnv (l : Layer) : (cloneLayer l).baseEnv = l.baseEnv := rfl
@[simp] theorem cloneLayer_asserts (l : Layer) : (cloneLayer l).asserts = l.asserts := rfl

theorem cloneLayer_idem (l : Layer) : cloneLayer (cloneLayer l) = cloneLayer l := by
  cases l with
  | mk t lo b e fs as =>
    simp only [cloneLayer, List.map_map]
    congr 1
    apply List.map_congr_left
    intro f _
    exact cloneField_idem f

theorem map_cloneLayer_idem (ls : List Layer) : (ls.map cloneLayer).map cloneLayer = ls.map cloneLayer := by
  rw [List.map_map]
  apply List.map_congr_left
  intro l _
  exact cloneLayer_idem l

@[simp] theorem extendObject_layers (a b : Obj) :
    (extendObject a b).layers = (b.layers ++ a.layers).map cloneLayer := rfl

/-- `extend_object` is associative on the nose: cloning is idempotent. -/
theorem extendObject_assoc (a b c : Obj) :
    extendObject (extendObject a b) c = extendObject a (extendObject b c) := by
  unfold extendObject
  simp only [List.map_append, map_cloneLayer_idem, List.append_assoc]

/-! ### the field sequence of an extension -/

theorem visOf_append (fs gs : List Field) (n : String) : visOf (fs ++ gs) n = visOf fs n ++ visOf gs n := by
  simp [visOf]

theorem visOf_map_cloneField (fs : List Field) (n : String) : visOf (fs.map cloneField) n = visOf fs n := by
  unfold visOf
  rw [List.filter_map, List.map_map]
  rfl

theorem visOf_flatMap_clone (ls : List Layer) (n : String) :
    visOf ((ls.map cloneLayer).flatMap (fun l => l.fields)) n = visOf (ls.flatMap (fun l => l.fields)) n := by
  induction ls with
  | nil => rfl
  | cons l ls ih =>
    simp only [List.map_cons, List.flatMap_cons, visOf_append, ih, cloneLayer_fields, visOf_map_cloneField]

theorem visSeq_extendObject (a b : Obj) (n : String) :
    visSeq (extendObject a b) n = visSeq b n ++ visSeq a n := by
  unfold visSeq allFields
  rw [extendObject_layers, visOf_flatMap_clone, List.flatMap_append, visOf_append]

/-- visibility of a name in `a + b` -/
theorem lookupVis_extendObject (a b : Obj) (n : String) :
    lookupVis (fieldsOrder (extendObject a b)) n =
      mergeVis (lookupVis (fieldsOrder a) n) (lookupVis (fieldsOrder b) n) := by
  simp only [lookupVis_fieldsOrder, visSeq_extendObject, resolveVis_append]

/-! ### `findField` -/

/-- layer indices move up by `k` -/
def shiftF (k : Nat) (r : Option (Nat × Field)) : Option (Nat × Field) :=
  r.map (fun p => (p.1 + k, p.2))

/-- the field found is the clone -/
def cloneF (r : Option (Nat × Field)) : Option (Nat × Field) :=
  r.map (fun p => (p.1, cloneField p.2))

@[simp] theorem shiftF_none (k : Nat) : shiftF k none = none := rfl
@[simp] theorem cloneF_none : cloneF none = none := rfl
@[simp] theorem shiftF_zero (r : Option (Nat × Field)) : shiftF 0 r = r := by
  cases r <;> simp [shiftF]
theorem shiftF_shiftF (a b : Nat) (r : Option (Nat × Field)) : shiftF a (shiftF b r) = shiftF (b + a) r := by
  cases r <;> simp [shiftF, Nat.add_assoc]
theorem shiftF_cloneF (k : Nat) (r : Option (Nat × Field)) : shiftF k (cloneF r) = cloneF (shiftF k r) := by
  cases r <;> simp [shiftF, cloneF]
theorem isSome_shiftF (k : Nat) (r : Option (Nat × Field)) : (shiftF k r).isSome = r.isSome := by
  cases r <;> rfl
theorem isSome_cloneF (r : Option (Nat × Field)) : (cloneF r).isSome = r.isSome := by
  cases r <;> rfl

theorem go_nil (n : String) (i : Nat) : findField.go n [] i = none := rfl

theorem go_cons (n : String) (l : Layer) (ls : List Layer) (i : Nat) :
    findField.go n (l :: ls) i =
      match l.fields.find? (fun f => f.name == n) with
      | some f => some (i, f)
      | none => findField.go n ls (i + 1) := rfl

theorem go_append (n : String) (a b : List Layer) (i : Nat) :
    findField.go n (a ++ b) i =
      (findField.go n a i).orElse (fun _ => findField.go n b (i + a.length)) := by
  induction a generalizing i with
  | nil => simp [go_nil]
  | cons l ls ih =>
    simp only [List.cons_append, go_cons]
    cases l.fields.find? (fun f => f.name == n) with
    | some f => simp
    | none =>
      simp only [ih (i + 1), List.length_cons]
      congr 2
      funext _
      congr 1
      omega

theorem go_shift (n : String) (ls : List Layer) (i k : Nat) :
    findField.go n ls (i + k) = shiftF k (findField.go n ls i) := by
  induction ls generalizing i with
  | nil => rfl
  | cons l ls ih =>
    simp only [go_cons]
    cases l.fields.find? (fun f => f.name == n) with
    | some f => simp [shiftF]
    | none =>
      have : i + k + 1 = i + 1 + k := by omega
      simp only [this, ih (i + 1)]

theorem find_map_cloneField (n : String) (fs : List Field) :
    (fs.map cloneField).find? (fun f => f.name == n) = (fs.find? (fun f => f.name == n)).map cloneField := by
  rw [List.find?_map]
  rfl

theorem go_map_clone (n : String) (ls : List Layer) (i : Nat) :
    findField.go n (ls.map cloneLayer) i = cloneF (findField.go n ls i) := by
  induction ls generalizing i with
  | nil => rfl
  | cons l ls ih =>
    simp only [List.map_cons, go_cons, cloneLayer_fields, find_map_cloneField]
    cases l.fields.find? (fun f => f.name == n) with
    | some f => simp [cloneF]
    | none => simp only [Option.map_none]; exact ih (i + 1)

theorem findField_def (o : Obj) (s : Nat) (n : String) :
    findField o s n = findField.go n (o.layers.drop s) s := rfl

/-- a lookup from layer `i` is a lookup from the top of the layers from `i` on -/
theorem findField_drop (o : Obj) (i : Nat) (n : String) :
    findField o i n = shiftF i (findField { o with layers := o.layers.drop i } 0 n) := by
  simp only [findField_def, List.drop_zero]
  have := go_shift n (o.layers.drop i) 0 i
  simpa using this

theorem findField_oob (o : Obj) (s : Nat) (n : String) (h : o.layers.length ≤ s) : findField o s n = none := by
  rw [findField_def, List.drop_of_length_le h]; rfl

/-- lookups in `a + b` that start inside `b` (or exactly at the first layer of `a`) -/
theorem findField_extendObject_top (a b : Obj) (i : Nat) (n : String) (hi : i ≤ b.layers.length) :
    findField (extendObject a b) i n =
      (cloneF (findField b i n)).orElse
        (fun _ => shiftF b.layers.length (cloneF (findField a 0 n))) := by
  simp only [findField_def, extendObject_layers, List.drop_zero]
  rw [← List.map_drop, List.drop_append_of_le_length hi, go_map_clone, go_append]
  have hl : i + (b.layers.drop i).length = b.layers.length := by simp; omega
  rw [hl]
  have := go_shift n a.layers 0 b.layers.length
  simp only [Nat.zero_add] at this
  rw [this]
  cases findField.go n (b.layers.drop i) i with
  | some r => simp [cloneF]
  | none => simp [shiftF_cloneF]

/-- lookups in `a + b` that start at layer `j` of `a` -/
theorem findField_extendObject_bottom (a b : Obj) (j : Nat) (n : String) :
    findField (extendObject a b) (b.layers.length + j) n =
      shiftF b.layers.length (cloneF (findField a j n)) := by
  simp only [findField_def, extendObject_layers]
  rw [← List.map_drop, List.drop_append, go_map_clone]
  have h1 : b.layers.drop (b.layers.length + j) = [] := List.drop_of_length_le (by omega)
  have h2 : b.layers.length + j - b.layers.length = j := by omega
  rw [h1, h2, List.nil_append, Nat.add_comm, go_shift, shiftF_cloneF]

/-- what `findField` returns: the first layer at index `≥ s` that lists the name, and that
    layer's (first) field of this name -/
theorem findField_some_iff (o : Obj) (s : Nat) (n : String) (li : Nat) (f : Field) :
    findField o s n = some (li, f) ↔
      s ≤ li ∧ (∃ l, o.layers[li]? = some l ∧ l.fields.find? (fun g => g.name == n) = some f) ∧
      ∀ j l, s ≤ j → j < li → o.layers[j]? = some l → l.fields.find? (fun g => g.name == n) = none := by
  rw [findField_def]
  have key : ∀ (ls : List Layer) (i : Nat), findField.go n ls i = some (li, f) ↔
      i ≤ li ∧ (∃ l, ls[li - i]? = some l ∧ l.fields.find? (fun g => g.name == n) = some f) ∧
      ∀ j l, j < li - i → ls[j]? = some l → l.fields.find? (fun g => g.name == n) = none := by
    intro ls
    induction ls with
    | nil => intro i; simp [go_nil]
    | cons l ls ih =>
      intro i
      rw [go_cons]
      cases hf : l.fields.find? (fun g => g.name == n) with
      | some g =>
        simp only [Option.some.injEq, Prod.mk.injEq]
        constructor
        · rintro ⟨rfl, rfl⟩
          refine ⟨Nat.le_refl _, ⟨l, by simp, hf⟩, ?_⟩
          intro j l' hj; omega
        · rintro ⟨h1, ⟨l', hl', hf'⟩, h3⟩
          rcases Nat.eq_or_lt_of_le h1 with e | hlt
          · subst e
            simp only [Nat.sub_self, List.getElem?_cons_zero, Option.some.injEq] at hl'
            subst hl'
            rw [hf] at hf'
            exact ⟨rfl, Option.some.inj hf'⟩
          · have := h3 0 l (by omega) (by simp)
            rw [hf] at this; cases this
      | none =>
        simp only
        rw [ih (i + 1)]
        constructor
        · rintro ⟨h1, ⟨l', hl', hf'⟩, h3⟩
          refine ⟨by omega, ⟨l', ?_, hf'⟩, ?_⟩
          · have : li - i = (li - (i + 1)) + 1 := by omega
            rw [this, List.getElem?_cons_succ]; exact hl'
          · intro j l'' hj hl''
            cases j with
            | zero => simp only [List.getElem?_cons_zero, Option.some.injEq] at hl''; subst hl''; exact hf
            | succ j => rw [List.getElem?_cons_succ] at hl''; exact h3 j l'' (by omega) hl''
        · rintro ⟨h1, ⟨l', hl', hf'⟩, h3⟩
          have hne : i ≠ li := by
            intro e; subst e
            simp only [Nat.sub_self, List.getElem?_cons_zero, Option.some.injEq] at hl'
            subst hl'; rw [hf] at hf'; cases hf'
          refine ⟨by omega, ⟨l', ?_, hf'⟩, ?_⟩
          · have : li - i = (li - (i + 1)) + 1 := by omega
            rw [this, List.getElem?_cons_succ] at hl'; exact hl'
          · intro j l'' hj hl''
            exact h3 (j + 1) l'' (by omega) (by rw [List.getElem?_cons_succ]; exact hl'')
  rw [key]
  constructor
  · rintro ⟨h1, ⟨l, hl, hf⟩, h3⟩
    refine ⟨h1, ⟨l, ?_, hf⟩, ?_⟩
    · rw [List.getElem?_drop] at hl
      have : s + (li - s) = li := by omega
      rwa [this] at hl
    · intro j l' hsj hjl hl'
      apply h3 (j - s) l' (by omega)
      rw [List.getElem?_drop]
      have : s + (j - s) = j := by omega
      rwa [this]
  · rintro ⟨h1, ⟨l, hl, hf⟩, h3⟩
    refine ⟨h1, ⟨l, ?_, hf⟩, ?_⟩
    · rw [List.getElem?_drop]
      have : s + (li - s) = li := by omega
      rwa [this]
    · intro j l' hj hl'
      rw [List.getElem?_drop] at hl'
      exact h3 (s + j) l' (by omega) (by omega) hl'

theorem findField_some_bounds {o : Obj} {s : Nat} {n : String} {li : Nat} {f : Field}
    (h : findField o s n = some (li, f)) : s ≤ li ∧ li < o.layers.length ∧ f.name = n := by
  obtain ⟨h1, ⟨l, hl, hf⟩, _⟩ := (findField_some_iff o s n li f).mp h
  refine ⟨h1, ?_, ?_⟩
  · rcases Nat.lt_or_ge li o.layers.length with h | h
    · exact h
    · rw [List.getElem?_eq_none h] at hl; cases hl
  · simpa using List.find?_some hf

theorem go_isSome (n : String) (ls : List Layer) (i : Nat) :
    (findField.go n ls i).isSome = (visOf (ls.flatMap (fun l => l.fields)) n != []) := by
  induction ls generalizing i with
  | nil => rfl
  | cons l ls ih =>
    rw [go_cons, List.flatMap_cons, visOf_append]
    cases hf : l.fields.find? (fun g => g.name == n) with
    | some g =>
      have hm := List.mem_of_find?_eq_some hf
      have hp := List.find?_some hf
      have : visOf l.fields n ≠ [] := by
        unfold visOf
        intro h
        have h' := List.map_eq_nil_iff.mp h
        have : g ∈ l.fields.filter (fun f => f.name == n) := List.mem_filter.mpr ⟨hm, hp⟩
        rw [h'] at this; cases this
      cases hv : visOf l.fields n with
      | nil => exact absurd hv this
      | cons x w => simp
    | none =>
      have : visOf l.fields n = [] := by
        unfold visOf
        rw [List.map_eq_nil_iff, List.filter_eq_nil_iff]
        exact List.find?_eq_none.mp hf
      rw [this, List.nil_append]
      exact ih (i + 1)

/-- `in` / `std.objectHasAll`: the lookup from the top succeeds exactly for the listed names -/
theorem findField_isSome_iff (o : Obj) (n : String) :
    (findField o 0 n).isSome = true ↔ n ∈ (fieldsOrder o).map Prod.fst := by
  rw [findField_def, List.drop_zero, go_isSome]
  have h1 : n ∈ (fieldsOrder o).map Prod.fst ↔ lookupVis (fieldsOrder o) n ≠ none := by
    rw [ne_eq, lookupVis_none_iff]
    simp only [List.mem_map, Prod.exists, exists_and_right, exists_eq_right]
    constructor
    · rintro ⟨v, hv⟩ h; exact h (n, v) hv rfl
    · intro h
      apply Classical.byContradiction
      intro hne
      apply h
      intro p hp e
      apply hne
      obtain ⟨a, b⟩ := p
      simp only at e; subst e
      exact ⟨b, hp⟩
  rw [h1, lookupVis_fieldsOrder, ne_eq, resolveVis_eq_none]
  unfold visSeq allFields
  simp

/-! ### visible fields -/

theorem mem_visibleFields (o : Obj) (n : String) :
    n ∈ visibleFields o ↔ ∃ v, (n, v) ∈ fieldsOrder o ∧ v ≠ Vis.hidden := by
  unfold visibleFields
  simp only [List.mem_filterMap, Prod.exists]
  constructor
  · rintro ⟨a, v, hm, h⟩
    by_cases hv : v = Vis.hidden
    · subst hv; simp at h
    · have : (v == Vis.hidden) = false := by simp [hv]
      simp only [this, Bool.false_eq_true, if_false, Option.some.injEq] at h
      subst h; exact ⟨v, hm, hv⟩
  · rintro ⟨v, hm, hv⟩
    have : (v == Vis.hidden) = false := by simp [hv]
    exact ⟨n, v, hm, by simp [this]⟩

theorem visibleFields_eq_map_filter (o : Obj) :
    visibleFields o = ((fieldsOrder o).filter (fun p => p.2 != Vis.hidden)).map Prod.fst := by
  unfold visibleFields
  induction fieldsOrder o with
  | nil => rfl
  | cons p t ih =>
    by_cases hv : p.2 = Vis.hidden
    · have h1 : (p.2 == Vis.hidden) = true := by simp [hv]
      have h2 : (p.2 != Vis.hidden) = false := by simp [hv]
      rw [List.filterMap_cons, List.filter_cons]
      simp only [h1, h2, if_true, Bool.false_eq_true, if_false]
      exact ih
    · have h1 : (p.2 == Vis.hidden) = false := by simp [hv]
      have h2 : (p.2 != Vis.hidden) = true := by simp [hv]
      rw [List.filterMap_cons, List.filter_cons]
      simp only [h1, h2, if_true, Bool.false_eq_true, if_false, List.map_cons]
      rw [ih]

/-- the visible names come out strictly increasing (hence without duplicates) -/
theorem visibleFields_sorted (o : Obj) : (visibleFields o).Pairwise (fun a b => a < b) := by
  rw [visibleFields_eq_map_filter, List.pairwise_map]
  exact (fieldsOrder_sorted o).filter _

theorem pairwise_lt_nodup {l : List String} (h : l.Pairwise (fun a b => a < b)) : l.Nodup := by
  unfold List.Nodup
  exact h.imp (fun hab e => by subst e; exact String.lt_irrefl _ hab)

theorem hasVisibleField_iff (o : Obj) (n : String) :
    hasVisibleField o n = true ↔ n ∈ visibleFields o := by
  unfold hasVisibleField
  simp

/-! ### layers without fields -/

theorem visOf_flatMap_nil (ls : List Layer) (h : ∀ l ∈ ls, l.fields = []) (n : String) :
    visOf (ls.flatMap (fun l => l.fields)) n = [] := by
  induction ls with
  | nil => rfl
  | cons l ls ih =>
    rw [List.flatMap_cons, h l (by simp), List.nil_append]
    exact ih (fun l' hl' => h l' (List.mem_cons_of_mem _ hl'))

theorem visSeq_fieldless (e : Obj) (h : ∀ l ∈ e.layers, l.fields = []) (n : String) : visSeq e n = [] :=
  visOf_flatMap_nil e.layers h n

theorem go_fieldless (n : String) (ls : List Layer) (h : ∀ l ∈ ls, l.fields = []) (i : Nat) :
    findField.go n ls i = none := by
  induction ls generalizing i with
  | nil => rfl
  | cons l ls ih =>
    rw [go_cons, h l (by simp)]
    exact ih (fun l' hl' => h l' (List.mem_cons_of_mem _ hl')) (i + 1)

theorem findField_fieldless (e : Obj) (h : ∀ l ∈ e.layers, l.fields = []) (i : Nat) (n : String) :
    findField e i n = none := by
  rw [findField_def]
  exact go_fieldless n _ (fun l hl => h l (List.mem_of_mem_drop hl)) i

end Rsj.Eval
