/-
  Absence of panics in the lexer model: `from_utf8(..).unwrap()` in
  `lex_operator` / `lex_ident` (the lexeme is ASCII), `from_u32(..).unwrap()`
  in `decode_cont_char`, `strip_suffix(..).unwrap()` in `lex_text_block`.
-/
import RsjProofs.Lexer
namespace Rsj.Lexer
open Rsj.Utf8

theorem validAux_ascii (f : Nat) (l : List Nat) (h : ∀ b ∈ l, b < 128) (hf : l.length ≤ f) :
    validAux f l = true := by
  induction f generalizing l with
  | zero =>
    have : l = [] := List.length_eq_zero_iff.mp (by omega)
    subst this; rfl
  | succ f ih =>
    cases l with
    | nil => rfl
    | cons b t =>
      have hb := h b (by simp)
      have : decodeCont b t = .chr 0 b := by simp [decodeCont, show b ≤ 127 by omega]
      unfold validAux
      rw [this]
      simp only [List.drop_zero]
      exact ih t (fun x hx => h x (List.mem_cons_of_mem _ hx)) (by simpa using hf)

theorem valid_ascii (l : List Nat) (h : ∀ b ∈ l, b < 128) : Utf8.valid l = true :=
  validAux_ascii _ l h (Nat.le_refl _)

theorem eatContAnyChar_ne_panic (c : Cur) (b : Nat) : eatContAnyChar c b ≠ .panic := by
  unfold eatContAnyChar
  have := decodeCont_no_panic b c.rest
  split
  · simp
  · simp
  · next h => exact absurd h this

theorem eatAnyChar_ne_panic (c : Cur) : eatAnyChar c ≠ .panic := by
  unfold eatAnyChar
  split
  · simp
  · next b c1 _ =>
    have := eatContAnyChar_ne_panic c1 b
    split
    · next h => exact absurd h this
    · simp

theorem isOpSure_lt {x : Nat} (h : isOpSure x = true) : x < 128 := by
  simp [isOpSure] at h; omega
theorem isOpUnsure_lt {x : Nat} (h : isOpUnsure x = true) : x < 128 := by
  simp [isOpUnsure] at h; omega
theorem isOpStart_lt {x : Nat} (h : isOpStart x = true) : x < 128 := by
  simp [isOpStart] at h; omega
theorem isIdentCont_lt {x : Nat} (h : isIdentCont x = true) : x < 128 := by
  simp [isIdentCont, isAlnum, isDigit] at h; omega

theorem opLoop_ascii (sure : Cur) (pos : Nat) (rest mid : List Nat)
    (hs : sure.rest = mid ++ rest) (hp : pos = sure.pos + mid.length) (hm : ∀ b ∈ mid, b < 128) :
    ∃ pre, sure.rest = pre ++ (opLoop sure pos rest).rest ∧
      (opLoop sure pos rest).pos = sure.pos + pre.length ∧ ∀ b ∈ pre, b < 128 := by
  induction rest generalizing sure pos mid with
  | nil => exact ⟨[], by simp [opLoop], by simp [opLoop], by simp⟩
  | cons x t ih =>
    unfold opLoop
    split
    · exact ⟨[], by simp, by simp, by simp⟩
    split
    · next _ hx =>
      obtain ⟨pre, h1, h2, h3⟩ := ih ⟨pos + 1, t⟩ (pos + 1) [] (by simp) (by simp) (by simp)
      simp only at h1 h2
      refine ⟨mid ++ x :: pre, ?_, ?_, ?_⟩
      · rw [hs]; simp only [List.append_assoc, List.cons_append]; rw [← h1]
      · rw [h2, hp]; simp only [List.length_append, List.length_cons]; omega
      · intro b hb
        simp only [List.mem_append, List.mem_cons] at hb
        rcases hb with hb | rfl | hb
        · exact hm b hb
        · exact isOpSure_lt hx
        · exact h3 b (by simpa using hb)
    split
    · next _ _ hx =>
      exact ih sure (pos + 1) (mid ++ [x]) (by rw [hs]; simp) (by simp; omega)
        (by
          intro b hb
          simp only [List.mem_append, List.mem_singleton] at hb
          rcases hb with hb | rfl
          · exact hm b hb
          · exact isOpUnsure_lt hx)
    · exact ⟨[], by simp, by simp, by simp⟩

theorem lexOperator_no_panic (start c : Cur) (x : Nat) (hx : x < 128) (hr : start.rest = x :: c.rest)
    (hp : c.pos = start.pos + 1) (s : String) : lexOperator start c ≠ .panic s := by
  obtain ⟨pre, h1, h2, h3⟩ := opLoop_ascii c c.pos c.rest [] (by simp) (by simp) (by simp)
  unfold lexOperator
  simp only
  generalize opLoop c c.pos c.rest = e at *
  split
  · simp
  · split
    · simp
    · next hv =>
      exfalso; apply hv
      apply valid_ascii
      intro b hb
      rw [hr, h1, h2, hp] at hb
      rw [show start.pos + 1 + pre.length - start.pos = pre.length + 1 by omega] at hb
      simp only [List.take_succ_cons, List.mem_cons] at hb
      rcases hb with rfl | hb
      · exact hx
      · exact h3 b (by simpa using hb)

theorem eatWhileAux_split (p : Nat → Bool) (pos : Nat) (rest : List Nat) :
    ∃ pre, rest = pre ++ (Cur.eatWhileAux p pos rest).rest ∧
      (Cur.eatWhileAux p pos rest).pos = pos + pre.length ∧ ∀ b ∈ pre, p b = true := by
  induction rest generalizing pos with
  | nil => exact ⟨[], by simp [Cur.eatWhileAux], by simp [Cur.eatWhileAux], by simp⟩
  | cons x t ih =>
    unfold Cur.eatWhileAux
    split
    · next hx =>
      obtain ⟨pre, h1, h2, h3⟩ := ih (pos + 1)
      refine ⟨x :: pre, by simp [← h1], by rw [h2]; simp; omega, ?_⟩
      intro b hb
      simp only [List.mem_cons] at hb
      rcases hb with rfl | hb
      · exact hx
      · exact h3 b (by simpa using hb)
    · exact ⟨[], by simp, by simp, by simp⟩

theorem lexIdent_no_panic (start c : Cur) (x : Nat) (hx : x < 128) (hr : start.rest = x :: c.rest)
    (hp : c.pos = start.pos + 1) (s : String) : lexIdent start c ≠ .panic s := by
  obtain ⟨pre, h1, h2, h3⟩ := eatWhileAux_split isIdentCont c.pos c.rest
  unfold lexIdent Cur.eatWhile
  simp only
  generalize Cur.eatWhileAux isIdentCont c.pos c.rest = e at *
  split
  · simp
  · split
    · simp
    · next hv =>
      exfalso; apply hv
      apply valid_ascii
      intro b hb
      rw [hr, h1, h2, hp] at hb
      rw [show start.pos + 1 + pre.length - start.pos = pre.length + 1 by omega] at hb
      simp only [List.take_succ_cons, List.mem_cons] at hb
      rcases hb with rfl | hb
      · exact hx
      · exact isIdentCont_lt (h3 b (by simpa using hb))

/-! ### The remaining panic sites -/

theorem lexEscape_ne_panic (start : Nat) (c : Cur) : lexEscape start c ≠ .panic := by
  unfold lexEscape
  simp only
  split
  · simp
  · split
    · unfold lexUnicodeEscape
      repeat' split
      all_goals simp
    · have := eatAnyChar_ne_panic c
      split
      · simp
      · next h => exact absurd h this
      · simp

theorem quotedLoop_no_panic (start delim : Nat) (f : Nat) (c : Cur) (str : List Nat) (s : String) :
    quotedLoop start delim f c str ≠ .panic s := by
  induction f generalizing c str with
  | zero => simp [quotedLoop]
  | succ f ih =>
    unfold quotedLoop
    split
    · simp
    · split
      · next c1 _ =>
        have := lexEscape_ne_panic start c1
        split
        · exact ih _ _
        · simp
        · next h => exact absurd h this
      · have := eatAnyChar_ne_panic c
        split
        · simp
        · next h => exact absurd h this
        · exact ih _ _

theorem verbatimLoop_no_panic (start delim : Nat) (f : Nat) (c : Cur) (str : List Nat) (s : String) :
    verbatimLoop start delim f c str ≠ .panic s := by
  induction f generalizing c str with
  | zero => simp [verbatimLoop]
  | succ f ih =>
    unfold verbatimLoop
    split
    · split
      · exact ih _ _
      · simp
    · have := eatAnyChar_ne_panic c
      split
      · simp
      · next h => exact absurd h this
      · exact ih _ _

theorem tbEmptyLines_head (pos : Nat) (rest str : List Nat) (h : ∃ s, str = 10 :: s) :
    ∃ s, (tbEmptyLines pos rest str).2 = 10 :: s := by
  fun_induction tbEmptyLines pos rest str with
  | case1 => exact h
  | case2 pos t str ih => exact ih ⟨_, rfl⟩
  | case3 pos str t' h' ih => exact ih ⟨_, rfl⟩
  | case4 => exact h

theorem tbLoop_no_panic (start : Nat) (pfx : List Nat) (strip : Bool) (f : Nat) (c : Cur)
    (str : List Nat) (s : String) : tbLoop start pfx strip f c str ≠ .panic s := by
  induction f generalizing c str with
  | zero => simp [tbLoop]
  | succ f ih =>
    unfold tbLoop
    split
    · next c1 _ =>
      obtain ⟨s2, hs2⟩ := tbEmptyLines_head c1.pos c1.rest (10 :: str) ⟨_, rfl⟩
      simp only
      split
      · exact ih _ _
      · split
        · split
          · rw [hs2]; simp
          · simp
        · simp
    · have := eatAnyChar_ne_panic c
      split
      · simp
      · next h => exact absurd h this
      · exact ih _ _

theorem lexTextBlock_no_panic (start c : Cur) (s : String) : lexTextBlock start c ≠ .panic s := by
  unfold lexTextBlock
  simp only
  split
  · simp
  · split
    · simp
    · simp
    · exact tbLoop_no_panic _ _ _ _ _ _ _

theorem mlComment_no_panic (start pos : Nat) (rest : List Nat) (s : String) :
    mlComment start pos rest ≠ .panic s := by
  induction rest generalizing pos with
  | nil => simp [mlComment]
  | cons x t ih =>
    unfold mlComment
    split
    · simp
    · exact ih _

theorem lexNumber_no_panic (start c : Cur) (chr0 : Nat) (s : String) :
    lexNumber start c chr0 ≠ .panic s := by
  unfold lexNumber
  simp only
  split
  · simp
  · split <;> simp

theorem nextToken_no_panic (c : Cur) (s : String) : nextToken c ≠ .panic s := by
  unfold nextToken
  split
  · simp
  next x t hr =>
  simp only
  split
  · simp
  split
  · next hx =>
    split
    · simp [lexSingleLineComment]
    · split
      · exact mlComment_no_panic _ _ _ _
      · exact lexOperator_no_panic c _ x (by omega) hr rfl s
  split
  · next hx =>
    split
    · exact lexTextBlock_no_panic _ _ _
    · exact lexOperator_no_panic c _ x (by omega) hr rfl s
  split
  · next hx => exact lexOperator_no_panic c _ x (isOpStart_lt hx) hr rfl s
  split
  · simp
  split
  · simp [lexSingleLineComment]
  split
  · exact lexNumber_no_panic _ _ _ _
  split
  · next hx =>
    refine lexIdent_no_panic c _ x ?_ hr rfl s
    simp at hx; omega
  split
  · split
    · exact verbatimLoop_no_panic _ _ _ _ _ _
    · split
      · exact verbatimLoop_no_panic _ _ _ _ _ _
      · simp
  split
  · exact quotedLoop_no_panic _ _ _ _ _ _
  split
  · exact quotedLoop_no_panic _ _ _ _ _ _
  · have := eatContAnyChar_ne_panic ⟨c.pos + 1, t⟩ x
    split
    · next h => exact absurd h this
    · simp
    · simp

theorem lexLoop_no_panic (flag : Bool) (f : Nat) (c : Cur) (acc : List Token) (s : String) :
    lexLoop flag f c acc ≠ .panic s := by
  induction f generalizing c acc with
  | zero => simp [lexLoop]
  | succ f ih =>
    unfold lexLoop
    have := nextToken_no_panic c
    split
    · simp
    · next s' h => exact absurd h (this s')
    · simp
    · simp only
      split
      · simp
      · exact ih _ _

end Rsj.Lexer
