import RsjProofs.EvalEmbHelpers2
/-!
  Identity embeddings on a region of a store: related cells are EQUAL cells whose references stay
  inside the region.  Used to read `Sim` as "the two stores coincide on a reference-closed region".
-/
set_option linter.unusedVariables false
namespace Rsj.Eval
open Rsj.Core
set_option linter.unusedSectionVars false
variable [Mode]

/-- an embedding that renames nothing -/
structure Emb.IsId (ρ : Emb) : Prop where
  t : ∀ i k, ρ.tm i = some k → k = i
  e : ∀ i k, ρ.em i = some k → k = i
  o : ∀ i k, ρ.om i = some k → k = i
  f : ∀ i k, ρ.fm i = some k → k = i

variable {ρ : Emb} (hid : ρ.IsId)
include hid

theorem RT.eq_of_isId {t t' : TId} (h : RT ρ t t') : t = t' := (hid.t _ _ h).symm
theorem RE.eq_of_isId {t t' : EId} (h : RE ρ t t') : t = t' := (hid.e _ _ h).symm
theorem RO.eq_of_isId {t t' : OId} (h : RO ρ t t') : t = t' := (hid.o _ _ h).symm
theorem RF.eq_of_isId {t t' : FId} (h : RF ρ t t') : t = t' := (hid.f _ _ h).symm

omit hid in
theorem RList.eq_of {α : Type} {R : Emb → α → α → Prop} {l l' : List α} (h : RList R ρ l l')
    (hR : ∀ a b, R ρ a b → a = b) : l = l' := by
  induction h with
  | nil => rfl
  | cons h1 _ ih => rw [hR _ _ h1, ih]

omit hid in
theorem ROpt.eq_of {α : Type} {R : Emb → α → α → Prop} {l l' : Option α} (h : ROpt R ρ l l')
    (hR : ∀ a b, R ρ a b → a = b) : l = l' := by
  cases h with
  | none => rfl
  | some h1 => rw [hR _ _ h1]

theorem RVal.eq_of_isId {v v' : Value} (h : RVal ρ v v') : v = v' := by
  cases h with
  | null => rfl
  | bool b => rfl
  | num f => rfl
  | str s => rfl
  | arr h1 => rw [h1.eq_of (fun _ _ => RT.eq_of_isId hid)]
  | obj h1 => rw [RO.eq_of_isId hid h1]
  | func h1 => rw [RF.eq_of_isId hid h1]

theorem RPending.eq_of_isId {v v' : Pending} (h : RPending ρ v v') : v = v' := by
  cases h with
  | expr e h1 => rw [RE.eq_of_isId hid h1]
  | plus e f h1 => rw [RE.eq_of_isId hid h1]
  | call h1 h2 => rw [RF.eq_of_isId hid h1, h2.eq_of (fun _ _ => RT.eq_of_isId hid)]

theorem RTState.eq_of_isId (hl : ¬ Mode.looseIP) {v v' : TState} (h : RTState ρ v v') : v = v' := by
  cases h with
  | pending h1 => rw [h1.eq_of_isId hid]
  | inProgress h1 => rw [h1.eq_of_isId hid]
  | inProgressLoose h1 => exact absurd h1 hl
  | done h1 => rw [h1.eq_of_isId hid]

theorem RObjRef.eq_of_isId {v v' : ObjRef} (h : RObjRef ρ v v') : v = v' := by
  obtain ⟨a, b, c⟩ := v
  obtain ⟨a', b', c'⟩ := v'
  have h1 := RO.eq_of_isId hid h.obj
  have h2 := h.layer
  have h3 := RO.eq_of_isId hid h.top
  simp only at h1 h2 h3
  subst h1 h2 h3
  rfl

theorem RVars.eq_of_isId {v v' : List (String × TId)} (h : RVars ρ v v') : v = v' :=
  RList.eq_of h (fun a b hab => by
    obtain ⟨a1, a2⟩ := a
    obtain ⟨b1, b2⟩ := b
    have h1 : a1 = b1 := hab.1
    have h2 : a2 = b2 := RT.eq_of_isId hid hab.2
    rw [h1, h2])

theorem REnv.eq_of_isId {v v' : Env} (h : REnv ρ v v') : v = v' := by
  obtain ⟨a, b, c⟩ := v
  obtain ⟨a', b', c'⟩ := v'
  have h1 := h.parent.eq_of (fun _ _ => RE.eq_of_isId hid)
  have h2 := RVars.eq_of_isId hid h.vars
  have h3 := h.obj.eq_of (fun _ _ => RObjRef.eq_of_isId hid)
  simp only at h1 h2 h3
  subst h1 h2 h3
  rfl

theorem RField.eq_of_isId {v v' : Field} (h : RField ρ v v') : v = v' := by
  obtain ⟨a, b, c, d, e⟩ := v
  obtain ⟨a', b', c', d', e'⟩ := v'
  have h1 := h.name
  have h2 := h.vis
  have h3 := h.baseEnv.eq_of (fun _ _ => RE.eq_of_isId hid)
  have h4 := h.expr
  have h5 := h.thunk.eq_of (fun _ _ => RT.eq_of_isId hid)
  simp only at h1 h2 h3 h4 h5
  subst h1 h2 h3 h4 h5
  rfl

theorem RLayer.eq_of_isId {v v' : Layer} (h : RLayer ρ v v') : v = v' := by
  obtain ⟨a, b, c, d, e, f⟩ := v
  obtain ⟨a', b', c', d', e', f'⟩ := v'
  have h1 := h.isTop
  have h2 := h.locals
  have h3 := h.baseEnv.eq_of (fun _ _ => RE.eq_of_isId hid)
  have h4 := h.env.eq_of (fun _ _ => RE.eq_of_isId hid)
  have h5 := h.fields.eq_of (fun _ _ => RField.eq_of_isId hid)
  have h6 := h.asserts
  simp only at h1 h2 h3 h4 h5 h6
  subst h1 h2 h3 h4 h5 h6
  rfl

theorem RObj.eq_of_isId {v v' : Obj} (h : RObj ρ v v') : v = v' := by
  obtain ⟨a, b, c⟩ := v
  obtain ⟨a', b', c'⟩ := v'
  have h1 := h.layers.eq_of (fun _ _ => RLayer.eq_of_isId hid)
  have h2 := h.assertsChecked
  have h3 := h.assertsInProgress
  simp only at h1 h2 h3
  subst h1 h2 h3
  rfl

theorem RFunc.eq_of_isId {v v' : Func} (h : RFunc ρ v v') : v = v' := by
  obtain ⟨a, b, c⟩ := v
  obtain ⟨a', b', c'⟩ := v'
  have h1 := h.params
  have h2 := h.body
  have h3 := RE.eq_of_isId hid h.env
  simp only at h1 h2 h3
  subst h1 h2 h3
  rfl

omit hid

/-! ### Regions -/

/-- a set of cells of a store -/
structure Region where
  t : Nat → Bool
  e : Nat → Bool
  o : Nat → Bool
  f : Nat → Bool

/-- the identity embedding on a region -/
def Region.emb (D : Region) : Emb where
  tm := fun i => if D.t i then some i else none
  em := fun i => if D.e i then some i else none
  om := fun i => if D.o i then some i else none
  fm := fun i => if D.f i then some i else none

theorem Region.emb_isId (D : Region) : D.emb.IsId := by
  constructor <;> (intro i k h; simp only [Region.emb] at h; split at h <;> cases h; rfl)

theorem Region.emb_inj (f : Nat → Bool) (i j k : Nat) (hi : (if f i then some i else none) = some k)
    (hj : (if f j then some j else none) = some k) : i = j := by
  split at hi <;> split at hj <;> cases hi <;> cases hj; rfl

/-- `a` and `b` coincide on the region `D`, all references stored in cells of `D` stay in `D`
    (a cell is related to ITSELF under the identity embedding on `D` exactly when all ids in it
    belong to `D`) -/
structure AgreeOn (D : Region) (a b : St) : Prop where
  thunks : ∀ i, D.t i = true → ∃ s, a.thunks[i]? = some s ∧ b.thunks[i]? = some s ∧ RTState D.emb s s
  envs : ∀ i, D.e i = true → ∃ s, a.envs[i]? = some s ∧ b.envs[i]? = some s ∧ REnv D.emb s s
  objs : ∀ i, D.o i = true → ∃ s, a.objs[i]? = some s ∧ b.objs[i]? = some s ∧ RObj D.emb s s
  funcs : ∀ i, D.f i = true → ∃ s, a.funcs[i]? = some s ∧ b.funcs[i]? = some s ∧ RFunc D.emb s s

theorem AgreeOn.sim {D : Region} {a b : St} (h : AgreeOn D a b) : Sim D.emb a.traces b.traces a b where
  thunks := ⟨Region.emb_inj D.t, fun i k hik => by
    simp only [Region.emb] at hik
    split at hik <;> cases hik
    obtain ⟨s, h1, h2, h3⟩ := h.thunks i ‹_›
    exact ⟨s, s, h1, h2, h3⟩⟩
  envs := ⟨Region.emb_inj D.e, fun i k hik => by
    simp only [Region.emb] at hik
    split at hik <;> cases hik
    obtain ⟨s, h1, h2, h3⟩ := h.envs i ‹_›
    exact ⟨s, s, h1, h2, .inl h3⟩⟩
  objs := ⟨Region.emb_inj D.o, fun i k hik => by
    simp only [Region.emb] at hik
    split at hik <;> cases hik
    obtain ⟨s, h1, h2, h3⟩ := h.objs i ‹_›
    exact ⟨s, s, h1, h2, h3⟩⟩
  funcs := ⟨Region.emb_inj D.f, fun i k hik => by
    simp only [Region.emb] at hik
    split at hik <;> cases hik
    obtain ⟨s, h1, h2, h3⟩ := h.funcs i ‹_›
    exact ⟨s, s, h1, h2, h3⟩⟩
  traces := ⟨[], rfl, rfl⟩
  wkcell := fun w hw => by cases hw
  rsvok := fun t ht => by cases ht

end Rsj.Eval
