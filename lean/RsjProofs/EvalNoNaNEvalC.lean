import RsjProofs.EvalNoNaNTasks
/-!
  "partial_cmp of NaN": `step` on the evaluation of an expression, the simple cases.
-/
open Std.Do
set_option mvcgen.warning false
namespace Rsj.Eval.NoNaN
open Rsj.Core Rsj.Eval Rsj.Eval.Scope

section
variable (F : FloatNaNFacts) (hp : PureNaNFree) (cfg : Cfg) (rec : Task → M Value) (hrec : RecOk3 rec)
include F hp hrec

set_option maxHeartbeats 2000000 in
theorem eval_superField_nn (n : String) (env : EId) (tail : Bool) (d : Nat) :
    ⦃fun st => ⌜NN st⌝⦄ step cfg rec (.eval (.superField n) env tail d) ⦃Q3 VNN⦄ := by
  have hT : True := trivial
  have hr := rec_nn F rec hrec
  have hb := builtinCall3_nn F cfg rec hrec hp
  have hc := binaryOp3_nn F cfg rec hrec
  have ho := ord_nn F
  scase

set_option maxHeartbeats 2000000 in
theorem eval_superIndex_nn (i : Expr) (env : EId) (tail : Bool) (d : Nat) :
    ⦃fun st => ⌜NN st⌝⦄ step cfg rec (.eval (.superIndex i) env tail d) ⦃Q3 VNN⦄ := by
  have hT : True := trivial
  have hr := rec_nn F rec hrec
  have hb := builtinCall3_nn F cfg rec hrec hp
  have hc := binaryOp3_nn F cfg rec hrec
  have ho := ord_nn F
  scase

set_option maxHeartbeats 2000000 in
theorem eval_var_nn (n : String) (env : EId) (tail : Bool) (d : Nat) :
    ⦃fun st => ⌜NN st⌝⦄ step cfg rec (.eval (.var n) env tail d) ⦃Q3 VNN⦄ := by
  have hT : True := trivial
  have hr := rec_nn F rec hrec
  have hb := builtinCall3_nn F cfg rec hrec hp
  have hc := binaryOp3_nn F cfg rec hrec
  have ho := ord_nn F
  scase

set_option maxHeartbeats 2000000 in
theorem eval_if_nn (c t : Expr) (e : OptExpr) (env : EId) (tail : Bool) (d : Nat) :
    ⦃fun st => ⌜NN st⌝⦄ step cfg rec (.eval (.if_ c t e) env tail d) ⦃Q3 VNN⦄ := by
  have hT : True := trivial
  have hr := rec_nn F rec hrec
  have hb := builtinCall3_nn F cfg rec hrec hp
  have hc := binaryOp3_nn F cfg rec hrec
  have ho := ord_nn F
  scase

set_option maxHeartbeats 2000000 in
theorem eval_func_nn (ps : Params) (body : Expr) (env : EId) (tail : Bool) (d : Nat) :
    ⦃fun st => ⌜NN st⌝⦄ step cfg rec (.eval (.func ps body) env tail d) ⦃Q3 VNN⦄ := by
  have hT : True := trivial
  have hr := rec_nn F rec hrec
  have hb := builtinCall3_nn F cfg rec hrec hp
  have hc := binaryOp3_nn F cfg rec hrec
  have ho := ord_nn F
  scase

set_option maxHeartbeats 2000000 in
theorem eval_assert_nn (c : Expr) (m : OptExpr) (i : Expr) (env : EId) (tail : Bool) (d : Nat) :
    ⦃fun st => ⌜NN st⌝⦄ step cfg rec (.eval (.assert_ c m i) env tail d) ⦃Q3 VNN⦄ := by
  have hT : True := trivial
  have hr := rec_nn F rec hrec
  have hb := builtinCall3_nn F cfg rec hrec hp
  have hc := binaryOp3_nn F cfg rec hrec
  have ho := ord_nn F
  scase

set_option maxHeartbeats 2000000 in
theorem eval_error_nn (e : Expr) (env : EId) (tail : Bool) (d : Nat) :
    ⦃fun st => ⌜NN st⌝⦄ step cfg rec (.eval (.error_ e) env tail d) ⦃Q3 VNN⦄ := by
  have hT : True := trivial
  have hr := rec_nn F rec hrec
  have hb := builtinCall3_nn F cfg rec hrec hp
  have hc := binaryOp3_nn F cfg rec hrec
  have ho := ord_nn F
  scase

set_option maxHeartbeats 2000000 in
theorem eval_inSuper_nn (e : Expr) (env : EId) (tail : Bool) (d : Nat) :
    ⦃fun st => ⌜NN st⌝⦄ step cfg rec (.eval (.inSuper e) env tail d) ⦃Q3 VNN⦄ := by
  have hT : True := trivial
  have hr := rec_nn F rec hrec
  have hb := builtinCall3_nn F cfg rec hrec hp
  have hc := binaryOp3_nn F cfg rec hrec
  have ho := ord_nn F
  scase

set_option maxHeartbeats 2000000 in
theorem eval_importLit_nn (k : Nat) (env : EId) (tail : Bool) (d : Nat) :
    ⦃fun st => ⌜NN st⌝⦄ step cfg rec (.eval (.importLit k) env tail d) ⦃Q3 VNN⦄ := by
  have hT : True := trivial
  have hr := rec_nn F rec hrec
  have hb := builtinCall3_nn F cfg rec hrec hp
  have hc := binaryOp3_nn F cfg rec hrec
  have ho := ord_nn F
  scase

set_option maxHeartbeats 2000000 in
theorem eval_importTextBlock_nn (k : Nat) (env : EId) (tail : Bool) (d : Nat) :
    ⦃fun st => ⌜NN st⌝⦄ step cfg rec (.eval (.importTextBlock k) env tail d) ⦃Q3 VNN⦄ := by
  have hT : True := trivial
  have hr := rec_nn F rec hrec
  have hb := builtinCall3_nn F cfg rec hrec hp
  have hc := binaryOp3_nn F cfg rec hrec
  have ho := ord_nn F
  scase

set_option maxHeartbeats 2000000 in
theorem eval_importComputed_nn (k : Nat) (e : Expr) (env : EId) (tail : Bool) (d : Nat) :
    ⦃fun st => ⌜NN st⌝⦄ step cfg rec (.eval (.importComputed k e) env tail d) ⦃Q3 VNN⦄ := by
  have hT : True := trivial
  have hr := rec_nn F rec hrec
  have hb := builtinCall3_nn F cfg rec hrec hp
  have hc := binaryOp3_nn F cfg rec hrec
  have ho := ord_nn F
  scase

end
end Rsj.Eval.NoNaN
