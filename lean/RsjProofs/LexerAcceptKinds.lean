/-
  Which scanner produces which token kind: `String` tokens come from
  `lex_quoted_string` / `lex_verbatim_string` only, `TextBlock` tokens from
  `lex_text_block` only (inversion of `next_token`).
-/
import RsjProofs.Lexer
set_option linter.unusedSimpArgs false
namespace Rsj.Lexer

def Kind.isString : Kind → Bool
  | .string _ => true
  | _ => false

def Kind.isTextBlock : Kind → Bool
  | .textBlock _ => true
  | _ => false

/-- `r` is not a token whose kind satisfies `p`. -/
def NotKind (p : Kind → Bool) : Res → Prop
  | .tok k _ => p k = false
  | _ => True

theorem NotKind.elimS {r : Res} {out : List Nat} {c' : Cur} (h : NotKind Kind.isString r)
    (hr : r = .tok (.string out) c') : False := by
  subst hr; simp [NotKind, Kind.isString] at h

theorem NotKind.elimT {r : Res} {out : List Nat} {c' : Cur} (h : NotKind Kind.isTextBlock r)
    (hr : r = .tok (.textBlock out) c') : False := by
  subst hr; simp [NotKind, Kind.isTextBlock] at h

theorem mlComment_kind (start pos : Nat) (rest : List Nat) :
    NotKind Kind.isString (mlComment start pos rest) ∧
    NotKind Kind.isTextBlock (mlComment start pos rest) := by
  induction rest generalizing pos with
  | nil => simp [mlComment, NotKind]
  | cons x t ih =>
    unfold mlComment
    split
    · simp [NotKind, Kind.isString, Kind.isTextBlock]
    · exact ih _

theorem lexOperator_kind (start c : Cur) :
    NotKind Kind.isString (lexOperator start c) ∧ NotKind Kind.isTextBlock (lexOperator start c) := by
  unfold lexOperator
  simp only
  split
  · simp [NotKind, Kind.isString, Kind.isTextBlock]
  · split <;> simp [NotKind, Kind.isString, Kind.isTextBlock]

theorem lexIdent_kind (start c : Cur) :
    NotKind Kind.isString (lexIdent start c) ∧ NotKind Kind.isTextBlock (lexIdent start c) := by
  unfold lexIdent
  simp only
  split
  · simp [NotKind, Kind.isString, Kind.isTextBlock]
  · split <;> simp [NotKind, Kind.isString, Kind.isTextBlock]

theorem lexNumber_kind (start c : Cur) (chr0 : Nat) :
    NotKind Kind.isString (lexNumber start c chr0) ∧
    NotKind Kind.isTextBlock (lexNumber start c chr0) := by
  unfold lexNumber
  simp only
  split
  · simp [NotKind]
  · split <;> simp [NotKind, Kind.isString, Kind.isTextBlock]

theorem quotedLoop_kind (start delim f : Nat) (c : Cur) (str : List Nat) :
    NotKind Kind.isTextBlock (quotedLoop start delim f c str) := by
  induction f generalizing c str with
  | zero => simp [quotedLoop, NotKind]
  | succ f ih =>
    unfold quotedLoop
    split
    · simp [NotKind, Kind.isTextBlock]
    · split
      · split
        · exact ih _ _
        · simp [NotKind]
        · simp [NotKind]
      · split
        · simp [NotKind]
        · simp [NotKind]
        · exact ih _ _

theorem verbatimLoop_kind (start delim f : Nat) (c : Cur) (str : List Nat) :
    NotKind Kind.isTextBlock (verbatimLoop start delim f c str) := by
  induction f generalizing c str with
  | zero => simp [verbatimLoop, NotKind]
  | succ f ih =>
    unfold verbatimLoop
    split
    · split
      · exact ih _ _
      · simp [NotKind, Kind.isTextBlock]
    · split
      · simp [NotKind]
      · simp [NotKind]
      · exact ih _ _

theorem tbLoop_kind (start : Nat) (pfx : List Nat) (strip : Bool) (f : Nat) (c : Cur)
    (str : List Nat) : NotKind Kind.isString (tbLoop start pfx strip f c str) := by
  induction f generalizing c str with
  | zero => simp [tbLoop, NotKind]
  | succ f ih =>
    unfold tbLoop
    split
    · simp only
      split
      · exact ih _ _
      · split
        · split
          · split <;> simp [NotKind, Kind.isString]
          · simp [NotKind, Kind.isString]
        · simp [NotKind]
    · split
      · simp [NotKind]
      · simp [NotKind]
      · exact ih _ _

theorem lexTextBlock_kind (start c : Cur) : NotKind Kind.isString (lexTextBlock start c) := by
  unfold lexTextBlock
  simp only
  split
  · simp [NotKind]
  · split
    · simp [NotKind]
    · simp [NotKind]
    · exact tbLoop_kind _ _ _ _ _ _

theorem eatByte_inv {p b : Nat} {t : List Nat} {c2 : Cur} (h : Cur.eatByte ⟨p, t⟩ b = some c2) :
    ∃ u, t = b :: u ∧ c2 = ⟨p + 1, u⟩ := by
  cases t with
  | nil => simp [Cur.eatByte] at h
  | cons y u =>
    simp only [Cur.eatByte] at h
    split at h
    · next hy => subst hy; cases h; exact ⟨u, rfl, rfl⟩
    · cases h

/-- A `String` token is produced by `lex_quoted_string` after `'`/`"`, or by
    `lex_verbatim_string` after `@'`/`@"`. -/
theorem nextToken_string_inv {c c' : Cur} {out : List Nat}
    (h : nextToken c = .tok (.string out) c') :
    (∃ delim t, (delim = 34 ∨ delim = 39) ∧ c.rest = delim :: t ∧
      lexQuotedString c ⟨c.pos + 1, t⟩ delim = .tok (.string out) c') ∨
    (∃ delim t, (delim = 34 ∨ delim = 39) ∧ c.rest = 64 :: delim :: t ∧
      lexVerbatimString c ⟨c.pos + 2, t⟩ delim = .tok (.string out) c') := by
  unfold nextToken at h
  split at h
  · cases h
  next x t hr =>
  simp only at h
  split at h
  · cases h
  split at h
  · split at h
    · simp [lexSingleLineComment] at h
    · split at h
      · exact ((mlComment_kind _ _ _).1.elimS h).elim
      · exact ((lexOperator_kind _ _).1.elimS h).elim
  split at h
  · split at h
    · exact ((lexTextBlock_kind _ _).elimS h).elim
    · exact ((lexOperator_kind _ _).1.elimS h).elim
  split at h
  · exact ((lexOperator_kind _ _).1.elimS h).elim
  split at h
  · cases h
  split at h
  · simp [lexSingleLineComment] at h
  split at h
  · exact ((lexNumber_kind _ _ _).1.elimS h).elim
  split at h
  · exact ((lexIdent_kind _ _).1.elimS h).elim
  split at h
  · next hx =>
    subst hx
    right
    split at h
    · next c2 he =>
      obtain ⟨u, rfl, rfl⟩ := eatByte_inv he
      exact ⟨39, u, Or.inr rfl, hr, h⟩
    · split at h
      · next c2 he =>
        obtain ⟨u, rfl, rfl⟩ := eatByte_inv he
        exact ⟨34, u, Or.inl rfl, hr, h⟩
      · cases h
  split at h
  · next hx => subst hx; exact Or.inl ⟨39, t, Or.inr rfl, hr, h⟩
  split at h
  · next hx => subst hx; exact Or.inl ⟨34, t, Or.inl rfl, hr, h⟩
  · split at h <;> cases h

/-- A `TextBlock` token is produced by `lex_text_block` after `|||`. -/
theorem nextToken_textBlock_inv {c c' : Cur} {out : List Nat}
    (h : nextToken c = .tok (.textBlock out) c') :
    ∃ t, c.rest = 124 :: 124 :: 124 :: t ∧
      lexTextBlock c ⟨c.pos + 3, t⟩ = .tok (.textBlock out) c' := by
  unfold nextToken at h
  split at h
  · cases h
  next x t hr =>
  simp only at h
  split at h
  · cases h
  split at h
  · split at h
    · simp [lexSingleLineComment] at h
    · split at h
      · exact ((mlComment_kind _ _ _).2.elimT h).elim
      · exact ((lexOperator_kind _ _).2.elimT h).elim
  split at h
  · next hx =>
    subst hx
    split at h
    · next c2 he =>
      unfold Cur.eatSlice at he
      simp only at he
      split at he
      · next hp =>
        cases he
        obtain ⟨t', rfl⟩ : ∃ t', t = 124 :: 124 :: t' := by
          have := List.isPrefixOf_iff_prefix.mp hp
          obtain ⟨t', ht'⟩ := this
          exact ⟨t', by simpa using ht'.symm⟩
        exact ⟨t', hr, by simpa using h⟩
      · cases he
    · exact ((lexOperator_kind _ _).2.elimT h).elim
  split at h
  · exact ((lexOperator_kind _ _).2.elimT h).elim
  split at h
  · cases h
  split at h
  · simp [lexSingleLineComment] at h
  split at h
  · exact ((lexNumber_kind _ _ _).2.elimT h).elim
  split at h
  · exact ((lexIdent_kind _ _).2.elimT h).elim
  split at h
  · split at h
    · exact ((verbatimLoop_kind _ _ _ _ _).elimT h).elim
    · split at h
      · exact ((verbatimLoop_kind _ _ _ _ _).elimT h).elim
      · cases h
  split at h
  · exact ((quotedLoop_kind _ _ _ _ _).elimT h).elim
  split at h
  · exact ((quotedLoop_kind _ _ _ _ _).elimT h).elim
  · split at h <;> cases h

end Rsj.Lexer
