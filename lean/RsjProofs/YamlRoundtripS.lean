/-
  YAML round trip, part S: `|` block scalars.  The shapes of strings ending in a
  line feed that YAML reads back (`BlockShapeOK`, `BlockOK`), and `readBlockScalar`
  on the lines written for such a string.
-/
import RsjProofs.YamlRoundtripA
namespace Rsj.Yaml
open Rsj.Json

/-- `s` (a string ending in a line feed, `stripSuffixNl s = some body`) is written as
    a `|` scalar that YAML reads back: every character of a line of `body` is an
    `nbChar`; the last line of `body` is not empty (`[]`; it may consist of spaces);
    the first line of `body` that is not blank exists and does not start with a
    space; the lines before it are empty (`[]`, not merely blank). -/
def BlockShapeOK (body : Str) : Prop :=
  (∀ l ∈ linesOf body, ∀ c ∈ l, nbChar c = true) ∧
  (linesOf body).getLast? ≠ some [] ∧
  ∃ (n c : Nat) (t : Str) (T : List Str), linesOf body = List.replicate n [] ++ (c :: t) :: T ∧ c ≠ 32

mutual
/-- every string value either does not end in a line feed or its body has
    `BlockShapeOK` -/
def BlockOK : JVal → Prop
  | .str s => ∀ body, stripSuffixNl s = some body → BlockShapeOK body
  | .arr xs => BlockOKL xs
  | .obj fs => BlockOKF fs
  | _ => True
def BlockOKL : List JVal → Prop
  | [] => True
  | x :: xs => BlockOK x ∧ BlockOKL xs
def BlockOKF : List (Str × JVal) → Prop
  | [] => True
  | (_, x) :: xs => BlockOK x ∧ BlockOKF xs
end

mutual
theorem NoBlock.blockOK : (v : JVal) → NoBlock v → BlockOK v
  | .null, _ => trivial
  | .bool _, _ => trivial
  | .num _, _ => trivial
  | .str s, h => by
    rw [NoBlock] at h
    rw [BlockOK]
    intro body hb
    rw [h] at hb; cases hb
  | .arr xs, h => by rw [NoBlock] at h; rw [BlockOK]; exact NoBlockL.blockOKL xs h
  | .obj fs, h => by rw [NoBlock] at h; rw [BlockOK]; exact NoBlockF.blockOKF fs h
theorem NoBlockL.blockOKL : (xs : List JVal) → NoBlockL xs → BlockOKL xs
  | [], _ => trivial
  | x :: xs, h => by
    rw [NoBlockL] at h; rw [BlockOKL]
    exact ⟨NoBlock.blockOK x h.1, NoBlockL.blockOKL xs h.2⟩
theorem NoBlockF.blockOKF : (fs : List (Str × JVal)) → NoBlockF fs → BlockOKF fs
  | [], _ => trivial
  | (_, x) :: xs, h => by
    rw [NoBlockF] at h; rw [BlockOKF]
    exact ⟨NoBlock.blockOK x h.1, NoBlockF.blockOKF xs h.2⟩
end

/-- the lines left by a reader: the given ones, except that a final empty line may
    have been taken by a `|` scalar -/
def Rel (R R' : List Str) : Prop := R' = R ∨ (R = [[]] ∧ R' = [])

theorem Rel.refl (R : List Str) : Rel R R := Or.inl rfl

theorem Rel.nil {R' : List Str} (h : Rel [] R') : R' = [] := by
  rcases h with h | ⟨h, _⟩
  · exact h
  · cases h

theorem Rel.allBlank {R' : List Str} (h : Rel [[]] R') : allBlank R' = true := by
  rcases h with rfl | ⟨_, rfl⟩ <;> rfl

/-! ### strings and their lines -/

theorem stripSuffixNl_some : ∀ (s body : Str), stripSuffixNl s = some body → s = body ++ [10]
  | [], _, h => by simp [stripSuffixNl] at h
  | [c], body, h => by
    rw [stripSuffixNl] at h
    split at h
    · next hc => injection h with h; subst h; rw [hc]; rfl
    · cases h
  | c :: d :: r, body, h => by
    rw [stripSuffixNl] at h
    cases hr : stripSuffixNl (d :: r) with
    | none => rw [hr] at h; cases h
    | some b =>
      rw [hr] at h
      simp only [Option.map_some, Option.some.injEq] at h
      subst h
      rw [stripSuffixNl_some (d :: r) b hr]
      rfl

theorem joinNl_linesOf : ∀ (s : Str), joinNl (linesOf s) = s
  | [] => rfl
  | c :: r => by
    have ih := joinNl_linesOf r
    unfold linesOf at ih ⊢
    rw [splitNl]
    by_cases hc : c = 10
    · simp only [hc, if_true]
      rw [joinNl, ih]; rfl
    · simp only [hc, if_false]
      rw [joinNl_cons] at ih ⊢
      rw [List.cons_append, ih]

/-! ### indentation in front of arbitrary lines -/

theorem spaces_succ (n : Nat) : spaces (n + 1) = 32 :: spaces n := by
  simp [spaces, List.replicate_succ]

theorem countSp_spaces_append (n : Nat) (l : Str) : countSp (spaces n ++ l) = n + countSp l := by
  induction n with
  | zero => simp [spaces]
  | succ n ih => rw [spaces_succ, List.cons_append, countSp, if_pos rfl, ih]; omega

theorem dropSp_spaces_append (n : Nat) (l : Str) : dropSp (spaces n ++ l) = dropSp l := by
  induction n with
  | zero => simp [spaces]
  | succ n ih => rw [spaces_succ, List.cons_append, dropSp, if_pos rfl, ih]

theorem drop_spaces_append (n : Nat) (l : Str) : (spaces n ++ l).drop n = l := by
  induction n with
  | zero => simp [spaces]
  | succ n ih => rw [spaces_succ, List.cons_append, List.drop_succ_cons, ih]

/-! ### the pieces of `readBlockScalar` -/

theorem blockIndent_pref (m : Nat) (c : Nat) (t : Str) (hc : c ≠ 32) (T R : List Str) :
    ∀ n, blockIndent ((List.replicate n [] ++ (c :: t) :: T).map (fun l => spaces m ++ l) ++ R) = some m
  | 0 => by
    simp only [List.replicate_zero, List.nil_append, List.map_cons, List.cons_append]
    rw [blockIndent, dropSp_spaces_append, countSp_spaces_append]
    simp [dropSp, countSp, hc]
  | n + 1 => by
    simp only [List.replicate_succ, List.cons_append, List.map_cons]
    rw [blockIndent, dropSp_spaces_append]
    simp only [dropSp, if_true]
    exact blockIndent_pref m c t hc T R n

theorem leadingOk_pref (m : Nat) (c : Nat) (t : Str) (hc : c ≠ 32) (T R : List Str) :
    ∀ n, leadingOk m ((List.replicate n [] ++ (c :: t) :: T).map (fun l => spaces m ++ l) ++ R) = true
  | 0 => by
    simp only [List.replicate_zero, List.nil_append, List.map_cons, List.cons_append]
    rw [leadingOk, dropSp_spaces_append]
    simp [dropSp, hc]
  | n + 1 => by
    simp only [List.replicate_succ, List.cons_append, List.map_cons]
    rw [leadingOk, dropSp_spaces_append, countSp_spaces_append]
    simp only [dropSp, if_true, countSp, Nat.add_zero, Nat.le_refl, decide_true, Bool.true_and]
    exact leadingOk_pref m c t hc T R n

theorem takeBlock_pref (m : Nat) (R : List Str) :
    ∀ Ls : List Str, takeBlock m (Ls.map (fun l => spaces m ++ l) ++ R)
      = (Ls ++ (takeBlock m R).1, (takeBlock m R).2)
  | [] => by simp
  | l :: Ls => by
    rw [List.map_cons, List.cons_append, takeBlock,
      if_pos (Or.inr (by rw [countSp_spaces_append]; omega)), takeBlock_pref m R Ls, drop_spaces_append]
    rfl

theorem takeBlock_blank (m : Nat) : takeBlock m [[]] = ([[]], []) := by
  simp [takeBlock, dropSp]

theorem takeBlock_stop (m : Nat) (l : Str) (ls : List Str) (h1 : dropSp l ≠ []) (h2 : countSp l < m) :
    takeBlock m (l :: ls) = ([], l :: ls) := by
  rw [takeBlock, if_neg]
  rintro (h | h)
  · exact h1 h
  · omega

theorem stripTrailing_snoc : ∀ L : List Str, stripTrailing (L ++ [[]]) = stripTrailing L
  | [] => by simp [stripTrailing]
  | l :: L => by
    rw [List.cons_append, stripTrailing, stripTrailing_snoc L]
    conv => rhs; rw [stripTrailing]

theorem stripTrailing_self : ∀ L : List Str, L.getLast? ≠ some [] → stripTrailing L = L
  | [], _ => rfl
  | [l], h => by
    have hl : l ≠ [] := by intro e; apply h; rw [e]; rfl
    simp [stripTrailing, hl]
  | l :: l' :: L, h => by
    have ih := stripTrailing_self (l' :: L) (by rw [List.getLast?_cons_cons] at h; exact h)
    rw [stripTrailing, ih]

/-- **`readBlockScalar` on the lines of a `|` scalar** with content indentation `m`,
    followed by `R`: a non-blank line that is indented less, or the final empty
    line (which the scalar swallows). -/
theorem readBlockScalar_block {body : Str} (hs : BlockShapeOK body) (m mi : Nat) (hmi : mi ≤ m) (R : List Str)
    (hR : R = [[]] ∨ ∃ l ls, R = l :: ls ∧ dropSp l ≠ [] ∧ countSp l < m) :
    ∃ R', readBlockScalar mi ((linesOf body).map (fun l => spaces m ++ l) ++ R) = some (body ++ [10], R') ∧
      Rel R R' := by
  obtain ⟨hnb, hlast, n, c, t, T, hL, hc⟩ := hs
  have hbi : blockIndent ((linesOf body).map (fun l => spaces m ++ l) ++ R) = some m := by
    rw [hL]; exact blockIndent_pref m c t hc T R n
  have hlo : leadingOk m ((linesOf body).map (fun l => spaces m ++ l) ++ R) = true := by
    rw [hL]; exact leadingOk_pref m c t hc T R n
  have hall : (linesOf body).all (fun l => l.all nbChar) = true := by
    rw [List.all_eq_true]
    intro l hl
    rw [List.all_eq_true]
    exact hnb l hl
  unfold readBlockScalar
  rw [hbi]
  simp only []
  rw [if_neg (by omega), hlo, takeBlock_pref]
  simp only [Bool.not_true, Bool.false_eq_true, if_false]
  rcases hR with rfl | ⟨l, ls, rfl, h1, h2⟩
  · refine ⟨[], ?_, Or.inr ⟨rfl, rfl⟩⟩
    rw [takeBlock_blank]
    simp only []
    rw [stripTrailing_snoc, stripTrailing_self _ hlast, hall]
    simp only [Bool.not_true, Bool.false_eq_true, if_false, joinNl_linesOf]
    simp
  · refine ⟨l :: ls, ?_, Or.inl rfl⟩
    rw [takeBlock_stop m l ls h1 h2]
    simp only [List.append_nil]
    rw [stripTrailing_self _ hlast, hall]
    simp only [Bool.not_true, Bool.false_eq_true, if_false, joinNl_linesOf]
    simp

end Rsj.Yaml
