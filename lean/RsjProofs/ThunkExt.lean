/-
  Extending a store by one thunk (used by the alias / dead-thunk theorems of C04).
-/
import RsjProofs.Thunk
namespace Rsj.Thunk

/-- The store with one more thunk (state `x`, run counter `r`) appended. -/
def St.extend (s : St) (x : TState) (r : Nat) : St :=
  { states := s.states ++ [x], runs := s.runs ++ [r], traces := s.traces }

theorem modify_append_left {α} (l1 l2 : List α) (f : α → α) {i : Nat} (h : i < l1.length) :
    (l1 ++ l2).modify i f = l1.modify i f ++ l2 := by
  apply List.ext_getElem?
  intro j
  simp only [List.getElem?_modify, List.getElem?_append, List.length_modify]
  by_cases hj : j < l1.length
  · simp [hj]
  · simp only [hj, if_false]
    have : i ≠ j := by omega
    simp [this]

theorem modify_append_length {α} (l1 : List α) (a : α) (f : α → α) :
    (l1 ++ [a]).modify l1.length f = l1 ++ [f a] := by
  apply List.ext_getElem?
  intro j
  simp only [List.getElem?_modify, List.getElem?_append]
  by_cases hj : j < l1.length
  · have : l1.length ≠ j := by omega
    simp [hj, this]
  · simp only [hj, if_false]
    by_cases hj2 : j = l1.length
    · subst hj2; simp
    · have : l1.length ≠ j := fun h => hj2 h.symm
      obtain ⟨k, hk⟩ : ∃ k, j - l1.length = k + 1 := ⟨j - l1.length - 1, by omega⟩
      simp [this, hk]

theorem extend_emit (s : St) (x r m) : (s.extend x r).emit m = (s.emit m).extend x r := rfl

theorem extend_mark_lt {s : St} (x r) {u : Nat} (h1 : u < s.states.length) (h2 : u < s.runs.length) :
    mark (s.extend x r) u = (mark s u).extend x r := by
  simp only [mark, St.extend, St.setState, St.bump]
  rw [List.set_append_left _ _ h1, modify_append_left _ _ _ h2]

theorem extend_setState_lt {s : St} (x r) {u : Nat} (y : TState) (h1 : u < s.states.length) :
    (s.extend x r).setState u y = (s.setState u y).extend x r := by
  simp only [St.extend, St.setState]
  rw [List.set_append_left _ _ h1]

theorem extend_mark_new {s : St} (x r) (h : s.runs.length = s.states.length) :
    mark (s.extend x r) s.states.length = s.extend .inProgress (r + 1) := by
  simp only [mark, St.extend, St.setState, St.bump]
  rw [List.set_append_right _ _ (Nat.le_refl _), ← h, modify_append_length]
  simp

theorem extend_setState_new (s : St) (x r) (y : TState) :
    (s.extend x r).setState s.states.length y = s.extend y r := by
  simp only [St.extend, St.setState]
  rw [List.set_append_right _ _ (Nat.le_refl _)]
  simp

theorem st_extend_lt {s : St} (x r) {u : Nat} (h : u < s.states.length) :
    (s.extend x r).st u = s.st u := by
  unfold St.st St.extend; simp [List.getElem?_append, h]

theorem st_extend_new (s : St) (x r) : (s.extend x r).st s.states.length = some x := by
  unfold St.st St.extend; simp

theorem st_extend_gt {s : St} (x r) {u : Nat} (h : s.states.length < u) :
    (s.extend x r).st u = none := by
  unfold St.st St.extend
  rw [List.getElem?_eq_none]; simp; omega

/-- Computation `p` never forces thunk `n`. -/
inductive NoRef (n : Nat) : Prog → Prop
  | ret (v : Val) : NoRef n (.ret v)
  | fail (e : Nat) : NoRef n (.fail e)
  | trace (m : Nat) {k : Prog} : NoRef n k → NoRef n (.trace m k)
  | force (u : Nat) {k : Val → Prog} : u ≠ n → (∀ v, NoRef n (k v)) → NoRef n (.force u k)

theorem runProg_dead {f g : Nat → St → Res} {n : Nat} {x : TState} {r0 : Nat}
    (hm : ∀ u s, Mono s (f u s).2)
    (hfg : ∀ u s r s', u ≠ n → s.states.length = n → s.runs.length = n → f u s = (r, s') →
      g u (s.extend x r0) = (r, s'.extend x r0)) :
    ∀ p, NoRef n p → ∀ s r s', s.states.length = n → s.runs.length = n →
      runProg f p s = (r, s') → runProg g p (s.extend x r0) = (r, s'.extend x r0) := by
  intro p hp
  induction hp with
  | ret v => intro s r s' _ _ e; cases e; rfl
  | fail e => intro s r s' _ _ e; cases e; rfl
  | trace m _ ih =>
    intro s r s' h1 h2 e
    rw [runProg_trace, extend_emit]
    exact ih _ r s' h1 h2 e
  | @force u k hu _ ih =>
    intro s r s' h1 h2 e
    rcases res_cases (f u s) with ⟨v, s1, e1⟩ | ⟨e', s1, e1⟩
    · rw [runProg_force_ok e1] at e
      have m1 : Mono s s1 := by have := hm u s; rwa [e1] at this
      rw [runProg_force_ok (hfg u s _ _ hu h1 h2 e1)]
      exact ih v s1 r s' (m1.len.trans h1) (m1.rlen.trans h2) e
    · rw [runProg_force_error e1] at e
      cases e
      rw [runProg_force_error (hfg u s _ _ hu h1 h2 e1)]

/-- Adding a thunk that no computation refers to changes nothing, with the
    same headroom, whatever its own computation and state are. -/
theorem force_dead {c c' : Code} {n : Nat} {x : TState} {r0 : Nat}
    (hc : ∀ u, u ≠ n → c' u = c u) (hno : ∀ u, u ≠ n → NoRef n (c u)) :
    ∀ h u s r s', u ≠ n → s.states.length = n → s.runs.length = n → force c h u s = (r, s') →
      force c' h u (s.extend x r0) = (r, s'.extend x r0) := by
  have hst : ∀ (s : St) u, u ≠ n → s.states.length = n → (s.extend x r0).st u = s.st u := by
    intro s u hu hl
    rcases Nat.lt_or_ge u n with h | h
    · exact st_extend_lt x r0 (by rw [hl]; exact h)
    · rw [st_extend_gt x r0 (by rw [hl]; omega)]
      unfold St.st
      rw [List.getElem?_eq_none (by rw [hl]; exact h)]
  intro h
  induction h with
  | zero =>
    intro u s r s' hu h1 h2 hf
    have := hst s u hu h1
    rcases st_cases s u with h | h | h | ⟨v, h⟩
    · rw [force_none h] at hf; cases hf; exact force_none (by rw [this, h])
    · rw [force_zero_pending h] at hf; cases hf; exact force_zero_pending (by rw [this, h])
    · rw [force_zero_inProgress h] at hf; cases hf; exact force_zero_inProgress (by rw [this, h])
    · rw [force_done h] at hf; cases hf; exact force_done (by rw [this, h])
  | succ m ih =>
    intro u s r s' hu h1 h2 hf
    have := hst s u hu h1
    rcases st_cases s u with h | h | h | ⟨v, h⟩
    · rw [force_none h] at hf; cases hf; exact force_none (by rw [this, h])
    · have hlt := st_some_lt h
      have hmk : mark (s.extend x r0) u = (mark s u).extend x r0 :=
        extend_mark_lt x r0 hlt (by rw [h2, ← h1]; exact hlt)
      have hrun := runProg_dead (x := x) (r0 := r0) (force_mono_st c m) ih (c u) (hno u hu) (mark s u)
      rw [force_succ_pending (by rw [this, h]), hc u hu, hmk]
      rcases force_pending_cases (code := c) (n := m) h with ⟨v, s2, e, h3, e2⟩ | ⟨e', s2, e, h3, e2⟩
      · rw [e2] at hf; cases hf
        rw [hrun _ _ (by simpa using h1) (by simpa using h2) e]
        simp only [finish_ok]
        rw [extend_setState_lt _ _ _ (st_some_lt h3)]
      · rw [e2] at hf; cases hf
        rw [hrun _ _ (by simpa using h1) (by simpa using h2) e]; rfl
    · rw [force_succ_inProgress h] at hf; cases hf; exact force_succ_inProgress (by rw [this, h])
    · rw [force_done h] at hf; cases hf; exact force_done (by rw [this, h])

end Rsj.Thunk
