import RsjProofs.EvalNoNaNEvalA
import RsjProofs.EvalNoNaNEvalC
import RsjProofs.EvalNoNaNEvalD
import RsjProofs.EvalNoNaNEvalB
import RsjProofs.EvalNoNaNCall
/-!
  "partial_cmp of NaN": one level of the evaluator, every fuel, requests and programs keep the
  store NaN-free and never compare a NaN.
-/
open Std.Do
set_option mvcgen.warning false
namespace Rsj.Eval.NoNaN
open Rsj.Core Rsj.Eval Rsj.Eval.Scope

/-- one level of the evaluator, if the recursive calls do -/
theorem step_nn (F : FloatNaNFacts) (hp : PureNaNFree) (cfg : Cfg) (rec : Task → M Value) (hrec : RecOk3 rec) :
    RecOk3 (step cfg rec) := by
  intro t hT
  cases t with
  | force t d => exact step_force_nn F hp cfg rec hrec t d hT
  | asserts o d => exact step_asserts_nn F hp cfg rec hrec o d hT
  | deep v d => exact step_deep_nn F hp cfg rec hrec v d hT
  | manifest v d c => exact step_manifest_nn F hp cfg rec hrec v d c hT
  | equals a b d => exact step_equals_nn F hp cfg rec hrec a b d hT
  | compare a b d => exact step_compare_nn F hp cfg rec hrec a b d hT
  | eval e env tail d =>
    cases e with
    | null => exact eval_null_nn F hp cfg rec hrec env tail d
    | true_ => exact eval_true_nn F hp cfg rec hrec env tail d
    | false_ => exact eval_false_nn F hp cfg rec hrec env tail d
    | self_ => exact eval_self_nn F hp cfg rec hrec env tail d
    | dollar => exact eval_dollar_nn F hp cfg rec hrec env tail d
    | str s => exact eval_str_nn F hp cfg rec hrec s env tail d
    | num f => exact eval_num_nn F hp cfg rec hrec f env tail d
    | paren e => exact eval_paren_nn F hp cfg rec hrec e env tail d
    | object ms => exact eval_object_nn F hp cfg rec hrec ms env tail d
    | objectComp l n p b sp => exact eval_objectComp_nn F hp cfg rec hrec l n p b sp env tail d
    | array items => exact eval_array_nn F hp cfg rec hrec items env tail d
    | arrayComp b sp => exact eval_arrayComp_nn F hp cfg rec hrec b sp env tail d
    | field e n => exact eval_field_nn F hp cfg rec hrec e n env tail d
    | index e i => exact eval_index_nn F hp cfg rec hrec e i env tail d
    | slice e a b c => exact eval_slice_nn F hp cfg rec hrec e a b c env tail d
    | superField n => exact eval_superField_nn F hp cfg rec hrec n env tail d
    | superIndex i => exact eval_superIndex_nn F hp cfg rec hrec i env tail d
    | call ce args ts => exact eval_call_nn F hp cfg rec hrec ce args ts env tail d
    | var n => exact eval_var_nn F hp cfg rec hrec n env tail d
    | local_ bs body => exact eval_local_nn F hp cfg rec hrec bs body env tail d
    | if_ c t e => exact eval_if_nn F hp cfg rec hrec c t e env tail d
    | binary op a b => exact eval_binary_nn F hp cfg rec hrec op a b env tail d
    | unary op a => exact eval_unary_nn F hp cfg rec hrec op a env tail d
    | objExt e ms => exact eval_objExt_nn F hp cfg rec hrec e ms env tail d
    | func ps body => exact eval_func_nn F hp cfg rec hrec ps body env tail d
    | assert_ c m i => exact eval_assert_nn F hp cfg rec hrec c m i env tail d
    | error_ e => exact eval_error_nn F hp cfg rec hrec e env tail d
    | inSuper e => exact eval_inSuper_nn F hp cfg rec hrec e env tail d
    | importLit k => exact eval_importLit_nn F hp cfg rec hrec k env tail d
    | importTextBlock k => exact eval_importTextBlock_nn F hp cfg rec hrec k env tail d
    | importComputed k e => exact eval_importComputed_nn F hp cfg rec hrec k e env tail d
    | builtin b args => exact eval_builtin_nn F hp cfg rec hrec b args env tail d

/-- every fuel -/
theorem run_nn (F : FloatNaNFacts) (hp : PureNaNFree) (cfg : Cfg) (n : Nat) : RecOk3 (run cfg n) := by
  induction n with
  | zero =>
    intro t hT
    unfold Q3
    exact bottom_spec _ _ _
  | succ k ih =>
    intro t hT
    have h2 : ∀ (t : Task), TaskNN t → ⦃fun st => ⌜NN st⌝⦄ step cfg (run cfg k) t ⦃Q3 VNN⦄ :=
      step_nn F hp cfg (run cfg k) ih
    show ⦃fun st => ⌜NN st⌝⦄ stepN cfg (run cfg k) t ⦃Q3 VNN⦄
    unfold stepN
    mvcgen [h2]
    all_goals vcp
    all_goals first
      | oclose
      | exact (h2 _ hT) _ (by assumption)

theorem requestProg_nn (F : FloatNaNFacts) (hp : PureNaNFree) (cfg : Cfg) (fuel : Nat) (t : TId) :
    ⦃fun st => ⌜NN st⌝⦄ requestProg cfg fuel t ⦃Q3 (fun _ => True)⦄ := by
  have hr : ∀ (t : Task), TaskNN t → ⦃fun st => ⌜NN st⌝⦄ run cfg fuel t ⦃Q3 VNN⦄ := run_nn F hp cfg fuel
  unfold requestProg
  mvcgen [hr]
  all_goals (try clear hr)
  all_goals vcp
  all_goals oclose

theorem programProg_nn (F : FloatNaNFacts) (hp : PureNaNFree) (cfg : Cfg) (fuel : Nat) (e : Expr) :
    ⦃fun st => ⌜NN st⌝⦄ programProg cfg fuel e ⦃Q3 (fun _ => True)⦄ := by
  have h3 := requestProg_nn F hp cfg fuel
  unfold programProg
  mvcgen [h3]
  all_goals (try clear h3)
  all_goals vcp
  all_goals oclose

end Rsj.Eval.NoNaN
