import RsjProofs.EvalSafeStep3
/-!
  C01 on the evaluator model: `step` on the `equals` and `compare` tasks keeps every identifier in
  range; they return a boolean, a number.
-/
open Std.Do
set_option mvcgen.warning false
namespace Rsj.Eval.Safe
open Rsj.Core Rsj.Eval Rsj.Eval.Scope

section
variable (cfg : Cfg) (rec : Task → M Value) (hrec : RecOk2 rec)
include hrec

set_option maxHeartbeats 2000000 in
theorem step_equals2 (s : St) (a b : Value) (d : Nat) (hS : Safe s) (hT : TaskOk2 s (.equals a b d)) :
    ⦃fun st => ⌜st = s⌝⦄ step cfg rec (.equals a b d)
      ⦃Q2 s (fun v st => ValOk st.thunks.size st.objs.size st.funcs.size v ∧ ResKind (.equals a b d) v)⦄ := by
  have g1 := getThunk_spec2
  have g2 := checkDepth_spec2
  have g3 := fieldThunk_spec2
  have g4 := getObj_spec2
  have g5 := numText_spec2
  have h1 := recStr_spec2 rec hrec
  have h8 := compareLists_spec2 cfg rec hrec
  have hr := rec_spec2 rec hrec
  qstart2
  wcase

set_option maxHeartbeats 2000000 in
theorem step_compare2 (s : St) (a b : Value) (d : Nat) (hS : Safe s) (hT : TaskOk2 s (.compare a b d)) :
    ⦃fun st => ⌜st = s⌝⦄ step cfg rec (.compare a b d)
      ⦃Q2 s (fun v st => ValOk st.thunks.size st.objs.size st.funcs.size v ∧ ResKind (.compare a b d) v)⦄ := by
  have g1 := getThunk_spec2
  have g2 := checkDepth_spec2
  have g3 := fieldThunk_spec2
  have g4 := getObj_spec2
  have g5 := numText_spec2
  have h1 := recStr_spec2 rec hrec
  have h8 := compareLists_spec2 cfg rec hrec
  have hr := rec_spec2 rec hrec
  qstart2
  wcase

theorem step_walk2 (s : St) (t : Task) (hS : Safe s) (hT : TaskOk2 s t)
    (ht : match t with | .deep .. | .manifest .. | .equals .. | .compare .. => True | _ => False) :
    ⦃fun st => ⌜st = s⌝⦄ step cfg rec t
      ⦃Q2 s (fun v st => ValOk st.thunks.size st.objs.size st.funcs.size v ∧ ResKind t v)⦄ := by
  cases t with
  | deep v d => exact step_deep2 cfg rec hrec s v d hS hT
  | manifest v d c => exact step_manifest2 cfg rec hrec s v d c hS hT
  | equals a b d => exact step_equals2 cfg rec hrec s a b d hS hT
  | compare a b d => exact step_compare2 cfg rec hrec s a b d hS hT
  | force => exact ht.elim
  | asserts => exact ht.elim
  | eval => exact ht.elim

end
end Rsj.Eval.Safe
