/-
  C08 on the evaluator model, part 3: one level of `step` for the tasks `equals` / `compare`
  and for the comparison operators, unfolded once and for all.  The `for` loops of `equals`
  are restated as recursive equations (`eqArrLoop_cons`, `eqObjLoop_cons`); the definitions
  below are written with the same `do` blocks as the arms of `step`, so that the connecting
  equations hold by `rfl`.
-/
import RsjProofs.EvalCompareAbs
set_option linter.unusedVariables false
namespace Rsj.Eval.Cmp
open Rsj.Core Rsj.Eval

/-! ### `equals` -/

/-- the loop of `EqualsArray` over the zipped element thunks -/
def eqArrLoop (cfg : Cfg) (rec : Task → M Value) (d : Nat) (l : List (TId × TId)) : M Value := do
  for (x, y) in l do
    checkDepth cfg (d + 1)
    let xv ← rec (.force x (d + 1))
    let yv ← rec (.force y (d + 1))
    match ← rec (.equals xv yv (d + 1)) with
    | .bool true => pure ()
    | _ => return .bool false
  pure (.bool true)

theorem step_equals_arr (cfg : Cfg) (rec : Task → M Value) (xs ys : List TId) (d : Nat) :
    step cfg rec (.equals (.arr xs) (.arr ys) d) =
      if xs.length != ys.length then pure (.bool false) else eqArrLoop cfg rec d (xs.zip ys) := rfl

theorem eqArrLoop_nil (cfg : Cfg) (rec : Task → M Value) (d : Nat) :
    eqArrLoop cfg rec d [] = pure (.bool true) := rfl

theorem eqArrLoop_cons (cfg : Cfg) (rec : Task → M Value) (d : Nat) (x y : TId) (l : List (TId × TId)) :
    eqArrLoop cfg rec d ((x, y) :: l) = (do
      checkDepth cfg (d + 1)
      let xv ← rec (.force x (d + 1))
      let yv ← rec (.force y (d + 1))
      match ← rec (.equals xv yv (d + 1)) with
      | .bool true => eqArrLoop cfg rec d l
      | _ => pure (.bool false)) := by
  simp only [eqArrLoop, List.forIn_cons, bind_assoc]
  refine bind_congr fun _ => bind_congr fun xv => bind_congr fun yv => bind_congr fun v => ?_
  cases v with
  | bool b => cases b <;> simp
  | _ => simp

/-- the loop of `EqualsObject` over the visible field names; `first0`: the assertions of both
    objects are still to be checked (done in the first iteration) -/
def eqObjLoop (cfg : Cfg) (rec : Task → M Value) (d : Nat) (x y : OId) (first0 : Bool)
    (names : List String) : M Value := do
  let mut first := first0
  for name in names do
    checkDepth cfg (d + 1)
    if first then
      let _ ← rec (.asserts x (d + 1))
      let _ ← rec (.asserts y (d + 1))
      first := false
    let some xt ← fieldThunk x 0 name | throw (.internal "visible field without thunk")
    let some yt ← fieldThunk y 0 name | throw (.internal "visible field without thunk")
    let xv ← rec (.force xt (d + 1))
    let yv ← rec (.force yt (d + 1))
    match ← rec (.equals xv yv (d + 1)) with
    | .bool true => pure ()
    | _ => return .bool false
  pure (.bool true)

theorem step_equals_obj (cfg : Cfg) (rec : Task → M Value) (x y : OId) (d : Nat) :
    step cfg rec (.equals (.obj x) (.obj y) d) = (do
      let xf := visibleFields (← getObj x)
      let yf := visibleFields (← getObj y)
      if xf != yf then pure (.bool false) else eqObjLoop cfg rec d x y true xf) := rfl

theorem eqObjLoop_nil (cfg : Cfg) (rec : Task → M Value) (d : Nat) (x y : OId) (b : Bool) :
    eqObjLoop cfg rec d x y b [] = pure (.bool true) := rfl

/-- one field of the loop (after the assertions), continuing with `k` when the field values are equal -/
def eqObjField (rec : Task → M Value) (d : Nat) (x y : OId) (name : String) (k : M Value) : M Value := do
  let some xt ← fieldThunk x 0 name | throw (.internal "visible field without thunk")
  let some yt ← fieldThunk y 0 name | throw (.internal "visible field without thunk")
  let xv ← rec (.force xt (d + 1))
  let yv ← rec (.force yt (d + 1))
  match ← rec (.equals xv yv (d + 1)) with
  | .bool true => k
  | _ => pure (.bool false)

theorem eqObjLoop_cons (cfg : Cfg) (rec : Task → M Value) (d : Nat) (x y : OId) (b : Bool)
    (name : String) (l : List String) :
    eqObjLoop cfg rec d x y b (name :: l) = (do
      checkDepth cfg (d + 1)
      if b then
        let _ ← rec (.asserts x (d + 1))
        let _ ← rec (.asserts y (d + 1))
        eqObjField rec d x y name (eqObjLoop cfg rec d x y false l)
      else
        eqObjField rec d x y name (eqObjLoop cfg rec d x y false l)) := by
  simp only [eqObjLoop, eqObjField, List.forIn_cons, bind_assoc]
  refine bind_congr fun _ => ?_
  cases b
  · simp only [Bool.false_eq_true, if_false, bind_assoc]
    refine bind_congr fun xt => ?_
    cases xt with
    | none => simp
    | some xt =>
      simp only [bind_assoc]
      refine bind_congr fun yt => ?_
      cases yt with
      | none => simp
      | some yt =>
        simp only [bind_assoc]
        refine bind_congr fun xv => bind_congr fun yv => bind_congr fun v => ?_
        cases v with
        | bool b => cases b <;> simp
        | _ => simp
  · simp only [if_true, bind_assoc]
    refine bind_congr fun _ => bind_congr fun _ => ?_
    refine bind_congr fun xt => ?_
    cases xt with
    | none => simp
    | some xt =>
      simp only [bind_assoc]
      refine bind_congr fun yt => ?_
      cases yt with
      | none => simp
      | some yt =>
        simp only [bind_assoc]
        refine bind_congr fun xv => bind_congr fun yv => bind_congr fun v => ?_
        cases v with
        | bool b => cases b <;> simp
        | _ => simp

/-- `equals` where no loop is involved -/
def eqFlat (a b : Value) : M Value :=
  match a, b with
  | .null, .null => pure (.bool true)
  | .bool x, .bool y => pure (.bool (x == y))
  | .num x, .num y => pure (.bool (x == y))
  | .str x, .str y => pure (.bool (x == y))
  | .func _, .func _ => throw (.rt "CompareFunctions" "")
  | _, _ => pure (.bool false)

/-- neither two arrays nor two objects -/
def Flat (a b : Value) : Prop :=
  match a, b with
  | .arr _, .arr _ => False
  | .obj _, .obj _ => False
  | _, _ => True

theorem step_equals_flat (cfg : Cfg) (rec : Task → M Value) (a b : Value) (d : Nat) (h : Flat a b) :
    step cfg rec (.equals a b d) = eqFlat a b := by
  cases a <;> cases b <;> first | rfl | exact h.elim

/-! ### `compare` -/

/-- the arms of `CompareValue` -/
def cmpArms (cfg : Cfg) (rec : Task → M Value) (d : Nat) (a b : Value) : M Value :=
  match a, b with
  | .null, .null => throw (.rt "CompareNullInequality" "")
  | .bool _, .bool _ => throw (.rt "CompareBooleanInequality" "")
  | .num x, .num y =>
    if x < y then pure (.num (-1.0)) else if (x == y) = true then pure (.num 0.0)
    else if x > y then pure (.num 1.0) else throw (.internal "partial_cmp of NaN")
  | .str x, .str y => pure (.num (ordF (compare x y)))
  | .arr xs, .arr ys => compareLists cfg rec d xs ys
  | .obj _, .obj _ => throw (.rt "CompareObjectInequality" "")
  | .func _, .func _ => throw (.rt "CompareFunctions" "")
  | l, r => throw (.rt "CompareDifferentTypesInequality" (typeName l ++ "/" ++ typeName r))

theorem step_compare (cfg : Cfg) (rec : Task → M Value) (a b : Value) (d : Nat) :
    step cfg rec (.compare a b d) = cmpArms cfg rec d a b := by
  cases a <;> cases b <;> first | rfl | skip
  rename_i x y
  show pure _ = pure _
  cases compare x y <;> rfl

theorem compareLists_cons (cfg : Cfg) (rec : Task → M Value) (d : Nat) (x y : TId) (xs ys : List TId) :
    compareLists cfg rec d (x :: xs) (y :: ys) = (do
      checkDepth cfg (d + 1)
      let xv ← rec (.force x (d + 1))
      let yv ← rec (.force y (d + 1))
      match ← rec (.compare xv yv (d + 1)) with
      | .num c => if c == 0.0 then compareLists cfg rec d xs ys else pure (.num c)
      | _ => throw (.internal "compare did not return a number")) := by
  rw [compareLists]; rfl

/-! ### the comparison operators -/

/-- the four ordering operators: one three-way comparison, then a test of its sign -/
theorem step_binary_ord (cfg : Cfg) (rec : Task → M Value) (op : BinOp) (a b : Expr) (env : EId)
    (tail : Bool) (d : Nat) (hop : op = .lt ∨ op = .le ∨ op = .gt ∨ op = .ge) :
    step cfg rec (.eval (.binary op a b) env tail d) = (do
      checkDepth cfg (d + 1)
      let av ← rec (.eval a env false (d + 1))
      let bv ← rec (.eval b env false (d + 1))
      match ← rec (.compare av bv (d + 1)) with
      | .num c =>
        pure (.bool (match (generalizing := false) op with
          | .lt => c < 0.0 | .le => c ≤ 0.0 | .gt => c > 0.0 | _ => c ≥ 0.0))
      | _ => throw (.internal "compare did not return a number")) := by
  rcases hop with rfl | rfl | rfl | rfl <;> rfl

/-- `==` and `!=`: one `equals`, negated for `!=` -/
theorem step_binary_eq (cfg : Cfg) (rec : Task → M Value) (op : BinOp) (a b : Expr) (env : EId)
    (tail : Bool) (d : Nat) (hop : op = .eq ∨ op = .ne) :
    step cfg rec (.eval (.binary op a b) env tail d) = (do
      checkDepth cfg (d + 1)
      let av ← rec (.eval a env false (d + 1))
      let bv ← rec (.eval b env false (d + 1))
      match ← rec (.equals av bv (d + 1)) with
      | .bool r => pure (.bool (if op == .eq then r else !r))
      | _ => throw (.internal "equals did not return a bool")) := by
  rcases hop with rfl | rfl <;> rfl

end Rsj.Eval.Cmp
