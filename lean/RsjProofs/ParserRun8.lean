/-
  C15 print/parse, part 8: the induction over fragment trees — closed forms.
-/
import RsjProofs.ParserRun7b
namespace Rsj.Parser

section
variable {toks : List Token} (pe : PState toks → Except (Err toks) (Expr × PState toks)) (R : Nat)

/-- no postfix part -/
theorem SL_nil {t : Expr} (h1 : headOf t = t) (h2 : sufToks t = []) : SLs pe R t := by
  intro lhs st y Y hl hk _ _
  rw [h2] at hk
  rw [h1] at hl
  exact ⟨lhs, st, hl, hk, fun f hf => ⟨f, hf, rfl⟩⟩

/-- everything else for a tree printed the same at every level -/
theorem closed_all {t : Expr} (ht : Frag t) (hcl : ∀ lvl, P t lvl = P t suffixPrec)
    (hd : HDs pe R t) (sl : SLs pe R t) : L10s pe R t ∧ ∀ p, LQat pe R t p := by
  have h11 := L11_of pe R ht hd sl
  have h10 := L10_of_L11 pe R ht (hcl unaryPrec) h11
  exact ⟨h10, fun p => LQat_of_L10 pe R p (by rw [hcl p.prec, hcl unaryPrec]) h10⟩

theorem atom_P {t : Expr} {tk : TokKind} (ha : AtomTok t tk) (lvl : Nat) : P t lvl = [tk] := by
  cases ha <;> simp [P, pr]

theorem atom_head {t : Expr} {tk : TokKind} (ha : AtomTok t tk) : headOf t = t ∧ sufToks t = [] := by
  cases ha <;> exact ⟨rfl, rfl⟩

theorem atom_frag {t : Expr} {tk : TokKind} (ha : AtomTok t tk) : Frag t := by
  cases ha
  · exact .null _
  · exact .bool _ _
  · exact .bool _ _
  · exact .selfObj _
  · exact .dollar _
  · exact .str _ _
  · exact .textBlock _ _
  · exact .number _ _
  · exact .ident _ _

theorem atom_HD {t : Expr} {tk : TokKind} (ha : AtomTok t tk) : HDs pe R t := by
  intro S st y Y hk _
  rw [(atom_head ha).1, atom_P ha] at hk ⊢
  obtain ⟨e', st', he, hk', hprim⟩ := primary_atom pe (.suffix :: S) ha (by simpa using hk)
  exact ⟨e', st', 1, he, hk', by simp, Reach.primary pe (fun f _ => hprim f)⟩

theorem atom_all {t : Expr} {tk : TokKind} (ha : AtomTok t tk) :
    HDs pe R t ∧ SLs pe R t ∧ L10s pe R t ∧ ∀ p, LQat pe R t p := by
  have hd := atom_HD pe R ha
  have sl := SL_nil pe R (atom_head ha).1 (atom_head ha).2
  have := closed_all pe R (atom_frag ha) (fun lvl => by rw [atom_P ha, atom_P ha]) hd sl
  exact ⟨hd, sl, this.1, this.2⟩

theorem superField_all (ssp : Span) (name : Ident) (sp : Span) :
    HDs pe R (.superField ssp name sp) ∧ SLs pe R (.superField ssp name sp) ∧
      L10s pe R (.superField ssp name sp) ∧ ∀ p, LQat pe R (.superField ssp name sp) p := by
  have hd : HDs pe R (.superField ssp name sp) := by
    intro S st y Y hk _
    simp only [headOf] at hk ⊢
    rw [P_superField] at hk ⊢
    obtain ⟨e', st', he, hk', hprim⟩ := primary_superField pe (v := name.value) (.suffix :: S)
      (by simpa using hk)
    refine ⟨e', st', 1, ?_, hk', by simp, Reach.primary pe (fun f _ => hprim f)⟩
    rw [he]; simp [Expr.erase, Ident.erase]
  have sl := SL_nil pe R (t := .superField ssp name sp) rfl rfl
  have := closed_all pe R (.superField ssp name sp) (fun lvl => by rw [P_superField, P_superField]) hd sl
  exact ⟨hd, sl, this.1, this.2⟩

theorem superIndex_all (ssp : Span) {i : Expr} (sp : Span) (hi : Frag i) (hh : Handles pe R i) :
    HDs pe R (.superIndex ssp i sp) ∧ SLs pe R (.superIndex ssp i sp) ∧
      L10s pe R (.superIndex ssp i sp) ∧ ∀ p, LQat pe R (.superIndex ssp i sp) p := by
  have hd : HDs pe R (.superIndex ssp i sp) := by
    intro S st y Y hk hR
    simp only [headOf] at hk ⊢
    rw [P_superIndex] at hk ⊢
    have hk0 : st.kinds = sim .Super :: sim .LeftBracket :: (P i 0 ++ sim .RightBracket :: y :: Y) := by
      rw [hk]; simp
    have hne : P i 0 ++ sim .RightBracket :: y :: Y ≠ [] := by simp
    obtain ⟨e', st', he, hk', hprim⟩ := primary_superIndex pe (ie := i.erase) (b := y) (ks := Y) (.suffix :: S) hk0 hne
      (by
        intro st2 hk2
        obtain ⟨i', st3, h1, h2, h3⟩ := hh st2 (sim .RightBracket) (y :: Y) hk2
          (by rw [hk2]; rw [hk0] at hR; simp at hR ⊢; omega) stopTok_rbracket
        exact ⟨i', st3, h1, h3, h2⟩)
    refine ⟨e', st', 1, ?_, hk', by simp; omega, Reach.primary pe (fun f _ => hprim f)⟩
    rw [he]; simp [Expr.erase]
  have sl := SL_nil pe R (t := .superIndex ssp i sp) rfl rfl
  have := closed_all pe R (.superIndex ssp sp hi) (fun lvl => by rw [P_superIndex, P_superIndex]) hd sl
  exact ⟨hd, sl, this.1, this.2⟩

theorem paren_all {e : Expr} (sp : Span) (he : Frag e) (LQ0 : LQat pe R e initKind) :
    HDs pe R (.paren e sp) ∧ SLs pe R (.paren e sp) ∧ L10s pe R (.paren e sp) ∧
      ∀ p, LQat pe R (.paren e sp) p := by
  have hd : HDs pe R (.paren e sp) := by
    intro S st y Y hk hR
    simp only [headOf] at hk ⊢
    rw [P_paren] at hk ⊢
    obtain ⟨h', st1, n, h1, h2, h3, h4⟩ := paren_head pe R he LQ0 S st y Y hk hR
    exact ⟨h', st1, n, by rw [h1]; simp [Expr.erase], h2, h3, h4⟩
  have sl := SL_nil pe R (t := .paren e sp) rfl rfl
  have := closed_all pe R (.paren sp he) (fun lvl => by rw [P_paren, P_paren]) hd sl
  exact ⟨hd, sl, this.1, this.2⟩


theorem field_all {e : Expr} (name : Ident) (sp : Span) (he : Frag e) (hd : HDs pe R e) (sl : SLs pe R e) :
    HDs pe R (.field e name sp) ∧ SLs pe R (.field e name sp) ∧ L10s pe R (.field e name sp) ∧
      ∀ p, LQat pe R (.field e name sp) p := by
  have hd' : HDs pe R (.field e name sp) := hd
  have sl' : SLs pe R (.field e name sp) := by
    intro lhs st y Y hl hk hR _
    have hk0 : st.kinds = sufToks e ++ sim .Dot :: (.ident name.value :: y :: Y) := by
      rw [hk]; simp [sufToks]
    obtain ⟨e', st1, he', hk1, hsl⟩ := sl lhs st (sim .Dot) (.ident name.value :: y :: Y) hl hk0 hR (by decide)
    obtain ⟨sp1, sp2, st2, hk2, hstep⟩ := suffix_field pe e' hk1
    refine ⟨.field e' ⟨name.value, sp1⟩ sp2, st2, ?_, hk2, ?_⟩
    · simp [Expr.erase, he', Ident.erase]
    · intro f hf
      obtain ⟨f', hf', heq⟩ := hsl f hf
      obtain ⟨f'', rfl⟩ : ∃ f'', f' = f'' + 1 := ⟨f' - 1, by rw [hk1] at hf'; simp at hf'; omega⟩
      refine ⟨f'', ?_, by rw [heq, hstep f'']⟩
      rw [hk1] at hf'; rw [hk2]; simp at hf' ⊢; omega
  have := closed_all pe R (.field name sp he) (fun lvl => by rw [P_field he, P_field he]) hd' sl'
  exact ⟨hd', sl', this.1, this.2⟩

theorem index_all {e i : Expr} (sp : Span) (he : Frag e) (hi : Frag i) (hh : Handles pe R i)
    (hd : HDs pe R e) (sl : SLs pe R e) :
    HDs pe R (.index e i sp) ∧ SLs pe R (.index e i sp) ∧ L10s pe R (.index e i sp) ∧
      ∀ p, LQat pe R (.index e i sp) p := by
  have hd' : HDs pe R (.index e i sp) := hd
  have sl' : SLs pe R (.index e i sp) := by
    intro lhs st y Y hl hk hR _
    obtain ⟨x, X, hx⟩ : ∃ x X, P i 0 = x :: X := by
      have := (first_tok hi 0).1
      cases hp : P i 0 with
      | nil => rw [hp] at this; exact this.elim
      | cons a l => exact ⟨a, l, rfl⟩
    have hxs : ExprStart x := by
      have := (first_tok hi 0).1
      rw [hx] at this
      exact this.1
    have hk0 : st.kinds = sufToks e ++ sim .LeftBracket :: (P i 0 ++ sim .RightBracket :: y :: Y) := by
      rw [hk]; simp [sufToks]
    obtain ⟨e', st1, he', hk1, hsl⟩ := sl lhs st (sim .LeftBracket) (P i 0 ++ sim .RightBracket :: y :: Y) hl hk0 hR
      (by decide)
    have hlen1 : st1.kinds.length ≤ R := by
      have : st1.kinds.length ≤ st.kinds.length := by rw [hk1, hk0]; simp
      omega
    have hk1' : st1.kinds = sim .LeftBracket :: x :: (X ++ sim .RightBracket :: y :: Y) := by
      rw [hk1, hx]; simp
    obtain ⟨i', sp', st2, hi', hk2, hstep⟩ := suffix_index pe (ie := i.erase) (b := y) (ks := Y) e' hk1' hxs
      (by
        intro st3 hk3
        obtain ⟨i', st4, h1, h2, h3⟩ := hh st3 (sim .RightBracket) (y :: Y)
          (by rw [hk3, hx]; simp)
          (by rw [hk3]; rw [hk1'] at hlen1; simp at hlen1 ⊢; omega) stopTok_rbracket
        exact ⟨i', st4, h1, h3, h2⟩)
    refine ⟨.index e' i' sp', st2, ?_, hk2, ?_⟩
    · simp [Expr.erase, he', hi']
    · intro f hf
      obtain ⟨f', hf', heq⟩ := hsl f hf
      obtain ⟨f'', rfl⟩ : ∃ f'', f' = f'' + 1 := ⟨f' - 1, by rw [hk1] at hf'; simp at hf'; omega⟩
      refine ⟨f'', ?_, by rw [heq, hstep f'']⟩
      rw [hk1] at hf'; rw [hk2]; simp at hf' ⊢; omega
  have := closed_all pe R (.index sp he hi) (fun lvl => by rw [P_index he, P_index he]) hd' sl'
  exact ⟨hd', sl', this.1, this.2⟩

theorem unary_all {x : Expr} (op : UnaryOp) (sp : Span) (hx : Frag x) (h10x : L10s pe R x) :
    HDs pe R (.unary op x sp) ∧ SLs pe R (.unary op x sp) ∧ L10s pe R (.unary op x sp) ∧
      ∀ p, LQat pe R (.unary op x sp) p := by
  have ht : Frag (.unary op x sp) := .unary op sp hx
  have hbare : ∀ lvl, ¬ unaryPrec < lvl → P (.unary op x sp) lvl = sim op.tok :: P x unaryPrec :=
    fun lvl h => P_unary_bare op sp h
  have h10 : L10s pe R (.unary op x sp) := by
    intro S st tk T hk hR hns
    rw [hbare unaryPrec (by decide)] at hk ⊢
    obtain ⟨a, l, hal⟩ : ∃ a l, P x unaryPrec = a :: l := by
      have := (first_tok hx unaryPrec).1
      cases hp : P x unaryPrec with
      | nil => rw [hp] at this; exact this.elim
      | cons a l => exact ⟨a, l, rfl⟩
    obtain ⟨st1, hstep, hk1⟩ := unaryStep_hit op (b := a) (ks := l ++ tk :: T) S (st := st)
      (by rw [hk, hal]; simp)
    have hk1' : st1.kinds = P x unaryPrec ++ tk :: T := by rw [hk1, hal]; simp
    have hlen1 : st1.kinds.length ≤ R := by
      have : st1.kinds.length ≤ st.kinds.length := by rw [hk1', hk]; simp
      omega
    obtain ⟨x', st2, n, hex, hk2, hn, hr⟩ := h10x (.unary op st.cur.span :: S) st1 tk T hk1' hlen1 hns
    refine ⟨.unary op x' (surround st.cur.span x'.span), st2, 1 + n + 1, ?_, hk2, ?_, ?_⟩
    · simp [Expr.erase, hex]
    · simp only [List.length_cons]; omega
    · exact Reach.trans pe (Reach.trans pe (Reach.unary pe hstep) hr) (Reach.parsed pe (fun _ _ => rfl))
  have hq : ∀ p, LQat pe R (.unary op x sp) p := fun p =>
    LQat_of_L10 pe R p (by
      have := prec_lt p
      rw [hbare p.prec (by have : unaryPrec = 10 := rfl; omega), hbare unaryPrec (by decide)]) h10
  have hpar : P (.unary op x sp) suffixPrec = parens (P (.unary op x sp) 0) := by
    rw [P_unary_par op sp (by decide), hbare 0 (by decide)]
  have hd : HDs pe R (.unary op x sp) := by
    intro S st y Y hk hR
    simp only [headOf] at hk ⊢
    rw [hpar] at hk ⊢
    exact paren_head pe R ht (hq initKind) S st y Y hk hR
  have sl := SL_nil pe R (t := .unary op x sp) rfl rfl
  exact ⟨hd, sl, h10, hq⟩


omit pe R in
theorem tok_facts : ∀ (k : BinKind) (tok : STok) (op : BinaryOp), (tok, op) ∈ k.ops →
    NotSuffixStart (sim tok) ∧ ∀ j : BinKind, j ≠ k → NoOp j (sim tok) := by
  intro k tok op hmem
  cases k <;> simp only [BinKind.ops, List.mem_cons, List.mem_nil_iff, or_false, Prod.mk.injEq] at hmem <;>
    rcases hmem with ⟨rfl, rfl⟩ | ⟨rfl, rfl⟩ | ⟨rfl, rfl⟩ | ⟨rfl, rfl⟩ | ⟨rfl, rfl⟩ <;>
    refine ⟨by simp [NotSuffixStart, sim], fun j hj => ?_⟩ <;>
    cases j <;> first | exact absurd rfl hj | (unfold NoOp; decide)

omit pe R in
theorem op_prec_tok {op : BinaryOp} {k : BinKind} {tok : STok} (h : op.info = some (k, tok)) :
    op.prec = k.prec ∧ op.tok = tok := by
  unfold BinaryOp.prec BinaryOp.tok
  rw [h]
  exact ⟨rfl, rfl⟩


theorem binary_bare {l r : Expr} (op : BinaryOp) (sp : Span) (hl : Frag l) (hr : Frag r)
    (hql : ∀ p, LQat pe R l p) (hqr : ∀ p, LQat pe R r p) (h10r : L10s pe R r)
    {k : BinKind} {tok : STok} {pre post : List (STok × BinaryOp)} (hinfo : op.info = some (k, tok))
    (hops : k.ops = pre ++ (tok, op) :: post) (hpre : ∀ x ∈ pre, x.1 ≠ tok)
    (p : BinKind) (hpk : p.prec ≤ k.prec) : LQat pe R (.binary l op r sp) p := by
  obtain ⟨hprec, htok⟩ := op_prec_tok hinfo
  have hmem : (tok, op) ∈ k.ops := by rw [hops]; simp
  obtain ⟨hns_tok, hnoop_tok⟩ := tok_facts k tok op hmem
  intro c S st tk T hcp hk hR hns hno
  have hPt : P (.binary l op r sp) p.prec = P l k.prec ++ sim tok :: P r (k.prec + 1) := by
    rw [P_binary_bare hl op sp (by omega), hprec, htok]
  rw [hPt] at hk ⊢
  obtain ⟨a, m, ham, hsup⟩ := P_nonempty hr (k.prec + 1)
  have hk' : st.kinds = P l k.prec ++ sim tok :: (a :: (m ++ tk :: T)) := by
    rw [hk, ham]; simp
  obtain ⟨S1, l', st1, n1, hb1, hel, hk1, hn1, hr1⟩ := hql k c S st (sim tok) (a :: (m ++ tk :: T))
    (by omega) hk' hR hns_tok
    (fun j hj => hnoop_tok j (by intro h; rw [h] at hj; omega))
  have hlen1 : st1.kinds.length ≤ R := by
    have : st1.kinds.length ≤ st.kinds.length := by rw [hk1, hk']; simp
    omega
  have hg : tok = .In → (a ≠ sim .Super ∨ ∃ r2, m ++ tk :: T = sim .Dot :: r2 ∨ m ++ tk :: T = sim .LeftBracket :: r2) := by
    intro _
    by_cases ha : a = sim .Super
    · obtain ⟨r2, h | h⟩ := hsup ha
      · exact Or.inr ⟨r2 ++ tk :: T, Or.inl (by rw [h]; rfl)⟩
      · exact Or.inr ⟨r2 ++ tk :: T, Or.inr (by rw [h]; rfl)⟩
    · exact Or.inl ha
  obtain ⟨st2, hstep2, hk2⟩ := binaryRhs_hit hops hpre l' S1 hk1 hg
  have hk2' : st2.kinds = P r (k.prec + 1) ++ tk :: T := by rw [hk2, ham]; simp
  have hlen2 : st2.kinds.length ≤ R := by
    have : st2.kinds.length ≤ st1.kinds.length := by rw [hk2, hk1]; simp
    omega
  -- the right operand
  have rhs : ∃ r' st4 n4, r'.erase = r.erase ∧ st4.kinds = tk :: T ∧
      n4 + 5 ≤ 40 * (P r (k.prec + 1)).length ∧
      Reach pe (R + 2) (.binaryRhs k l' op :: S1) (nextStateOf k) st2 n4 S1
        (.binaryRhs k (.binary l' op r' (surround l'.span r'.span))) st4 := by
    cases hnext : k.nextState with
    | some k1 =>
      have hk1p := prec_next hnext
      obtain ⟨S3, r', st3, n3, hb3, her, hk3, hn3, hr3⟩ := hqr k1 k1 (.binaryRhs k l' op :: S1) st2 tk T
        (Nat.le_refl _) (by rw [hk1p]; exact hk2') hlen2 hns (fun j hj => hno j (by omega))
      have := Below_self hb3
      subst this
      obtain ⟨st4, hstep4, hk4⟩ := binaryRhs_miss (k := k1) r' (.binaryRhs k l' op :: S1) (st := st3)
        (by rw [cur_kind_of_kinds hk3]; exact hno k1 (by omega))
      refine ⟨r', st4, n3 + 1 + 1, her, by rw [hk4, hk3], by rw [hk1p] at hn3; omega, ?_⟩
      have e : nextStateOf k = .binary k1 := by unfold nextStateOf; rw [hnext]
      rw [e]
      exact Reach.trans pe (Reach.trans pe hr3 (Reach.binaryRhs pe hstep4)) (Reach.parsed pe (fun _ _ => rfl))
    | none =>
      have hk9 := prec_last hnext
      have h10 : k.prec + 1 = unaryPrec := by rw [hk9]; rfl
      obtain ⟨r', st3, n3, her, hk3, hn3, hr3⟩ := h10r (.binaryRhs k l' op :: S1) st2 tk T
        (by rw [← h10]; exact hk2') hlen2 hns
      refine ⟨r', st3, n3 + 1, her, hk3, by rw [← h10] at hn3; omega, ?_⟩
      have e : nextStateOf k = .unary := by unfold nextStateOf; rw [hnext]
      rw [e]
      exact Reach.trans pe hr3 (Reach.parsed pe (fun _ _ => rfl))
  obtain ⟨r', st4, n4, her, hk4, hn4, hr4⟩ := rhs
  obtain ⟨S', st5, hb5, hk5, hr5⟩ := reach_down pe (R + 2) c p S
    (.binary l' op r' (surround l'.span r'.span)) (k.prec - p.prec) k S1 st4 (by omega) hb1 hcp
    (by rw [cur_kind_of_kinds hk4]; exact hno)
  refine ⟨S', .binary l' op r' (surround l'.span r'.span), st5, n1 + 1 + n4 + 2 * (k.prec - p.prec), hb5, ?_,
    by rw [hk5, hk4], ?_, ?_⟩
  · simp [Expr.erase, hel, her]
  · have := prec_lt k
    simp only [List.length_append, List.length_cons]
    omega
  · exact Reach.trans pe (Reach.trans pe (Reach.trans pe hr1 (Reach.binaryRhs pe hstep2)) hr4) hr5


/-- everything for a non-closed tree `t` (binary / `in super`) that is bare exactly at the levels
    `≤ q` and parenthesised above -/
theorem open_all {t : Expr} (ht : Frag t) (q : Nat) (hq9 : q < unaryPrec)
    (hpar : ∀ lvl, q < lvl → P t lvl = parens (P t 0))
    (hhead : headOf t = t) (hsuf : sufToks t = [])
    (bare : ∀ p : BinKind, p.prec ≤ q → LQat pe R t p) :
    HDs pe R t ∧ SLs pe R t ∧ L10s pe R t ∧ ∀ p, LQat pe R t p := by
  have hd : HDs pe R t := by
    intro S st y Y hk hR
    rw [hhead] at hk ⊢
    rw [hpar suffixPrec (by have : suffixPrec = 11 := rfl; have : unaryPrec = 10 := rfl; omega)] at hk ⊢
    exact paren_head pe R ht (bare initKind (by rw [initKind_prec]; omega)) S st y Y hk hR
  have sl := SL_nil pe R hhead hsuf
  have h11 := L11_of pe R ht hd sl
  have h10 := L10_of_L11 pe R ht (by
    rw [hpar unaryPrec hq9, hpar suffixPrec (by have : suffixPrec = 11 := rfl; have : unaryPrec = 10 := rfl; omega)]) h11
  refine ⟨hd, sl, h10, fun p => ?_⟩
  by_cases hp : p.prec ≤ q
  · exact bare p hp
  · exact LQat_of_L10 pe R p (by rw [hpar p.prec (by omega), hpar unaryPrec hq9]) h10

theorem binary_all {l r : Expr} (op : BinaryOp) (sp : Span) (hl : Frag l) (hr : Frag r)
    (hql : ∀ p, LQat pe R l p) (hqr : ∀ p, LQat pe R r p) (h10r : L10s pe R r) :
    HDs pe R (.binary l op r sp) ∧ SLs pe R (.binary l op r sp) ∧ L10s pe R (.binary l op r sp) ∧
      ∀ p, LQat pe R (.binary l op r sp) p := by
  obtain ⟨k, tok, pre, post, hinfo, hops, hpre⟩ := binOp_split op
  obtain ⟨hprec, _⟩ := op_prec_tok hinfo
  have hk9 := prec_lt k
  refine open_all pe R (.binary op sp hl hr) k.prec (by have : unaryPrec = 10 := rfl; omega) ?_ rfl rfl
    (fun p hp => binary_bare pe R op sp hl hr hql hqr h10r hinfo hops hpre p hp)
  intro lvl hlvl
  rw [P_binary_par hl op sp (by omega), P_binary_bare hl op sp (by omega)]

theorem inSuper_bare {e : Expr} (ssp sp : Span) (he : Frag e) (hqe : ∀ p, LQat pe R e p)
    (p : BinKind) (hp : p.prec ≤ inSuperKind.prec) : LQat pe R (.inSuper e ssp sp) p := by
  have hmem : (STok.In, BinaryOp.In) ∈ inSuperKind.ops := by decide
  obtain ⟨hns_tok, hnoop_tok⟩ := tok_facts inSuperKind .In .In hmem
  intro c S st tk T hcp hk hR hns hno
  have hPt : P (.inSuper e ssp sp) p.prec = P e inSuperKind.prec ++ [sim .In, sim .Super] :=
    P_inSuper_bare he ssp sp (by omega)
  rw [hPt] at hk ⊢
  have hk' : st.kinds = P e inSuperKind.prec ++ sim .In :: (sim .Super :: tk :: T) := by
    rw [hk]; simp
  obtain ⟨S1, e', st1, n1, hb1, hee, hk1, hn1, hr1⟩ := hqe inSuperKind c S st (sim .In) (sim .Super :: tk :: T)
    (by omega) hk' hR hns_tok
    (fun j hj => hnoop_tok j (by intro h; rw [h] at hj; omega))
  obtain ⟨e2, st2, hstep2, he2, hk2⟩ := binaryRhs_inSuper e' S1 hk1 hns.1 hns.2.1
  obtain ⟨S', st3, hb3, hk3, hr3⟩ := reach_down pe (R + 2) c p S e2 (inSuperKind.prec - p.prec)
    inSuperKind S1 st2 (by omega) hb1 hcp (by rw [cur_kind_of_kinds hk2]; exact hno)
  refine ⟨S', e2, st3, n1 + 1 + 2 * (inSuperKind.prec - p.prec), hb3, ?_, by rw [hk3, hk2], ?_, ?_⟩
  · rw [he2]; simp [Expr.erase, hee]
  · have : inSuperKind.prec = 6 := by decide
    simp only [List.length_append, List.length_cons, List.length_nil]
    omega
  · exact Reach.trans pe (Reach.trans pe hr1 (Reach.binaryRhs pe hstep2)) hr3

theorem inSuper_all {e : Expr} (ssp sp : Span) (he : Frag e) (hqe : ∀ p, LQat pe R e p) :
    HDs pe R (.inSuper e ssp sp) ∧ SLs pe R (.inSuper e ssp sp) ∧ L10s pe R (.inSuper e ssp sp) ∧
      ∀ p, LQat pe R (.inSuper e ssp sp) p := by
  refine open_all pe R (.inSuper ssp sp he) inSuperKind.prec (by decide) ?_ rfl rfl
    (fun p hp => inSuper_bare pe R ssp sp he hqe p hp)
  intro lvl hlvl
  rw [P_inSuper_par he ssp sp hlvl, P_inSuper_bare he ssp sp (by omega)]

theorem call_all {f : Expr} (args : List Arg) (ts : Bool) (sp : Span) (hf : Frag f)
    (hall : ∀ a ∈ args, Frag a.expr ∧ Handles pe R a.expr) (hd : HDs pe R f) (sl : SLs pe R f) :
    HDs pe R (.call f args ts sp) ∧ SLs pe R (.call f args ts sp) ∧ L10s pe R (.call f args ts sp) ∧
      ∀ p, LQat pe R (.call f args ts sp) p := by
  have hd' : HDs pe R (.call f args ts sp) := hd
  have sl' : SLs pe R (.call f args ts sp) := by
    intro lhs st y Y hl hk hR hy
    have hk0 : st.kinds = sufToks f ++ sim .LeftParen :: (prArgs false args ++ sim .RightParen ::
        ((if ts then [sim .Tailstrict] else []) ++ y :: Y)) := by
      rw [hk]; simp [sufToks]
    obtain ⟨f', st1, hf', hk1, hsl⟩ := sl lhs st (sim .LeftParen) _ hl hk0 hR (by decide)
    have hlen1 : st1.kinds.length ≤ R := by
      have : st1.kinds.length ≤ st.kinds.length := by rw [hk1, hk0]; simp
      omega
    obtain ⟨args', sp', st2, hea, hk2, hstep⟩ := suffix_call pe R f' args ts hall hk1 hlen1 hy
    refine ⟨.call f' args' ts sp', st2, ?_, hk2, ?_⟩
    · simp [Expr.erase, hf', hea]
    · intro fu hfu
      obtain ⟨f1, hf1, heq⟩ := hsl fu hfu
      have hal : args.length + 2 ≤ st1.kinds.length := by
        rw [hk1]
        have : args.length ≤ (prArgs false args).length := prArgs_length args (fun a ha => (hall a ha).1)
        simp; omega
      obtain ⟨f2, rfl⟩ : ∃ f2, f1 = f2 + 1 := ⟨f1 - 1, by omega⟩
      refine ⟨f2, ?_, by rw [heq, hstep f2 (by omega)]⟩
      rw [hk1] at hf1; rw [hk2]; simp at hf1 ⊢; omega
  have := closed_all pe R (.call args ts sp hf (fun a ha => (hall a ha).1))
    (fun lvl => by rw [P_call hf, P_call hf]) hd' sl'
  exact ⟨hd', sl', this.1, this.2⟩

/-- **All machine lemmas for every fragment tree** whose bracketed subexpressions `pe` handles. -/
theorem frag_all {t : Expr} (h : Br (Handles pe R) t) :
    HDs pe R t ∧ SLs pe R t ∧ L10s pe R t ∧ ∀ p, LQat pe R t p := by
  induction h with
  | null sp => exact atom_all pe R (.null sp)
  | bool b sp =>
    cases b
    · exact atom_all pe R (.false_ sp)
    · exact atom_all pe R (.true_ sp)
  | selfObj sp => exact atom_all pe R (.selfObj sp)
  | dollar sp => exact atom_all pe R (.dollar sp)
  | str s sp => exact atom_all pe R (.str s sp)
  | textBlock s sp => exact atom_all pe R (.textBlock s sp)
  | number n sp => exact atom_all pe R (.number n sp)
  | ident i sp => exact atom_all pe R (.ident i sp)
  | superField ssp name sp => exact superField_all pe R ssp name sp
  | superIndex ssp sp hi hh => exact superIndex_all pe R ssp sp hi hh
  | paren sp he ih => exact paren_all pe R sp he.frag (ih.2.2.2 initKind)
  | unary op sp he ih => exact unary_all pe R op sp he.frag ih.2.2.1
  | binary op sp hl hr ihl ihr =>
    exact binary_all pe R op sp hl.frag hr.frag ihl.2.2.2 ihr.2.2.2 ihr.2.2.1
  | field name sp he ih => exact field_all pe R name sp he.frag ih.1 ih.2.1
  | index sp he hi hh ih => exact index_all pe R sp he.frag hi hh ih.1 ih.2.1
  | inSuper ssp sp he ih => exact inSuper_all pe R ssp sp he.frag ih.2.2.2
  | call args ts sp hf ha ih => exact call_all pe R args ts sp hf.frag ha ih.1 ih.2.1

end
end Rsj.Parser
