import RsjProofs.EvalSafeStd
/-!
  C01 on the evaluator model: `std.sort` / `std.set` keep every identifier in range, their
  sorted indices are in range; all builtins together (`builtinCall2`).
-/
open Std.Do
set_option mvcgen.warning false
namespace Rsj.Eval.Safe
open Rsj.Core Rsj.Eval Rsj.Eval.Scope

theorem ite_some {α} {c : Bool} {p : Option α} {v : α} (h : (if c = true then p else none) = some v) :
    p = some v := by
  split at h
  · exact h
  · cases h

theorem len1 {α} {l : List α} (h : l.length = 1) : ∃ a, l = [a] := by
  rcases l with _ | ⟨a, _ | ⟨b, r⟩⟩ <;> simp at h; exact ⟨a, rfl⟩

theorem len2 {α} {l : List α} (h : l.length = 2) : ∃ a b, l = [a, b] := by
  rcases l with _ | ⟨a, _ | ⟨b, _ | ⟨c, r⟩⟩⟩ <;> simp at h; exact ⟨a, b, rfl⟩

theorem len3 {α} {l : List α} (h : l.length = 3) : ∃ a b c, l = [a, b, c] := by
  rcases l with _ | ⟨a, _ | ⟨b, _ | ⟨c, _ | ⟨d, r⟩⟩⟩⟩ <;> simp at h; exact ⟨a, b, c, rfl⟩

theorem arity_plain {b : Builtin} {n : Nat} (h : builtinArityOk b n) (h1 : b ≠ .sort) (h2 : b ≠ .set) :
    n = builtinArity b := by
  rcases h with h | ⟨h | h, _⟩
  · exact h
  · exact absurd h h1
  · exact absurd h h2

section
variable (cfg : Cfg) (rec : Task → M Value) (hrec : RecOk2 rec)
include hrec

/-! ### `std.sort`, `std.set` -/

theorem std_sortKeys_spec2 (s : St) (kf : Option FId) (items : List TId) (d1 : Nat) (hS : Safe s)
    (hkf : ∀ f, kf = some f → f < s.funcs.size) (hitems : ∀ t ∈ items, t < s.thunks.size) :
    ⦃fun st => ⌜st = s⌝⦄ std_sortKeys cfg rec kf items d1
      ⦃Q2 s (fun r st => r.length = items.length ∧ ValsOk st r)⦄ := by
  have g1 := std_bindCall_spec2
  have g2 := checkDepth_spec2
  have hr := rec_spec2 rec hrec
  qstart2
  unfold std_sortKeys
  mvcgen [g1, g2, hr]
  on_invs first | exact callsLenInv s ‹St› | exact keysInv s ‹St›
  all_goals clear g1 g2 hr
  all_goals vcprep3
  all_goals first
    | s2close
    | exact ⟨by assumption, ⟨⟨by omega, by omega, by omega, by omega⟩, by pchain⟩,
        ⟨by omega, by omega, by omega, by omega⟩, by lenTac,
        ValsOk.snoc (by assumption) (by omega) (by omega) (by omega) (by assumption)⟩
    | exact ⟨by assumption, ⟨⟨by omega, by omega, by omega, by omega⟩, by pchain⟩,
        ⟨by omega, by omega, by omega, by omega⟩, by lenTac,
        calls_cons2 (by assumption) (by omega) (by assumption)⟩
    | exact ⟨by assumption, ⟨⟨by omega, by omega, by omega, by omega⟩, by pchain⟩,
        ⟨by omega, by omega, by omega, by omega⟩, rfl, fun _ h => by cases h⟩
    | exact ⟨by assumption, ⟨⟨by omega, by omega, by omega, by omega⟩, by pchain⟩, by lenTac, by assumption⟩
    | lclose

theorem std_qsort_spec2 (keys : List Value) (d1 fuel : Nat) (xs : List Nat) (s : St) (hS : Safe s)
    (hk : ValsOk s keys) (hx : ∀ i ∈ xs, i < keys.length) :
    ⦃fun st => ⌜st = s⌝⦄ std_qsort rec keys d1 fuel xs ⦃Q2 s (fun r _ => ∀ i ∈ r, i < keys.length)⦄ := by
  have hr := rec_spec2 rec hrec
  induction fuel generalizing xs s with
  | zero =>
    qstart2
    unfold std_qsort; mvcgen; all_goals vcprep3; all_goals s3close
  | succ fuel ih =>
    match xs, hx with
    | [], hx => qstart2; unfold std_qsort; mvcgen; all_goals vcprep3; all_goals s3close
    | [x], hx => qstart2; unfold std_qsort; mvcgen; all_goals vcprep3; all_goals s3close
    | pivot :: y :: rest, hx =>
      qstart2
      unfold std_qsort
      mvcgen [hr, ih]
      on_invs exact partInv s ‹St› keys.length
      all_goals clear hr ih
      all_goals vcprep3
      all_goals first
        | s3close
        | exact ValsOk.mono (by assumption) (by omega) (by omega) (by omega)
        | exact ⟨ValsOk.get (by assumption) (by assumption) (by omega) (by omega) (by omega),
            ValsOk.get (by assumption) (by assumption) (by omega) (by omega) (by omega)⟩

set_option maxHeartbeats 1600000 in
theorem std_sortSet_spec2 (s : St) (uniq : Bool) (t0 : TId) (t1 : Option TId) (d1 : Nat) (hS : Safe s)
    (h0' : t0 < s.thunks.size) (h1' : ∀ t, t1 = some t → t < s.thunks.size) :
    ⦃fun st => ⌜st = s⌝⦄ std_sortSet cfg rec uniq t0 t1 d1
      ⦃Q2 s (fun v st => ValOk st.thunks.size st.objs.size st.funcs.size v)⦄ := by
  have g1 := std_sortKeys_spec2 cfg rec hrec
  have g2 := std_qsort_spec2 rec hrec
  have hr := rec_spec2 rec hrec
  qstart2
  unfold std_sortSet
  mvcgen [g1, g2, hr]
  on_invs exact uniqInv s ‹St›
  all_goals clear g1 g2 hr
  all_goals vcprep3
  all_goals first
    | s3close
    | exact ⟨(by assumption : ∀ v, _ = some v → ValOk _ _ _ v) _ (ite_some (by assumption)),
        ValsOk.get (by assumption) (by assumption) (by omega) (by omega) (by omega)⟩
    | (refine ⟨by assumption, ⟨⟨by omega, by omega, by omega, by omega⟩, by pchain⟩,
        ⟨by omega, by omega, by omega, by omega⟩, ?_,
        ValsOk.get (by assumption) (by assumption) (by omega) (by omega) (by omega)⟩
       lclose)

theorem builtinCall2_spec2 (s : St) (b : Builtin) (ts : List TId) (d1 : Nat) (hS : Safe s)
    (hts : ∀ t ∈ ts, t < s.thunks.size) (har : builtinArityOk b ts.length) (hb : pureBuiltin b = none) :
    ⦃fun st => ⌜st = s⌝⦄ builtinCall2 cfg rec b ts d1
      ⦃Q2 s (fun v st => ValOk st.thunks.size st.objs.size st.funcs.size v)⦄ := by
  cases b with
  | pure p => simp [pureBuiltin] at hb
  | length =>
    obtain ⟨t0, rfl⟩ := len1 (arity_plain har (by decide) (by decide))
    rw [show builtinCall2 cfg rec .length [t0] d1 = builtinCall rec .length [t0] d1 from rfl]
    exact builtinCall_spec2 rec hrec s .length [t0] d1 hS hts rfl trivial
  | type_ =>
    obtain ⟨t0, rfl⟩ := len1 (arity_plain har (by decide) (by decide))
    rw [show builtinCall2 cfg rec .type_ [t0] d1 = builtinCall rec .type_ [t0] d1 from rfl]
    exact builtinCall_spec2 rec hrec s .type_ [t0] d1 hS hts rfl trivial
  | trace =>
    obtain ⟨t0, t1, rfl⟩ := len2 (arity_plain har (by decide) (by decide))
    rw [show builtinCall2 cfg rec .trace [t0, t1] d1 = builtinCall rec .trace [t0, t1] d1 from rfl]
    exact builtinCall_spec2 rec hrec s .trace [t0, t1] d1 hS hts rfl trivial
  | objectHasEx =>
    obtain ⟨t0, t1, t2, rfl⟩ := len3 (arity_plain har (by decide) (by decide))
    rw [show builtinCall2 cfg rec .objectHasEx [t0, t1, t2] d1 = builtinCall rec .objectHasEx [t0, t1, t2] d1 from rfl]
    exact builtinCall_spec2 rec hrec s .objectHasEx [t0, t1, t2] d1 hS hts rfl trivial
  | objectFieldsEx =>
    obtain ⟨t0, t1, rfl⟩ := len2 (arity_plain har (by decide) (by decide))
    rw [show builtinCall2 cfg rec .objectFieldsEx [t0, t1] d1 = builtinCall rec .objectFieldsEx [t0, t1] d1 from rfl]
    exact builtinCall_spec2 rec hrec s .objectFieldsEx [t0, t1] d1 hS hts rfl trivial
  | map =>
    obtain ⟨t0, t1, rfl⟩ := len2 (arity_plain har (by decide) (by decide))
    rw [show builtinCall2 cfg rec .map [t0, t1] d1 = builtinCall rec .map [t0, t1] d1 from rfl]
    exact builtinCall_spec2 rec hrec s .map [t0, t1] d1 hS hts rfl trivial
  | makeArray =>
    obtain ⟨t0, t1, rfl⟩ := len2 (arity_plain har (by decide) (by decide))
    rw [show builtinCall2 cfg rec .makeArray [t0, t1] d1 = builtinCall rec .makeArray [t0, t1] d1 from rfl]
    exact builtinCall_spec2 rec hrec s .makeArray [t0, t1] d1 hS hts rfl trivial
  | filter =>
    obtain ⟨t0, t1, rfl⟩ := len2 (arity_plain har (by decide) (by decide))
    rw [show builtinCall2 cfg rec .filter [t0, t1] d1 = std_filter cfg rec t0 t1 d1 from rfl]
    exact std_filter_spec2 cfg rec hrec s t0 t1 d1 hS (hts _ (by simp)) (hts _ (by simp))
  | foldl =>
    obtain ⟨t0, t1, t2, rfl⟩ := len3 (arity_plain har (by decide) (by decide))
    rw [show builtinCall2 cfg rec .foldl [t0, t1, t2] d1 = std_foldl cfg rec t0 t1 t2 d1 from rfl]
    exact std_foldl_spec2 cfg rec hrec s t0 t1 t2 d1 hS (hts _ (by simp)) (hts _ (by simp)) (hts _ (by simp))
  | foldr =>
    obtain ⟨t0, t1, t2, rfl⟩ := len3 (arity_plain har (by decide) (by decide))
    rw [show builtinCall2 cfg rec .foldr [t0, t1, t2] d1 = std_foldr cfg rec t0 t1 t2 d1 from rfl]
    exact std_foldr_spec2 cfg rec hrec s t0 t1 t2 d1 hS (hts _ (by simp)) (hts _ (by simp)) (hts _ (by simp))
  | flatMap =>
    obtain ⟨t0, t1, rfl⟩ := len2 (arity_plain har (by decide) (by decide))
    rw [show builtinCall2 cfg rec .flatMap [t0, t1] d1 = std_flatMap cfg rec t0 t1 d1 from rfl]
    exact std_flatMap_spec2 cfg rec hrec s t0 t1 d1 hS (hts _ (by simp)) (hts _ (by simp))
  | mapWithIndex =>
    obtain ⟨t0, t1, rfl⟩ := len2 (arity_plain har (by decide) (by decide))
    rw [show builtinCall2 cfg rec .mapWithIndex [t0, t1] d1 = std_mapWithIndex rec t0 t1 d1 from rfl]
    exact std_mapWithIndex_spec2 rec hrec s t0 t1 d1 hS (hts _ (by simp)) (hts _ (by simp))
  | mapWithKey =>
    obtain ⟨t0, t1, rfl⟩ := len2 (arity_plain har (by decide) (by decide))
    rw [show builtinCall2 cfg rec .mapWithKey [t0, t1] d1 = std_mapWithKey rec t0 t1 d1 from rfl]
    exact std_mapWithKey_spec2 rec hrec s t0 t1 d1 hS (hts _ (by simp)) (hts _ (by simp))
  | filterMap =>
    obtain ⟨t0, t1, t2, rfl⟩ := len3 (arity_plain har (by decide) (by decide))
    rw [show builtinCall2 cfg rec .filterMap [t0, t1, t2] d1 = std_filterMap cfg rec t0 t1 t2 d1 from rfl]
    exact std_filterMap_spec2 cfg rec hrec s t0 t1 t2 d1 hS (hts _ (by simp)) (hts _ (by simp)) (hts _ (by simp))
  | join =>
    obtain ⟨t0, t1, rfl⟩ := len2 (arity_plain har (by decide) (by decide))
    rw [show builtinCall2 cfg rec .join [t0, t1] d1 = std_join rec t0 t1 d1 from rfl]
    exact std_join_spec2 rec hrec s t0 t1 d1 hS (hts _ (by simp)) (hts _ (by simp))
  | range =>
    obtain ⟨t0, t1, rfl⟩ := len2 (arity_plain har (by decide) (by decide))
    rw [show builtinCall2 cfg rec .range [t0, t1] d1 = std_range rec t0 t1 d1 from rfl]
    exact std_range_spec2 rec hrec s t0 t1 d1 hS (hts _ (by simp)) (hts _ (by simp))
  | member =>
    obtain ⟨t0, t1, rfl⟩ := len2 (arity_plain har (by decide) (by decide))
    rw [show builtinCall2 cfg rec .member [t0, t1] d1 = std_member rec t0 t1 d1 from rfl]
    exact std_member_spec2 rec hrec s t0 t1 d1 hS (hts _ (by simp)) (hts _ (by simp))
  | count =>
    obtain ⟨t0, t1, rfl⟩ := len2 (arity_plain har (by decide) (by decide))
    rw [show builtinCall2 cfg rec .count [t0, t1] d1 = std_count rec t0 t1 d1 from rfl]
    exact std_count_spec2 rec hrec s t0 t1 d1 hS (hts _ (by simp)) (hts _ (by simp))
  | all =>
    obtain ⟨t0, rfl⟩ := len1 (arity_plain har (by decide) (by decide))
    rw [show builtinCall2 cfg rec .all [t0] d1 = std_all rec t0 d1 from rfl]
    exact std_all_spec2 rec hrec s t0 d1 hS (hts _ (by simp))
  | any =>
    obtain ⟨t0, rfl⟩ := len1 (arity_plain har (by decide) (by decide))
    rw [show builtinCall2 cfg rec .any [t0] d1 = std_any rec t0 d1 from rfl]
    exact std_any_spec2 rec hrec s t0 d1 hS (hts _ (by simp))
  | equals =>
    obtain ⟨t0, t1, rfl⟩ := len2 (arity_plain har (by decide) (by decide))
    rw [show builtinCall2 cfg rec .equals [t0, t1] d1 = std_equals rec t0 t1 d1 from rfl]
    exact std_equals_spec2 rec hrec s t0 t1 d1 hS (hts _ (by simp)) (hts _ (by simp))
  | compare =>
    obtain ⟨t0, t1, rfl⟩ := len2 (arity_plain har (by decide) (by decide))
    rw [show builtinCall2 cfg rec .compare [t0, t1] d1 = std_compare rec t0 t1 d1 from rfl]
    exact std_compare_spec2 rec hrec s t0 t1 d1 hS (hts _ (by simp)) (hts _ (by simp))
  | primitiveEquals =>
    obtain ⟨t0, t1, rfl⟩ := len2 (arity_plain har (by decide) (by decide))
    rw [show builtinCall2 cfg rec .primitiveEquals [t0, t1] d1 = std_primitiveEquals rec t0 t1 d1 from rfl]
    exact std_primitiveEquals_spec2 rec hrec s t0 t1 d1 hS (hts _ (by simp)) (hts _ (by simp))
  | assertEqual =>
    obtain ⟨t0, t1, rfl⟩ := len2 (arity_plain har (by decide) (by decide))
    rw [show builtinCall2 cfg rec .assertEqual [t0, t1] d1 = std_assertEqual rec t0 t1 d1 from rfl]
    exact std_assertEqual_spec2 rec hrec s t0 t1 d1 hS (hts _ (by simp)) (hts _ (by simp))
  | toString =>
    obtain ⟨t0, rfl⟩ := len1 (arity_plain har (by decide) (by decide))
    rw [show builtinCall2 cfg rec .toString [t0] d1 = std_toString rec t0 d1 from rfl]
    exact std_toString_spec2 rec hrec s t0 d1 hS (hts _ (by simp))
  | sort =>
    rcases har with har | ⟨_, har⟩
    · obtain ⟨t0, t1, rfl⟩ := len2 har
      rw [show builtinCall2 cfg rec .sort [t0, t1] d1 = std_sortSet cfg rec false t0 (some t1) d1 from rfl]
      exact std_sortSet_spec2 cfg rec hrec s false t0 (some t1) d1 hS (hts _ (by simp)) (fun t h => by cases h; exact hts _ (by simp))
    · obtain ⟨t0, rfl⟩ := len1 har
      rw [show builtinCall2 cfg rec .sort [t0] d1 = std_sortSet cfg rec false t0 none d1 from rfl]
      exact std_sortSet_spec2 cfg rec hrec s false t0 none d1 hS (hts _ (by simp)) (fun t h => by cases h)
  | set =>
    rcases har with har | ⟨_, har⟩
    · obtain ⟨t0, t1, rfl⟩ := len2 har
      rw [show builtinCall2 cfg rec .set [t0, t1] d1 = std_sortSet cfg rec true t0 (some t1) d1 from rfl]
      exact std_sortSet_spec2 cfg rec hrec s true t0 (some t1) d1 hS (hts _ (by simp)) (fun t h => by cases h; exact hts _ (by simp))
    · obtain ⟨t0, rfl⟩ := len1 har
      rw [show builtinCall2 cfg rec .set [t0] d1 = std_sortSet cfg rec true t0 none d1 from rfl]
      exact std_sortSet_spec2 cfg rec hrec s true t0 none d1 hS (hts _ (by simp)) (fun t h => by cases h)

end
end Rsj.Eval.Safe
