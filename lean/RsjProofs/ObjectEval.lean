/-
  C07 helper lemmas about the field evaluator (`evalAt`): adding a layer on top
  (`A + {}`, `std.objectRemoveKey`) or an empty layer at the bottom (`{} + A`)
  does not change values.
-/
import RsjProofs.Object
set_option linter.unusedSimpArgs false
namespace Rsj.Object


def shift1 (p : Nat × Name) : Nat × Name := (p.1 + 1, p.2)

theorem mem_map_shift1 (li : Nat) (n : Name) (stack : List (Nat × Name)) :
    (li + 1, n) ∈ stack.map shift1 ↔ (li, n) ∈ stack := by
  simp only [List.mem_map, shift1]
  constructor
  · rintro ⟨⟨a, b⟩, hm, he⟩
    simp at he
    obtain ⟨h1, h2⟩ := he
    subst h2
    have : a = li := by omega
    subst this; exact hm
  · intro h; exact ⟨(li, n), h, rfl⟩

theorem findField_cons_succ (T : Layer) (o : Obj) (i : Nat) (n : Name) :
    findField (T :: o) (i + 1) n = shiftRes 1 (findField o i n) := by
  unfold findField
  simp only [List.drop_succ_cons]
  exact findFrom_shift _ 0 i 1 n

theorem hasField_cons_succ (T : Layer) (o : Obj) (i : Nat) (n : Name) :
    hasField (T :: o) (i + 1) n = hasField o i n := by
  unfold hasField; rw [findField_cons_succ]; cases findField o i n <;> rfl

/-- No field body of `o` is `self.f` with `bad f`. -/
def NoSelfRead (bad : Name → Prop) (o : Obj) : Prop :=
  ∀ start n li v p f, findField o start n = some (li, v, p, .selfField f) → ¬ bad f

/-- Putting one more layer `T` on top of `o` (an empty layer: `o + {}`; a
    removal marker: `std.objectRemoveKey`) does not change any evaluation that
    starts inside `o`, nor a lookup from the top of a name that `T` lets through,
    as long as no body reads a blocked name through `self`. -/
theorem evalAt_cons (T : Layer) (o : Obj) (bad : Name → Prop)
    (h0 : ∀ n, ¬ bad n → findField (T :: o) 0 n = shiftRes 1 (findField o 0 n))
    (hs : NoSelfRead bad o) :
    ∀ fuel stack start start' n,
      (start' = start + 1 ∨ (start' = 0 ∧ start = 0 ∧ ¬ bad n)) →
      evalAt (T :: o) fuel (stack.map shift1) start' n = evalAt o fuel stack start n := by
  intro fuel
  induction fuel with
  | zero => intros; rfl
  | succ fuel ih =>
    intro stack start start' n hrel
    have hfind : findField (T :: o) start' n = shiftRes 1 (findField o start n) := by
      rcases hrel with h | ⟨h1, h2, h3⟩
      · subst h; exact findField_cons_succ T o start n
      · subst h1; subst h2; exact h0 n h3
    simp only [evalAt]
    rw [hfind]
    cases hf : findField o start n with
    | none => simp [shiftRes]
    | some r =>
      obtain ⟨li, v, p, e⟩ := r
      simp only [shiftRes, mem_map_shift1]
      by_cases hin : (li, n) ∈ stack
      · simp [hin]
      · simp only [hin, if_false]
        have hstack : (li + 1, n) :: stack.map shift1 = ((li, n) :: stack).map shift1 := by
          simp [shift1]
        rw [hstack]
        have ihS : ∀ s m, evalAt (T :: o) fuel (((li, n) :: stack).map shift1) (s + 1) m =
            evalAt o fuel ((li, n) :: stack) s m := fun s m => ih _ s (s + 1) m (Or.inl rfl)
        have ih0 : ∀ m, ¬ bad m → evalAt (T :: o) fuel (((li, n) :: stack).map shift1) 0 m =
            evalAt o fuel ((li, n) :: stack) 0 m := fun m hm => ih _ 0 0 m (Or.inr ⟨rfl, rfl, hm⟩)
        have hbody : evalBody (T :: o) (evalAt (T :: o) fuel (((li, n) :: stack).map shift1)) (li + 1) e =
            evalBody o (evalAt o fuel ((li, n) :: stack)) li e := by
          cases e with
          | lit k => rfl
          | selfField f =>
            simp only [evalBody]
            exact ih0 f (hs start n li v p f hf)
          | superField f =>
            simp only [evalBody, List.length_cons, ihS]
            by_cases hl : li + 1 = o.length
            · simp [hl]
            · have : ¬ (li + 1 + 1 = o.length + 1) := by omega
              simp [hl, this]
          | inSuper f =>
            simp only [evalBody, hasField_cons_succ]
        simp only [evalField, hbody, findField_cons_succ, ihS]
        cases findField o (li + 1) n <;> simp [shiftRes]



/-- the value, forgetting which error -/
def okOf : Except Err Int → Option Int
  | .ok v => some v
  | .error _ => none

theorem findFrom_some_bounds {ls : List Layer} {s i : Nat} {n : Name} {li : Nat} {r : Vis × Bool × FExpr}
    (h : findFrom ls s i n = some (li, r)) : i ≤ li ∧ li < i + ls.length := by
  induction ls generalizing s i with
  | nil => simp [findFrom] at h
  | cons l ls ih =>
    cases s with
    | succ s =>
      simp only [findFrom] at h
      have := ih h; simp; omega
    | zero =>
      simp only [findFrom] at h
      cases hg : l.get n with
      | none => rw [hg] at h; have := ih h; simp; omega
      | some f =>
        rw [hg] at h
        cases f with
        | normal v p e => simp at h; simp; omega
        | removed d => have := ih h; simp; omega

theorem findField_some_bounds {o : Obj} {start : Nat} {n : Name} {li : Nat} {r : Vis × Bool × FExpr}
    (h : findField o start n = some (li, r)) : start ≤ li ∧ li < o.length := by
  unfold findField at h
  have := findFrom_some_bounds h
  simp at this
  omega

theorem findField_oob (o : Obj) (start : Nat) (n : Name) (h : o.length ≤ start) :
    findField o start n = none := by
  unfold findField; rw [List.drop_of_length_le h]; rfl

theorem evalAt_oob (o : Obj) (fuel : Nat) (stack : List (Nat × Name)) (start : Nat) (n : Name)
    (h : o.length ≤ start) : okOf (evalAt o fuel stack start n) = none := by
  cases fuel with
  | zero => rfl
  | succ f => simp [evalAt, findField_oob o start n h, okOf]

@[simp] theorem okOf_ok (v : Int) : okOf (.ok v) = some v := rfl
@[simp] theorem okOf_error (e : Err) : okOf (.error e) = none := rfl

theorem hasField_append_empty (o : Obj) (i : Nat) (n : Name) :
    hasField (o ++ [[]]) i n = hasField o i n := by
  have := findField_extend_empty_left o i n
  unfold extend empty at this
  unfold hasField; rw [this]

/-- `{} + A`: an empty bottom layer changes no value.  (Only the *kind* of
    error of a `super.f` in A's bottom layer changes: `SuperWithoutSuperObject`
    becomes `UnknownObjectField`.) -/
theorem evalAt_append_empty (o : Obj) :
    ∀ fuel stack start n,
      okOf (evalAt (o ++ [[]]) fuel stack start n) = okOf (evalAt o fuel stack start n) := by
  have hff : ∀ i n, findField (o ++ [[]]) i n = findField o i n := fun i n => by
    have := findField_extend_empty_left o i n
    unfold extend empty at this; exact this
  intro fuel
  induction fuel with
  | zero => intros; rfl
  | succ fuel ih =>
    intro stack start n
    simp only [evalAt, hff]
    cases hf : findField o start n with
    | none => rfl
    | some r =>
      obtain ⟨li, v, p, e⟩ := r
      simp only
      by_cases hin : (li, n) ∈ stack
      · simp [hin]
      · simp only [hin, if_false]
        have hli := (findField_some_bounds hf).2
        have hbody : okOf (evalBody (o ++ [[]]) (evalAt (o ++ [[]]) fuel ((li, n) :: stack)) li e) =
            okOf (evalBody o (evalAt o fuel ((li, n) :: stack)) li e) := by
          cases e with
          | lit k => rfl
          | selfField f => simp only [evalBody]; exact ih _ 0 f
          | superField f =>
            simp only [evalBody, List.length_append, List.length_cons, List.length_nil]
            have h1 : ¬ (li + 1 = o.length + (0 + 1)) := by omega
            simp only [h1, if_false]
            by_cases hl : li + 1 = o.length
            · simp only [hl, if_true]
              rw [ih, evalAt_oob o fuel _ _ f (by omega)]; rfl
            · simp only [hl, if_false]; exact ih _ _ f
          | inSuper f => simp only [evalBody, hasField_append_empty]
        simp only [evalField, hff]
        cases p with
        | false => simpa using hbody
        | true =>
          simp only [if_true]
          cases findField o (li + 1) n with
          | none => simpa using hbody
          | some _ =>
            simp only
            have h1 := ih ((li, n) :: stack) (li + 1) n
            revert h1 hbody
            generalize evalAt (o ++ [[]]) fuel ((li, n) :: stack) (li + 1) n = a'
            generalize evalAt o fuel ((li, n) :: stack) (li + 1) n = a
            generalize evalBody (o ++ [[]]) _ li e = b'
            generalize evalBody o _ li e = b
            intro hbody h1
            cases a <;> cases a' <;> cases b <;> cases b' <;> simp_all



/-- More fuel never changes a result other than "out of fuel". -/
theorem evalAt_mono (o : Obj) : ∀ fuel stack start n r,
    evalAt o fuel stack start n = r → r ≠ .error .fuel → evalAt o (fuel + 1) stack start n = r := by
  intro fuel
  induction fuel with
  | zero => intro stack start n r h hr; simp [evalAt] at h; exact absurd h.symm hr
  | succ fuel ih =>
    intro stack start n r h hr
    rw [evalAt] at h ⊢
    cases hf : findField o start n with
    | none => rw [hf] at h; exact h
    | some q =>
      obtain ⟨li, v, p, e⟩ := q
      rw [hf] at h
      simp only at h ⊢
      by_cases hin : (li, n) ∈ stack
      · simpa [hin] using h
      · simp only [hin, if_false] at h ⊢
        have ihr := ih ((li, n) :: stack)
        revert h
        generalize hrec : evalAt o fuel ((li, n) :: stack) = rec
        generalize hrec' : evalAt o (fuel + 1) ((li, n) :: stack) = rec'
        have hrr : ∀ s m x, rec s m = x → x ≠ .error .fuel → rec' s m = x := by
          intro s m x hx hxne; rw [← hrec] at hx; rw [← hrec']; exact ihr s m x hx hxne
        intro h
        have hbody : ∀ x, evalBody o rec li e = x → x ≠ .error .fuel → evalBody o rec' li e = x := by
          intro x hx hxne
          cases e with
          | lit k => exact hx
          | selfField f => simp only [evalBody] at hx ⊢; exact hrr _ _ _ hx hxne
          | superField f =>
            simp only [evalBody] at hx ⊢
            by_cases hl : li + 1 = o.length
            · simpa [hl] using hx
            · simp only [hl, if_false] at hx ⊢; exact hrr _ _ _ hx hxne
          | inSuper f => exact hx
        simp only [evalField] at h ⊢
        cases p with
        | false => simp only [Bool.false_eq_true, if_false] at h ⊢; exact hbody _ h hr
        | true =>
          simp only [if_true] at h ⊢
          cases hff : findField o (li + 1) n with
          | none => rw [hff] at h; simp only at h ⊢; exact hbody _ h hr
          | some _ =>
            rw [hff] at h
            simp only at h ⊢
            cases ha : rec (li + 1) n with
            | error er =>
              rw [ha] at h; simp only at h
              have : rec' (li + 1) n = .error er := hrr _ _ _ ha (by rw [h]; exact hr)
              rw [this]; exact h
            | ok a =>
              rw [ha] at h; simp only at h
              rw [hrr _ _ _ ha (by simp)]
              simp only
              cases hb : evalBody o rec li e with
              | error er =>
                rw [hb] at h; simp only at h
                rw [hbody _ hb (by rw [h]; exact hr)]; exact h
              | ok b =>
                rw [hb] at h; simp only at h
                rw [hbody _ hb (by simp)]; exact h

theorem evalAt_mono_le (o : Obj) (f g : Nat) (hfg : f ≤ g) (stack : List (Nat × Name)) (start : Nat) (n : Name)
    (hr : evalAt o f stack start n ≠ .error .fuel) :
    evalAt o g stack start n = evalAt o f stack start n := by
  induction g with
  | zero => have : f = 0 := by omega
            subst this; rfl
  | succ g ih =>
    by_cases h : f = g + 1
    · subst h; rfl
    · have := ih (by omega)
      rw [← this] at hr
      rw [evalAt_mono o g stack start n _ rfl hr, this]



theorem fieldsOrder_congr {o o' : Obj} (hn : names o' = names o) (hv : ∀ n, finalVis o' n = finalVis o n) :
    fieldsOrder o' = fieldsOrder o := by
  unfold fieldsOrder
  rw [hn]
  have : (fun n => (finalVis o' n).map (fun v => (n, v))) = (fun n => (finalVis o n).map (fun v => (n, v))) := by
    funext n; rw [hv]
  rw [this]

theorem hasVisibleField_eq (o : Obj) (n : Name) :
    hasVisibleField o n = visOutcome (visList o 0 n) false := by
  unfold hasVisibleField; exact visFrom_eq o 0 false n

theorem names_extend_empty_right (a : Obj) : names (extend a empty) = names a := by
  simp [names, rawNames, extend, empty]

theorem names_extend_empty_left (a : Obj) : names (extend empty a) = names a := by
  simp [names, rawNames, extend, empty]

theorem firstNonDefault_append (w1 w2 : List Vis) :
    firstNonDefault (w1 ++ w2) = (firstNonDefault w1).orElse (fun _ => firstNonDefault w2) := by
  induction w1 with
  | nil => simp [firstNonDefault]
  | cons v w ih => cases v <;> simp [firstNonDefault, ih]

/-- visibility of a name after `a + b`, from the visibilities in `a` and `b` -/
def mergeVis (va vb : Option Vis) : Option Vis :=
  match vb with
  | none => va
  | some .default => some (va.getD .default)
  | some v => some v

theorem resolve_append (w1 w2 : List Vis) :
    resolve (w2 ++ w1) = mergeVis (resolve w1) (resolve w2) := by
  cases w2 with
  | nil => simp [resolve, mergeVis]
  | cons x w2 =>
    have hnd := firstNonDefault_ne_default (x :: w2)
    have hnd1 := firstNonDefault_ne_default w1
    simp only [List.cons_append, resolve, mergeVis]
    rw [← List.cons_append, firstNonDefault_append]
    cases hf : firstNonDefault (x :: w2) with
    | some y =>
      cases y with
      | default => rw [hf] at hnd; exact absurd rfl hnd
      | hidden => simp
      | forceVisible => simp
    | none =>
      simp only [Option.orElse_none, Option.getD_none]
      cases w1 with
      | nil => simp [firstNonDefault]
      | cons z w1 => simp

theorem findField_drop (o : Obj) (i : Nat) (n : Name) :
    findField o i n = shiftRes i (findField (o.drop i) 0 n) := by
  unfold findField
  simp only [List.drop_zero]
  have := findFrom_shift (o.drop i) 0 0 i n
  simpa using this

theorem fieldCount_extend_empty_right (a : Obj) : fieldCount (extend a empty) = fieldCount a := by
  simp [fieldCount, extend, empty]

theorem fieldCount_extend_empty_left (a : Obj) : fieldCount (extend empty a) = fieldCount a := by
  simp [fieldCount, extend, empty]

theorem fieldCount_removeKey (o : Obj) (k : Name) : fieldCount (removeKey o k) = fieldCount o + 1 := by
  simp [fieldCount, removeKey]; omega

/-- `manifest` only depends on the visible names and the field values -/
theorem manifest_congr {o o' : Obj} (hv : visibleFields o' = visibleFields o)
    (hf : ∀ n, fieldValue o' n = fieldValue o n) : manifest o' = manifest o := by
  unfold manifest
  rw [hv]
  have : (fun n => (fieldValue o' n).map (fun v => (n, v))) = (fun n => (fieldValue o n).map (fun v => (n, v))) := by
    funext n; rw [hf]
  rw [this]

theorem findFrom_some_mem {ls : List Layer} {s i : Nat} {n : Name} {li : Nat} {v : Vis} {p : Bool} {e : FExpr}
    (h : findFrom ls s i n = some (li, v, p, e)) : ∃ l ∈ ls, l.get n = some (.normal v p e) := by
  induction ls generalizing s i with
  | nil => simp [findFrom] at h
  | cons l ls ih =>
    cases s with
    | succ s =>
      simp only [findFrom] at h
      obtain ⟨l', hm, hg⟩ := ih h; exact ⟨l', List.mem_cons_of_mem _ hm, hg⟩
    | zero =>
      simp only [findFrom] at h
      cases hg : l.get n with
      | none => rw [hg] at h; obtain ⟨l', hm, hg'⟩ := ih h; exact ⟨l', List.mem_cons_of_mem _ hm, hg'⟩
      | some f =>
        rw [hg] at h
        cases f with
        | normal v' p' e' =>
          simp at h; obtain ⟨_, rfl, rfl, rfl⟩ := h
          exact ⟨l, List.mem_cons_self, hg⟩
        | removed d => obtain ⟨l', hm, hg'⟩ := ih h; exact ⟨l', List.mem_cons_of_mem _ hm, hg'⟩

/-- syntactic sufficient condition for `NoSelfRead` -/
theorem noSelfRead_of_syntactic (k : Name) (o : Obj)
    (h : ∀ l ∈ o, ∀ n v p f, l.get n = some (.normal v p (.selfField f)) → f ≠ k) :
    NoSelfRead (fun f => f = k) o := by
  intro start n li v p f hf
  unfold findField at hf
  obtain ⟨l, hm, hg⟩ := findFrom_some_mem hf
  exact h l (List.mem_of_mem_drop hm) n v p f hg

end Rsj.Object
