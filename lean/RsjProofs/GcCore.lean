/-
  The part of the collector invariant that is shared by the phases "Count" and "Mark",
  and the effect of one mark propagation / one counting step / one direct destruction on it.
  `G` is the heap at the start of the collection, `H` the current `objs`.
-/
import RsjProofs.GcBasic
namespace Rsj.Gc

/-- What `markFrom` computes (for a live start object). -/
theorem markFrom_spec {H : Heap} {x : Nat} (hx : x ∈ ids H) :
    x ∈ markFrom H x ∧
    (∀ m ∈ markFrom H x, ∀ t ∈ edgesOf H m, isUnmarked H t = true → t ∈ markFrom H x) ∧
    (∀ P : Nat → Prop, P x →
      (∀ m t, P m → t ∈ edgesOf H m → isUnmarked H t = true → P t) → ∀ m ∈ markFrom H x, P m) := by
  have hinv : MarkInv (edgesOf H) (isUnmarked H) [x] [x] :=
    ⟨fun s hs => hs, fun m hm hms => absurd hm hms⟩
  refine ⟨?_, ?_, ?_⟩
  · exact markLoop_mono _ _ _ _ _ x List.mem_cons_self
  · have hU : ∀ t, isUnmarked H t = true → t ∈ ids H := by
      intro t ht
      obtain ⟨o, ho, hid, _⟩ := isUnmarked_true ht
      exact mem_ids.mpr ⟨o, ho, hid⟩
    have hfuel : cntOut (ids H) [x] + [x].length ≤ H.length := by
      have := cntOut_lt_length (newly := [x]) hx List.mem_cons_self
      have hl : (ids H).length = H.length := by simp [ids]
      rw [hl] at this
      simpa using this
    exact markLoop_closed _ _ (ids H) hU H.length [x] [x] hinv hfuel
  · intro P hP hstep
    exact markLoop_sound _ _ P hstep H.length [x] [x] hinv
      (by intro m hm; rw [List.mem_singleton.mp hm]; exact hP)

structure Core (G H : Heap) : Prop where
  wf : WF H
  /-- every current object is an object of the initial heap, up to `visits`/`mark` -/
  orig : ∀ o ∈ H, resetObj o ∈ G
  /-- objects already destroyed: not held from outside, and all their referrers are destroyed too -/
  dead : ∀ o ∈ G, o.id ∉ ids H → ¬IsRoot o ∧ ∀ p ∈ G, o.id ∈ p.edges → p.id ∉ ids H
  /-- between propagations the marked set is closed under live successors -/
  closed : ∀ m ∈ H, m.mark = true → ∀ t ∈ m.edges, ∀ s ∈ H, s.id = t → s.mark = true
  /-- only reachable objects are ever marked -/
  sound : ∀ m ∈ H, m.mark = true → Reach G m.id

theorem Core.perm {G H H' : Heap} (hp : H.Perm H') (c : Core G H) : Core G H' := by
  have hids : ∀ j, j ∈ ids H' ↔ j ∈ ids H := by
    intro j; unfold ids; exact (hp.map _).mem_iff.symm
  refine ⟨c.wf.perm hp, ?_, ?_, ?_, ?_⟩
  · intro o ho; exact c.orig o (hp.mem_iff.mpr ho)
  · intro o ho hn
    have := c.dead o ho (fun h => hn ((hids _).mpr h))
    exact ⟨this.1, fun p hp' he h => this.2 p hp' he ((hids _).mp h)⟩
  · intro m hm hmk t ht s hs hst
    exact c.closed m (hp.mem_iff.mpr hm) hmk t ht s (hp.mem_iff.mpr hs) hst
  · intro m hm hmk; exact c.sound m (hp.mem_iff.mpr hm) hmk

/-- The object of the initial heap that a current object stands for. -/
theorem Core.orig_eq {G H : Heap} (hG : WF G) (c : Core G H) {o' o : Obj} (ho' : o' ∈ H) (ho : o ∈ G)
    (hid : o'.id = o.id) : resetObj o' = o :=
  hG.eq_of_id (c.orig o' ho') ho (by simpa using hid)

/-- One mark propagation from a reachable unmarked object. -/
theorem Core.mark {G H : Heap} (c : Core G H) {o : Obj} (ho : o ∈ H) (hreach : Reach G o.id) :
    Core G (setMarks (markFrom H o.id) H) ∧ o.id ∈ markFrom H o.id := by
  obtain ⟨hx, hclosed, hsound⟩ := markFrom_spec (mem_ids_of_mem ho)
  refine ⟨⟨?_, ?_, ?_, ?_, ?_⟩, hx⟩
  · unfold WF; rw [ids_setMarks]; exact c.wf
  · intro o' ho'
    obtain ⟨o0, h0, rfl⟩ := mem_setMarks.mp ho'
    rw [resetObj_markObj]; exact c.orig o0 h0
  · intro g hg hn
    rw [ids_setMarks] at hn
    have := c.dead g hg hn
    refine ⟨this.1, ?_⟩
    intro p hp he; rw [ids_setMarks]; exact this.2 p hp he
  · intro m' hm' hmk t ht s' hs' hst
    obtain ⟨m, hm, rfl⟩ := mem_setMarks.mp hm'
    obtain ⟨s, hs, rfl⟩ := mem_setMarks.mp hs'
    rw [markObj_edges] at ht
    rw [markObj_id] at hst
    rw [markObj_mark] at hmk ⊢
    rcases hmk with hmk | hmk
    · exact Or.inl (c.closed m hm hmk t ht s hs hst)
    · by_cases hsm : s.mark = true
      · exact Or.inl hsm
      · right
        have hun : isUnmarked H t = true := by
          rw [← hst, isUnmarked_of_mem c.wf hs]; simpa using hsm
        have hte : t ∈ edgesOf H m.id := by rw [edgesOf_of_mem c.wf hm]; exact ht
        rw [hst]; exact hclosed m.id hmk t hte hun
  · intro m' hm' hmk
    obtain ⟨m, hm, rfl⟩ := mem_setMarks.mp hm'
    rw [markObj_id]
    rw [markObj_mark] at hmk
    rcases hmk with hmk | hmk
    · exact c.sound m hm hmk
    · refine hsound (fun j => Reach G j) hreach ?_ m.id hmk
      intro m0 t hP hte hun
      obtain ⟨om, hom, hid, hte'⟩ := edgesOf_mem hte
      obtain ⟨s, hs, hsid, _⟩ := isUnmarked_true hun
      have h1 : Reach G (resetObj om).id := by simpa [hid] using hP
      have h2 : t ∈ ids G := mem_ids.mpr ⟨resetObj s, c.orig s hs, by simpa using hsid⟩
      exact Reach.step (c.orig om hom) h1 (by simpa using hte') h2

theorem Core.bump {G H : Heap} (c : Core G H) (ts : List Nat) : Core G (bump ts H) := by
  refine ⟨?_, ?_, ?_, ?_, ?_⟩
  · unfold WF; rw [ids_bump]; exact c.wf
  · intro o' ho'
    obtain ⟨o0, h0, rfl⟩ := mem_bump.mp ho'
    rw [resetObj_bumpObj]; exact c.orig o0 h0
  · intro g hg hn
    rw [ids_bump] at hn
    have := c.dead g hg hn
    refine ⟨this.1, ?_⟩
    intro p hp he; rw [ids_bump]; exact this.2 p hp he
  · intro m' hm' hmk t ht s' hs' hst
    obtain ⟨m, hm, rfl⟩ := mem_bump.mp hm'
    obtain ⟨s, hs, rfl⟩ := mem_bump.mp hs'
    exact c.closed m hm hmk t ht s hs hst
  · intro m' hm' hmk
    obtain ⟨m, hm, rfl⟩ := mem_bump.mp hm'
    exact c.sound m hm hmk

/-- Direct destruction of an object without view and with weak count 0. -/
theorem Core.remove {G A B : Heap} {cur : Obj} (hG : WF G) (c : Core G (A ++ cur :: B))
    (hv : cur.views = 0) (hw : weakCount (A ++ cur :: B) cur = 0) : Core G (A ++ B) := by
  have hsub : (A ++ B).Sublist (A ++ cur :: B) :=
    List.Sublist.append (List.Sublist.refl A) (List.sublist_cons_self cur B)
  have hmem : ∀ o, o ∈ A ++ B → o ∈ A ++ cur :: B := fun o h => hsub.subset h
  have hcur : cur ∈ A ++ cur :: B := by simp
  unfold weakCount at hw
  have hext : cur.ext = 0 := by omega
  have hdeg : inDeg (A ++ cur :: B) cur.id = 0 := by omega
  have hidsub : ∀ j, j ∈ ids (A ++ B) → j ∈ ids (A ++ cur :: B) := by
    intro j hj
    obtain ⟨o, ho, hid⟩ := mem_ids.mp hj
    exact mem_ids.mpr ⟨o, hmem o ho, hid⟩
  refine ⟨c.wf.sublist hsub, ?_, ?_, ?_, ?_⟩
  · intro o ho; exact c.orig o (hmem o ho)
  · intro g hg hn
    by_cases hold : g.id ∈ ids (A ++ cur :: B)
    · -- then g is (the original of) cur
      obtain ⟨o', ho', hid⟩ := mem_ids.mp hold
      have ho'cur : o' = cur := by
        rcases List.mem_append.mp ho' with h | h
        · exact absurd (mem_ids.mpr ⟨o', List.mem_append_left _ h, hid⟩) hn
        · rcases List.mem_cons.mp h with h | h
          · exact h
          · exact absurd (mem_ids.mpr ⟨o', List.mem_append_right _ h, hid⟩) hn
      subst ho'cur
      have hg' : resetObj o' = g := c.orig_eq hG ho' hg hid
      refine ⟨?_, ?_⟩
      · intro hr
        rw [← hg'] at hr
        unfold IsRoot at hr
        simp only [resetObj_views, resetObj_ext] at hr
        omega
      · intro p hp he hpid
        obtain ⟨p', hp', hpid'⟩ := mem_ids.mp (hidsub _ hpid)
        have : resetObj p' = p := c.orig_eq hG hp' hp hpid'
        have he' : o'.id ∈ p'.edges := by
          rw [← this, ← hid] at he; simpa using he
        have := inDeg_pos_of_mem hp' he'
        omega
    · have := c.dead g hg hold
      exact ⟨this.1, fun p hp he h => this.2 p hp he (hidsub _ h)⟩
  · intro m hm hmk t ht s hs hst
    exact c.closed m (hmem m hm) hmk t ht s (hmem s hs) hst
  · intro m hm hmk; exact c.sound m (hmem m hm) hmk

end Rsj.Gc
