/-
  Helper lemmas for C20 (radix): the two loops of `parse_num_radix` and their
  composition (`RsjModel/Codec.lean`).
-/
import RsjProofs.CodecRound
namespace Rsj.Codec

/-- Digit values of a string (0 for characters that are not digits). -/
def digs (r : Radix) (cs : List Nat) : List Nat := cs.map (fun c => (toDigit r c).getD 0)

/-- First character that is not a digit of the radix. -/
def firstBad (r : Radix) : List Nat → Option Nat
  | [] => none
  | c :: cs => match toDigit r c with
    | none => some c
    | some _ => firstBad r cs

/-- Horner evaluation starting from `acc`. -/
def accVal (b acc : Nat) (ds : List Nat) : Nat := ds.foldl (fun a d => a * b + d) acc

/-- `Σ dᵢ · bⁱ` (most significant digit first). -/
def valOf (b : Nat) (ds : List Nat) : Nat := accVal b 0 ds

theorem base_eq (r : Radix) : r.base = 2 ^ r.bits := by cases r <;> rfl
theorem base_pos (r : Radix) : 0 < r.base := by cases r <;> decide
theorem U128_eq : U128 = 2 ^ 128 := rfl

theorem base_pow_max (r : Radix) : r.base ^ r.maxDigits ≤ U128 := by
  cases r
  · show 8 ^ 42 ≤ 2 ^ 128
    have : (8 : Nat) ^ 42 = 2 ^ 126 := by rw [show (8 : Nat) = 2 ^ 3 from rfl, ← Nat.pow_mul]
    rw [this]; exact Nat.pow_le_pow_right (by omega) (by omega)
  · show 16 ^ 32 ≤ 2 ^ 128
    have : (16 : Nat) ^ 32 = 2 ^ 128 := by rw [show (16 : Nat) = 2 ^ 4 from rfl, ← Nat.pow_mul]
    rw [this]; exact Nat.le_refl _

theorem toDigit_lt {r : Radix} {c d : Nat} (h : toDigit r c = some d) : d < r.base := by
  unfold toDigit at h
  split at h
  · split at h
    · cases h; assumption
    · cases h
  · cases r
    · cases h
    · simp only at h
      split at h
      · cases h; show _ < 16; omega
      · split at h
        · cases h; show _ < 16; omega
        · cases h

theorem toDigit_zero {r : Radix} {c : Nat} (h : toDigit r c = some 0) : c = 48 := by
  unfold toDigit at h
  split at h
  · split at h
    · have := Option.some.inj h; omega
    · cases h
  · cases r
    · cases h
    · simp only at h
      split at h
      · have := Option.some.inj h; omega
      · split at h
        · have := Option.some.inj h; omega
        · cases h

theorem toDigit_48 (r : Radix) : toDigit r 48 = some 0 := by cases r <;> rfl

theorem digs_lt (r : Radix) (cs : List Nat) : ∀ d ∈ digs r cs, d < r.base := by
  intro d hd
  unfold digs at hd
  rw [List.mem_map] at hd
  obtain ⟨c, _, rfl⟩ := hd
  cases h : toDigit r c with
  | none => exact base_pos r
  | some d => exact toDigit_lt h

theorem firstBad_append (r : Radix) (xs ys : List Nat) :
    firstBad r (xs ++ ys) = (firstBad r xs).orElse (fun _ => firstBad r ys) := by
  induction xs with
  | nil => rfl
  | cons x xs ih =>
    simp only [List.cons_append, firstBad]
    cases toDigit r x with
    | none => rfl
    | some d => exact ih

theorem accVal_append (b acc : Nat) (xs ys : List Nat) :
    accVal b acc (xs ++ ys) = accVal b (accVal b acc xs) ys := by
  unfold accVal; rw [List.foldl_append]

theorem accVal_eq (b acc : Nat) (ds : List Nat) :
    accVal b acc ds = acc * b ^ ds.length + valOf b ds := by
  induction ds generalizing acc with
  | nil => simp [accVal, valOf]
  | cons d ds ih =>
    have h1 : accVal b acc (d :: ds) = accVal b (acc * b + d) ds := rfl
    have h2 : valOf b (d :: ds) = accVal b (0 * b + d) ds := rfl
    rw [h1, h2, ih, ih (0 * b + d), List.length_cons, Nat.pow_succ, Nat.add_mul, Nat.add_mul,
      Nat.zero_mul, Nat.zero_mul, Nat.zero_add]
    rw [Nat.mul_assoc, Nat.mul_comm (b ^ ds.length) b, Nat.add_assoc]

theorem accVal_lt {b : Nat} {ds : List Nat} (h : ∀ d ∈ ds, d < b) :
    ∀ {acc k : Nat}, acc < b ^ k → accVal b acc ds < b ^ (k + ds.length) := by
  induction ds with
  | nil => intro acc k hk; simpa [accVal] using hk
  | cons d ds ih =>
    intro acc k hk
    have hd : d < b := h d (by simp)
    have h1 : accVal b acc (d :: ds) = accVal b (acc * b + d) ds := rfl
    have h2 : acc * b + d < b ^ (k + 1) := by
      rw [Nat.pow_succ]
      have : (acc + 1) * b ≤ b ^ k * b := Nat.mul_le_mul_right b hk
      rw [Nat.add_mul, Nat.one_mul] at this
      omega
    have := ih (fun x hx => h x (by simp [hx])) h2
    rw [h1, List.length_cons]
    have e : k + (ds.length + 1) = k + 1 + ds.length := by omega
    rw [e]; exact this

theorem valOf_lt {b : Nat} {ds : List Nat} (h : ∀ d ∈ ds, d < b) : valOf b ds < b ^ ds.length := by
  have := accVal_lt h (acc := 0) (k := 0) (by simp)
  simpa [valOf] using this

theorem accVal_eq_zero {b : Nat} (hb : 0 < b) {ds : List Nat} :
    ∀ {acc : Nat}, accVal b acc ds = 0 ↔ acc = 0 ∧ ∀ d ∈ ds, d = 0 := by
  induction ds with
  | nil => intro acc; simp [accVal]
  | cons d ds ih =>
    intro acc
    have h1 : accVal b acc (d :: ds) = accVal b (acc * b + d) ds := rfl
    rw [h1, ih]
    constructor
    · rintro ⟨h, hz⟩
      have hd : d = 0 := by omega
      have ha : acc * b = 0 := by omega
      have : acc = 0 := by
        rcases Nat.mul_eq_zero.mp ha with h | h
        · exact h
        · omega
      refine ⟨this, ?_⟩
      intro x hx
      simp only [List.mem_cons] at hx
      rcases hx with rfl | hx
      · exact hd
      · exact hz x hx
    · rintro ⟨ha, hz⟩
      have hd : d = 0 := hz d (by simp)
      refine ⟨by rw [ha, hd]; simp, fun x hx => hz x (by simp [hx])⟩

theorem valOf_eq_zero {b : Nat} (hb : 0 < b) {ds : List Nat} : valOf b ds = 0 ↔ ∀ d ∈ ds, d = 0 := by
  unfold valOf
  rw [accVal_eq_zero hb]
  simp

/-! ### The loops -/

theorem windowLoop_spec (r : Radix) : ∀ (n : Nat) (cs : List Nat) (acc k : Nat),
    acc < r.base ^ k → k + n ≤ r.maxDigits →
    windowLoop r n cs acc =
      match firstBad r (cs.take n) with
      | some c => .error (.invalidDigit c)
      | none => .ok (accVal r.base acc (digs r (cs.take n)), cs.drop n) := by
  intro n
  induction n with
  | zero =>
    intro cs acc k _ _
    simp [windowLoop, firstBad, accVal, digs]
  | succ n ih =>
    intro cs acc k hacc hk
    cases cs with
    | nil => simp [windowLoop, firstBad, accVal, digs]
    | cons c cs =>
      simp only [windowLoop, List.take_succ_cons, List.drop_succ_cons, firstBad]
      cases hd : toDigit r c with
      | none => rfl
      | some d =>
        simp only
        have hdl : d < r.base := toDigit_lt hd
        have h2 : acc * r.base + d < r.base ^ (k + 1) := by
          rw [Nat.pow_succ]
          have : (acc + 1) * r.base ≤ r.base ^ k * r.base := Nat.mul_le_mul_right _ hacc
          rw [Nat.add_mul, Nat.one_mul] at this
          omega
        have h3 : r.base ^ (k + 1) ≤ U128 :=
          Nat.le_trans (Nat.pow_le_pow_right (base_pos r) (by omega)) (base_pow_max r)
        rw [if_neg (by omega), ih cs _ (k + 1) h2 (by omega)]
        have : digs r (c :: List.take n cs) = d :: digs r (List.take n cs) := by
          simp [digs, hd]
        rw [this]
        rfl

theorem tailLoop_spec (r : Radix) : ∀ (cs : List Nat) (st : Bool) (k : Nat),
    tailLoop r cs st k =
      match firstBad r cs with
      | some c => .error (.invalidDigit c)
      | none => .ok (st || (digs r cs).any (· != 0), k + cs.length) := by
  intro cs
  induction cs with
  | nil => intro st k; simp [tailLoop, firstBad, digs]
  | cons c cs ih =>
    intro st k
    simp only [tailLoop, firstBad]
    cases hd : toDigit r c with
    | none => rfl
    | some d =>
      simp only
      rw [ih]
      have : digs r (c :: cs) = d :: digs r cs := by simp [digs, hd]
      rw [this]
      cases firstBad r cs with
      | some c' => rfl
      | none =>
        simp only [List.any_cons, List.length_cons, Bool.or_assoc]
        congr 2
        omega

theorem mulLoop_inf (b : Nat) : ∀ k, mulLoop b k .inf = .inf := by
  intro k
  induction k with
  | zero => rfl
  | succ k ih => simp [mulLoop, F64.mulRadix, ih]

theorem mulLoop_spec {b : Nat} (hb : 0 < b) : ∀ (k v : Nat),
    mulLoop b k (.fin v) = if v * b ^ k ≤ maxFinite then .fin (v * b ^ k) else .inf := by
  intro k
  induction k with
  | zero => intro v; simp [mulLoop]
  | succ k ih =>
    intro v
    simp only [mulLoop, F64.mulRadix]
    have e : v * b ^ (k + 1) = v * b * b ^ k := by rw [Nat.pow_succ, Nat.mul_assoc, Nat.mul_comm b]
    by_cases h : v * b ≤ maxFinite
    · rw [if_pos h, ih, e]
    · rw [if_neg h, mulLoop_inf, if_neg]
      rw [e]
      have : v * b * 1 ≤ v * b * b ^ k := Nat.mul_le_mul_left _ (Nat.pos_pow hb)
      omega

/-! ### Leading zeros -/

theorem trimZeros_cons (c : Nat) (s : List Nat) :
    trimZeros (c :: s) = if c = 48 then trimZeros s else c :: s := by
  unfold trimZeros
  by_cases h : c = 48
  · subst h; simp [List.dropWhile]
  · simp [List.dropWhile, h]

theorem firstBad_trim (r : Radix) (s : List Nat) : firstBad r (trimZeros s) = firstBad r s := by
  induction s with
  | nil => rfl
  | cons c s ih =>
    rw [trimZeros_cons]
    split
    · next h => subst h; simp only [firstBad, toDigit_48]; exact ih
    · rfl

theorem valOf_trim (r : Radix) (s : List Nat) :
    valOf r.base (digs r (trimZeros s)) = valOf r.base (digs r s) := by
  induction s with
  | nil => rfl
  | cons c s ih =>
    rw [trimZeros_cons]
    split
    · next h =>
      subst h
      have : digs r (48 :: s) = 0 :: digs r s := by simp [digs, toDigit_48]
      rw [this, ih]
      simp [valOf, accVal]
    · rfl

theorem trim_head (s : List Nat) : ∀ {c : Nat} {t : List Nat}, trimZeros s = c :: t → c ≠ 48 := by
  induction s with
  | nil => intro c t h; cases h
  | cons x s ih =>
    intro c t h
    rw [trimZeros_cons] at h
    split at h
    · exact ih h
    · next hx => cases h; exact hx

end Rsj.Codec
