/-
  Helper lemmas for C20 (radix): the two loops of `parse_num_radix` and their
  composition (`RsjModel/Codec.lean`).
-/
import RsjProofs.CodecRound
namespace Rsj.Codec

/-- Digit values of a string (0 for characters that are not digits). -/
def digs (r : Radix) (cs : List Nat) : List Nat := cs.map (fun c => (toDigit r c).getD 0)

/-- First character that is not a digit of the radix. -/
def firstBad (r : Radix) : List Nat → Option Nat
  | [] => none
  | c :: cs => match toDigit r c with
    | none => some c
    | some _ => firstBad r cs

/-- Horner evaluation starting from `acc`. -/
def accVal (b acc : Nat) (ds : List Nat) : Nat := ds.foldl (fun a d => a * b + d) acc

/-- `Σ dᵢ · bⁱ` (most significant digit first). -/
def valOf (b : Nat) (ds : List Nat) : Nat := accVal b 0 ds

theorem base_eq (r : Radix) : r.base = 2 ^ r.bits := by cases r <;> rfl
theorem base_pos (r : Radix) : 0 < r.base := by cases r <;> decide
theorem U128_eq : U128 = 2 ^ 128 := rfl

theorem base_pow_max (r : Radix) : r.base ^ r.maxDigits ≤ U128 := by
  cases r
  · show 8 ^ 42 ≤ 2 ^ 128
    have : (8 : Nat) ^ 42 = 2 ^ 126 := by rw [show (8 : Nat) = 2 ^ 3 from rfl, ← Nat.pow_mul]
    rw [this]; exact Nat.pow_le_pow_right (by omega) (by omega)
  · show 16 ^ 32 ≤ 2 ^ 128
    have : (16 : Nat) ^ 32 = 2 ^ 128 := by rw [show (16 : Nat) = 2 ^ 4 from rfl, ← Nat.pow_mul]
    rw [this]; exact Nat.le_refl _

theorem toDigit_lt {r : Radix} {c d : Nat} (h : toDigit r c = some d) : d < r.base := by
  unfold toDigit at h
  split at h
  · split at h
    · cases h; assumption
    · cases h
  · cases r
    · cases h
    · simp only at h
      split at h
      · cases h; show _ < 16; omega
      · split at h
        · cases h; show _ < 16; omega
        · cases h

theorem toDigit_zero {r : Radix} {c : Nat} (h : toDigit r c = some 0) : c = 48 := by
  unfold toDigit at h
  split at h
  · split at h
    · have := Option.some.inj h; omega
    · cases h
  · cases r
    · cases h
    · simp only at h
      split at h
      · have := Option.some.inj h; omega
      · split at h
        · have := Option.some.inj h; omega
        · cases h

theorem toDigit_48 (r : Radix) : toDigit r 48 = some 0 := by cases r <;> rfl

theorem digs_lt (r : Radix) (cs : List Nat) : ∀ d ∈ digs r cs, d < r.base := by
  intro d hd
  unfold digs at hd
  rw [List.mem_map] at hd
  obtain ⟨c, _, rfl⟩ := hd
  cases h : toDigit r c with
  | none => exact base_pos r
  | some d => exact toDigit_lt h

theorem firstBad_append (r : Radix) (xs ys : List Nat) :
    firstBad r (xs ++ ys) = (firstBad r xs).orElse (fun _ => firstBad r ys) := by
  induction xs with
  | nil => rfl
  | cons x xs ih =>
    simp only [List.cons_append, firstBad]
    cases toDigit r x with
    | none => rfl
    | some d => exact ih

theorem accVal_append (b acc : Nat) (xs ys : List Nat) :
    accVal b acc (xs ++ ys) = accVal b (accVal b acc xs) ys := by
  unfold accVal; rw [List.foldl_append]

theorem accVal_eq (b acc : Nat) (ds : List Nat) :
    accVal b acc ds = acc * b ^ ds.length + valOf b ds := by
  induction ds generalizing acc with
  | nil => simp [accVal, valOf]
  | cons d ds ih =>
    have h1 : accVal b acc (d :: ds) = accVal b (acc * b + d) ds := rfl
    have h2 : valOf b (d :: ds) = accVal b (0 * b + d) ds := rfl
    rw [h1, h2, ih, ih (0 * b + d), List.length_cons, Nat.pow_succ, Nat.add_mul, Nat.add_mul,
      Nat.zero_mul, Nat.zero_mul, Nat.zero_add]
    rw [Nat.mul_assoc, Nat.mul_comm (b ^ ds.length) b, Nat.add_assoc]

theorem accVal_lt {b : Nat} {ds : List Nat} (h : ∀ d ∈ ds, d < b) :
    ∀ {acc k : Nat}, acc < b ^ k → accVal b acc ds < b ^ (k + ds.length) := by
  induction ds with
  | nil => intro acc k hk; simpa [accVal] using hk
  | cons d ds ih =>
    intro acc k hk
    have hd : d < b := h d (by simp)
    have h1 : accVal b acc (d :: ds) = accVal b (acc * b + d) ds := rfl
    have h2 : acc * b + d < b ^ (k + 1) := by
      rw [Nat.pow_succ]
      have : (acc + 1) * b ≤ b ^ k * b := Nat.mul_le_mul_right b hk
      rw [Nat.add_mul, Nat.one_mul] at this
      omega
    have := ih (fun x hx => h x (by simp [hx])) h2
    rw [h1, List.length_cons]
    have e : k + (ds.length + 1) = k + 1 + ds.length := by omega
    rw [e]; exact this

theorem valOf_lt {b : Nat} {ds : List Nat} (h : ∀ d ∈ ds, d < b) : valOf b ds < b ^ ds.length := by
  have := accVal_lt h (acc := 0) (k := 0) (by simp)
  simpa [valOf] using this

theorem accVal_eq_zero {b : Nat} (hb : 0 < b) {ds : List Nat} :
    ∀ {acc : Nat}, accVal b acc ds = 0 ↔ acc = 0 ∧ ∀ d ∈ ds, d = 0 := by
  induction ds with
  | nil => intro acc; simp [accVal]
  | cons d ds ih =>
    intro acc
    have h1 : accVal b acc (d :: ds) = accVal b (acc * b + d) ds := rfl
    rw [h1, ih]
    constructor
    · rintro ⟨h, hz⟩
      have hd : d = 0 := by omega
      have ha : acc * b = 0 := by omega
      have : acc = 0 := by
        rcases Nat.mul_eq_zero.mp ha with h | h
        · exact h
        · omega
      refine ⟨this, ?_⟩
      intro x hx
      simp only [List.mem_cons] at hx
      rcases hx with rfl | hx
      · exact hd
      · exact hz x hx
    · rintro ⟨ha, hz⟩
      have hd : d = 0 := hz d (by simp)
      refine ⟨by rw [ha, hd]; simp, fun x hx => hz x (by simp [hx])⟩

theorem valOf_eq_zero {b : Nat} (hb : 0 < b) {ds : List Nat} : valOf b ds = 0 ↔ ∀ d ∈ ds, d = 0 := by
  unfold valOf
  rw [accVal_eq_zero hb]
  simp

/-! ### The loops -/

theorem windowLoop_spec (r : Radix) : ∀ (n : Nat) (cs : List Nat) (acc k : Nat),
    acc < r.base ^ k → k + n ≤ r.maxDigits →
    windowLoop r n cs acc =
      match firstBad r (cs.take n) with
      | some c => .error (.invalidDigit c)
      | none => .ok (accVal r.base acc (digs r (cs.take n)), cs.drop n) := by
  intro n
  induction n with
  | zero =>
    intro cs acc k _ _
    simp [windowLoop, firstBad, accVal, digs]
  | succ n ih =>
    intro cs acc k hacc hk
    cases cs with
    | nil => simp [windowLoop, firstBad, accVal, digs]
    | cons c cs =>
      simp only [windowLoop, List.take_succ_cons, List.drop_succ_cons, firstBad]
      cases hd : toDigit r c with
      | none => rfl
      | some d =>
        simp only
        have hdl : d < r.base := toDigit_lt hd
        have h2 : acc * r.base + d < r.base ^ (k + 1) := by
          rw [Nat.pow_succ]
          have : (acc + 1) * r.base ≤ r.base ^ k * r.base := Nat.mul_le_mul_right _ hacc
          rw [Nat.add_mul, Nat.one_mul] at this
          omega
        have h3 : r.base ^ (k + 1) ≤ U128 :=
          Nat.le_trans (Nat.pow_le_pow_right (base_pos r) (by omega)) (base_pow_max r)
        rw [if_neg (by omega), ih cs _ (k + 1) h2 (by omega)]
        have : digs r (c :: List.take n cs) = d :: digs r (List.take n cs) := by
          simp [digs, hd]
        rw [this]
        rfl

theorem tailLoop_spec (r : Radix) : ∀ (cs : List Nat) (st : Bool) (k : Nat),
    tailLoop r cs st k =
      match firstBad r cs with
      | some c => .error (.invalidDigit c)
      | none => .ok (st || (digs r cs).any (· != 0), k + cs.length) := by
  intro cs
  induction cs with
  | nil => intro st k; simp [tailLoop, firstBad, digs]
  | cons c cs ih =>
    intro st k
    simp only [tailLoop, firstBad]
    cases hd : toDigit r c with
    | none => rfl
    | some d =>
      simp only
      rw [ih]
      have : digs r (c :: cs) = d :: digs r cs := by simp [digs, hd]
      rw [this]
      cases firstBad r cs with
      | some c' => rfl
      | none =>
        simp only [List.any_cons, List.length_cons, Bool.or_assoc]
        congr 2
        omega

theorem mulLoop_inf (b : Nat) : ∀ k, mulLoop b k .inf = .inf := by
  intro k
  induction k with
  | zero => rfl
  | succ k ih => simp [mulLoop, F64.mulRadix, ih]

theorem mulLoop_spec {b : Nat} (hb : 0 < b) : ∀ (k v : Nat), v ≤ maxFinite →
    mulLoop b k (.fin v) = if v * b ^ k ≤ maxFinite then .fin (v * b ^ k) else .inf := by
  intro k
  induction k with
  | zero => intro v hv; simp [mulLoop, hv]
  | succ k ih =>
    intro v hv
    simp only [mulLoop, F64.mulRadix]
    have e : v * b ^ (k + 1) = v * b * b ^ k := by rw [Nat.pow_succ, Nat.mul_assoc, Nat.mul_comm b]
    by_cases h : v * b ≤ maxFinite
    · rw [if_pos h, ih _ h, e]
    · rw [if_neg h, mulLoop_inf, if_neg]
      rw [e]
      have : v * b * 1 ≤ v * b * b ^ k := Nat.mul_le_mul_left _ (Nat.pow_pos hb)
      omega

/-! ### Leading zeros -/

theorem trimZeros_cons (c : Nat) (s : List Nat) :
    trimZeros (c :: s) = if c = 48 then trimZeros s else c :: s := by
  unfold trimZeros
  by_cases h : c = 48
  · subst h; simp [List.dropWhile]
  · have hb : (c == 48) = false := by simp [h]
    simp [List.dropWhile, hb, h]

theorem firstBad_trim (r : Radix) (s : List Nat) : firstBad r (trimZeros s) = firstBad r s := by
  induction s with
  | nil => rfl
  | cons c s ih =>
    rw [trimZeros_cons]
    split
    · next h => subst h; simp only [firstBad, toDigit_48]; exact ih
    · rfl

theorem valOf_trim (r : Radix) (s : List Nat) :
    valOf r.base (digs r (trimZeros s)) = valOf r.base (digs r s) := by
  induction s with
  | nil => rfl
  | cons c s ih =>
    rw [trimZeros_cons]
    split
    · next h =>
      subst h
      have : digs r (48 :: s) = 0 :: digs r s := by simp [digs, toDigit_48]
      rw [this, ih]
      simp [valOf, accVal]
    · rfl

theorem trim_head (s : List Nat) : ∀ {c : Nat} {t : List Nat}, trimZeros s = c :: t → c ≠ 48 := by
  induction s with
  | nil => intro c t h; cases h
  | cons x s ih =>
    intro c t h
    rw [trimZeros_cons] at h
    split at h
    · exact ih h
    · next hx => cases h; exact hx

/-! ### Composition -/

theorem digs_append (r : Radix) (xs ys : List Nat) : digs r (xs ++ ys) = digs r xs ++ digs r ys := by
  simp [digs]

theorem digs_length (r : Radix) (xs : List Nat) : (digs r xs).length = xs.length := by simp [digs]

theorem firstBad_split {r : Radix} {xs ys : List Nat} (h : firstBad r (xs ++ ys) = none) :
    firstBad r xs = none ∧ firstBad r ys = none := by
  rw [firstBad_append] at h
  cases hx : firstBad r xs with
  | some c => rw [hx] at h; cases h
  | none => rw [hx] at h; exact ⟨rfl, h⟩

theorem sticky_iff (r : Radix) (cs : List Nat) :
    ((false || (digs r cs).any (· != 0)) = true) ↔ valOf r.base (digs r cs) ≠ 0 := by
  rw [Bool.false_or, List.any_eq_true, Ne, valOf_eq_zero (base_pos r)]
  constructor
  · rintro ⟨d, hd, hne⟩ hall
    have := hall d hd
    subst this
    simp at hne
  · intro h
    apply Classical.byContradiction
    intro hcon
    apply h
    intro d hd
    apply Classical.byContradiction
    intro hne
    exact hcon ⟨d, hd, by simp [hne]⟩

/-- bits-per-digit times (window − 1) -/
theorem window_bits (r : Radix) : 2 ^ 123 ≤ r.base ^ (r.maxDigits - 1) := by
  cases r
  · show 2 ^ 123 ≤ 8 ^ 41
    have : (8 : Nat) ^ 41 = 2 ^ 123 := by rw [show (8 : Nat) = 2 ^ 3 from rfl, ← Nat.pow_mul]
    rw [this]; exact Nat.le_refl _
  · show 2 ^ 123 ≤ 16 ^ 31
    have : (16 : Nat) ^ 31 = 2 ^ 124 := by rw [show (16 : Nat) = 2 ^ 4 from rfl, ← Nat.pow_mul]
    rw [this]; exact Nat.pow_le_pow_right (by omega) (by omega)

theorem maxDigits_pos (r : Radix) : 0 < r.maxDigits := by cases r <;> decide

/-- The window value is at least `2^123` when the window is full and starts with a non-zero digit. -/
theorem window_lower {r : Radix} {t : List Nat} (hv : firstBad r t = none)
    (hhead : ∀ {c : Nat} {t' : List Nat}, t = c :: t' → c ≠ 48) (hlen : r.maxDigits < t.length) :
    2 ^ 123 ≤ valOf r.base (digs r (t.take r.maxDigits)) := by
  cases t with
  | nil => simp at hlen
  | cons c t' =>
    have hc : c ≠ 48 := hhead rfl
    obtain ⟨m, hm⟩ : ∃ m, r.maxDigits = m + 1 := ⟨r.maxDigits - 1, by have := maxDigits_pos r; omega⟩
    rw [hm, List.take_succ_cons]
    simp only [firstBad] at hv
    cases hd : toDigit r c with
    | none => rw [hd] at hv; cases hv
    | some d =>
      have hd0 : d ≠ 0 := by
        intro h0; subst h0; exact hc (toDigit_zero hd)
      have e1 : digs r (c :: List.take m t') = d :: digs r (List.take m t') := by simp [digs, hd]
      have e2 : valOf r.base (d :: digs r (List.take m t')) = accVal r.base d (digs r (List.take m t')) := by
        simp [valOf, accVal]
      rw [e1, e2, accVal_eq, digs_length]
      have hl : (List.take m t').length = m := by
        rw [List.length_take]
        simp only [List.length_cons] at hlen
        omega
      rw [hl]
      have hw := window_bits r
      rw [hm, Nat.add_sub_cancel] at hw
      have : 1 * r.base ^ m ≤ d * r.base ^ m := Nat.mul_le_mul_right _ (by omega)
      omega

/-- **Main lemma**: on a non-empty string of digits, `parse_num_radix` returns the
    exact value rounded once to nearest-even, or `Overflow` when that is not finite. -/
theorem parse_valid (r : Radix) (s : List Nat) (hs : s ≠ []) (hv : firstBad r s = none) :
    parseNumRadix r s =
      if roundNE (valOf r.base (digs r s)) ≤ maxFinite then .ok (roundNE (valOf r.base (digs r s)))
      else .error .overflow := by
  unfold parseNumRadix
  have hne : s.isEmpty = false := by cases s <;> simp_all
  rw [hne]
  simp only [Bool.false_eq_true, if_false]
  rw [← valOf_trim r s]
  have hvt : firstBad r (trimZeros s) = none := by rw [firstBad_trim]; exact hv
  have hhead := @trim_head s
  generalize trimZeros s = t at *
  have hsplit : t.take r.maxDigits ++ t.drop r.maxDigits = t := List.take_append_drop _ _
  obtain ⟨hv1, hv2⟩ := firstBad_split (hsplit.symm ▸ hvt)
  rw [windowLoop_spec r r.maxDigits t 0 0 (by simp) (by omega), hv1]
  simp only
  rw [tailLoop_spec, hv2]
  simp only
  -- names
  have hW : accVal r.base 0 (digs r (t.take r.maxDigits)) = valOf r.base (digs r (t.take r.maxDigits)) := rfl
  rw [hW]
  generalize hWd : valOf r.base (digs r (t.take r.maxDigits)) = W
  generalize hTd : valOf r.base (digs r (t.drop r.maxDigits)) = T
  have hn : valOf r.base (digs r t) = W * r.base ^ (t.drop r.maxDigits).length + T := by
    conv => lhs; rw [← hsplit]
    rw [digs_append]
    unfold valOf
    rw [accVal_append, accVal_eq, digs_length]
    have hW2 : accVal r.base 0 (digs r (List.take r.maxDigits t)) = W := hWd
    rw [hW2, hTd]
  have hWlt : W < U128 := by
    rw [← hWd]
    have := valOf_lt (digs_lt r (t.take r.maxDigits))
    rw [digs_length] at this
    have h2 : r.base ^ (t.take r.maxDigits).length ≤ r.base ^ r.maxDigits :=
      Nat.pow_le_pow_right (base_pos r) (by rw [List.length_take]; omega)
    exact Nat.lt_of_lt_of_le this (Nat.le_trans h2 (base_pow_max r))
  have hTlt : T < r.base ^ (t.drop r.maxDigits).length := by
    rw [← hTd]
    have := valOf_lt (digs_lt r (t.drop r.maxDigits))
    rwa [digs_length] at this
  have hst : (false || (digs r (t.drop r.maxDigits)).any (· != 0)) = true ↔ T ≠ 0 := by
    rw [← hTd]; exact sticky_iff r _
  have hnum : (if (false || (digs r (t.drop r.maxDigits)).any (· != 0)) = true then W ||| 1 else W) =
      (if T = 0 then W else W ||| 1) := by
    by_cases hT0 : T = 0
    · rw [if_pos hT0, if_neg (by rw [hst]; simp [hT0])]
    · rw [if_neg hT0, if_pos (hst.mpr hT0)]
  rw [hnum, hn]
  -- W' is still a u128
  have hU : U128 % 2 = 0 := by
    rw [U128_eq, show (128 : Nat) = 127 + 1 from rfl, Nat.pow_succ, Nat.mul_mod_left]
  have hW'lt : (if T = 0 then W else W ||| 1) < 2 ^ 128 := by
    rw [← U128_eq]
    split
    · exact hWlt
    · rw [or_one_eq]; split <;> omega
  rw [Nat.zero_add]
  generalize hk : (t.drop r.maxDigits).length = k at *
  rw [mulLoop_spec (base_pos r) k _ (roundNE_u128 hW'lt)]
  -- the sticky argument
  have hround : roundNE (W * r.base ^ k + T) = roundNE (if T = 0 then W else W ||| 1) * r.base ^ k := by
    cases k with
    | zero =>
      have : T = 0 := by simpa using hTlt
      subst this
      simp
    | succ k' =>
      have hlen : r.maxDigits < t.length := by
        rw [List.length_drop] at hk; omega
      have hWlow : 2 ^ 123 ≤ W := by rw [← hWd]; exact window_lower hvt (fun h => hhead h) hlen
      have hW0 : W ≠ 0 := by have := two_pow_pos 123; omega
      have e : r.base ^ (k' + 1) = 2 ^ (r.bits * (k' + 1)) := by rw [base_eq, ← Nat.pow_mul]
      rw [e] at hTlt ⊢
      have hlw : 54 ≤ W.log2 := (Nat.le_log2 hW0).mpr (Nat.le_trans (Nat.pow_le_pow_right (by omega) (by omega)) hWlow)
      exact roundNE_sticky (Nat.log2_self_le hW0) Nat.lt_log2_self hlw hTlt
  rw [hround]
  by_cases hfin : roundNE (if T = 0 then W else W ||| 1) * r.base ^ k ≤ maxFinite
  · rw [if_pos hfin, if_pos hfin]
  · rw [if_neg hfin, if_neg hfin]

theorem parse_invalid (r : Radix) (s : List Nat) {c : Nat} (hv : firstBad r s = some c) :
    parseNumRadix r s = .error (.invalidDigit c) := by
  unfold parseNumRadix
  have hne : s.isEmpty = false := by cases s <;> simp_all [firstBad]
  rw [hne]
  simp only [Bool.false_eq_true, if_false]
  have hvt : firstBad r (trimZeros s) = some c := by rw [firstBad_trim]; exact hv
  generalize trimZeros s = t at *
  have hsplit : t.take r.maxDigits ++ t.drop r.maxDigits = t := List.take_append_drop _ _
  rw [← hsplit, firstBad_append] at hvt
  rw [windowLoop_spec r r.maxDigits t 0 0 (by simp) (by omega)]
  cases h1 : firstBad r (t.take r.maxDigits) with
  | some c1 =>
    rw [h1] at hvt
    simp only [Option.orElse] at hvt
    cases hvt
    rfl
  | none =>
    rw [h1] at hvt
    simp only [Option.orElse] at hvt
    simp only
    rw [tailLoop_spec, hvt]

/-! ### `std.parseInt` -/

def IsDec (c : Nat) : Prop := 48 ≤ c ∧ c ≤ 57

theorem firstNonDigit_none {cs : List Nat} (h : ∀ c ∈ cs, IsDec c) : firstNonDigit cs = none := by
  induction cs with
  | nil => rfl
  | cons c cs ih =>
    have hc : 48 ≤ c ∧ c ≤ 57 := h c (by simp)
    simp only [firstNonDigit]
    rw [if_pos hc]
    exact ih (fun x hx => h x (by simp [hx]))

theorem firstNonDigit_split {pre post : List Nat} {c : Nat} (h : ∀ x ∈ pre, IsDec x) (hc : ¬ IsDec c) :
    firstNonDigit (pre ++ c :: post) = some c := by
  induction pre with
  | nil =>
    simp only [List.nil_append, firstNonDigit]
    have hc' : ¬ (48 ≤ c ∧ c ≤ 57) := hc
    rw [if_neg hc']
  | cons p pre ih =>
    have hp : 48 ≤ p ∧ p ≤ 57 := h p (by simp)
    simp only [List.cons_append, firstNonDigit]
    rw [if_pos hp]
    exact ih (fun x hx => h x (by simp [hx]))

theorem decValue_eq (cs : List Nat) : decValue cs = valOf 10 (cs.map (· - 48)) := by
  unfold decValue valOf accVal
  rw [List.foldl_map]

end Rsj.Codec
