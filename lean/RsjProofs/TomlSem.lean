/-
  SPECIFICATION (not a model of Rust code): the meaning of a TOML document of the
  writer's sub-language, as a fold over its statements.

  A document is a list of statements with ABSOLUTE table paths (`Stmt`): the
  syntactic reader (`RsjProofs/TomlRead.lean`) attaches to every `key = value` line
  the path of the most recent `[table]` / `[[array-of-tables]]` header.

  The value under construction is a `TVal`: TOML distinguishes tables created by
  headers (open: sub-tables may be added later) and arrays created by `[[..]]`
  headers (open: items may be appended, the LAST item is the one later headers
  refer to) from values written inline after `=` (closed: an inline table or a
  static array can be extended neither by a header nor by `[[..]]`).

  Rules implemented (TOML v1.0.0, "Table", "Array of Tables"), all of them at most
  as permissive as TOML:
  * `key = value` defines `key` in the current table; defining a key twice is an error;
  * `[p.k]` requires every prefix table of `p` to exist already (the writer always
    emits the header of a table before the headers of its sub-tables), enters
    header tables and the last item of arrays of tables on the way, and defines
    `k` there as a new empty table; `k` must not be defined yet;
  * `[[p.k]]` likewise; if `k` is not defined it becomes an array of tables with one
    empty table, if it is an array of tables an empty table is appended, anything
    else is an error.
-/
import RsjModel.Toml
namespace Rsj.Toml
open Rsj.Json (Str JVal)

inductive Stmt where
  /-- `key = value` in the table at `path` (`[]` = root table) -/
  | kv (path : List Str) (key : Str) (v : JVal)
  /-- `[path.key]` -/
  | table (path : List Str) (key : Str)
  /-- `[[path.key]]` -/
  | arrTable (path : List Str) (key : Str)
deriving Repr

/-- document value under construction -/
inductive TVal where
  /-- written after `=`: closed -/
  | leaf (v : JVal)
  /-- table opened by a `[..]` header or item of an array of tables -/
  | tbl (fs : List (Str × TVal))
  /-- array of tables opened by `[[..]]` (items are `tbl`) -/
  | arr (items : List TVal)
deriving Repr

abbrev Fields := List (Str × TVal)

def hasKeyT (k : Str) : Fields → Bool
  | [] => false
  | (k', _) :: rest => k' == k || hasKeyT k rest

/-- apply `g` to the value of the (first) field named `k`; error if there is none -/
def modField (k : Str) (g : TVal → Option TVal) : Fields → Option Fields
  | [] => none
  | (k', v) :: rest =>
    if k' = k then (g v).map (fun v' => (k', v') :: rest)
    else (modField k g rest).map ((k', v) :: ·)

/-- apply `g` to the last item -/
def modLast (g : TVal → Option TVal) : List TVal → Option (List TVal)
  | [] => none
  | [x] => (g x).map ([·])
  | x :: y :: r => (modLast g (y :: r)).map (x :: ·)

/-- apply `g` to the fields of a header table -/
def inTbl (g : Fields → Option Fields) : TVal → Option TVal
  | .tbl fs => (g fs).map .tbl
  | _ => none

/-- enter a value on the way along a header path: a header table, or the last item
    of an array of tables; never a value written inline -/
def into (g : Fields → Option Fields) : TVal → Option TVal
  | .tbl fs => (g fs).map .tbl
  | .arr items => (modLast (inTbl g) items).map .arr
  | .leaf _ => none

/-- apply `g` to the fields of the table at `path` -/
def modAt (g : Fields → Option Fields) : List Str → Fields → Option Fields
  | [] => g
  | k :: p => modField k (into (modAt g p))

def addKv (k : Str) (v : JVal) (fs : Fields) : Option Fields :=
  if hasKeyT k fs then none else some (fs ++ [(k, .leaf v)])

def addTable (k : Str) (fs : Fields) : Option Fields :=
  if hasKeyT k fs then none else some (fs ++ [(k, .tbl [])])

def appendItem : TVal → Option TVal
  | .arr items => some (.arr (items ++ [.tbl []]))
  | _ => none

def addArrItem (k : Str) (fs : Fields) : Option Fields :=
  if hasKeyT k fs then modField k appendItem fs else some (fs ++ [(k, .arr [.tbl []])])

/-- one statement on the root table -/
def exec : Stmt → Fields → Option Fields
  | .kv p k v => modAt (addKv k v) p
  | .table p k => modAt (addTable k) p
  | .arrTable p k => modAt (addArrItem k) p

def execAll : List Stmt → Fields → Option Fields
  | [], r => some r
  | s :: ss, r => (exec s r).bind (execAll ss)

mutual
/-- the finished document as a JSON-like value -/
def toJ : TVal → JVal
  | .leaf v => v
  | .tbl fs => .obj (toJF fs)
  | .arr items => .arr (toJL items)
def toJF : List (Str × TVal) → List (Str × JVal)
  | [] => []
  | (k, v) :: rest => (k, toJ v) :: toJF rest
def toJL : List TVal → List JVal
  | [] => []
  | v :: rest => toJ v :: toJL rest
end

/-- meaning of a statement list: the root table -/
def docValue (ss : List Stmt) : Option JVal := (execAll ss []).map (fun fs => .obj (toJF fs))

/-! ## the statements the writer emits for a table, and the value they denote -/

/-- the `key = value` lines of a table (fields that are not sub-tables) -/
def plainStmts (path : List Str) : List (Str × JVal) → List Stmt
  | [] => []
  | (k, v) :: rest =>
    if isSubTable v then plainStmts path rest else .kv path k v :: plainStmts path rest

mutual
/-- the sections of the sub-table fields, in order -/
def subStmts (path : List Str) : List (Str × JVal) → List Stmt
  | [] => []
  | (k, v) :: rest =>
    if isSubTable v then
      (match v with
        | .obj sub => .table path k :: (plainStmts (path ++ [k]) sub ++ subStmts (path ++ [k]) sub)
        | .arr items => arrStmts path k items
        | _ => []) ++ subStmts path rest
    else subStmts path rest
def arrStmts (path : List Str) (k : Str) : List JVal → List Stmt
  | [] => []
  | .obj sub :: rest =>
    (.arrTable path k :: (plainStmts (path ++ [k]) sub ++ subStmts (path ++ [k]) sub)) ++ arrStmts path k rest
  | _ :: rest => arrStmts path k rest
end

/-- all statements of the table at `path` with fields `fs` -/
def tableStmts (path : List Str) (fs : List (Str × JVal)) : List Stmt :=
  plainStmts path fs ++ subStmts path fs

/-- the plain fields, in order -/
def plainN : List (Str × JVal) → List (Str × JVal)
  | [] => []
  | (k, v) :: rest => if isSubTable v then plainN rest else (k, v) :: plainN rest

mutual
/-- the sub-table fields, in order, each table normalised -/
def subsN : List (Str × JVal) → List (Str × JVal)
  | [] => []
  | (k, v) :: rest =>
    if isSubTable v then
      (match v with
        | .obj sub => (k, .obj (plainN sub ++ subsN sub))
        | .arr items => (k, .arr (arrN items))
        | _ => (k, v)) :: subsN rest
    else subsN rest
def arrN : List JVal → List JVal
  | [] => []
  | .obj sub :: rest => .obj (plainN sub ++ subsN sub) :: arrN rest
  | v :: rest => v :: arrN rest
end

/-- the fields of a table in the order a TOML document lists them: plain fields
    first, then the sub-tables (recursively; inline values are untouched) -/
def normT (fs : List (Str × JVal)) : List (Str × JVal) := plainN fs ++ subsN fs

mutual
/-- every object (anywhere in the value) has pairwise distinct keys -/
def Distinct : JVal → Prop
  | .arr xs => DistinctL xs
  | .obj fs => DistinctF fs ∧ (fs.map Prod.fst).Nodup
  | _ => True
def DistinctL : List JVal → Prop
  | [] => True
  | x :: xs => Distinct x ∧ DistinctL xs
def DistinctF : List (Str × JVal) → Prop
  | [] => True
  | (_, x) :: xs => Distinct x ∧ DistinctF xs
end

mutual
/-- equality of JSON-like values up to the order of object fields -/
inductive JEquiv : JVal → JVal → Prop
  | refl (v : JVal) : JEquiv v v
  | arr {xs ys : List JVal} : JEquivL xs ys → JEquiv (.arr xs) (.arr ys)
  /-- `fs` is a permutation of some `gs` whose fields are, in order, equivalent to those of `hs` -/
  | obj {fs gs hs : List (Str × JVal)} : fs.Perm gs → JEquivF gs hs → JEquiv (.obj fs) (.obj hs)
inductive JEquivL : List JVal → List JVal → Prop
  | nil : JEquivL [] []
  | cons {x y : JVal} {xs ys : List JVal} : JEquiv x y → JEquivL xs ys → JEquivL (x :: xs) (y :: ys)
inductive JEquivF : List (Str × JVal) → List (Str × JVal) → Prop
  | nil : JEquivF [] []
  | cons {k : Str} {x y : JVal} {xs ys : List (Str × JVal)} :
      JEquiv x y → JEquivF xs ys → JEquivF ((k, x) :: xs) ((k, y) :: ys)
end

end Rsj.Toml
