import RsjProofs.EvalScopeStep1
/-!
  C09, run-time half: `step` on `local` and on calls (the recursive scopes: the environment is
  allocated empty, the thunks of the bindings / default arguments are created, then it is filled).
-/
open Std.Do
set_option mvcgen.warning false
namespace Rsj.Eval.Scope
open Rsj.Core Rsj.Eval Rsj.Analyze

/-! ### `local` -/

theorem names_rebind {ns : List String} {vars : List (String × TId)} (n : String) (t : TId)
    (h : ∀ m ∈ ns, m ∈ vars.map Prod.fst) :
    ∀ m ∈ ns ++ [n], m ∈ (vars.filter (fun p => p.1 != n) ++ [(n, t)]).map Prod.fst := by
  intro m hm
  have := cov_rebind (ns := ns) n t h
  exact this _ (by simp) m (by
    rcases List.mem_append.1 hm with h' | h'
    · exact List.mem_cons_of_mem _ h'
    · simp at h'; simp [h'])

theorem names_rebind' {α} (pref : List (String × α)) (cur : String × α) (b : List (String × TId)) (r : TId)
    (h : ∀ n, n ∈ pref.map Prod.fst → n ∈ b.map Prod.fst) :
    ∀ n, n ∈ (pref ++ [cur]).map Prod.fst →
      n ∈ (b.filter (fun p => p.1 != cur.1) ++ [(cur.1, r)]).map Prod.fst := by
  intro n hn
  exact names_rebind cur.1 r h n (by simpa using hn)

/-- filling the environment of a `local` -/
theorem local_close {s st : St} {env : EId} {penv penv' : Env} {Γ : AEnv} {bs : Binds}
    {vars : List (String × TId)} (hI : Inv s) (hΓ : EnvOk s.envs env Γ) (hpenv : s.envs[env]? = some penv)
    (hext : Ext s.envs.size (fun e => WS e (Γ.add (bindNames bs)))
      { s with envs := s.envs.push { parent := some env, vars := [], obj := penv.obj } } st)
    (hpenv' : st.envs[env]? = some penv') (hvars : ∀ n ∈ bindNames bs, n ∈ vars.map Prod.fst) :
    S s { st with envs := st.envs.setIfInBounds s.envs.size { parent := some env, vars := vars, obj := penv'.obj } } ∧
    Inv { st with envs := st.envs.setIfInBounds s.envs.size { parent := some env, vars := vars, obj := penv'.obj } } ∧
    EnvOk (st.envs.setIfInBounds s.envs.size { parent := some env, vars := vars, obj := penv'.obj }) s.envs.size
      (Γ.add (bindNames bs)) := by
  have hlt := hΓ.inRange
  have he : st.envs = s.envs.push _ := hext.envs
  have hpp : penv' = penv := by
    rw [he] at hpenv'
    have : s.envs[env]? = some penv' := by simpa [Array.getElem?_push, Nat.ne_of_lt hlt] using hpenv'
    rw [hpenv] at this; exact (Option.some.inj this).symm
  subst hpp
  have hv : ∀ (fin : Env) (n : String), n ∈ (({ parent := some env, vars := [], obj := penv'.obj } : Env).vars).map Prod.fst → n ∈ fin.vars.map Prod.fst :=
    fun _ n hn => by simp at hn
  have hp : ({ parent := some env, vars := [], obj := penv'.obj } : Env).parent = none ∨
      ({ parent := some env, vars := [], obj := penv'.obj } : Env).parent =
        ({ parent := some env, vars := vars, obj := penv'.obj } : Env).parent := .inr rfl
  have ho : ({ parent := some env, vars := [], obj := penv'.obj } : Env).obj.isSome = true →
      ({ parent := some env, vars := vars, obj := penv'.obj } : Env).obj.isSome = true := fun h => h
  have hk : EnvOk (st.envs.setIfInBounds s.envs.size { parent := some env, vars := vars, obj := penv'.obj })
      s.envs.size (Γ.add (bindNames bs)) := by
    refine envOk_child (block_getElem hext) rfl (block_getElem_old hext hpenv) (fun h => h)
      (block_envOk hext (hv _) hp ho hΓ) (fun h => h) ?_
    intro n hn
    rw [has_add] at hn
    rcases hn with h | h
    · exact .inl (hvars n h)
    · exact .inr h
  obtain ⟨h1, h2⟩ := close_block hext (hv _) hp ho hI (by intro p hp'; cases hp'; exact hlt) (fun e he => he) hk
  exact ⟨h1, h2, hk⟩

/-! ### Calls -/

theorem ws_posArg {split : List (Option String × Expr)} {Γ : AEnv} (h : ∀ p ∈ split, WS p.2 Γ) {ae : Expr}
    (hm : ae ∈ split.filterMap (fun p => if p.1.isNone then some p.2 else none)) : WS ae Γ := by
  obtain ⟨p, hp, hq⟩ := List.mem_filterMap.1 hm
  split at hq
  · cases hq; exact h p hp
  · cases hq

theorem ws_namedArg {split : List (Option String × Expr)} {Γ : AEnv} (h : ∀ p ∈ split, WS p.2 Γ)
    {q : String × Expr} (hm : q ∈ split.filterMap (fun p => p.1.map (fun n => (n, p.2)))) : WS q.2 Γ := by
  obtain ⟨p, hp, hq⟩ := List.mem_filterMap.1 hm
  cases hp1 : p.1 with
  | none => rw [hp1] at hq; cases hq
  | some n => rw [hp1] at hq; cases hq; exact h p hp

/-- the call once the arguments are thunks: default arguments, then the body -/
def callBlock (cfg : Cfg) (rec : Task → M Value) (fn : Func) (slots : List Bind.Slot) (pos named : List TId)
    (ts tail : Bool) (d : Nat) : M Value := do
  let needEnv := slots.any (· == .dflt)
  let argsEnv ← if needEnv then allocEnv { parent := none, vars := [], obj := none } else pure 0
  let mut argThunks : List TId := []
  for (slot, (_, pd)) in slots.zip fn.params do
    match slot with
    | .pos i =>
      match pos[i]? with
      | some t => argThunks := argThunks ++ [t]
      | none => throw (.internal "binding plan refers to a missing positional argument")
    | .named j =>
      match named[j]? with
      | some t => argThunks := argThunks ++ [t]
      | none => throw (.internal "binding plan refers to a missing named argument")
    | .dflt =>
      match pd with
      | .some de => argThunks := argThunks ++ [← newThunk de argsEnv]
      | .none => throw (.internal "default slot without default expression")
  if needEnv then
    setEnv argsEnv { parent := some fn.env, vars := (fn.params.map Prod.fst).zip argThunks,
                     obj := (← getEnv fn.env).obj }
  if ts && tail then
    for t in argThunks do
      checkDepth cfg (d + 1)
      let _ ← rec (.force t (d + 1))
    let inner ← newEnv (some fn.env) ((fn.params.map Prod.fst).zip argThunks)
    rec (.eval fn.body inner true d)
  else
    checkDepth cfg (d + 1)
    let inner ← newEnv (some fn.env) ((fn.params.map Prod.fst).zip argThunks)
    rec (.eval fn.body inner true (d + 1))

/-- the call once the callee is known: argument thunks, then `callBlock` -/
def callRest (cfg : Cfg) (rec : Task → M Value) (fn : Func) (args : Args) (ts : Bool) (env : EId)
    (tail : Bool) (d : Nat) : M Value := do
  let split := argsSplit args
  let posEs := split.filterMap (fun p => if p.1.isNone then some p.2 else none)
  let namedEs := split.filterMap (fun p => p.1.map (fun n => (n, p.2)))
  let slots ← match Bind.bindPlan (fn.params.map (fun p => (p.1, hasDefault p.2))) posEs.length
      (namedEs.map Prod.fst) with
    | .error e => throw (bindErr e)
    | .ok slots => pure slots
  let mut pos : List TId := []
  for ae in posEs do
    pos := pos ++ [← newThunk ae env]
  let mut named : List TId := []
  for (_, ae) in namedEs do
    named := named ++ [← newThunk ae env]
  callBlock cfg rec fn slots pos named ts tail d

theorem step_call_eq (cfg : Cfg) (rec : Task → M Value) (ce : Expr) (args : Args) (ts : Bool) (env : EId)
    (tail : Bool) (d : Nat) :
    step cfg rec (.eval (.call ce args ts) env tail d) = (do
      let cv ← rec (.eval ce env false d)
      let .func f := cv | throw (.rt "CalleeIsNotFunction" (typeName cv))
      let fn ← getFunc f
      callRest cfg rec fn args ts env tail d) := by
  unfold step callRest callBlock
  rfl

section
variable (cfg : Cfg) (rec : Task → M Value) (hrec : RecOk rec)
include hrec

theorem step_eval_local (s : St) (bs : Binds) (body : Expr) (env : EId) (tail : Bool) (d : Nat) (hI : Inv s)
    (Γ : AEnv) (hΓ : EnvOk s.envs env Γ) (hws : WS (.local_ bs body) Γ) :
    ⦃fun st => ⌜st = s⌝⦄ step cfg rec (.eval (.local_ bs body) env tail d) ⦃Q s (fun _ _ => True)⦄ := by
  have h1 := allocEnv_exact
  have h2 := setEnv_exact
  have h3 := newThunk_ext (fun e => WS e (Γ.add (bindNames bs)))
  have h4 := getEnv_total_spec
  have hr := rec_spec rec hrec
  simp only [WS] at hws
  obtain ⟨hnd, hwb, hwbody⟩ := hws
  have hmem := WSBinds_mem bs _ hwb
  obtain ⟨penv, hpenv⟩ : ∃ penv, s.envs[env]? = some penv := ⟨s.envs[env]'hΓ.inRange, by simp [hΓ.inRange]⟩
  qstart
  unfold step
  mvcgen [h1, h2, h3, h4, hr]
  case inv1 =>
    exact ⟨fun (cur, vars) st => ⌜Ext s.envs.size (fun e => WS e (Γ.add (bindNames bs)))
        { s with envs := s.envs.push { parent := some env, vars := [], obj := penv.obj } } st ∧
        ∀ n ∈ cur.prefix.map Prod.fst, n ∈ vars.map Prod.fst⌝,
      fun e _ => ⌜Good e ∧ ¬ NonPanic e⌝, fun _ => ⌜True⌝, ()⟩
  all_goals clear h1 h2 h3 h4 hr
  all_goals vcprep
  all_goals first
    | eclose
    | exact hmem _ (mem_of_split (by assumption))
    | exact ⟨by xchain, names_rebind' _ _ _ _ (by assumption)⟩
    | (rename_i hr
       obtain rfl := Option.some.inj (hpenv.symm.trans hr)
       exact ⟨Ext.refl _ _ _, by simp⟩)
    | exact ext_getElem_old (by assumption) hΓ.inRange
    | exact ⟨by assumption, (local_close hI hΓ hpenv (by assumption) (by assumption)
        (by rw [← map_fst_bindsList]; assumption)).1.trans (by assumption), trivial⟩
    | exact (local_close hI hΓ hpenv (by assumption) (by assumption)
        (by rw [← map_fst_bindsList]; assumption)).2.1
    | exact ⟨_, (local_close hI hΓ hpenv (by assumption) (by assumption)
        (by rw [← map_fst_bindsList]; assumption)).2.2, hwbody⟩
    | (econds; sclose)

theorem callBlock_spec (s : St) (fn : Func) (slots : List Bind.Slot) (pos named : List TId)
    (ts tail : Bool) (d : Nat) (hI : Inv s) (hf : ∃ f : Nat, s.funcs[f]? = some fn)
    (hslots : ∃ npos nnames,
      Bind.bindPlan (fn.params.map (fun p => (p.1, hasDefault p.2))) npos nnames = .ok slots) :
    ⦃fun st => ⌜st = s⌝⦄ callBlock cfg rec fn slots pos named ts tail d ⦃Q s (fun _ _ => True)⦄ := by
  obtain ⟨f, hf⟩ := hf
  obtain ⟨npos, nnames, hslots⟩ := hslots
  obtain ⟨Γf, hΓf, hdef, hbody⟩ := hI.g.funcs f fn hf
  have h1 := allocEnv_exact
  have h2 := setEnv_exact
  have h3 := newThunk_ext (fun e => WS e (Γf.add (fn.params.map Prod.fst)))
  have h4 := getEnv_total_spec
  have h5 := checkDepth_spec
  have h6 := newEnv_spec
  have hr := rec_spec rec hrec
  qstart
  unfold callBlock
  mvcgen [h1, h2, h3, h4, h5, h6, hr]
  case inv1 =>
    exact ⟨fun (cur, ts) st => ⌜Ext s.envs.size (fun e => WS e (Γf.add (fn.params.map Prod.fst)))
        { s with envs := s.envs.push { parent := none, vars := [], obj := none } } st ∧
        ts.length = cur.prefix.length⌝,
      fun e _ => ⌜Good e ∧ ¬ NonPanic e⌝, fun _ => ⌜True⌝, ()⟩
  case inv4 =>
    exact ⟨fun (cur, ts) st => ⌜st = s ∧ ts.length = cur.prefix.length⌝,
      fun e _ => ⌜Good e ∧ ¬ NonPanic e⌝, fun _ => ⌜True⌝, ()⟩
  assign_invs (Qg s (fun _ _ => True))
  all_goals try (clear h1 h2 h3 h4 h5 h6 hr)
  all_goals vcprep
  all_goals first
    | eclose
    | exact ws_default hdef (by assumption) (by assumption)
    | exact ⟨by assumption, by (simp [*]; fin)⟩
    | exact ⟨by xchain, by (simp [*]; fin)⟩
    | exact ⟨Ext.refl _ _ _, rfl⟩
    | exact ext_getElem_old (by assumption) hΓf.inRange
    | (econds; sclose)
    | exact ⟨rfl, by (simp [*]; fin)⟩
    | (exfalso
       have := any_dflt_of_mem (by assumption) (by assumption)
       exact absurd this (by assumption))
    | exact call_taskOk hf (by schain) (by assumption) (by assumption) (args_length hslots (by assumption))
    | exact func_env_lt hf (by schain) (by assumption)
    | (obtain ⟨hc1, hc2⟩ := argsBlock_close hI hΓf (by assumption) (by assumption)
          (Nat.le_of_eq (args_length hslots (by assumption)).symm)
       first
         | exact ⟨hc2, hc1, trivial⟩
         | exact hc2
         | exact func_env_lt hf hc1 hc2
         | exact call_taskOk hf (by schain) (by assumption) (by assumption) (args_length hslots (by assumption))
         | exact ⟨by assumption, by schain, trivial⟩
         | exact ⟨fun _ => hc2, by assumption⟩)

theorem callRest_spec (s : St) (fn : Func) (args : Args) (ts : Bool) (env : EId) (tail : Bool) (d : Nat)
    (hI : Inv s) (hf : ∃ f : Nat, s.funcs[f]? = some fn)
    (hΓ : ∃ Γ, EnvOk s.envs env Γ ∧ ∀ p ∈ argsSplit args, WS p.2 Γ) :
    ⦃fun st => ⌜st = s⌝⦄ callRest cfg rec fn args ts env tail d ⦃Q s (fun _ _ => True)⦄ := by
  obtain ⟨f, hf⟩ := hf
  obtain ⟨Γ, hΓ, hargs⟩ := hΓ
  have h1 := newThunk_spec
  have h2 := callBlock_spec cfg rec hrec
  qstart
  unfold callRest
  mvcgen [h1, h2]
  assign_invs (Qg s (fun _ _ => True))
  all_goals clear h1 h2
  all_goals vcprep
  all_goals first
    | eclose
    | exact ⟨fun _ => hI, (Good_bindErr _).1⟩
    | exact newThunk_pre hΓ (by schain) (ws_posArg hargs (mem_of_split (by assumption)))
    | exact newThunk_pre hΓ (by schain) (ws_namedArg hargs (mem_of_split (by assumption)))
    | exact ⟨f, S.funcs (by schain) _ _ hf⟩
    | exact ⟨_, _, by assumption⟩

theorem step_eval_call (s : St) (ce : Expr) (args : Args) (ts : Bool) (env : EId) (tail : Bool) (d : Nat)
    (hI : Inv s) (Γ : AEnv) (hΓ : EnvOk s.envs env Γ) (hws : WS (.call ce args ts) Γ) :
    ⦃fun st => ⌜st = s⌝⦄ step cfg rec (.eval (.call ce args ts) env tail d) ⦃Q s (fun _ _ => True)⦄ := by
  have h1 := getFunc_spec
  have h2 := callRest_spec cfg rec hrec
  have hr := rec_spec rec hrec
  simp only [WS] at hws
  have hargs := WSArgs_mem args false Γ hws.2
  qstart
  rw [step_call_eq]
  mvcgen [h1, h2, hr]
  all_goals clear h1 h2 hr
  all_goals vcprep
  all_goals first
    | eclose
    | exact ⟨_, by assumption⟩
    | exact ⟨Γ, S.env (by schain) _ _ hΓ, hargs⟩

end
end Rsj.Eval.Scope
