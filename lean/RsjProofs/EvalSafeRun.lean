import RsjProofs.EvalSafeStep4
/-!
  C01 on the evaluator model: every level of the evaluator, every fuel, every request keeps every
  identifier of the store in range and never fails with a modelled panic other than those of
  `Good2`.
-/
open Std.Do
set_option mvcgen.warning false
namespace Rsj.Eval.Safe
open Rsj.Core Rsj.Eval Rsj.Eval.Scope

theorem triple_Q2_mono {α} {x : M α} {P : St → Prop} {s : St} {p q : α → St → Prop}
    (hpq : ∀ a st, p a st → q a st) (h : ⦃fun st => ⌜P st⌝⦄ x ⦃Q2 s p⦄) : ⦃fun st => ⌜P st⌝⦄ x ⦃Q2 s q⦄ := by
  have := sem_of_triple (Qok := fun a st => Le s st ∧ Safe st ∧ p a st)
    (Qerr := fun e st => Good2 e ∧ Safe st ∧ SzLe s st) h
  refine triple_of_sem (Qok := fun a st => Le s st ∧ Safe st ∧ q a st)
    (Qerr := fun e st => Good2 e ∧ Safe st ∧ SzLe s st) ?_
  intro st hp
  have h1 := this st hp
  cases hx : x st with
  | none => trivial
  | some r =>
    obtain ⟨r, s'⟩ := r
    rw [hx] at h1
    cases r with
    | ok a => exact ⟨h1.1, h1.2.1, hpq _ _ h1.2.2⟩
    | error e => exact h1

theorem TaskOk2.mono {a b : St} {t : Task} (h : TaskOk2 a t) (h1 : a.thunks.size ≤ b.thunks.size)
    (h2 : a.envs.size ≤ b.envs.size) (h3 : a.objs.size ≤ b.objs.size) (h4 : a.funcs.size ≤ b.funcs.size) :
    TaskOk2 b t := by
  cases t with
  | eval e env tail d => exact ⟨Nat.lt_of_lt_of_le h.1 h2, h.2⟩
  | force t d => exact Nat.lt_of_lt_of_le h h1
  | manifest v d c => exact ValOk.mono h h1 h3 h4
  | deep v d => exact ValOk.mono h h1 h3 h4
  | equals x y d => exact ⟨ValOk.mono h.1 h1 h3 h4, ValOk.mono h.2 h1 h3 h4⟩
  | compare x y d => exact ⟨ValOk.mono h.1 h1 h3 h4, ValOk.mono h.2 h1 h3 h4⟩
  | asserts o d => exact Nat.lt_of_lt_of_le h h3

section
variable (cfg : Cfg) (rec : Task → M Value) (hrec : RecOk2 rec)
include hrec

/-- one level of the evaluator keeps the store in range if the recursive calls do -/
theorem step_spec2 : RecOk2 (step cfg rec) := by
  intro t s hS hT
  cases t with
  | force t d => exact triple_Q2_mono (fun _ _ h => ⟨h, trivial⟩) (step_force2 cfg rec hrec s t d hS hT)
  | asserts o d => exact triple_Q2_mono (fun _ _ h => ⟨h, trivial⟩) (step_asserts2 cfg rec hrec s o d hS hT)
  | deep v d => exact step_walk2 cfg rec hrec s _ hS hT trivial
  | manifest v d c => exact step_walk2 cfg rec hrec s _ hS hT trivial
  | equals a b d => exact step_walk2 cfg rec hrec s _ hS hT trivial
  | compare a b d => exact step_walk2 cfg rec hrec s _ hS hT trivial
  | eval e env tail d =>
    obtain ⟨henv, hc⟩ := hT
    refine triple_Q2_mono (fun _ _ h => ⟨h, trivial⟩) ?_
    cases e with
    | object ms => exact step_eval_object2 cfg rec hrec s ms env tail d hS henv hc
    | objectComp l n p b sp => exact step_eval_objectComp2 cfg rec hrec s l n p b sp env tail d hS henv hc
    | array items => exact step_eval_array2 cfg rec hrec s items env tail d hS henv hc
    | arrayComp b sp => exact step_eval_arrayComp2 cfg rec hrec s b sp env tail d hS henv hc
    | call ce args ts => exact step_eval_call2 cfg rec hrec s ce args ts env tail d hS henv hc
    | local_ bs body => exact step_eval_local2 cfg rec hrec s bs body env tail d hS henv hc
    | builtin b args => exact step_eval_builtin2 cfg rec hrec s b args env tail d hS henv hc
    | _ => exact step_eval_simple2 cfg rec hrec s _ env tail d hS henv hc trivial

end

/-- every fuel -/
theorem run_spec2 (cfg : Cfg) (n : Nat) : RecOk2 (run cfg n) := by
  induction n with
  | zero =>
    intro t s hS hT
    unfold Q2
    exact bottom_spec _ _ _
  | succ k ih =>
    intro t s hS hT
    have h1 := noteDepth_spec2
    have h2 : ∀ (t : Task) (s : St), Safe s → TaskOk2 s t →
      ⦃fun st => ⌜st = s⌝⦄ step cfg (run cfg k) t
        ⦃Q2 s (fun v st => ValOk st.thunks.size st.objs.size st.funcs.size v ∧ ResKind t v)⦄ :=
      step_spec2 cfg (run cfg k) ih
    show ⦃fun st => ⌜st = s⌝⦄ stepN cfg (run cfg k) t ⦃Q2 s _⦄
    qstart2
    unfold stepN
    mvcgen [h1, h2]
    all_goals clear h1 h2
    all_goals vcprep2
    all_goals first
      | s2close
      | exact TaskOk2.mono (by assumption) (by omega) (by omega) (by omega) (by omega)

theorem requestProg_spec2 (cfg : Cfg) (fuel : Nat) (t : TId) (s : St) (hS : Safe s) (ht : t < s.thunks.size) :
    ⦃fun st => ⌜st = s⌝⦄ requestProg cfg fuel t ⦃Q2 s (fun _ _ => True)⦄ := by
  have hr : ∀ (t : Task) (s : St), Safe s → TaskOk2 s t →
      ⦃fun st => ⌜st = s⌝⦄ run cfg fuel t
        ⦃Q2 s (fun v st => ValOk st.thunks.size st.objs.size st.funcs.size v ∧ ResKind t v)⦄ := run_spec2 cfg fuel
  qstart2
  unfold requestProg
  mvcgen [hr]
  all_goals clear hr
  all_goals vcprep2
  all_goals first
    | s2close
    | (exfalso; exact manifest_str (by assumption) (by assumption))

theorem programProg_spec2 (cfg : Cfg) (fuel : Nat) (e : Expr) (s : St) (hS : Safe s) (hc : CoreShaped e) :
    ⦃fun st => ⌜st = s⌝⦄ programProg cfg fuel e ⦃Q2 s (fun _ _ => True)⦄ := by
  have h1 := allocThunk_spec2
  have h2 := allocEnv_spec2
  have h3 := requestProg_spec2 cfg fuel
  qstart2
  unfold programProg
  mvcgen [h1, h2, h3]
  all_goals clear h1 h2 h3
  all_goals vcprep2
  all_goals first
    | s2close

/-- the store a history starts from is in range, and so are the thunks of its sources -/
theorem historyInit_spec2 (libs : List (String × Expr)) (srcs : List Expr) (s : St) (hS : Safe s)
    (hl : ∀ p ∈ libs, CoreShaped p.2) (hs : ∀ e ∈ srcs, CoreShaped e) :
    ⦃fun st => ⌜st = s⌝⦄ historyInit libs srcs ⦃Q2 s (fun ts st => ∀ t ∈ ts, t < st.thunks.size)⦄ := by
  have h1 := allocThunk_spec2
  have h2 := allocEnv_spec2
  have h4 := setEnv_spec2
  qstart2
  unfold historyInit
  mvcgen [h1, h2, h4]
  on_invs first | exact varsInv s ‹St› | exact outInv s ‹St›
  all_goals clear h1 h2 h4
  all_goals (try simp only [varsInv] at *)
  all_goals vcprep3
  all_goals first
    | s3close

end Rsj.Eval.Safe
