/-
  C15 print/parse, part 17: heads — atoms, `super.f`, `super[i]`, array literals and array
  comprehensions.
-/
import RsjProofs.ParserRun16
namespace Rsj.Parser

section
variable {toks : List Token} (pe : PState toks → Except (Err toks) (Expr × PState toks)) (R : Nat)

theorem atom_headW {t : Expr} {tk : TokKind} (ha : AtomTok t tk) : HDtok pe R [tk] t.erase (fun _ => True) := by
  intro S st y Y hk _ _
  obtain ⟨e', st', he, hk', hprim⟩ := primary_atom pe (.suffix :: S) ha (by simpa using hk)
  exact ⟨e', st', 1, he, hk', by simp, Reach.primary pe (fun f _ => hprim f)⟩

theorem superField_head (v : String) :
    HDtok pe R [sim .Super, sim .Dot, .ident v] (.superField .zero ⟨v, .zero⟩ .zero) (fun _ => True) := by
  intro S st y Y hk _ _
  obtain ⟨e', st', he, hk', hprim⟩ := primary_superField pe (v := v) (.suffix :: S) (by simpa using hk)
  exact ⟨e', st', 1, he, hk', by simp, Reach.primary pe (fun f _ => hprim f)⟩

theorem superIndex_head {full : Bool} {i : Expr} (hi : PCh pe R full i) :
    HDtok pe R (sim .Super :: sim .LeftBracket :: (sub full i 0 false false ++ [sim .RightBracket]))
      (.superIndex .zero i.erase .zero) (fun _ => True) := by
  intro S st y Y hk hR _
  have hk0 : st.kinds = sim .Super :: sim .LeftBracket :: (sub full i 0 false false ++ sim .RightBracket :: y :: Y) := by
    rw [hk]; simp
  have hne : sub full i 0 false false ++ sim .RightBracket :: y :: Y ≠ [] := by simp
  obtain ⟨e', st', he, hk', hprim⟩ := primary_superIndex pe (ie := i.erase) (b := y) (ks := Y) (.suffix :: S) hk0 hne
    (by
      intro st2 hk2
      obtain ⟨i', st3, h1, h2, h3⟩ := hi.run pe R (st := st2) (tk := sim .RightBracket) (T := y :: Y) hk2
        (by rw [hk2]; rw [hk0] at hR; simp at hR ⊢; omega) stopTok_rbracket (by simp [sim])
      exact ⟨i', st3, h1, h3, h2⟩)
  exact ⟨e', st', 1, he, hk', by simp; omega, Reach.primary pe (fun f _ => hprim f)⟩

/-! ### arrays -/

/-- what the machine lemmas need of an array item (parsed in the same loop) -/
def ItemOK (full : Bool) (x : Expr) : Prop :=
  LQW pe R (sub full x) x.erase initKind false false ∧ HeadOK2 (sub full x 0 false false)

omit pe R in
theorem noOpAbove_of_stop {tk : TokKind} (h : StopTok tk) (p : Nat) : NoOpAbove p tk := fun j _ => h.2 j

/-- an item and the `binaryRhs` step that closes it -/
theorem item_run {full : Bool} {x : Expr} (hx : ItemOK pe R full x) (S : List StackItem) {st : PState toks}
    {tk : TokKind} {T : Toks} (hk : st.kinds = sub full x 0 false false ++ tk :: T) (hlen : st.kinds.length ≤ R)
    (hstop : StopTok tk) (hne : tk ≠ sim .Else) :
    ∃ x' st' n, x'.erase = x.erase ∧ st'.kinds = tk :: T ∧ n + 6 ≤ 40 * (sub full x 0 false false).length ∧
      Reach pe (R + 2) S (.binary initKind) st n S (.parsed x') st' := by
  obtain ⟨S', x', st1, n, hb, hxe, hk1, hn, hr⟩ := hx.1 initKind S st tk T (Nat.le_refl _)
    (by rw [initKind_prec]; exact hk) hlen hstop.1 (noOpAbove_of_stop hstop _) (FollowOK.of_stop false hstop hne false)
  have := Below_self hb
  subst this
  obtain ⟨st2, hstep, hk2⟩ := binaryRhs_miss (k := initKind) x' S' (st := st1)
    (by rw [cur_kind_of_kinds hk1]; exact hstop.2 _)
  rw [initKind_prec] at hn
  exact ⟨x', st2, n + 1, hxe, by rw [hk2, hk1], by omega, Reach.trans pe hr (Reach.binaryRhs pe hstep)⟩

omit pe R in
theorem prExprs_cons2 (full : Bool) (x y : Expr) (rest : List Expr) :
    prExprs full (x :: y :: rest) = sub full x 0 false false ++ sim .Comma :: prExprs full (y :: rest) := by
  simp [prExprs]

omit pe R in
theorem prExprs_single (full : Bool) (x : Expr) : prExprs full [x] = sub full x 0 false false := by
  simp [prExprs]

omit pe R in
theorem prExprs_head {full : Bool} (x : Expr) (rest : List Expr) (hx : HeadOK2 (sub full x 0 false false)) :
    ∃ a Z, prExprs full (x :: rest) = a :: Z ∧ ExprStart2 a := by
  obtain ⟨a, Z, hz, ha, _⟩ := hx.cons
  cases rest with
  | nil => exact ⟨a, Z, by rw [prExprs_single, hz], ha⟩
  | cons y rest => exact ⟨a, Z ++ sim .Comma :: prExprs full (y :: rest), by rw [prExprs_cons2, hz]; rfl, ha⟩

/-- the items after the first one (stack item `ArrayItemN`) -/
theorem array_rest {full : Bool} : ∀ (rest : List Expr), rest ≠ [] → (∀ x ∈ rest, ItemOK pe R full x) →
    ∀ (acc : List Expr) (spn : Span) (S0 : List StackItem) (st : PState toks) (y : TokKind) (Y : Toks),
    st.kinds = prExprs full rest ++ sim .RightBracket :: y :: Y → st.kinds.length ≤ R →
    ∃ rest' sp' st' n, eraseExprs rest' = eraseExprs rest ∧ st'.kinds = y :: Y ∧
      n + 5 ≤ 40 * (prExprs full rest).length ∧
      Reach pe (R + 2) (.arrayItemN spn acc :: S0) (.binary initKind) st n S0
        (.parsed (.array (acc ++ rest') sp')) st'
  | [], h, _, _, _, _, _, _, _, _, _ => absurd rfl h
  | [x], _, hall, acc, spn, S0, st, y, Y, hk, hlen => by
    rw [prExprs_single] at hk ⊢
    obtain ⟨x', st1, n, hxe, hk1, hn, hr⟩ := item_run pe R (hall x (by simp)) (.arrayItemN spn acc :: S0) hk hlen
      stopTok_rbracket (by simp [sim])
    have hm : eatSimple .Comma true st1 = .ok (none, st1.pushIf true (.simple .Comma)) :=
      eatSimple_miss true (by rw [cur_kind_of_kinds hk1]; simp [sim])
    obtain ⟨st2, he2, hk2⟩ := eatSimple_hit (st := st1.pushIf true (.simple .Comma)) true
      (by rw [kinds_pushIf]; exact hk1)
    refine ⟨[x'], surround spn (st1.pushIf true (.simple .Comma)).cur.span, st2, n + 1,
      by simp [eraseExprs, hxe], hk2, by omega, Reach.trans pe hr (Reach.parsed pe (fun fuel _ => ?_))⟩
    unfold parsedStep
    simp only [bind, Except.bind]
    rw [hm]; simp only []
    rw [he2]; rfl
  | x :: x2 :: rest, _, hall, acc, spn, S0, st, y, Y, hk, hlen => by
    rw [prExprs_cons2] at hk ⊢
    have hk0 : st.kinds = sub full x 0 false false ++ sim .Comma :: (prExprs full (x2 :: rest) ++
        sim .RightBracket :: y :: Y) := by rw [hk]; simp
    obtain ⟨x', st1, n, hxe, hk1, hn, hr⟩ := item_run pe R (hall x (by simp)) (.arrayItemN spn acc :: S0) hk0 hlen
      stopTok_comma (by simp [sim])
    obtain ⟨a, Z, hz, has⟩ := prExprs_head (full := full) x2 rest (hall x2 (by simp)).2
    obtain ⟨st2, he2, hk2⟩ := eatSimple_hit (k := .Comma) (b := a) (ks := Z ++ sim .RightBracket :: y :: Y)
      (st := st1) true (by rw [hk1, hz]; rfl)
    have hm : eatSimple .RightBracket true st2 = .ok (none, st2.pushIf true (.simple .RightBracket)) :=
      eatSimple_miss true (by rw [cur_kind_of_kinds hk2]; simpa [sim] using has.ne (k := .RightBracket) (by decide))
    have hlen1 : st1.kinds.length ≤ st.kinds.length := by rw [hk1, hk0]; simp
    have hk3 : (st2.pushIf true (.simple .RightBracket)).kinds = prExprs full (x2 :: rest) ++
        sim .RightBracket :: y :: Y := by rw [kinds_pushIf, hk2, hz]; rfl
    obtain ⟨rest', sp', st4, n2, hre, hk4, hn2, hr2⟩ := array_rest (x2 :: rest) (by simp)
      (fun z hz => hall z (by simp [hz])) (acc ++ [x']) spn S0 (st2.pushIf true (.simple .RightBracket)) y Y hk3
      (by rw [kinds_pushIf, hk2]; rw [hk1] at hlen1; rw [hz] at hlen1; simp at hlen1 ⊢; omega)
    refine ⟨x' :: rest', sp', st4, n + 1 + n2, by simp [eraseExprs, hxe, hre], hk4, ?_, ?_⟩
    · simp only [List.length_append, List.length_cons]; omega
    · have : acc ++ x' :: rest' = acc ++ [x'] ++ rest' := by simp
      rw [this]
      refine Reach.trans pe (Reach.trans pe hr (Reach.parsed pe (fun fuel _ => ?_))) hr2
      unfold parsedStep
      simp only [bind, Except.bind]
      rw [he2]; simp only []
      rw [hm]; rfl

/-- tokens of `[ items ]` -/
def arrToks (full : Bool) (items : List Expr) : Toks :=
  sim .LeftBracket :: (prExprs full items ++ [sim .RightBracket])

/-- `State::Primary` on `[` -/
theorem primary_lbracket {b : TokKind} {ks : List TokKind} {st : PState toks}
    (h : st.kinds = sim .LeftBracket :: b :: ks) :
    ∃ st1, st1.kinds = b :: ks ∧ ∀ fuel (S : List StackItem), primaryStep pe fuel S st =
      (match eatSimple .RightBracket true st1 with
       | .error e => .error e
       | .ok (some endSp, st2) => .ok ((S, .parsed (.array [] (surround st.cur.span endSp))), st2)
       | .ok (none, st2) => .ok ((.arrayItem0 st.cur.span :: S, initState), st2)) := by
  have hc := (PState.kinds_cons h).1
  obtain ⟨st1, he, hk⟩ := eatSimple_hit false h
  refine ⟨st1, hk, fun fuel S => ?_⟩
  unfold primaryStep
  rw [pms_miss (by rw [hc]; simp [NotAtom, sim])]; simp only [bind, Except.bind]
  rw [eatSimple_miss_false (by rw [hc]; simp [sim])]; simp only []
  rw [he]; simp only []
  cases eatSimple .RightBracket true st1 with
  | error e => rfl
  | ok v =>
    obtain ⟨r, st2⟩ := v
    cases r <;> rfl

/-- the head `[ items ]` -/
theorem array_head {full : Bool} (items : List Expr) (hall : ∀ x ∈ items, ItemOK pe R full x) :
    HDtok pe R (arrToks full items) (.array (eraseExprs items) .zero) (fun _ => True) := by
  intro S st y Y hk hR _
  cases items with
  | nil =>
    have hk0 : st.kinds = sim .LeftBracket :: sim .RightBracket :: y :: Y := by
      rw [hk]; simp [arrToks, prExprs]
    obtain ⟨st1, hk1, hprim⟩ := primary_lbracket pe hk0
    obtain ⟨st2, he2, hk2⟩ := eatSimple_hit true hk1
    refine ⟨.array [] (surround st.cur.span st1.cur.span), st2, 1, rfl, hk2, by simp [arrToks, prExprs],
      Reach.primary pe (fun fuel _ => ?_)⟩
    rw [hprim fuel, he2]
  | cons x rest =>
    obtain ⟨a, Z, hz, has⟩ := prExprs_head (full := full) x rest (hall x (by simp)).2
    have hk0 : st.kinds = sim .LeftBracket :: a :: (Z ++ sim .RightBracket :: y :: Y) := by
      rw [hk]; simp [arrToks, hz]
    obtain ⟨st1, hk1, hprim⟩ := primary_lbracket pe hk0
    have hm1 : eatSimple .RightBracket true st1 = .ok (none, st1.pushIf true (.simple .RightBracket)) :=
      eatSimple_miss true (by rw [cur_kind_of_kinds hk1]; simpa [sim] using has.ne (k := .RightBracket) (by decide))
    have r0 : Reach pe (R + 2) (.suffix :: S) .primary st 1 (.arrayItem0 st.cur.span :: .suffix :: S)
        (.binary initKind) (st1.pushIf true (.simple .RightBracket)) :=
      Reach.primary pe (fun fuel _ => by rw [hprim fuel, hm1]; rfl)
    have hk2 : (st1.pushIf true (.simple .RightBracket)).kinds = prExprs full (x :: rest) ++
        sim .RightBracket :: y :: Y := by rw [kinds_pushIf, hk1, hz]; rfl
    have hlen2 : (st1.pushIf true (.simple .RightBracket)).kinds.length + 1 ≤ st.kinds.length := by
      rw [kinds_pushIf, hk1, hk0]; simp
    cases rest with
    | nil =>
      rw [prExprs_single] at hk2
      obtain ⟨x', st3, n, hxe, hk3, hn, hr⟩ := item_run pe R (hall x (by simp)) (.arrayItem0 st.cur.span :: .suffix :: S)
        hk2 (by omega) stopTok_rbracket (by simp [sim])
      have hc3 := cur_kind_of_kinds hk3
      have hm3 : eatSimple .Comma true st3 = .ok (none, st3.pushIf true (.simple .Comma)) :=
        eatSimple_miss true (by rw [hc3]; simp [sim])
      obtain ⟨st4, hcs, hk4⟩ := compSpec_miss pe (st := st3.pushIf true (.simple .Comma))
        (by rw [cur_pushIf, hc3]; simp [sim])
      rw [kinds_pushIf] at hk4
      obtain ⟨st5, he5, hk5⟩ := eatSimple_hit (st := st4) true (by rw [hk4]; exact hk3)
      refine ⟨.array [x'] (surround st.cur.span st4.cur.span), st5, 1 + n + 1, by simp [Expr.erase, eraseExprs, hxe],
        hk5, ?_, Reach.trans pe (Reach.trans pe r0 hr) (Reach.parsed pe (fun fuel _ => ?_))⟩
      · simp only [arrToks, prExprs_single, List.length_cons, List.length_append, List.length_nil]; omega
      · unfold parsedStep
        simp only [bind, Except.bind]
        rw [hm3]; simp only []
        rw [hcs fuel]; simp only []
        rw [he5]; rfl
    | cons x2 rest2 =>
      rw [prExprs_cons2] at hk2
      have hk2' : (st1.pushIf true (.simple .RightBracket)).kinds = sub full x 0 false false ++ sim .Comma ::
          (prExprs full (x2 :: rest2) ++ sim .RightBracket :: y :: Y) := by rw [hk2]; simp
      obtain ⟨x', st3, n, hxe, hk3, hn, hr⟩ := item_run pe R (hall x (by simp)) (.arrayItem0 st.cur.span :: .suffix :: S)
        hk2' (by omega) stopTok_comma (by simp [sim])
      obtain ⟨a2, Z2, hz2, has2⟩ := prExprs_head (full := full) x2 rest2 (hall x2 (by simp)).2
      obtain ⟨st4, he4, hk4⟩ := eatSimple_hit (k := .Comma) (b := a2) (ks := Z2 ++ sim .RightBracket :: y :: Y)
        (st := st3) true (by rw [hk3, hz2]; rfl)
      have hc4 := cur_kind_of_kinds hk4
      obtain ⟨st5, hcs, hk5⟩ := compSpec_miss pe (st := st4) (by rw [hc4]; exact has2.ne (k := .For) (by decide))
      have hm5 : eatSimple .RightBracket true st5 = .ok (none, st5.pushIf true (.simple .RightBracket)) :=
        eatSimple_miss true (by
          rw [cur_kind_of_kinds (by rw [hk5]; exact hk4)]
          simpa [sim] using has2.ne (k := .RightBracket) (by decide))
      have hlen3 : st3.kinds.length ≤ (st1.pushIf true (.simple .RightBracket)).kinds.length := by
        rw [hk3, hk2']; simp
      have hk6 : (st5.pushIf true (.simple .RightBracket)).kinds = prExprs full (x2 :: rest2) ++
          sim .RightBracket :: y :: Y := by rw [kinds_pushIf, hk5, hk4, hz2]; rfl
      obtain ⟨rest', sp', st7, n2, hre, hk7, hn2, hr2⟩ := array_rest pe R (x2 :: rest2) (by simp)
        (fun z hz => hall z (by simp [hz])) [x'] st.cur.span (.suffix :: S) (st5.pushIf true (.simple .RightBracket))
        y Y hk6
        (by rw [kinds_pushIf, hk5, hk4]; rw [hk3, hz2] at hlen3; simp at hlen3 ⊢; omega)
      refine ⟨.array ([x'] ++ rest') sp', st7, 1 + n + 1 + n2, by simp [Expr.erase, eraseExprs, hxe, hre], hk7, ?_,
        Reach.trans pe (Reach.trans pe (Reach.trans pe r0 hr) (Reach.parsed pe (fun fuel _ => ?_))) hr2⟩
      · simp only [arrToks, prExprs_cons2, List.length_cons, List.length_append, List.length_nil]; omega
      · unfold parsedStep
        simp only [bind, Except.bind]
        rw [he4]; simp only []
        rw [hcs fuel]; simp only []
        rw [hm5]; rfl

/-- tokens of `[ e for … ]` -/
def arrCompToks (full : Bool) (e : Expr) (spec : List CompSpec) : Toks :=
  sim .LeftBracket :: (sub full e 0 false false ++ prSpecs full spec ++ [sim .RightBracket])

/-- the head `[ e for … ]` -/
theorem arrayComp_head {full : Bool} {e : Expr} {spec : List CompSpec} (he : ItemOK pe R full e)
    (hspec : SpecsOK pe R full spec) :
    HDtok pe R (arrCompToks full e spec) (.arrayComp e.erase (eraseSpecs spec) .zero) (fun _ => True) := by
  intro S st y Y hk hR _
  obtain ⟨a, Z, hz, has, _⟩ := he.2.cons
  obtain ⟨Z', hz'⟩ := specs_first (full := full) hspec.first (sim .RightBracket :: y :: Y)
  have hk0 : st.kinds = sim .LeftBracket :: a :: (Z ++ (prSpecs full spec ++ sim .RightBracket :: y :: Y)) := by
    rw [hk]; simp [arrCompToks, hz]
  obtain ⟨st1, hk1, hprim⟩ := primary_lbracket pe hk0
  have hm1 : eatSimple .RightBracket true st1 = .ok (none, st1.pushIf true (.simple .RightBracket)) :=
    eatSimple_miss true (by rw [cur_kind_of_kinds hk1]; simpa [sim] using has.ne (k := .RightBracket) (by decide))
  have r0 : Reach pe (R + 2) (.suffix :: S) .primary st 1 (.arrayItem0 st.cur.span :: .suffix :: S)
      (.binary initKind) (st1.pushIf true (.simple .RightBracket)) :=
    Reach.primary pe (fun fuel _ => by rw [hprim fuel, hm1]; rfl)
  have hk2 : (st1.pushIf true (.simple .RightBracket)).kinds = sub full e 0 false false ++ sim .For :: Z' := by
    rw [kinds_pushIf, hk1, hz, ← hz']; simp
  have hlen2 : (st1.pushIf true (.simple .RightBracket)).kinds.length + 1 ≤ st.kinds.length := by
    rw [kinds_pushIf, hk1, hk0]; simp
  obtain ⟨e', st3, n, hee, hk3, hn, hr⟩ := item_run pe R he (.arrayItem0 st.cur.span :: .suffix :: S)
    hk2 (by omega) stopTok_for (by simp [sim])
  have hc3 := cur_kind_of_kinds hk3
  have hm3 : eatSimple .Comma true st3 = .ok (none, st3.pushIf true (.simple .Comma)) :=
    eatSimple_miss true (by rw [hc3]; simp [sim])
  have hlen3 : st3.kinds.length ≤ (st1.pushIf true (.simple .RightBracket)).kinds.length := by
    rw [hk3, hk2]; simp
  obtain ⟨spec', st4, hse, hk4, hcs⟩ := compSpec_hit pe R hspec (st := st3.pushIf true (.simple .Comma))
    (tk := sim .RightBracket) (T := y :: Y) (by rw [kinds_pushIf, hk3, hz'])
    (by rw [kinds_pushIf]; omega) stopTok_rbracket (by simp [sim]) (by simp [sim]) (by simp [sim])
  obtain ⟨st5, he5, hk5⟩ := expectSimple_hit true hk4
  have hsl := prSpecs_length full spec
  refine ⟨.arrayComp e' spec' (surround st.cur.span st4.cur.span), st5, 1 + n + 1, by simp [Expr.erase, hee, hse],
    hk5, ?_, Reach.trans pe (Reach.trans pe r0 hr) (Reach.parsed pe (fun fuel hf => ?_))⟩
  · simp only [arrCompToks, List.length_cons, List.length_append, List.length_nil]; omega
  · unfold parsedStep
    simp only [bind, Except.bind]
    rw [hm3]; simp only []
    rw [hcs fuel (by
      have : (prSpecs full spec).length + 2 ≤ st.kinds.length := by rw [hk0]; simp; omega
      omega)]; simp only []
    rw [he5]; rfl

end
end Rsj.Parser
