/-
  Helper lemmas for C20 (UTF-8): `std.encodeUTF8` and `String::from_utf8_lossy`.
-/
import RsjModel.Codec
namespace Rsj.Codec

theorem encodeScalar_length_pos (c : Nat) : 1 ≤ (encodeScalar c).length := by
  unfold encodeScalar; split; · simp
  split; · simp
  split <;> simp

theorem isCont_iff (b : Nat) : isCont b = true ↔ 0x80 ≤ b ∧ b ≤ 0xBF := by
  unfold isCont; simp

theorem second3_iff (b c : Nat) : second3 b c = true ↔
    (if b = 0xE0 then 0xA0 ≤ c ∧ c ≤ 0xBF else if b = 0xED then 0x80 ≤ c ∧ c ≤ 0x9F else 0x80 ≤ c ∧ c ≤ 0xBF) := by
  unfold second3
  split
  · simp
  · split <;> simp

theorem second4_iff (b c : Nat) : second4 b c = true ↔
    (if b = 0xF0 then 0x90 ≤ c ∧ c ≤ 0xBF else if b = 0xF4 then 0x80 ≤ c ∧ c ≤ 0x8F else 0x80 ≤ c ∧ c ≤ 0xBF) := by
  unfold second4
  split
  · simp
  · split <;> simp

theorem step1 (b : Nat) (rest : List Nat) (hb : b < 0x80) : lossyStep b rest = (b, 1) := by
  unfold lossyStep; rw [if_pos hb]

theorem step2 (b c1 : Nat) (rest : List Nat) (hb : 0xC2 ≤ b ∧ b ≤ 0xDF) (h1 : isCont c1 = true) :
    lossyStep b (c1 :: rest) = ((b - 0xC0) * 64 + (c1 - 0x80), 2) := by
  unfold lossyStep
  rw [if_neg (by omega), if_pos (by omega)]
  simp only [h1, if_true]

theorem step3 (b c1 c2 : Nat) (rest : List Nat) (hb : 0xE0 ≤ b ∧ b ≤ 0xEF) (h1 : second3 b c1 = true)
    (h2 : isCont c2 = true) :
    lossyStep b (c1 :: c2 :: rest) = ((b - 0xE0) * 4096 + (c1 - 0x80) * 64 + (c2 - 0x80), 3) := by
  unfold lossyStep
  rw [if_neg (by omega), if_neg (by omega), if_pos (by omega)]
  simp only [h1, h2, if_true]

theorem step4 (b c1 c2 c3 : Nat) (rest : List Nat) (hb : 0xF0 ≤ b ∧ b ≤ 0xF4) (h1 : second4 b c1 = true)
    (h2 : isCont c2 = true) (h3 : isCont c3 = true) :
    lossyStep b (c1 :: c2 :: c3 :: rest) =
      ((b - 0xF0) * 262144 + (c1 - 0x80) * 4096 + (c2 - 0x80) * 64 + (c3 - 0x80), 4) := by
  unfold lossyStep
  rw [if_neg (by omega), if_neg (by omega), if_neg (by omega), if_pos (by omega)]
  simp only [h1, h2, h3, if_true]

theorem enc1 {c : Nat} (h : c < 0x80) : encodeScalar c = [c] := by
  unfold encodeScalar; rw [if_pos h]
theorem enc2 {c : Nat} (h1 : ¬ c < 0x80) (h2 : c < 0x800) : encodeScalar c = [0xC0 + c / 64, 0x80 + c % 64] := by
  unfold encodeScalar; rw [if_neg h1, if_pos h2]
theorem enc3 {c : Nat} (h2 : ¬ c < 0x800) (h3 : c < 0x10000) :
    encodeScalar c = [0xE0 + c / 4096, 0x80 + c / 64 % 64, 0x80 + c % 64] := by
  unfold encodeScalar; rw [if_neg (by omega), if_neg h2, if_pos h3]
theorem enc4 {c : Nat} (h3 : ¬ c < 0x10000) :
    encodeScalar c = [0xF0 + c / 262144, 0x80 + c / 4096 % 64, 0x80 + c / 64 % 64, 0x80 + c % 64] := by
  unfold encodeScalar; rw [if_neg (by omega), if_neg (by omega), if_neg h3]

/-- One `Utf8Chunks` step on a well-formed sequence yields its scalar and length. -/
theorem lossyStep_encode {c : Nat} (hc : Scalar c) (rest : List Nat) :
    ∃ b tl, encodeScalar c ++ rest = b :: tl ∧ lossyStep b tl = (c, (encodeScalar c).length) := by
  unfold Scalar at hc
  by_cases h1 : c < 0x80
  · rw [enc1 h1]
    exact ⟨c, rest, rfl, step1 c rest h1⟩
  · by_cases h2 : c < 0x800
    · rw [enc2 h1 h2]
      refine ⟨_, _, List.cons_append .., ?_⟩
      rw [List.cons_append, List.nil_append, step2 _ _ _ (by omega) ((isCont_iff _).mpr (by omega))]
      simp only [List.length_cons, List.length_nil, Prod.mk.injEq, and_true]
      omega
    · by_cases h3 : c < 0x10000
      · rw [enc3 h2 h3]
        refine ⟨_, _, List.cons_append .., ?_⟩
        have hs : second3 (0xE0 + c / 4096) (0x80 + c / 64 % 64) = true := by
          rw [second3_iff]; split
          · omega
          · split <;> omega
        rw [List.cons_append, List.cons_append, List.nil_append,
          step3 _ _ _ _ (by omega) hs ((isCont_iff _).mpr (by omega))]
        simp only [List.length_cons, List.length_nil, Prod.mk.injEq, and_true]
        omega
      · rw [enc4 h3]
        refine ⟨_, _, List.cons_append .., ?_⟩
        have hs : second4 (0xF0 + c / 262144) (0x80 + c / 4096 % 64) = true := by
          rw [second4_iff]; split
          · omega
          · split <;> omega
        rw [List.cons_append, List.cons_append, List.cons_append, List.nil_append,
          step4 _ _ _ _ _ (by omega) hs ((isCont_iff _).mpr (by omega)) ((isCont_iff _).mpr (by omega))]
        simp only [List.length_cons, List.length_nil, Prod.mk.injEq, and_true]
        omega

theorem decodeLossyFuel_encode {c : Nat} (hc : Scalar c) (rest : List Nat) (fuel : Nat) :
    decodeLossyFuel (fuel + 1) (encodeScalar c ++ rest) = c :: decodeLossyFuel fuel rest := by
  obtain ⟨b, tl, he, hs⟩ := lossyStep_encode hc rest
  rw [he]
  simp only [decodeLossyFuel, hs]
  rw [← he, List.drop_left]

theorem decodeLossyFuel_roundtrip (s : List Nat) (hs : ∀ c ∈ s, Scalar c) :
    ∀ fuel, s.length ≤ fuel → decodeLossyFuel fuel (encodeUtf8 s) = s := by
  induction s with
  | nil => intro fuel _; cases fuel <;> rfl
  | cons c s ih =>
    intro fuel hf
    obtain ⟨f, rfl⟩ : ∃ f, fuel = f + 1 := ⟨fuel - 1, by simp only [List.length_cons] at hf; omega⟩
    have e : encodeUtf8 (c :: s) = encodeScalar c ++ encodeUtf8 s := by simp [encodeUtf8]
    rw [e, decodeLossyFuel_encode (hs c (by simp)), ih (fun x hx => hs x (by simp [hx])) f
      (by simp only [List.length_cons] at hf; omega)]

theorem encodeUtf8_length_ge (s : List Nat) : s.length ≤ (encodeUtf8 s).length := by
  induction s with
  | nil => simp [encodeUtf8]
  | cons c s ih =>
    have e : encodeUtf8 (c :: s) = encodeScalar c ++ encodeUtf8 s := by simp [encodeUtf8]
    rw [e, List.length_append, List.length_cons]
    have := encodeScalar_length_pos c
    omega

end Rsj.Codec
