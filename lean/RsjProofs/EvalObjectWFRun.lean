/-
  Object algebra of the evaluator model, part 7: `StoreWF` through `step`, `run` (every
  fuel), whole programs (`evalProgram`) and requests of a history (`runRequest`).
  Consequence: every object the evaluator model ever holds satisfies `ObjWF`, so the
  refinement of RsjProofs/EvalObjectAbs.lean applies to it without hypothesis.
-/
import RsjProofs.EvalObjectWFStd
open Std.Do
set_option mvcgen.warning false
set_option linter.unusedSimpArgs false
set_option linter.unusedVariables false
namespace Rsj.Eval
open Rsj.Core

attribute [local spec] allocThunk_w allocEnv_w allocFunc_w allocObj_w getThunk_w getEnv_w getFunc_w getObj_w
  setEnv_w setObj_w noteDepth_w pushTrace_w switchState_w finishThunk_w
  newEnv_w getVar_w getObjRef_w checkNum_w newThunk_w checkDepth_w sliceNum_w safeInt_w
  numText_w sliceRange_w bindThunkArgs_w initObjectEnv_w layerEnv_w fieldThunk_w addField_w

theorem layerNodup_nil (l : Layer) (h : l.fields = []) : LayerNodup l := by simp [LayerNodup, h]

macro "wobjs" : tactic => `(tactic| (intros; wflat; first
  | exact ⟨by assumption, layerNodup_nil _ rfl⟩
  | wobj))

section
variable (cfg : Cfg) (rec : Task → M Value) (hrec : RecW rec)
include hrec

set_option maxHeartbeats 4000000 in
set_option maxRecDepth 4096 in
/-- one level of the evaluator preserves `StoreWF` if the recursive calls do -/
theorem step_w (t : Task) : ⦃fun st => ⌜StoreWF st⌝⦄ step cfg rec t ⦃QT⦄ := by
  have h := rec_w rec hrec
  have h1 := recStr_w rec hrec
  have h2 := wantThunk_w cfg rec hrec
  have h3 := wantField_w cfg rec hrec
  have h4 := wantSuperField_w cfg rec hrec
  have h5 := coerceToString_w rec hrec
  have h6 := evalSpecs_w rec hrec
  have h7 := binaryOp_w cfg rec hrec
  have h8 := compareLists_w cfg rec hrec
  have h9 := objectMember_w rec hrec
  have h10 := sliceArg_w rec hrec
  have h11 := builtinCall3_w cfg rec hrec
  have h12 := thunkBody_w cfg rec hrec
  have h13 := binaryOp3_w cfg rec hrec
  cases t with
  | force t d => unfold step; mvcgen [h12]; wfin
  | asserts o d => unfold step; mvcgen [h, h1, h2, h3, h4, h5, h6, h7, h8, h9, h10, h11, h13]; wfin
  | deep v d => unfold step; mvcgen [h, h1, h2, h3, h4, h5, h6, h7, h8, h9, h10, h11, h13]; wfin
  | manifest v d c => unfold step; mvcgen [h, h1, h2, h3, h4, h5, h6, h7, h8, h9, h10, h11, h13]; wfin
  | equals a b d => unfold step; mvcgen [h, h1, h2, h3, h4, h5, h6, h7, h8, h9, h10, h11, h13]; wfin
  | compare a b d => unfold step; mvcgen [h, h1, h2, h3, h4, h5, h6, h7, h8, h9, h10, h11, h13]; wfin
  | eval e env tail d =>
    cases e with
    | object ms =>
      unfold step; mvcgen [h, h1, h2, h3, h4, h5, h6, h7, h8, h9, h10, h11, h13]
      case inv1 => exact QW (fun p => LayerNodup p.2)
      all_goals (first | wclose | wobjs)
    | objectComp locals name plus body spec =>
      unfold step; mvcgen [h, h1, h2, h3, h4, h5, h6, h7, h8, h9, h10, h11, h13]
      case inv1 => exact QW (fun p => LayerNodup p.2)
      all_goals (first | wclose | wobjs)
    | null => (unfold step; mvcgen [h, h1, h2, h3, h4, h5, h6, h7, h8, h9, h10, h11, h13]; wfin)
    | true_ => (unfold step; mvcgen [h, h1, h2, h3, h4, h5, h6, h7, h8, h9, h10, h11, h13]; wfin)
    | false_ => (unfold step; mvcgen [h, h1, h2, h3, h4, h5, h6, h7, h8, h9, h10, h11, h13]; wfin)
    | self_ => (unfold step; mvcgen [h, h1, h2, h3, h4, h5, h6, h7, h8, h9, h10, h11, h13]; wfin)
    | dollar => (unfold step; mvcgen [h, h1, h2, h3, h4, h5, h6, h7, h8, h9, h10, h11, h13]; wfin)
    | str => (unfold step; mvcgen [h, h1, h2, h3, h4, h5, h6, h7, h8, h9, h10, h11, h13]; wfin)
    | num => (unfold step; mvcgen [h, h1, h2, h3, h4, h5, h6, h7, h8, h9, h10, h11, h13]; wfin)
    | paren => (unfold step; mvcgen [h, h1, h2, h3, h4, h5, h6, h7, h8, h9, h10, h11, h13]; wfin)
    | array => (unfold step; mvcgen [h, h1, h2, h3, h4, h5, h6, h7, h8, h9, h10, h11, h13]; wfin)
    | arrayComp => (unfold step; mvcgen [h, h1, h2, h3, h4, h5, h6, h7, h8, h9, h10, h11, h13]; wfin)
    | field => (unfold step; mvcgen [h, h1, h2, h3, h4, h5, h6, h7, h8, h9, h10, h11, h13]; wfin)
    | index => (unfold step; mvcgen [h, h1, h2, h3, h4, h5, h6, h7, h8, h9, h10, h11, h13]; wfin)
    | slice => (unfold step; mvcgen [h, h1, h2, h3, h4, h5, h6, h7, h8, h9, h10, h11, h13]; wfin)
    | superField => (unfold step; mvcgen [h, h1, h2, h3, h4, h5, h6, h7, h8, h9, h10, h11, h13]; wfin)
    | superIndex => (unfold step; mvcgen [h, h1, h2, h3, h4, h5, h6, h7, h8, h9, h10, h11, h13]; wfin)
    | call => (unfold step; mvcgen [h, h1, h2, h3, h4, h5, h6, h7, h8, h9, h10, h11, h13]; wfin)
    | var => (unfold step; mvcgen [h, h1, h2, h3, h4, h5, h6, h7, h8, h9, h10, h11, h13]; wfin)
    | local_ => (unfold step; mvcgen [h, h1, h2, h3, h4, h5, h6, h7, h8, h9, h10, h11, h13]; wfin)
    | if_ => (unfold step; mvcgen [h, h1, h2, h3, h4, h5, h6, h7, h8, h9, h10, h11, h13]; wfin)
    | binary => (unfold step; mvcgen [h, h1, h2, h3, h4, h5, h6, h7, h8, h9, h10, h11, h13]; wfin)
    | unary => (unfold step; mvcgen [h, h1, h2, h3, h4, h5, h6, h7, h8, h9, h10, h11, h13]; wfin)
    | objExt => (unfold step; mvcgen [h, h1, h2, h3, h4, h5, h6, h7, h8, h9, h10, h11, h13]; wfin)
    | func => (unfold step; mvcgen [h, h1, h2, h3, h4, h5, h6, h7, h8, h9, h10, h11, h13]; wfin)
    | assert_ => (unfold step; mvcgen [h, h1, h2, h3, h4, h5, h6, h7, h8, h9, h10, h11, h13]; wfin)
    | error_ => (unfold step; mvcgen [h, h1, h2, h3, h4, h5, h6, h7, h8, h9, h10, h11, h13]; wfin)
    | inSuper => (unfold step; mvcgen [h, h1, h2, h3, h4, h5, h6, h7, h8, h9, h10, h11, h13]; wfin)
    | importLit => (unfold step; mvcgen [h, h1, h2, h3, h4, h5, h6, h7, h8, h9, h10, h11, h13]; wfin)
    | importTextBlock => (unfold step; mvcgen [h, h1, h2, h3, h4, h5, h6, h7, h8, h9, h10, h11, h13]; wfin)
    | importComputed => (unfold step; mvcgen [h, h1, h2, h3, h4, h5, h6, h7, h8, h9, h10, h11, h13]; wfin)
    | builtin => (unfold step; mvcgen [h, h1, h2, h3, h4, h5, h6, h7, h8, h9, h10, h11, h13]; wfin)

end

/-! ### Every fuel, whole programs, plain statements -/

/-- the store after any outcome of an `M` computation (out of fuel promises nothing) -/
def outcomeWF {α} : Option (Except Err α × St) → Prop
  | none => True
  | some (_, s') => StoreWF s'

theorem wp_QT {α} (x : M α) (st : St) : (wp⟦x⟧ (QT (α := α)) st).down ↔ outcomeWF (x st) := by
  cases h : x st with
  | none =>
    simp only [outcomeWF, iff_true]
    simp only [wp, PredTrans.apply, PredTrans.pushExcept, PredTrans.pushArg, ExceptT.run, StateT.run, h]
    exact True.intro
  | some p =>
    obtain ⟨r, s'⟩ := p
    simp only [outcomeWF]
    simp only [wp, PredTrans.apply, PredTrans.pushExcept, PredTrans.pushArg, ExceptT.run, StateT.run, h]
    cases r
    · exact Iff.rfl
    · exact ⟨fun h => h.1, fun h => ⟨h, trivial⟩⟩

theorem sem_of_triple_w {α} {x : M α} (h : ⦃fun st => ⌜StoreWF st⌝⦄ x ⦃QT⦄) :
    ∀ st, StoreWF st → outcomeWF (x st) :=
  fun st hst => (wp_QT x st).1 (h st hst)

theorem bottom_w {α} : ⦃fun st => ⌜StoreWF st⌝⦄ (bottom : M α) ⦃QT⦄ := by
  intro st _
  exact (wp_QT _ st).2 (by simp [bottom, outcomeWF, ExceptT.mk])

/-- every fuel: the evaluator preserves `StoreWF` -/
theorem run_w (cfg : Cfg) (n : Nat) : RecW (run cfg n) := by
  induction n with
  | zero => intro t; exact bottom_w
  | succ k ih =>
    intro t
    have h := step_w cfg (run cfg k) ih
    show ⦃fun st => ⌜StoreWF st⌝⦄ stepN cfg (run cfg k) t ⦃QT⦄
    unfold stepN; mvcgen [h]; wfin

theorem requestProg_w (cfg : Cfg) (fuel : Nat) (t : TId) :
    ⦃fun st => ⌜StoreWF st⌝⦄ requestProg cfg fuel t ⦃QT⦄ := by
  have h := fun t => run_w cfg fuel t
  unfold requestProg; mvcgen [h]; wfin

theorem programProg_w (cfg : Cfg) (fuel : Nat) (e : Expr) :
    ⦃fun st => ⌜StoreWF st⌝⦄ programProg cfg fuel e ⦃QT⦄ := by
  have h := requestProg_w cfg fuel
  unfold programProg; mvcgen [h]; wfin

theorem storeWF_empty : StoreWF {} := by
  intro i o h; simp at h

theorem storeWF_restoreInProgress {st : St} (h : StoreWF st) : StoreWF (restoreInProgress st) := by
  intro i o hi
  simp only [restoreInProgress, Array.getElem?_map] at hi
  cases ho : st.objs[i]? with
  | none => rw [ho] at hi; cases hi
  | some o0 =>
    rw [ho] at hi
    simp only [Option.map_some, Option.some.injEq] at hi
    subst hi
    have := h i o0 ho
    split
    · exact this
    · exact this

/-- every object in the store after any step of the evaluator, with any fuel, is well formed -/
theorem run_storeWF (cfg : Cfg) (n : Nat) (t : Task) (st : St) (h : StoreWF st) :
    outcomeWF (run cfg n t st) := sem_of_triple_w (run_w cfg n t) st h

/-- … and so is every object in the final store of a whole program … -/
theorem evalProgram_storeWF (cfg : Cfg) (fuel : Nat) (e : Expr) : StoreWF (evalProgram cfg fuel e).2 := by
  have := sem_of_triple_w (programProg_w cfg fuel e) {} storeWF_empty
  unfold evalProgram
  show StoreWF (match (programProg cfg fuel e) {} with
    | none => ("gas", ({} : St))
    | some (.ok s, st) => ("ok " ++ s, st)
    | some (.error er, st) => (showErr er, restoreInProgress st)).2
  cases hp : (programProg cfg fuel e) {} with
  | none => exact storeWF_empty
  | some p =>
    obtain ⟨r, s'⟩ := p
    rw [hp] at this
    cases r with
    | ok s => exact this
    | error er => exact storeWF_restoreInProgress this

/-- … and of every request of a history against a long-lived store -/
theorem runRequest_storeWF (cfg : Cfg) (fuel : Nat) (t : TId) (st : St) (h : StoreWF st) :
    StoreWF (runRequest cfg fuel t st).2 := by
  have := sem_of_triple_w (requestProg_w cfg fuel t) st h
  unfold runRequest
  show StoreWF (match (requestProg cfg fuel t) st with
    | none => ("gas", st)
    | some (.ok s, st') => ("ok " ++ s, st')
    | some (.error er, st') => (showErr er, restoreInProgress st')).2
  cases hp : (requestProg cfg fuel t) st with
  | none => exact h
  | some p =>
    obtain ⟨r, s'⟩ := p
    rw [hp] at this
    cases r with
    | ok s => exact this
    | error er => exact storeWF_restoreInProgress this

end Rsj.Eval
