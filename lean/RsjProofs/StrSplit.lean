/-
  Helper lemmas for join / split / splitLimit / splitLimitR / strReplace /
  the strip functions (property C18).
-/
import RsjProofs.StrSlice
namespace Rsj.Str

/-! ### join -/

theorem joinLoop_false (sep : Str) (xs : List Str) : ∀ acc,
    joinLoop sep xs false acc = acc ++ xs.flatMap (sep ++ ·) := by
  induction xs with
  | nil => intro acc; simp [joinLoop]
  | cons x xs ih =>
    intro acc
    simp only [joinLoop, Bool.false_eq_true, if_false]
    rw [ih]
    simp [List.flatMap_cons, List.append_assoc]

theorem join_nil (sep : Str) : join sep [] = [] := rfl

theorem join_cons (sep x : Str) (xs : List Str) :
    join sep (x :: xs) = x ++ xs.flatMap (sep ++ ·) := by
  unfold join
  simp only [joinLoop, if_true, List.nil_append]
  rw [joinLoop_false]

theorem join_single (sep x : Str) : join sep [x] = x := by
  rw [join_cons]; simp

theorem join_cons_cons (sep x y : Str) (r : List Str) :
    join sep (x :: y :: r) = x ++ sep ++ join sep (y :: r) := by
  rw [join_cons, join_cons]; simp [List.flatMap_cons, List.append_assoc]

theorem join_cons_of_ne_nil (sep x : Str) {l : List Str} (h : l ≠ []) :
    join sep (x :: l) = x ++ sep ++ join sep l := by
  cases l with
  | nil => exact absurd rfl h
  | cons y r => exact join_cons_cons sep x y r

theorem join_concat_of_ne_nil (sep b : Str) {l : List Str} (h : l ≠ []) :
    join sep (l ++ [b]) = join sep l ++ sep ++ b := by
  induction l with
  | nil => exact absurd rfl h
  | cons x r ih =>
    cases r with
    | nil => simp [join_cons_cons, join_single]
    | cons y r' =>
      have hne : (y :: r') ≠ [] := by simp
      rw [List.cons_append, join_cons_of_ne_nil sep x (by simp), ih hne,
        join_cons_of_ne_nil sep x hne]
      simp [List.append_assoc]

/-- `join` is the flattened interspersed list (`List.intercalate`). -/
theorem join_eq_intersperse (sep : Str) (xs : List Str) :
    join sep xs = (xs.intersperse sep).flatten := by
  induction xs with
  | nil => rfl
  | cons x r ih =>
    cases r with
    | nil => simp [join_single]
    | cons y r' =>
      rw [join_cons_cons, ih]
      simp [List.append_assoc]

/-! ### split_once / rsplit_once -/

theorem isPrefixOf_eq_append {sep l : Str} (h : sep.isPrefixOf l = true) :
    l = sep ++ l.drop sep.length :=
  (List.prefix_iff_eq_append.mp (List.isPrefixOf_iff_prefix.mp h)).symm

theorem splitOnce_some (sep : Str) (s : Str) : ∀ a b, splitOnce sep s = some (a, b) →
    s = a ++ sep ++ b ∧ ∀ j, j < a.length → sep.isPrefixOf (s.drop j) = false := by
  induction s with
  | nil =>
    intro a b h
    unfold splitOnce at h
    split at h
    · next hp =>
      cases h
      cases sep with
      | nil => simp
      | cons => simp at hp
    · cases h
  | cons c cs ih =>
    intro a b h
    unfold splitOnce at h
    split at h
    · next hp =>
      cases h
      refine ⟨?_, by simp⟩
      simpa using isPrefixOf_eq_append hp
    · next hp =>
      cases hf : splitOnce sep cs with
      | none => rw [hf] at h; cases h
      | some p =>
        obtain ⟨a', b'⟩ := p
        rw [hf] at h
        simp only [Option.map_some, Option.some.injEq, Prod.mk.injEq] at h
        obtain ⟨rfl, rfl⟩ := h
        obtain ⟨hs, hno⟩ := ih a' b' hf
        refine ⟨by rw [hs]; simp, ?_⟩
        intro j hj
        cases j with
        | zero => exact Bool.eq_false_iff.mpr hp
        | succ j => simpa using hno j (by simpa using hj)

theorem splitOnce_none (sep : Str) (s : Str) : splitOnce sep s = none →
    ∀ j, j ≤ s.length → sep.isPrefixOf (s.drop j) = false := by
  induction s with
  | nil =>
    intro h j hj
    unfold splitOnce at h
    split at h
    · cases h
    · next hp =>
      have : j = 0 := by simpa using hj
      subst this
      exact Bool.eq_false_iff.mpr hp
  | cons c cs ih =>
    intro h j hj
    unfold splitOnce at h
    split at h
    · cases h
    · next hp =>
      cases hf : splitOnce sep cs with
      | some p => rw [hf] at h; cases h
      | none =>
        cases j with
        | zero => exact Bool.eq_false_iff.mpr hp
        | succ j => simpa using ih hf j (by simpa using hj)

theorem rsplitOnce_some (sep : Str) (s : Str) : ∀ a b, rsplitOnce sep s = some (a, b) →
    s = a ++ sep ++ b ∧
      ∀ j, a.length < j → j ≤ s.length → sep.isPrefixOf (s.drop j) = false := by
  induction s with
  | nil =>
    intro a b h
    unfold rsplitOnce at h
    split at h
    · next hp =>
      cases h
      cases sep with
      | nil => simp; intro j hj; omega
      | cons => simp at hp
    · cases h
  | cons c cs ih =>
    intro a b h
    unfold rsplitOnce at h
    split at h
    · next p hf =>
      obtain ⟨a', b'⟩ := p
      cases h
      obtain ⟨hs, hno⟩ := ih a' b' hf
      refine ⟨by rw [hs]; simp, ?_⟩
      intro j hj hj'
      cases j with
      | zero => simp at hj
      | succ j => simpa using hno j (by simpa using hj) (by simpa using hj')
    · next hf =>
      split at h
      · next hp =>
        cases h
        refine ⟨by simpa using isPrefixOf_eq_append hp, ?_⟩
        intro j hj hj'
        cases j with
        | zero => simp at hj
        | succ j =>
          -- no occurrence anywhere in `cs`
          have hnone : ∀ (t : Str), rsplitOnce sep t = none →
              ∀ i, i ≤ t.length → sep.isPrefixOf (t.drop i) = false := by
            intro t
            induction t with
            | nil =>
              intro ht i hi
              unfold rsplitOnce at ht
              split at ht
              · cases ht
              · next hp' =>
                have : i = 0 := by simpa using hi
                subst this; exact Bool.eq_false_iff.mpr hp'
            | cons d ds iht =>
              intro ht i hi
              unfold rsplitOnce at ht
              split at ht
              · cases ht
              · next hds =>
                split at ht
                · cases ht
                · next hp' =>
                  cases i with
                  | zero => exact Bool.eq_false_iff.mpr hp'
                  | succ i => simpa using iht hds i (by simpa using hi)
          simpa using hnone cs hf j (by simpa using hj')
      · cases h

theorem splitOnce_length {sep s a b : Str} (hsep : sep ≠ []) (h : splitOnce sep s = some (a, b)) :
    a.length + b.length < s.length := by
  have := (splitOnce_some sep s a b h).1
  have hl : 0 < sep.length := List.length_pos_iff.mpr hsep
  rw [this]; simp; omega

theorem rsplitOnce_length {sep s a b : Str} (hsep : sep ≠ []) (h : rsplitOnce sep s = some (a, b)) :
    a.length + b.length < s.length := by
  have := (rsplitOnce_some sep s a b h).1
  have hl : 0 < sep.length := List.length_pos_iff.mpr hsep
  rw [this]; simp; omega

/-! ### splitn / split -/

theorem splitN_ne_nil (sep : Str) (n : Nat) (s : Str) : splitN sep (n + 1) s ≠ [] := by
  cases n with
  | zero => simp [splitN]
  | succ n =>
    unfold splitN
    split <;> simp

theorem join_splitN (sep : Str) : ∀ (n : Nat) (s : Str), join sep (splitN sep (n + 1) s) = s := by
  intro n
  induction n with
  | zero => intro s; simp [splitN, join_single]
  | succ n ih =>
    intro s
    unfold splitN
    split
    · simp [join_single]
    · next a b h =>
      rw [join_cons_of_ne_nil sep a (splitN_ne_nil sep n b), ih b]
      exact (splitOnce_some sep s a b h).1.symm

/-- If the split with the larger limit has at most `k` pieces, limit `k` gives the same. -/
theorem splitN_of_length_le (sep : Str) : ∀ (k m : Nat) (s : Str),
    (splitN sep (k + 1 + m) s).length ≤ k + 1 → splitN sep (k + 1) s = splitN sep (k + 1 + m) s := by
  intro k
  induction k with
  | zero =>
    intro m s h
    cases m with
    | zero => rfl
    | succ m =>
      have e : 0 + 1 + (m + 1) = m + 2 := by omega
      rw [e] at h ⊢
      unfold splitN at h ⊢
      split at h
      · rfl
      · next a b hs =>
        have := splitN_ne_nil sep m b
        have : 0 < (splitN sep (m + 1) b).length := List.length_pos_iff.mpr this
        simp only [List.length_cons] at h; omega
  | succ k ih =>
    intro m s h
    have e : k + 1 + 1 + m = (k + m) + 2 := by omega
    rw [e] at h ⊢
    unfold splitN at h ⊢
    split at h
    · rfl
    · next a b hs =>
      have e2 : k + m + 1 = k + 1 + m := by omega
      rw [e2] at h ⊢
      rw [ih m b (by simpa using h)]

theorem splitN_length_le (sep : Str) (hsep : sep ≠ []) : ∀ (n : Nat) (s : Str),
    (splitN sep n s).length ≤ s.length + 1 := by
  intro n
  induction n with
  | zero => intro s; simp [splitN]
  | succ n ih =>
    intro s
    cases n with
    | zero => simp [splitN]
    | succ n =>
      unfold splitN
      split
      · simp
      · next a b hs =>
        have := ih b
        have := splitOnce_length hsep hs
        simp only [List.length_cons]; omega

/-- `split` does not depend on its (unreachable) limit. -/
theorem split_eq_splitN (sep : Str) (hsep : sep ≠ []) (s : Str) (n : Nat) (hn : s.length + 2 ≤ n) :
    split sep s = splitN sep n s := by
  unfold split
  obtain ⟨m, rfl⟩ : ∃ m, n = s.length + 1 + 1 + m := ⟨n - (s.length + 2), by omega⟩
  exact splitN_of_length_le sep (s.length + 1) m s
    (by have := splitN_length_le sep hsep (s.length + 1 + 1 + m) s; omega)

theorem split_ne_nil (sep s : Str) : split sep s ≠ [] := splitN_ne_nil sep (s.length + 1) s

theorem join_split (sep s : Str) : join sep (split sep s) = s := join_splitN sep (s.length + 1) s

/-- Limit `n+1` = the first `n` pieces of the larger split, then the unsplit rest. -/
theorem splitN_take_drop (sep : Str) : ∀ (n m : Nat) (s : Str),
    n < (splitN sep (n + 1 + m) s).length →
    splitN sep (n + 1) s =
      (splitN sep (n + 1 + m) s).take n ++ [join sep ((splitN sep (n + 1 + m) s).drop n)] := by
  intro n
  induction n with
  | zero =>
    intro m s _
    have e : 0 + 1 + m = m + 1 := by omega
    rw [e]
    simp [splitN, join_splitN]
  | succ n ih =>
    intro m s h
    have e : n + 1 + 1 + m = (n + m) + 2 := by omega
    rw [e] at h ⊢
    unfold splitN at h ⊢
    split at h
    · simp at h
    · next a b hs =>
      have e2 : n + m + 1 = n + 1 + m := by omega
      rw [e2] at h ⊢
      simp only [List.length_cons, Nat.add_lt_add_iff_right] at h
      rw [ih m b h]
      simp

theorem splitN_split (sep : Str) (hsep : sep ≠ []) (n : Nat) (s : Str) :
    splitN sep (n + 1) s =
      if n < (split sep s).length then
        (split sep s).take n ++ [join sep ((split sep s).drop n)]
      else split sep s := by
  have hfull := split_eq_splitN sep hsep s (n + 1 + (s.length + 2)) (by omega)
  split
  · next h =>
    rw [hfull] at h ⊢
    exact splitN_take_drop sep n (s.length + 2) s h
  · next h =>
    rw [hfull] at h ⊢
    exact splitN_of_length_le sep n (s.length + 2) s (by omega)

/-! ### rsplitn -/

theorem rsplitN_ne_nil (sep : Str) (n : Nat) (s : Str) : rsplitN sep (n + 1) s ≠ [] := by
  cases n with
  | zero => simp [rsplitN]
  | succ n =>
    unfold rsplitN
    split <;> simp

theorem join_rsplitN (sep : Str) : ∀ (n : Nat) (s : Str),
    join sep (rsplitN sep (n + 1) s).reverse = s := by
  intro n
  induction n with
  | zero => intro s; simp [rsplitN, join_single]
  | succ n ih =>
    intro s
    unfold rsplitN
    split
    · simp [join_single]
    · next a b h =>
      rw [List.reverse_cons,
        join_concat_of_ne_nil sep b (by simpa using rsplitN_ne_nil sep n a), ih a]
      exact (rsplitOnce_some sep s a b h).1.symm

theorem rsplitN_of_length_le (sep : Str) : ∀ (k m : Nat) (s : Str),
    (rsplitN sep (k + 1 + m) s).length ≤ k + 1 → rsplitN sep (k + 1) s = rsplitN sep (k + 1 + m) s := by
  intro k
  induction k with
  | zero =>
    intro m s h
    cases m with
    | zero => rfl
    | succ m =>
      have e : 0 + 1 + (m + 1) = m + 2 := by omega
      rw [e] at h ⊢
      unfold rsplitN at h ⊢
      split at h
      · rfl
      · next a b hs =>
        have := rsplitN_ne_nil sep m a
        have : 0 < (rsplitN sep (m + 1) a).length := List.length_pos_iff.mpr this
        simp only [List.length_cons] at h; omega
  | succ k ih =>
    intro m s h
    have e : k + 1 + 1 + m = (k + m) + 2 := by omega
    rw [e] at h ⊢
    unfold rsplitN at h ⊢
    split at h
    · rfl
    · next a b hs =>
      have e2 : k + m + 1 = k + 1 + m := by omega
      rw [e2] at h ⊢
      rw [ih m a (by simpa using h)]

theorem rsplitN_length_le (sep : Str) (hsep : sep ≠ []) : ∀ (n : Nat) (s : Str),
    (rsplitN sep n s).length ≤ s.length + 1 := by
  intro n
  induction n with
  | zero => intro s; simp [rsplitN]
  | succ n ih =>
    intro s
    cases n with
    | zero => simp [rsplitN]
    | succ n =>
      unfold rsplitN
      split
      · simp
      · next a b hs =>
        have := ih a
        have := rsplitOnce_length hsep hs
        simp only [List.length_cons]; omega

/-- Limit `n+1` from the right = the last `n` pieces of the larger right-split (in
    last-first order), then the unsplit front part. -/
theorem rsplitN_take_drop (sep : Str) : ∀ (n m : Nat) (s : Str),
    n < (rsplitN sep (n + 1 + m) s).length →
    rsplitN sep (n + 1) s =
      (rsplitN sep (n + 1 + m) s).take n ++
        [join sep ((rsplitN sep (n + 1 + m) s).drop n).reverse] := by
  intro n
  induction n with
  | zero =>
    intro m s _
    have e : 0 + 1 + m = m + 1 := by omega
    rw [e]
    simp [rsplitN, join_rsplitN]
  | succ n ih =>
    intro m s h
    have e : n + 1 + 1 + m = (n + m) + 2 := by omega
    rw [e] at h ⊢
    unfold rsplitN at h ⊢
    split at h
    · simp at h
    · next a b hs =>
      have e2 : n + m + 1 = n + 1 + m := by omega
      rw [e2] at h ⊢
      simp only [List.length_cons, Nat.add_lt_add_iff_right] at h
      rw [ih m a h]
      simp

/-! ### replace -/

theorem replaceN_eq (frm to : Str) : ∀ (n : Nat) (s : Str),
    replaceN frm to n s = join to (splitN frm (n + 1) s) := by
  intro n
  induction n with
  | zero => intro s; simp [replaceN, splitN, join_single]
  | succ n ih =>
    intro s
    unfold replaceN splitN
    split
    · simp [join_single]
    · next a b h =>
      rw [join_cons_of_ne_nil to a (splitN_ne_nil frm n b), ih b]

theorem replace_eq_join_split (s frm to : Str) (h : frm ≠ []) :
    replace s frm to = join to (split frm s) := by
  cases frm with
  | nil => exact absurd rfl h
  | cons c r =>
    unfold replace split
    exact replaceN_eq (c :: r) to (s.length + 1) s

/-! ### strip -/

theorem lstripLoop_eq (cs : Str) : ∀ (f : Nat) (s : Str), s.length < f →
    lstripLoop cs f s = .ok (s.dropWhile (cs.contains ·)) := by
  intro f
  induction f with
  | zero => intro s h; omega
  | succ f ih =>
    intro s h
    unfold lstripLoop
    cases s with
    | nil => simp [stripPrefixSet]
    | cons c r =>
      simp only [stripPrefixSet, List.dropWhile_cons]
      by_cases hc : cs.contains c = true
      · rw [if_pos hc, if_pos hc]
        exact ih r (by simp at h; omega)
      · rw [if_neg hc, if_neg hc]

theorem rstripLoop_eq (cs : Str) : ∀ (f : Nat) (r : Str), r.length < f →
    rstripLoop cs f r.reverse = .ok (r.dropWhile (cs.contains ·)).reverse := by
  intro f
  induction f with
  | zero => intro r h; omega
  | succ f ih =>
    intro r h
    unfold rstripLoop
    cases r with
    | nil => simp [stripSuffixSet]
    | cons c r' =>
      simp only [stripSuffixSet, List.reverse_cons, List.getLast?_concat, List.dropLast_concat,
        List.dropWhile_cons]
      by_cases hc : cs.contains c = true
      · rw [if_pos hc, if_pos hc]
        exact ih r' (by simp at h; omega)
      · rw [if_neg hc, if_neg hc]
        simp

theorem rstripLoop_eq' (cs : Str) (f : Nat) (s : Str) (h : s.length < f) :
    rstripLoop cs f s = .ok (s.reverse.dropWhile (cs.contains ·)).reverse := by
  have := rstripLoop_eq cs f s.reverse (by simpa using h)
  simpa using this

/-- `rsplitn` with a limit that cannot be reached does not depend on the limit. -/
theorem rsplitN_stable (sep : Str) (hsep : sep ≠ []) (s : Str) (n : Nat) (hn : s.length + 2 ≤ n) :
    rsplitN sep (s.length + 2) s = rsplitN sep n s := by
  obtain ⟨m, rfl⟩ : ∃ m, n = s.length + 1 + 1 + m := ⟨n - (s.length + 2), by omega⟩
  exact rsplitN_of_length_le sep (s.length + 1) m s
    (by have := rsplitN_length_le sep hsep (s.length + 1 + 1 + m) s; omega)

/-- Unfolding of `split`: cut at the leftmost occurrence, continue on the rest. -/
theorem split_unfold (sep : Str) (hsep : sep ≠ []) (s : Str) :
    split sep s = match splitOnce sep s with
      | none => [s]
      | some (a, b) => a :: split sep b := by
  conv => lhs; unfold split
  unfold splitN
  split
  · next h => rw [h]
  · next a b h =>
    rw [h]
    simp only
    have := splitOnce_length hsep h
    rw [split_eq_splitN sep hsep b (s.length + 1) (by omega)]

/-- Unfolding of the right-to-left split (pieces in last-first order). -/
theorem rsplitN_unfold (sep : Str) (hsep : sep ≠ []) (s : Str) :
    rsplitN sep (s.length + 2) s = match rsplitOnce sep s with
      | none => [s]
      | some (a, b) => b :: rsplitN sep (a.length + 2) a := by
  conv => lhs; unfold rsplitN
  split
  · next h => rw [h]
  · next a b h =>
    rw [h]
    simp only
    have := rsplitOnce_length hsep h
    rw [rsplitN_stable sep hsep a (s.length + 1) (by omega)]

theorem takeWhile_all {p : Nat → Bool} (l : Str) : ∀ x, x ∈ l.takeWhile p → p x = true := by
  induction l with
  | nil => intro x h; simp at h
  | cons c r ih =>
    intro x h
    rw [List.takeWhile_cons] at h
    split at h
    · next hc =>
      rcases List.mem_cons.mp h with rfl | h'
      · exact hc
      · exact ih x h'
    · simp at h

end Rsj.Str
