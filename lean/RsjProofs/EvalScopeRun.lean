import RsjProofs.EvalScopeStep4
/-!
  C09, run-time half: every level of the evaluator, every fuel, every request keeps the store well
  scoped and never fails with one of the three scoping panics.
-/
open Std.Do
set_option mvcgen.warning false
namespace Rsj.Eval.Scope
open Rsj.Core Rsj.Eval Rsj.Analyze

section
variable (cfg : Cfg) (rec : Task → M Value) (hrec : RecOk rec)
include hrec

/-- one level of the evaluator keeps the store well scoped, and never fails with a scoping panic,
    if the recursive calls do -/
theorem step_spec (t : Task) (s : St) (hI : Inv s) (hT : TaskOk s.envs t) :
    ⦃fun st => ⌜st = s⌝⦄ step cfg rec t ⦃Q s (fun _ _ => True)⦄ := by
  cases t with
  | force t d => exact step_force cfg rec hrec s t d hI
  | asserts o d => exact step_asserts cfg rec hrec s o d hI
  | deep v d => exact step_walk cfg rec hrec s _ hI trivial
  | manifest v d c => exact step_walk cfg rec hrec s _ hI trivial
  | equals a b d => exact step_walk cfg rec hrec s _ hI trivial
  | compare a b d => exact step_walk cfg rec hrec s _ hI trivial
  | eval e env tail d =>
    obtain ⟨Γ, hΓ, hws⟩ := hT
    cases e with
    | object ms => exact step_eval_object cfg rec hrec s ms env tail d hI Γ hΓ hws
    | objectComp l n p b sp => exact step_eval_objectComp cfg rec hrec s l n p b sp env tail d hI Γ hΓ hws
    | array items => exact step_eval_array cfg rec hrec s items env tail d hI Γ hΓ hws
    | arrayComp b sp => exact step_eval_arrayComp cfg rec hrec s b sp env tail d hI Γ hΓ hws
    | call ce args ts => exact step_eval_call cfg rec hrec s ce args ts env tail d hI Γ hΓ hws
    | local_ bs body => exact step_eval_local cfg rec hrec s bs body env tail d hI Γ hΓ hws
    | objExt oe ms => exact step_eval_objExt cfg rec hrec s oe ms env tail d hI Γ hΓ hws
    | builtin b args => exact step_eval_builtin cfg rec hrec s b args env tail d hI Γ hΓ hws
    | _ => exact step_eval_simple cfg rec hrec s _ env tail d hI Γ hΓ hws trivial

end

/-- every fuel: the evaluator keeps the store well scoped and never fails with a scoping panic -/
theorem run_spec (cfg : Cfg) (n : Nat) : RecOk (run cfg n) := by
  induction n with
  | zero =>
    intro t s hI hT
    unfold Q
    exact bottom_spec _ _ _
  | succ k ih =>
    intro t s hI hT
    have h1 := noteDepth_spec
    have h2 := step_spec cfg (run cfg k) ih
    show ⦃fun st => ⌜st = s⌝⦄ stepN cfg (run cfg k) t ⦃Q s (fun _ _ => True)⦄
    qstart
    unfold stepN
    mvcgen [h1, h2]
    all_goals clear h1 h2
    all_goals vcprep
    all_goals eclose

theorem requestProg_spec (cfg : Cfg) (fuel : Nat) (t : TId) (s : St) (hI : Inv s) :
    ⦃fun st => ⌜st = s⌝⦄ requestProg cfg fuel t ⦃Q s (fun _ _ => True)⦄ := by
  have hr := run_spec cfg fuel
  have hr' : ∀ (t : Task) (s : St), Inv s → TaskOk s.envs t →
      ⦃fun st => ⌜st = s⌝⦄ run cfg fuel t ⦃Q s (fun _ _ => True)⦄ := hr
  qstart
  unfold requestProg
  mvcgen [hr']
  all_goals clear hr hr'
  all_goals vcprep
  all_goals eclose

/-- a new environment without parent -/
theorem allocEnv_spec (s : St) (env : Env) (hI : Inv s) (hp : env.parent = none) :
    ⦃fun st => ⌜st = s⌝⦄ allocEnv env
      ⦃Q s (fun r st => r = s.envs.size ∧ st.envs = s.envs.push env ∧ st.thunks = s.thunks)⦄ := by
  unfold allocEnv; mvcgen
  vcprep
  exact ⟨S.pushEnv _ _, hI.pushEnv _ (by intro p h; rw [hp] at h; cases h), rfl, rfl, rfl⟩

/-- the static view of the root environment of a program -/
theorem rootEnv_ok {envs : Array Env} {root : EId} {stdT : TId}
    (h : envs[root]? = some { parent := none, vars := [("std", stdT)], obj := none }) :
    EnvOk envs root rootEnv := by
  refine ⟨lt_size_of_getElem? h, fun ho => by simp [rootEnv] at ho, ?_⟩
  intro n hn
  refine .here h ?_
  simp [rootEnv, AEnv.has] at hn
  simp [hn]

theorem programProg_spec (cfg : Cfg) (fuel : Nat) (e : Expr) (s : St) (hI : Inv s) (hws : WS e rootEnv) :
    ⦃fun st => ⌜st = s⌝⦄ programProg cfg fuel e ⦃Q s (fun _ _ => True)⦄ := by
  have h1 := allocThunk_spec
  have h2 := allocEnv_spec
  have h3 := requestProg_spec cfg fuel
  qstart
  unfold programProg
  mvcgen [h1, h2, h3]
  all_goals clear h1 h2 h3
  all_goals vcprep
  all_goals first
    | eclose
    | skip
  rename_i stdT _ _ _ _ _ _ _ _ _ he _
  exact ⟨rootEnv, rootEnv_ok (stdT := stdT) (by rw [he]; simp), hws⟩

/-! ### Initial store, clean-up after a failed request -/

theorem Inv_empty : Inv {} :=
  ⟨fun e env p h => by simp at h,
   ⟨fun t x h => by simp at h, fun f fn h => by simp at h, fun o ob h => by simp at h⟩,
   fun o ob h => by simp at h⟩

/-- `Evaluator::eval` failing: putting the thunks in progress back to pending keeps the store well
    scoped -/
theorem Inv.restore {st : St} (h : Inv st) : Inv (restoreInProgress st) := by
  refine ⟨h.wf, ⟨?_, h.g.funcs, ?_⟩, ?_⟩
  · intro t x hx
    simp only [restoreInProgress, Array.getElem?_map, Option.map_eq_some_iff] at hx
    obtain ⟨y, hy, rfl⟩ := hx
    have := h.g.thunks t y hy
    cases y <;> exact this
  · intro o ob hx l hl
    simp only [restoreInProgress, Array.getElem?_map, Option.map_eq_some_iff] at hx
    obtain ⟨y, hy, rfl⟩ := hx
    have := h.g.objs o y hy l
    split at hl <;> exact this hl
  · intro o ob hx l hl
    simp only [restoreInProgress, Array.getElem?_map, Option.map_eq_some_iff] at hx
    obtain ⟨y, hy, rfl⟩ := hx
    have := h.shape o y hy l
    split at hl <;> exact this hl

end Rsj.Eval.Scope
