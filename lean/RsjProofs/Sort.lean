/-
  Helper lemmas for C17 (part 1): the laws of the key order, the stable-order
  relation `Before`, and the specification of `quick` / `sortSlice` / `sort`.
-/
import RsjModel.Sort
namespace Rsj.Sort

/-- The laws the proofs need of `CompareValue` / `EqualsValue` on the keys that occur:
    a total preorder presented as a three-way comparison (`swap` = consistency of
    lt / eq / gt and totality, `le_trans` = transitivity), and equality agreeing
    with the comparison. -/
structure Lawful {κ : Type} (O : KeyOrd κ) : Prop where
  swap : ∀ a b, O.cmp b a = (O.cmp a b).swap
  le_trans : ∀ a b c, O.cmp a b ≠ .gt → O.cmp b c ≠ .gt → O.cmp a c ≠ .gt
  eqv_iff : ∀ a b, O.eqv a b = true ↔ O.cmp a b = .eq

section order
variable {κ : Type} {O : KeyOrd κ} (h : Lawful O)
include h

theorem Lawful.cmp_self (a : κ) : O.cmp a a = .eq := by
  have := h.swap a a
  cases hc : O.cmp a a <;> rw [hc] at this <;> simp [Ordering.swap] at this ⊢

theorem Lawful.gt_iff_lt {a b : κ} : O.cmp a b = .gt ↔ O.cmp b a = .lt := by
  rw [h.swap a b]; cases O.cmp a b <;> simp [Ordering.swap]

theorem Lawful.lt_iff_gt {a b : κ} : O.cmp a b = .lt ↔ O.cmp b a = .gt := by
  rw [h.swap a b]; cases O.cmp a b <;> simp [Ordering.swap]

theorem Lawful.eq_symm {a b : κ} (e : O.cmp a b = .eq) : O.cmp b a = .eq := by
  rw [h.swap a b, e]; rfl

theorem Lawful.eq_comm {a b : κ} : O.cmp a b = .eq ↔ O.cmp b a = .eq :=
  ⟨h.eq_symm, h.eq_symm⟩

theorem Lawful.lt_of_lt_of_le {a b c : κ} (h1 : O.cmp a b = .lt) (h2 : O.cmp b c ≠ .gt) :
    O.cmp a c = .lt := by
  cases hac : O.cmp a c with
  | lt => rfl
  | eq =>
    -- c ≤ a, b ≤ c ⟹ b ≤ a, contradiction with a < b
    have hca : O.cmp c a ≠ .gt := by rw [h.swap a c, hac]; simp [Ordering.swap]
    have := h.le_trans b c a h2 hca
    rw [h.swap a b, h1] at this; simp [Ordering.swap] at this
  | gt =>
    have hca : O.cmp c a ≠ .gt := by rw [h.swap a c, hac]; simp [Ordering.swap]
    have := h.le_trans b c a h2 hca
    rw [h.swap a b, h1] at this; simp [Ordering.swap] at this

theorem Lawful.lt_of_le_of_lt {a b c : κ} (h1 : O.cmp a b ≠ .gt) (h2 : O.cmp b c = .lt) :
    O.cmp a c = .lt := by
  cases hac : O.cmp a c with
  | lt => rfl
  | eq =>
    have hca : O.cmp c a ≠ .gt := by rw [h.swap a c, hac]; simp [Ordering.swap]
    have := h.le_trans c a b hca h1
    rw [h.swap b c, h2] at this; simp [Ordering.swap] at this
  | gt =>
    have hca : O.cmp c a ≠ .gt := by rw [h.swap a c, hac]; simp [Ordering.swap]
    have := h.le_trans c a b hca h1
    rw [h.swap b c, h2] at this; simp [Ordering.swap] at this

theorem Lawful.lt_trans {a b c : κ} (h1 : O.cmp a b = .lt) (h2 : O.cmp b c = .lt) :
    O.cmp a c = .lt :=
  h.lt_of_lt_of_le h1 (by rw [h2]; simp)

theorem Lawful.eq_trans {a b c : κ} (h1 : O.cmp a b = .eq) (h2 : O.cmp b c = .eq) :
    O.cmp a c = .eq := by
  have hac := h.le_trans a b c (by rw [h1]; simp) (by rw [h2]; simp)
  have hca := h.le_trans c b a (by rw [h.eq_symm h2]; simp) (by rw [h.eq_symm h1]; simp)
  rw [h.swap a c] at hca
  cases hc : O.cmp a c <;> rw [hc] at hac hca <;> simp [Ordering.swap] at hac hca ⊢

theorem Lawful.lt_of_lt_of_eq {a b c : κ} (h1 : O.cmp a b = .lt) (h2 : O.cmp b c = .eq) :
    O.cmp a c = .lt :=
  h.lt_of_lt_of_le h1 (by rw [h2]; simp)

theorem Lawful.lt_of_eq_of_lt {a b c : κ} (h1 : O.cmp a b = .eq) (h2 : O.cmp b c = .lt) :
    O.cmp a c = .lt :=
  h.lt_of_le_of_lt (by rw [h1]; simp) h2

theorem Lawful.gt_of_gt_of_ge {a b c : κ} (h1 : O.cmp a b = .gt) (h2 : O.cmp b c ≠ .lt) :
    O.cmp a c = .gt := by
  rw [h.gt_iff_lt] at h1 ⊢
  refine h.lt_of_le_of_lt ?_ h1
  intro hg; exact h2 (h.lt_iff_gt.mpr hg)

theorem Lawful.not_lt_of_eq {a b : κ} (e : O.cmp a b = .eq) : O.cmp b a ≠ .lt := by
  rw [h.eq_symm e]; simp

end order

section before
variable {α κ : Type} (O : KeyOrd κ) (key : α → κ) (pos : α → Nat)

/-- The order a stable sort produces: strictly smaller key, or equal key and earlier
    input position. -/
def Before (x y : α) : Prop :=
  O.cmp (key x) (key y) = .lt ∨ (O.cmp (key x) (key y) = .eq ∧ pos x < pos y)

/-- Input slices are position-increasing. -/
def PosSorted (l : List α) : Prop := l.Pairwise (fun x y => pos x < pos y)

variable {O key pos}

theorem Before.trans (h : Lawful O) {x y z : α}
    (h1 : Before O key pos x y) (h2 : Before O key pos y z) : Before O key pos x z := by
  rcases h1 with h1 | ⟨e1, p1⟩ <;> rcases h2 with h2 | ⟨e2, p2⟩
  · exact .inl (h.lt_trans h1 h2)
  · exact .inl (h.lt_of_lt_of_eq h1 e2)
  · exact .inl (h.lt_of_eq_of_lt e1 h2)
  · exact .inr ⟨h.eq_trans e1 e2, Nat.lt_trans p1 p2⟩

theorem Before.asymm (h : Lawful O) {x y : α}
    (h1 : Before O key pos x y) (h2 : Before O key pos y x) : False := by
  rcases h1 with h1 | ⟨e1, p1⟩ <;> rcases h2 with h2 | ⟨e2, p2⟩
  · rw [h.lt_iff_gt] at h1; rw [h1] at h2; cases h2
  · rw [h.eq_symm e2] at h1; cases h1
  · rw [h.eq_symm e1] at h2; cases h2
  · omega

theorem Before.le {x y : α} (h1 : Before O key pos x y) : O.cmp (key x) (key y) ≠ .gt := by
  rcases h1 with h1 | ⟨e1, _⟩ <;> simp [*]

theorem pairwise_of_length_le_one {R : α → α → Prop} {l : List α} (hl : l.length ≤ 1) :
    l.Pairwise R := by
  match l, hl with
  | [], _ => exact .nil
  | [_], _ => exact List.pairwise_singleton ..

/-! ### quick sort -/

theorem quick_spec (h : Lawful O) : ∀ (fuel : Nat) (l : List α),
    l.length ≤ fuel + 1 → PosSorted pos l →
    ∃ r, (if l.length > 1 then quick O key fuel l else .ok l) = .ok r ∧
      r.Perm l ∧ r.Pairwise (Before O key pos) := by
  intro fuel
  induction fuel with
  | zero =>
    intro l hl _
    refine ⟨l, ?_, .refl _, pairwise_of_length_le_one hl⟩
    rw [if_neg (by omega)]
  | succ fuel ih =>
    intro l hl hp
    by_cases hlen : l.length > 1
    · rw [if_pos hlen]
      match l, hlen with
      | pivot :: y :: rest', _ =>
        -- name the tail
        simp only [quick]
        generalize hrest : y :: rest' = rest at *
        have hpr : PosSorted pos rest := (List.pairwise_cons.mp hp).2
        have hpiv : ∀ z ∈ rest, pos pivot < pos z := (List.pairwise_cons.mp hp).1
        have hrl : rest.length ≤ fuel + 1 := by simp only [List.length_cons] at hl; omega
        obtain ⟨lt', e1, p1, s1⟩ := ih (rest.filter (fun item => ltB O key item pivot))
          (Nat.le_trans (List.length_filter_le ..) hrl) (hpr.sublist List.filter_sublist)
        obtain ⟨ge', e2, p2, s2⟩ := ih (rest.filter (fun item => !ltB O key item pivot))
          (Nat.le_trans (List.length_filter_le ..) hrl) (hpr.sublist List.filter_sublist)
        rw [e1, e2]
        refine ⟨lt' ++ pivot :: ge', rfl, ?_, ?_⟩
        · -- permutation
          have : (lt' ++ pivot :: ge').Perm (pivot :: (lt' ++ ge')) := List.perm_middle
          refine this.trans (List.Perm.cons _ ?_)
          exact (List.Perm.append p1 p2).trans (List.filter_append_perm _ _)
        · -- order
          have hlt : ∀ x ∈ lt', O.cmp (key x) (key pivot) = .lt := by
            intro x hx
            have := (List.mem_filter.mp (p1.subset hx)).2
            simpa [ltB, Ordering.isLT_iff_eq_lt] using this
          have hge : ∀ x ∈ ge', x ∈ rest ∧ O.cmp (key x) (key pivot) ≠ .lt := by
            intro x hx
            have := List.mem_filter.mp (p2.subset hx)
            refine ⟨this.1, ?_⟩
            simpa [ltB, Ordering.isGE_iff_ne_lt] using this.2
          have hpg : ∀ x ∈ ge', Before O key pos pivot x := by
            intro x hx
            obtain ⟨hm, hn⟩ := hge x hx
            cases hc : O.cmp (key pivot) (key x) with
            | lt => exact .inl hc
            | eq => exact .inr ⟨hc, hpiv x hm⟩
            | gt => exact absurd (h.gt_iff_lt.mp hc) hn
          rw [List.pairwise_append]
          refine ⟨s1, List.pairwise_cons.mpr ⟨hpg, s2⟩, ?_⟩
          intro x hx y hy
          rcases List.mem_cons.mp hy with rfl | hy
          · exact .inl (hlt x hx)
          · exact .inl (h.lt_of_lt_of_le (hlt x hx) (hpg y hy).le)
    · rw [if_neg hlen]
      exact ⟨l, rfl, .refl _, pairwise_of_length_le_one (by omega)⟩

/-! ### merge -/

theorem merge_before (h : Lawful O) : ∀ (l₁ l₂ : List α),
    l₁.Pairwise (Before O key pos) → l₂.Pairwise (Before O key pos) →
    (∀ x ∈ l₁, ∀ y ∈ l₂, pos x < pos y) →
    (List.merge l₁ l₂ (leB O key)).Pairwise (Before O key pos) := by
  intro l₁
  induction l₁ with
  | nil => intro l₂ _ h₂ _; simpa only [List.merge] using h₂
  | cons x l₁ ih₁ =>
    intro l₂
    induction l₂ with
    | nil => intro h₁ _ _; simpa only [List.merge] using h₁
    | cons y l₂ ih₂ =>
      intro h₁ h₂ hpos
      simp only [List.merge]
      have hxy := hpos x List.mem_cons_self y List.mem_cons_self
      split <;> rename_i hle
      · -- left element taken: key x ≤ key y
        have bxy : Before O key pos x y := by
          simp only [leB, Ordering.isLE_iff_ne_gt] at hle
          cases hc : O.cmp (key x) (key y) with
          | lt => exact .inl hc
          | eq => exact .inr ⟨hc, hxy⟩
          | gt => exact absurd hc hle
        apply List.Pairwise.cons
        · intro z m
          rw [List.mem_merge, List.mem_cons] at m
          rcases m with m | rfl | m
          · exact List.rel_of_pairwise_cons h₁ m
          · exact bxy
          · exact bxy.trans h (List.rel_of_pairwise_cons h₂ m)
        · exact ih₁ _ h₁.tail h₂
            (fun a ha b hb => hpos a (List.mem_cons_of_mem _ ha) b hb)
      · -- right element taken: key x > key y
        have byx : Before O key pos y x := by
          simp only [leB, Ordering.isLE_iff_ne_gt, Decidable.not_not] at hle
          exact .inl (h.gt_iff_lt.mp hle)
        apply List.Pairwise.cons
        · intro z m
          rw [List.mem_merge, List.mem_cons] at m
          rcases m with (rfl | m) | m
          · exact byx
          · exact byx.trans h (List.rel_of_pairwise_cons h₁ m)
          · exact List.rel_of_pairwise_cons h₂ m
        · exact ih₂ h₁ h₂.tail
            (fun a ha b hb => hpos a ha b (List.mem_cons_of_mem _ hb))

/-! ### sortSlice / sort -/

theorem sortSlice_spec (h : Lawful O) {thr : Nat} (hthr : 1 ≤ thr) : ∀ (fuel : Nat) (l : List α),
    l.length < fuel → PosSorted pos l →
    ∃ r, sortSlice O key thr fuel l = .ok r ∧ r.Perm l ∧ r.Pairwise (Before O key pos) := by
  intro fuel
  induction fuel with
  | zero => intro l hl; omega
  | succ fuel ih =>
    intro l hl hp
    simp only [sortSlice]
    by_cases hlen : l.length > thr
    · rw [if_pos hlen]
      have hmid1 : 1 ≤ l.length / 2 := by omega
      have hmid2 : l.length / 2 < l.length := by omega
      have hsplit : l.take (l.length / 2) ++ l.drop (l.length / 2) = l := List.take_append_drop ..
      have hp' := hp
      unfold PosSorted at hp'
      rw [← hsplit, List.pairwise_append] at hp'
      obtain ⟨hpl, hpr, hcross⟩ := hp'
      obtain ⟨left, e1, p1, s1⟩ := ih (l.take (l.length / 2))
        (by rw [List.length_take]; omega) hpl
      obtain ⟨right, e2, p2, s2⟩ := ih (l.drop (l.length / 2))
        (by rw [List.length_drop]; omega) hpr
      rw [e1, e2]
      refine ⟨_, rfl, ?_, ?_⟩
      · refine (List.merge_perm_append _).trans ?_
        have := List.Perm.append p1 p2
        rwa [hsplit] at this
      · exact merge_before h left right s1 s2
          (fun x hx y hy => hcross x (p1.subset hx) y (p2.subset hy))
    · rw [if_neg hlen]
      by_cases h1 : l.length > 1
      · have := quick_spec (key := key) (pos := pos) h l.length l (by omega) hp
        rw [if_pos h1] at this ⊢
        exact this
      · rw [if_neg h1]
        exact ⟨l, rfl, .refl _, pairwise_of_length_le_one (by omega)⟩

theorem sort_spec (h : Lawful O) {thr : Nat} (hthr : 1 ≤ thr) (l : List α)
    (hp : PosSorted pos l) :
    ∃ r, sort O key thr l = .ok r ∧ r.Perm l ∧ r.Pairwise (Before O key pos) := by
  unfold sort
  by_cases h1 : l.length ≤ 1
  · rw [if_pos h1]; exact ⟨l, rfl, .refl _, pairwise_of_length_le_one h1⟩
  · rw [if_neg h1]; exact sortSlice_spec h hthr _ l (by omega) hp

/-- Permutation + `Before`-sortedness determine the list. -/
theorem before_unique (h : Lawful O) {l₁ l₂ : List α}
    (s1 : l₁.Pairwise (Before O key pos)) (s2 : l₂.Pairwise (Before O key pos))
    (p : l₁.Perm l₂) : l₁ = l₂ := by
  exact List.Perm.eq_of_pairwise (le := Before O key pos)
    (fun _ _ _ _ hab hba => (Before.asymm h hab hba).elim) s1 s2 p

end before
end Rsj.Sort
