/-
  C15 print/parse, part 18: the prefix forms that extend to the right — `local`, `if`, `function`,
  `assert`, `import`, `importstr`, `importbin`, `error` — as heads (bare form: the whole
  position, nothing that could continue an expression follows).
-/
import RsjProofs.ParserRun17
namespace Rsj.Parser

section
variable {toks : List Token} (pe : PState toks → Except (Err toks) (Expr × PState toks)) (R : Nat)

/-- run `pe` on a bracketed subexpression in tail position (inherits `elseNext`) -/
theorem PCh.runEl {full : Bool} {x : Expr} (h : PCh pe R full x) {el : Bool} {st : PState toks} {tk : TokKind}
    {T : Toks} (hk : st.kinds = sub full x 0 false el ++ tk :: T) (hlen : st.kinds.length < R)
    (hfo : FollowOK false el tk) :
    ∃ i' st', pe st = .ok (i', st') ∧ i'.erase = x.erase ∧ st'.kinds = tk :: T :=
  h.1 el st tk T hk hlen (hfo.1 rfl) hfo.2

/-- skip one alternative of `State::Primary` -/
local macro "pskip " hc:ident : tactic =>
  `(tactic| (rw [eatSimple_miss_false (by rw [$hc:ident]; simp [sim])]; simp only []))

/-! ### `local` -/

/-- `, b` for each further bind -/
def bindsTail (full : Bool) : List Bind → Toks
  | [] => []
  | b :: bs => sim .Comma :: (prBind full b ++ bindsTail full bs)

omit pe R in
theorem prBinds_eq (full : Bool) : ∀ (b : Bind) (bs : List Bind),
    prBinds full (b :: bs) = prBind full b ++ bindsTail full bs
  | b, [] => by simp [prBinds, bindsTail]
  | b, b2 :: bs => by
    have := prBinds_eq full b2 bs
    simp [prBinds, bindsTail] at this ⊢
    rw [this]

theorem binds_loop {full : Bool} : ∀ (bs : List Bind), (∀ b ∈ bs, BindOK pe R full b) →
    ∀ (acc : List Bind) (st : PState toks) (z : TokKind) (Z : Toks),
    st.kinds = bindsTail full bs ++ sim .Semicolon :: z :: Z → st.kinds.length ≤ R →
    ∃ bs' st', eraseBinds bs' = eraseBinds bs ∧ st'.kinds = sim .Semicolon :: z :: Z ∧
      ∀ fuel, st.kinds.length ≤ fuel → bindsLoop pe fuel acc st = .ok (acc ++ bs', st')
  | [], _, acc, st, z, Z, hk, _ => by
    have hk0 : st.kinds = sim .Semicolon :: z :: Z := by simpa [bindsTail] using hk
    have hm : eatSimple .Comma true st = .ok (none, st.pushIf true (.simple .Comma)) :=
      eatSimple_miss true (by rw [cur_kind_of_kinds hk0]; simp [sim])
    refine ⟨[], st.pushIf true (.simple .Comma), rfl, by rw [kinds_pushIf, hk0], fun fuel hf => ?_⟩
    obtain ⟨f, rfl⟩ : ∃ f, fuel = f + 1 := ⟨fuel - 1, by rw [hk0] at hf; simp at hf; omega⟩
    rw [bindsLoop, hm]; simp only [bind, Except.bind, pure, Except.pure, List.append_nil]
  | b :: bs, hall, acc, st, z, Z, hk, hlen => by
    obtain ⟨Zb, hzb⟩ := prBind_cons full b
    obtain ⟨w, Wt, hw, hws, hwn⟩ : ∃ w Wt, bindsTail full bs ++ sim .Semicolon :: z :: Z = w :: Wt ∧ StopTok w ∧
        w ≠ sim .Else := by
      cases bs with
      | nil => exact ⟨sim .Semicolon, z :: Z, by simp [bindsTail], stopTok_semicolon, by simp [sim]⟩
      | cons b2 bs2 =>
        exact ⟨sim .Comma, prBind full b2 ++ (bindsTail full bs2 ++ sim .Semicolon :: z :: Z),
          by simp [bindsTail], stopTok_comma, by simp [sim]⟩
    have hk0 : st.kinds = sim .Comma :: .ident b.name.value :: (Zb ++ w :: Wt) := by
      rw [hk, ← hw]; simp [bindsTail, hzb]
    obtain ⟨st1, he1, hk1⟩ := eatSimple_hit true hk0
    have hk1' : st1.kinds = prBind full b ++ w :: Wt := by rw [hk1, hzb]; rfl
    have hb := hall b (by simp)
    obtain ⟨b', st2, hbe, hk2, hpb⟩ := bind_step pe R hb hk1'
      (by rw [hk1]; rw [hk0] at hlen; simp at hlen ⊢; omega) hws hwn
    have hlen2 : st2.kinds.length + 2 ≤ st.kinds.length := by rw [hk2, hk0]; simp
    obtain ⟨bs', st3, hbse, hk3, hloop⟩ := binds_loop bs (fun x hx => hall x (by simp [hx])) (acc ++ [b']) st2 z Z
      (by rw [hk2, hw]) (by omega)
    refine ⟨b' :: bs', st3, by simp [eraseBinds, hbe, hbse], hk3, fun fuel hf => ?_⟩
    obtain ⟨f, rfl⟩ : ∃ f, fuel = f + 1 := ⟨fuel - 1, by rw [hk0] at hf; simp at hf; omega⟩
    have hpl := bind_params_le (full := full) hb.noParams
    rw [bindsLoop, he1]; simp only [bind, Except.bind]
    rw [hpb f (by
      have : (prBind full b).length + 2 ≤ st.kinds.length := by rw [hk0, hzb]; simp
      omega)]
    simp only []
    rw [hloop f (by omega)]
    simp

/-- tokens of the bare `local` form -/
def localToks (full : Bool) (binds : List Bind) (body : Expr) (el : Bool) : Toks :=
  sim .Local :: (prBinds full binds ++ sim .Semicolon :: sub full body 0 false el)

theorem local_head {full : Bool} {b0 : Bind} {bs : List Bind} {body : Expr}
    (hall : ∀ b ∈ b0 :: bs, BindOK pe R full b) (hbody : PCh pe R full body) (el : Bool) :
    HDtok pe R (localToks full (b0 :: bs) body el) (.local_ (eraseBinds (b0 :: bs)) body.erase .zero)
      (FollowOK false el) := by
  intro S st y Y hk hR hfo
  obtain ⟨Zb, hzb⟩ := prBind_cons full b0
  obtain ⟨x, X, hx, _, _⟩ := (hbody.2 el).cons
  obtain ⟨w, Wt, hw, hws, hwn⟩ : ∃ w Wt, bindsTail full bs ++ sim .Semicolon :: (x :: (X ++ y :: Y)) = w :: Wt ∧
      StopTok w ∧ w ≠ sim .Else := by
    cases bs with
    | nil => exact ⟨sim .Semicolon, x :: (X ++ y :: Y), by simp [bindsTail], stopTok_semicolon, by simp [sim]⟩
    | cons b2 bs2 =>
      exact ⟨sim .Comma, prBind full b2 ++ (bindsTail full bs2 ++ sim .Semicolon :: x :: (X ++ y :: Y)),
        by simp [bindsTail], stopTok_comma, by simp [sim]⟩
  have hk0 : st.kinds = sim .Local :: .ident b0.name.value :: (Zb ++ w :: Wt) := by
    rw [hk, ← hw]; simp [localToks, prBinds_eq, hzb, hx]
  have hc := cur_kind_of_kinds hk0
  obtain ⟨st1, he1, hk1⟩ := eatSimple_hit false hk0
  have hk1' : st1.kinds = prBind full b0 ++ w :: Wt := by rw [hk1, hzb]; rfl
  have hb0 := hall b0 (by simp)
  obtain ⟨b0', st2, hbe, hk2, hpb⟩ := bind_step pe R hb0 hk1'
    (by rw [hk1]; rw [hk0] at hR; simp at hR ⊢; omega) hws hwn
  have hlen2 : st2.kinds.length + 2 ≤ st.kinds.length := by rw [hk2, hk0]; simp
  obtain ⟨bs', st3, hbse, hk3, hloop⟩ := binds_loop pe R bs (fun b hb => hall b (by simp [hb])) [b0'] st2 x
    (X ++ y :: Y) (by rw [hk2, hw]) (by omega)
  obtain ⟨st4, he4, hk4⟩ := expectSimple_hit true hk3
  have hlen3 : st3.kinds.length ≤ st2.kinds.length := by
    rw [hk3, hk2, ← hw]; simp
  obtain ⟨body', st5, hpbody, hbodye, hk5⟩ := hbody.runEl pe R (el := el) (st := st4) (tk := y) (T := Y)
    (by rw [hk4, hx]; rfl) (by rw [hk4]; rw [hk3] at hlen3; simp at hlen3 ⊢; omega) hfo
  have hpl := bind_params_le (full := full) hb0.noParams
  refine ⟨.local_ ([b0'] ++ bs') body' (surround st.cur.span body'.span), st5, 1,
    by simp [Expr.erase, eraseBinds, hbe, hbse, hbodye], hk5, by simp [localToks] <;> omega, Reach.primary pe (fun fuel hf => ?_)⟩
  unfold primaryStep
  rw [pms_miss (by rw [hc]; simp [NotAtom, sim])]; simp only [bind, Except.bind]
  pskip hc; pskip hc; pskip hc
  rw [he1]; simp only []
  rw [hpb fuel (by
    have : (prBind full b0).length + 2 ≤ st.kinds.length := by rw [hk0, hzb]; simp
    omega)]
  simp only []
  rw [hloop fuel (by omega)]; simp only []
  rw [he4]; simp only []
  rw [hpbody]; rfl

/-! ### `if` -/

def iteToks (full : Bool) (c t : Expr) (e : Option Expr) (el : Bool) : Toks :=
  match e with
  | none => sim .If :: (sub full c 0 false false ++ sim .Then :: sub full t 0 false false)
  | some e => sim .If :: (sub full c 0 false false ++ sim .Then :: (sub full t 0 false true ++
      sim .Else :: sub full e 0 false el))

/-- `State::Primary` on `if c then` -/
theorem primary_if {full : Bool} {c : Expr} (hc : PCh pe R full c) {st : PState toks} {z : TokKind} {Z : Toks}
    (hk : st.kinds = sim .If :: (sub full c 0 false false ++ sim .Then :: z :: Z)) (hR : st.kinds.length ≤ R) :
    ∃ c' st3, c'.erase = c.erase ∧ st3.kinds = z :: Z ∧ ∀ fuel (S : List StackItem), primaryStep pe fuel S st =
      (match pe st3 with
       | .error e => .error e
       | .ok (thenB, st4) =>
         match eatSimple .Else true st4 with
         | .error e => .error e
         | .ok (some _, st5) =>
           (match pe st5 with
            | .error e => .error e
            | .ok (elseB, st6) =>
              .ok ((S, .parsed (.ite_ c' thenB (some elseB) (surround st.cur.span elseB.span))), st6))
         | .ok (none, st5) => .ok ((S, .parsed (.ite_ c' thenB none (surround st.cur.span thenB.span))), st5)) := by
  obtain ⟨x, X, hx, _, _⟩ := (hc.2 false).cons
  have hk0 : st.kinds = sim .If :: x :: (X ++ sim .Then :: z :: Z) := by rw [hk, hx]; rfl
  have hcur := cur_kind_of_kinds hk0
  obtain ⟨st1, he1, hk1⟩ := eatSimple_hit false hk0
  obtain ⟨c', st2, hpc, hce, hk2⟩ := hc.run pe R (st := st1) (tk := sim .Then) (T := z :: Z) (by rw [hk1, hx]; rfl)
    (by rw [hk1]; rw [hk0] at hR; simp at hR ⊢; omega) stopTok_then (by simp [sim])
  obtain ⟨st3, he3, hk3⟩ := expectSimple_hit true hk2
  refine ⟨c', st3, hce, hk3, fun fuel S => ?_⟩
  unfold primaryStep
  rw [pms_miss (by rw [hcur]; simp [NotAtom, sim])]; simp only [bind, Except.bind]
  pskip hcur; pskip hcur; pskip hcur; pskip hcur
  rw [he1]; simp only []
  rw [hpc]; simp only []
  rw [he3]; simp only []
  cases pe st3 with
  | error e => rfl
  | ok v =>
    obtain ⟨thenB, st4⟩ := v
    simp only []
    cases eatSimple .Else true st4 with
    | error e => rfl
    | ok v =>
      obtain ⟨r, st5⟩ := v
      cases r with
      | none => rfl
      | some sp =>
        simp only []
        cases pe st5 with
        | error e => rfl
        | ok v => rfl

theorem ite_some_head {full : Bool} {c t e : Expr} (hc : PCh pe R full c) (ht : PCh pe R full t)
    (he : PCh pe R full e) (el : Bool) :
    HDtok pe R (iteToks full c t (some e) el) (.ite_ c.erase t.erase (some e.erase) .zero) (FollowOK false el) := by
  intro S st y Y hk hR hfo
  obtain ⟨x, X, hx, _, _⟩ := (ht.2 true).cons
  obtain ⟨w, Wt, hw, _, _⟩ := (he.2 el).cons
  have hk0 : st.kinds = sim .If :: (sub full c 0 false false ++ sim .Then :: x :: (X ++ sim .Else :: w :: (Wt ++ y :: Y))) := by
    rw [hk]; simp [iteToks, hx, hw]
  obtain ⟨c', st3, hce, hk3, hprim⟩ := primary_if pe R hc hk0 hR
  have hlen3 : st3.kinds.length + 2 ≤ st.kinds.length := by rw [hk3, hk0]; simp <;> omega
  obtain ⟨t', st4, hpt, hte, hk4⟩ := ht.runEl pe R (el := true) (st := st3) (tk := sim .Else) (T := w :: (Wt ++ y :: Y))
    (by rw [hk3, hx]; rfl) (by omega) ⟨fun _ => stopTok_else, fun _ => rfl⟩
  obtain ⟨st5, he5, hk5⟩ := eatSimple_hit true hk4
  obtain ⟨e', st6, hpe', hee, hk6⟩ := he.runEl pe R (el := el) (st := st5) (tk := y) (T := Y)
    (by rw [hk5, hw]; rfl)
    (by
      have : st5.kinds.length ≤ st3.kinds.length := by rw [hk5, hk3]; simp <;> omega
      omega) hfo
  refine ⟨.ite_ c' t' (some e') (surround st.cur.span e'.span), st6, 1, by simp [Expr.erase, hce, hte, hee, eraseOpt],
    hk6, by simp [iteToks] <;> omega, Reach.primary pe (fun fuel _ => ?_)⟩
  rw [hprim fuel, hpt]; simp only []
  rw [he5]; simp only []
  rw [hpe']

theorem ite_none_head {full : Bool} {c t : Expr} (hc : PCh pe R full c) (ht : PCh pe R full t) :
    HDtok pe R (iteToks full c t none false) (.ite_ c.erase t.erase none .zero) (FollowOK false false) := by
  intro S st y Y hk hR hfo
  obtain ⟨x, X, hx, _, _⟩ := (ht.2 false).cons
  have hk0 : st.kinds = sim .If :: (sub full c 0 false false ++ sim .Then :: x :: (X ++ y :: Y)) := by
    rw [hk]; simp [iteToks, hx]
  obtain ⟨c', st3, hce, hk3, hprim⟩ := primary_if pe R hc hk0 hR
  have hlen3 : st3.kinds.length + 2 ≤ st.kinds.length := by rw [hk3, hk0]; simp <;> omega
  obtain ⟨t', st4, hpt, hte, hk4⟩ := ht.runEl pe R (el := false) (st := st3) (tk := y) (T := Y)
    (by rw [hk3, hx]; rfl) (by omega) hfo
  have hyne : y ≠ sim .Else := fun h => Bool.noConfusion (hfo.2 h)
  have hm : eatSimple .Else true st4 = .ok (none, st4.pushIf true (.simple .Else)) :=
    eatSimple_miss true (by rw [cur_kind_of_kinds hk4]; simpa [sim] using hyne)
  refine ⟨.ite_ c' t' none (surround st.cur.span t'.span), st4.pushIf true (.simple .Else), 1,
    by simp [Expr.erase, hce, hte, eraseOpt], by rw [kinds_pushIf, hk4], by simp [iteToks] <;> omega,
    Reach.primary pe (fun fuel _ => ?_)⟩
  rw [hprim fuel, hpt]; simp only []
  rw [hm]

/-! ### `function` -/

def funcToks (full : Bool) (ps : List Param) (body : Expr) (el : Bool) : Toks :=
  sim .Function :: sim .LeftParen :: (prParams full ps ++ sim .RightParen :: sub full body 0 false el)

theorem func_head {full : Bool} {ps : List Param} {body : Expr}
    (hps : ∀ p ∈ ps, ∀ d, p.dflt = some d → PCh pe R full d) (hbody : PCh pe R full body) (el : Bool) :
    HDtok pe R (funcToks full ps body el) (.func (eraseParams ps) body.erase .zero) (FollowOK false el) := by
  intro S st y Y hk hR hfo
  obtain ⟨x, X, hx, _, _⟩ := (hbody.2 el).cons
  obtain ⟨z, Z, hz⟩ := cons_of_append_cons (prParams full ps) (sim .RightParen) (x :: (X ++ y :: Y))
  have hk0 : st.kinds = sim .Function :: sim .LeftParen :: z :: Z := by
    rw [hk, ← hz]; simp [funcToks, hx]
  have hc := cur_kind_of_kinds hk0
  obtain ⟨st1, he1, hk1⟩ := eatSimple_hit false hk0
  obtain ⟨st2, he2, hk2⟩ := expectSimple_hit true hk1
  obtain ⟨ps', psp, st3, hpse, hk3, hpp⟩ := parseParams_fwd pe R ps hps (st := st2) (y := x) (Y := X ++ y :: Y)
    (by rw [hk2, hz]) (by rw [hk2]; rw [hk0] at hR; simp at hR ⊢; omega)
  have hlen3 : st3.kinds.length + 2 ≤ st.kinds.length := by
    have := congrArg List.length hz
    rw [hk3, hk0]; simp at this ⊢; omega
  obtain ⟨body', st4, hpb, hbe, hk4⟩ := hbody.runEl pe R (el := el) (st := st3) (tk := y) (T := Y)
    (by rw [hk3, hx]; rfl) (by omega) hfo
  have hpl := prParams_length full ps
  refine ⟨.func ps' body' (surround st.cur.span body'.span), st4, 1, by simp [Expr.erase, hpse, hbe], hk4,
    by simp [funcToks] <;> omega, Reach.primary pe (fun fuel hf => ?_)⟩
  unfold primaryStep
  rw [pms_miss (by rw [hc]; simp [NotAtom, sim])]; simp only [bind, Except.bind]
  pskip hc; pskip hc; pskip hc; pskip hc; pskip hc
  rw [he1]; simp only []
  rw [he2]; simp only []
  rw [hpp fuel (by
    have : (prParams full ps).length + 2 ≤ st.kinds.length := by
      have := congrArg List.length hz
      rw [hk0]; simp at this ⊢; omega
    omega)]
  simp only []
  rw [hpb]; rfl

/-! ### `assert` -/

def assertToks (full : Bool) (a : Assert) (body : Expr) (el : Bool) : Toks :=
  prAssert full a ++ sim .Semicolon :: sub full body 0 false el

theorem assert_head {full : Bool} {a : Assert} {body : Expr} (ha : AssertOK pe R full a)
    (hbody : PCh pe R full body) (el : Bool) :
    HDtok pe R (assertToks full a body el) (.assert_ a.erase body.erase .zero) (FollowOK false el) := by
  intro S st y Y hk hR hfo
  obtain ⟨x, X, hx, _, _⟩ := (hbody.2 el).cons
  obtain ⟨Za, hza⟩ := prAssert_cons full a
  have hk0 : st.kinds = prAssert full a ++ sim .Semicolon :: x :: (X ++ y :: Y) := by
    rw [hk]; simp [assertToks, hx]
  have hc : st.cur.kind = sim .Assert := by
    apply cur_kind_of_kinds (T := Za ++ sim .Semicolon :: x :: (X ++ y :: Y)); rw [hk0, hza]; rfl
  obtain ⟨a', st1, hpa, hae, hk1⟩ := assert_step pe R ha false hk0 hR stopTok_semicolon (by simp [sim]) (by simp [sim])
  obtain ⟨st2, he2, hk2⟩ := expectSimple_hit true hk1
  have hlen2 : st2.kinds.length + 2 ≤ st.kinds.length := by rw [hk2, hk0, hza]; simp <;> omega
  obtain ⟨body', st3, hpb, hbe, hk3⟩ := hbody.runEl pe R (el := el) (st := st2) (tk := y) (T := Y)
    (by rw [hk2, hx]; rfl) (by omega) hfo
  refine ⟨.assert_ a' body' (surround st.cur.span body'.span), st3, 1, by simp [Expr.erase, hae, hbe], hk3,
    by simp [assertToks, hza] <;> omega, Reach.primary pe (fun fuel _ => ?_)⟩
  unfold primaryStep
  rw [pms_miss (by rw [hc]; simp [NotAtom, sim])]; simp only [bind, Except.bind]
  pskip hc; pskip hc; pskip hc; pskip hc; pskip hc; pskip hc
  rw [hpa]; simp only []
  rw [he2]; simp only []
  rw [hpb]; rfl

/-! ### `import`, `importstr`, `importbin`, `error` -/

theorem import_head {full : Bool} {e : Expr} (he : PCh pe R full e) (el : Bool) :
    HDtok pe R (sim .Import :: sub full e 0 false el) (.import_ e.erase .zero) (FollowOK false el) := by
  intro S st y Y hk hR hfo
  obtain ⟨x, X, hx, _, _⟩ := (he.2 el).cons
  have hk0 : st.kinds = sim .Import :: x :: (X ++ y :: Y) := by rw [hk, hx]; rfl
  have hc := cur_kind_of_kinds hk0
  obtain ⟨st1, he1, hk1⟩ := eatSimple_hit false hk0
  obtain ⟨e', st2, hpe', hee, hk2⟩ := he.runEl pe R (el := el) (st := st1) (tk := y) (T := Y)
    (by rw [hk1, hx]; rfl) (by rw [hk1]; rw [hk0] at hR; simp at hR ⊢; omega) hfo
  refine ⟨.import_ e' (surround st.cur.span e'.span), st2, 1, by simp [Expr.erase, hee], hk2, by simp <;> omega,
    Reach.primary pe (fun fuel _ => ?_)⟩
  unfold primaryStep
  rw [pms_miss (by rw [hc]; simp [NotAtom, sim])]; simp only [bind, Except.bind]
  pskip hc; pskip hc; pskip hc; pskip hc; pskip hc; pskip hc
  rw [maybeParseAssert_miss pe (by rw [hc]; simp [sim])]; simp only []
  rw [he1]; simp only []
  rw [hpe']; rfl

theorem importStr_head {full : Bool} {e : Expr} (he : PCh pe R full e) (el : Bool) :
    HDtok pe R (sim .Importstr :: sub full e 0 false el) (.importStr e.erase .zero) (FollowOK false el) := by
  intro S st y Y hk hR hfo
  obtain ⟨x, X, hx, _, _⟩ := (he.2 el).cons
  have hk0 : st.kinds = sim .Importstr :: x :: (X ++ y :: Y) := by rw [hk, hx]; rfl
  have hc := cur_kind_of_kinds hk0
  obtain ⟨st1, he1, hk1⟩ := eatSimple_hit false hk0
  obtain ⟨e', st2, hpe', hee, hk2⟩ := he.runEl pe R (el := el) (st := st1) (tk := y) (T := Y)
    (by rw [hk1, hx]; rfl) (by rw [hk1]; rw [hk0] at hR; simp at hR ⊢; omega) hfo
  refine ⟨.importStr e' (surround st.cur.span e'.span), st2, 1, by simp [Expr.erase, hee], hk2, by simp <;> omega,
    Reach.primary pe (fun fuel _ => ?_)⟩
  unfold primaryStep
  rw [pms_miss (by rw [hc]; simp [NotAtom, sim])]; simp only [bind, Except.bind]
  pskip hc; pskip hc; pskip hc; pskip hc; pskip hc; pskip hc
  rw [maybeParseAssert_miss pe (by rw [hc]; simp [sim])]; simp only []
  pskip hc
  rw [he1]; simp only []
  rw [hpe']; rfl

theorem importBin_head {full : Bool} {e : Expr} (he : PCh pe R full e) (el : Bool) :
    HDtok pe R (sim .Importbin :: sub full e 0 false el) (.importBin e.erase .zero) (FollowOK false el) := by
  intro S st y Y hk hR hfo
  obtain ⟨x, X, hx, _, _⟩ := (he.2 el).cons
  have hk0 : st.kinds = sim .Importbin :: x :: (X ++ y :: Y) := by rw [hk, hx]; rfl
  have hc := cur_kind_of_kinds hk0
  obtain ⟨st1, he1, hk1⟩ := eatSimple_hit false hk0
  obtain ⟨e', st2, hpe', hee, hk2⟩ := he.runEl pe R (el := el) (st := st1) (tk := y) (T := Y)
    (by rw [hk1, hx]; rfl) (by rw [hk1]; rw [hk0] at hR; simp at hR ⊢; omega) hfo
  refine ⟨.importBin e' (surround st.cur.span e'.span), st2, 1, by simp [Expr.erase, hee], hk2, by simp <;> omega,
    Reach.primary pe (fun fuel _ => ?_)⟩
  unfold primaryStep
  rw [pms_miss (by rw [hc]; simp [NotAtom, sim])]; simp only [bind, Except.bind]
  pskip hc; pskip hc; pskip hc; pskip hc; pskip hc; pskip hc
  rw [maybeParseAssert_miss pe (by rw [hc]; simp [sim])]; simp only []
  pskip hc; pskip hc
  rw [he1]; simp only []
  rw [hpe']; rfl

theorem error_head {full : Bool} {e : Expr} (he : PCh pe R full e) (el : Bool) :
    HDtok pe R (sim .Error :: sub full e 0 false el) (.error_ e.erase .zero) (FollowOK false el) := by
  intro S st y Y hk hR hfo
  obtain ⟨x, X, hx, _, _⟩ := (he.2 el).cons
  have hk0 : st.kinds = sim .Error :: x :: (X ++ y :: Y) := by rw [hk, hx]; rfl
  have hc := cur_kind_of_kinds hk0
  obtain ⟨st1, he1, hk1⟩ := eatSimple_hit false hk0
  obtain ⟨e', st2, hpe', hee, hk2⟩ := he.runEl pe R (el := el) (st := st1) (tk := y) (T := Y)
    (by rw [hk1, hx]; rfl) (by rw [hk1]; rw [hk0] at hR; simp at hR ⊢; omega) hfo
  refine ⟨.error_ e' (surround st.cur.span e'.span), st2, 1, by simp [Expr.erase, hee], hk2, by simp <;> omega,
    Reach.primary pe (fun fuel _ => ?_)⟩
  unfold primaryStep
  rw [pms_miss (by rw [hc]; simp [NotAtom, sim])]; simp only [bind, Except.bind]
  pskip hc; pskip hc; pskip hc; pskip hc; pskip hc; pskip hc
  rw [maybeParseAssert_miss pe (by rw [hc]; simp [sim])]; simp only []
  pskip hc; pskip hc; pskip hc
  rw [he1]; simp only []
  rw [hpe']; rfl

end
end Rsj.Parser
