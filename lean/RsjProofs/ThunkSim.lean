/-
  Simulations on the thunk machine used by C04: a thunk that is never run is
  irrelevant (`force_unused`); a run is independent of the earlier trace log and
  only appends to it (`force_frame`).
-/
import RsjProofs.Thunk
namespace Rsj.Thunk

theorem Mono.rn_cases {s s' : St} (hm : Mono s s') (u : Nat) :
    s'.rn u = s.rn u ∨ s'.rn u = (s.rn u).map (· + 1) := by
  by_cases hu : s.st u = some .pending
  · rcases hm.pend u hu with ⟨_, r⟩ | ⟨_, r⟩
    · exact .inl r
    · exact .inr r
  · exact .inl (hm.frozen u hu).2

theorem Mono.rn_sandwich {a b c : St} (h1 : Mono a b) (h2 : Mono b c) {t k : Nat}
    (ha : a.rn t = some k) (hc : c.rn t = some k) : b.rn t = some k := by
  rcases h1.rn_cases t with e1 | e1 <;> rcases h2.rn_cases t with e2 | e2 <;>
    rw [ha] at e1 <;> rw [e1] at e2 <;> rw [hc] at e2 <;> simp at e2 <;> first | exact e1 | omega

theorem Mono.rn_ge {a b : St} (h1 : Mono a b) {t k : Nat} (ha : a.rn t = some k) :
    b.rn t = some k ∨ b.rn t = some (k + 1) := by
  rcases h1.rn_cases t with e1 | e1 <;> rw [ha] at e1
  · exact .inl e1
  · exact .inr e1

/-- Two computation assignments that differ at most at thunk `t`. -/
def AgreeExcept (c c' : Code) (t : Nat) : Prop := ∀ u, u ≠ t → c' u = c u

theorem runProg_unused {f g : Nat → St → Res} {t k : Nat}
    (hm : ∀ u s, Mono s (f u s).2)
    (hfg : ∀ u s r s', f u s = (r, s') → s.rn t = some k → s'.rn t = some k → g u s = (r, s')) :
    ∀ p s r s', runProg f p s = (r, s') → s.rn t = some k → s'.rn t = some k →
      runProg g p s = (r, s') := by
  intro p
  induction p with
  | ret v => intro s r s' h _ _; exact h
  | fail e => intro s r s' h _ _; exact h
  | trace m k ih => intro s r s' h h1 h2; exact ih _ r s' h h1 h2
  | force u k ih =>
    intro s r s' h h1 h2
    rcases res_cases (f u s) with ⟨v, s1, e⟩ | ⟨e', s1, e⟩
    · rw [runProg_force_ok e] at h
      have m1 : Mono s s1 := by have := hm u s; rwa [e] at this
      have m2 : Mono s1 s' := by have := runProg_mono hm (k v) s1; rwa [h] at this
      have hs1 := m1.rn_sandwich m2 h1 h2
      rw [runProg_force_ok (hfg u s _ _ e h1 hs1)]
      exact ih v s1 r s' h hs1 h2
    · rw [runProg_force_error e] at h
      cases h
      rw [runProg_force_error (hfg u s _ _ e h1 h2)]

/-- Simulation: a run that never starts the computation of `t` is the same run
    under any other computation for `t`. -/
theorem force_unused {c c' : Code} {t k : Nat} (hc : AgreeExcept c c' t) :
    ∀ h u s r s', force c h u s = (r, s') → s.rn t = some k → s'.rn t = some k →
      force c' h u s = (r, s') := by
  intro h
  induction h with
  | zero =>
    intro u s r s' hf _ _
    rcases st_cases s u with h | h | h | ⟨v, h⟩
    · rw [force_none h] at hf ⊢; exact hf
    · rw [force_zero_pending h] at hf ⊢; exact hf
    · rw [force_zero_inProgress h] at hf ⊢; exact hf
    · rw [force_done h] at hf ⊢; exact hf
  | succ n ih =>
    intro u s r s' hf h1 h2
    rcases st_cases s u with h | h | h | ⟨v, h⟩
    · rw [force_none h] at hf ⊢; exact hf
    · by_cases hut : u = t
      · subst hut
        exfalso
        have hmk : (mark s u).rn u = some (k + 1) := by rw [rn_mark_self, h1]; rfl
        have hmono := runProg_mono (force_mono_st c n) (c u) (mark s u)
        rcases force_pending_cases (code := c) (n := n) h with ⟨v, s2, e, _, e2⟩ | ⟨e', s2, e, _, e2⟩
        · rw [e2] at hf; cases hf
          rw [e] at hmono
          rw [rn_setState] at h2
          rcases hmono.rn_ge hmk with h3 | h3 <;> rw [h2] at h3 <;> simp at h3 <;> omega
        · rw [e2] at hf; cases hf
          rw [e] at hmono
          rcases hmono.rn_ge hmk with h3 | h3 <;> rw [h2] at h3 <;> simp at h3 <;> omega
      · have hmk : (mark s u).rn t = some k := by rw [rn_mark_ne hut, h1]
        rw [force_succ_pending h, hc u hut]
        rcases force_pending_cases (code := c) (n := n) h with ⟨v, s2, e, _, e2⟩ | ⟨e', s2, e, _, e2⟩
        · rw [e2] at hf; cases hf
          rw [rn_setState] at h2
          rw [runProg_unused (force_mono_st c n) ih _ _ _ _ e hmk h2]; rfl
        · rw [e2] at hf; cases hf
          rw [runProg_unused (force_mono_st c n) ih _ _ _ _ e hmk h2]; rfl
    · rw [force_succ_inProgress h] at hf ⊢; exact hf
    · rw [force_done h] at hf ⊢; exact hf

/-- The same store with another trace log. -/
def St.retrace (s : St) (l : List Nat) : St := { s with traces := l }

@[simp] theorem retrace_st (s : St) (l u) : (s.retrace l).st u = s.st u := rfl
@[simp] theorem retrace_rn (s : St) (l u) : (s.retrace l).rn u = s.rn u := rfl
@[simp] theorem retrace_traces (s : St) (l) : (s.retrace l).traces = l := rfl
@[simp] theorem retrace_states (s : St) (l) : (s.retrace l).states = s.states := rfl
@[simp] theorem retrace_runs (s : St) (l) : (s.retrace l).runs = s.runs := rfl
theorem retrace_self (s : St) : s.retrace s.traces = s := rfl
theorem mark_retrace (s : St) (l t) : mark (s.retrace l) t = (mark s t).retrace l := rfl
theorem emit_retrace (s : St) (l m) : (s.retrace l).emit m = (s.emit m).retrace (l ++ [m]) := rfl
theorem setState_retrace (s : St) (l t x) : (s.retrace l).setState t x = (s.setState t x).retrace l := rfl

/-- A run appends `d` to the log and is otherwise independent of the log. -/
def Frame (f : St → Res) (s : St) (r : Outcome) (s' : St) : Prop :=
  ∃ d, s'.traces = s.traces ++ d ∧ ∀ l, f (s.retrace l) = (r, s'.retrace (l ++ d))

theorem runProg_frame {f : Nat → St → Res}
    (hf : ∀ u s r s', f u s = (r, s') → Frame (f u) s r s') :
    ∀ p s r s', runProg f p s = (r, s') → Frame (runProg f p) s r s' := by
  intro p
  induction p with
  | ret v => intro s r s' h; cases h; exact ⟨[], by simp, fun l => by simp⟩
  | fail e => intro s r s' h; cases h; exact ⟨[], by simp, fun l => by simp⟩
  | trace m k ih =>
    intro s r s' h
    obtain ⟨d, hd, hl⟩ := ih _ r s' h
    refine ⟨m :: d, by simpa using hd, fun l => ?_⟩
    rw [runProg_trace, emit_retrace, hl]; simp
  | force u k ih =>
    intro s r s' h
    rcases res_cases (f u s) with ⟨v, s1, e⟩ | ⟨e', s1, e⟩
    · rw [runProg_force_ok e] at h
      obtain ⟨d1, hd1, hl1⟩ := hf u s _ _ e
      obtain ⟨d2, hd2, hl2⟩ := ih v s1 r s' h
      refine ⟨d1 ++ d2, by rw [hd2, hd1, List.append_assoc], fun l => ?_⟩
      rw [runProg_force_ok (hl1 l), hl2, List.append_assoc]
    · rw [runProg_force_error e] at h
      cases h
      obtain ⟨d1, hd1, hl1⟩ := hf u s _ _ e
      exact ⟨d1, hd1, fun l => by rw [runProg_force_error (hl1 l)]⟩

theorem force_frame (c : Code) : ∀ h u s r s', force c h u s = (r, s') → Frame (force c h u) s r s' := by
  intro h
  induction h with
  | zero =>
    intro u s r s' hf
    refine ⟨[], ?_, fun l => ?_⟩ <;>
    rcases st_cases s u with h | h | h | ⟨v, h⟩
    · rw [force_none h] at hf; cases hf; simp
    · rw [force_zero_pending h] at hf; cases hf; simp
    · rw [force_zero_inProgress h] at hf; cases hf; simp
    · rw [force_done h] at hf; cases hf; simp
    · rw [force_none h] at hf; cases hf; rw [force_none (by simpa using h)]; simp
    · rw [force_zero_pending h] at hf; cases hf; rw [force_zero_pending (by simpa using h)]; simp
    · rw [force_zero_inProgress h] at hf; cases hf; rw [force_zero_inProgress (by simpa using h)]; simp
    · rw [force_done h] at hf; cases hf; rw [force_done (by simpa using h)]; simp
  | succ n ih =>
    intro u s r s' hf
    rcases st_cases s u with h | h | h | ⟨v, h⟩
    · rw [force_none h] at hf; cases hf
      exact ⟨[], by simp, fun l => by rw [force_none (by simpa using h)]; simp⟩
    · rcases force_pending_cases (code := c) (n := n) h with ⟨v, s2, e, _, e2⟩ | ⟨e', s2, e, _, e2⟩
      · rw [e2] at hf; cases hf
        obtain ⟨d, hd, hl⟩ := runProg_frame ih _ _ _ _ e
        refine ⟨d, by simpa using hd, fun l => ?_⟩
        rw [force_succ_pending (by simpa using h), mark_retrace, hl]; rfl
      · rw [e2] at hf; cases hf
        obtain ⟨d, hd, hl⟩ := runProg_frame ih _ _ _ _ e
        refine ⟨d, by simpa using hd, fun l => ?_⟩
        rw [force_succ_pending (by simpa using h), mark_retrace, hl]; rfl
    · rw [force_succ_inProgress h] at hf; cases hf
      exact ⟨[], by simp, fun l => by rw [force_succ_inProgress (by simpa using h)]; simp⟩
    · rw [force_done h] at hf; cases hf
      exact ⟨[], by simp, fun l => by rw [force_done (by simpa using h)]; simp⟩

end Rsj.Thunk
