/-
  `Dec`: the lexer's own character-by-character decoding of a byte string
  (repeated `decode_cont_char`, U+FFFD for an ill-formed sequence), as a
  relation convenient for inverting the scanner loops; on byte input it is the
  specification `Lossy`.
-/
import RsjProofs.LexerStrings
set_option linter.unusedSimpArgs false
namespace Rsj.Lexer
open Rsj.Utf8

/-- One `decode_cont_char` step at lead byte `b` with `t` following: `n`
    continuation bytes are consumed and the character `v` is produced. -/
def DecOne (b : Nat) (t : List Nat) (n v : Nat) : Prop :=
  decodeCont b t = .chr n v ∨ (decodeCont b t = .bad n ∧ v = 0xFFFD)

theorem DecOne.le {b : Nat} {t : List Nat} {n v : Nat} (h : DecOne b t n v) : n ≤ t.length := by
  rcases h with h | ⟨h, _⟩
  · exact decodeCont_chr_le h
  · exact decodeCont_bad_le h

theorem DecOne.append_ascii_iff {b : Nat} {t : List Nat} {n v x : Nat} (hx : x < 128) (tail : List Nat) :
    DecOne b (t ++ x :: tail) n v ↔ DecOne b t n v := by
  unfold DecOne
  rw [decodeCont_append_ascii b t hx tail]

theorem DecOne.ascii {b : Nat} (hb : b < 128) (t : List Nat) : DecOne b t 0 b := by
  left
  unfold decodeCont
  rw [if_pos (by omega)]

/-- The continuation bytes consumed are never ASCII. -/
theorem DecOne.take_ge {b : Nat} {t : List Nat} {n v : Nat} (h : DecOne b t n v) :
    ∀ y ∈ t.take n, 128 ≤ y := by
  intro y hy
  obtain ⟨i, hi, rfl⟩ := List.getElem_of_mem hy
  rw [List.getElem_take]
  rw [List.length_take] at hi
  have hi1 : i < n := by omega
  have hi2 : i < t.length := by omega
  apply Decidable.byContradiction
  intro hlt
  have hx : t[i] < 128 := by omega
  have hsplit : t = t.take i ++ t[i] :: t.drop (i + 1) := by
    rw [List.getElem_cons_drop, List.take_append_drop]
  have hlen : (t.take i).length ≤ i := by simp [List.length_take]; omega
  rw [hsplit, DecOne.append_ascii_iff hx] at h
  have := h.le
  omega

/-- Repeated `decode_cont_char` to the end of the bytes. -/
inductive Dec : List Nat → List Nat → Prop
  | nil : Dec [] []
  | step {b : Nat} {t : List Nat} {n v : Nat} {out : List Nat} :
      DecOne b t n v → Dec (t.drop n) out → Dec (b :: t) (v :: out)

theorem Dec.cons_ascii {b : Nat} (hb : b < 128) {t o : List Nat} (h : Dec t o) : Dec (b :: t) (b :: o) :=
  Dec.step (DecOne.ascii hb t) (by simpa using h)

theorem Dec.ascii_append {a : List Nat} (ha : ∀ b ∈ a, b < 128) {t o : List Nat} (h : Dec t o) :
    Dec (a ++ t) (a ++ o) := by
  induction a with
  | nil => exact h
  | cons x a ih =>
    exact Dec.cons_ascii (ha x (by simp)) (ih (fun b hb => ha b (List.mem_cons_of_mem _ hb)))

/-- On byte input `Dec` is the specification `Lossy`. -/
theorem Dec.toLossy {bs out : List Nat} (h : Dec bs out) (hb : IsBytes bs) : Lossy bs out := by
  induction h with
  | nil => exact Lossy.nil
  | @step b t n v out h1 _ ih =>
    have hs := decodeCont_spec hb
    have hl := ih (hb.tail.drop n)
    rcases h1 with h1 | ⟨h1, rfl⟩
    · rw [h1] at hs
      exact Lossy.step (r := some v) (by simp) hs (by simpa using hl)
    · rw [h1] at hs
      exact Lossy.step (r := none) (by simp) hs (by simpa using hl)

/-- One decoded character in front of a line: the step only depends on the bytes
    up to the next ASCII byte, so it can be replayed over a different tail. -/
theorem Dec.step_line {b : Nat} {t : List Nat} {n v x : Nat} {content tail tail' o : List Nat}
    (h1 : DecOne b t n v) (hx : x < 128) (ht : t.drop n = content ++ x :: tail)
    (hd : Dec (content ++ x :: tail') o) :
    Dec (b :: (t.take n ++ content ++ x :: tail')) (v :: o) := by
  have hn := h1.le
  have hsplit : t = (t.take n ++ content) ++ x :: tail := by
    rw [List.append_assoc, ← ht, List.take_append_drop]
  rw [hsplit, DecOne.append_ascii_iff hx] at h1
  have h2 := (DecOne.append_ascii_iff hx tail').mpr h1
  refine Dec.step h2 ?_
  have : (t.take n ++ content ++ x :: tail').drop n = content ++ x :: tail' := by
    rw [List.append_assoc]
    exact List.drop_left' (by simp [List.length_take]; omega)
  rw [this]
  exact hd

/-- `eat_any_char`, exposed as one `DecOne` step. -/
theorem eatAnyChar_dec {p : Nat} {rest : List Nat} {r : CharRes} {c1 : Cur}
    (h : eatAnyChar ⟨p, rest⟩ = .some r c1) :
    ∃ b t n, rest = b :: t ∧ DecOne b t n r.orRepl ∧ c1 = ⟨p + 1 + n, t.drop n⟩ := by
  cases rest with
  | nil => simp [eatAnyChar, Cur.eatAnyByte] at h
  | cons b t =>
    simp only [eatAnyChar, Cur.eatAnyByte, eatContAnyChar] at h
    cases hd : decodeCont b t with
    | chr n c =>
      rw [hd] at h
      simp only [ContChar.some.injEq, AnyChar.some.injEq] at h
      obtain ⟨rfl, rfl⟩ := h
      exact ⟨b, t, n, rfl, Or.inl hd, rfl⟩
    | bad n =>
      rw [hd] at h
      simp only [ContChar.some.injEq, AnyChar.some.injEq] at h
      obtain ⟨rfl, rfl⟩ := h
      exact ⟨b, t, n, rfl, Or.inr ⟨hd, rfl⟩, rfl⟩
    | panic => rw [hd] at h; simp at h

end Rsj.Lexer
