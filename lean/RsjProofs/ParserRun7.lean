/-
  C15 print/parse, part 7: the statements proved by induction on fragment trees, and the
  generic derivations between them.
-/
import RsjProofs.ParserRun6
namespace Rsj.Parser

section
variable {toks : List Token} (pe : PState toks → Except (Err toks) (Expr × PState toks)) (R : Nat)

/-- a token after which an expression cannot continue -/
def StopTok (tk : TokKind) : Prop := NotSuffixStart tk ∧ ∀ j : BinKind, NoOp j tk

/-- `pe` parses the bracketed subexpression `i` when fewer than `R` tokens remain -/
def Handles (i : Expr) : Prop :=
  ∀ (st : PState toks) (tk : TokKind) (T : List TokKind), st.kinds = P i 0 ++ tk :: T →
    st.kinds.length < R → StopTok tk →
    ∃ i' st', pe st = .ok (i', st') ∧ i'.erase = i.erase ∧ st'.kinds = tk :: T

/-- fragment trees all of whose bracketed subexpressions satisfy `Q` -/
inductive Br (Q : Expr → Prop) : Expr → Prop
  | null (sp) : Br Q (.null sp)
  | bool (b sp) : Br Q (.bool b sp)
  | selfObj (sp) : Br Q (.selfObj sp)
  | dollar (sp) : Br Q (.dollar sp)
  | str (s sp) : Br Q (.str s sp)
  | textBlock (s sp) : Br Q (.textBlock s sp)
  | number (n sp) : Br Q (.number n sp)
  | ident (i sp) : Br Q (.ident i sp)
  | superField (ssp name sp) : Br Q (.superField ssp name sp)
  | superIndex {i} (ssp sp) : Frag i → Q i → Br Q (.superIndex ssp i sp)
  | paren {e} (sp) : Br Q e → Br Q (.paren e sp)
  | unary {e} (op sp) : Br Q e → Br Q (.unary op e sp)
  | binary {l r} (op sp) : Br Q l → Br Q r → Br Q (.binary l op r sp)
  | field {e} (name sp) : Br Q e → Br Q (.field e name sp)
  | index {e i} (sp) : Br Q e → Frag i → Q i → Br Q (.index e i sp)
  | inSuper {e} (ssp sp) : Br Q e → Br Q (.inSuper e ssp sp)
  | call {f} (args ts sp) : Br Q f → (∀ a ∈ args, Frag a.expr ∧ Q a.expr) → Br Q (.call f args ts sp)

omit pe R in
theorem Br.frag {Q : Expr → Prop} {e : Expr} (h : Br Q e) : Frag e := by
  induction h with
  | null sp => exact .null sp
  | bool b sp => exact .bool b sp
  | selfObj sp => exact .selfObj sp
  | dollar sp => exact .dollar sp
  | str s sp => exact .str s sp
  | textBlock s sp => exact .textBlock s sp
  | number n sp => exact .number n sp
  | ident i sp => exact .ident i sp
  | superField ssp name sp => exact .superField ssp name sp
  | superIndex ssp sp hi _ => exact .superIndex ssp sp hi
  | paren sp _ ih => exact .paren sp ih
  | unary op sp _ ih => exact .unary op sp ih
  | binary op sp _ _ ihl ihr => exact .binary op sp ihl ihr
  | field name sp _ ih => exact .field name sp ih
  | index sp _ hi _ ih => exact .index sp ih hi
  | inSuper ssp sp _ ih => exact .inSuper ssp sp ih
  | call args ts sp _ ha ih => exact .call args ts sp ih (fun a hm => (ha a hm).1)

/-- head parse: `State::Primary` on the tokens of the head of `t` -/
def HDs (t : Expr) : Prop :=
  ∀ (S : List StackItem) (st : PState toks) (y : TokKind) (Y : List TokKind),
    st.kinds = P (headOf t) suffixPrec ++ y :: Y → st.kinds.length ≤ R →
    ∃ h' st1 n, h'.erase = (headOf t).erase ∧ st1.kinds = y :: Y ∧
      n + 38 ≤ 40 * (P (headOf t) suffixPrec).length ∧
      Reach pe (R + 2) (.suffix :: S) .primary st n (.suffix :: S) (.parsed h') st1

/-- postfix loop on the postfix tokens of `t` -/
def SLs (t : Expr) : Prop :=
  ∀ (lhs : Expr) (st : PState toks) (y : TokKind) (Y : List TokKind), lhs.erase = (headOf t).erase →
    st.kinds = sufToks t ++ y :: Y → st.kinds.length ≤ R → y ≠ sim .Tailstrict →
    ∃ t' st2, t'.erase = t.erase ∧ st2.kinds = y :: Y ∧
      ∀ f, st.kinds.length + 1 ≤ f →
        ∃ f', st2.kinds.length + 1 ≤ f' ∧ parseSuffixExpr pe f lhs st = parseSuffixExpr pe f' t' st2

/-- `t` printed at postfix level, from `State::Primary` (with the `Suffix` item on the stack) -/
def L11s (t : Expr) : Prop :=
  ∀ (S : List StackItem) (st : PState toks) (tk : TokKind) (T : List TokKind),
    st.kinds = P t suffixPrec ++ tk :: T → st.kinds.length ≤ R → NotSuffixStart tk →
    ∃ t' st' n, t'.erase = t.erase ∧ st'.kinds = tk :: T ∧ n + 37 ≤ 40 * (P t suffixPrec).length ∧
      Reach pe (R + 2) (.suffix :: S) .primary st n S (.parsed t') st'

/-- `t` printed at unary level, from `State::Unary` -/
def L10s (t : Expr) : Prop :=
  ∀ (S : List StackItem) (st : PState toks) (tk : TokKind) (T : List TokKind),
    st.kinds = P t unaryPrec ++ tk :: T → st.kinds.length ≤ R → NotSuffixStart tk →
    ∃ t' st' n, t'.erase = t.erase ∧ st'.kinds = tk :: T ∧ n + 36 ≤ 40 * (P t unaryPrec).length ∧
      Reach pe (R + 2) S .unary st n S (.parsed t') st'

/-- `t` printed at the level of kind `p`, from `State::Binary(c)`: the machine arrives at
    `State::BinaryRhs(p, t')` — about to try the operators of level `p` -/
def LQat (t : Expr) (p : BinKind) : Prop :=
  ∀ (c : BinKind) (S : List StackItem) (st : PState toks) (tk : TokKind) (T : List TokKind),
    c.prec ≤ p.prec → st.kinds = P t p.prec ++ tk :: T → st.kinds.length ≤ R → NotSuffixStart tk →
    NoOpAbove p.prec tk →
    ∃ S' t' st' n, Below c p S S' ∧ t'.erase = t.erase ∧ st'.kinds = tk :: T ∧
      n + 7 ≤ 40 * (P t p.prec).length ∧
      Reach pe (R + 2) S (.binary c) st n S' (.binaryRhs p t') st'

omit pe R in
theorem kinds_length_le {st : PState toks} {a : List TokKind} {b : List TokKind} (h : st.kinds = a ++ b) :
    b.length ≤ st.kinds.length := by rw [h]; simp

/-- postfix level = head, then the postfix loop -/
theorem L11_of {t : Expr} (ht : Frag t) (hd : HDs pe R t) (sl : SLs pe R t) : L11s pe R t := by
  intro S st tk T hk hR hns
  rw [P_split ht, List.append_assoc] at hk
  obtain ⟨y, Y, hy⟩ : ∃ y Y, sufToks t ++ tk :: T = y :: Y := by
    cases hs : sufToks t with
    | nil => exact ⟨tk, T, rfl⟩
    | cons a l => exact ⟨a, l ++ tk :: T, rfl⟩
  rw [hy] at hk
  obtain ⟨h', st1, n, he, hk1, hn, hr⟩ := hd S st y Y hk hR
  rw [← hy] at hk1
  have hR1 : st1.kinds.length ≤ R := by
    have : st1.kinds.length ≤ st.kinds.length := by rw [hk1, hk, hy]; simp
    omega
  obtain ⟨t', st2, het, hk2, hsl⟩ := sl h' st1 tk T he hk1 hR1 hns.2.2.2.2
  obtain ⟨st3, hk3, hdone⟩ := suffix_done pe t' (st := st2) (by rw [cur_kind_of_kinds hk2]; exact hns)
  refine ⟨t', st3, n + 1, het, by rw [hk3, hk2], ?_, ?_⟩
  · rw [P_split ht, List.length_append]; omega
  · refine Reach.trans pe hr (Reach.parsed pe ?_)
    intro fuel hf
    obtain ⟨f', hf', heq⟩ := hsl fuel (by omega)
    obtain ⟨f'', rfl⟩ : ∃ f'', f' = f'' + 1 := ⟨f' - 1, by omega⟩
    unfold parsedStep
    rw [heq, hdone f'']
    rfl

/-- unary level for a tree that is not a bare unary operation -/
theorem L10_of_L11 {t : Expr} (ht : Frag t)
    (hP : P t unaryPrec = P t suffixPrec) (h11 : L11s pe R t) : L10s pe R t := by
  intro S st tk T hk hR hns
  rw [hP] at hk ⊢
  have hhead := (first_tok ht suffixPrec).2 (by decide) (Or.inr (by decide))
  have hprim : PrimStart st.cur.kind := by
    cases hpt : P t suffixPrec with
    | nil => rw [hpt] at hhead; exact hhead.elim
    | cons a l =>
      rw [hpt] at hk hhead
      rw [cur_kind_of_kinds hk]
      exact hhead.1
  obtain ⟨st1, hstep, hk1⟩ := unaryStep_miss S hprim
  obtain ⟨t', st', n, het, hk', hn, hr⟩ := h11 S st1 tk T (by rw [hk1]; exact hk) (by rw [hk1]; exact hR) hns
  exact ⟨t', st', 1 + n, het, hk', by omega, Reach.trans pe (Reach.unary pe hstep) hr⟩

/-- binary level `p` for a tree printed there exactly as at unary level -/
theorem LQat_of_L10 {t : Expr} (p : BinKind) (hP : P t p.prec = P t unaryPrec) (h10 : L10s pe R t) :
    LQat pe R t p := by
  intro c S st tk T hcp hk hR hns hno
  rw [hP] at hk ⊢
  obtain ⟨top, S9, htop, hchain, hr1⟩ := reach_unary pe (R + 2) c S st (9 - c.prec) c S
    (by have := prec_lt c; omega) (Or.inl ⟨rfl, rfl⟩)
  obtain ⟨t', st1, n, het, hk1, hn, hr2⟩ := h10 S9 st tk T hk hR hns
  obtain ⟨S8, rfl, hb8⟩ := hchain.pop
  have hr3 : Reach pe (R + 2) (.binaryLhs top :: S8) (.parsed t') st1 1 S8 (.binaryRhs top t') st1 :=
    Reach.parsed pe (fun _ _ => rfl)
  obtain ⟨S', st2, hb, hk2, hr4⟩ := reach_down pe (R + 2) c p S t' (9 - p.prec) top S8 st1
    (by have := prec_last htop; have := prec_lt p; omega) hb8 hcp
    (by rw [cur_kind_of_kinds hk1]; exact hno)
  refine ⟨S', t', st2, (9 - c.prec + 1) + n + 1 + 2 * (9 - p.prec), hb, het, by rw [hk2, hk1], ?_, ?_⟩
  · have := prec_lt c; have := prec_lt p; omega
  · exact Reach.trans pe (Reach.trans pe (Reach.trans pe hr1 hr2) hr3) hr4


omit pe R in
theorem noOp_of_not_binop {tk : TokKind} (h : ∀ k : STok, tk = .simple k →
    k ≠ .PipePipe ∧ k ≠ .AmpAmp ∧ k ≠ .Pipe ∧ k ≠ .Hat ∧ k ≠ .Amp ∧ k ≠ .EqEq ∧ k ≠ .ExclamEq ∧ k ≠ .Lt ∧
    k ≠ .LtEq ∧ k ≠ .Gt ∧ k ≠ .GtEq ∧ k ≠ .In ∧ k ≠ .LtLt ∧ k ≠ .GtGt ∧ k ≠ .Plus ∧ k ≠ .Minus ∧
    k ≠ .Asterisk ∧ k ≠ .Slash ∧ k ≠ .Percent) : ∀ j : BinKind, NoOp j tk := by
  intro j x hx heq
  obtain ⟨h1, h2, h3, h4, h5, h6, h7, h8, h9, h10, h11, h12, h13, h14, h15, h16, h17, h18, h19⟩ := h x.1 heq
  cases j <;> simp only [BinKind.ops, List.mem_cons, List.mem_nil_iff, or_false] at hx <;>
    rcases hx with rfl | rfl | rfl | rfl | rfl <;> simp_all

omit pe R in
theorem stopTok_rparen : StopTok (sim .RightParen) :=
  ⟨by simp [NotSuffixStart, sim], noOp_of_not_binop (by intro k hk; simp only [sim, TokKind.simple.injEq] at hk; subst hk; decide)⟩

omit pe R in
theorem stopTok_rbracket : StopTok (sim .RightBracket) :=
  ⟨by simp [NotSuffixStart, sim], noOp_of_not_binop (by intro k hk; simp only [sim, TokKind.simple.injEq] at hk; subst hk; decide)⟩

omit pe R in
theorem stopTok_eof : StopTok .eof :=
  ⟨by simp [NotSuffixStart, sim], noOp_of_not_binop (by intro k hk; cases hk)⟩

omit pe R in
theorem Below_self {c : BinKind} {S S' : List StackItem} (h : Below c c S S') : S' = S := by
  rcases h with ⟨_, h⟩ | ⟨j, hn, hc⟩
  · exact h
  · have := prec_next hn; have := hc.prec_le; omega

omit pe R in
theorem initKind_prec : initKind.prec = 0 := by decide

/-- the head `( inner )` -/
theorem paren_head {inner : Expr} (hin : Frag inner) (LQ0 : LQat pe R inner initKind)
    (S : List StackItem) (st : PState toks) (y : TokKind) (Y : List TokKind)
    (hk : st.kinds = parens (P inner 0) ++ y :: Y) (hR : st.kinds.length ≤ R) :
    ∃ h' st1 n, h'.erase = inner.erase ∧ st1.kinds = y :: Y ∧
      n + 38 ≤ 40 * (parens (P inner 0)).length ∧
      Reach pe (R + 2) (.suffix :: S) .primary st n (.suffix :: S) (.parsed h') st1 := by
  obtain ⟨a, l, hal⟩ : ∃ a l, P inner 0 = a :: l := by
    have := (first_tok hin 0).1
    cases hp : P inner 0 with
    | nil => rw [hp] at this; exact this.elim
    | cons a l => exact ⟨a, l, rfl⟩
  have hk0 : st.kinds = sim .LeftParen :: a :: (l ++ sim .RightParen :: y :: Y) := by
    rw [hk, parens_eq, hal]; simp
  obtain ⟨st1, hk1, hprim⟩ := primary_paren pe (.suffix :: S) hk0
  have hk1' : st1.kinds = P inner initKind.prec ++ sim .RightParen :: y :: Y := by
    rw [hk1, initKind_prec, hal]; simp
  have hlen1 : st1.kinds.length ≤ R := by
    have : st1.kinds.length ≤ st.kinds.length := by rw [hk1, hk0]; simp
    omega
  obtain ⟨S', t', st2, n, hb, het, hk2, hn, hr⟩ := LQ0 initKind (.paren st.cur.span :: .suffix :: S) st1
    (sim .RightParen) (y :: Y) (Nat.le_refl _) hk1' hlen1 stopTok_rparen.1
    (fun j _ => stopTok_rparen.2 j)
  have := Below_self hb
  subst this
  obtain ⟨st3, hstep, hk3⟩ := binaryRhs_miss (k := initKind) t' (.paren st.cur.span :: .suffix :: S) (st := st2)
    (by rw [cur_kind_of_kinds hk2]; exact stopTok_rparen.2 _)
  obtain ⟨st4, he4, hk4⟩ := expectSimple_hit (st := st3) (k := .RightParen) true (by rw [hk3, hk2]; rfl)
  refine ⟨.paren t' (surround st.cur.span st3.cur.span), st4, 1 + n + 1 + 1, ?_, hk4, ?_, ?_⟩
  · simp only [Expr.erase]; exact het
  · rw [initKind_prec] at hn
    rw [parens_eq]; simp only [List.length_cons, List.length_append, List.length_nil]
    omega
  · refine Reach.trans pe (Reach.trans pe (Reach.trans pe (Reach.primary pe (fun f _ => hprim f)) hr)
      (Reach.binaryRhs pe hstep)) (Reach.parsed pe ?_)
    intro fuel _
    unfold parsedStep
    rw [he4]; rfl

end
end Rsj.Parser
