/-
  C08 on the evaluator model, part 4: the task `equals` on deeply evaluated values computes
  `structEq` of the comparison model (`RsjModel/Compare.lean`) on their abstractions.
-/
import RsjProofs.EvalCompareStep
set_option linter.unusedSectionVars false
namespace Rsj.Eval.Cmp
open Rsj.Core Rsj.Eval
open Rsj.Compare (structEq eqList eqFields lexCompare cmpThunks)

variable [FloatLaws]

/-! ### types -/

/-- the `EvalErrorValueType` of a value -/
def tyOf : Value → Compare.Ty
  | .null => .null | .bool _ => .bool | .num _ => .number | .str _ => .string
  | .arr _ => .array | .obj _ => .object | .func _ => .function

theorem abs_ty (st : St) (h : Nat) (v : Value) : (absVal st h v).ty = tyOf v := by
  cases h <;> cases v <;> first | rfl | skip
  rename_i h o
  show Compare.Value.ty (match st.objs[o]? with | some ob => _ | none => _) = _
  cases st.objs[o]? <;> rfl

theorem typeName_tyOf (v : Value) : typeName v = Compare.showTy (tyOf v) := by
  cases v <;> rfl

theorem structEq_of_ty_ne {x y : CV} (h : x.ty ≠ y.ty) : structEq x y = .ok false := by
  cases x <;> cases y <;> first | rfl | exact absurd rfl h

theorem eqFlat_of_ty_ne {a b : Value} (h : tyOf a ≠ tyOf b) :
    Flat a b ∧ eqFlat a b = pure (.bool false) := by
  cases a <;> cases b <;> first | exact ⟨trivial, rfl⟩ | exact absurd rfl h

/-! ### what the recursive calls must do -/

/-- Assumptions on the recursive-call function `rec` for values of height `H`: forcing an evaluated
    thunk returns its value, the assertions of a checked object are not run again, and `equals` one
    level down computes `structEq`. -/
structure RecEq (cfg : Cfg) (rec : Task → M Value) (st : St) (H : Nat) : Prop where
  force : 0 < H → ∀ t v d, st.thunks[t]? = some (.done v) → Ret (rec (.force t d)) st (.ok v)
  asserts : 0 < H → ∀ o ob d, st.objs[o]? = some ob → ob.assertsChecked = true →
    Ret (rec (.asserts o d)) st (.ok .null)
  equals : ∀ h, H = h + 1 → ∀ a b d, Evald st h a → Evald st h b → d + h ≤ cfg.maxStack →
    Ret (rec (.equals a b d)) st (outB (structEq (absVal st h a) (absVal st h b)))

/-! ### the loops -/

theorem eqArrLoop_ret {cfg : Cfg} {rec : Task → M Value} {st : St} {h : Nat} (R : RecEq cfg rec st (h + 1))
    (d : Nat) (hd : d + (h + 1) ≤ cfg.maxStack) :
    ∀ xs ys : List TId,
      (∀ t ∈ xs, ∃ w, st.thunks[t]? = some (.done w) ∧ Evald st h w) →
      (∀ t ∈ ys, ∃ w, st.thunks[t]? = some (.done w) ∧ Evald st h w) →
      Ret (eqArrLoop cfg rec d (xs.zip ys)) st
        (outB (eqList (xs.map (absThunkWith (absVal st h) st)) (ys.map (absThunkWith (absVal st h) st)))) := by
  intro xs
  induction xs with
  | nil =>
    intro ys _ _
    rw [List.zip_nil_left, eqArrLoop_nil, List.map_nil, eqList]
    exact Ret.pure _ _
  | cons x xs ih =>
    intro ys hx hy
    cases ys with
    | nil =>
      rw [List.zip_nil_right, eqArrLoop_nil, List.map_nil, List.map_cons, eqList]
      exact Ret.pure _ _
    | cons y ys =>
      obtain ⟨wx, hwx, ewx⟩ := hx x (List.mem_cons_self ..)
      obtain ⟨wy, hwy, ewy⟩ := hy y (List.mem_cons_self ..)
      have ih' := ih ys (fun t ht => hx t (List.mem_cons_of_mem _ ht))
        (fun t ht => hy t (List.mem_cons_of_mem _ ht))
      rw [List.zip_cons_cons, eqArrLoop_cons, List.map_cons, List.map_cons, absThunk_done hwx,
        absThunk_done hwy, eqList]
      refine Ret.bind_ok (Ret_checkDepth (by omega)) ?_
      refine Ret.bind_ok (R.force (Nat.succ_pos _) x wx _ hwx) ?_
      refine Ret.bind_ok (R.force (Nat.succ_pos _) y wy _ hwy) ?_
      have he := R.equals h rfl wx wy (d + 1) ewx ewy (by omega)
      cases hs : structEq (absVal st h wx) (absVal st h wy) with
      | error e =>
        rw [hs] at he
        exact Ret.bind_err he
      | ok r =>
        rw [hs] at he
        cases r with
        | true => exact Ret.bind_ok he ih'
        | false => exact Ret.bind_ok he (Ret.pure _ _)

theorem eqObjField_ret {cfg : Cfg} {rec : Task → M Value} {st : St} {h : Nat} (R : RecEq cfg rec st (h + 1))
    (d : Nat) (hd : d + (h + 1) ≤ cfg.maxStack) {x y : OId} {obx oby : Obj}
    (hox : st.objs[x]? = some obx) (hoy : st.objs[y]? = some oby) (name : String)
    (hfx : ∃ li f t w, findField obx 0 name = some (li, f) ∧ f.thunk = some t ∧
      st.thunks[t]? = some (.done w) ∧ Evald st h w)
    (hfy : ∃ li f t w, findField oby 0 name = some (li, f) ∧ f.thunk = some t ∧
      st.thunks[t]? = some (.done w) ∧ Evald st h w)
    (k : M Value) (xs ys : List CT) (hk : Ret k st (outB (eqList xs ys))) :
    Ret (eqObjField rec d x y name k) st
      (outB (eqList (absFieldWith (absVal st h) st obx name :: xs)
        (absFieldWith (absVal st h) st oby name :: ys))) := by
  obtain ⟨lx, fx, tx, wx, a1, a2, a3, a4⟩ := hfx
  obtain ⟨ly, fy, ty, wy, b1, b2, b3, b4⟩ := hfy
  rw [absField_done a1 a2 a3, absField_done b1 b2 b3, eqList]
  unfold eqObjField
  refine Ret.bind_ok (Ret_fieldThunk hox a1 a2) ?_
  refine Ret.bind_ok (Ret_fieldThunk hoy b1 b2) ?_
  refine Ret.bind_ok (R.force (Nat.succ_pos _) tx wx _ a3) ?_
  refine Ret.bind_ok (R.force (Nat.succ_pos _) ty wy _ b3) ?_
  have he := R.equals h rfl wx wy (d + 1) a4 b4 (by omega)
  cases hs : structEq (absVal st h wx) (absVal st h wy) with
  | error e =>
    rw [hs] at he
    exact Ret.bind_err he
  | ok r =>
    rw [hs] at he
    cases r with
    | true => exact Ret.bind_ok he hk
    | false => exact Ret.bind_ok he (Ret.pure _ _)

theorem eqObjLoop_ret {cfg : Cfg} {rec : Task → M Value} {st : St} {h : Nat} (R : RecEq cfg rec st (h + 1))
    (d : Nat) (hd : d + (h + 1) ≤ cfg.maxStack) {x y : OId} {obx oby : Obj}
    (hox : st.objs[x]? = some obx) (hoy : st.objs[y]? = some oby)
    (hcx : obx.assertsChecked = true) (hcy : oby.assertsChecked = true) :
    ∀ (ns : List String) (b : Bool),
      (∀ name ∈ ns, ∃ li f t w, findField obx 0 name = some (li, f) ∧ f.thunk = some t ∧
        st.thunks[t]? = some (.done w) ∧ Evald st h w) →
      (∀ name ∈ ns, ∃ li f t w, findField oby 0 name = some (li, f) ∧ f.thunk = some t ∧
        st.thunks[t]? = some (.done w) ∧ Evald st h w) →
      Ret (eqObjLoop cfg rec d x y b ns) st
        (outB (eqList (ns.map (absFieldWith (absVal st h) st obx))
          (ns.map (absFieldWith (absVal st h) st oby)))) := by
  intro ns
  induction ns with
  | nil =>
    intro b _ _
    rw [eqObjLoop_nil, List.map_nil, eqList]
    exact Ret.pure _ _
  | cons name ns ih =>
    intro b hx hy
    have ih' := ih false (fun n hn => hx n (List.mem_cons_of_mem _ hn))
      (fun n hn => hy n (List.mem_cons_of_mem _ hn))
    have hf := eqObjField_ret R d hd hox hoy name (hx name (List.mem_cons_self ..))
      (hy name (List.mem_cons_self ..)) _ _ _ ih'
    rw [eqObjLoop_cons, List.map_cons, List.map_cons]
    refine Ret.bind_ok (Ret_checkDepth (by omega)) ?_
    cases b with
    | false => exact hf
    | true =>
      show Ret (do let _ ← rec (.asserts x (d + 1)); let _ ← rec (.asserts y (d + 1)); _) st _
      refine Ret.bind_ok (R.asserts (Nat.succ_pos _) x obx _ hox hcx) ?_
      exact Ret.bind_ok (R.asserts (Nat.succ_pos _) y oby _ hoy hcy) hf

/-! ### one level -/

theorem map_pair_fst {α β} (l : List α) (F : α → β) : (l.map (fun n => (n, F n))).map (·.1) = l := by
  induction l with
  | nil => rfl
  | cons a l ih => simp only [List.map_cons, ih]

theorem map_pair_snd {α β} (l : List α) (F : α → β) : (l.map (fun n => (n, F n))).map (·.2) = l.map F := by
  induction l with
  | nil => rfl
  | cons a l ih => simp only [List.map_cons, ih]

/-- One level of `equals` on evaluated values of height at most `H`, with `H` frames to spare:
    the verdict of `structEq`. -/
theorem step_equals_ret {cfg : Cfg} {rec : Task → M Value} {st : St} {H : Nat} (R : RecEq cfg rec st H)
    (a b : Value) (d : Nat) (ha : Evald st H a) (hb : Evald st H b) (hd : d + H ≤ cfg.maxStack) :
    Ret (step cfg rec (.equals a b d)) st (outB (structEq (absVal st H a) (absVal st H b))) := by
  by_cases hty : tyOf a = tyOf b
  · cases a <;> cases b <;> try (simp [tyOf] at hty)
    case null.null =>
      rw [step_equals_flat _ _ _ _ _ (by trivial), absVal_null]
      exact Ret.pure _ _
    case bool.bool x y =>
      rw [step_equals_flat _ _ _ _ _ (by trivial), absVal_bool, absVal_bool]
      exact Ret.pure _ _
    case num.num x y =>
      rw [step_equals_flat _ _ _ _ _ (by trivial), absVal_num, absVal_num]
      show Ret (pure (Value.bool (x == y))) st (.ok (Value.bool (decide (absNum x = absNum y))))
      rw [beq_eq_decide (Evald_num ha) (Evald_num hb)]
      exact Ret.pure _ _
    case str.str x y =>
      rw [step_equals_flat _ _ _ _ _ (by trivial), absVal_str, absVal_str]
      show Ret (pure (Value.bool (x == y))) st (.ok (Value.bool (decide (absStr x = absStr y))))
      rw [str_beq]
      exact Ret.pure _ _
    case func.func x y =>
      rw [step_equals_flat _ _ _ _ _ (by trivial), absVal_func, absVal_func]
      exact Ret.throw _ _
    case arr.arr xs ys =>
      obtain ⟨h, rfl, hx⟩ := Evald_arr ha
      obtain ⟨h2, e2, hy⟩ := Evald_arr hb
      have e3 : h = h2 := by omega
      subst e3
      rw [step_equals_arr, absVal_arr, absVal_arr, Compare.structEq_arr, List.length_map, List.length_map]
      by_cases hl : xs.length = ys.length
      · have : (xs.length != ys.length) = false := by simp [hl]
        rw [this, if_pos hl]
        exact eqArrLoop_ret R d hd xs ys hx hy
      · have : (xs.length != ys.length) = true := by simp [hl]
        rw [this, if_neg hl]
        exact Ret.pure _ _
    case obj.obj x y =>
      obtain ⟨h, rfl, obx, hox, hcx, hfx⟩ := Evald_obj ha
      obtain ⟨h2, e2, oby, hoy, hcy, hfy⟩ := Evald_obj hb
      have e3 : h = h2 := by omega
      subst e3
      rw [step_equals_obj, absVal_obj st h hox, absVal_obj st h hoy, Compare.structEq_obj,
        map_pair_fst, map_pair_fst, map_pair_snd, map_pair_snd]
      refine Ret.bind_ok (Ret_getObj hox) ?_
      refine Ret.bind_ok (Ret_getObj hoy) ?_
      by_cases hl : visibleFields obx = visibleFields oby
      · have : (visibleFields obx != visibleFields oby) = false := by simp [hl]
        simp only [this, if_pos hl]
        have := eqObjLoop_ret R d hd hox hoy hcx hcy (visibleFields obx) true hfx (by rw [hl]; exact hfy)
        rw [hl] at this ⊢
        exact this
      · have : (visibleFields obx != visibleFields oby) = true := by simp [hl]
        simp only [this, if_neg hl]
        exact Ret.pure _ _
  · have h1 := eqFlat_of_ty_ne hty
    rw [step_equals_flat _ _ _ _ _ h1.1, h1.2,
      structEq_of_ty_ne (by rw [abs_ty, abs_ty]; exact hty)]
    exact Ret.pure _ _

/-! ### all levels -/

/-- **Refinement, `equals`.**  On deeply evaluated values `a`, `b` of height at most `h`, with
    `h + 1` levels of fuel and `h` frames to spare, the evaluator's `equals` returns the verdict of
    `structEq` on the abstractions (`CompareFunctions` for `.compareFunctions`), leaves the store
    unchanged (up to the ghost depth counter) and emits no trace. -/
theorem run_equals_ret (cfg : Cfg) (st : St) : ∀ (h n : Nat), h + 1 ≤ n → ∀ (a b : Value) (d : Nat),
    Evald st h a → Evald st h b → d + h ≤ cfg.maxStack →
    Ret (run cfg n (.equals a b d)) st (outB (structEq (absVal st h a) (absVal st h b))) := by
  intro h
  induction h with
  | zero =>
    intro n hn a b d ha hb hd
    obtain ⟨n, rfl⟩ : ∃ m, n = m + 1 := ⟨n - 1, by omega⟩
    rw [run_succ]
    refine Ret.bind_ok (Ret_noteDepth _ _) ?_
    refine step_equals_ret ⟨?_, ?_, ?_⟩ a b d ha hb hd
    · intro h0; omega
    · intro h0; omega
    · intro h' e; omega
  | succ h ih =>
    intro n hn a b d ha hb hd
    obtain ⟨n, rfl⟩ : ∃ m, n = m + 1 := ⟨n - 1, by omega⟩
    obtain ⟨n, rfl⟩ : ∃ m, n = m + 1 := ⟨n - 1, by omega⟩
    rw [run_succ]
    refine Ret.bind_ok (Ret_noteDepth _ _) ?_
    refine step_equals_ret ⟨?_, ?_, ?_⟩ a b d ha hb hd
    · intro _ t v d' ht; exact run_force_done cfg n d' ht
    · intro _ o ob d' ho hc; exact run_asserts_checked cfg n d' ho hc
    · intro h' e a' b' d' ha' hb' hd'
      obtain rfl : h' = h := by omega
      exact ih (n + 1) (by omega) a' b' d' ha' hb' hd'

end Rsj.Eval.Cmp
