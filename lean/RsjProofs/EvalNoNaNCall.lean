import RsjProofs.EvalNoNaNTasks
/-!
  "partial_cmp of NaN": `step` on a function call.
-/
open Std.Do
set_option mvcgen.warning false
namespace Rsj.Eval.NoNaN
open Rsj.Core Rsj.Eval Rsj.Eval.Scope

section
variable (F : FloatNaNFacts) (hp : PureNaNFree) (cfg : Cfg) (rec : Task → M Value) (hrec : RecOk3 rec)
include F hp hrec

@[spec] theorem callBlock_nn (fn : Func) (slots : List Bind.Slot) (pos named : List TId) (ts tail : Bool) (d : Nat) :
    ⦃fun st => ⌜NN st⌝⦄ callBlock cfg rec fn slots pos named ts tail d ⦃Q3 VNN⦄ := by
  have hT : True := trivial
  have hr := rec_nn F rec hrec
  have hb := builtinCall3_nn F cfg rec hrec hp
  have hc := binaryOp3_nn F cfg rec hrec
  have ho := ord_nn F
  unfold callBlock
  mvcgen [hr]
  on_invs exact inv3 (fun _ => True)
  all_goals (try clear hr hb hc)
  all_goals vcp
  all_goals oclose

@[spec] theorem callRest_nn (fn : Func) (args : Args) (ts : Bool) (env : EId) (tail : Bool) (d : Nat) :
    ⦃fun st => ⌜NN st⌝⦄ callRest cfg rec fn args ts env tail d ⦃Q3 VNN⦄ := by
  have h1 := callBlock_nn F hp cfg rec hrec
  unfold callRest
  mvcgen [h1]
  on_invs exact inv3 (fun _ => True)
  all_goals (try clear h1)
  all_goals vcp
  all_goals first | oclose | exact Good3_bindErr _

theorem eval_call_nn (ce : Expr) (args : Args) (ts : Bool) (env : EId) (tail : Bool) (d : Nat) :
    ⦃fun st => ⌜NN st⌝⦄ step cfg rec (.eval (.call ce args ts) env tail d) ⦃Q3 VNN⦄ := by
  have hr := rec_nn F rec hrec
  have h1 := callRest_nn F hp cfg rec hrec
  rw [step_call_eq]
  mvcgen [hr, h1]
  all_goals (try clear hr h1)
  all_goals vcp
  all_goals oclose

end
end Rsj.Eval.NoNaN
