/-
  C17 on the evaluator model, part 4: `std_sortSet` as a whole.  `std_sortSet` = force and check the
  arguments, then `sortSetTail` (length guards, keys, `sortSetRest` = index sort + final loop).
  With a comparison oracle for the keys in the store the key computation ends in (and an equality
  oracle for `std.set`), the result is the array of the element thunks in the order
  `resultOrder`: the pure quick sort of the indices, for `std.set` followed by `uniq` of the
  sorting model.
-/
import RsjProofs.EvalSortKeys
set_option linter.unusedVariables false
namespace Rsj.Eval.SortRef
open Rsj.Core Rsj.Eval Rsj.Eval.Cmp Rsj.Sort

/-- `std_sortSet` once the keys are there: sort the indices, then the final loop -/
def sortSetRest (rec : Task → M Value) (uniq : Bool) (items : List TId) (keys : List Value) (d1 : Nat) :
    M Value := do
  let order ← std_qsort rec keys d1 items.length (List.range items.length)
  let r ← forIn order (([] : List TId), (none : Option Value)) (uniqBody rec uniq items keys d1)
  pure (.arr r.1)

/-- `std_sortSet` after the arguments have been forced and checked -/
def sortSetTail (cfg : Cfg) (rec : Task → M Value) (uniq : Bool) (av : Value) (items : List TId)
    (kf : Option FId) (d1 : Nat) : M Value := do
  if items.length ≤ 1 then return av
  if items.length > 30 then throw (.unsupported "merge sort")
  let keys ← std_sortKeys cfg rec kf items d1
  sortSetRest rec uniq items keys d1

theorem std_sortSet_eq (cfg : Cfg) (rec : Task → M Value) (uniq : Bool) (t0 : TId) (t1 : Option TId)
    (d1 : Nat) :
    std_sortSet cfg rec uniq t0 t1 d1 = (do
      let av ← rec (.force t0 d1)
      let kv ← match t1 with
        | some t => do pure (some (← rec (.force t d1)))
        | none => pure none
      let .arr items := av | throw (.rt "InvalidStdFuncArgType" s!"{if uniq then "set" else "sort"}/0/{typeName av}")
      let kf ← match kv with
        | none => pure none
        | some (.func f) => pure (some f)
        | some v => throw (.rt "InvalidStdFuncArgType" s!"{if uniq then "set" else "sort"}/1/{typeName v}")
      sortSetTail cfg rec uniq av items kf d1) := by
  rfl

theorem sortSetTail_short (cfg : Cfg) (rec : Task → M Value) (uniq : Bool) (av : Value)
    (items : List TId) (kf : Option FId) (d1 : Nat) (h : items.length ≤ 1) :
    sortSetTail cfg rec uniq av items kf d1 = pure av := by
  unfold sortSetTail
  rw [if_pos h]

theorem sortSetTail_long (cfg : Cfg) (rec : Task → M Value) (uniq : Bool) (av : Value)
    (items : List TId) (kf : Option FId) (d1 : Nat) (h : 30 < items.length) :
    sortSetTail cfg rec uniq av items kf d1 = throw (.unsupported "merge sort") := by
  unfold sortSetTail
  rw [if_neg (by omega), if_pos h]
  rfl

theorem sortSetTail_mid (cfg : Cfg) (rec : Task → M Value) (uniq : Bool) (av : Value)
    (items : List TId) (kf : Option FId) (d1 : Nat) (h2 : 2 ≤ items.length) (h30 : items.length ≤ 30) :
    sortSetTail cfg rec uniq av items kf d1 =
      (std_sortKeys cfg rec kf items d1 >>= fun keys => sortSetRest rec uniq items keys d1) := by
  unfold sortSetTail
  rw [if_neg (by omega), if_neg (by omega)]

/-! ### the order of the result -/

/-- what the final loop selects from the sorted indices: all (`std.sort`) or `uniq` (`std.set`) -/
def selOrder (uniq : Bool) (cmp : Value → Value → Ordering) (key : Nat → Value) (order : List Nat) :
    List Nat :=
  if uniq then Sort.uniq (ordOf cmp) key order else order

/-- the indices of the result of `std.sort` / `std.set` for the cached keys `keys` -/
def resultOrder (uniq : Bool) (cmp : Value → Value → Ordering) (keys : List Value) : List Nat :=
  selOrder uniq cmp (keyAt keys) (qsortPure cmp (keyAt keys) (List.range keys.length))

section
variable {rec : Task → M Value} {st : St} {d1 : Nat} {keys : List Value} {items : List TId}
  {cmp : Value → Value → Ordering}

theorem finalLoop_ret (uniq : Bool) (E : uniq = true → EqOracle rec st d1 keys cmp) (order : List Nat)
    (h : ∀ i ∈ order, i < items.length ∧ i < keys.length) :
    ∃ p, Ret (forIn order (([] : List TId), (none : Option Value)) (uniqBody rec uniq items keys d1)) st
      (.ok ((selOrder uniq cmp (keyAt keys) order).map (itemAt items), p)) := by
  cases uniq with
  | false =>
    obtain ⟨p, hp⟩ := uniqLoop_ret_sort (rec := rec) (st := st) (d1 := d1) order [] none h
    exact ⟨p, by simpa [selOrder] using hp⟩
  | true =>
    obtain ⟨p, hp⟩ := uniqLoop_ret_set (E rfl) order [] none (fun pk e => by cases e) h
    refine ⟨p, ?_⟩
    have e : selOrder true cmp (keyAt keys) order =
        uniqFrom (fun a b => cmp a b == .eq) (keyAt keys) none order :=
      (uniqFrom_none (ordOf cmp) (keyAt keys) order).symm
    rw [e]
    simpa using hp

/-- **after the keys**: index sort + final loop, store unchanged -/
theorem sortSetRest_ret (uniq : Bool) (O : CmpOracle rec st d1 keys cmp)
    (E : uniq = true → EqOracle rec st d1 keys cmp) (hl : keys.length = items.length) :
    Ret (sortSetRest rec uniq items keys d1) st
      (.ok (.arr ((resultOrder uniq cmp keys).map (itemAt items)))) := by
  unfold sortSetRest resultOrder
  have hr : ∀ i ∈ List.range items.length, i < keys.length := by
    intro i hi; rw [hl]; exact List.mem_range.mp hi
  have hq := std_qsort_ret O items.length (List.range items.length) (by simp) hr
  rw [qsortFuel_eq_pure _ _ _ _ (by simp)] at hq
  refine Ret.bind_ok hq ?_
  rw [hl]
  have hmem : ∀ i ∈ qsortPure cmp (keyAt keys) (List.range items.length),
      i < items.length ∧ i < keys.length := by
    intro i hi
    have := List.mem_range.mp ((qsortPure_perm cmp (keyAt keys) _).subset hi)
    exact ⟨this, by omega⟩
  obtain ⟨p, hp⟩ := finalLoop_ret (rec := rec) (st := st) (d1 := d1) (items := items) uniq E _ hmem
  refine Ret.bind_ok hp ?_
  exact Ret.pure _ _

theorem Ret.run_from {α} {m : M α} {st : St} {r : Except Err α} (h : Ret m st r) (k : Nat) :
    ∃ k', m { st with deepest := k } = some (r, { st with deepest := k' }) := h k

/-- **`sortSetTail` from the key computation on**: if the keys are computed (store `s` to `s2`) and
    the oracles hold in `s2`, the tail answers the sorted array and ends in `s2` (up to the ghost
    depth counter) -/
theorem sortSetTail_run {cfg : Cfg} {s s2 : St} (uniq : Bool) (av : Value) (kf : Option FId)
    (h2 : 2 ≤ items.length) (h30 : items.length ≤ 30)
    (hk : std_sortKeys cfg rec kf items d1 s = some (.ok keys, s2))
    (O : CmpOracle rec s2 d1 keys cmp) (E : uniq = true → EqOracle rec s2 d1 keys cmp) :
    ∃ k, sortSetTail cfg rec uniq av items kf d1 s =
      some (.ok (.arr ((resultOrder uniq cmp keys).map (itemAt items))), { s2 with deepest := k }) := by
  have hl := std_sortKeys_length cfg rec kf items d1 s s2 keys hk
  obtain ⟨k, hk'⟩ := (sortSetRest_ret (items := items) uniq O E hl).run
  exact ⟨k, by rw [sortSetTail_mid cfg rec uniq av items kf d1 h2 h30, bind_eq_ok hk]; exact hk'⟩

end

/-! ### `std_sortSet` from the start, in a store that may change (general `rec`, `keyF` allowed) -/

/-- the second argument is forced (when present) and is a function: from `s` to `s'` with `kf` -/
def KfRun (rec : Task → M Value) (t1 : Option TId) (d1 : Nat) (s : St) (kf : Option FId) (s' : St) : Prop :=
  match t1 with
  | none => kf = none ∧ s' = s
  | some t => ∃ f, kf = some f ∧ rec (.force t d1) s = some (.ok (.func f), s')

/-- **`std_sortSet`, general form**: the array argument evaluates to `items` (store `st` to `s1`),
    `keyF` (if given) to a function (`s1` to `s1'`), the keys are computed (`s1'` to `s2`), the oracles
    hold in `s2`: the answer is the array of the element thunks in the order `resultOrder`, in `s2`. -/
theorem std_sortSet_run {cfg : Cfg} {rec : Task → M Value} {d1 : Nat} {keys : List Value}
    {items : List TId} {cmp : Value → Value → Ordering} {st s1 s1' s2 : St} (uniq : Bool) (t0 : TId)
    (t1 : Option TId) (kf : Option FId)
    (h0 : rec (.force t0 d1) st = some (.ok (.arr items), s1))
    (h1 : KfRun rec t1 d1 s1 kf s1')
    (h2 : 2 ≤ items.length) (h30 : items.length ≤ 30)
    (hk : std_sortKeys cfg rec kf items d1 s1' = some (.ok keys, s2))
    (O : CmpOracle rec s2 d1 keys cmp) (E : uniq = true → EqOracle rec s2 d1 keys cmp) :
    ∃ k, std_sortSet cfg rec uniq t0 t1 d1 st =
      some (.ok (.arr ((resultOrder uniq cmp keys).map (itemAt items))), { s2 with deepest := k }) := by
  obtain ⟨k, hk'⟩ := sortSetTail_run (cfg := cfg) uniq (.arr items) kf h2 h30 hk O E
  refine ⟨k, ?_⟩
  rw [std_sortSet_eq, bind_eq_ok h0]
  cases t1 with
  | none =>
    obtain ⟨rfl, rfl⟩ := h1
    exact hk'
  | some t =>
    obtain ⟨f, rfl, hf⟩ := h1
    dsimp only
    rw [bind_eq_ok hf]
    exact hk'

/-! ### the builtin arm of `step`, and the frame check of the keys -/

/-- `std.sort(e)` / `std.set(e)` / `std.sort(e, k)` / `std.set(e, k)` in `step`: the argument thunks are
    made (`newThunk`), the `Call` frame is checked, then `std_sortSet` runs at depth `d + 1` -/
theorem step_builtin_sortSet (cfg : Cfg) (rec : Task → M Value) (e k : Expr) (env : EId) (tail : Bool)
    (d : Nat) :
    step cfg rec (.eval (.builtin .sort (.cons e .nil)) env tail d) =
      (newThunk e env >>= fun t0 => checkDepth cfg (d + 1) >>= fun _ =>
        std_sortSet cfg rec false t0 none (d + 1)) ∧
    step cfg rec (.eval (.builtin .set (.cons e .nil)) env tail d) =
      (newThunk e env >>= fun t0 => checkDepth cfg (d + 1) >>= fun _ =>
        std_sortSet cfg rec true t0 none (d + 1)) ∧
    step cfg rec (.eval (.builtin .sort (.cons e (.cons k .nil))) env tail d) =
      (newThunk e env >>= fun t0 => newThunk k env >>= fun t1 => checkDepth cfg (d + 1) >>= fun _ =>
        std_sortSet cfg rec false t0 (some t1) (d + 1)) ∧
    step cfg rec (.eval (.builtin .set (.cons e (.cons k .nil))) env tail d) =
      (newThunk e env >>= fun t0 => newThunk k env >>= fun t1 => checkDepth cfg (d + 1) >>= fun _ =>
        std_sortSet cfg rec true t0 (some t1) (d + 1)) := by
  refine ⟨?_, ?_, ?_, ?_⟩ <;>
  · simp only [step, exprsList, List.forIn_cons, List.forIn_nil, bind_assoc, pure_bind, List.nil_append,
      List.cons_append]
    rfl

/-- two or more elements (at most 30) and not a frame for each above `d1`: `StackOverflow`, before any
    key is computed or compared -/
theorem std_sortSet_overflow {cfg : Cfg} {rec : Task → M Value} {st : St} {items : List TId} {d1 : Nat}
    (uniq : Bool) (t0 : TId) (h0 : Ret (rec (.force t0 d1)) st (.ok (.arr items)))
    (h2 : 2 ≤ items.length) (h30 : items.length ≤ 30) (hd : cfg.maxStack < d1 + items.length) :
    Ret (std_sortSet cfg rec uniq t0 none d1) st (.error .stackOverflow) := by
  rw [std_sortSet_eq]
  refine Ret.bind_ok h0 ?_
  refine Ret.bind_ok (Ret.pure none st) ?_
  refine Ret.bind_ok (Ret.pure none st) ?_
  show Ret (sortSetTail cfg rec uniq (.arr items) items none d1) st _
  rw [sortSetTail_mid _ _ _ _ _ _ _ h2 h30]
  exact Ret.bind_err (std_sortKeys_overflow d1 hd)

/-! ### soundness by inversion: whatever `std_sortSet` answers successfully -/

theorem throw_ne_ok {α : Type} {e : Err} {s s' : St} {a : α} : (throw e : M α) s ≠ some (.ok a, s') := by
  intro h
  rw [throw_apply] at h
  injection h with h; injection h with h; cases h

theorem throw_bind_ne_ok {α β : Type} {e : Err} {f : α → M β} {s s' : St} {b : β} :
    ((throw e : M α) >>= f) s ≠ some (.ok b, s') := by
  intro h
  obtain ⟨a, s1, h1, _⟩ := bind_ok_inv h
  exact throw_ne_ok h1

/-- **inversion**: a successful `std_sortSet` went through the stages of `std_sortSet_run` -/
theorem std_sortSet_inv {cfg : Cfg} {rec : Task → M Value} {uniq : Bool} {t0 : TId} {t1 : Option TId}
    {d1 : Nat} {st st' : St} {v : Value}
    (h : std_sortSet cfg rec uniq t0 t1 d1 st = some (.ok v, st')) :
    ∃ items s1 kf s1', rec (.force t0 d1) st = some (.ok (.arr items), s1) ∧ KfRun rec t1 d1 s1 kf s1' ∧
      sortSetTail cfg rec uniq (.arr items) items kf d1 s1' = some (.ok v, st') := by
  rw [std_sortSet_eq] at h
  obtain ⟨av, s1, h0, h⟩ := bind_ok_inv h
  cases t1 with
  | none =>
    dsimp only at h
    cases av with
    | arr items => exact ⟨items, s1, none, s1, h0, ⟨rfl, rfl⟩, h⟩
    | _ => exact (throw_ne_ok h).elim
  | some t =>
    dsimp only at h
    obtain ⟨w, s1', hw, h⟩ := bind_ok_inv h
    cases av with
    | arr items =>
      cases w with
      | func f => exact ⟨items, s1, some f, s1', h0, ⟨f, rfl, hw⟩, h⟩
      | _ => rw [pure_bind] at h; exact (throw_bind_ne_ok h).elim
    | _ => exact (throw_ne_ok h).elim

/-- **soundness**: if `std_sortSet` answers `v` at all (any `rec`, `keyF` or not), then the array
    argument evaluated to some `items` (at most 30), `keyF` to a function, and either there was at
    most one element and `v` is the array itself, or `std_sortKeys` returned as many `keys` as
    elements, ending in some `s2`, and — for every comparison `cmp` whose oracles hold for these keys
    in `s2` — `v` is the array of the element thunks in the order `resultOrder uniq cmp keys` and the
    run ended in `s2`. -/
theorem std_sortSet_sound {cfg : Cfg} {rec : Task → M Value} {uniq : Bool} {t0 : TId} {t1 : Option TId}
    {d1 : Nat} {st st' : St} {v : Value}
    (h : std_sortSet cfg rec uniq t0 t1 d1 st = some (.ok v, st')) :
    ∃ items s1 kf s1', rec (.force t0 d1) st = some (.ok (.arr items), s1) ∧ KfRun rec t1 d1 s1 kf s1' ∧
      items.length ≤ 30 ∧
      ((items.length ≤ 1 ∧ v = .arr items ∧ st' = s1') ∨
       (2 ≤ items.length ∧ ∃ keys s2, std_sortKeys cfg rec kf items d1 s1' = some (.ok keys, s2) ∧
          keys.length = items.length ∧
          ∀ cmp, CmpOracle rec s2 d1 keys cmp → (uniq = true → EqOracle rec s2 d1 keys cmp) →
            v = .arr ((resultOrder uniq cmp keys).map (itemAt items)) ∧
            ∃ k, st' = { s2 with deepest := k })) := by
  obtain ⟨items, s1, kf, s1', h0, h1, ht⟩ := std_sortSet_inv h
  refine ⟨items, s1, kf, s1', h0, h1, ?_⟩
  by_cases hs : items.length ≤ 1
  · rw [sortSetTail_short _ _ _ _ _ _ _ hs, pure_apply] at ht
    injection ht with ht; injection ht with ht1 ht2; injection ht1 with ht1
    exact ⟨by omega, .inl ⟨hs, ht1.symm, ht2.symm⟩⟩
  · by_cases hl : 30 < items.length
    · rw [sortSetTail_long _ _ _ _ _ _ _ hl] at ht
      exact (throw_ne_ok ht).elim
    · rw [sortSetTail_mid _ _ _ _ _ _ _ (by omega) (by omega)] at ht
      obtain ⟨keys, s2, hk, hr⟩ := bind_ok_inv ht
      have hlen := std_sortKeys_length cfg rec kf items d1 s1' s2 keys hk
      refine ⟨by omega, .inr ⟨by omega, keys, s2, hk, hlen, ?_⟩⟩
      intro cmp O E
      obtain ⟨k, hk'⟩ := (sortSetRest_ret (items := items) uniq O E hlen).run
      rw [hk'] at hr
      injection hr with hr; injection hr with hr1 hr2; injection hr1 with hr1
      exact ⟨hr1.symm, k, hr2.symm⟩

/-! ### `resultOrder` on short arrays; mapping indices back -/

theorem map_itemAt_range (items : List TId) : (List.range items.length).map (itemAt items) = items := by
  apply List.ext_getElem
  · simp
  · intro i h1 h2
    simp only [List.getElem_map, List.getElem_range]
    have := itemAt_lt h2
    rw [List.getElem?_eq_getElem h2] at this
    injection this with this
    exact this.symm

theorem resultOrder_short (uniq : Bool) (cmp : Value → Value → Ordering) (keys : List Value)
    (h : keys.length ≤ 1) : resultOrder uniq cmp keys = List.range keys.length := by
  unfold resultOrder selOrder qsortPure
  rw [qsortFuel_short _ _ _ (by simpa using h)]
  cases uniq with
  | false => rfl
  | true =>
    simp only [if_true]
    exact uniq_of_length_le_one (by simpa using h)

end Rsj.Eval.SortRef
