/-
  C07: "the value of every field that does not read the removed one".
  `evalAtG k` is `evalAt` instrumented to answer `none` as soon as a body
  `self.k` is forced; `evalAtG_sound` shows that an evaluation which does not
  do so is unaffected by a top layer that blocks only `k`.
-/
import RsjProofs.ObjectEval
set_option linter.unusedSimpArgs false
namespace Rsj.Object


/-! ### instrumented evaluator: does the evaluation force a body `self.k`? -/

/-- `evalBody`, answering `none` as soon as a body `self.k` is forced. -/
def evalBodyG (k : Name) (o : Obj) (rec : Nat → Name → Option (Except Err Int)) (li : Nat) :
    FExpr → Option (Except Err Int)
  | .lit c => some (.ok c)
  | .selfField f => if f = k then none else rec 0 f
  | .superField f =>
    if li + 1 = o.length then some (.error .superWithoutSuper) else rec (li + 1) f
  | .inSuper f => some (.ok (if hasField o (li + 1) f then 1 else 0))

def evalFieldG (k : Name) (o : Obj) (rec : Nat → Name → Option (Except Err Int)) (li : Nat) (n : Name)
    (plus : Bool) (e : FExpr) : Option (Except Err Int) :=
  if plus then
    match findField o (li + 1) n with
    | some _ =>
      match rec (li + 1) n with
      | none => none
      | some (.error er) => some (.error er)
      | some (.ok a) =>
        match evalBodyG k o rec li e with
        | none => none
        | some (.error er) => some (.error er)
        | some (.ok b) => some (.ok (a + b))
    | none => evalBodyG k o rec li e
  else evalBodyG k o rec li e

/-- `evalAt` with the same control flow, result `none` = "the evaluation reads
    field `k` through `self`", `some r` = "it does not, and the result is `r`". -/
def evalAtG (k : Name) (o : Obj) : Nat → List (Nat × Name) → Nat → Name → Option (Except Err Int)
  | 0, _, _, _ => some (.error .fuel)
  | fuel + 1, stack, start, n =>
    match findField o start n with
    | none => some (.error (.unknownField n))
    | some (li, _, plus, e) =>
      if (li, n) ∈ stack then some (.error .infiniteRecursion)
      else evalFieldG k o (evalAtG k o fuel ((li, n) :: stack)) li n plus e

/-- If the instrumented evaluation of a field does not read `k` through `self`
    and yields `r`, then the plain evaluation yields `r`, and so does the
    evaluation in `T :: o` for any top layer `T` that lets every name other
    than `k` through. -/
theorem evalAtG_sound (T : Layer) (o : Obj) (k : Name)
    (h0 : ∀ n, n ≠ k → findField (T :: o) 0 n = shiftRes 1 (findField o 0 n)) :
    ∀ fuel stack start n r, evalAtG k o fuel stack start n = some r →
      evalAt o fuel stack start n = r ∧
      ∀ start', (start' = start + 1 ∨ (start' = 0 ∧ start = 0 ∧ n ≠ k)) →
        evalAt (T :: o) fuel (stack.map shift1) start' n = r := by
  intro fuel
  induction fuel with
  | zero =>
    intro stack start n r h
    simp only [evalAtG, Option.some.injEq] at h
    subst h; exact ⟨rfl, fun _ _ => rfl⟩
  | succ fuel ih =>
    intro stack start n r h
    have hfind : ∀ start', (start' = start + 1 ∨ (start' = 0 ∧ start = 0 ∧ n ≠ k)) →
        findField (T :: o) start' n = shiftRes 1 (findField o start n) := by
      intro start' hrel
      rcases hrel with h | ⟨h1, h2, h3⟩
      · subst h; exact findField_cons_succ T o start n
      · subst h1; subst h2; exact h0 n h3
    simp only [evalAtG] at h
    simp only [evalAt]
    cases hf : findField o start n with
    | none =>
      rw [hf] at h; simp only [Option.some.injEq] at h; subst h
      refine ⟨rfl, fun start' hrel => ?_⟩
      rw [hfind start' hrel, hf]; rfl
    | some q =>
      obtain ⟨li, v, p, e⟩ := q
      rw [hf] at h
      simp only at h ⊢
      by_cases hin : (li, n) ∈ stack
      · simp only [hin, if_true, Option.some.injEq] at h; subst h
        refine ⟨by simp [hin], fun start' hrel => ?_⟩
        rw [hfind start' hrel, hf]; simp [shiftRes, mem_map_shift1, hin]
      · simp only [hin, if_false] at h
        have hstack : (li + 1, n) :: stack.map shift1 = ((li, n) :: stack).map shift1 := by simp [shift1]
        have ihr := ih ((li, n) :: stack)
        -- reduce the goal to a statement about `evalField`
        suffices hsuff :
            evalField o (evalAt o fuel ((li, n) :: stack)) li n p e = r ∧
            evalField (T :: o) (evalAt (T :: o) fuel (((li, n) :: stack).map shift1)) (li + 1) n p e = r by
          refine ⟨by simp only [hin, if_false]; exact hsuff.1, fun start' hrel => ?_⟩
          rw [hfind start' hrel, hf]
          simp only [shiftRes, mem_map_shift1, hin, if_false, hstack]
          exact hsuff.2
        revert h
        generalize evalAtG k o fuel ((li, n) :: stack) = recG at ihr
        generalize evalAt o fuel ((li, n) :: stack) = rec at ihr
        generalize evalAt (T :: o) fuel (((li, n) :: stack).map shift1) = rec' at ihr
        intro h
        have hS : ∀ s m x, recG s m = some x → rec s m = x ∧ rec' (s + 1) m = x :=
          fun s m x hx => ⟨(ihr s m x hx).1, (ihr s m x hx).2 (s + 1) (Or.inl rfl)⟩
        have hZ : ∀ m x, m ≠ k → recG 0 m = some x → rec' 0 m = x :=
          fun m x hm hx => (ihr 0 m x hx).2 0 (Or.inr ⟨rfl, rfl, hm⟩)
        have hbody : ∀ x, evalBodyG k o recG li e = some x →
            evalBody o rec li e = x ∧ evalBody (T :: o) rec' (li + 1) e = x := by
          intro x hx
          cases e with
          | lit c => simp only [evalBodyG, Option.some.injEq] at hx; subst hx; exact ⟨rfl, rfl⟩
          | selfField f =>
            simp only [evalBodyG] at hx
            by_cases hfk : f = k
            · simp [hfk] at hx
            · simp only [hfk, if_false] at hx
              exact ⟨(hS 0 f x hx).1, hZ f x hfk hx⟩
          | superField f =>
            simp only [evalBodyG] at hx
            simp only [evalBody, List.length_cons]
            by_cases hl : li + 1 = o.length
            · simp only [hl, if_true, Option.some.injEq] at hx; subst hx; simp [hl]
            · have : ¬ (li + 1 + 1 = o.length + 1) := by omega
              simp only [hl, if_false] at hx
              simp only [hl, this, if_false]
              exact hS _ f x hx
          | inSuper f =>
            simp only [evalBodyG, Option.some.injEq] at hx; subst hx
            constructor <;> simp [evalBody, hasField_cons_succ]
        simp only [evalFieldG] at h
        simp only [evalField, findField_cons_succ]
        cases p with
        | false => simp only [Bool.false_eq_true, if_false] at h ⊢; exact hbody r h
        | true =>
          simp only [if_true] at h ⊢
          cases hff : findField o (li + 1) n with
          | none => rw [hff] at h; simp only [shiftRes] at h ⊢; exact hbody r h
          | some w =>
            rw [hff] at h
            obtain ⟨wi, wr⟩ := w
            simp only [shiftRes] at h ⊢
            cases ha : recG (li + 1) n with
            | none => rw [ha] at h; cases h
            | some ra =>
              rw [ha] at h
              obtain ⟨h1, h2⟩ := hS _ _ _ ha
              rw [h1, h2]
              cases ra with
              | error er => simp only [Option.some.injEq] at h; subst h; exact ⟨rfl, rfl⟩
              | ok a =>
                simp only at h ⊢
                cases hb : evalBodyG k o recG li e with
                | none => rw [hb] at h; cases h
                | some rb =>
                  rw [hb] at h
                  obtain ⟨b1, b2⟩ := hbody _ hb
                  rw [b1, b2]
                  cases rb with
                  | error er => simp only [Option.some.injEq] at h; subst h; exact ⟨rfl, rfl⟩
                  | ok b => simp only [Option.some.injEq] at h; subst h; exact ⟨rfl, rfl⟩


/-! ### manifestation congruence, index arithmetic -/


theorem mapM_toOption_congr {α β : Type} (f g : α → Except Err β) (l : List α)
    (h : ∀ x, (f x).toOption = (g x).toOption) : (l.mapM f).toOption = (l.mapM g).toOption := by
  induction l with
  | nil => rfl
  | cons a l ih =>
    simp only [List.mapM_cons]
    have ha := h a
    revert ha ih
    generalize f a = x
    generalize g a = y
    generalize l.mapM f = xs
    generalize l.mapM g = ys
    intro ih ha
    cases x <;> cases y <;> cases xs <;> cases ys <;>
      simp_all [Except.toOption, bind, Except.bind, pure, Except.pure]

theorem okOf_eq_toOption (r : Except Err Int) : okOf r = r.toOption := by
  cases r <;> rfl

theorem manifest_toOption_congr {o o' : Obj} (hv : visibleFields o' = visibleFields o)
    (hf : ∀ n, okOf (fieldValue o' n) = okOf (fieldValue o n)) :
    (manifest o').toOption = (manifest o).toOption := by
  unfold manifest
  rw [hv]
  apply mapM_toOption_congr
  intro n
  have := hf n
  revert this
  generalize fieldValue o' n = x
  generalize fieldValue o n = y
  intro h
  cases x <;> cases y <;> simp_all [Except.toOption, Except.map]

theorem shiftRes_shiftRes (a b : Nat) (r : Option (Nat × Vis × Bool × FExpr)) :
    shiftRes a (shiftRes b r) = shiftRes (b + a) r := by
  cases r with
  | none => rfl
  | some q => obtain ⟨i, w⟩ := q; simp [shiftRes]; omega

end Rsj.Object
