/-
  YAML round trip with `|` block scalars, for a document that is followed by a line
  break (as `std.manifestYamlStream` and files written by the CLI frame it).
  Without the final line break YAML's clip chomping drops the last line feed of a
  `|` scalar that is the last thing in the text (`readYaml_block_no_final_nl`).

  `BlockShapeOK`, `BlockOK`: RsjProofs/YamlRoundtripS.lean; the reader on a `|`
  scalar: `readBlockScalar_block` there; the mutual induction and the common top
  level `readYaml_top`: RsjProofs/YamlRoundtripB.lean, RsjProofs/YamlRoundtrip.lean.
-/
import RsjProofs.YamlRoundtrip
namespace Rsj.Yaml
open Rsj.Json

/-- **Round trip with `|` scalars.**  The document followed by a line break is read
    back as exactly the value, for every value whose strings ending in a line feed
    have a shape that YAML's literal block scalars can express (`BlockOK`). -/
theorem readYaml_manifest_nl (iaio qk : Bool) (v : JVal) (hv : ValOK v) (hb : BlockOK v) (hk : KeysOK qk v) :
    readYaml (manifestYamlDoc iaio qk v ++ [10]) = some v := by
  refine readYaml_top iaio qk v hv hb hk _ [[]] (linesOf_manifest_nl iaio qk v hv) (Or.inr rfl) ?_
  have := needE_le iaio qk 0 false false v
  unfold manifestYamlDoc
  rw [List.length_append]
  omega

/-- with `quote_keys = true` (the default) there is no condition on the keys -/
theorem readYaml_manifest_nl_quoted (iaio : Bool) (v : JVal) (hv : ValOK v) (hb : BlockOK v) :
    readYaml (manifestYamlDoc iaio true v ++ [10]) = some v :=
  readYaml_manifest_nl iaio true v hv hb (keysOK_true v)

/-- values without `|` scalars are read back with or without the final line break -/
theorem readYaml_manifest_nl_noBlock (iaio qk : Bool) (v : JVal) (hv : ValOK v) (hb : NoBlock v)
    (hk : KeysOK qk v) : readYaml (manifestYamlDoc iaio qk v ++ [10]) = some v :=
  readYaml_manifest_nl iaio qk v hv (NoBlock.blockOK v hb) hk

/-- the final line break is needed: a `|` scalar at the end of the text loses its
    last line feed (clip chomping) -/
theorem readYaml_block_no_final_nl :
    readYaml (manifestYamlDoc false true (.str [97, 10])) = some (.str [97]) := rfl

end Rsj.Yaml

#print axioms Rsj.Yaml.readYaml_manifest_nl
