import RsjProofs.EvalScopeHelpers
/-!
  C09, run-time half: comprehension clauses (`evalSpecs`), argument binding of deferred calls
  (`bindThunkArgs`) and the computation of a pending thunk (`thunkBody`).
-/
open Std.Do
set_option mvcgen.warning false
namespace Rsj.Eval.Scope
open Rsj.Core Rsj.Eval Rsj.Analyze

/-- every binding set binds all of `ns` -/
def Cov (ns : List String) (sets : List (List (String × TId))) : Prop :=
  ∀ vars ∈ sets, ∀ n ∈ ns, n ∈ vars.map Prod.fst

theorem Cov.nil (ns : List String) : Cov ns [] := by intro v hv; cases hv

theorem Cov.append {ns : List String} {a b : List (List (String × TId))} (ha : Cov ns a) (hb : Cov ns b) :
    Cov ns (a ++ b) := by
  intro v hv
  rcases List.mem_append.1 hv with h | h
  · exact ha v h
  · exact hb v h

theorem Cov.mono {ns ns' : List String} {a : List (List (String × TId))} (h : Cov ns a)
    (hsub : ∀ n ∈ ns', n ∈ ns) : Cov ns' a :=
  fun v hv n hn => h v hv n (hsub n hn)

/-- rebinding `v` in a binding set -/
theorem cov_rebind {ns : List String} {vars : List (String × TId)} (v : String) (t : TId)
    (h : ∀ n ∈ ns, n ∈ vars.map Prod.fst) :
    Cov (v :: ns) [vars.filter (fun p => p.1 != v) ++ [(v, t)]] := by
  intro w hw n hn
  simp only [List.mem_singleton] at hw
  subst hw
  simp only [List.map_append, List.map_cons, List.map_nil, List.mem_append, List.mem_singleton]
  by_cases hnv : n = v
  · exact .inr hnv
  · left
    have hn' : n ∈ ns := by
      rcases List.mem_cons.1 hn with h' | h'
      · exact absurd h' hnv
      · exact h'
    obtain ⟨p, hp, rfl⟩ := List.mem_map.1 (h n hn')
    exact List.mem_map.2 ⟨p, List.mem_filter.2 ⟨hp, by simpa using hnv⟩, rfl⟩

theorem mem_zip_fst {α β} {l1 : List α} {l2 : List β} {pref suff : List (α × β)} {x : α × β}
    (h : l1.zip l2 = pref ++ x :: suff) : x.1 ∈ l1 := by
  have : x ∈ l1.zip l2 := by rw [h]; simp
  exact (List.of_mem_zip (a := x.1) (b := x.2) this).1

theorem cov_keep {ns : List String} {sets : List (List (String × TId))} {β} {vals : List β}
    {pref suff : List (List (String × TId) × β)} {x : List (String × TId) × β}
    {next : List (List (String × TId))} (hz : sets.zip vals = pref ++ x :: suff) (hs : Cov ns sets)
    (hn : Cov ns next) : Cov ns (next ++ [x.1]) := by
  refine hn.append ?_
  intro w hw
  simp only [List.mem_singleton] at hw
  subst hw
  exact hs _ (mem_zip_fst hz)

theorem cov_rebind' {ns : List String} {sets : List (List (String × TId))} {β} {vals : List β}
    {pref suff : List (List (String × TId) × β)} {x : List (String × TId) × β}
    {next : List (List (String × TId))} (v : String) (t : TId)
    (hz : sets.zip vals = pref ++ x :: suff) (hs : Cov ns sets)
    (hn : Cov (v :: ns) next) :
    Cov (v :: ns) (next ++ [x.1.filter (fun p => p.1 != v) ++ [(v, t)]]) :=
  hn.append (cov_rebind v t (hs _ (mem_zip_fst hz)))

theorem cov_init (v0 : String) (items : List TId) :
    Cov (v0 :: forVars []) (items.map (fun t => [(v0, t)])) := by
  intro vars hv n hn
  obtain ⟨t, _, rfl⟩ := List.mem_map.1 hv
  simpa [forVars] using hn

theorem cov_next_some {v0 v : String} {pref : List (Option String × Expr)} {cur : Option String × Expr}
    {r : List (List (String × TId))} (hc : cur.1 = some v) (h : Cov (v :: v0 :: forVars pref) r) :
    Cov (v0 :: forVars (pref ++ [cur])) r := by
  obtain ⟨c1, c2⟩ := cur
  simp only at hc
  subst hc
  apply h.mono
  intro n hn
  simp only [forVars_append, forVars, List.mem_cons, List.mem_append, List.not_mem_nil, or_false] at hn ⊢
  rcases hn with h | h | h
  · exact .inr (.inl h)
  · exact .inr (.inr h)
  · exact .inl h

theorem cov_next_none {v0 : String} {pref : List (Option String × Expr)} {cur : Option String × Expr}
    {r : List (List (String × TId))} (hc : cur.1 = none) (h : Cov (v0 :: forVars pref) r) :
    Cov (v0 :: forVars (pref ++ [cur])) r := by
  obtain ⟨c1, c2⟩ := cur
  simp only at hc
  subst hc
  apply h.mono
  intro n hn
  simpa [forVars_append, forVars] using hn

/-- the environment of one binding set types the next clause -/
theorem evalSpecs_inner {envs : Array Env} {env r : EId} {Γ : AEnv} {v0 : String} {e0 : Expr}
    {pref suff : List (Option String × Expr)} {cur : Option String × Expr} {vars : List (String × TId)}
    {d : Nat}
    (hsp : SpecsOk ((some v0, e0) :: (pref ++ cur :: suff)) Γ) (hΓ : EnvOk envs env Γ)
    (hnew : ∀ Γ Γ', EnvOk envs env Γ → (Γ'.isObj = true → Γ.isObj = true) →
      (∀ n, Γ'.has n = true → n ∈ vars.map Prod.fst ∨ Γ.has n = true) → EnvOk envs r Γ')
    (hcov : ∀ n ∈ v0 :: forVars pref, n ∈ vars.map Prod.fst) :
    TaskOk envs (.eval cur.2 r false d) := by
  simp only [SpecsOk] at hsp
  refine ⟨specEnvL pref (Γ.add [v0]), hnew Γ _ hΓ ?_ ?_, SpecsOk_mid pref cur suff _ hsp.2⟩
  · rw [isObj_specEnvL]; exact fun h => h
  · intro n hn
    rw [has_specEnvL, has_add] at hn
    rcases hn with h | h | h
    · exact .inl (hcov n (List.mem_cons_of_mem _ h))
    · exact .inl (hcov n (by simp at h; simp [h]))
    · exact .inr h

/-! ### Argument binding -/

theorem fillRest_length : ∀ (ps : List (String × Bool)) (tmp : List (Option Nat)) (rest : List Bind.Slot),
    Bind.fillRest ps tmp = .ok rest → rest.length = ps.length
  | [], _, rest, h => by simp [Bind.fillRest] at h; subst h; rfl
  | (n, hd) :: ps, tmp, rest, h => by
    unfold Bind.fillRest at h
    split at h
    · cases hr : Bind.fillRest ps tmp.tail with
      | error e => rw [hr] at h; cases h
      | ok r =>
        rw [hr] at h
        simp only [Except.map] at h
        cases h
        simp [fillRest_length ps _ r hr]
    · split at h
      · cases hr : Bind.fillRest ps tmp.tail with
        | error e => rw [hr] at h; cases h
        | ok r =>
          rw [hr] at h
          simp only [Except.map] at h
          cases h
          simp [fillRest_length ps _ r hr]
      · cases h

/-- a binding plan has one slot per parameter -/
theorem bindPlan_length {params : List (String × Bool)} {npos : Nat} {named : List String}
    {slots : List Bind.Slot} (h : Bind.bindPlan params npos named = .ok slots) :
    slots.length = params.length := by
  unfold Bind.bindPlan at h
  split at h
  · cases h
  · rename_i hle
    split at h
    · cases h
    · split at h
      · cases h
      · rename_i rest hrest
        cases h
        have := fillRest_length _ _ _ hrest
        simp [this]
        omega

/-- reading an environment that exists -/
theorem getEnv_total_spec (s : St) (e : EId) (h : ∃ x, s.envs[e]? = some x) :
    ⦃fun st => ⌜st = s⌝⦄ getEnv e
      ⦃(⟨fun r st => ⌜st = s ∧ s.envs[e]? = some r⌝, fun _ _ => ⌜False⌝, fun _ => ⌜True⌝, ()⟩ : PostCond Env PS)⦄ := by
  unfold getEnv; mvcgen
  all_goals vcprep
  all_goals simp_all

theorem mem_zip_snd {α β} {l1 : List α} {l2 : List β} {pref suff : List (α × β)} {x : α × β}
    (h : l1.zip l2 = pref ++ x :: suff) : x.2 ∈ l2 := by
  have : x ∈ l1.zip l2 := by rw [h]; simp
  exact (List.of_mem_zip (a := x.1) (b := x.2) this).2

theorem ws_default {fn : Func} {Γ : AEnv} {slots : List Bind.Slot}
    {pref suff : List (Bind.Slot × String × OptExpr)} {cur : Bind.Slot × String × OptExpr} {de : Expr}
    (hdef : ∀ p ∈ fn.params, WSOpt p.2 Γ) (hz : slots.zip fn.params = pref ++ cur :: suff)
    (hd : cur.2.2 = .some de) : WS de Γ := by
  have := hdef cur.2 (mem_zip_snd hz)
  rw [hd] at this
  simpa [WSOpt] using this

theorem any_dflt_of_mem {β} {slots : List Bind.Slot} {l2 : List β} {pref suff : List (Bind.Slot × β)}
    {cur : Bind.Slot × β} (hz : slots.zip l2 = pref ++ cur :: suff) (hd : cur.1 = .dflt) :
    (slots.any fun x => x == Bind.Slot.dflt) = true := by
  rw [List.any_eq_true]
  exact ⟨cur.1, mem_zip_fst hz, by simp [hd]⟩

theorem ext_getElem_old {h : EId} {PL : Expr → Prop} {s st : St} {hollow : Env}
    (hext : Ext h PL { s with envs := s.envs.push hollow } st) {e : EId} (he : e < s.envs.size) :
    ∃ x, st.envs[e]? = some x := by
  have : st.envs = s.envs.push hollow := hext.envs
  exact ⟨s.envs[e], by simp [this, Array.getElem?_push, Nat.ne_of_lt he, he]⟩

theorem args_length {params : List (String × OptExpr)} {npos : Nat} {named : List String}
    {slots : List Bind.Slot} {r : List TId}
    (h : Bind.bindPlan (params.map (fun p => (p.1, hasDefault p.2))) npos named = .ok slots)
    (hr : r.length = (slots.zip params).length) : r.length = params.length := by
  have := bindPlan_length h
  simp at this
  simp [hr, this]

theorem Good_bindErr (e : Bind.BindErr) : Good (bindErr e) ∧ NonPanic (bindErr e) := by
  cases e <;> simp [bindErr, Good, NonPanic]

/-- filling the environment of the default arguments -/
theorem argsBlock_close {s st : St} {fn : Func} {Γf : AEnv} {ts : List TId} {fenv : Env}
    (hI : Inv s) (hΓf : EnvOk s.envs fn.env Γf)
    (hext : Ext s.envs.size (fun e => WS e (Γf.add (fn.params.map Prod.fst)))
      { s with envs := s.envs.push { parent := none, vars := [], obj := none } } st)
    (hfenv : st.envs[fn.env]? = some fenv) (hlen : fn.params.length ≤ ts.length) :
    S s { st with envs := st.envs.setIfInBounds s.envs.size { parent := some fn.env, vars := (fn.params.map Prod.fst).zip ts, obj := fenv.obj } } ∧
    Inv { st with envs := st.envs.setIfInBounds s.envs.size { parent := some fn.env, vars := (fn.params.map Prod.fst).zip ts, obj := fenv.obj } } := by
  have hv : ∀ (fin : Env) (n : String), n ∈ (({ parent := none, vars := [], obj := none } : Env).vars).map Prod.fst → n ∈ fin.vars.map Prod.fst :=
    fun _ n hn => by simp at hn
  have hp : ({ parent := none, vars := [], obj := none } : Env).parent = none ∨
      ({ parent := none, vars := [], obj := none } : Env).parent =
        ({ parent := some fn.env, vars := (fn.params.map Prod.fst).zip ts, obj := fenv.obj } : Env).parent := .inl rfl
  have ho : ({ parent := none, vars := [], obj := none } : Env).obj.isSome = true →
      ({ parent := some fn.env, vars := (fn.params.map Prod.fst).zip ts, obj := fenv.obj } : Env).obj.isSome = true :=
    fun h => by cases h
  have hlt := hΓf.inRange
  have hfenv' : s.envs[fn.env]? = some fenv := by
    have he : st.envs = s.envs.push _ := hext.envs
    rw [he] at hfenv
    simpa [Array.getElem?_push, Nat.ne_of_lt hlt] using hfenv
  refine close_block hext (hv _) hp ho hI (by intro p hp'; cases hp'; exact hlt) (fun e he => he) ?_
  refine envOk_child (block_getElem hext) rfl (block_getElem_old hext hfenv') (fun h => h)
    (block_envOk hext (hv _) hp ho hΓf) (fun h => h) ?_
  intro n hn
  rw [has_add] at hn
  rcases hn with h | h
  · left
    show n ∈ ((fn.params.map Prod.fst).zip ts).map Prod.fst
    rw [List.map_fst_zip (by simpa using hlen)]
    exact h
  · exact .inr h


/-- the body of a closure is well scoped in the environment that binds its parameters -/
theorem call_taskOk {s0 st : St} {fn : Func} {f : Nat} {inner : EId} {ts : List TId} {tail : Bool} {d : Nat}
    (hf0 : s0.funcs[f]? = some fn) (hS : S s0 st) (hI : Inv st)
    (hnew : ∀ Γ Γ', EnvOk st.envs fn.env Γ → (Γ'.isObj = true → Γ.isObj = true) →
      (∀ n, Γ'.has n = true → n ∈ ((fn.params.map Prod.fst).zip ts).map Prod.fst ∨ Γ.has n = true) →
      EnvOk st.envs inner Γ')
    (hlen : ts.length = fn.params.length) : TaskOk st.envs (.eval fn.body inner tail d) := by
  obtain ⟨Γf, h1, _, h3⟩ := hI.g.funcs f fn (hS.funcs _ _ hf0)
  refine ⟨_, hnew Γf (Γf.add (fn.params.map Prod.fst)) h1 (fun h => h) ?_, h3⟩
  intro n hn
  rw [has_add] at hn
  rcases hn with h | h
  · left
    rw [List.map_fst_zip (by simp [hlen])]
    exact h
  · exact .inr h

section
variable (cfg : Cfg) (rec : Task → M Value) (hrec : RecOk rec)
include hrec

theorem evalSpecs_spec (s : St) (specs : List (Option String × Expr)) (env : EId) (d : Nat) (hI : Inv s)
    (hΓ : ∃ Γ, EnvOk s.envs env Γ ∧ SpecsOk specs Γ) :
    ⦃fun st => ⌜st = s⌝⦄ evalSpecs rec specs env d ⦃Q s (fun sets _ => Cov (forVars specs) sets)⦄ := by
  obtain ⟨Γ, hΓ, hsp⟩ := hΓ
  have h1 := newEnv_spec
  have hr := rec_spec rec hrec
  qstart
  unfold evalSpecs
  mvcgen [h1, hr]
  case inv1 =>
    rename_i v0 _ _ _ _ _ _ _ _ _ _
    exact ⟨fun (cur, sets) st => ⌜Inv st ∧ S s st ∧ Cov (v0 :: forVars cur.prefix) sets⌝,
      fun e st => ⌜(NonPanic e → Inv st) ∧ Good e⌝, fun _ => ⌜True⌝, ()⟩
  case inv2 => exact Qg s (fun _ _ => True)
  case inv3 =>
    rename_i v0 _ _ _ _ _ _ _ _ _ _ pref _ _ _ _ _ _ _ _ _ v _ _ _
    exact ⟨fun (cur, next) st => ⌜Inv st ∧ S s st ∧ Cov (v :: v0 :: forVars pref) next⌝,
      fun e st => ⌜(NonPanic e → Inv st) ∧ Good e⌝, fun _ => ⌜True⌝, ()⟩
  case inv4 =>
    rename_i v0 _ _ _ _ _ _ _ _ _ _ pref _ _ _ _ _ _ _ _ _ v _ _ _ _ _ _ _ _ _ _ _ _
    exact ⟨fun (cur, next) st => ⌜Inv st ∧ S s st ∧ Cov (v :: v0 :: forVars pref) next⌝,
      fun e st => ⌜(NonPanic e → Inv st) ∧ Good e⌝, fun _ => ⌜True⌝, ()⟩
  case inv5 =>
    rename_i v0 _ _ _ _ _ _ _ _ _ _ pref _ _ _ _ _ _ _ _ _ _ _ _
    exact ⟨fun (cur, next) st => ⌜Inv st ∧ S s st ∧ Cov (v0 :: forVars pref) next⌝,
      fun e st => ⌜(NonPanic e → Inv st) ∧ Good e⌝, fun _ => ⌜True⌝, ()⟩
  all_goals clear h1 hr
  all_goals vcprep
  all_goals first
    | sclose
    | (simp only [SpecsOk] at hsp; exact ⟨Γ, hΓ, hsp.1⟩)
    | (refine evalSpecs_inner hsp (S.env (by schain) _ _ hΓ) (by assumption) ?_
       rename_i hc
       exact hc _ (by simp))
    | exact ⟨by assumption, by schain, cov_rebind' _ _ (by assumption) (by assumption) (by assumption)⟩
    | exact ⟨by assumption, by schain, Cov.nil _⟩
    | exact ⟨by assumption, by schain, cov_next_some (by assumption) (by assumption)⟩
    | exact ⟨by assumption, by schain, cov_next_none (by assumption) (by assumption)⟩
    | exact ⟨by assumption, by schain, cov_init _ _⟩
    | exact ⟨by assumption, by schain, cov_keep (by assumption) (by assumption) (by assumption)⟩
omit hrec in
theorem bindThunkArgs_spec (s : St) (fn : Func) (pos : List TId) (hI : Inv s)
    (hfn : FuncOk (EnvOk s.envs) fn) :
    ⦃fun st => ⌜st = s⌝⦄ bindThunkArgs fn pos ⦃Q s (fun r _ => r.length = fn.params.length)⦄ := by
  obtain ⟨Γf, hΓf, hdef, hbody⟩ := hfn
  have h1 := allocEnv_exact
  have h2 := setEnv_exact
  have h3 := newThunk_ext (fun e => WS e (Γf.add (fn.params.map Prod.fst)))
  have h4 := getEnv_total_spec
  qstart
  unfold bindThunkArgs
  mvcgen [h1, h2, h3, h4]
  case inv1 =>
    exact ⟨fun (cur, ts) st => ⌜Ext s.envs.size (fun e => WS e (Γf.add (fn.params.map Prod.fst)))
        { s with envs := s.envs.push { parent := none, vars := [], obj := none } } st ∧
        ts.length = cur.prefix.length⌝,
      fun e _ => ⌜Good e ∧ ¬ NonPanic e⌝, fun _ => ⌜True⌝, ()⟩
  case inv2 =>
    exact ⟨fun (cur, ts) st => ⌜st = s ∧ ts.length = cur.prefix.length⌝,
      fun e _ => ⌜Good e ∧ ¬ NonPanic e⌝, fun _ => ⌜True⌝, ()⟩
  all_goals try (clear h1 h2 h3 h4)
  all_goals vcprep
  all_goals first
    | sclose
    | exact ⟨fun _ => hI, (Good_bindErr _).1⟩
    | exact ws_default hdef (by assumption) (by assumption)
    | exact ⟨by assumption, by (simp [*]; fin)⟩
    | exact ⟨by xchain, by (simp [*]; fin)⟩
    | exact ⟨Ext.refl _ _ _, rfl⟩
    | exact ext_getElem_old (by assumption) hΓf.inRange
    | exact ⟨(argsBlock_close hI hΓf (by assumption) (by assumption)
          (Nat.le_of_eq (args_length (by assumption) (by assumption)).symm)).2,
        (argsBlock_close hI hΓf (by assumption) (by assumption)
          (Nat.le_of_eq (args_length (by assumption) (by assumption)).symm)).1,
        args_length (by assumption) (by assumption)⟩
    | (econds; sclose)
    | exact ⟨rfl, by (simp [*]; fin)⟩
    | (exfalso
       have := any_dflt_of_mem (by assumption) (by assumption)
       exact absurd this (by assumption))
    | exact ⟨hI, S.refl _, args_length (by assumption) (by assumption)⟩

theorem thunkBody_spec (s : St) (p : Pending) (d : Nat) (hI : Inv s) (hp : PendOk (EnvOk s.envs) p) :
    ⦃fun st => ⌜st = s⌝⦄ thunkBody cfg rec p d ⦃Q s (fun _ _ => True)⦄ := by
  have h1 := getObjRef_spec
  have h2 := fieldThunk_spec
  have h3 := wantThunk_spec cfg rec hrec
  have h4 := binaryOp_spec cfg rec hrec
  have h5 := getFunc_spec
  have h6 := bindThunkArgs_spec
  have h7 := newEnv_spec
  have hr := rec_spec rec hrec
  qstart
  cases p with
  | expr e env =>
    unfold thunkBody; mvcgen [hr]; all_goals clear h1 h2 h3 h4 h5 h6 h7 hr
    all_goals vcprep
    all_goals first | sclose | (obtain ⟨Γ, a, b⟩ := hp; exact ⟨Γ, a, b⟩)
  | plus e field env =>
    obtain ⟨Γ, hΓ, hobj, hw⟩ := hp
    unfold thunkBody; mvcgen [h1, h2, h3, h4, hr]; all_goals clear h1 h2 h3 h4 h5 h6 h7 hr
    all_goals vcprep
    all_goals first | sclose | exact hΓ.obj hobj
  | call f args =>
    unfold thunkBody; mvcgen [h5, h6, h7, hr]; all_goals clear h1 h2 h3 h4 h5 h6 h7 hr
    all_goals vcprep
    all_goals first
      | sclose
      | exact hI.g.funcs _ _ (by assumption)
      | exact call_taskOk (by assumption) (by schain) (by assumption) (by assumption) (by assumption)
      | exact func_env_lt (by assumption) (by schain) (by assumption)
     

end
end Rsj.Eval.Scope
