import RsjProofs.EvalEmbHelpers3
/-!
  Store-embedding invariance of the builtins of the evaluator model (`std_length … std_makeArray`,
  `builtinCall`) and of the computation of a pending thunk (`thunkBody`).
-/
set_option linter.unusedVariables false
namespace Rsj.Eval
open Rsj.Core
set_option linter.unusedSectionVars false
variable [Mode]

section
variable {cfg cfg' : Cfg} [RCfg cfg cfg'] {rec rec' : Task → M Value} (hrec : RecRel rec rec')
include hrec

/-- `std.length` on related thunks: same error or the same number -/
theorem std_length_rel {ρ : Emb} {t t' : TId} (d1 : Nat) {d1' : Nat} (ht : RT ρ t t') (hd : RDep d1 d1' := by rdep) :
    MRel ρ RVal (std_length rec t d1) (std_length rec' t' d1') := by
  unfold std_length
  mbind (hrec _ _ _ (.force d1 ht)) with v v' hv
  cases hv <;> simp only []
  · exact MRel_throw rfl
  · exact MRel_throw rfl
  · exact MRel_throw rfl
  · exact MRel_pure (.num _)
  · rename_i xs ys h
    rw [h.length_eq]
    exact MRel_pure (.num _)
  · rename_i o o' ho
    mnorm
    mbind (getObj_rel ho) with ob ob' hob
    rw [visibleFields_rel hob]
    exact MRel_pure (.num _)
  · rename_i f f' hf
    mnorm
    mbind (getFunc_rel hf) with fn fn' hfn
    rw [hfn.params]
    exact MRel_pure (.num _)

/-- `std.type` on related thunks: the same type name -/
theorem std_type_rel {ρ : Emb} {t t' : TId} (d1 : Nat) {d1' : Nat} (ht : RT ρ t t') (hd : RDep d1 d1' := by rdep) :
    MRel ρ RVal (std_type rec t d1) (std_type rec' t' d1') := by
  unfold std_type
  mbind (hrec _ _ _ (.force d1 ht)) with v v' hv
  rw [typeStr_rel hv]
  exact MRel_pure (.str _)

/-- `std.trace`: the same message is logged on both sides, related results -/
theorem std_trace_rel {ρ : Emb} {t0 t0' t1 t1' : TId} (d1 : Nat) {d1' : Nat} (ht0 : RT ρ t0 t0') (ht1 : RT ρ t1 t1') (hd : RDep d1 d1' := by rdep) :
    MRel ρ RVal (std_trace rec t0 t1 d1) (std_trace rec' t0' t1' d1') := by
  unfold std_trace
  mbind (hrec _ _ _ (.force d1 ht1)) with rest rest' hrest
  mbind (hrec _ _ _ (.force d1 ht0)) with v v' hv
  cases hv <;> simp only []
  · exact MRel_throw rfl
  · exact MRel_throw rfl
  · exact MRel_throw rfl
  · mbind (pushTrace_rel _) with u u' hu
    exact MRel_pure hrest
  · exact MRel_throw rfl
  · exact MRel_throw rfl
  · exact MRel_throw rfl

/-- `std.objectHasEx` on related thunks: the same boolean -/
theorem std_objectHasEx_rel {ρ : Emb} {t0 t0' t1 t1' t2 t2' : TId} (d1 : Nat) {d1' : Nat} (ht0 : RT ρ t0 t0')
    (ht1 : RT ρ t1 t1') (ht2 : RT ρ t2 t2') (hd : RDep d1 d1' := by rdep) :
    MRel ρ RVal (std_objectHasEx rec t0 t1 t2 d1) (std_objectHasEx rec' t0' t1' t2' d1') := by
  unfold std_objectHasEx
  mbind (hrec _ _ _ (.force d1 ht0)) with ov ov' hov
  mbind (hrec _ _ _ (.force d1 ht1)) with fv fv' hfv
  mbind (hrec _ _ _ (.force d1 ht2)) with hv hv' hhv
  cases hov <;> simp only [] <;> try exact MRel_throw rfl
  rename_i o o' ho
  cases hfv <;> simp only [] <;> try exact MRel_throw rfl
  cases hhv <;> simp only [] <;> try exact MRel_throw rfl
  mbind (getObj_rel ho) with ob ob' hob
  rw [findField_isSome_rel hob, hasVisibleField_rel hob]
  exact MRel_pure (.bool _)

/-- `std.objectFieldsEx`: the same names in the same order, in freshly allocated (related) thunks -/
theorem std_objectFieldsEx_rel {ρ : Emb} {t0 t0' t1 t1' : TId} (d1 : Nat) {d1' : Nat} (ht0 : RT ρ t0 t0')
    (ht1 : RT ρ t1 t1') (hd : RDep d1 d1' := by rdep) :
    MRel ρ RVal (std_objectFieldsEx rec t0 t1 d1) (std_objectFieldsEx rec' t0' t1' d1') := by
  unfold std_objectFieldsEx
  mbind (hrec _ _ _ (.force d1 ht0)) with ov ov' hov
  mbind (hrec _ _ _ (.force d1 ht1)) with hv hv' hhv
  cases hov <;> simp only [] <;> try exact MRel_throw rfl
  rename_i o o' ho
  cases hhv <;> simp only [] <;> try exact MRel_throw rfl
  mnorm
  mbind (getObj_rel ho) with ob ob' hob
  rw [fieldsOrder_rel hob]
  refine MRel_bind (Q₁ := RList RT) ?_ ?_
  · mfor (RList RT) with acc acc' hacc n hn
    · exact .nil
    · mbind (allocThunk_rel (.done (.str n))) with t t' ht
      exact MRel_pure (.yield (hacc.snoc ht))
  · mcont out out' hout
    exact MRel_pure (.arr hout)

/-- `std.map`: one related deferred call per element (array elements are related thunks, characters equal) -/
theorem std_map_rel {ρ : Emb} {t0 t0' t1 t1' : TId} (d1 : Nat) {d1' : Nat} (ht0 : RT ρ t0 t0')
    (ht1 : RT ρ t1 t1') (hd : RDep d1 d1' := by rdep) :
    MRel ρ RVal (std_map rec t0 t1 d1) (std_map rec' t0' t1' d1') := by
  unfold std_map
  mbind (hrec _ _ _ (.force d1 ht0)) with fv fv' hfv
  mbind (hrec _ _ _ (.force d1 ht1)) with av av' hav
  cases hfv <;> simp only [] <;> try exact MRel_throw rfl
  rename_i f f' hf
  cases hav <;> simp only [] <;> try exact MRel_throw rfl
  · rename_i s
    mnorm
    refine MRel_bind (Q₁ := RList RT) ?_ ?_
    · mfor (RList RT) with acc acc' hacc c hc
      · exact .nil
      · mbind (allocThunk_rel (.done (.str (String.singleton c)))) with a a' ha
        mbind (allocThunk_rel (.pending (.call hf (.cons ha .nil)))) with t t' ht
        exact MRel_pure (.yield (hacc.snoc ht))
    · mcont out out' hout
      exact MRel_pure (.arr hout)
  · rename_i xs ys hitems
    mnorm
    refine MRel_bind (Q₁ := RList RT) ?_ ?_
    · refine MRel_forIn RT (RList RT) hitems .nil ?_
      intro ρ' hle it it' acc acc' _ _ hit hacc
      lift_hyps hle
      mbind (allocThunk_rel (.pending (.call hf (.cons hit .nil)))) with t t' ht
      exact MRel_pure (.yield (hacc.snoc ht))
    · mcont out out' hout
      exact MRel_pure (.arr hout)

/-- `std.makeArray`: related deferred calls on the indices -/
theorem std_makeArray_rel {ρ : Emb} {t0 t0' t1 t1' : TId} (d1 : Nat) {d1' : Nat} (ht0 : RT ρ t0 t0')
    (ht1 : RT ρ t1 t1') (hd : RDep d1 d1' := by rdep) :
    MRel ρ RVal (std_makeArray rec t0 t1 d1) (std_makeArray rec' t0' t1' d1') := by
  unfold std_makeArray
  mbind (hrec _ _ _ (.force d1 ht0)) with sv sv' hsv
  mbind (hrec _ _ _ (.force d1 ht1)) with fv fv' hfv
  cases hsv <;> simp only [] <;> try exact MRel_throw rfl
  rename_i n
  cases hfv <;> simp only [] <;> try exact MRel_throw rfl
  rename_i f f' hf
  cases makeArraySize n with
  | none => exact MRel_throw rfl
  | some k =>
    mnorm
    mbind (getFunc_rel hf) with fn fn' hfn
    rw [hfn.params]
    split
    · exact MRel_throw rfl
    · split
      · exact MRel_throw rfl
      · refine MRel_bind (Q₁ := RList RT) ?_ ?_
        · mfor (RList RT) with acc acc' hacc i hi
          · exact .nil
          · mbind (allocThunk_rel (.done (.num (Float.ofNat i)))) with a a' ha
            mbind (allocThunk_rel (.pending (.call hf (.cons ha .nil)))) with t t' ht
            exact MRel_pure (.yield (hacc.snoc ht))
        · mcont out out' hout
          exact MRel_pure (.arr hout)

/-- every builtin, applied to related argument thunks -/
theorem builtinCall_rel {ρ : Emb} {ts ts' : List TId} (b : Builtin) (d1 : Nat) {d1' : Nat} (hts : RList RT ρ ts ts') (hd : RDep d1 d1' := by rdep) :
    MRel ρ RVal (builtinCall rec b ts d1) (builtinCall rec' b ts' d1') := by
  cases hts with
  | nil => cases b <;> exact MRel_throw rfl
  | cons h0 hts =>
    cases hts with
    | nil =>
      cases b <;> simp only [builtinCall] <;> first
        | exact MRel_throw rfl
        | exact std_length_rel hrec d1 h0
        | exact std_type_rel hrec d1 h0
    | cons h1 hts =>
      cases hts with
      | nil =>
        cases b <;> simp only [builtinCall] <;> first
          | exact MRel_throw rfl
          | exact std_trace_rel hrec d1 h0 h1
          | exact std_objectFieldsEx_rel hrec d1 h0 h1
          | exact std_map_rel hrec d1 h0 h1
          | exact std_makeArray_rel hrec d1 h0 h1
      | cons h2 hts =>
        cases hts with
        | nil =>
          cases b <;> simp only [builtinCall] <;> first
            | exact MRel_throw rfl
            | exact std_objectHasEx_rel hrec d1 h0 h1 h2
        | cons h3 hts => cases b <;> exact MRel_throw rfl

/-- the computation of related pending thunks -/
theorem thunkBody_rel {ρ : Emb} {p p' : Pending} (d : Nat) {d' : Nat} (hp : RPending ρ p p') (hd : RDep d d' := by rdep) :
    MRel ρ RVal (thunkBody cfg rec p d) (thunkBody cfg' rec' p' d') := by
  cases hp with
  | expr e he =>
    unfold thunkBody
    exact hrec _ _ _ (.eval _ _ _ he)
  | plus e field he =>
    unfold thunkBody
    mnorm
    mbind (getObjRef_rel he) with r r' hr
    rw [hr.layer]
    mbind (fieldThunk_rel _ _ hr.obj) with ost ost' host
    cases host with
    | none =>
      simp only []
      exact hrec _ _ _ (.eval _ _ _ he)
    | some hst =>
      simp only []
      mbind (wantThunk_rel hrec d hst) with sv sv' hsv
      mbind (hrec _ _ _ (.eval e false d he)) with v v' hv
      exact binaryOp_rel hrec .add d false hsv hv
  | call hf hargs =>
    unfold thunkBody
    mnorm
    mbind (getFunc_rel hf) with fn fn' hfn
    mbind (bindThunkArgs_rel hfn hargs) with ats ats' hats
    rw [hfn.params, hfn.body]
    mbind (newEnv_rel (.some hfn.env) (RVars.zip_names _ hats)) with inner inner' hinner
    exact hrec _ _ _ (.eval _ _ _ hinner)

end
end Rsj.Eval
