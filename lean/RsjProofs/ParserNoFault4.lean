/-
  C15 / pipeline: the token list the lexer model hands to the parser model (`Pipeline.convTokens` of
  `lexAll src false`) is `TokensOk` — it ends in its only end-of-file token and its spans are
  ordered — so the parser stage of the pipeline never faults.
-/
import RsjModel.Pipeline
import RsjProofs.Lexer
import RsjProofs.ParserNoFault3
namespace Rsj.Pipeline
open Rsj.Lexer (Tiles notTrivia isTrivia)

theorem convKind_some {k : Lexer.Kind} (h1 : isTrivia k = false) :
    ∃ k', convKind k = some k' ∧ (k' = .eof ↔ k = .eof) := by
  cases k <;> first
    | (simp [isTrivia] at h1; done)
    | exact ⟨_, rfl, by simp⟩

theorem convTokens_cons_keep {t : Lexer.Token} {rest : List Lexer.Token} (h : isTrivia t.kind = false) :
    ∃ k', convKind t.kind = some k' ∧ (k' = .eof ↔ t.kind = .eof) ∧
      convTokens ((t :: rest).filter notTrivia) = ⟨k', ⟨t.start, t.stop⟩⟩ :: convTokens (rest.filter notTrivia) := by
  obtain ⟨k', hk, hiff⟩ := convKind_some h
  refine ⟨k', hk, hiff, ?_⟩
  have hn : notTrivia t = true := by simp [notTrivia, h]
  simp [hn, convTokens, convToken, hk]

theorem convTokens_cons_drop {t : Lexer.Token} {rest : List Lexer.Token} (h : isTrivia t.kind = true) :
    convTokens ((t :: rest).filter notTrivia) = convTokens (rest.filter notTrivia) := by
  have hn : notTrivia t = false := by simp [notTrivia, h]
  simp [hn]

/-- tiling token lists become `TokensOk` parser token lists -/
theorem tiles_conv {N : Nat} : ∀ {p : Nat} {ts : List Lexer.Token}, Tiles N p ts →
    Parser.EofLast (convTokens (ts.filter notTrivia)) ∧ Parser.OrdFrom p (convTokens (ts.filter notTrivia))
  | _, [], h => by simp [Tiles] at h
  | p, t :: rest, h => by
    simp only [Tiles] at h
    obtain ⟨hs, h2⟩ := h
    rcases h2 with ⟨hk, hr, hstop, _⟩ | ⟨hk, hlt, htl⟩
    · subst hr
      have htr : isTrivia t.kind = false := by rw [hk]; rfl
      obtain ⟨k', _, hiff, hc⟩ := convTokens_cons_keep (rest := []) htr
      rw [hc]
      have hk' : k' = .eof := hiff.2 hk
      subst hk'
      refine ⟨⟨[], ⟨.eof, ⟨t.start, t.stop⟩⟩, by simp [convTokens], rfl, fun t ht => by cases ht⟩, ?_⟩
      have hnil : convTokens (List.filter notTrivia ([] : List Lexer.Token)) = [] := rfl
      rw [hnil]
      exact ⟨by show p ≤ t.start; omega, by show t.start ≤ t.stop; omega, trivial⟩
    · obtain ⟨⟨body, eof, hb, hke, hall⟩, hord⟩ := tiles_conv htl
      cases htr : isTrivia t.kind with
      | true =>
        rw [convTokens_cons_drop htr]
        exact ⟨⟨body, eof, hb, hke, hall⟩, hord.mono (by omega)⟩
      | false =>
        obtain ⟨k', _, hiff, hc⟩ := convTokens_cons_keep (rest := rest) htr
        rw [hc]
        have hk' : k' ≠ .eof := fun h0 => hk (hiff.1 h0)
        refine ⟨⟨⟨k', ⟨t.start, t.stop⟩⟩ :: body, eof, by rw [hb]; rfl, hke, ?_⟩, ?_⟩
        · intro x hx
          simp only [List.mem_cons] at hx
          rcases hx with rfl | hx
          · exact hk'
          · exact hall x hx
        · exact ⟨by show p ≤ t.start; omega, by show t.start ≤ t.stop; omega, hord⟩

/-- **The lexer's output is a well-formed parser input.** -/
theorem lexed_tokensOk {src : List Nat} {ts : List Lexer.Token} (h : Lexer.lexAll src false = .ok ts) :
    Parser.TokensOk (convTokens ts) := by
  have hd : Lexer.lexAll src false = (Lexer.lexAll src true).dropTrivia := by
    unfold Lexer.lexAll
    exact Lexer.lexLoop_drop _ _ []
  rw [hd] at h
  cases ht : Lexer.lexAll src true with
  | ok ts' =>
    rw [ht] at h
    simp only [Lexer.Outcome.dropTrivia] at h
    cases h
    unfold Lexer.lexAll at ht
    obtain ⟨suf, h1, h2⟩ := Lexer.lexLoop_true_tiles _ _ _ _ ht
    simp only [List.reverse_nil, List.nil_append] at h1
    subst h1
    obtain ⟨he, ho⟩ := tiles_conv h2
    exact ⟨he, ho.spansOrdered⟩
  | err e => rw [ht] at h; simp [Lexer.Outcome.dropTrivia] at h
  | panic s => rw [ht] at h; simp [Lexer.Outcome.dropTrivia] at h
  | fuel => rw [ht] at h; simp [Lexer.Outcome.dropTrivia] at h

/-- the parser stage of the pipeline never ends in one of the parser model's fault outcomes -/
theorem front_ne_parseFault (libs : List (String × String)) (env : Analyze.AEnv) (src : List Nat)
    (f : Parser.Fault) : front libs env src ≠ .parseFault f := by
  unfold front
  cases hl : Lexer.lexAll src false with
  | err e => simp
  | panic s => simp
  | fuel => simp
  | ok toks =>
    simp only []
    rcases Parser.parse_nf (lexed_tokensOk hl).eofLast with ⟨e, hp⟩ | ⟨sp, ex, act, hp⟩
    · rw [hp]
      simp only []
      cases Lower.lowerWith libs e with
      | error le => cases le <;> simp
      | ok e' =>
        simp only []
        cases Analyze.analyze e' env with
        | error er => simp
        | ok u => simp
    · rw [hp]; simp

end Rsj.Pipeline
