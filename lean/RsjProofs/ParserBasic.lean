import RsjModel.Parser
namespace Rsj.Parser

variable {toks : List Token}

/-- Lexer-ordered spans as a `Prop` (same recursion as `spansOrdered`). -/
def Ord : List Token → Prop
  | [] => True
  | [t] => t.span.start ≤ t.span.stop
  | t :: u :: rest => t.span.start ≤ t.span.stop ∧ t.span.stop ≤ u.span.start ∧ Ord (u :: rest)

theorem ord_of_spansOrdered : ∀ l : List Token, spansOrdered l = true → Ord l
  | [], _ => trivial
  | [t], h => by simpa [spansOrdered, Ord] using h
  | t :: u :: rest, h => by
    simp only [spansOrdered, Bool.and_eq_true, decide_eq_true_eq] at h
    exact ⟨h.1.1, h.1.2, ord_of_spansOrdered (u :: rest) h.2⟩

theorem Ord.tail : ∀ {t : Token} {l : List Token}, Ord (t :: l) → Ord l
  | _, [], _ => trivial
  | _, _ :: _, h => h.2.2

theorem Ord.suffix {l : List Token} : ∀ {l' : List Token}, l <:+ l' → Ord l' → Ord l := by
  intro l' ⟨pre, hp⟩ h
  subst hp
  induction pre with
  | nil => exact h
  | cons a pre ih => exact ih (Ord.tail h)

theorem Ord.head_le : ∀ {t : Token} {l : List Token}, Ord (t :: l) → t.span.start ≤ t.span.stop
  | _, [], h => h
  | _, _ :: _, h => h.1

/-- tokens consumed so far -/
def PState.pre (st : PState toks) : List Token := toks.take (toks.length - (st.rem.length + 1))

theorem take_of_append_eq {l p s : List Token} (hp : p ++ s = l) :
    l.take (l.length - s.length) ++ s = l := by
  subst hp; simp

theorem PState.pre_append (st : PState toks) : st.pre ++ st.cur :: st.rem = toks := by
  obtain ⟨p, hp⟩ := st.suffix
  exact take_of_append_eq hp

/-- start of the current token -/
def PState.pos (st : PState toks) : Nat := st.cur.span.start
/-- end of the last consumed token (0 at the beginning) -/
def PState.prev (st : PState toks) : Nat :=
  match st.pre.getLast? with
  | some t => t.span.stop
  | none => 0

def IsStart (toks : List Token) (n : Nat) : Prop := ∃ t ∈ toks, t.span.start = n
def IsStop (toks : List Token) (n : Nat) : Prop := ∃ t ∈ toks, t.span.stop = n

theorem PState.cur_mem (st : PState toks) : st.cur ∈ toks := by
  have h := st.pre_append
  have : st.cur ∈ st.pre ++ st.cur :: st.rem := by simp
  exact (congrArg (fun l => st.cur ∈ l) h).mp this

theorem ord_last_le : ∀ (p : List Token) (c : Token) (r : List Token), Ord (p ++ c :: r) →
    ∀ t, p.getLast? = some t → t.span.stop ≤ c.span.start
  | [], _, _, _, t, h => by simp at h
  | [a], c, r, ho, t, h => by
    simp at h; subst h
    exact ho.2.1
  | a :: b :: p, c, r, ho, t, h => by
    have : (a :: b :: p).getLast? = (b :: p).getLast? := by simp [List.getLast?_cons_cons]
    rw [this] at h
    exact ord_last_le (b :: p) c r (Ord.tail ho) t h

theorem PState.prev_le_pos (hord : Ord toks) (st : PState toks) : st.prev ≤ st.pos := by
  unfold PState.prev PState.pos
  cases h : st.pre.getLast? with
  | none => simp
  | some t =>
    simp only
    have hp := st.pre_append
    have hord' : Ord (st.pre ++ st.cur :: st.rem) := (congrArg Ord hp).mpr hord
    exact ord_last_le _ _ _ hord' t h

theorem PState.pos_le_stop (hord : Ord toks) (st : PState toks) : st.pos ≤ st.cur.span.stop :=
  Ord.head_le (Ord.suffix st.suffix hord)

theorem advance_spec {st st' : PState toks} (h : st.advance = .ok st') :
    st.rem = st'.cur :: st'.rem ∧ st'.expected = [] := by
  unfold PState.advance at h
  split at h
  · cases h
  · next c r hr =>
    injection h with h
    subst h
    exact ⟨hr, rfl⟩

theorem pre_of_rem {st st' : PState toks} (h : st.rem = st'.cur :: st'.rem) :
    st'.pre = st.pre ++ [st.cur] := by
  have h1 := st.pre_append
  have h2 := st'.pre_append
  rw [h] at h1
  have : (st.pre ++ [st.cur]) ++ st'.cur :: st'.rem = st'.pre ++ st'.cur :: st'.rem := by
    rw [h2, List.append_assoc]; exact h1
  exact (List.append_cancel_right this).symm

theorem prev_of_rem {st st' : PState toks} (h : st.rem = st'.cur :: st'.rem) :
    st'.prev = st.cur.span.stop := by
  unfold PState.prev
  rw [pre_of_rem h]
  simp

end Rsj.Parser
