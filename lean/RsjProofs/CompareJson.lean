/-
  C08: the JSON value denoted by a model value, and `==` as "same JSON value".
-/
import RsjProofs.Compare
set_option linter.unusedSectionVars false
namespace Rsj.Compare

/-- JSON values: numbers in `ν` (`-0 = 0`), strings as code points, objects as their
    field lists sorted by name (the canonical form of a finite map). -/
inductive Json (ν : Type) where
  | null
  | bool (b : Bool)
  | num (n : ν)
  | str (s : List Nat)
  | arr (xs : List (Json ν))
  | obj (fs : List (String × Json ν))

section
variable {ν : Type}

mutual
/-- The JSON value a model value stands for (what manifestation would print); `none`
    when it contains a function or a failing thunk in a visible position. -/
def denote : Value ν → Option (Json ν)
  | .null => some .null
  | .bool b => some (.bool b)
  | .num n => some (.num n)
  | .str s => some (.str s)
  | .arr xs => match denoteList xs with
    | some js => some (.arr js)
    | none => none
  | .obj fs => match denoteFields fs with
    | some js => some (.obj js)
    | none => none
  | .func => none
def denoteList : List (Thunk ν) → Option (List (Json ν))
  | [] => some []
  | .fail _ :: _ => none
  | .val v :: xs =>
    match denote v, denoteList xs with
    | some j, some js => some (j :: js)
    | _, _ => none
def denoteFields : List (String × Thunk ν) → Option (List (String × Json ν))
  | [] => some []
  | (_, .fail _) :: _ => none
  | (k, .val v) :: fs =>
    match denote v, denoteFields fs with
    | some j, some js => some ((k, j) :: js)
    | _, _ => none
end

/-! ### defined ⇒ pure -/

theorem denoteList_pure {xs : List (Thunk ν)}
    (ih : ∀ v, Thunk.val v ∈ xs → ∀ j, denote v = some j → Pure v) :
    ∀ js, denoteList xs = some js → (∀ e, Thunk.fail e ∉ xs) ∧ (∀ v, Thunk.val v ∈ xs → Pure v) := by
  induction xs with
  | nil => intro js _; simp
  | cons x xs ihx =>
    intro js h
    cases x with
    | fail e => simp [denoteList] at h
    | val a =>
      simp only [denoteList] at h
      cases ha : denote a with
      | none => rw [ha] at h; simp at h
      | some j =>
        cases hxs : denoteList xs with
        | none => rw [ha, hxs] at h; simp at h
        | some js' =>
          have ⟨r1, r2⟩ := ihx (fun v hv => ih v (List.mem_cons_of_mem _ hv)) js' hxs
          constructor
          · intro e he
            rcases List.mem_cons.mp he with he | he
            · cases he
            · exact r1 e he
          · intro v hv
            rcases List.mem_cons.mp hv with hv | hv
            · cases hv; exact ih a (List.mem_cons_self ..) j ha
            · exact r2 v hv

theorem denoteFields_pure {fs : List (String × Thunk ν)}
    (ih : ∀ k v, (k, Thunk.val v) ∈ fs → ∀ j, denote v = some j → Pure v) :
    ∀ js, denoteFields fs = some js →
      (∀ k e, (k, Thunk.fail e) ∉ fs) ∧ (∀ k v, (k, Thunk.val v) ∈ fs → Pure v) := by
  induction fs with
  | nil => intro js _; simp
  | cons f fs ihf =>
    intro js h
    obtain ⟨k0, t⟩ := f
    cases t with
    | fail e => simp [denoteFields] at h
    | val a =>
      simp only [denoteFields] at h
      cases ha : denote a with
      | none => rw [ha] at h; simp at h
      | some j =>
        cases hfs : denoteFields fs with
        | none => rw [ha, hfs] at h; simp at h
        | some js' =>
          have ⟨r1, r2⟩ := ihf (fun k v hv => ih k v (List.mem_cons_of_mem _ hv)) js' hfs
          constructor
          · intro k e he
            rcases List.mem_cons.mp he with he | he
            · cases he
            · exact r1 k e he
          · intro k v hv
            rcases List.mem_cons.mp hv with hv | hv
            · cases hv; exact ih k0 a (List.mem_cons_self ..) j ha
            · exact r2 k v hv

theorem denote_pure (a : Value ν) : ∀ j, denote a = some j → Pure a := by
  induction a using Value.induct' with
  | null => intro _ _; exact .null
  | bool b => intro _ _; exact .bool b
  | num n => intro _ _; exact .num n
  | str s => intro _ _; exact .str s
  | func => intro j h; simp [denote] at h
  | arr xs ih =>
    intro j h
    simp only [denote] at h
    cases hxs : denoteList xs with
    | none => rw [hxs] at h; simp at h
    | some js =>
      have ⟨r1, r2⟩ := denoteList_pure ih js hxs
      exact .arr xs r1 r2
  | obj fs ih =>
    intro j h
    simp only [denote] at h
    cases hfs : denoteFields fs with
    | none => rw [hfs] at h; simp at h
    | some js =>
      have ⟨r1, r2⟩ := denoteFields_pure ih js hfs
      exact .obj fs r1 r2

/-! ### pure ⇒ defined -/

theorem denoteList_of_pure {xs : List (Thunk ν)} (h1 : ∀ e, Thunk.fail e ∉ xs)
    (h2 : ∀ v, Thunk.val v ∈ xs → ∃ j, denote v = some j) : ∃ js, denoteList xs = some js := by
  induction xs with
  | nil => exact ⟨[], rfl⟩
  | cons x xs ih =>
    cases x with
    | fail e => exact absurd (List.mem_cons_self ..) (h1 e)
    | val a =>
      obtain ⟨j, hj⟩ := h2 a (List.mem_cons_self ..)
      obtain ⟨js, hjs⟩ := ih (fun e he => h1 e (List.mem_cons_of_mem _ he))
        (fun v hv => h2 v (List.mem_cons_of_mem _ hv))
      exact ⟨j :: js, by simp [denoteList, hj, hjs]⟩

theorem denoteFields_of_pure {fs : List (String × Thunk ν)} (h1 : ∀ k e, (k, Thunk.fail e) ∉ fs)
    (h2 : ∀ k v, (k, Thunk.val v) ∈ fs → ∃ j, denote v = some j) :
    ∃ js, denoteFields fs = some js := by
  induction fs with
  | nil => exact ⟨[], rfl⟩
  | cons f fs ih =>
    obtain ⟨k0, t⟩ := f
    cases t with
    | fail e => exact absurd (List.mem_cons_self ..) (h1 k0 e)
    | val a =>
      obtain ⟨j, hj⟩ := h2 k0 a (List.mem_cons_self ..)
      obtain ⟨js, hjs⟩ := ih (fun k e he => h1 k e (List.mem_cons_of_mem _ he))
        (fun k v hv => h2 k v (List.mem_cons_of_mem _ hv))
      exact ⟨(k0, j) :: js, by simp [denoteFields, hj, hjs]⟩

theorem pure_denote {a : Value ν} (h : Pure a) : ∃ j, denote a = some j := by
  induction h with
  | null => exact ⟨_, rfl⟩
  | bool b => exact ⟨_, rfl⟩
  | num n => exact ⟨_, rfl⟩
  | str s => exact ⟨_, rfl⟩
  | arr xs h1 _ ih =>
    obtain ⟨js, hjs⟩ := denoteList_of_pure h1 ih
    exact ⟨.arr js, by simp [denote, hjs]⟩
  | obj fs h1 _ ih =>
    obtain ⟨js, hjs⟩ := denoteFields_of_pure h1 ih
    exact ⟨.obj js, by simp [denote, hjs]⟩

/-! ### `denote` is injective -/

theorem denoteList_inj {xs : List (Thunk ν)}
    (ih : ∀ v, Thunk.val v ∈ xs → ∀ b j, denote v = some j → denote b = some j → v = b) :
    ∀ ys js, denoteList xs = some js → denoteList ys = some js → xs = ys := by
  induction xs with
  | nil =>
    intro ys js h1 h2
    simp only [denoteList, Option.some.injEq] at h1
    subst h1
    cases ys with
    | nil => rfl
    | cons y ys =>
      cases y with
      | fail e => simp [denoteList] at h2
      | val b =>
        simp only [denoteList] at h2
        cases hb : denote b <;> cases hys : denoteList ys <;> simp [hb, hys] at h2
  | cons x xs ihx =>
    intro ys js h1 h2
    cases x with
    | fail e => simp [denoteList] at h1
    | val a =>
      simp only [denoteList] at h1
      cases ha : denote a with
      | none => rw [ha] at h1; simp at h1
      | some j =>
        cases hxs : denoteList xs with
        | none => rw [ha, hxs] at h1; simp at h1
        | some js' =>
          rw [ha, hxs] at h1
          simp only [Option.some.injEq] at h1
          subst h1
          cases ys with
          | nil => simp [denoteList] at h2
          | cons y ys =>
            cases y with
            | fail e => simp [denoteList] at h2
            | val b =>
              simp only [denoteList] at h2
              cases hb : denote b with
              | none => rw [hb] at h2; simp at h2
              | some j2 =>
                cases hys : denoteList ys with
                | none => rw [hb, hys] at h2; simp at h2
                | some js2 =>
                  rw [hb, hys] at h2
                  simp only [Option.some.injEq, List.cons.injEq] at h2
                  obtain ⟨rfl, rfl⟩ := h2
                  rw [ih a (List.mem_cons_self ..) b _ ha hb]
                  rw [ihx (fun v hv => ih v (List.mem_cons_of_mem _ hv)) ys _ hxs hys]

theorem denoteFields_inj {fs : List (String × Thunk ν)}
    (ih : ∀ k v, (k, Thunk.val v) ∈ fs → ∀ b j, denote v = some j → denote b = some j → v = b) :
    ∀ gs js, denoteFields fs = some js → denoteFields gs = some js → fs = gs := by
  induction fs with
  | nil =>
    intro gs js h1 h2
    simp only [denoteFields, Option.some.injEq] at h1
    subst h1
    cases gs with
    | nil => rfl
    | cons g gs =>
      obtain ⟨k, t⟩ := g
      cases t with
      | fail e => simp [denoteFields] at h2
      | val b =>
        simp only [denoteFields] at h2
        cases hb : denote b <;> cases hgs : denoteFields gs <;> simp [hb, hgs] at h2
  | cons f fs ihf =>
    intro gs js h1 h2
    obtain ⟨k0, t⟩ := f
    cases t with
    | fail e => simp [denoteFields] at h1
    | val a =>
      simp only [denoteFields] at h1
      cases ha : denote a with
      | none => rw [ha] at h1; simp at h1
      | some j =>
        cases hfs : denoteFields fs with
        | none => rw [ha, hfs] at h1; simp at h1
        | some js' =>
          rw [ha, hfs] at h1
          simp only [Option.some.injEq] at h1
          subst h1
          cases gs with
          | nil => simp [denoteFields] at h2
          | cons g gs =>
            obtain ⟨k1, t1⟩ := g
            cases t1 with
            | fail e => simp [denoteFields] at h2
            | val b =>
              simp only [denoteFields] at h2
              cases hb : denote b with
              | none => rw [hb] at h2; simp at h2
              | some j2 =>
                cases hgs : denoteFields gs with
                | none => rw [hb, hgs] at h2; simp at h2
                | some js2 =>
                  rw [hb, hgs] at h2
                  simp only [Option.some.injEq, List.cons.injEq, Prod.mk.injEq] at h2
                  obtain ⟨⟨rfl, rfl⟩, rfl⟩ := h2
                  rw [ih k1 a (List.mem_cons_self ..) b _ ha hb]
                  rw [ihf (fun k v hv => ih k v (List.mem_cons_of_mem _ hv)) gs _ hfs hgs]

theorem denote_inj (a : Value ν) : ∀ b j, denote a = some j → denote b = some j → a = b := by
  induction a using Value.induct' with
  | null => intro b j h1 h2; simp only [denote, Option.some.injEq] at h1; subst h1
            cases b <;> simp [denote] at h2 <;> (try rfl) <;> (split at h2 <;> simp at h2)
  | bool x => intro b j h1 h2; simp only [denote, Option.some.injEq] at h1; subst h1
              cases b <;> simp [denote] at h2 <;> (try (subst h2; rfl)) <;>
                (split at h2 <;> simp at h2)
  | num x => intro b j h1 h2; simp only [denote, Option.some.injEq] at h1; subst h1
             cases b <;> simp [denote] at h2 <;> (try (subst h2; rfl)) <;>
               (split at h2 <;> simp at h2)
  | str x => intro b j h1 h2; simp only [denote, Option.some.injEq] at h1; subst h1
             cases b <;> simp [denote] at h2 <;> (try (subst h2; rfl)) <;>
               (split at h2 <;> simp at h2)
  | func => intro b j h1; simp [denote] at h1
  | arr xs ih =>
    intro b j h1 h2
    simp only [denote] at h1
    cases hxs : denoteList xs with
    | none => rw [hxs] at h1; simp at h1
    | some js =>
      rw [hxs] at h1
      simp only [Option.some.injEq] at h1
      subst h1
      cases b with
      | arr ys =>
        simp only [denote] at h2
        cases hys : denoteList ys with
        | none => rw [hys] at h2; simp at h2
        | some js2 =>
          rw [hys] at h2
          simp only [Option.some.injEq, Json.arr.injEq] at h2
          subst h2
          rw [denoteList_inj ih ys _ hxs hys]
      | obj gs => simp only [denote] at h2; split at h2 <;> simp at h2
      | _ => simp [denote] at h2
  | obj fs ih =>
    intro b j h1 h2
    simp only [denote] at h1
    cases hfs : denoteFields fs with
    | none => rw [hfs] at h1; simp at h1
    | some js =>
      rw [hfs] at h1
      simp only [Option.some.injEq] at h1
      subst h1
      cases b with
      | obj gs =>
        simp only [denote] at h2
        cases hgs : denoteFields gs with
        | none => rw [hgs] at h2; simp at h2
        | some js2 =>
          rw [hgs] at h2
          simp only [Option.some.injEq, Json.obj.injEq] at h2
          subst h2
          rw [denoteFields_inj ih gs _ hfs hgs]
      | arr ys => simp only [denote] at h2; split at h2 <;> simp at h2
      | _ => simp [denote] at h2

/-- `==` answers `true` exactly when both sides denote one and the same JSON value. -/
theorem structEq_iff_same_json [DecidableEq ν] (a b : Value ν) :
    structEq a b = .ok true ↔ ∃ j, denote a = some j ∧ denote b = some j := by
  constructor
  · intro h
    have hab := structEq_true_eq a b h
    obtain ⟨j, hj⟩ := pure_denote (structEq_true_pure a b h)
    subst hab
    exact ⟨j, hj, hj⟩
  · rintro ⟨j, h1, h2⟩
    have := denote_inj a b j h1 h2
    subst this
    exact structEq_refl (denote_pure a j h1)

end
end Rsj.Compare
