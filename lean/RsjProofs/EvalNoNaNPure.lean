import RsjProofs.EvalNoNaNOps
/-!
  "partial_cmp of NaN": the table of pure builtins returns NaN-free numbers on NaN-free arguments
  (`PureNaNFree`), from `FloatNaNFacts` — for every entry but `std.mantissa`.
-/
namespace Rsj.Eval.NoNaN
open Rsj.Core Rsj.Eval

/-- what a step of a pure builtin returns is NaN-free -/
def StepNN : PureStep → Prop
  | .done out => OutNN out
  | .elems _ _ finish => ∀ bytes out, finish bytes = .ok out → OutNN out
  | .fmt _ => True

/-- every successful result satisfies `P` -/
def EO {α} (x : Except PErr α) (P : α → Prop) : Prop := ∀ a, x = .ok a → P a

theorem specNN_of_EO {spec : PureSpec}
    (h : ∀ args, (∀ a ∈ args, PArgNN a) → EO (spec.run args) StepNN) : SpecNN spec := by
  intro args hargs
  exact ⟨fun out ho => h args hargs _ ho, fun i item finish ho => h args hargs _ ho⟩

theorem EO_ok {α} {a : α} {P : α → Prop} (h : P a) : EO (.ok a) P := by
  intro b hb; cases hb; exact h
theorem EO_pure {α} {a : α} {P : α → Prop} (h : P a) : EO (pure a) P := EO_ok h
theorem EO_error {α} {e : PErr} {P : α → Prop} : EO (.error e) P := by
  intro b hb; cases hb
theorem EO_bind {α β} {x : Except PErr α} {f : α → Except PErr β} {P : β → Prop}
    (h : EO x (fun a => EO (f a) P)) : EO (x >>= f) P := by
  intro b hb
  cases x with
  | error e => cases hb
  | ok a => exact h a rfl b hb

theorem EO_run1 {f : PArg → Except PErr PureStep} {args : List PArg} {P : PureStep → Prop}
    (hargs : ∀ a ∈ args, PArgNN a) (h : ∀ a, PArgNN a → EO (f a) P) : EO (run1 f args) P := by
  unfold run1; split
  · exact h _ (hargs _ (by simp))
  · exact EO_error
theorem EO_run2 {f : PArg → PArg → Except PErr PureStep} {args : List PArg} {P : PureStep → Prop}
    (hargs : ∀ a ∈ args, PArgNN a) (h : ∀ a b, PArgNN a → PArgNN b → EO (f a b) P) : EO (run2 f args) P := by
  unfold run2; split
  · exact h _ _ (hargs _ (by simp)) (hargs _ (by simp))
  · exact EO_error
theorem EO_run3 {f : PArg → PArg → PArg → Except PErr PureStep} {args : List PArg} {P : PureStep → Prop}
    (hargs : ∀ a ∈ args, PArgNN a) (h : ∀ a b c, PArgNN a → PArgNN b → PArgNN c → EO (f a b c) P) :
    EO (run3 f args) P := by
  unfold run3; split
  · exact h _ _ _ (hargs _ (by simp)) (hargs _ (by simp)) (hargs _ (by simp))
  · exact EO_error

theorem EO_argStr {name : String} {i : Nat} {a : PArg} {P : String → Prop} (h : ∀ s, P s) :
    EO (argStr name i a) P := by
  unfold argStr; split
  · exact EO_ok (h _)
  · exact EO_error
theorem EO_argArr {name : String} {i : Nat} {a : PArg} {P : Nat → Prop} (h : ∀ s, P s) :
    EO (argArr name i a) P := by
  unfold argArr; split
  · exact EO_ok (h _)
  · exact EO_error
theorem EO_argNum {name : String} {i : Nat} {a : PArg} {P : Float → Prop} (ha : PArgNN a)
    (h : ∀ x, x.isNaN = false → P x) : EO (argNum name i a) P := by
  unfold argNum; split
  · exact EO_ok (h _ ha)
  · exact EO_error
theorem EO_liftStr {α} {f : α → PureStep} {r : Except Str.Err α} {P : PureStep → Prop} (h : ∀ a, P (f a)) :
    EO (liftStr f r) P := by
  unfold liftStr; split
  · exact EO_ok (h _)
  · exact EO_error
theorem EO_pCheckNum {f : Float} {P : Unit → Prop} (h : f.isNaN = false → P ()) : EO (pCheckNum f) P := by
  unfold pCheckNum
  split
  · exact EO_error
  · split
    · exact EO_error
    · exact EO_ok (h (by simpa using ‹¬ f.isNaN = true›))

theorem StepNN_outStr (s : List Nat) : StepNN (outStr s) := trivial
theorem StepNN_outBool (b : Bool) : StepNN (outBool b) := trivial
theorem StepNN_outStrs (l : List (List Nat)) : StepNN (outStrs l) := by
  intro p hp
  obtain ⟨s, _, rfl⟩ := List.mem_map.1 hp
  trivial
theorem StepNN_outNats (F : FloatNaNFacts) (l : List Nat) : StepNN (outNats l) := by
  intro p hp
  obtain ⟨s, _, rfl⟩ := List.mem_map.1 hp
  exact F.ofNat _
theorem StepNN_outNum {f : Float} (h : f.isNaN = false) : StepNN (outNum f) := h

theorem natFloat_nn (F : FloatNaNFacts) (neg : Bool) (v : Nat) : (natFloat neg v).isNaN = false := by
  unfold natFloat
  split
  · exact F.neg _ (F.ofNat _)
  · exact F.ofNat _
theorem intFloat_nn (F : FloatNaNFacts) (i : Int) : (intFloat i).isNaN = false := by
  unfold intFloat
  split
  · exact F.ofNat _
  · exact F.neg _ (F.ofNat _)

theorem StepNN_fmt (parts : List Format.Part) : StepNN (.fmt parts) := trivial
theorem StepNN_elems {i : Nat} {item : PArg → Except PErr Nat} {finish : List Nat → Except PErr PureOut}
    (h : ∀ bytes out, finish bytes = .ok out → OutNN out) : StepNN (.elems i item finish) := h

theorem base64Finish_nn {bytes : List Nat} {out : PureOut} (h : base64Finish bytes = .ok out) : OutNN out := by
  unfold base64Finish at h
  split at h
  · cases h; trivial
  · cases h

attribute [irreducible] EO StepNN

/-- one step of the analysis of a `run` -/
macro "eo_step" : tactic => `(tactic| first
  | apply EO_bind
  | apply EO_argStr
  | apply EO_argArr
  | (refine EO_argNum (by assumption) ?_)
  | apply EO_liftStr
  | apply EO_pCheckNum
  | intro _
  | exact StepNN_outStr _
  | exact StepNN_outBool _
  | exact StepNN_outStrs _
  | exact StepNN_fmt _
  | exact StepNN_elems (fun _ _ h => base64Finish_nn h)
  | exact StepNN_elems (fun _ _ h => by cases h; trivial)
  | apply EO_pure
  | apply EO_ok
  | exact EO_error
  | split)

macro "eo_start" : tactic => `(tactic|
  (apply specNN_of_EO
   intro args hargs
   first
     | refine EO_run1 hargs ?_
     | refine EO_run2 hargs ?_
     | refine EO_run3 hargs ?_
   intros))

macro "eo" : tactic => `(tactic| (eo_start; iterate 30 (all_goals try eo_step)))

theorem e_substr (F : FloatNaNFacts) : SpecNN (pureSpec .substr) := by
  simp only [pureSpec]; eo
  all_goals first
    | exact StepNN_outNats F _
    | exact StepNN_outNum (natFloat_nn F _ _)
    | exact StepNN_outNum (intFloat_nn F _)
    | exact StepNN_outNum (F.ofNat _)
    | exact StepNN_outNum (F.floor _ (by assumption))
    | exact StepNN_outNum (F.ceil _ (by assumption))
    | exact StepNN_outNum (by assumption)

theorem e_findSubstr (F : FloatNaNFacts) : SpecNN (pureSpec .findSubstr) := by
  simp only [pureSpec]; eo
  all_goals first
    | exact StepNN_outNats F _
    | exact StepNN_outNum (natFloat_nn F _ _)
    | exact StepNN_outNum (intFloat_nn F _)
    | exact StepNN_outNum (F.ofNat _)
    | exact StepNN_outNum (F.floor _ (by assumption))
    | exact StepNN_outNum (F.ceil _ (by assumption))
    | exact StepNN_outNum (by assumption)

theorem e_startsWith (F : FloatNaNFacts) : SpecNN (pureSpec .startsWith) := by
  simp only [pureSpec]; eo
  all_goals first
    | exact StepNN_outNats F _
    | exact StepNN_outNum (natFloat_nn F _ _)
    | exact StepNN_outNum (intFloat_nn F _)
    | exact StepNN_outNum (F.ofNat _)
    | exact StepNN_outNum (F.floor _ (by assumption))
    | exact StepNN_outNum (F.ceil _ (by assumption))
    | exact StepNN_outNum (by assumption)

theorem e_endsWith (F : FloatNaNFacts) : SpecNN (pureSpec .endsWith) := by
  simp only [pureSpec]; eo
  all_goals first
    | exact StepNN_outNats F _
    | exact StepNN_outNum (natFloat_nn F _ _)
    | exact StepNN_outNum (intFloat_nn F _)
    | exact StepNN_outNum (F.ofNat _)
    | exact StepNN_outNum (F.floor _ (by assumption))
    | exact StepNN_outNum (F.ceil _ (by assumption))
    | exact StepNN_outNum (by assumption)

theorem e_split (F : FloatNaNFacts) : SpecNN (pureSpec .split) := by
  simp only [pureSpec]; eo
  all_goals first
    | exact StepNN_outNats F _
    | exact StepNN_outNum (natFloat_nn F _ _)
    | exact StepNN_outNum (intFloat_nn F _)
    | exact StepNN_outNum (F.ofNat _)
    | exact StepNN_outNum (F.floor _ (by assumption))
    | exact StepNN_outNum (F.ceil _ (by assumption))
    | exact StepNN_outNum (by assumption)

theorem e_splitLimit (F : FloatNaNFacts) : SpecNN (pureSpec .splitLimit) := by
  simp only [pureSpec]; eo
  all_goals first
    | exact StepNN_outNats F _
    | exact StepNN_outNum (natFloat_nn F _ _)
    | exact StepNN_outNum (intFloat_nn F _)
    | exact StepNN_outNum (F.ofNat _)
    | exact StepNN_outNum (F.floor _ (by assumption))
    | exact StepNN_outNum (F.ceil _ (by assumption))
    | exact StepNN_outNum (by assumption)

theorem e_splitLimitR (F : FloatNaNFacts) : SpecNN (pureSpec .splitLimitR) := by
  simp only [pureSpec]; eo
  all_goals first
    | exact StepNN_outNats F _
    | exact StepNN_outNum (natFloat_nn F _ _)
    | exact StepNN_outNum (intFloat_nn F _)
    | exact StepNN_outNum (F.ofNat _)
    | exact StepNN_outNum (F.floor _ (by assumption))
    | exact StepNN_outNum (F.ceil _ (by assumption))
    | exact StepNN_outNum (by assumption)

theorem e_strReplace (F : FloatNaNFacts) : SpecNN (pureSpec .strReplace) := by
  simp only [pureSpec]; eo
  all_goals first
    | exact StepNN_outNats F _
    | exact StepNN_outNum (natFloat_nn F _ _)
    | exact StepNN_outNum (intFloat_nn F _)
    | exact StepNN_outNum (F.ofNat _)
    | exact StepNN_outNum (F.floor _ (by assumption))
    | exact StepNN_outNum (F.ceil _ (by assumption))
    | exact StepNN_outNum (by assumption)

theorem e_stripChars (F : FloatNaNFacts) : SpecNN (pureSpec .stripChars) := by
  simp only [pureSpec]; eo
  all_goals first
    | exact StepNN_outNats F _
    | exact StepNN_outNum (natFloat_nn F _ _)
    | exact StepNN_outNum (intFloat_nn F _)
    | exact StepNN_outNum (F.ofNat _)
    | exact StepNN_outNum (F.floor _ (by assumption))
    | exact StepNN_outNum (F.ceil _ (by assumption))
    | exact StepNN_outNum (by assumption)

theorem e_lstripChars (F : FloatNaNFacts) : SpecNN (pureSpec .lstripChars) := by
  simp only [pureSpec]; eo
  all_goals first
    | exact StepNN_outNats F _
    | exact StepNN_outNum (natFloat_nn F _ _)
    | exact StepNN_outNum (intFloat_nn F _)
    | exact StepNN_outNum (F.ofNat _)
    | exact StepNN_outNum (F.floor _ (by assumption))
    | exact StepNN_outNum (F.ceil _ (by assumption))
    | exact StepNN_outNum (by assumption)

theorem e_rstripChars (F : FloatNaNFacts) : SpecNN (pureSpec .rstripChars) := by
  simp only [pureSpec]; eo
  all_goals first
    | exact StepNN_outNats F _
    | exact StepNN_outNum (natFloat_nn F _ _)
    | exact StepNN_outNum (intFloat_nn F _)
    | exact StepNN_outNum (F.ofNat _)
    | exact StepNN_outNum (F.floor _ (by assumption))
    | exact StepNN_outNum (F.ceil _ (by assumption))
    | exact StepNN_outNum (by assumption)

theorem e_trim (F : FloatNaNFacts) : SpecNN (pureSpec .trim) := by
  simp only [pureSpec]; eo
  all_goals first
    | exact StepNN_outNats F _
    | exact StepNN_outNum (natFloat_nn F _ _)
    | exact StepNN_outNum (intFloat_nn F _)
    | exact StepNN_outNum (F.ofNat _)
    | exact StepNN_outNum (F.floor _ (by assumption))
    | exact StepNN_outNum (F.ceil _ (by assumption))
    | exact StepNN_outNum (by assumption)

theorem e_asciiUpper (F : FloatNaNFacts) : SpecNN (pureSpec .asciiUpper) := by
  simp only [pureSpec]; eo
  all_goals first
    | exact StepNN_outNats F _
    | exact StepNN_outNum (natFloat_nn F _ _)
    | exact StepNN_outNum (intFloat_nn F _)
    | exact StepNN_outNum (F.ofNat _)
    | exact StepNN_outNum (F.floor _ (by assumption))
    | exact StepNN_outNum (F.ceil _ (by assumption))
    | exact StepNN_outNum (by assumption)

theorem e_asciiLower (F : FloatNaNFacts) : SpecNN (pureSpec .asciiLower) := by
  simp only [pureSpec]; eo
  all_goals first
    | exact StepNN_outNats F _
    | exact StepNN_outNum (natFloat_nn F _ _)
    | exact StepNN_outNum (intFloat_nn F _)
    | exact StepNN_outNum (F.ofNat _)
    | exact StepNN_outNum (F.floor _ (by assumption))
    | exact StepNN_outNum (F.ceil _ (by assumption))
    | exact StepNN_outNum (by assumption)

theorem e_stringChars (F : FloatNaNFacts) : SpecNN (pureSpec .stringChars) := by
  simp only [pureSpec]; eo
  all_goals first
    | exact StepNN_outNats F _
    | exact StepNN_outNum (natFloat_nn F _ _)
    | exact StepNN_outNum (intFloat_nn F _)
    | exact StepNN_outNum (F.ofNat _)
    | exact StepNN_outNum (F.floor _ (by assumption))
    | exact StepNN_outNum (F.ceil _ (by assumption))
    | exact StepNN_outNum (by assumption)

theorem e_codepoint (F : FloatNaNFacts) : SpecNN (pureSpec .codepoint) := by
  simp only [pureSpec]; eo
  all_goals exact StepNN_outNum (F.ofNat _)

theorem e_char (F : FloatNaNFacts) : SpecNN (pureSpec .char) := by
  simp only [pureSpec]; eo
  all_goals first
    | exact StepNN_outNats F _
    | exact StepNN_outNum (natFloat_nn F _ _)
    | exact StepNN_outNum (intFloat_nn F _)
    | exact StepNN_outNum (F.ofNat _)
    | exact StepNN_outNum (F.floor _ (by assumption))
    | exact StepNN_outNum (F.ceil _ (by assumption))
    | exact StepNN_outNum (by assumption)

theorem e_equalsIgnoreCase (F : FloatNaNFacts) : SpecNN (pureSpec .equalsIgnoreCase) := by
  simp only [pureSpec]; eo
  all_goals first
    | exact StepNN_outNats F _
    | exact StepNN_outNum (natFloat_nn F _ _)
    | exact StepNN_outNum (intFloat_nn F _)
    | exact StepNN_outNum (F.ofNat _)
    | exact StepNN_outNum (F.floor _ (by assumption))
    | exact StepNN_outNum (F.ceil _ (by assumption))
    | exact StepNN_outNum (by assumption)

theorem e_floor (F : FloatNaNFacts) : SpecNN (pureSpec .floor) := by
  simp only [pureSpec]; eo
  all_goals exact StepNN_outNum (F.floor _ (by assumption))

theorem e_ceil (F : FloatNaNFacts) : SpecNN (pureSpec .ceil) := by
  simp only [pureSpec]; eo
  all_goals exact StepNN_outNum (F.ceil _ (by assumption))

theorem e_sqrt (F : FloatNaNFacts) : SpecNN (pureSpec .sqrt) := by
  simp only [pureSpec]; eo
  all_goals exact StepNN_outNum (by assumption)

theorem e_isEven (F : FloatNaNFacts) : SpecNN (pureSpec .isEven) := by
  simp only [pureSpec]; eo
  all_goals first
    | exact StepNN_outNats F _
    | exact StepNN_outNum (natFloat_nn F _ _)
    | exact StepNN_outNum (intFloat_nn F _)
    | exact StepNN_outNum (F.ofNat _)
    | exact StepNN_outNum (F.floor _ (by assumption))
    | exact StepNN_outNum (F.ceil _ (by assumption))
    | exact StepNN_outNum (by assumption)

theorem e_isOdd (F : FloatNaNFacts) : SpecNN (pureSpec .isOdd) := by
  simp only [pureSpec]; eo
  all_goals first
    | exact StepNN_outNats F _
    | exact StepNN_outNum (natFloat_nn F _ _)
    | exact StepNN_outNum (intFloat_nn F _)
    | exact StepNN_outNum (F.ofNat _)
    | exact StepNN_outNum (F.floor _ (by assumption))
    | exact StepNN_outNum (F.ceil _ (by assumption))
    | exact StepNN_outNum (by assumption)

theorem e_isInteger (F : FloatNaNFacts) : SpecNN (pureSpec .isInteger) := by
  simp only [pureSpec]; eo
  all_goals first
    | exact StepNN_outNats F _
    | exact StepNN_outNum (natFloat_nn F _ _)
    | exact StepNN_outNum (intFloat_nn F _)
    | exact StepNN_outNum (F.ofNat _)
    | exact StepNN_outNum (F.floor _ (by assumption))
    | exact StepNN_outNum (F.ceil _ (by assumption))
    | exact StepNN_outNum (by assumption)

theorem e_isDecimal (F : FloatNaNFacts) : SpecNN (pureSpec .isDecimal) := by
  simp only [pureSpec]; eo
  all_goals first
    | exact StepNN_outNats F _
    | exact StepNN_outNum (natFloat_nn F _ _)
    | exact StepNN_outNum (intFloat_nn F _)
    | exact StepNN_outNum (F.ofNat _)
    | exact StepNN_outNum (F.floor _ (by assumption))
    | exact StepNN_outNum (F.ceil _ (by assumption))
    | exact StepNN_outNum (by assumption)

theorem e_modulo (F : FloatNaNFacts) : SpecNN (pureSpec .modulo) := by
  simp only [pureSpec]; eo
  all_goals exact StepNN_outNum (by assumption)

theorem e_exponent (F : FloatNaNFacts) : SpecNN (pureSpec .exponent) := by
  simp only [pureSpec]; eo
  all_goals exact StepNN_outNum (intFloat_nn F _)

theorem e_pow (F : FloatNaNFacts) : SpecNN (pureSpec .pow) := by
  simp only [pureSpec]; eo
  all_goals first
    | exact StepNN_outNats F _
    | exact StepNN_outNum (natFloat_nn F _ _)
    | exact StepNN_outNum (intFloat_nn F _)
    | exact StepNN_outNum (F.ofNat _)
    | exact StepNN_outNum (F.floor _ (by assumption))
    | exact StepNN_outNum (F.ceil _ (by assumption))
    | exact StepNN_outNum (by assumption)

theorem e_exp (F : FloatNaNFacts) : SpecNN (pureSpec .exp) := by
  simp only [pureSpec]; eo
  all_goals first
    | exact StepNN_outNats F _
    | exact StepNN_outNum (natFloat_nn F _ _)
    | exact StepNN_outNum (intFloat_nn F _)
    | exact StepNN_outNum (F.ofNat _)
    | exact StepNN_outNum (F.floor _ (by assumption))
    | exact StepNN_outNum (F.ceil _ (by assumption))
    | exact StepNN_outNum (by assumption)

theorem e_log (F : FloatNaNFacts) : SpecNN (pureSpec .log) := by
  simp only [pureSpec]; eo
  all_goals first
    | exact StepNN_outNats F _
    | exact StepNN_outNum (natFloat_nn F _ _)
    | exact StepNN_outNum (intFloat_nn F _)
    | exact StepNN_outNum (F.ofNat _)
    | exact StepNN_outNum (F.floor _ (by assumption))
    | exact StepNN_outNum (F.ceil _ (by assumption))
    | exact StepNN_outNum (by assumption)

theorem e_log2 (F : FloatNaNFacts) : SpecNN (pureSpec .log2) := by
  simp only [pureSpec]; eo
  all_goals first
    | exact StepNN_outNats F _
    | exact StepNN_outNum (natFloat_nn F _ _)
    | exact StepNN_outNum (intFloat_nn F _)
    | exact StepNN_outNum (F.ofNat _)
    | exact StepNN_outNum (F.floor _ (by assumption))
    | exact StepNN_outNum (F.ceil _ (by assumption))
    | exact StepNN_outNum (by assumption)

theorem e_log10 (F : FloatNaNFacts) : SpecNN (pureSpec .log10) := by
  simp only [pureSpec]; eo
  all_goals first
    | exact StepNN_outNats F _
    | exact StepNN_outNum (natFloat_nn F _ _)
    | exact StepNN_outNum (intFloat_nn F _)
    | exact StepNN_outNum (F.ofNat _)
    | exact StepNN_outNum (F.floor _ (by assumption))
    | exact StepNN_outNum (F.ceil _ (by assumption))
    | exact StepNN_outNum (by assumption)

theorem e_sin (F : FloatNaNFacts) : SpecNN (pureSpec .sin) := by
  simp only [pureSpec]; eo
  all_goals first
    | exact StepNN_outNats F _
    | exact StepNN_outNum (natFloat_nn F _ _)
    | exact StepNN_outNum (intFloat_nn F _)
    | exact StepNN_outNum (F.ofNat _)
    | exact StepNN_outNum (F.floor _ (by assumption))
    | exact StepNN_outNum (F.ceil _ (by assumption))
    | exact StepNN_outNum (by assumption)

theorem e_cos (F : FloatNaNFacts) : SpecNN (pureSpec .cos) := by
  simp only [pureSpec]; eo
  all_goals first
    | exact StepNN_outNats F _
    | exact StepNN_outNum (natFloat_nn F _ _)
    | exact StepNN_outNum (intFloat_nn F _)
    | exact StepNN_outNum (F.ofNat _)
    | exact StepNN_outNum (F.floor _ (by assumption))
    | exact StepNN_outNum (F.ceil _ (by assumption))
    | exact StepNN_outNum (by assumption)

theorem e_tan (F : FloatNaNFacts) : SpecNN (pureSpec .tan) := by
  simp only [pureSpec]; eo
  all_goals first
    | exact StepNN_outNats F _
    | exact StepNN_outNum (natFloat_nn F _ _)
    | exact StepNN_outNum (intFloat_nn F _)
    | exact StepNN_outNum (F.ofNat _)
    | exact StepNN_outNum (F.floor _ (by assumption))
    | exact StepNN_outNum (F.ceil _ (by assumption))
    | exact StepNN_outNum (by assumption)

theorem e_asin (F : FloatNaNFacts) : SpecNN (pureSpec .asin) := by
  simp only [pureSpec]; eo
  all_goals first
    | exact StepNN_outNats F _
    | exact StepNN_outNum (natFloat_nn F _ _)
    | exact StepNN_outNum (intFloat_nn F _)
    | exact StepNN_outNum (F.ofNat _)
    | exact StepNN_outNum (F.floor _ (by assumption))
    | exact StepNN_outNum (F.ceil _ (by assumption))
    | exact StepNN_outNum (by assumption)

theorem e_acos (F : FloatNaNFacts) : SpecNN (pureSpec .acos) := by
  simp only [pureSpec]; eo
  all_goals first
    | exact StepNN_outNats F _
    | exact StepNN_outNum (natFloat_nn F _ _)
    | exact StepNN_outNum (intFloat_nn F _)
    | exact StepNN_outNum (F.ofNat _)
    | exact StepNN_outNum (F.floor _ (by assumption))
    | exact StepNN_outNum (F.ceil _ (by assumption))
    | exact StepNN_outNum (by assumption)

theorem e_atan (F : FloatNaNFacts) : SpecNN (pureSpec .atan) := by
  simp only [pureSpec]; eo
  all_goals first
    | exact StepNN_outNats F _
    | exact StepNN_outNum (natFloat_nn F _ _)
    | exact StepNN_outNum (intFloat_nn F _)
    | exact StepNN_outNum (F.ofNat _)
    | exact StepNN_outNum (F.floor _ (by assumption))
    | exact StepNN_outNum (F.ceil _ (by assumption))
    | exact StepNN_outNum (by assumption)

theorem e_atan2 (F : FloatNaNFacts) : SpecNN (pureSpec .atan2) := by
  simp only [pureSpec]; eo
  all_goals first
    | exact StepNN_outNats F _
    | exact StepNN_outNum (natFloat_nn F _ _)
    | exact StepNN_outNum (intFloat_nn F _)
    | exact StepNN_outNum (F.ofNat _)
    | exact StepNN_outNum (F.floor _ (by assumption))
    | exact StepNN_outNum (F.ceil _ (by assumption))
    | exact StepNN_outNum (by assumption)

theorem e_hypot (F : FloatNaNFacts) : SpecNN (pureSpec .hypot) := by
  simp only [pureSpec]; eo
  all_goals first
    | exact StepNN_outNats F _
    | exact StepNN_outNum (natFloat_nn F _ _)
    | exact StepNN_outNum (intFloat_nn F _)
    | exact StepNN_outNum (F.ofNat _)
    | exact StepNN_outNum (F.floor _ (by assumption))
    | exact StepNN_outNum (F.ceil _ (by assumption))
    | exact StepNN_outNum (by assumption)

theorem e_deg2rad (F : FloatNaNFacts) : SpecNN (pureSpec .deg2rad) := by
  simp only [pureSpec]; eo
  all_goals exact StepNN_outNum (by assumption)

theorem e_rad2deg (F : FloatNaNFacts) : SpecNN (pureSpec .rad2deg) := by
  simp only [pureSpec]; eo
  all_goals exact StepNN_outNum (by assumption)

theorem e_parseInt (F : FloatNaNFacts) : SpecNN (pureSpec .parseInt) := by
  simp only [pureSpec]; eo
  all_goals first
    | exact StepNN_outNats F _
    | exact StepNN_outNum (natFloat_nn F _ _)
    | exact StepNN_outNum (intFloat_nn F _)
    | exact StepNN_outNum (F.ofNat _)
    | exact StepNN_outNum (F.floor _ (by assumption))
    | exact StepNN_outNum (F.ceil _ (by assumption))
    | exact StepNN_outNum (by assumption)

theorem e_parseOctal (F : FloatNaNFacts) : SpecNN (pureSpec .parseOctal) := by
  simp only [pureSpec]; eo
  all_goals first
    | exact StepNN_outNats F _
    | exact StepNN_outNum (natFloat_nn F _ _)
    | exact StepNN_outNum (intFloat_nn F _)
    | exact StepNN_outNum (F.ofNat _)
    | exact StepNN_outNum (F.floor _ (by assumption))
    | exact StepNN_outNum (F.ceil _ (by assumption))
    | exact StepNN_outNum (by assumption)

theorem e_parseHex (F : FloatNaNFacts) : SpecNN (pureSpec .parseHex) := by
  simp only [pureSpec]; eo
  all_goals first
    | exact StepNN_outNats F _
    | exact StepNN_outNum (natFloat_nn F _ _)
    | exact StepNN_outNum (intFloat_nn F _)
    | exact StepNN_outNum (F.ofNat _)
    | exact StepNN_outNum (F.floor _ (by assumption))
    | exact StepNN_outNum (F.ceil _ (by assumption))
    | exact StepNN_outNum (by assumption)

theorem e_base64 (F : FloatNaNFacts) : SpecNN (pureSpec .base64) := by
  simp only [pureSpec]; eo
  all_goals first
    | exact StepNN_outNats F _
    | exact StepNN_outNum (natFloat_nn F _ _)
    | exact StepNN_outNum (intFloat_nn F _)
    | exact StepNN_outNum (F.ofNat _)
    | exact StepNN_outNum (F.floor _ (by assumption))
    | exact StepNN_outNum (F.ceil _ (by assumption))
    | exact StepNN_outNum (by assumption)

theorem e_base64Decode (F : FloatNaNFacts) : SpecNN (pureSpec .base64Decode) := by
  simp only [pureSpec]; eo
  all_goals first
    | exact StepNN_outNats F _
    | exact StepNN_outNum (natFloat_nn F _ _)
    | exact StepNN_outNum (intFloat_nn F _)
    | exact StepNN_outNum (F.ofNat _)
    | exact StepNN_outNum (F.floor _ (by assumption))
    | exact StepNN_outNum (F.ceil _ (by assumption))
    | exact StepNN_outNum (by assumption)

theorem e_base64DecodeBytes (F : FloatNaNFacts) : SpecNN (pureSpec .base64DecodeBytes) := by
  simp only [pureSpec]; eo
  all_goals first
    | exact StepNN_outNats F _
    | exact StepNN_outNum (natFloat_nn F _ _)
    | exact StepNN_outNum (intFloat_nn F _)
    | exact StepNN_outNum (F.ofNat _)
    | exact StepNN_outNum (F.floor _ (by assumption))
    | exact StepNN_outNum (F.ceil _ (by assumption))
    | exact StepNN_outNum (by assumption)

theorem e_encodeUTF8 (F : FloatNaNFacts) : SpecNN (pureSpec .encodeUTF8) := by
  simp only [pureSpec]; eo
  all_goals first
    | exact StepNN_outNats F _
    | exact StepNN_outNum (natFloat_nn F _ _)
    | exact StepNN_outNum (intFloat_nn F _)
    | exact StepNN_outNum (F.ofNat _)
    | exact StepNN_outNum (F.floor _ (by assumption))
    | exact StepNN_outNum (F.ceil _ (by assumption))
    | exact StepNN_outNum (by assumption)

theorem e_decodeUTF8 (F : FloatNaNFacts) : SpecNN (pureSpec .decodeUTF8) := by
  simp only [pureSpec]; eo
  all_goals first
    | exact StepNN_outNats F _
    | exact StepNN_outNum (natFloat_nn F _ _)
    | exact StepNN_outNum (intFloat_nn F _)
    | exact StepNN_outNum (F.ofNat _)
    | exact StepNN_outNum (F.floor _ (by assumption))
    | exact StepNN_outNum (F.ceil _ (by assumption))
    | exact StepNN_outNum (by assumption)

theorem e_escapeStringJson (F : FloatNaNFacts) : SpecNN (pureSpec .escapeStringJson) := by
  simp only [pureSpec]; eo
  all_goals first
    | exact StepNN_outNats F _
    | exact StepNN_outNum (natFloat_nn F _ _)
    | exact StepNN_outNum (intFloat_nn F _)
    | exact StepNN_outNum (F.ofNat _)
    | exact StepNN_outNum (F.floor _ (by assumption))
    | exact StepNN_outNum (F.ceil _ (by assumption))
    | exact StepNN_outNum (by assumption)

theorem e_escapeStringPython (F : FloatNaNFacts) : SpecNN (pureSpec .escapeStringPython) := by
  simp only [pureSpec]; eo
  all_goals first
    | exact StepNN_outNats F _
    | exact StepNN_outNum (natFloat_nn F _ _)
    | exact StepNN_outNum (intFloat_nn F _)
    | exact StepNN_outNum (F.ofNat _)
    | exact StepNN_outNum (F.floor _ (by assumption))
    | exact StepNN_outNum (F.ceil _ (by assumption))
    | exact StepNN_outNum (by assumption)

theorem e_escapeStringBash (F : FloatNaNFacts) : SpecNN (pureSpec .escapeStringBash) := by
  simp only [pureSpec]; eo
  all_goals first
    | exact StepNN_outNats F _
    | exact StepNN_outNum (natFloat_nn F _ _)
    | exact StepNN_outNum (intFloat_nn F _)
    | exact StepNN_outNum (F.ofNat _)
    | exact StepNN_outNum (F.floor _ (by assumption))
    | exact StepNN_outNum (F.ceil _ (by assumption))
    | exact StepNN_outNum (by assumption)

theorem e_escapeStringDollars (F : FloatNaNFacts) : SpecNN (pureSpec .escapeStringDollars) := by
  simp only [pureSpec]; eo
  all_goals first
    | exact StepNN_outNats F _
    | exact StepNN_outNum (natFloat_nn F _ _)
    | exact StepNN_outNum (intFloat_nn F _)
    | exact StepNN_outNum (F.ofNat _)
    | exact StepNN_outNum (F.floor _ (by assumption))
    | exact StepNN_outNum (F.ceil _ (by assumption))
    | exact StepNN_outNum (by assumption)

theorem e_escapeStringXML (F : FloatNaNFacts) : SpecNN (pureSpec .escapeStringXML) := by
  simp only [pureSpec]; eo
  all_goals first
    | exact StepNN_outNats F _
    | exact StepNN_outNum (natFloat_nn F _ _)
    | exact StepNN_outNum (intFloat_nn F _)
    | exact StepNN_outNum (F.ofNat _)
    | exact StepNN_outNum (F.floor _ (by assumption))
    | exact StepNN_outNum (F.ceil _ (by assumption))
    | exact StepNN_outNum (by assumption)

theorem e_format (F : FloatNaNFacts) : SpecNN (pureSpec .format) := by
  simp only [pureSpec]; eo
  all_goals first
    | exact StepNN_outNats F _
    | exact StepNN_outNum (natFloat_nn F _ _)
    | exact StepNN_outNum (intFloat_nn F _)
    | exact StepNN_outNum (F.ofNat _)
    | exact StepNN_outNum (F.floor _ (by assumption))
    | exact StepNN_outNum (F.ceil _ (by assumption))
    | exact StepNN_outNum (by assumption)

/-- every entry of the table but `std.mantissa` -/
theorem PureNaNFree_of_mantissa (F : FloatNaNFacts) (hm : SpecNN (pureSpec .mantissa)) : PureNaNFree := by
  intro p
  cases p with
  | mantissa => exact hm
  | substr => exact e_substr F
  | findSubstr => exact e_findSubstr F
  | startsWith => exact e_startsWith F
  | endsWith => exact e_endsWith F
  | split => exact e_split F
  | splitLimit => exact e_splitLimit F
  | splitLimitR => exact e_splitLimitR F
  | strReplace => exact e_strReplace F
  | stripChars => exact e_stripChars F
  | lstripChars => exact e_lstripChars F
  | rstripChars => exact e_rstripChars F
  | trim => exact e_trim F
  | asciiUpper => exact e_asciiUpper F
  | asciiLower => exact e_asciiLower F
  | stringChars => exact e_stringChars F
  | codepoint => exact e_codepoint F
  | char => exact e_char F
  | equalsIgnoreCase => exact e_equalsIgnoreCase F
  | floor => exact e_floor F
  | ceil => exact e_ceil F
  | sqrt => exact e_sqrt F
  | isEven => exact e_isEven F
  | isOdd => exact e_isOdd F
  | isInteger => exact e_isInteger F
  | isDecimal => exact e_isDecimal F
  | modulo => exact e_modulo F
  | exponent => exact e_exponent F
  | pow => exact e_pow F
  | exp => exact e_exp F
  | log => exact e_log F
  | log2 => exact e_log2 F
  | log10 => exact e_log10 F
  | sin => exact e_sin F
  | cos => exact e_cos F
  | tan => exact e_tan F
  | asin => exact e_asin F
  | acos => exact e_acos F
  | atan => exact e_atan F
  | atan2 => exact e_atan2 F
  | hypot => exact e_hypot F
  | deg2rad => exact e_deg2rad F
  | rad2deg => exact e_rad2deg F
  | parseInt => exact e_parseInt F
  | parseOctal => exact e_parseOctal F
  | parseHex => exact e_parseHex F
  | base64 => exact e_base64 F
  | base64Decode => exact e_base64Decode F
  | base64DecodeBytes => exact e_base64DecodeBytes F
  | encodeUTF8 => exact e_encodeUTF8 F
  | decodeUTF8 => exact e_decodeUTF8 F
  | escapeStringJson => exact e_escapeStringJson F
  | escapeStringPython => exact e_escapeStringPython F
  | escapeStringBash => exact e_escapeStringBash F
  | escapeStringDollars => exact e_escapeStringDollars F
  | escapeStringXML => exact e_escapeStringXML F
  | format => exact e_format F

end Rsj.Eval.NoNaN
