/-
  C15 print/parse, part 12: generic forms of the schema — parenthesised positions, positions
  printed the same at every level, prefix forms (`local`, `if`, …: bare when nothing can follow,
  parenthesised otherwise), unary / binary operators and `in super` over token functions.
-/
import RsjProofs.ParserRun11
namespace Rsj.Parser

section
variable {toks : List Token} (pe : PState toks → Except (Err toks) (Expr × PState toks)) (R : Nat)

omit pe R in
theorem followOK_rparen (o el : Bool) : FollowOK o el (sim .RightParen) :=
  ⟨fun _ => stopTok_rparen, fun h => by simp [sim] at h⟩

omit pe R in
theorem cons_of_append_cons (X : Toks) (a : TokKind) (T : Toks) : ∃ b ks, X ++ a :: T = b :: ks := by
  cases X with
  | nil => exact ⟨a, T, rfl⟩
  | cons x X' => exact ⟨x, X' ++ a :: T, rfl⟩

/-- the head `( inner )` -/
theorem paren_headW {Wi : TokFn} {te : Expr} (LQ0 : LQW pe R Wi te initKind false false) :
    HDtok pe R (parens (Wi 0 false false)) te (fun _ => True) := by
  intro S st y Y hk hR _
  obtain ⟨b, ks, hb⟩ := cons_of_append_cons (Wi 0 false false) (sim .RightParen) (y :: Y)
  have hk0 : st.kinds = sim .LeftParen :: b :: ks := by
    rw [hk, parens_eq, ← hb]; simp
  obtain ⟨st1, hk1, hprim⟩ := primary_paren pe (.suffix :: S) hk0
  have hk1' : st1.kinds = Wi initKind.prec false false ++ sim .RightParen :: y :: Y := by
    rw [hk1, initKind_prec, hb]
  have hlen1 : st1.kinds.length ≤ R := by
    have : st1.kinds.length ≤ st.kinds.length := by rw [hk1, hk0]; simp
    omega
  obtain ⟨S', t', st2, n, hbel, het, hk2, hn, hr⟩ := LQ0 initKind (.paren st.cur.span :: .suffix :: S) st1
    (sim .RightParen) (y :: Y) (Nat.le_refl _) hk1' hlen1 stopTok_rparen.1
    (fun j _ => stopTok_rparen.2 j) (followOK_rparen _ _)
  have := Below_self hbel
  subst this
  obtain ⟨st3, hstep, hk3⟩ := binaryRhs_miss (k := initKind) t' (.paren st.cur.span :: .suffix :: S) (st := st2)
    (by rw [cur_kind_of_kinds hk2]; exact stopTok_rparen.2 _)
  obtain ⟨st4, he4, hk4⟩ := expectSimple_hit (st := st3) (k := .RightParen) true (by rw [hk3, hk2]; rfl)
  refine ⟨.paren t' (surround st.cur.span st3.cur.span), st4, 1 + n + 1 + 1, ?_, hk4, ?_, ?_⟩
  · simp only [Expr.erase]; exact het
  · rw [initKind_prec] at hn
    rw [parens_eq]; simp only [List.length_cons, List.length_append, List.length_nil]
    omega
  · refine Reach.trans pe (Reach.trans pe (Reach.trans pe (Reach.primary pe (fun f _ => hprim f)) hr)
      (Reach.binaryRhs pe hstep)) (Reach.parsed pe ?_)
    intro fuel _
    unfold parsedStep
    rw [he4]; rfl

/-- a head that is the whole position (no postfix part) -/
theorem SufForm.of_head {W : TokFn} {te : Expr} {o el : Bool} {C : TokKind → Prop}
    (hd : HDtok pe R (W suffixPrec o el) te C) (hC : ∀ tk, FollowOK o el tk → C tk) :
    SufForm pe R W te o el := by
  refine ⟨W suffixPrec o el, [], te, C, by simp, hd, SLtok_nil pe R te, ?_⟩
  intro tk T y Y h hfo
  simp only [List.nil_append, List.cons.injEq] at h
  rw [← h.1]; exact hC tk hfo

/-- everything else for a position printed the same at every level (for these flags) -/
theorem closedW {W : TokFn} {te : Expr} {o el : Bool} (hcl : ∀ lvl, W lvl o el = W suffixPrec o el)
    (hhead : ∃ a l, W suffixPrec o el = a :: l ∧ NotUnaryTok a) (hs : SufForm pe R W te o el) :
    L10W pe R W te o el ∧ ∀ p, LQW pe R W te p o el := by
  have h11 := L11W_of pe R hs
  have h10 := L10W_of_L11W pe R (hcl unaryPrec) hhead h11
  exact ⟨h10, fun p => LQW_of_L10W pe R p (by rw [hcl p.prec, hcl unaryPrec]) h10⟩

omit pe R in
theorem notUnary_lparen : NotUnaryTok (sim .LeftParen) := by simp [NotUnaryTok, sim]

/-- a position that is `( inner )` at every level -/
theorem paren_allW {W Wi : TokFn} {te : Expr} (hW : ∀ lvl o el, W lvl o el = parens (Wi 0 false false))
    (LQ0 : LQW pe R Wi te initKind false false) : AllW pe R W te := by
  have hs : ∀ o el, SufForm pe R W te o el := fun o el =>
    SufForm.of_head pe R (C := fun _ => True) (by rw [hW]; exact paren_headW pe R LQ0) (fun _ _ => trivial)
  have hc : ∀ o el, L10W pe R W te o el ∧ ∀ p, LQW pe R W te p o el := fun o el =>
    closedW pe R (fun lvl => by rw [hW, hW]) ⟨_, _, by rw [hW, parens_eq], notUnary_lparen⟩ (hs o el)
  exact ⟨hs, fun o el => (hc o el).1, fun p o el => (hc o el).2 p⟩

/-- a subexpression position: the node itself (minimal printing) or `( node )` (full printing) -/
theorem sub_allW (full : Bool) (t te : Expr) (h : AllW pe R (pr full t) te) : AllW pe R (sub full t) te := by
  cases full with
  | false =>
    have : sub false t = pr false t := by
      funext lvl o el; exact sub_false t lvl o el
    rw [this]; exact h
  | true =>
    refine paren_allW pe R (Wi := pr true t) (fun lvl o el => by simp [sub]) (h.lq initKind false false)

/-- **Prefix forms**: bare (`B el`) when `par o el = false` — then nothing that could continue an
    expression follows — and `( B false )` otherwise.  All that is needed is the head parse of
    the bare form. -/
theorem prefixW {W : TokFn} {te : Expr} (par : Bool → Bool → Bool) (B : Bool → Toks)
    (hW : ∀ lvl o el, W lvl o el = if par o el then parens (B false) else B el)
    (hpar0 : par false false = false) (hparo : ∀ o el, par o el = false → o = false)
    (hhead : ∀ el, ∃ a l, B el = a :: l ∧ NotUnaryTok a)
    (hd : ∀ el, par false el = false → HDtok pe R (B el) te (FollowOK false el)) : AllW pe R W te := by
  have bare : ∀ o el, par o el = false →
      SufForm pe R W te o el ∧ L10W pe R W te o el ∧ ∀ p, LQW pe R W te p o el := by
    intro o el hp
    have ho := hparo o el hp
    subst ho
    have hWb : ∀ lvl, W lvl false el = B el := fun lvl => by rw [hW, hp]; rfl
    have hs : SufForm pe R W te false el :=
      SufForm.of_head pe R (C := FollowOK false el) (by rw [hWb]; exact hd el hp) (fun _ h => h)
    have hc := closedW pe R (fun lvl => by rw [hWb, hWb]) (by rw [hWb]; exact hhead el) hs
    exact ⟨hs, hc.1, hc.2⟩
  have LQ0 : LQW pe R W te initKind false false := (bare false false hpar0).2.2 initKind
  have hW0 : W 0 false false = B false := by rw [hW, hpar0]; rfl
  have par_ : ∀ o el, par o el = true →
      SufForm pe R W te o el ∧ L10W pe R W te o el ∧ ∀ p, LQW pe R W te p o el := by
    intro o el hp
    have hWp : ∀ lvl, W lvl o el = parens (W 0 false false) := fun lvl => by rw [hW, hp, hW0]; rfl
    have hs : SufForm pe R W te o el :=
      SufForm.of_head pe R (C := fun _ => True) (by rw [hWp]; exact paren_headW pe R LQ0) (fun _ _ => trivial)
    have hc := closedW pe R (fun lvl => by rw [hWp, hWp]) ⟨_, _, by rw [hWp, parens_eq], notUnary_lparen⟩ hs
    exact ⟨hs, hc.1, hc.2⟩
  have all : ∀ o el, SufForm pe R W te o el ∧ L10W pe R W te o el ∧ ∀ p, LQW pe R W te p o el := by
    intro o el
    cases hp : par o el
    · exact bare o el hp
    · exact par_ o el hp
  exact ⟨fun o el => (all o el).1, fun o el => (all o el).2.1, fun p o el => (all o el).2.2 p⟩

/-! ### unary operators -/

theorem unary_allW {W X : TokFn} {xe : Expr} (op : UnaryOp)
    (hW : ∀ lvl o el, W lvl o el =
      if unaryPrec < lvl then parens (sim op.tok :: X unaryPrec false false) else sim op.tok :: X unaryPrec o el)
    (h10x : ∀ o el, L10W pe R X xe o el) : AllW pe R W (.unary op xe .zero) := by
  have hbare : ∀ lvl o el, ¬ unaryPrec < lvl → W lvl o el = sim op.tok :: X unaryPrec o el :=
    fun lvl o el h => by rw [hW, if_neg h]
  have h10 : ∀ o el, L10W pe R W (.unary op xe .zero) o el := by
    intro o el S st tk T hk hR hns hfo
    rw [hbare unaryPrec o el (by decide)] at hk ⊢
    obtain ⟨a, l, hal⟩ := cons_of_append_cons (X unaryPrec o el) tk T
    obtain ⟨st1, hstep, hk1⟩ := unaryStep_hit op (b := a) (ks := l) S (st := st)
      (by rw [hk, ← hal]; simp)
    have hk1' : st1.kinds = X unaryPrec o el ++ tk :: T := by rw [hk1, hal]
    have hlen1 : st1.kinds.length ≤ R := by
      have : st1.kinds.length ≤ st.kinds.length := by rw [hk1', hk]; simp
      omega
    obtain ⟨x', st2, n, hex, hk2, hn, hr⟩ := h10x o el (.unary op st.cur.span :: S) st1 tk T hk1' hlen1 hns hfo
    refine ⟨.unary op x' (surround st.cur.span x'.span), st2, 1 + n + 1, ?_, hk2, ?_, ?_⟩
    · simp [Expr.erase, hex]
    · simp only [List.length_cons]; omega
    · exact Reach.trans pe (Reach.trans pe (Reach.unary pe hstep) hr) (Reach.parsed pe (fun _ _ => rfl))
  have hq : ∀ p o el, LQW pe R W (.unary op xe .zero) p o el := fun p o el =>
    LQW_of_L10W pe R p (by
      have := prec_lt p
      rw [hbare p.prec o el (by have : unaryPrec = 10 := rfl; omega), hbare unaryPrec o el (by decide)]) (h10 o el)
  have hpar : ∀ o el, W suffixPrec o el = parens (W 0 false false) := fun o el => by
    rw [hW, if_pos (by decide), hbare 0 false false (by decide)]
  refine ⟨fun o el => ?_, h10, hq⟩
  exact SufForm.of_head pe R (C := fun _ => True)
    (by rw [hpar]; exact paren_headW pe R (hq initKind false false)) (fun _ _ => trivial)

/-! ### binary operators and `in super` -/

/-- everything for a position that is bare exactly at the levels `≤ q` and parenthesised above -/
theorem open_allW {W : TokFn} {te : Expr} (q : Nat) (hq9 : q < unaryPrec)
    (hpar : ∀ lvl o el, q < lvl → W lvl o el = parens (W 0 false false))
    (bare : ∀ (p : BinKind) o el, p.prec ≤ q → LQW pe R W te p o el) : AllW pe R W te := by
  have hsuf : q < suffixPrec := by have : suffixPrec = 11 := rfl; have : unaryPrec = 10 := rfl; omega
  have hs : ∀ o el, SufForm pe R W te o el := fun o el =>
    SufForm.of_head pe R (C := fun _ => True)
      (by rw [hpar suffixPrec o el hsuf]
          exact paren_headW pe R (bare initKind false false (by rw [initKind_prec]; omega)))
      (fun _ _ => trivial)
  have h10 : ∀ o el, L10W pe R W te o el := fun o el =>
    L10W_of_L11W pe R (by rw [hpar unaryPrec o el hq9, hpar suffixPrec o el hsuf])
      ⟨_, _, by rw [hpar suffixPrec o el hsuf, parens_eq], notUnary_lparen⟩ (L11W_of pe R (hs o el))
  refine ⟨hs, h10, fun p o el => ?_⟩
  by_cases hp : p.prec ≤ q
  · exact bare p o el hp
  · exact LQW_of_L10W pe R p (by rw [hpar p.prec o el (by omega), hpar unaryPrec o el hq9]) (h10 o el)

omit pe R in
theorem binTok_ne_else (op : BinaryOp) : sim op.tok ≠ sim .Else := by
  cases op <;> decide

theorem binary_bareW {W L Rr : TokFn} {le re : Expr} (op : BinaryOp)
    (hql : ∀ p, LQW pe R L le p true false) (hqr : ∀ p o el, LQW pe R Rr re p o el)
    (h10r : ∀ o el, L10W pe R Rr re o el)
    (hsh : ∀ lvl o el, ∃ a m, Rr lvl o el = a :: m ∧
      (a = sim .Super → ∃ r2, m = sim .Dot :: r2 ∨ m = sim .LeftBracket :: r2))
    {k : BinKind} {tok : STok} {pre post : List (STok × BinaryOp)}
    (hops : k.ops = pre ++ (tok, op) :: post) (hpre : ∀ x ∈ pre, x.1 ≠ tok) (htokne : sim tok ≠ sim .Else)
    (p : BinKind) (hpk : p.prec ≤ k.prec) (o el : Bool)
    (hPt : W p.prec o el = L k.prec true false ++ sim tok :: Rr (k.prec + 1) o el) :
    LQW pe R W (.binary le op re .zero) p o el := by
  have hmem : (tok, op) ∈ k.ops := by rw [hops]; simp
  obtain ⟨hns_tok, hnoop_tok⟩ := tok_facts k tok op hmem
  intro c S st tk T hcp hk hR hns hno hfo
  rw [hPt] at hk ⊢
  obtain ⟨a, m, ham, hsup⟩ := hsh (k.prec + 1) o el
  have hk' : st.kinds = L k.prec true false ++ sim tok :: (a :: (m ++ tk :: T)) := by
    rw [hk, ham]; simp
  obtain ⟨S1, l', st1, n1, hb1, hel, hk1, hn1, hr1⟩ := hql k c S st (sim tok) (a :: (m ++ tk :: T))
    (by omega) hk' hR hns_tok
    (fun j hj => hnoop_tok j (by intro h; rw [h] at hj; omega)) (FollowOK.of_open htokne)
  have hlen1 : st1.kinds.length ≤ R := by
    have : st1.kinds.length ≤ st.kinds.length := by rw [hk1, hk']; simp
    omega
  have hg : tok = .In → (a ≠ sim .Super ∨ ∃ r2, m ++ tk :: T = sim .Dot :: r2 ∨ m ++ tk :: T = sim .LeftBracket :: r2) := by
    intro _
    by_cases ha : a = sim .Super
    · obtain ⟨r2, h | h⟩ := hsup ha
      · exact Or.inr ⟨r2 ++ tk :: T, Or.inl (by rw [h]; rfl)⟩
      · exact Or.inr ⟨r2 ++ tk :: T, Or.inr (by rw [h]; rfl)⟩
    · exact Or.inl ha
  obtain ⟨st2, hstep2, hk2⟩ := binaryRhs_hit hops hpre l' S1 hk1 hg
  have hk2' : st2.kinds = Rr (k.prec + 1) o el ++ tk :: T := by rw [hk2, ham]; simp
  have hlen2 : st2.kinds.length ≤ R := by
    have : st2.kinds.length ≤ st1.kinds.length := by rw [hk2, hk1]; simp
    omega
  -- the right operand
  have rhs : ∃ r' st4 n4, r'.erase = re ∧ st4.kinds = tk :: T ∧
      n4 + 5 ≤ 40 * (Rr (k.prec + 1) o el).length ∧
      Reach pe (R + 2) (.binaryRhs k l' op :: S1) (nextStateOf k) st2 n4 S1
        (.binaryRhs k (.binary l' op r' (surround l'.span r'.span))) st4 := by
    cases hnext : k.nextState with
    | some k1 =>
      have hk1p := prec_next hnext
      obtain ⟨S3, r', st3, n3, hb3, her, hk3, hn3, hr3⟩ := hqr k1 o el k1 (.binaryRhs k l' op :: S1) st2 tk T
        (Nat.le_refl _) (by rw [hk1p]; exact hk2') hlen2 hns (fun j hj => hno j (by omega)) hfo
      have := Below_self hb3
      subst this
      obtain ⟨st4, hstep4, hk4⟩ := binaryRhs_miss (k := k1) r' (.binaryRhs k l' op :: S1) (st := st3)
        (by rw [cur_kind_of_kinds hk3]; exact hno k1 (by omega))
      refine ⟨r', st4, n3 + 1 + 1, her, by rw [hk4, hk3], by rw [hk1p] at hn3; omega, ?_⟩
      have e : nextStateOf k = .binary k1 := by unfold nextStateOf; rw [hnext]
      rw [e]
      exact Reach.trans pe (Reach.trans pe hr3 (Reach.binaryRhs pe hstep4)) (Reach.parsed pe (fun _ _ => rfl))
    | none =>
      have hk9 := prec_last hnext
      have h10 : k.prec + 1 = unaryPrec := by rw [hk9]; rfl
      obtain ⟨r', st3, n3, her, hk3, hn3, hr3⟩ := h10r o el (.binaryRhs k l' op :: S1) st2 tk T
        (by rw [← h10]; exact hk2') hlen2 hns hfo
      refine ⟨r', st3, n3 + 1, her, hk3, by rw [← h10] at hn3; omega, ?_⟩
      have e : nextStateOf k = .unary := by unfold nextStateOf; rw [hnext]
      rw [e]
      exact Reach.trans pe hr3 (Reach.parsed pe (fun _ _ => rfl))
  obtain ⟨r', st4, n4, her, hk4, hn4, hr4⟩ := rhs
  obtain ⟨S', st5, hb5, hk5, hr5⟩ := reach_down pe (R + 2) c p S
    (.binary l' op r' (surround l'.span r'.span)) (k.prec - p.prec) k S1 st4 (by omega) hb1 hcp
    (by rw [cur_kind_of_kinds hk4]; exact hno)
  refine ⟨S', .binary l' op r' (surround l'.span r'.span), st5, n1 + 1 + n4 + 2 * (k.prec - p.prec), hb5, ?_,
    by rw [hk5, hk4], ?_, ?_⟩
  · simp [Expr.erase, hel, her]
  · have := prec_lt k
    simp only [List.length_append, List.length_cons]
    omega
  · exact Reach.trans pe (Reach.trans pe (Reach.trans pe hr1 (Reach.binaryRhs pe hstep2)) hr4) hr5

theorem binary_allW {W L Rr : TokFn} {le re : Expr} (op : BinaryOp)
    (hW : ∀ lvl o el, W lvl o el =
      if op.prec < lvl then parens (L op.prec true false ++ sim op.tok :: Rr (op.prec + 1) false false)
      else L op.prec true false ++ sim op.tok :: Rr (op.prec + 1) o el)
    (hql : ∀ p, LQW pe R L le p true false) (hqr : ∀ p o el, LQW pe R Rr re p o el)
    (h10r : ∀ o el, L10W pe R Rr re o el)
    (hsh : ∀ lvl o el, ∃ a m, Rr lvl o el = a :: m ∧
      (a = sim .Super → ∃ r2, m = sim .Dot :: r2 ∨ m = sim .LeftBracket :: r2)) :
    AllW pe R W (.binary le op re .zero) := by
  obtain ⟨k, tok, pre, post, hinfo, hops, hpre⟩ := binOp_split op
  obtain ⟨hprec, htok⟩ := op_prec_tok hinfo
  have hk9 := prec_lt k
  have hbare : ∀ lvl o el, ¬ op.prec < lvl →
      W lvl o el = L k.prec true false ++ sim tok :: Rr (k.prec + 1) o el := fun lvl o el h => by
    rw [hW, if_neg h, hprec, htok]
  refine open_allW pe R k.prec (by have : unaryPrec = 10 := rfl; omega) ?_ ?_
  · intro lvl o el hlvl
    rw [hW, if_pos (by omega), hbare 0 false false (by omega), hprec, htok]
  · intro p o el hp
    exact binary_bareW pe R op hql hqr h10r hsh hops hpre (by rw [← htok]; exact binTok_ne_else op) p hp o el
      (hbare p.prec o el (by omega))

theorem inSuper_allW {W X : TokFn} {xe : Expr}
    (hW : ∀ lvl o el, W lvl o el =
      if inSuperKind.prec < lvl then parens (X inSuperKind.prec true false ++ [sim .In, sim inSuperHead])
      else X inSuperKind.prec true false ++ [sim .In, sim inSuperHead])
    (hqe : ∀ p, LQW pe R X xe p true false) : AllW pe R W (.inSuper xe .zero .zero) := by
  have hbare : ∀ lvl o el, ¬ inSuperKind.prec < lvl →
      W lvl o el = X inSuperKind.prec true false ++ [sim .In, sim .Super] := fun lvl o el h => by
    rw [hW, if_neg h]; rfl
  refine open_allW pe R inSuperKind.prec (by decide) ?_ ?_
  · intro lvl o el hlvl
    rw [hW, if_pos hlvl, hbare 0 false false (by omega)]; rfl
  · intro p o el hp
    have hmem : (STok.In, BinaryOp.In) ∈ inSuperKind.ops := by decide
    obtain ⟨hns_tok, hnoop_tok⟩ := tok_facts inSuperKind .In .In hmem
    intro c S st tk T hcp hk hR hns hno hfo
    rw [hbare p.prec o el (by omega)] at hk ⊢
    have hk' : st.kinds = X inSuperKind.prec true false ++ sim .In :: (sim .Super :: tk :: T) := by
      rw [hk]; simp
    obtain ⟨S1, e', st1, n1, hb1, hee, hk1, hn1, hr1⟩ := hqe inSuperKind c S st (sim .In) (sim .Super :: tk :: T)
      (by omega) hk' hR hns_tok
      (fun j hj => hnoop_tok j (by intro h; rw [h] at hj; omega)) (FollowOK.of_open (by decide))
    obtain ⟨e2, st2, hstep2, he2, hk2⟩ := binaryRhs_inSuper e' S1 hk1 hns.1 hns.2.1
    obtain ⟨S', st3, hb3, hk3, hr3⟩ := reach_down pe (R + 2) c p S e2 (inSuperKind.prec - p.prec)
      inSuperKind S1 st2 (by omega) hb1 hcp (by rw [cur_kind_of_kinds hk2]; exact hno)
    refine ⟨S', e2, st3, n1 + 1 + 2 * (inSuperKind.prec - p.prec), hb3, ?_, by rw [hk3, hk2], ?_, ?_⟩
    · rw [he2]; simp [hee]
    · have : inSuperKind.prec = 6 := by decide
      simp only [List.length_append, List.length_cons, List.length_nil]
      omega
    · exact Reach.trans pe (Reach.trans pe hr1 (Reach.binaryRhs pe hstep2)) hr3

/-! ### postfix forms -/

/-- a postfix form `X Z` over the position `X` (printed at postfix level, open to the right) -/
theorem suffix_allW {W X : TokFn} {xe te : Expr} {z : TokKind} {Z' : Toks}
    (hW : ∀ lvl o el, W lvl o el = X suffixPrec true false ++ z :: Z')
    (hz1 : z ≠ sim .Tailstrict) (hz2 : z ≠ sim .Else)
    (hx : SufForm pe R X xe true false) (hXhead : ∃ a l, X suffixPrec true false = a :: l ∧ NotUnaryTok a)
    (step : SLtok pe R (z :: Z') xe te) : AllW pe R W te := by
  obtain ⟨H, Sf, he, C, hXs, hd, sl, hC⟩ := hx
  have hs : ∀ o el, SufForm pe R W te o el := by
    intro o el
    refine ⟨H, Sf ++ z :: Z', he, C, by rw [hW, hXs, List.append_assoc], hd, SLtok.comp pe R hz1 sl step, ?_⟩
    intro tk T y Y h _
    exact hC z (Z' ++ tk :: T) y Y (by rw [← h]; simp) (FollowOK.of_open hz2)
  have hc : ∀ o el, L10W pe R W te o el ∧ ∀ p, LQW pe R W te p o el := fun o el =>
    closedW pe R (fun lvl => by rw [hW, hW]) (by
      obtain ⟨a, l, hal, hnu⟩ := hXhead
      exact ⟨a, l ++ z :: Z', by rw [hW, hal]; rfl, hnu⟩) (hs o el)
  exact ⟨hs, fun o el => (hc o el).1, fun p o el => (hc o el).2 p⟩

end
end Rsj.Parser
