/-
  Helper lemmas for C20 about `std.parseJson` (model `Rsj.Json.parseJson`, owned by
  the C05 work package): it reads back `std.escapeStringJson` output, and every
  value it returns has pairwise distinct member names in every object.
-/
import RsjModel.Codec
import RsjModel.Json
namespace Rsj.Codec
open Rsj.Json

/-- The two models of `escape_string_json` (this module's and C05's) agree. -/
theorem escJsonChar_eq (c : Nat) : escJsonChar c = escapeChar c := by
  unfold escJsonChar escapeChar hex4 hexLower hexDig
  rfl

theorem escJson_eq (s : List Nat) : escJson s = escape s := by
  have h : ∀ s : List Nat, s.flatMap escJsonChar = escapeBody s := by
    intro s
    induction s with
    | nil => rfl
    | cons c s ih => rw [List.flatMap_cons, escapeBody, ih, escJsonChar_eq]
  unfold escJson escape
  rw [h]; rfl

theorem hexFromDigit_hexDig : ∀ d, d < 16 → hexFromDigit (hexDig d) = some d := by decide

theorem cu4_hexDig {a b c d : Nat} (ha : a < 16) (hb : b < 16) (hc : c < 16) (hd : d < 16) :
    cu4 (hexDig a) (hexDig b) (hexDig c) (hexDig d) = some (a * 4096 + b * 256 + c * 16 + d) := by
  unfold cu4
  rw [hexFromDigit_hexDig _ ha, hexFromDigit_hexDig _ hb, hexFromDigit_hexDig _ hc, hexFromDigit_hexDig _ hd]

theorem lexStrBody_plain {c : Nat} (r : List Nat) (h1 : c ≠ 34) (h2 : c ≠ 92) (h3 : ¬ c ≤ 0x1f) :
    lexStrBody (c :: r) = consStr c (lexStrBody r) := by
  rw [lexStrBody.eq_def]; dsimp only; rw [if_neg h1, if_neg h2, if_neg h3]

theorem lexStrBody_esc (s r : List Nat) : lexStrBody (s.flatMap escJsonChar ++ 34 :: r) = .ok (s, r) := by
  induction s with
  | nil =>
    show lexStrBody (34 :: r) = _
    rw [lexStrBody.eq_def]; dsimp only; rw [if_pos rfl]
  | cons c s ih =>
    rw [List.flatMap_cons, List.append_assoc]
    generalize hrest : s.flatMap escJsonChar ++ 34 :: r = rest at ih
    have simple : ∀ e, escJsonChar c = [92, e] →
        lexStrBody (92 :: e :: rest) = consStr c (lexStrBody rest) →
        lexStrBody (escJsonChar c ++ rest) = .ok (c :: s, r) := by
      intro e hx hl
      rw [hx]
      simp only [List.cons_append, List.nil_append]
      rw [hl, ih]; rfl
    by_cases h8 : c = 8
    · subst h8; exact simple 98 (by decide) (by rw [lexStrBody.eq_def]; simp)
    by_cases h9 : c = 9
    · subst h9; exact simple 116 (by decide) (by rw [lexStrBody.eq_def]; simp)
    by_cases h10 : c = 10
    · subst h10; exact simple 110 (by decide) (by rw [lexStrBody.eq_def]; simp)
    by_cases h12 : c = 12
    · subst h12; exact simple 102 (by decide) (by rw [lexStrBody.eq_def]; simp)
    by_cases h13 : c = 13
    · subst h13; exact simple 114 (by decide) (by rw [lexStrBody.eq_def]; simp)
    by_cases h34 : c = 34
    · subst h34; exact simple 34 (by decide) (by rw [lexStrBody.eq_def]; simp)
    by_cases h92 : c = 92
    · subst h92; exact simple 92 (by decide) (by rw [lexStrBody.eq_def]; simp)
    have hx : escJsonChar c = if c ≤ 0x1F ∨ (0x7F ≤ c ∧ c ≤ 0x9F) then
        [92, 117, hexDig (c / 4096 % 16), hexDig (c / 256 % 16), hexDig (c / 16 % 16), hexDig (c % 16)]
        else [c] := by
      unfold escJsonChar
      rw [if_neg h8, if_neg h9, if_neg h10, if_neg h12, if_neg h13, if_neg h34, if_neg h92]
    rw [hx]
    by_cases hctl : c ≤ 0x1F ∨ (0x7F ≤ c ∧ c ≤ 0x9F)
    · rw [if_pos hctl]
      simp only [List.cons_append, List.nil_append]
      rw [lexStrBody.eq_def]; dsimp only
      rw [if_neg (by decide), if_pos rfl]
      simp only [show (117 : Nat) ≠ 34 from by decide, show (117 : Nat) ≠ 92 from by decide,
        show (117 : Nat) ≠ 47 from by decide, show (117 : Nat) ≠ 98 from by decide,
        show (117 : Nat) ≠ 102 from by decide, show (117 : Nat) ≠ 110 from by decide,
        show (117 : Nat) ≠ 114 from by decide, show (117 : Nat) ≠ 116 from by decide, if_false, if_true]
      rw [cu4_hexDig (by omega) (by omega) (by omega) (by omega)]
      have hv : c / 4096 % 16 * 4096 + c / 256 % 16 * 256 + c / 16 % 16 * 16 + c % 16 = c := by omega
      simp only [hv]
      rw [if_neg (by omega), ih]; rfl
    · rw [if_neg hctl]
      simp only [List.cons_append, List.nil_append]
      rw [lexStrBody_plain _ h34 h92 (by omega), ih]; rfl

/-- `std.parseJson(std.escapeStringJson(s)) == s` in the models. -/
theorem parseJson_escJson (s : List Nat) : parseJson (escJson s) = .ok (.str s) := by
  have e : escJson s = 34 :: (s.flatMap escJsonChar ++ 34 :: []) := by simp [escJson]
  unfold parseJson
  rw [e]
  have hsk : skipSpaces (34 :: (s.flatMap escJsonChar ++ [34])) = 34 :: (s.flatMap escJsonChar ++ [34]) := by
    rw [skipSpaces]; simp [isWs]
  rw [hsk, List.length_cons]
  unfold run
  have hstart : startValue (34 :: (s.flatMap escJsonChar ++ [34])) = .ok (.value (.str s) []) := by
    unfold startValue
    have h1 : stripPrefix sNull (34 :: (s.flatMap escJsonChar ++ [34])) = none := by
      simp [sNull, stripPrefix]
    have h2 : stripPrefix sFalse (34 :: (s.flatMap escJsonChar ++ [34])) = none := by
      simp [sFalse, stripPrefix]
    have h3 : stripPrefix sTrue (34 :: (s.flatMap escJsonChar ++ [34])) = none := by
      simp [sTrue, stripPrefix]
    have h4 : lexNumber (34 :: (s.flatMap escJsonChar ++ [34])) = .ok none := by
      simp [lexNumber, numScan, numStep, isDigit19]
    have h5 : lexString (34 :: (s.flatMap escJsonChar ++ [34])) = .ok (some (s, [])) := by
      rw [lexString, lexStrBody_esc]
    rw [h1, h2, h3, h4, h5]
    rfl
  rw [hstart]
  rfl

/-! ### No duplicate member names -/

/-- Every object inside the value has pairwise distinct member names. -/
inductive NoDupKeys : JVal → Prop
  | null : NoDupKeys .null
  | bool (b : Bool) : NoDupKeys (.bool b)
  | num (t : Str) : NoDupKeys (.num t)
  | str (s : Str) : NoDupKeys (.str s)
  | arr {items : List JVal} : (∀ v ∈ items, NoDupKeys v) → NoDupKeys (.arr items)
  | obj {fields : List (Str × JVal)} : (fields.map (·.1)).Pairwise (· ≠ ·) →
      (∀ p ∈ fields, NoDupKeys p.2) → NoDupKeys (.obj fields)

def FieldsOk (fields : List (Str × JVal)) : Prop :=
  (fields.map (·.1)).Pairwise (· ≠ ·) ∧ ∀ p ∈ fields, NoDupKeys p.2

def FrameOk : Frame → Prop
  | .arr items => ∀ v ∈ items, NoDupKeys v
  | .obj fields _ => FieldsOk fields

theorem hasKey_false {k : Str} {fields : List (Str × JVal)} (h : hasKey k fields = false) :
    ∀ p ∈ fields, p.1 ≠ k := by
  induction fields with
  | nil => intro p hp; cases hp
  | cons q rest ih =>
    obtain ⟨k', v'⟩ := q
    simp only [hasKey, Bool.or_eq_false_iff] at h
    intro p hp
    simp only [List.mem_cons] at hp
    rcases hp with rfl | hp
    · intro heq
      have : (k' == k) = true := by simp only at heq; rw [heq]; exact beq_self_eq_true k
      rw [h.1] at this; cases this
    · exact ih h.2 p hp

theorem fieldsOk_snoc {fields : List (Str × JVal)} {k : Str} {v : JVal} (hf : FieldsOk fields)
    (hk : hasKey k fields = false) (hv : NoDupKeys v) : FieldsOk (fields ++ [(k, v)]) := by
  obtain ⟨hp, hvals⟩ := hf
  constructor
  · rw [List.map_append, List.pairwise_append]
    refine ⟨hp, by simp, ?_⟩
    intro a ha b hb
    simp only [List.map_cons, List.map_nil, List.mem_singleton] at hb
    subst hb
    rw [List.mem_map] at ha
    obtain ⟨p, hpm, rfl⟩ := ha
    exact hasKey_false hk p hpm
  · intro p hp
    simp only [List.mem_append, List.mem_singleton] at hp
    rcases hp with hp | rfl
    · exact hvals p hp
    · exact hv

theorem startValue_ok {s : Str} :
    (∀ v r, startValue s = .ok (.value v r) → NoDupKeys v) ∧
    (∀ f r, startValue s = .ok (.push f r) → FrameOk f) := by
  unfold startValue
  constructor
  · intro v r h
    repeat' split at h
    all_goals cases h
    all_goals first
      | exact .null
      | exact .bool _
      | exact .num _
      | exact .str _
      | exact .arr (by intro v hv; cases hv)
      | exact .obj (by simp) (by intro p hp; cases hp)
  · intro f r h
    repeat' split at h
    all_goals cases h
    all_goals first
      | (show ∀ v ∈ ([] : List JVal), NoDupKeys v; intro v hv; cases hv)
      | exact ⟨by simp, by intro p hp; cases hp⟩

theorem unwind_ok : ∀ (st : List Frame) (v : JVal) (rem : Str), NoDupKeys v → (∀ f ∈ st, FrameOk f) →
    (∀ v', unwind v st rem = .ok (.done v') → NoDupKeys v') ∧
    (∀ st' r', unwind v st rem = .ok (.more st' r') → ∀ f ∈ st', FrameOk f) := by
  intro st
  induction st with
  | nil =>
    intro v rem hv _
    unfold unwind
    constructor
    · intro v' h; split at h
      · cases h; exact hv
      · cases h
    · intro st' r' h; split at h <;> cases h
  | cons fr st ih =>
    intro v rem hv hst
    have hfr : FrameOk fr := hst fr (by simp)
    have hst' : ∀ f ∈ st, FrameOk f := fun f hf => hst f (by simp [hf])
    cases fr with
    | arr items =>
      have hitems : ∀ x ∈ items ++ [v], NoDupKeys x := by
        intro x hx
        simp only [List.mem_append, List.mem_singleton] at hx
        rcases hx with hx | rfl
        · exact hfr x hx
        · exact hv
      unfold unwind
      constructor
      · intro v' h
        split at h
        · exact (ih _ _ (.arr hitems) hst').1 v' h
        · cases h
        · cases h
      · intro st2 r2 h
        split at h
        · exact (ih _ _ (.arr hitems) hst').2 st2 r2 h
        · cases h
          intro f hf
          simp only [List.mem_cons] at hf
          rcases hf with rfl | hf
          · exact hitems
          · exact hst' f hf
        · cases h
    | obj fields key =>
      unfold unwind
      constructor
      · intro v' h
        split at h
        · cases h
        · next hk =>
          have hk' : hasKey key fields = false := by simpa using hk
          have hfo := fieldsOk_snoc hfr hk' hv
          split at h
          · exact (ih _ _ (.obj hfo.1 hfo.2) hst').1 v' h
          · split at h <;> cases h
          · cases h
      · intro st2 r2 h
        split at h
        · cases h
        · next hk =>
          have hk' : hasKey key fields = false := by simpa using hk
          have hfo := fieldsOk_snoc hfr hk' hv
          split at h
          · exact (ih _ _ (.obj hfo.1 hfo.2) hst').2 st2 r2 h
          · split at h
            · cases h
            · cases h
              intro f hf
              simp only [List.mem_cons] at hf
              rcases hf with rfl | hf
              · exact hfo
              · exact hst' f hf
          · cases h

theorem run_ok : ∀ (n : Nat) (st : List Frame) (rem : Str) (v : JVal), (∀ f ∈ st, FrameOk f) →
    run n st rem = .ok v → NoDupKeys v := by
  intro n
  induction n with
  | zero => intro st rem v _ h; cases h
  | succ n ih =>
    intro st rem v hst h
    unfold run at h
    split at h
    · cases h
    · next f r hs =>
      apply ih (f :: st) r v _ h
      intro g hg
      simp only [List.mem_cons] at hg
      rcases hg with rfl | hg
      · exact startValue_ok.2 _ _ hs
      · exact hst g hg
    · next v0 r hs =>
      have hv0 := startValue_ok.1 _ _ hs
      split at h
      · cases h
      · next v' hu => cases h; exact (unwind_ok st v0 r hv0 hst).1 _ hu
      · next st' r' hu => exact ih st' r' v ((unwind_ok st v0 r hv0 hst).2 _ _ hu) h

/-- Whatever `std.parseJson` accepts has no repeated member name in any object. -/
theorem parseJson_noDup {s : Str} {v : JVal} (h : parseJson s = .ok v) : NoDupKeys v :=
  run_ok _ [] _ v (by intro f hf; cases hf) h

/-! ### RFC 8259 as a declarative grammar (used by `C20_parseJson_exact`, formerly the unproved full statement
    `C20_parseJson_exact_full`) -/

/-- `ws = *( %x20 / %x09 / %x0A / %x0D )` -/
def IsWs (s : Str) : Prop := ∀ c ∈ s, c = 0x20 ∨ c = 0x09 ∨ c = 0x0A ∨ c = 0x0D

/-- `1*DIGIT` -/
def IsDigits (s : Str) : Prop := s ≠ [] ∧ ∀ c ∈ s, 48 ≤ c ∧ c ≤ 57

/-- `int = zero / ( digit1-9 *DIGIT )` -/
inductive JInt : Str → Prop
  | zero : JInt [48]
  | pos {d : Nat} {ds : Str} : 49 ≤ d → d ≤ 57 → (∀ c ∈ ds, 48 ≤ c ∧ c ≤ 57) → JInt (d :: ds)

/-- `number = [ minus ] int [ frac ] [ exp ]` -/
inductive JNumber : Str → Prop
  | mk {sign int frac exp : Str} : (sign = [] ∨ sign = [45]) → JInt int →
      (frac = [] ∨ ∃ ds, IsDigits ds ∧ frac = 46 :: ds) →
      (exp = [] ∨ ∃ e sg ds, (e = 101 ∨ e = 69) ∧ (sg = [] ∨ sg = [43] ∨ sg = [45]) ∧ IsDigits ds ∧
        exp = e :: (sg ++ ds)) →
      JNumber (sign ++ int ++ frac ++ exp)

/-- `*char` between the quotes, with the string it denotes.  A `\uXXXX` escape that
    is a surrogate code unit must be the first half of a pair: a lone surrogate
    denotes no sequence of Unicode scalar values (RFC 8259 section 8.2) and has no
    rule here. -/
inductive JChars : Str → Str → Prop
  | nil : JChars [] []
  | raw {c : Nat} {src out : Str} : 0x20 ≤ c → c ≠ 34 → c ≠ 92 → JChars src out → JChars (c :: src) (c :: out)
  | esc {e v : Nat} {src out : Str} : e ≠ 117 →
      (if e = 34 then some 34 else if e = 92 then some 92 else if e = 47 then some 47
        else if e = 98 then some 8 else if e = 102 then some 12 else if e = 110 then some 10
        else if e = 114 then some 13 else if e = 116 then some 9 else none) = some v →
      JChars src out → JChars (92 :: e :: src) (v :: out)
  | u {a b c d cu : Nat} {src out : Str} : cu4 a b c d = some cu → ¬ (0xD800 ≤ cu ∧ cu ≤ 0xDFFF) →
      JChars src out → JChars (92 :: 117 :: a :: b :: c :: d :: src) (cu :: out)
  | pair {a b c d a' b' c' d' hi lo : Nat} {src out : Str} : cu4 a b c d = some hi → cu4 a' b' c' d' = some lo →
      0xD800 ≤ hi → hi ≤ 0xDBFF → 0xDC00 ≤ lo → lo ≤ 0xDFFF → JChars src out →
      JChars (92 :: 117 :: a :: b :: c :: d :: 92 :: 117 :: a' :: b' :: c' :: d' :: src)
        ((0x10000 + (hi - 0xD800) * 0x400 + (lo - 0xDC00)) :: out)

mutual
/-- `value` with the value it denotes (numbers keep their token; they must be in the
    range of finite doubles). -/
inductive JValue : Str → JVal → Prop
  | null : JValue sNull .null
  | true : JValue sTrue (.bool true)
  | false : JValue sFalse (.bool false)
  | num {t : Str} : JNumber t → overflows t = false → JValue t (.num t)
  | str {src s : Str} : JChars src s → JValue (34 :: (src ++ [34])) (.str s)
  | arrEmpty {w : Str} : IsWs w → JValue (91 :: (w ++ [93])) (.arr [])
  | arr {src : Str} {items : List JVal} : JElements src items → JValue (91 :: (src ++ [93])) (.arr items)
  | objEmpty {w : Str} : IsWs w → JValue (123 :: (w ++ [125])) (.obj [])
  | obj {src : Str} {fields : List (Str × JVal)} : JMembers src fields →
      JValue (123 :: (src ++ [125])) (.obj fields)
/-- `value *( value-separator value )` with surrounding `ws` -/
inductive JElements : Str → List JVal → Prop
  | one {w1 body w2 : Str} {v : JVal} : IsWs w1 → IsWs w2 → JValue body v → JElements (w1 ++ body ++ w2) [v]
  | cons {w1 body w2 rest : Str} {v : JVal} {vs : List JVal} : IsWs w1 → IsWs w2 → JValue body v →
      JElements rest vs → JElements (w1 ++ body ++ w2 ++ 44 :: rest) (v :: vs)
/-- `member *( value-separator member )`, `member = string name-separator value` -/
inductive JMembers : Str → List (Str × JVal) → Prop
  | one {w1 ksrc k w2 w3 body w4 : Str} {v : JVal} : IsWs w1 → IsWs w2 → IsWs w3 → IsWs w4 → JChars ksrc k →
      JValue body v → JMembers (w1 ++ 34 :: (ksrc ++ [34]) ++ w2 ++ 58 :: (w3 ++ body ++ w4)) [(k, v)]
  | cons {w1 ksrc k w2 w3 body w4 rest : Str} {v : JVal} {fs : List (Str × JVal)} : IsWs w1 → IsWs w2 →
      IsWs w3 → IsWs w4 → JChars ksrc k → JValue body v → JMembers rest fs →
      JMembers (w1 ++ 34 :: (ksrc ++ [34]) ++ w2 ++ 58 :: (w3 ++ body ++ w4) ++ 44 :: rest) ((k, v) :: fs)
end

/-- `JSON-text = ws value ws` -/
def JText (s : Str) (v : JVal) : Prop :=
  ∃ w1 body w2, IsWs w1 ∧ IsWs w2 ∧ s = w1 ++ body ++ w2 ∧ JValue body v

end Rsj.Codec
