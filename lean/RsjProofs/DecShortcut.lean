/-
  The two shortcuts of `roundDec` (`RsjModel/Dec.lean`) for exponents beyond ±400
  are correct roundings, hence `roundDec` satisfies `isNearestEven` for every
  `(n, e)`:

  * `n ≥ 1`, `e > 400`:  `n · 10^e ≥ 10^401 ≥ 2^1203 ≥ 2^1024`  ⇒ the overflow marker;
  * `n ≥ 1`, `e + numDigits n < -400`:  `n · 10^e < 10^(e + numDigits n) ≤ 10^-401 ≤ 2^-1203`,
    below half of the least subnormal `2^-1075`  ⇒ rounds to `0`.

  No large power is ever evaluated: only `2^3 ≤ 10` raised to a power and
  monotonicity of powers are used.
-/
import RsjProofs.Dec
import RsjProofs.DecRound
namespace Rsj.Dec

/-- `8^k ≤ 10^k`. -/
theorem two_pow_le_ten_pow (k : Nat) : 2 ^ (3 * k) ≤ 10 ^ k := by
  rw [Nat.pow_mul]
  exact Nat.pow_le_pow_left (by decide) k

/-- `2^a ≤ 10^k` as soon as `a ≤ 3k`. -/
theorem two_pow_le_ten_pow_of_le {a k : Nat} (h : a ≤ 3 * k) : 2 ^ a ≤ 10 ^ k :=
  Nat.le_trans (Nat.pow_le_pow_right (by decide) h) (two_pow_le_ten_pow k)

/-- A list of `k` decimal digits denotes a number below `10^k`. -/
theorem ofDigits_lt (ds : List Nat) (h : ∀ d ∈ ds, d < 10) : ofDigits ds < 10 ^ ds.length := by
  induction ds with
  | nil => simp [ofDigits]
  | cons d ds ih =>
    have hd : d < 10 := h d (by simp)
    have := ih (fun x hx => h x (List.mem_cons_of_mem _ hx))
    rw [ofDigits_cons, List.length_cons, Nat.pow_succ]
    generalize 10 ^ ds.length = P at *
    have h1 : d * P + P ≤ 9 * P + P := Nat.add_le_add_right (Nat.mul_le_mul_right P (by omega)) P
    omega

/-- `n < 10^(numDigits n)` (also for `n = 0`: `0 < 10^0`). -/
theorem lt_ten_pow_numDigits (n : Nat) : n < 10 ^ numDigits n := by
  unfold numDigits
  by_cases h0 : n = 0
  · simp [h0]
  · simp only [h0, if_false]
    obtain ⟨h1, _, h3⟩ := natDigits_spec n
    have := ofDigits_lt (natDigits n) h1
    rw [h3] at this
    exact this

theorem pow_mul_pow_eq {a b c d : Nat} (h : a + b = c + d) : 2 ^ a * 2 ^ b = 2 ^ c * 2 ^ d := by
  rw [← Nat.pow_add, ← Nat.pow_add, h]

theorem INF_pred_succ : INF_BITS - 1 + 1 = INF_BITS := by decide

theorem INF_even : INF_BITS % 2 = 0 := by decide

theorem INF_ne_zero : INF_BITS ≠ 0 := by decide

theorem midSum_zero : midSum 0 = 2 := by decide

/-- Twice the midpoint below the overflow threshold is below `2 · 2^1024` (in units of `2^-1075`). -/
theorem midSum_INF_pred_lt : midSum (INF_BITS - 1) < 2 * (2 ^ 1024 * 2 ^ 1075) := by
  unfold midSum
  rw [INF_pred_succ]
  have h1 : scaled (INF_BITS - 1) < scaled INF_BITS := scaled_mono (by decide)
  have h2 : scaled INF_BITS = 2 ^ 1024 * 2 ^ 1075 :=
    scaled_INF.trans (pow_mul_pow_eq (a := 52) (b := 2047) (c := 1024) (d := 1075) (by decide))
  omega

/-- **Overflow shortcut.** Every `num ≥ 2^1024` rounds to the overflow marker. -/
theorem isNearestEven_INF {num : Nat} (h : 2 ^ 1024 ≤ num) : isNearestEven num 1 INF_BITS = true := by
  unfold isNearestEven
  simp only [Bool.and_eq_true, decide_eq_true_eq, Bool.or_eq_true, beq_iff_eq]
  refine ⟨⟨by decide, Nat.le_refl _⟩, Or.inr ?_, Or.inl trivial⟩
  simp only [INF_even, if_true, decide_eq_true_eq, Nat.mul_one]
  have h1 := midSum_INF_pred_lt
  generalize (2 : Nat) ^ 1075 = X at *
  generalize (2 : Nat) ^ 1024 = A at *
  have h2 : A * X ≤ num * X := Nat.mul_le_mul_right _ h
  omega

/-- **Underflow shortcut.** `num / den ≤ 2^-1075` (half the least subnormal; the tie goes
    to the even pattern `0`) rounds to `0`. -/
theorem isNearestEven_zero {num den : Nat} (hden : 0 < den) (h : num * 2 ^ 1075 ≤ den) :
    isNearestEven num den 0 = true := by
  unfold isNearestEven
  simp only [Bool.and_eq_true, decide_eq_true_eq, Bool.or_eq_true, beq_iff_eq]
  refine ⟨⟨hden, by decide⟩, Or.inl trivial, Or.inr ?_⟩
  simp only [if_true, decide_eq_true_eq, midSum_zero]
  omega

/-- **roundDec is correct** for every `n` and `e`, shortcuts included. -/
theorem roundDec_spec (n : Nat) (e : Int) :
    isNearestEven (decFrac n e).1 (decFrac n e).2 (roundDec n e) = true := by
  unfold roundDec decFrac
  by_cases hn : n = 0
  · -- zero is exact
    subst hn
    simp only [if_true]
    by_cases he : e ≥ 0
    · simp only [he, if_true, Nat.zero_mul]
      exact isNearestEven_zero (by decide) (by generalize (2 : Nat) ^ 1075 = X; rw [Nat.zero_mul]; exact Nat.zero_le _)
    · simp only [he, if_false]
      exact isNearestEven_zero (Nat.pow_pos (by decide)) (by generalize (2 : Nat) ^ 1075 = X; rw [Nat.zero_mul]; exact Nat.zero_le _)
  · simp only [hn, if_false]
    by_cases hbig : e > 400
    · -- overflow shortcut
      have he : e ≥ 0 := by omega
      simp only [hbig, he, if_true]
      apply isNearestEven_INF
      have h1 : 2 ^ 1024 ≤ 10 ^ e.toNat := two_pow_le_ten_pow_of_le (a := 1024) (k := e.toNat) (by omega)
      exact Nat.le_trans h1 (Nat.le_mul_of_pos_left _ (Nat.pos_of_ne_zero hn))
    · simp only [hbig, if_false]
      by_cases hsmall : e + (numDigits n : Int) < -400
      · -- underflow shortcut
        have he : ¬ e ≥ 0 := by omega
        simp only [hsmall, he, if_true, if_false]
        apply isNearestEven_zero (Nat.pow_pos (by decide))
        obtain ⟨m, hm⟩ : ∃ m, (-e).toNat = numDigits n + m := ⟨(-e).toNat - numDigits n, by omega⟩
        have hm401 : 401 ≤ m := by omega
        rw [hm, Nat.pow_add]
        have h1 : n ≤ 10 ^ numDigits n := Nat.le_of_lt (lt_ten_pow_numDigits n)
        have h2 : 2 ^ 1075 ≤ 10 ^ m := two_pow_le_ten_pow_of_le (a := 1075) (k := m) (by omega)
        exact Nat.mul_le_mul h1 h2
      · simp only [hsmall, if_false]
        by_cases he : e ≥ 0
        · simp only [he, if_true]
          exact roundNE_spec _ _ (by omega)
        · simp only [he, if_false]
          exact roundNE_spec _ _ (Nat.pow_pos (by omega))

end Rsj.Dec
