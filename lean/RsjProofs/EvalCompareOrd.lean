/-
  C08 on the evaluator model, part 5: the task `compare` on deeply evaluated values computes
  `lexCompare` of the comparison model on their abstractions (result `-1 / 0 / 1`).
-/
import RsjProofs.EvalCompareEq
set_option linter.unusedSectionVars false
namespace Rsj.Eval.Cmp
open Rsj.Core Rsj.Eval
open Rsj.Compare (structEq eqList eqFields lexCompare cmpThunks)

variable [L : FloatLaws]

theorem lexCompare_of_ty_ne {x y : CV} (h : x.ty ≠ y.ty) :
    lexCompare x y = .error (.compareDifferentTypes x.ty y.ty) := by
  cases x <;> cases y <;> first | rfl | exact absurd rfl h

theorem cmpArms_of_ty_ne (cfg : Cfg) (rec : Task → M Value) (d : Nat) {a b : Value}
    (h : tyOf a ≠ tyOf b) :
    cmpArms cfg rec d a b =
      throw (.rt "CompareDifferentTypesInequality" (typeName a ++ "/" ++ typeName b)) := by
  cases a <;> cases b <;> first | rfl | exact absurd rfl h

/-- Assumptions on the recursive-call function for values of height `H`. -/
structure RecCmp (cfg : Cfg) (rec : Task → M Value) (st : St) (H : Nat) : Prop where
  force : 0 < H → ∀ t v d, st.thunks[t]? = some (.done v) → Ret (rec (.force t d)) st (.ok v)
  compare : ∀ h, H = h + 1 → ∀ a b d, Evald st h a → Evald st h b → d + h ≤ cfg.maxStack →
    Ret (rec (.compare a b d)) st (outO (lexCompare (absVal st h a) (absVal st h b)))

theorem compareLists_ret {cfg : Cfg} {rec : Task → M Value} {st : St} {h : Nat}
    (R : RecCmp cfg rec st (h + 1)) (d : Nat) (hd : d + (h + 1) ≤ cfg.maxStack) :
    ∀ xs ys : List TId,
      (∀ t ∈ xs, ∃ w, st.thunks[t]? = some (.done w) ∧ Evald st h w) →
      (∀ t ∈ ys, ∃ w, st.thunks[t]? = some (.done w) ∧ Evald st h w) →
      Ret (compareLists cfg rec d xs ys) st
        (outO (cmpThunks (xs.map (absThunkWith (absVal st h) st)) (ys.map (absThunkWith (absVal st h) st)))) := by
  intro xs
  induction xs with
  | nil =>
    intro ys _ _
    cases ys with
    | nil => rw [compareLists, List.map_nil, cmpThunks]; exact Ret.pure _ _
    | cons y ys => rw [compareLists, List.map_nil, List.map_cons, cmpThunks]; exact Ret.pure _ _
  | cons x xs ih =>
    intro ys hx hy
    cases ys with
    | nil => rw [compareLists, List.map_nil, List.map_cons, cmpThunks]; exact Ret.pure _ _
    | cons y ys =>
      obtain ⟨wx, hwx, ewx⟩ := hx x (List.mem_cons_self ..)
      obtain ⟨wy, hwy, ewy⟩ := hy y (List.mem_cons_self ..)
      have ih' := ih ys (fun t ht => hx t (List.mem_cons_of_mem _ ht))
        (fun t ht => hy t (List.mem_cons_of_mem _ ht))
      rw [compareLists_cons, List.map_cons, List.map_cons, absThunk_done hwx, absThunk_done hwy,
        cmpThunks]
      refine Ret.bind_ok (Ret_checkDepth (by omega)) ?_
      refine Ret.bind_ok (R.force (Nat.succ_pos _) x wx _ hwx) ?_
      refine Ret.bind_ok (R.force (Nat.succ_pos _) y wy _ hwy) ?_
      have he := R.compare h rfl wx wy (d + 1) ewx ewy (by omega)
      cases hs : lexCompare (absVal st h wx) (absVal st h wy) with
      | error e =>
        rw [hs] at he
        exact Ret.bind_err he
      | ok o =>
        rw [hs] at he
        refine Ret.bind_ok he ?_
        show Ret (if (ordF o == 0.0) = true then compareLists cfg rec d xs ys else pure (Value.num (ordF o))) st _
        rw [ordF_beq_zero]
        cases o with
        | eq => exact ih'
        | lt => exact Ret.pure _ _
        | gt => exact Ret.pure _ _

/-- numbers: the chain of `<`, `==`, `>` tests is `partial_cmp` -/
theorem cmpArms_num_ret (cfg : Cfg) (rec : Task → M Value) (d : Nat) (st : St) {x y : Float}
    (hx : FOk x) (hy : FOk y) :
    Ret (cmpArms cfg rec d (.num x) (.num y)) st (.ok (.num (ordF (cmpF x y)))) := by
  show Ret (if x < y then pure (Value.num (-1.0)) else if (x == y) = true then pure (Value.num 0.0)
      else if x > y then pure (Value.num 1.0) else throw (.internal "partial_cmp of NaN")) st _
  unfold cmpF
  by_cases h1 : x < y
  · rw [if_pos h1, if_pos h1]; exact Ret.pure _ _
  · rw [if_neg h1, if_neg h1]
    by_cases h2 : (x == y) = true
    · rw [if_pos h2, if_pos h2]; exact Ret.pure _ _
    · rw [if_neg h2, if_neg h2]
      have h3 : x > y := by
        rcases L.tri x y hx hy with h | h | h
        · exact absurd h h1
        · exact absurd h h2
        · exact h
      rw [if_pos h3]; exact Ret.pure _ _

/-- One level of `compare` on evaluated values: the verdict of `lexCompare`. -/
theorem step_compare_ret {cfg : Cfg} {rec : Task → M Value} {st : St} {H : Nat} (R : RecCmp cfg rec st H)
    (a b : Value) (d : Nat) (ha : Evald st H a) (hb : Evald st H b) (hd : d + H ≤ cfg.maxStack) :
    Ret (step cfg rec (.compare a b d)) st (outO (lexCompare (absVal st H a) (absVal st H b))) := by
  rw [step_compare]
  by_cases hty : tyOf a = tyOf b
  · cases a <;> cases b <;> try (simp [tyOf] at hty)
    case null.null =>
      rw [absVal_null]; exact Ret.throw _ _
    case bool.bool x y =>
      rw [absVal_bool, absVal_bool]; exact Ret.throw _ _
    case num.num x y =>
      rw [absVal_num, absVal_num]
      show Ret _ st (outO (.ok (Compare.NumOrd.cmp (absNum x) (absNum y))))
      rw [cmp_absNum (Evald_num ha) (Evald_num hb)]
      exact cmpArms_num_ret cfg rec d st (Evald_num ha) (Evald_num hb)
    case str.str x y =>
      rw [absVal_str, absVal_str]
      show Ret (pure (Value.num (ordF (compare x y)))) st (.ok (Value.num (ordF (Compare.cmpCps (absStr x) (absStr y)))))
      rw [str_compare]
      exact Ret.pure _ _
    case func.func x y =>
      rw [absVal_func, absVal_func]; exact Ret.throw _ _
    case arr.arr xs ys =>
      obtain ⟨h, rfl, hx⟩ := Evald_arr ha
      obtain ⟨h2, e2, hy⟩ := Evald_arr hb
      have e3 : h = h2 := by omega
      subst e3
      rw [absVal_arr, absVal_arr, lexCompare]
      exact compareLists_ret R d hd xs ys hx hy
    case obj.obj x y =>
      obtain ⟨h, rfl, obx, hox, hcx, hfx⟩ := Evald_obj ha
      obtain ⟨h2, e2, oby, hoy, hcy, hfy⟩ := Evald_obj hb
      have e3 : h = h2 := by omega
      subst e3
      rw [absVal_obj st h hox, absVal_obj st h hoy]
      exact Ret.throw _ _
  · rw [cmpArms_of_ty_ne cfg rec d hty, lexCompare_of_ty_ne (by rw [abs_ty, abs_ty]; exact hty),
      abs_ty, abs_ty, typeName_tyOf, typeName_tyOf]
    exact Ret.throw _ _

/-- **Refinement, `compare`.**  On deeply evaluated values `a`, `b` of height at most `h`, with
    `h + 1` levels of fuel and `h` frames to spare, the evaluator's `compare` returns the verdict of
    `lexCompare` on the abstractions — `-1 / 0 / 1` for an ordering, the corresponding
    `Compare…Inequality` error otherwise — and leaves the store unchanged (up to the ghost depth
    counter). -/
theorem run_compare_ret (cfg : Cfg) (st : St) : ∀ (h n : Nat), h + 1 ≤ n → ∀ (a b : Value) (d : Nat),
    Evald st h a → Evald st h b → d + h ≤ cfg.maxStack →
    Ret (run cfg n (.compare a b d)) st (outO (lexCompare (absVal st h a) (absVal st h b))) := by
  intro h
  induction h with
  | zero =>
    intro n hn a b d ha hb hd
    obtain ⟨n, rfl⟩ : ∃ m, n = m + 1 := ⟨n - 1, by omega⟩
    rw [run_succ]
    refine Ret.bind_ok (Ret_noteDepth _ _) ?_
    refine step_compare_ret ⟨?_, ?_⟩ a b d ha hb hd
    · intro h0; omega
    · intro h' e; omega
  | succ h ih =>
    intro n hn a b d ha hb hd
    obtain ⟨n, rfl⟩ : ∃ m, n = m + 1 := ⟨n - 1, by omega⟩
    obtain ⟨n, rfl⟩ : ∃ m, n = m + 1 := ⟨n - 1, by omega⟩
    rw [run_succ]
    refine Ret.bind_ok (Ret_noteDepth _ _) ?_
    refine step_compare_ret ⟨?_, ?_⟩ a b d ha hb hd
    · intro _ t v d' ht; exact run_force_done cfg n d' ht
    · intro h' e a' b' d' ha' hb' hd'
      have e3 : h = h' := by omega
      subst e3
      exact ih (n + 1) (by omega) a' b' d' ha' hb' hd'

end Rsj.Eval.Cmp
